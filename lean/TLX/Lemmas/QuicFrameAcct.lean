/-
Helper lemmas for C17, "every payload byte accounted for exactly once": for a well-formed sequence
the returned frames tile the payload and each byte-string attribute is the slice of the payload
that lies, inside the frame's own extent, where the frame's integer attributes say.
-/
import TLX.Lemmas.QuicFrameAny
set_option linter.unusedSimpArgs false
set_option linter.unusedVariables false
namespace TLX.Lemmas.QuicFrameAcct
open TLX TLX.Quic TLX.Quic.Varint TLX.Quic.Frame TLX.Spec.QuicFrames TLX.Lemmas.QuicVarint TLX.Lemmas.QuicFrames
open TLX.Lemmas.QuicFrameSeq TLX.Lemmas.QuicFrameAny

/-- what "accounted" means for one byte-string attribute `ad = (relative start, bytes)` of a frame of
    length `len` whose wire image starts `q` -/
def Placed (q : Bytes) (len : Nat) (ad : Nat × Bytes) : Prop :=
  ad.1 + ad.2.length ≤ len ∧ Bytes.slice q ad.1 (ad.1 + ad.2.length) = ad.2

theorem slice_suffix (hdr d tail : Bytes) (i : Nat) (hi : i = (hdr ++ d).length - d.length) :
    Bytes.slice (hdr ++ d ++ tail) i (i + d.length) = d := by
  apply slice_mid (hdr ++ d ++ tail) hdr d tail i _ (by simp) _ rfl
  rw [hi, List.length_append]; omega

theorem placed_suffix (hdr d tail : Bytes) (i : Nat) (hi : i = (hdr ++ d).length - d.length) :
    Placed (hdr ++ d ++ tail) (hdr ++ d).length (i, d) := by
  refine ⟨?_, slice_suffix hdr d tail i hi⟩
  simp only [hi, List.length_append]; omega

theorem dataAt_encode (g : QFrame) (hwf : g.wf) (tail : Bytes) :
    (∀ ad ∈ g.toParsed.dataAt, Placed (g.encode ++ tail) g.encode.length ad) ∧
    g.toParsed.dataAt.Pairwise (fun x y => x.1 + x.2.length ≤ y.1) := by
  cases g <;> simp only [QFrame.toParsed, Parsed.dataAt, List.not_mem_nil, false_imp_iff, implies_true,
    List.Pairwise.nil, and_self, List.mem_cons, or_false, forall_eq, List.pairwise_cons, and_true,
    forall_eq_or_imp]
  case crypto off lw d => exact placed_suffix _ d tail _ rfl
  case newToken lw d => exact placed_suffix _ d tail _ rfl
  case stream fin sid off lw d => exact placed_suffix _ d tail _ rfl
  case connectionClose e ft lw d => exact placed_suffix _ d tail _ rfl
  case datagram lw d => exact placed_suffix _ d tail _ rfl
  case pathChallenge d =>
    have h8 : d.length = 8 := hwf
    exact placed_suffix [26] d tail 1 (by simp)
  case pathResponse d =>
    have h8 : d.length = 8 := hwf
    exact placed_suffix [27] d tail 1 (by simp)
  case newConnectionId seq rpt cid tok =>
    obtain ⟨_, _, h3, h4⟩ := hwf
    have hlen : (QFrame.newConnectionId seq rpt cid tok).encode.length = 1 + seq.w.w + rpt.w.w + 1 + cid.length + 16 := by
      simp [QFrame.encode, VI.enc_length, h4]; omega
    refine ⟨⟨⟨?_, ?_⟩, ⟨?_, ?_⟩⟩, ?_⟩
    · rw [hlen]; simp only; omega
    · exact slice_mid _ ([24] ++ seq.enc ++ rpt.enc ++ [UInt8.ofNat cid.length]) cid (tok ++ tail) _ _
        (by simp [QFrame.encode]) (by rw [hlen]; simp [VI.enc_length]; omega) rfl
    · rw [hlen]; simp only [h4]; omega
    · exact slice_mid _ ([24] ++ seq.enc ++ rpt.enc ++ [UInt8.ofNat cid.length] ++ cid) tok tail _ _
        (by simp [QFrame.encode]) (by rw [hlen]; simp [VI.enc_length]; omega) rfl
    · rw [hlen]; omega

theorem wfSeq_all (fs : List QFrame) (h : WellFormedSeq fs) : ∀ f ∈ fs, f.wf := by
  induction fs with
  | nil => simp
  | cons f rest ih =>
    obtain ⟨hf, _, hr⟩ := (wfSeq_cons f rest).mp h
    intro g hg
    rcases List.mem_cons.mp hg with rfl | hg
    · exact hf
    · exact ih hr g hg

theorem slice_append_left (a x : Bytes) (i j : Nat) :
    Bytes.slice (a ++ x) (a.length + i) (a.length + j) = Bytes.slice x i j := by
  unfold Bytes.slice
  rw [show a.length + j - (a.length + i) = j - i by omega, ← List.drop_drop, List.drop_left]

theorem accounted (gs : List QFrame) (hwf : ∀ g ∈ gs, g.wf) :
    ((gs.map QFrame.toParsed).map Parsed.length).sum = (encodeAll gs).length ∧
    ∀ i (hi : i < (gs.map QFrame.toParsed).length),
      (∀ ad ∈ ((gs.map QFrame.toParsed)[i]).dataAt,
        ad.1 + ad.2.length ≤ ((gs.map QFrame.toParsed)[i]).length ∧
        Bytes.slice (encodeAll gs) (startOf (gs.map QFrame.toParsed) i + ad.1)
          (startOf (gs.map QFrame.toParsed) i + ad.1 + ad.2.length) = ad.2) ∧
      ((gs.map QFrame.toParsed)[i]).dataAt.Pairwise (fun x y => x.1 + x.2.length ≤ y.1) := by
  induction gs with
  | nil => simp [encodeAll]
  | cons g rest ih =>
    have hg := hwf g (by simp)
    obtain ⟨ih1, ih2⟩ := ih (fun x hx => hwf x (by simp [hx]))
    have hl := toParsed_length g hg
    refine ⟨?_, ?_⟩
    · simp only [List.map_cons, List.sum_cons, encodeAll_cons, List.length_append, hl, ih1]
    · intro i hi
      cases i with
      | zero =>
        obtain ⟨d1, d2⟩ := dataAt_encode g hg (encodeAll rest)
        simp only [List.map_cons, List.getElem_cons_zero, startOf_zero, Nat.zero_add, encodeAll_cons, hl]
        exact ⟨fun ad had => d1 ad had, d2⟩
      | succ j =>
        have hj : j < (rest.map QFrame.toParsed).length := by simpa using hi
        obtain ⟨e1, e2⟩ := ih2 j hj
        simp only [List.map_cons, List.getElem_cons_succ, startOf_succ, encodeAll_cons, hl]
        refine ⟨fun ad had => ⟨(e1 ad had).1, ?_⟩, e2⟩
        rw [Nat.add_assoc, Nat.add_assoc, slice_append_left]
        exact (e1 ad had).2

/-- Frame extents `[startOf ps i, startOf ps (i+1))` of frames with positive length tile `[0, Σ length)`:
    every position lies in exactly one of them. -/
theorem unique_extent (ps : List Parsed) (hpos : ∀ f ∈ ps, 1 ≤ f.length) (k : Nat)
    (hk : k < (ps.map Parsed.length).sum) :
    ∃ i, (i < ps.length ∧ startOf ps i ≤ k ∧ k < startOf ps (i + 1)) ∧
      ∀ j, (j < ps.length ∧ startOf ps j ≤ k ∧ k < startOf ps (j + 1)) → j = i := by
  induction ps generalizing k with
  | nil => simp at hk
  | cons f rest ih =>
    have hf := hpos f (by simp)
    by_cases hlt : k < f.length
    · refine ⟨0, ⟨by simp, by simp [startOf_zero], by simpa [startOf_succ, startOf_zero] using hlt⟩, ?_⟩
      intro j ⟨_, hj1, _⟩
      cases j with
      | zero => rfl
      | succ j' => rw [startOf_succ] at hj1; omega
    · simp only [List.map_cons, List.sum_cons] at hk
      obtain ⟨i, ⟨hi1, hi2, hi3⟩, hu⟩ := ih (fun g hg => hpos g (by simp [hg])) (k - f.length) (by omega)
      refine ⟨i + 1, ⟨by simpa using hi1, by rw [startOf_succ]; omega, by rw [startOf_succ]; omega⟩, ?_⟩
      intro j ⟨hj0, hj1, hj2⟩
      cases j with
      | zero => simp only [startOf_succ, startOf_zero] at hj2; omega
      | succ j' =>
        rw [startOf_succ] at hj1 hj2
        have := hu j' ⟨by simpa using hj0, by omega, by omega⟩
        omega

end TLX.Lemmas.QuicFrameAcct
