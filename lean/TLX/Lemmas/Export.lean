/-
Lemmas for `Props/Export.lean`: the addresses of every exported frame come from dpkt's dissection of a captured frame
(`Lemmas/DissectAddr.lean`), through `Ingest` (`itemsWith_good`), the session objects of both composed machines
(`runItems_good`) and the two output builders (`framesFrom_wf`). Core Lean only.
-/
import TLX.Lemmas.DissectAddr
import TLX.Export
namespace TLX.Lemmas.Export
open TLX TLX.MainLoop TLX.Pipeline

/-- what the output builders need from a packet that may open a session, and from the `Info` behind its tag -/
def GoodPkt (info : Nat → Info) (p : Pkt) : Prop :=
  (info p.tag).srcMac.length = 6 ∧ (info p.tag).dstMac.length = 6 ∧
  p.src.ip.length = (if (info p.tag).ipv6 then 16 else 4) ∧ p.dst.ip.length = (if (info p.tag).ipv6 then 16 else 4)

theorem framePkt_good (c : Bool) (tag us : Nat) (buf : Bytes) (p : Pkt) (i : Info)
    (h : Ingest.framePkt c tag us buf = .ok (p, i)) :
    p.tag = tag ∧ (p.l4 ≠ .other → i.srcMac.length = 6 ∧ i.dstMac.length = 6 ∧
      p.src.ip.length = (if i.ipv6 then 16 else 4) ∧ p.dst.ip.length = (if i.ipv6 then 16 else 4)) := by
  unfold Ingest.framePkt at h
  split at h
  · cases h
  · cases h; exact ⟨rfl, fun hn => absurd rfl hn⟩
  · rename_i x hx
    have hl := TLX.Lemmas.DissectAddr.dissect_addr_lengths _ _ _ hx
    split at h
    · cases h
    · simp only at h
      split at h <;> cases h
      · exact ⟨rfl, fun _ => hl⟩
      · exact ⟨rfl, fun _ => hl⟩
      · exact ⟨rfl, fun hn => absurd rfl hn⟩

def frameOf? : Item Keylog.Key → Option Pkt
  | .frame p => some p
  | .dsb _ => none

theorem lookup_cons_ne (t : Nat) (i : Info) (is : List (Nat × Info)) (tag : Nat) (h : tag ≠ t) :
    Ingest.lookup ((t, i) :: is) tag = Ingest.lookup is tag := by
  unfold Ingest.lookup
  rw [List.find?_cons_of_neg]
  simp only [beq_iff_eq]; omega

theorem lookup_cons_eq (t : Nat) (i : Info) (is : List (Nat × Info)) : Ingest.lookup ((t, i) :: is) t = i := by
  simp [Ingest.lookup]

theorem go_good (hc : Keylog.HexClass) (c : Bool) (its : List Container.Item) :
    ∀ (tag : Nat) (xs : List (Item Keylog.Key)) (is : List (Nat × Info)), Ingest.go hc c tag its = .ok (xs, is) →
      ∀ p, Item.frame p ∈ xs → tag ≤ p.tag ∧ (p.l4 ≠ .other → GoodPkt (Ingest.lookup is) p) := by
  induction its with
  | nil => intro tag xs is h; cases h; intro p hp; cases hp
  | cons it rest ih =>
    intro tag xs is h p hp
    unfold Ingest.go at h
    have dsbCase : ∀ (str : Keylog.Str),
        (match Ingest.go hc c (tag + 1) rest with
          | .error e => (.error e : Except Ingest.Err Ingest.Out)
          | .ok (xs, is) => .ok (.dsb (Keylog.getKeysFromString hc str) :: xs, is)) = .ok (xs, is) →
        tag ≤ p.tag ∧ (p.l4 ≠ .other → GoodPkt (Ingest.lookup is) p) := by
      intro str h
      split at h
      · cases h
      · rename_i xs' is' hr
        cases h
        simp only [List.mem_cons] at hp
        rcases hp with hp | hp
        · cases hp
        · have := ih _ _ _ hr p hp
          exact ⟨by omega, this.2⟩
    cases it with
    | dsb s =>
      simp only at h
      split at h
      · cases h
      · exact dsbCase _ h
    | pkt t buf =>
      simp only at h
      split at h
      · split at h
        · cases h
        · exact dsbCase _ h
      · split at h
        · cases h
        · rename_i p0 i0 hf
          split at h
          · cases h
          · rename_i xs' is' hr
            cases h
            have hf' := framePkt_good _ _ _ _ _ _ hf
            simp only [List.mem_cons] at hp
            rcases hp with hp | hp
            · cases hp
              refine ⟨by omega, fun hn => ?_⟩
              unfold GoodPkt
              rw [hf'.1, lookup_cons_eq]
              exact hf'.2 hn
            · have := ih _ _ _ hr p hp
              refine ⟨by omega, fun hn => ?_⟩
              unfold GoodPkt
              rw [lookup_cons_ne _ _ _ _ (by omega)]
              exact this.2 hn

theorem itemsWith_good (hc : Keylog.HexClass) (c legacy : Bool) (file : Bytes) (xs : List (Item Keylog.Key))
    (is : List (Nat × Info)) (h : Ingest.itemsWith hc c legacy file = .ok (xs, is)) :
    ∀ p, Item.frame p ∈ xs → p.l4 ≠ .other → GoodPkt (Ingest.lookup is) p := by
  unfold Ingest.itemsWith at h
  split at h
  · cases h
  · split at h
    · cases h
    · rename_i out ho
      split at h
      · cases h
        intro p hp; exact (go_good hc c _ 0 _ _ ho p hp).2
      · cases h

/-- a TLS session object whose addresses the output builder can use -/
def GT (c : Conn) : Prop :=
  c.serverMac.length = 6 ∧ c.clientMac.length = 6 ∧
  c.server.ip.length = (if c.ipv6 then 16 else 4) ∧ c.client.ip.length = (if c.ipv6 then 16 else 4)

def GQ (c : QuicPipeline.QConn) : Prop :=
  c.serverMac.length = 6 ∧ c.clientMac.length = 6 ∧
  c.server.ip.length = (if c.ipv6 then 16 else 4) ∧ c.client.ip.length = (if c.ipv6 then 16 else 4)

theorem tls_new_good (H : Crypto.Prims) (P : Cipher.Prims) (info : Nat → Info) (o : Opts) (p : Pkt)
    (h : GoodPkt info p) : GT ((tlsMachine H P info).new o p) := by
  obtain ⟨h1, h2, h3, h4⟩ := h
  simp only [tlsMachine, GT, rolesOf]
  split <;> (refine ⟨?_, ?_, ?_, ?_⟩ <;> first | assumption | (split <;> assumption))

theorem quic_new_good (mask : Quic.Dissect.MaskFn) (H : Crypto.Prims) (P : Cipher.Prims) (info : Nat → Info) (o : Opts)
    (p : Pkt) (h : GoodPkt info p) : GQ ((QuicPipeline.quicMachine mask H P info).new o p) := by
  obtain ⟨h1, h2, h3, h4⟩ := h
  simp only [QuicPipeline.quicMachine, GQ, rolesOf]
  split <;> (refine ⟨?_, ?_, ?_, ?_⟩ <;> first | assumption | (split <;> assumption))

theorem quic_feed_good (mask : Quic.Dissect.MaskFn) (H : Crypto.Prims) (P : Cipher.Prims) (info : Nat → Info)
    (c : QuicPipeline.QConn) (kl : List Keylog.Key) (p : Pkt) (d : Bytes) (v : Version) (h : GQ c) :
    GQ ((QuicPipeline.quicMachine mask H P info).feed c kl p d v) := by
  simp only [QuicPipeline.quicMachine]
  split
  · exact h
  · exact h

theorem tlsHandle_good (H : Crypto.Prims) (P : Cipher.Prims) (info : Nat → Info) (o : Opts) (p : Pkt)
    (hp : GoodPkt info p) (ss : List (TlsSess Conn)) (h : ∀ s ∈ ss, GT s.st) :
    ∀ s ∈ tlsHandle (tlsMachine H P info) o ss p, GT s.st := by
  induction ss with
  | nil =>
    intro s hs
    simp only [tlsHandle] at hs
    split at hs
    · simp only [List.mem_singleton] at hs
      subst hs
      exact tls_new_good H P info o p hp
    · cases hs
  | cons a rest ih =>
    intro s hs
    simp only [tlsHandle] at hs
    split at hs
    · simp only [List.mem_cons] at hs
      rcases hs with rfl | hs
      · exact h a (by simp)
      · exact h s (by simp [hs])
    · simp only [List.mem_cons] at hs
      rcases hs with rfl | hs
      · exact h _ (by simp)
      · exact ih (fun t ht => h t (by simp [ht])) s hs

theorem quicLoop_good (mask : Quic.Dissect.MaskFn) (H : Crypto.Prims) (P : Cipher.Prims) (info : Nat → Info) (o : Opts)
    (kl : List Keylog.Key) (hd : Hdr) (p : Pkt) (hp : GoodPkt info p) (ss : List (QuicSess QuicPipeline.QConn))
    (h : ∀ s ∈ ss, GQ s.st) :
    ∀ s ∈ quicLoop (QuicPipeline.quicMachine mask H P info) o kl hd ss p, GQ s.st := by
  induction ss with
  | nil =>
    intro s hs
    simp only [quicLoop] at hs
    split at hs
    · cases hs
    · simp only [List.mem_singleton] at hs
      subst hs
      exact quic_feed_good mask H P info _ _ _ _ _ (quic_new_good mask H P info o p hp)
  | cons a rest ih =>
    intro s hs
    simp only [quicLoop] at hs
    split at hs
    · simp only [List.mem_cons] at hs
      rcases hs with rfl | hs
      · exact quic_feed_good mask H P info _ _ _ _ _ (h a (by simp))
      · exact h s (by simp [hs])
    · simp only [List.mem_cons] at hs
      rcases hs with rfl | hs
      · exact h _ (by simp)
      · exact ih (fun t ht => h t (by simp [ht])) s hs

def GoodState (st : State Keylog.Key Conn QuicPipeline.QConn) : Prop :=
  (∀ s ∈ st.tls, GT s.st) ∧ (∀ s ∈ st.quic, GQ s.st)

theorem classify_tls (o : Opts) (it : Item Keylog.Key) (q : Pkt) (h : classify o it = .tls q) :
    it = .frame q ∧ q.l4 = .tcp := by
  cases it with
  | dsb ks => cases h
  | frame p =>
    simp only [classify] at h
    cases hl : p.l4 with
    | other => rw [hl] at h; cases h
    | tcp =>
      rw [hl] at h
      simp only at h
      split at h
      · cases h
      · split at h
        · cases h
        · cases h; exact ⟨rfl, hl⟩
    | udp =>
      rw [hl] at h
      simp only at h
      split at h
      · cases h
      · split at h
        · cases h
        · split at h <;> cases h

theorem classify_quic (o : Opts) (it : Item Keylog.Key) (q : Pkt) (b0 : UInt8) (rest : Bytes)
    (h : classify o it = .quic q b0 rest) : it = .frame q ∧ q.l4 = .udp := by
  cases it with
  | dsb ks => cases h
  | frame p =>
    simp only [classify] at h
    cases hl : p.l4 with
    | other => rw [hl] at h; cases h
    | tcp =>
      rw [hl] at h
      simp only at h
      split at h
      · cases h
      · split at h <;> cases h
    | udp =>
      rw [hl] at h
      simp only at h
      split at h
      · cases h
      · split at h
        · cases h
        · split at h
          · cases h; exact ⟨rfl, hl⟩
          · cases h

theorem step_good (mask : Quic.Dissect.MaskFn) (H : Crypto.Prims) (P : Cipher.Prims) (info : Nat → Info) (o : Opts)
    (st : State Keylog.Key Conn QuicPipeline.QConn) (it : Item Keylog.Key) (hst : GoodState st)
    (hit : ∀ p, it = .frame p → p.l4 ≠ .other → GoodPkt info p) :
    GoodState (step (tlsMachine H P info) (QuicPipeline.quicMachine mask H P info) o st it) := by
  unfold step
  cases hc : classify o it with
  | keys ks => exact hst
  | ignore w => exact hst
  | tls q =>
    obtain ⟨hq, hl⟩ := classify_tls o it q hc
    have hg := hit q hq (by rw [hl]; simp)
    exact ⟨tlsHandle_good H P info o q hg _ hst.1, hst.2⟩
  | quic q b0 rest =>
    obtain ⟨hq, hl⟩ := classify_quic o it q b0 rest hc
    have hg := hit q hq (by rw [hl]; simp)
    refine ⟨hst.1, ?_⟩
    simp only [quicHandleH]
    split
    · exact hst.2
    · exact quicLoop_good mask H P info o _ _ q hg _ hst.2

theorem runItems_good (mask : Quic.Dissect.MaskFn) (H : Crypto.Prims) (P : Cipher.Prims) (info : Nat → Info) (o : Opts)
    (items : List (Item Keylog.Key)) (hit : ∀ p, Item.frame p ∈ items → p.l4 ≠ .other → GoodPkt info p) :
    ∀ st, GoodState st →
      GoodState (runItems (tlsMachine H P info) (QuicPipeline.quicMachine mask H P info) o st items) := by
  induction items with
  | nil => intro st h; exact h
  | cons it rest ih =>
    intro st h
    simp only [runItems, List.foldl_cons]
    exact ih (fun p hp => hit p (by simp [hp])) _
      (step_good mask H P info o st it h (fun p hp => hit p (by simp [hp])))

open TLX.OutBytes in
theorem tls_out_wf (H : Crypto.Prims) (P : Cipher.Prims) (info : Nat → Info) (c : Conn) (kl : List Keylog.Key)
    (h : GT c) : ∀ q ∈ (tlsMachine H P info).out c kl, (Frame.ofOutPkt q).WF := by
  intro q hq
  obtain ⟨h1, h2, h3, h4⟩ := h
  simp only [tlsMachine, connOut] at hq
  cases hb : TcpOut.build (List.map (fun e => (⟨e.data, List.map (fun id => (info id).ts) e.record.carriers, e.fromServer⟩ : TcpOut.Rec))
      (List.foldl (feedPkt (ops H P kl) c.opts.metadata info c.server) {} c.pkts).sess.traffic) with
  | none => rw [hb] at hq; cases hq
  | some fs =>
    rw [hb] at hq
    simp only [Option.map_some, Option.getD_some, List.mem_map] at hq
    obtain ⟨f, _, rfl⟩ := hq
    unfold addressed
    split <;> exact ⟨by assumption, by assumption, by assumption, by assumption⟩

open TLX.OutBytes in
theorem quic_out_wf (mask : Quic.Dissect.MaskFn) (H : Crypto.Prims) (P : Cipher.Prims) (info : Nat → Info)
    (c : QuicPipeline.QConn) (md : Bool) (h : GQ c) :
    ∀ q ∈ (QuicPipeline.quicMachine mask H P info).out md c, (Frame.ofOutPkt q).WF := by
  intro q hq
  obtain ⟨h1, h2, h3, h4⟩ := h
  simp only [QuicPipeline.quicMachine, QuicPipeline.connOut] at hq
  split at hq
  · cases hq
  · simp only [List.mem_map] at hq
    obtain ⟨d, _, rfl⟩ := hq
    unfold QuicPipeline.addressed
    split <;> exact ⟨by assumption, by assumption, by assumption, by assumption⟩

open TLX.OutBytes in
theorem exportAll_wf (mask : Quic.Dissect.MaskFn) (H : Crypto.Prims) (P : Cipher.Prims) (info : Nat → Info) (o : Opts)
    (st : State Keylog.Key Conn QuicPipeline.QConn) (h : GoodState st) :
    ∀ q ∈ exportAll (tlsMachine H P info) (QuicPipeline.quicMachine mask H P info) o st, (Frame.ofOutPkt q).WF := by
  intro q hq
  simp only [exportAll, List.mem_append, List.mem_flatMap] at hq
  rcases hq with ⟨s, hs, hq⟩ | ⟨s, hs, hq⟩
  · exact tls_out_wf H P info s.st _ (h.1 s hs) q hq
  · exact quic_out_wf mask H P info s.st _ (h.2 s hs) q hq

open TLX.OutBytes TLX.Export in
/-- every frame the main loop hands to the writer has 6-byte MAC addresses and IP addresses of the size its `ipv6` flag
    announces, provided the packets that can open a session have (which `Ingest` guarantees: `itemsWith_good`) -/
theorem framesFrom_wf (mask : Quic.Dissect.MaskFn) (H : Crypto.Prims) (P : Cipher.Prims) (prior : Prior) (args : Args)
    (fk : Option (List Keylog.Key)) (xs : List (Item Keylog.Key)) (info : Nat → Info) (out : List OutPkt)
    (hit : ∀ p, Item.frame p ∈ xs → p.l4 ≠ .other → GoodPkt info p)
    (h : framesFrom mask H P prior args fk xs info = .ok out) : ∀ q ∈ out, (Frame.ofOutPkt q).WF := by
  unfold framesFrom runFrom body at h
  simp only at h
  split at h
  · cases h
  · rename_i ms out' hr
    split at hr
    · cases hr
    · split at hr
      · cases hr
      · cases hr
        cases h
        refine exportAll_wf mask H P info _ _ (runItems_good mask H P info _ xs hit _ ?_)
        exact ⟨(fun s hs => by cases hs), (fun s hs => by cases hs)⟩

end TLX.Lemmas.Export
