/-
Helper lemmas for C02 (CRYPTO stream reassembly): the stable sort, the consume pass over a sorted snapshot, the
fragments of a cut, the message loop against the independent `Spec.TlsHandshakeFraming.frameHs`, and the invariant
of a single (direction, packet type) space under arbitrary deliveries of the fragments of a cut. Core Lean only.
-/
import TLX.Quic.CryptoStream
import TLX.Spec.TlsHandshakeFraming
namespace TLX.Lemmas.CryptoStream
open TLX TLX.Quic.CryptoStream TLX.Spec.TlsHandshakeFraming

/-! ### sort -/

def Sorted (l : List CFrame) : Prop := l.Pairwise (fun a b => a.offset ≤ b.offset)

theorem mem_insertSorted (f x : CFrame) (l : List CFrame) : x ∈ insertSorted f l ↔ x = f ∨ x ∈ l := by
  induction l with
  | nil => simp [insertSorted]
  | cons g gs ih =>
    simp only [insertSorted]
    split
    · simp
    · simp only [List.mem_cons, ih]
      constructor
      · rintro (h | h | h) <;> simp [h]
      · rintro (h | h | h) <;> simp [h]

theorem mem_sortByOffset (x : CFrame) (l : List CFrame) : x ∈ sortByOffset l ↔ x ∈ l := by
  induction l with
  | nil => simp [sortByOffset]
  | cons g gs ih => simp [sortByOffset, mem_insertSorted, ih]

theorem sorted_insertSorted (f : CFrame) (l : List CFrame) (h : Sorted l) : Sorted (insertSorted f l) := by
  induction l with
  | nil => simp [insertSorted, Sorted]
  | cons g gs ih =>
    simp only [insertSorted]
    unfold Sorted at h ih ⊢
    rw [List.pairwise_cons] at h
    split
    · rename_i hle
      rw [List.pairwise_cons]
      refine ⟨?_, List.pairwise_cons.mpr h⟩
      intro a ha
      rcases List.mem_cons.mp ha with rfl | ha
      · exact hle
      · exact Nat.le_trans hle (h.1 a ha)
    · rename_i hle
      rw [List.pairwise_cons]
      refine ⟨?_, ih h.2⟩
      intro a ha
      rcases (mem_insertSorted f a gs).mp ha with rfl | ha
      · omega
      · exact h.1 a ha

theorem sorted_sortByOffset (l : List CFrame) : Sorted (sortByOffset l) := by
  induction l with
  | nil => simp [sortByOffset, Sorted]
  | cons g gs ih => exact sorted_insertSorted g _ ih

/-! ### `list.remove` -/

theorem removeFrame_sublist (f : CFrame) (l : List CFrame) : (removeFrame f l).Sublist l := by
  induction l with
  | nil => simp [removeFrame]
  | cons g gs ih =>
    simp only [removeFrame]
    split
    · exact List.sublist_cons_self g gs
    · exact ih.cons_cons g

theorem mem_removeFrame_of_ne (f x : CFrame) (l : List CFrame) (hx : x ∈ l) (hne : x.id ≠ f.id) :
    x ∈ removeFrame f l := by
  induction l with
  | nil => simp at hx
  | cons g gs ih =>
    simp only [removeFrame]
    rcases List.mem_cons.mp hx with rfl | hx
    · rw [if_neg hne]; exact List.mem_cons_self
    · split
      · exact hx
      · exact List.mem_cons_of_mem _ (ih hx)

/-! ### the pass over the snapshot -/

theorem pass_off_ge (L : List CFrame) (s : KState) : s.off ≤ (pass L s).off := by
  induction L generalizing s with
  | nil => simp [pass]
  | cons g gs ih =>
    simp only [pass]
    split
    · have := ih ⟨removeFrame g s.fb, s.off + g.clen, s.buf ++ g.crypto⟩
      simp only at this
      omega
    · exact ih s

theorem pass_none (L : List CFrame) (s : KState) (h : ∀ g ∈ L, s.off < g.offset) : pass L s = s := by
  induction L generalizing s with
  | nil => simp [pass]
  | cons g gs ih =>
    simp only [pass]
    have := h g List.mem_cons_self
    rw [if_neg (by omega)]
    exact ih s (fun g' hg' => h g' (List.mem_cons_of_mem _ hg'))

/-- after the pass over a sorted snapshot of frames with a non-zero length no frame of the snapshot sits at the
    running offset: what could be consumed has been consumed -/
theorem pass_off_ne (L : List CFrame) (s : KState) (hs : Sorted L) (hpos : ∀ g ∈ L, 0 < g.clen) :
    ∀ x ∈ L, x.offset ≠ (pass L s).off := by
  induction L generalizing s with
  | nil => simp
  | cons g gs ih =>
    unfold Sorted at hs
    rw [List.pairwise_cons] at hs
    have hpos' : ∀ g' ∈ gs, 0 < g'.clen := fun g' hg' => hpos g' (List.mem_cons_of_mem _ hg')
    intro x hx
    simp only [pass]
    split
    · rename_i heq
      rcases List.mem_cons.mp hx with rfl | hx
      · have := pass_off_ge gs ⟨removeFrame x s.fb, s.off + x.clen, s.buf ++ x.crypto⟩
        have := hpos x List.mem_cons_self
        simp only at *
        omega
      · exact ih _ hs.2 hpos' x hx
    · rename_i hne
      rcases List.mem_cons.mp hx with rfl | hx
      · have hge := pass_off_ge gs s
        rcases Nat.lt_or_gt_of_ne hne with hlt | hgt
        · omega
        · rw [pass_none gs s (fun g' hg' => Nat.lt_of_lt_of_le hgt (hs.1 g' hg'))]
          omega
      · exact ih s hs.2 hpos' x hx

theorem pass_fb_sublist (L : List CFrame) (s : KState) : (pass L s).fb.Sublist s.fb := by
  induction L generalizing s with
  | nil => simp [pass]
  | cons g gs ih =>
    simp only [pass]
    split
    · exact (ih _).trans (removeFrame_sublist g s.fb)
    · exact ih s

/-- a buffered frame at or beyond the final offset survives the pass -/
theorem pass_retains (L : List CFrame) (s : KState) (x : CFrame) (hx : x ∈ s.fb)
    (hid : ∀ g ∈ L, g.id = x.id → g = x) (hpos : ∀ g ∈ L, 0 < g.clen)
    (hoff : (pass L s).off ≤ x.offset) : x ∈ (pass L s).fb := by
  induction L generalizing s with
  | nil => simpa [pass] using hx
  | cons g gs ih =>
    simp only [pass] at hoff ⊢
    have hid' : ∀ g' ∈ gs, g'.id = x.id → g' = x := fun g' hg' => hid g' (List.mem_cons_of_mem _ hg')
    have hpos' : ∀ g' ∈ gs, 0 < g'.clen := fun g' hg' => hpos g' (List.mem_cons_of_mem _ hg')
    split
    · rename_i heq
      rw [if_pos heq] at hoff
      apply ih _ _ hid' hpos' hoff
      apply mem_removeFrame_of_ne g x s.fb hx
      intro hidx
      have hgx := hid g List.mem_cons_self hidx.symm
      subst hgx
      have := pass_off_ge gs ⟨removeFrame g s.fb, s.off + g.clen, s.buf ++ g.crypto⟩
      have := hpos g List.mem_cons_self
      simp only at *
      omega
    · rename_i hne
      rw [if_neg hne] at hoff
      exact ih s hx hid' hpos' hoff

/-! ### fragments of a cut -/

/-- number of stream bytes before fragment `j` -/
def bnd (frs : List Bytes) (j : Nat) : Nat := (frs.take j).flatten.length

theorem take_succ_flatten (frs : List Bytes) (j : Nat) (c : Bytes) (h : frs[j]? = some c) :
    (frs.take (j + 1)).flatten = (frs.take j).flatten ++ c := by
  rw [List.take_add_one, h]; simp

theorem bnd_succ (frs : List Bytes) (j : Nat) (c : Bytes) (h : frs[j]? = some c) :
    bnd frs (j + 1) = bnd frs j + c.length := by
  simp [bnd, take_succ_flatten frs j c h]

theorem bnd_lt (frs : List Bytes) (hne : ∀ c ∈ frs, c ≠ []) (i j : Nat) (hij : i < j) (hj : j ≤ frs.length) :
    bnd frs i < bnd frs j := by
  induction j with
  | zero => omega
  | succ j ih =>
    have hjl : j < frs.length := by omega
    have hget : frs[j]? = some frs[j] := List.getElem?_eq_getElem hjl
    rw [bnd_succ frs j _ hget]
    have hpos : 0 < (frs[j]).length := by
      have := hne frs[j] (List.getElem_mem hjl)
      exact List.length_pos_iff.mpr this
    rcases Nat.lt_succ_iff_lt_or_eq.mp hij with h | h
    · have := ih h (by omega); omega
    · subst h; omega

theorem bnd_inj (frs : List Bytes) (hne : ∀ c ∈ frs, c ≠ []) (i j : Nat) (hi : i ≤ frs.length)
    (hj : j ≤ frs.length) (h : bnd frs i = bnd frs j) : i = j := by
  rcases Nat.lt_trichotomy i j with hlt | heq | hgt
  · have := bnd_lt frs hne i j hlt hj; omega
  · exact heq
  · have := bnd_lt frs hne j i hgt hi; omega

/-- `g` is the CRYPTO frame of some fragment of the cut (`id` free) -/
def IsFrag (frs : List Bytes) (g : CFrame) : Prop :=
  ∃ i, frs[i]? = some g.crypto ∧ g.offset = bnd frs i ∧ g.clen = g.crypto.length

theorem IsFrag.clen_pos {frs : List Bytes} (hne : ∀ c ∈ frs, c ≠ []) {g : CFrame} (h : IsFrag frs g) :
    0 < g.clen := by
  obtain ⟨i, hi, _, hl⟩ := h
  have := hne g.crypto (List.mem_of_getElem? hi)
  rw [hl]; exact List.length_pos_iff.mpr this

/-- the pass on fragments of a cut: the offset stays a fragment boundary and the buffer grows by exactly the
    fragments in between -/
theorem pass_frag (frs : List Bytes) (hne : ∀ c ∈ frs, c ≠ []) (L : List CFrame) (s : KState)
    (hL : ∀ g ∈ L, IsFrag frs g) (j : Nat) (hj : j ≤ frs.length) (hoff : s.off = bnd frs j) :
    ∃ j' X, j ≤ j' ∧ j' ≤ frs.length ∧ (pass L s).off = bnd frs j' ∧ (pass L s).buf = s.buf ++ X ∧
      (frs.take j').flatten = (frs.take j).flatten ++ X := by
  induction L generalizing s j with
  | nil => exact ⟨j, [], Nat.le_refl _, hj, by simpa [pass] using hoff, by simp [pass], by simp⟩
  | cons g gs ih =>
    have hL' : ∀ g' ∈ gs, IsFrag frs g' := fun g' hg' => hL g' (List.mem_cons_of_mem _ hg')
    simp only [pass]
    split
    · rename_i heq
      obtain ⟨i, hi, hio, hlen⟩ := hL g List.mem_cons_self
      have hilt : i < frs.length := (List.getElem?_eq_some_iff.mp hi).1
      have hij : i = j := bnd_inj frs hne i j (by omega) hj (by omega)
      subst hij
      obtain ⟨j', X, h1, h2, h3, h4, h5⟩ :=
        ih ⟨removeFrame g s.fb, s.off + g.clen, s.buf ++ g.crypto⟩ hL' (i + 1) (by omega)
          (by simp only; rw [bnd_succ frs i _ hi, hoff, hlen])
      refine ⟨j', g.crypto ++ X, by omega, h2, h3, ?_, ?_⟩
      · rw [h4]; simp
      · rw [h5, take_succ_flatten frs i _ hi]; simp
    · exact ih s hL' j hj hoff

/-! ### the message loop and the independent framing -/

def never : Bytes → Bool := fun _ => false

/-- messages the loop hands on / what it leaves, when `handle_record` never raises -/
def implFrame (b : Bytes) : List Bytes := (msgLoop never b).1
def rem (b : Bytes) : Bytes := (msgLoop never b).2.1

theorem hsLen_eq (b : Bytes) (h : 4 ≤ b.length) : Bytes.beNat (Bytes.slice b 1 4) = hsLen b := by
  match b, h with
  | a0 :: a1 :: a2 :: a3 :: rest, _ =>
    simp [Bytes.beNat, Bytes.slice, hsLen]
    omega

theorem slice14_append (b c : Bytes) (h : 4 ≤ b.length) : Bytes.slice (b ++ c) 1 4 = Bytes.slice b 1 4 := by
  match b, h with
  | a0 :: a1 :: a2 :: a3 :: rest, _ => simp [Bytes.slice]

theorem msgLoop_short (r : Bytes → Bool) (b : Bytes) (h : b.length ≤ 4) : msgLoop r b = ([], b, false) := by
  rw [msgLoop]; simp [h]

theorem msgLoop_never_raised (b : Bytes) : (msgLoop never b).2.2 = false := by
  fun_induction msgLoop never b with
  | case1 b h => rfl
  | case2 b h n h2 => rfl
  | case3 b h n h2 m hr => simp [never] at hr
  | case4 b h n h2 m hr r ih => exact ih

theorem msgLoop_flatten (b : Bytes) : (implFrame b).flatten ++ rem b = b := by
  unfold implFrame rem
  fun_induction msgLoop never b with
  | case1 b h => simp
  | case2 b h n h2 => simp
  | case3 b h n h2 m hr => simp [never] at hr
  | case4 b h n h2 m hr r ih =>
    simp only [List.flatten_cons, List.append_assoc]
    show List.take (4 + n) b ++ ((msgLoop never (b.drop (4 + n))).1.flatten ++ (msgLoop never (b.drop (4 + n))).2.1) = b
    rw [ih]
    exact List.take_append_drop _ _

/-- feeding more bytes: what was handed on stays, the loop continues on what was left -/
theorem msgLoop_append (b c : Bytes) :
    implFrame (b ++ c) = implFrame b ++ implFrame (rem b ++ c) ∧ rem (b ++ c) = rem (rem b ++ c) := by
  unfold implFrame rem
  fun_induction msgLoop never b with
  | case1 b h => simp
  | case2 b h n h2 => simp
  | case3 b h n h2 m hr => simp [never] at hr
  | case4 b h n h2 m hr r ih =>
    have h4 : 4 ≤ b.length := by omega
    have hlen : ¬ (b ++ c).length ≤ 4 := by rw [List.length_append]; omega
    have hn : Bytes.beNat (Bytes.slice (b ++ c) 1 4) = n := by rw [slice14_append b c h4]
    have h2' : ¬ (b ++ c).length < 4 + n := by rw [List.length_append]; omega
    have hle : 4 + n ≤ b.length := by omega
    rw [msgLoop.eq_1 never (b ++ c)]
    simp only [hlen, if_false, hn, h2', List.take_append_of_le_length hle,
      List.drop_append_of_le_length hle]
    have hnr : never (List.take (4 + n) b) = false := rfl
    simp only [hnr, Bool.false_eq_true, if_false]
    exact ⟨by rw [ih.1]; rfl, ih.2⟩

/-- the implementation's loop against RFC framing: they differ exactly by a last message with an empty body
    (`len(buffer) <= 4: break` leaves a complete 4-byte message in the buffer) -/
theorem frameHs_eq_impl (b : Bytes) :
    frameHs b = implFrame b ++ (if (rem b).length = 4 ∧ hsLen (rem b) = 0 then [rem b] else []) := by
  unfold implFrame rem
  fun_induction msgLoop never b with
  | case1 b h =>
    rw [frameHs]
    by_cases h4 : b.length < 4
    · simp only [h4, if_true, List.nil_append]
      rw [if_neg (by omega)]
    · have h4' : b.length = 4 := by omega
      simp only [h4, if_false, List.nil_append, h4', true_and]
      by_cases hz : hsLen b = 0
      · have ht : b.take 4 = b := List.take_of_length_le (by omega)
        have hd : b.drop 4 = [] := List.drop_eq_nil_of_le (by omega)
        have hf : frameHs [] = [] := by rw [frameHs]; simp
        simp [hz, ht, hd, hf]
      · have : 4 < 4 + hsLen b := by omega
        simp [hz, this]
  | case2 b h n h2 =>
    have hn : n = hsLen b := hsLen_eq b (by omega)
    rw [frameHs]
    have : ¬ b.length < 4 := by omega
    have h2' : b.length < 4 + hsLen b := by omega
    simp only [this, if_false, h2', if_true, List.nil_append]
    rw [if_neg (by omega)]
  | case3 b h n h2 m hr => simp [never] at hr
  | case4 b h n h2 m hr r ih =>
    have hn : n = hsLen b := hsLen_eq b (by omega)
    rw [frameHs]
    have : ¬ b.length < 4 := by omega
    have h2' : ¬ b.length < 4 + hsLen b := by omega
    simp only [this, if_false, ← hn, h2, ih, List.cons_append]
    rfl

theorem implFrame_prefix_frameHs (b : Bytes) : implFrame b <+: frameHs b := by
  rw [frameHs_eq_impl]; exact List.prefix_append _ _

/-- when `handle_record` raises on none of the messages the loop meets, the loop is the non-raising loop -/
theorem msgLoop_noraise (r : Bytes → Bool) (b : Bytes) (h : ∀ m ∈ implFrame b, r m = false) :
    msgLoop r b = msgLoop never b := by
  unfold implFrame at h
  fun_induction msgLoop never b with
  | case1 b h1 => rw [msgLoop_short r b h1]
  | case2 b h1 n h2 =>
    rw [msgLoop.eq_1 r b]
    simp only [h1, if_false]
    rw [if_pos h2]
  | case3 b h1 n h2 m hr => simp [never] at hr
  | case4 b h1 n h2 m hr q ih =>
    rw [msgLoop.eq_1 r b]
    simp only [h1, if_false]
    rw [if_neg h2]
    have hm : r (List.take (4 + n) b) = false := h _ (by simp [m])
    have ih' := ih (fun m' hm' => h m' (by simp [q, hm']))
    have hm' : r (List.take (4 + (b.slice 1 4).beNat) b) = false := hm
    have ih'' : msgLoop r (List.drop (4 + (b.slice 1 4).beNat) b) =
        msgLoop never (List.drop (4 + (b.slice 1 4).beNat) b) := ih'
    rw [if_neg (by rw [hm']; simp), ih'']

/-! ### one space under deliveries of the fragments of a cut -/

/-- `id` names an object: two deliveries with the same `id` are the same frame -/
def IdsOK (D : List CFrame) : Prop := ∀ a ∈ D, ∀ b ∈ D, a.id = b.id → a = b

/-- invariant of one space after the deliveries `D` of fragments of the cut `frs`, with `msgs` handed on so far -/
structure Inv (frs : List Bytes) (D : List CFrame) (s : KState) (msgs : List Bytes) : Prop where
  at_bnd : ∃ j, j ≤ frs.length ∧ s.off = bnd frs j ∧ msgs = implFrame (frs.take j).flatten ∧
    s.buf = rem (frs.take j).flatten
  frag : ∀ g ∈ s.fb, IsFrag frs g
  sub : ∀ g ∈ s.fb, g ∈ D
  ne : ∀ g ∈ s.fb, g.offset ≠ s.off
  kept : ∀ f ∈ D, s.off ≤ f.offset → f ∈ s.fb

theorem inv_init (frs : List Bytes) : Inv frs [] {} [] := by
  refine ⟨⟨0, Nat.zero_le _, ?_, ?_, ?_⟩, ?_, ?_, ?_, ?_⟩
  · simp [bnd]
  · simp [implFrame, msgLoop_short]
  · simp [rem, msgLoop_short]
  all_goals simp

theorem inv_step (frs : List Bytes) (hne : ∀ c ∈ frs, c ≠ []) (D : List CFrame) (s : KState)
    (msgs : List Bytes) (f : CFrame) (hinv : Inv frs D s msgs) (hf : IsFrag frs f) (hids : IdsOK (D ++ [f])) :
    Inv frs (D ++ [f]) (kstep never s f).1 (msgs ++ (kstep never s f).2.1) := by
  obtain ⟨⟨j, hj, hoff, hmsgs, hbuf⟩, hfrag, hsub, _, hkept⟩ := hinv
  have hLmem : ∀ g, g ∈ sortByOffset (s.fb ++ [f]) ↔ g ∈ s.fb ∨ g = f := by
    intro g; rw [mem_sortByOffset]; simp
  have hL : ∀ g ∈ sortByOffset (s.fb ++ [f]), IsFrag frs g := by
    intro g hg
    rcases (hLmem g).mp hg with h | rfl
    · exact hfrag g h
    · exact hf
  have hpos : ∀ g ∈ sortByOffset (s.fb ++ [f]), 0 < g.clen := fun g hg => (hL g hg).clen_pos hne
  have hLD : ∀ g ∈ sortByOffset (s.fb ++ [f]), g ∈ D ++ [f] := by
    intro g hg
    rcases (hLmem g).mp hg with h | rfl
    · exact List.mem_append_left _ (hsub g h)
    · simp
  obtain ⟨j', X, hjj, hj', hoff', hbuf', hX⟩ :=
    pass_frag frs hne (sortByOffset (s.fb ++ [f])) { s with fb := sortByOffset (s.fb ++ [f]) } hL j hj hoff
  have hsubl := pass_fb_sublist (sortByOffset (s.fb ++ [f])) { s with fb := sortByOffset (s.fb ++ [f]) }
  have happ := msgLoop_append (frs.take j).flatten X
  simp only at hbuf' hsubl
  refine ⟨⟨j', hj', ?_, ?_, ?_⟩, ?_, ?_, ?_, ?_⟩
  · exact hoff'
  · show msgs ++ implFrame (absorb s f).buf = _
    show msgs ++ implFrame (pass _ _).buf = _
    rw [hbuf', hX, happ.1, hmsgs, hbuf]
  · show rem (pass _ _).buf = _
    rw [hbuf', hX, happ.2, hbuf]
  · intro g hg
    exact hL g (hsubl.subset hg)
  · intro g hg
    exact hLD g (hsubl.subset hg)
  · intro g hg
    exact pass_off_ne _ _ (sorted_sortByOffset _) hpos g (hsubl.subset hg)
  · intro x hx hxo
    have hxL : x ∈ sortByOffset (s.fb ++ [f]) := by
      rw [hLmem]
      rcases List.mem_append.mp hx with h | h
      · left
        apply hkept x h
        have := pass_off_ge (sortByOffset (s.fb ++ [f])) { s with fb := sortByOffset (s.fb ++ [f]) }
        simp only at this
        exact Nat.le_trans this hxo
      · right; simpa using h
    exact pass_retains _ _ x hxL (fun g hg hid => hids g (hLD g hg) x hx hid) hpos hxo

theorem krun_append (r : Bytes → Bool) (s : KState) (a b : List CFrame) :
    krun r s (a ++ b) = ((krun r (krun r s a).1 b).1, (krun r s a).2 ++ (krun r (krun r s a).1 b).2) := by
  induction a generalizing s with
  | nil => simp [krun]
  | cons f fs ih => simp [krun, ih, List.append_assoc]

theorem inv_krun (frs : List Bytes) (hne : ∀ c ∈ frs, c ≠ []) (dl : List CFrame) (D : List CFrame) (s : KState)
    (msgs : List Bytes) (hinv : Inv frs D s msgs) (hf : ∀ f ∈ dl, IsFrag frs f) (hids : IdsOK (D ++ dl)) :
    Inv frs (D ++ dl) (krun never s dl).1 (msgs ++ (krun never s dl).2) := by
  induction dl generalizing D s msgs with
  | nil => simpa [krun] using hinv
  | cons f fs ih =>
    simp only [krun]
    have hids1 : IdsOK (D ++ [f]) := by
      intro a ha b hb
      exact hids a (by rcases List.mem_append.mp ha with h | h <;> simp_all) b
        (by rcases List.mem_append.mp hb with h | h <;> simp_all)
    have h1 := inv_step frs hne D s msgs f hinv (hf f List.mem_cons_self) hids1
    have h2 := ih (D ++ [f]) _ _ h1 (fun g hg => hf g (List.mem_cons_of_mem _ hg))
      (by simpa [List.append_assoc] using hids)
    simpa [List.append_assoc] using h2

/-- the loop with a `handle_record` that raises on none of the messages met is the non-raising loop -/
theorem krun_noraise (r : Bytes → Bool) (s : KState) (dl : List CFrame)
    (h : ∀ m ∈ (krun never s dl).2, r m = false) : krun r s dl = krun never s dl := by
  induction dl generalizing s with
  | nil => simp [krun]
  | cons f fs ih =>
    simp only [krun] at h ⊢
    have hk : kstep r s f = kstep never s f := by
      simp only [kstep]
      rw [msgLoop_noraise r (absorb s f).buf (fun m hm => h m (List.mem_append_left _ hm))]
    rw [hk, ih _ (fun m hm => h m (List.mem_append_right _ hm))]

/-! ### the eight spaces -/

theorem State.ext' (a b : State) (h : ∀ k, a.ks k = b.ks k) : a = b := by
  cases a; cases b; simp only [State.mk.injEq]; funext k; exact h k

/-- the buffer holds no whole message the loop would hand on (and none it would raise on) -/
def Drained (r : Bytes → Bool) (b : Bytes) : Prop := msgLoop r b = ([], b, false)

theorem drained_nil (r : Bytes → Bool) : Drained r [] := msgLoop_short r [] (by simp)

/-- the loop by structural recursion on a fuel (for evaluating concrete witnesses with `decide`) -/
def msgLoopF (raises : Bytes → Bool) : Nat → Bytes → List Bytes × Bytes × Bool
  | 0, b => ([], b, false)
  | fuel + 1, b =>
    if b.length ≤ 4 then ([], b, false)
    else
      let n := Bytes.beNat (Bytes.slice b 1 4)
      if b.length < 4 + n then ([], b, false)
      else
        let m := b.take (4 + n)
        if raises m then ([m], b, true)
        else
          let r := msgLoopF raises fuel (b.drop (4 + n))
          (m :: r.1, r.2.1, r.2.2)

theorem msgLoop_eq_fuel (r : Bytes → Bool) (fuel : Nat) (b : Bytes) (h : b.length ≤ fuel) :
    msgLoop r b = msgLoopF r fuel b := by
  induction fuel generalizing b with
  | zero => rw [msgLoop_short r b (by omega)]; rfl
  | succ fuel ih =>
    rw [msgLoop, msgLoopF]
    split
    · rfl
    · simp only
      split
      · rfl
      · split
        · rfl
        · rw [ih _ (by simp only [List.length_drop]; omega)]

theorem msgLoop_eq_len (r : Bytes → Bool) (b : Bytes) : msgLoop r b = msgLoopF r b.length b :=
  msgLoop_eq_fuel r b.length b (Nat.le_refl _)

/-- when the loop ended without an exception, what it left holds no further whole message -/
theorem msgLoop_idem (r : Bytes → Bool) (b : Bytes) (h : (msgLoop r b).2.2 = false) :
    Drained r (msgLoop r b).2.1 := by
  unfold Drained
  fun_induction msgLoop r b with
  | case1 b h1 => exact msgLoop_short r b h1
  | case2 b h1 n h2 =>
    show msgLoop r b = _
    rw [msgLoop]; simp only [h1, if_false]; rw [if_pos h2]
  | case3 b h1 n h2 m hr => simp at h
  | case4 b h1 n h2 m hr q ih => exact ih h

theorem set_same (st : State) (k : Key) : st.set k { st.ks k with buf := (st.ks k).buf } = st := by
  apply State.ext'; intro k'; simp only [State.set]; split <;> simp_all

theorem go_drained (r : Bytes → Bool) (srv : Bool) (pts : List PT) (st : State)
    (h : ∀ p ∈ pts, Drained r (st.ks (srv, p)).buf) : handleBufferGo r srv pts st = (st, [], false) := by
  induction pts generalizing st with
  | nil => rfl
  | cons p ps ih =>
    simp only [handleBufferGo]
    have hp : msgLoop r (st.ks (srv, p)).buf = ([], (st.ks (srv, p)).buf, false) := h p List.mem_cons_self
    simp only [hp, set_same, Bool.false_eq_true, if_false, List.nil_append]
    rw [ih st (fun q hq => h q (List.mem_cons_of_mem _ hq))]

theorem go_cons_drained (r : Bytes → Bool) (srv : Bool) (p : PT) (pts : List PT) (st : State)
    (h : Drained r (st.ks (srv, p)).buf) : handleBufferGo r srv (p :: pts) st = handleBufferGo r srv pts st := by
  have hp : msgLoop r (st.ks (srv, p)).buf = ([], (st.ks (srv, p)).buf, false) := h
  simp only [handleBufferGo, hp, set_same, Bool.false_eq_true, if_false, List.nil_append]

theorem go_cons_hit (r : Bytes → Bool) (srv : Bool) (p : PT) (pts : List PT) (st : State)
    (hp : p ∉ pts) (h : ∀ q ∈ pts, Drained r (st.ks (srv, q)).buf) :
    handleBufferGo r srv (p :: pts) st =
      (st.set (srv, p) { st.ks (srv, p) with buf := (msgLoop r (st.ks (srv, p)).buf).2.1 },
        (msgLoop r (st.ks (srv, p)).buf).1, (msgLoop r (st.ks (srv, p)).buf).2.2) := by
  simp only [handleBufferGo]
  split
  · rename_i hr; simp [hr]
  · rename_i hr
    rw [go_drained r srv pts _ (by
      intro q hq
      have hne : (srv, q) ≠ (srv, p) := by intro he; injection he with _ he; subst he; exact hp hq
      simp only [State.set, if_neg hne]
      exact h q hq)]
    simp only [List.append_nil]
    simp at hr
    rw [hr]

/-- `update_session` seen from the frame's own space: when no *other* buffer of that direction holds a whole
    message, the call is `kstep` on the own space and touches nothing else -/
theorem update_own_space (r : Bytes → Bool) (st : State) (k : Key) (f : CFrame)
    (hd : ∀ pt, (k.1, pt) ≠ k → Drained r (st.ks (k.1, pt)).buf) :
    update r st k f = (st.set k (kstep r (st.ks k) f).1, (kstep r (st.ks k) f).2.1, (kstep r (st.ks k) f).2.2) := by
  obtain ⟨srv, pt⟩ := k
  have hd' : ∀ q, q ≠ pt → Drained r ((st.set (srv, pt) (absorb (st.ks (srv, pt)) f)).ks (srv, q)).buf := by
    intro q hq
    have hne : (srv, q) ≠ (srv, pt) := by intro he; injection he with _ he; exact hq he
    simp only [State.set, if_neg hne]
    exact hd q hne
  have hset : ∀ v w : KState, ((st.set (srv, pt) v).set (srv, pt) w) = st.set (srv, pt) w := by
    intro v w; apply State.ext'; intro k'; simp only [State.set]; split <;> rfl
  have hget : ∀ v : KState, (st.set (srv, pt) v).ks (srv, pt) = v := by intro v; simp [State.set]
  simp only [update, handleBuffer, kstep]
  cases pt
  · rw [go_cons_hit r srv _ _ _ (by decide) (fun q hq => hd' q (by intro h; subst h; simp at hq))]
    simp only [hget, hset]
  · rw [go_cons_drained r srv _ _ _ (hd' _ (by decide)),
      go_cons_hit r srv _ _ _ (by decide) (fun q hq => hd' q (by intro h; subst h; simp at hq))]
    simp only [hget, hset]
  · rw [go_cons_drained r srv _ _ _ (hd' _ (by decide)), go_cons_drained r srv _ _ _ (hd' _ (by decide)),
      go_cons_hit r srv _ _ _ (by decide) (fun q hq => hd' q (by intro h; subst h; simp at hq))]
    simp only [hget, hset]
  · rw [go_cons_drained r srv _ _ _ (hd' _ (by decide)), go_cons_drained r srv _ _ _ (hd' _ (by decide)),
      go_cons_drained r srv _ _ _ (hd' _ (by decide)),
      go_cons_hit r srv _ _ _ (by decide) (fun q hq => hd' q (by intro h; subst h; simp at hq))]
    simp only [hget, hset]

/-- a history of frames of one space, the other spaces of that direction drained -/
theorem run_single (r : Bytes → Bool) (k : Key) (dl : List CFrame) (st : State)
    (hd : ∀ pt, (k.1, pt) ≠ k → Drained r (st.ks (k.1, pt)).buf) :
    run r st (dl.map (fun f => (k, f))) = (st.set k (krun r (st.ks k) dl).1, (krun r (st.ks k) dl).2) := by
  induction dl generalizing st with
  | nil =>
    simp only [List.map_nil, run, krun]
    congr 1
    apply State.ext'; intro k'; simp only [State.set]; split <;> simp_all
  | cons f fs ih =>
    simp only [List.map_cons, run, krun]
    rw [update_own_space r st k f hd]
    simp only
    have hd2 : ∀ pt, (k.1, pt) ≠ k → Drained r ((st.set k (kstep r (st.ks k) f).1).ks (k.1, pt)).buf := by
      intro pt hne
      simp only [State.set, if_neg hne]
      exact hd pt hne
    rw [ih _ hd2]
    have hget : (st.set k (kstep r (st.ks k) f).1).ks k = (kstep r (st.ks k) f).1 := by simp [State.set]
    rw [hget]
    congr 1
    apply State.ext'; intro k'; simp only [State.set]; split <;> rfl

end TLX.Lemmas.CryptoStream
