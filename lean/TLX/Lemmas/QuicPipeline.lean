/-
Helper lemmas for `Props/C02Pipeline.lean`: what the dissector can produce (`Pkt.classOk`), an invariant principle for the
coalescing loop, invariants of the main loop's QUIC session list, state-independence of `handle_record`'s exceptions.
-/
import TLX.QuicPipeline
import TLX.Lemmas.QuicDissect
import TLX.Lemmas.QuicSession
namespace TLX.Lemmas.QuicPipeline
open TLX TLX.Quic TLX.Quic.Dissect TLX.QuicPipeline

/-! ### the dissector only builds `LongQuicPacket`s and RTT_1-typed `ShortQuicPacket`s -/

theorem extractLong_htype (mask : MaskFn) (env : Env) (isServer : Bool) (ts : Nat) (d : Bytes) (fb : UInt8)
    (p : Pkt) (t : Option Nat) (h : extractLong mask env isServer ts d fb = .ok (p, t)) : p.htype = .long := by
  unfold extractLong at h
  simp only [bind, Except.bind] at h
  repeat' split at h
  all_goals first
    | (simp only [Except.ok.injEq, Prod.mk.injEq] at h; obtain ⟨rfl, _⟩ := h; rfl)
    | (simp at h)

theorem extractShort_ptype (mask : MaskFn) (env : Env) (isServer : Bool) (guessed : Bytes) (ts : Nat) (d : Bytes)
    (fb : UInt8) (p : Pkt) (t : Option Nat) (h : extractShort mask env isServer guessed ts d fb = .ok (p, t)) :
    p.ptype = .rtt1 := by
  unfold extractShort at h
  simp only [bind, Except.bind] at h
  repeat' split at h
  all_goals first
    | (simp only [Except.ok.injEq, Prod.mk.injEq] at h; obtain ⟨rfl, _⟩ := h; rfl)
    | (simp at h)

theorem extract_classOk (mask : MaskFn) (env : Env) (isServer : Bool) (guessed : Bytes) (ts : Nat) (d : Bytes) :
    ∀ p ∈ (extract mask env isServer guessed ts d).pkts, Session.Pkt.classOk p := by
  have key : ∀ (fb : UInt8) (p : Pkt) (t : Option Nat),
      (if isLong fb then extractLong mask env isServer ts d fb
       else extractShort mask env isServer guessed ts d fb) = .ok (p, t) → Session.Pkt.classOk p := by
    intro fb p t h
    unfold Session.Pkt.classOk
    split at h
    · intro hs; rw [extractLong_htype _ _ _ _ _ _ _ _ h] at hs; cases hs
    · intro _; exact extractShort_ptype _ _ _ _ _ _ _ _ _ h
  unfold extract
  split
  · simp
  · split
    · simp
    · split
      · simp
      · rename_i p ht; intro q hq; simp only [List.mem_singleton] at hq; subst hq; exact key _ _ _ ht
      · rename_i p t ht; intro q hq; simp only [List.mem_singleton] at hq; subst hq; exact key _ _ _ ht

/-! ### an invariant of the loop state survives the coalescing loop -/

theorem dissectLoop_inv {σ : Type} (mask : MaskFn) (envOf : σ → Env) (handle : σ → List Pkt → σ)
    (isServer : Bool) (guessed : Bytes) (ts : Nat) (I : σ → Prop)
    (hstep : ∀ s pkts, I s → (∀ p ∈ pkts, Session.Pkt.classOk p) → I (handle s pkts))
    (n : Nat) (s : σ) (d : Bytes) (hn : d.length = n) (hs : I s) :
    I (dissectLoop mask envOf handle isServer guessed ts s d).1 := by
  induction n using Nat.strongRecOn generalizing s d with
  | _ n ih =>
    by_cases hd : d = []
    · subst hd; rw [QuicDissect.dissectLoop_nil]; exact hs
    · rw [QuicDissect.dissectLoop_cons _ _ _ _ _ _ _ _ hd]
      simp only
      have hlt : (extract mask (envOf s) isServer guessed ts d).rest.length < n := by
        rw [← hn]; exact extract_rest_lt mask (envOf s) isServer guessed ts d (by
          intro h; exact hd (List.eq_nil_of_length_eq_zero h))
      exact ih _ hlt _ _ rfl (hstep _ _ hs (extract_classOk mask (envOf s) isServer guessed ts d))

/-! ### `handle_quic_packet` on dissector output -/

theorem handleTurn_none (P : Session.Params Tls) (x : LoopSt) (pkts : List Pkt) (hx : x.2 = none)
    (hp : ∀ p ∈ pkts, Session.Pkt.classOk p) : (handleTurn P x pkts).2 = none := by
  unfold handleTurn
  rw [hx]
  simp only
  rw [Lemmas.QuicSession.handleQuicPackets_esc]
  exact Lemmas.QuicSession.escapes_none P _ _ hp

/-! ### invariants of the QUIC session list of the main loop -/

section MainLoop
open TLX.MainLoop
variable {κ σ τ ο : Type}

theorem quicLoop_inv (M : QuicMachine κ τ ο) (I : τ → Prop)
    (hnew : ∀ o p, I (M.new o p)) (hfeed : ∀ t kl p c v, I t → I (M.feed t kl p c v))
    (o : Opts) (kl : List κ) (h : Hdr) (ss : List (QuicSess τ)) (p : MainLoop.Pkt) (hss : ∀ s ∈ ss, I s.st) :
    ∀ s ∈ quicLoop M o kl h ss p, I s.st := by
  induction ss with
  | nil =>
    unfold quicLoop
    split
    · simp
    · intro s hs
      simp only [List.mem_singleton] at hs
      subst hs
      exact hfeed _ _ _ _ _ (hnew _ _)
  | cons a rest ih =>
    unfold quicLoop
    split
    · intro s hs
      rcases List.mem_cons.mp hs with rfl | hs
      · exact hfeed _ _ _ _ _ (hss a (List.mem_cons_self ..))
      · exact hss s (List.mem_cons_of_mem _ hs)
    · intro s hs
      rcases List.mem_cons.mp hs with rfl | hs
      · exact hss _ (List.mem_cons_self ..)
      · exact ih (fun s hs => hss s (List.mem_cons_of_mem _ hs)) s hs

theorem runItems_quic_inv (TM : TlsMachine κ σ ο) (QM : QuicMachine κ τ ο) (I : τ → Prop)
    (hnew : ∀ o p, I (QM.new o p)) (hfeed : ∀ t kl p c v, I t → I (QM.feed t kl p c v))
    (o : Opts) (items : List (Item κ)) (st : State κ σ τ) (hst : ∀ s ∈ st.quic, I s.st) :
    ∀ s ∈ (runItems TM QM o st items).quic, I s.st := by
  unfold runItems
  induction items generalizing st with
  | nil => exact hst
  | cons it items ih =>
    simp only [List.foldl_cons]
    apply ih
    unfold step
    split
    · exact hst
    · exact hst
    · simp only
      unfold quicHandleH
      split
      · exact hst
      · exact quicLoop_inv QM I hnew hfeed _ _ _ _ _ hst
    · exact hst

end MainLoop

/-! ### whether `handle_record` raises does not depend on the parser state -/

section Tls
open TLX.Quic.TlsMsgs

theorem applyExt_none_indep (s s' : State) (e : PExt) : (applyExt s e).isNone = (applyExt s' e).isNone := by
  unfold applyExt
  repeat' split
  all_goals rfl

theorem applyExts_err_indep (s s' : State) (es : List PExt) : (applyExts s es).2 = (applyExts s' es).2 := by
  induction es generalizing s s' with
  | nil => rfl
  | cons e es ih =>
    unfold applyExts
    have h := applyExt_none_indep s s' e
    cases h1 : applyExt s e <;> cases h2 : applyExt s' e <;> simp [h1, h2] at h ⊢
    exact ih _ _

theorem getExtensions_err_indep (s s' : State) (r : Bytes) : (getExtensions s r).2 = (getExtensions s' r).2 := by
  unfold getExtensions
  split
  · rfl
  · exact applyExts_err_indep _ _ _

theorem extsThenNewData_err_indep (s s' : State) (r : Bytes) : (extsThenNewData s r).2 = (extsThenNewData s' r).2 := by
  unfold extsThenNewData
  have h := getExtensions_err_indep s s' r
  cases h1 : getExtensions s r with
  | mk a ea =>
    cases h2 : getExtensions s' r with
    | mk b eb =>
      rw [h1, h2] at h
      simp only at h
      subst h
      cases ea <;> rfl

theorem handleRecord_err_indep (s s' : State) (t : Nat) (r : Bytes) :
    (handleRecord s t r).2 = (handleRecord s' t r).2 := by
  unfold handleRecord
  split
  · unfold handleClientHello
    split
    · rfl
    · split
      · rfl
      · unfold chBody
        simp only
        split
        · rfl
        · split
          · rfl
          · exact extsThenNewData_err_indep _ _ _
  · unfold handleServerHello
    split
    · rfl
    · split
      · rfl
      · exact extsThenNewData_err_indep _ _ _
  · unfold handleEncryptedExtensions
    split
    · rfl
    · exact extsThenNewData_err_indep _ _ _
  · rfl

end Tls

end TLX.Lemmas.QuicPipeline
