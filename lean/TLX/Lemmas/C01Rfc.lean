/-
Helpers for `Props/C01Rfc.lean`, second part (the first is `Lemmas/C01RfcTable.lean`):

  C. the key log   lines of the key-log FILE (`C09Found.FLine`) ⇒ what `find_session_secrets` returns, what `secretsOf`
                   hands to the key schedule, what `lastOf` picks (TLS 1.3: the last line per label; TLS ≤ 1.2: the first
                   CLIENT_RANDOM line)
  D. the IV        record protection of the stream and explicit-IV CBC classes does not read the key-block IV
  E. lengths       of the RFC key block's parts and of the TLS 1.3 traffic keys ⇒ `KeyMatOk`
  F. encrypt-then-MAC   `etmNegotiated` = the `extensions` dict has key 0x0016
-/
import TLX.Lemmas.C01RfcTable
set_option autoImplicit false
set_option linter.unusedSimpArgs false
namespace TLX.Lemmas.C01Rfc
open TLX TLX.Tok TLX.Crypto TLX.Cipher TLX.CipherSuite TLX.Spec.KeySchedules TLX.Spec.TlsSender TLX.Spec.TlsConnection
open TLX.Spec.RfcSuite TLX.RecordLayer TLX.Props.C09Found TLX.Spec.NssKeylog TLX.Lemmas.KeySchedule

/-! ### C. the key log -/

/-- the key-log file has a line `<label> <client random> <secret>` (hex digits in either case, LF or CRLF, anywhere) -/
def HasLine (ls : List (FLine × Bool)) (label cr secret : List Nat) : Prop :=
  ∃ hc hv crlf, (FLine.key ⟨label, cr, secret⟩ hc hv, crlf) ∈ ls

/-- every line of the file with this label and client random carries this secret (a key log of ONE run of the connection:
    NSS writes each secret once) -/
def OnlySecret (ls : List (FLine × Bool)) (label cr secret : List Nat) : Prop :=
  ∀ tr hc hv crlf, (FLine.key tr hc hv, crlf) ∈ ls → tr.label = label → tr.cr = cr → tr.secret = secret

theorem mem_linesFor (cr : List Nat) (ls : List (FLine × Bool)) (k : Keylog.Key) :
    k ∈ linesFor cr ls ↔ ∃ tr hc hv crlf, (FLine.key tr hc hv, crlf) ∈ ls ∧ tr.cr = cr ∧ k = ⟨tr.label, hc, hv⟩ := by
  unfold linesFor
  rw [List.mem_filterMap]
  constructor
  · rintro ⟨⟨l, crlf⟩, hm, hk⟩
    cases l with
    | other s => simp at hk
    | key tr hc hv =>
      simp only at hk
      by_cases e : tr.cr = cr
      · rw [if_pos e] at hk
        exact ⟨tr, hc, hv, crlf, hm, e, (Option.some.inj hk).symm⟩
      · rw [if_neg e] at hk; cases hk
  · rintro ⟨tr, hc, hv, crlf, hm, e, rfl⟩
    exact ⟨_, hm, by simp [e]⟩

theorem bytesOfNats_natsOfBytes (b : Bytes) : Pipeline.bytesOfNats (Pipeline.natsOfBytes b) = b := by
  induction b with
  | nil => rfl
  | cons x xs ih =>
    simp only [Pipeline.bytesOfNats, Pipeline.natsOfBytes, List.map_cons, List.map_map] at ih ⊢
    rw [ih]; simp

/-- what the four TLS 1.3 label names are to the key schedule -/
theorem labelOf_13 :
    Pipeline.labelOf labelCHTS = .clientHandshake ∧ Pipeline.labelOf labelSHTS = .serverHandshake ∧
    Pipeline.labelOf labelCTS0 = .clientTraffic0 ∧ Pipeline.labelOf labelSTS0 = .serverTraffic0 ∧
    Keylog.labels13 = [labelCHTS, labelSHTS, labelCTS0, labelSTS0] ∧ labelClientRandom = Keylog.s_CLIENT_RANDOM := by
  decide

/-- one key of `find_session_secrets` as `dev_tls_13_keys` reads it -/
def sec13 (k : Keylog.Key) : Option KeySchedule.Secret :=
  if Keylog.labels13.contains k.label then
    (Keylog.fromHex k.value).map fun v => (Pipeline.labelOf k.label, Pipeline.bytesOfNats v)
  else some (.other, [])

theorem secretsOf_true (ks : List Keylog.Key) : Pipeline.secretsOf true ks = ks.mapM sec13 := by
  simp only [Pipeline.secretsOf, if_true]; rfl

/-- a line of the file as the TLS 1.3 key schedule reads it -/
def lineSec (cr : List Nat) (x : FLine × Bool) : Option KeySchedule.Secret :=
  match x.1 with
  | .key tr _ _ =>
    if tr.cr = cr then
      some (if Keylog.labels13.contains tr.label then (Pipeline.labelOf tr.label, Pipeline.bytesOfNats tr.secret)
            else (.other, []))
    else none
  | .other _ => none

theorem linesFor_cons_other (cr : List Nat) (s : Keylog.Str) (b : Bool) (rest : List (FLine × Bool)) :
    linesFor cr ((.other s, b) :: rest) = linesFor cr rest := by
  simp [linesFor]

theorem linesFor_cons_key (cr : List Nat) (tr : Triple) (hc hv : Keylog.Str) (b : Bool) (rest : List (FLine × Bool)) :
    linesFor cr ((.key tr hc hv, b) :: rest) =
      if tr.cr = cr then ⟨tr.label, hc, hv⟩ :: linesFor cr rest else linesFor cr rest := by
  by_cases e : tr.cr = cr <;> simp [linesFor, e]

/-- **TLS 1.3: the secret list of `generate_keys`** for a key-log file of well-formed lines: one entry per line with the
    connection's client random, in file order — the label and the bytes of the secret for the four traffic-secret labels,
    a dummy for every other label. `bytes.fromhex` cannot fail on a well-formed line. -/
theorem secretsOf13_lines (cr : List Nat) (ls : List (FLine × Bool)) (hwf : ∀ x ∈ ls, x.1.WF) :
    Pipeline.secretsOf true (linesFor cr ls) = some (ls.filterMap (lineSec cr)) := by
  rw [secretsOf_true]
  induction ls with
  | nil => rfl
  | cons x rest ih =>
    obtain ⟨l, b⟩ := x
    have ih := ih (fun y hy => hwf y (by simp [hy]))
    cases l with
    | other s =>
      rw [linesFor_cons_other, ih, List.filterMap_cons]
      rfl
    | key tr hc hv =>
      have w : DenotesVia _ tr hc hv := hwf (.key tr hc hv, b) (by simp)
      have hx := Lemmas.Keylog.fromHex_of_isHexOf w.2.2.2.2.1
      rw [linesFor_cons_key]
      by_cases e : tr.cr = cr
      · rw [if_pos e, List.mapM_cons, ih]
        simp only [sec13, hx, lineSec, e, if_true, List.filterMap_cons]
        by_cases hl : tr.label ∈ Keylog.labels13
        · simp [hl]
        · simp [hl]
      · rw [if_neg e, ih, List.filterMap_cons]
        simp [lineSec, e]

theorem foldl_pick (l : KeySchedule.Label) (v : Bytes) (ss : List KeySchedule.Secret)
    (hall : ∀ s ∈ ss, s.1 = l → s.2 = v) (acc : Option Bytes) (hacc : acc = none ∨ acc = some v) :
    (ss.foldl (pick l) acc = some v ↔ acc = some v ∨ ∃ s ∈ ss, s.1 = l) ∧
      (ss.foldl (pick l) acc = none ∨ ss.foldl (pick l) acc = some v) := by
  induction ss generalizing acc with
  | nil => simp [hacc]
  | cons s rest ih =>
    have hall' : ∀ s ∈ rest, s.1 = l → s.2 = v := fun s hs => hall s (by simp [hs])
    simp only [List.foldl_cons]
    by_cases e : s.1 = l
    · have hv := hall s (by simp) e
      have hp : pick l acc s = some v := by simp [pick, e, hv]
      rw [hp]
      obtain ⟨i1, i2⟩ := ih hall' (some v) (.inr rfl)
      refine ⟨?_, i2⟩
      rw [i1]
      constructor
      · intro _; exact .inr ⟨s, by simp, e⟩
      · intro _; exact .inl rfl
    · have hp : pick l acc s = acc := by simp [pick, e]
      rw [hp]
      obtain ⟨i1, i2⟩ := ih hall' acc hacc
      refine ⟨?_, i2⟩
      rw [i1]
      constructor
      · rintro (h | ⟨s', hs', he⟩)
        · exact .inl h
        · exact .inr ⟨s', by simp [hs'], he⟩
      · rintro (h | ⟨s', hs', he⟩)
        · exact .inl h
        · simp only [List.mem_cons] at hs'
          rcases hs' with rfl | hs'
          · exact absurd he e
          · exact .inr ⟨s', hs', he⟩

/-- `dev_tls_13_keys` keeps the LAST entry per label: with one secret per label that is the secret -/
theorem lastOf_of_only (l : KeySchedule.Label) (v : Bytes) (ss : List KeySchedule.Secret)
    (hex : ∃ s ∈ ss, s.1 = l) (hall : ∀ s ∈ ss, s.1 = l → s.2 = v) : lastOf l ss = some v :=
  ((foldl_pick l v ss hall none (.inl rfl)).1).mpr (.inr hex)

theorem labelOf_inj13 (lab : List Nat) (hlab : lab ∈ Keylog.labels13) (x : List Nat)
    (hx : Keylog.labels13.contains x = true) (h : Pipeline.labelOf x = Pipeline.labelOf lab) : x = lab := by
  have hx' : x ∈ Keylog.labels13 := by simpa using hx
  simp only [Keylog.labels13, List.mem_cons, List.mem_nil_iff, or_false] at hlab hx'
  rcases hlab with rfl | rfl | rfl | rfl <;> rcases hx' with rfl | rfl | rfl | rfl <;>
    first | rfl | (exfalso; revert h; decide)

/-- **TLS 1.3: the secret the key schedule uses for a label** — the file has the line, and no other secret under the label
    for this client random. -/
theorem lastOf_lines (cr : List Nat) (ls : List (FLine × Bool)) (lab : List Nat) (hlab : lab ∈ Keylog.labels13)
    (sec : Bytes) (hhas : HasLine ls lab cr (Pipeline.natsOfBytes sec))
    (honly : OnlySecret ls lab cr (Pipeline.natsOfBytes sec)) :
    lastOf (Pipeline.labelOf lab) (ls.filterMap (lineSec cr)) = some sec := by
  have hc : Keylog.labels13.contains lab = true := by simpa using hlab
  apply lastOf_of_only
  · obtain ⟨hc', hv, crlf, hm⟩ := hhas
    refine ⟨(Pipeline.labelOf lab, sec), ?_, rfl⟩
    rw [List.mem_filterMap]
    refine ⟨_, hm, ?_⟩
    simp [lineSec, hc, hlab, bytesOfNats_natsOfBytes]
  · intro s hs hl
    rw [List.mem_filterMap] at hs
    obtain ⟨⟨l, crlf⟩, hm, hk⟩ := hs
    cases l with
    | other s' => simp [lineSec] at hk
    | key tr hc' hv =>
      simp only [lineSec] at hk
      by_cases e : tr.cr = cr
      · rw [if_pos e] at hk
        by_cases hl13 : Keylog.labels13.contains tr.label = true
        · rw [if_pos hl13] at hk
          cases hk
          have := labelOf_inj13 lab hlab tr.label hl13 hl
          rw [honly tr hc' hv crlf hm this e, bytesOfNats_natsOfBytes]
        · rw [if_neg hl13] at hk
          cases hk
          exfalso
          simp only [Keylog.labels13, List.mem_cons, List.mem_nil_iff, or_false] at hlab
          rcases hlab with rfl | rfl | rfl | rfl <;> revert hl <;> decide
      · rw [if_neg e] at hk; cases hk

theorem linesFor_ne_nil (cr : List Nat) (ls : List (FLine × Bool)) (lab sec : List Nat) (h : HasLine ls lab cr sec) :
    ∃ fk fks, linesFor cr ls = fk :: fks := by
  obtain ⟨hc, hv, crlf, hm⟩ := h
  have : (⟨lab, hc, hv⟩ : Keylog.Key) ∈ linesFor cr ls := (mem_linesFor cr ls _).mpr ⟨_, hc, hv, crlf, hm, rfl, rfl⟩
  cases hl : linesFor cr ls with
  | nil => rw [hl] at this; cases this
  | cons a b => exact ⟨a, b, rfl⟩

/-- **SSL 3.0 – TLS 1.2: the line `generate_keys` uses** is the FIRST `CLIENT_RANDOM` line with the connection's client random
    (an `RSA` line has no 32-byte client random: it is no secret line of the file); with one master secret under the label
    the key schedule gets that master secret. -/
theorem legacy_lines (cr : List Nat) (ls : List (FLine × Bool)) (hwf : ∀ x ∈ ls, x.1.WF) (ms : Bytes)
    (hhas : HasLine ls labelClientRandom cr (Pipeline.natsOfBytes ms))
    (honly : OnlySecret ls labelClientRandom cr (Pipeline.natsOfBytes ms)) :
    ∃ fk fks rest, (linesFor cr ls).filter (fun k => k.label == Keylog.s_CLIENT_RANDOM || k.label == Keylog.s_RSA) = fk :: fks ∧
      Pipeline.secretsOf false (fk :: fks) = some ((.clientRandom, ms) :: rest) := by
  have hlab : labelClientRandom = Keylog.s_CLIENT_RANDOM := by decide
  rw [hlab] at hhas honly
  have hall : ∀ k ∈ (linesFor cr ls).filter (fun k => k.label == Keylog.s_CLIENT_RANDOM || k.label == Keylog.s_RSA),
      k.label = Keylog.s_CLIENT_RANDOM ∧ Keylog.fromHex k.value = some (Pipeline.natsOfBytes ms) := by
    intro k hk
    obtain ⟨hk1, hk2⟩ := List.mem_filter.mp hk
    obtain ⟨tr, hc, hv, crlf, hm, e, rfl⟩ := (mem_linesFor cr ls k).mp hk1
    have w : DenotesVia _ tr hc hv := hwf _ hm
    simp only [Bool.or_eq_true, beq_iff_eq] at hk2
    have hcr : tr.label = Keylog.s_CLIENT_RANDOM := by
      rcases hk2 with h | h
      · exact h
      · exact absurd (h ▸ w.2.1) Lemmas.Keylog.rsa_not_nss
    refine ⟨hcr, ?_⟩
    have := Lemmas.Keylog.fromHex_of_isHexOf w.2.2.2.2.1
    rw [honly tr hc hv crlf hm hcr e] at this
    exact this
  obtain ⟨hc, hv, crlf, hm⟩ := hhas
  have hin : (⟨Keylog.s_CLIENT_RANDOM, hc, hv⟩ : Keylog.Key) ∈
      (linesFor cr ls).filter (fun k => k.label == Keylog.s_CLIENT_RANDOM || k.label == Keylog.s_RSA) :=
    List.mem_filter.mpr ⟨(mem_linesFor cr ls _).mpr ⟨_, hc, hv, crlf, hm, rfl, rfl⟩, by simp⟩
  generalize (linesFor cr ls).filter (fun k => k.label == Keylog.s_CLIENT_RANDOM || k.label == Keylog.s_RSA) = F at *
  cases F with
  | nil => cases hin
  | cons fk fks =>
    obtain ⟨h1, h2⟩ := hall fk (by simp)
    refine ⟨fk, fks, fks.map fun _ => (.other, []), rfl, ?_⟩
    simp only [Pipeline.secretsOf, Bool.false_eq_true, if_false, h1, true_or, if_true, h2, Option.map_some]
    have : Pipeline.labelOf Keylog.s_CLIENT_RANDOM = .clientRandom := by decide
    rw [this, bytesOfNats_natsOfBytes]

/-! ### D. the key-block IV is not read by RC4 and explicit-IV CBC -/

def IvFree : CipherClass → Prop
  | .stream | .cbcExplicit _ _ => True
  | _ => False

/-- same key, keystream position and application key — the fields these classes read -/
def SameKey (a b : SDir) : Prop := a.key = b.key ∧ a.off = b.off ∧ a.appKey = b.appKey

theorem protect_ivfree (P : Cipher.Prims) (L : SealLaws P) (cls : CipherClass) (h : IvFree cls) (ver : Bytes) (a b : SDir)
    (hab : SameKey a b) (typ : UInt8) (pt : Bytes) (f : Fresh) :
    (protect P L cls ver a typ pt f).2 = (protect P L cls ver b typ pt f).2 ∧
      SameKey (protect P L cls ver a typ pt f).1 (protect P L cls ver b typ pt f).1 := by
  obtain ⟨h1, h2, h3⟩ := hab
  cases cls <;> simp only [IvFree] at h <;> simp only [protect, SameKey, h1, h2, h3, and_self]

theorem switchN_sameKey (n : Nat) (a b : SDir) (hab : SameKey a b) : SameKey (switchN n a) (switchN n b) := by
  induction n generalizing a b with
  | zero => exact hab
  | succ n ih =>
    simp only [switchN]
    apply ih
    obtain ⟨h1, h2, h3⟩ := hab
    exact ⟨h3, h2, h3⟩

theorem sendDir_ivfree (P : Cipher.Prims) (L : SealLaws P) (cls : CipherClass) (h : IvFree cls) (ver : Bytes) (evs : List DirEv)
    (a b : SDir) (hab : SameKey a b) : sendDir P L cls ver a evs = sendDir P L cls ver b evs := by
  induction evs generalizing a b with
  | nil => rfl
  | cons e rest ih =>
    cases e with
    | clear body => simp only [sendDir]; rw [ih a b hab]
    | ccs => simp only [sendDir]; rw [ih a b hab]
    | enc typ pt f =>
      obtain ⟨e1, e2⟩ := protect_ivfree P L cls h ver a b hab typ pt f
      simp only [sendDir]; rw [e1, ih _ _ e2]
    | hs13 msgs f =>
      obtain ⟨e1, e2⟩ := protect_ivfree P L cls h ver a b hab 22 (hsBytes msgs) f
      simp only [sendDir]; rw [e1, ih _ _ (switchN_sameKey _ _ _ e2)]

/-- two sender states with the same keys send the same records in the IV-free classes -/
theorem records_ivfree (P : Cipher.Prims) (L : SealLaws P) (cls : CipherClass) (h : IvFree cls) (t : Transcript) (x y : Snd)
    (hc : SameKey x.c y.c) (hs : SameKey x.s y.s) (d : Bool) : t.records P L cls x d = t.records P L cls y d := by
  cases d <;> simp only [Transcript.records, Bool.false_eq_true, if_false, if_true]
  · rw [sendDir_ivfree P L cls h t.ver t.cEvs _ _ hc]
  · rw [sendDir_ivfree P L cls h t.ver t.sEvs _ _ hs]

/-! ### E. lengths -/

theorem keyBlock_length (H : Crypto.Prims) (hH : H.Lawful) (pv : ProtocolVersion) (sp : SecurityParameters)
    (hprf : sp.prfHash.Lawful) (ms cr sr : Bytes) : (keyBlock H pv sp ms cr sr).length = sp.keyBlockLength := by
  cases pv <;> simp only [keyBlock]
  · exact stream_length _ H.md5.outLen hH.md5.outLen_pos (fun _ => hH.md5.hash_len _) _
  · exact prf10_length H hH.md5 hH.sha1 _ _ _ _
  · exact prf10_length H hH.md5 hH.sha1 _ _ _ _
  · exact pHash_length _ hprf _ _ _

theorem connectionKeys_lengths (H : Crypto.Prims) (hH : H.Lawful) (pv : ProtocolVersion) (sp : SecurityParameters)
    (hprf : sp.prfHash.Lawful) (ms cr sr : Bytes) :
    let km := connectionKeys H pv sp ms cr sr
    km.clientWriteKey.length = sp.encKeyLength ∧ km.serverWriteKey.length = sp.encKeyLength ∧
    km.clientWriteIv.length = sp.fixedIvLength ∧ km.serverWriteIv.length = sp.fixedIvLength := by
  have hl := keyBlock_length H hH pv sp hprf ms cr sr
  simp only [connectionKeys, partition_fields, List.length_take, List.length_drop, hl,
    SecurityParameters.keyBlockLength]
  omega

theorem tls13_key_lengths (h : HashSuite) (hl : h.Lawful) (secret : Bytes) (n : Nat) (hn : n ≤ 255) :
    (tls13WriteKey h secret n).length = n ∧ (tls13WriteIv h secret).length = 12 := by
  have := hl.outLen_pos
  constructor
  · exact hl.expand_len _ _ _ (by
      have : 255 * 1 ≤ 255 * h.outLen := Nat.mul_le_mul_left _ this
      omega)
  · exact hl.expand_len _ _ _ (by
      have : 255 * 1 ≤ 255 * h.outLen := Nat.mul_le_mul_left _ this
      omega)

open TLX.Props.C01 in
theorem keyMatOk13 (sp : SuiteSpec) (hwf : specWf sp = true) (cls : CipherClass) (hcls : cls13 sp = some cls)
    (k iv : Bytes) (hk : k.length = sp.keyLen) (hiv : iv.length = 12) : KeyMatOk cls k iv := by
  obtain ⟨b, kl, hs, tg⟩ := sp
  cases b <;> simp [cls13] at hcls <;> subst hcls <;>
    simp only [specWf, Bool.and_eq_true, Bool.or_eq_true, beq_iff_eq] at hwf <;>
    simp only [KeyMatOk, hk, hiv]
  · obtain ⟨h1 | h1, h2⟩ := hwf <;> subst h1 <;> subst h2 <;> decide
  · obtain ⟨h1 | h1, h2 | h2⟩ := hwf <;> subst h1 <;> subst h2 <;> decide
  · obtain ⟨h1, h2⟩ := hwf; subst h1; decide

open TLX.Props.C01 in
theorem keyMatOk12 (pv : ProtocolVersion) (etm : Bool) (sp : SuiteSpec) (hwf : specWf sp = true) (cls : CipherClass)
    (hcls : cls12 pv etm sp = some cls) (k iv : Bytes) (hk : k.length = sp.keyLen)
    (hiv : 0 < recordIvLength pv sp.bulk → iv.length = recordIvLength pv sp.bulk) : KeyMatOk cls k iv := by
  obtain ⟨b, kl, hs, tg⟩ := sp
  cases b <;> cases pv <;> simp [cls12, cbcAlg] at hcls <;> subst hcls <;>
    simp only [specWf, Bool.and_eq_true, Bool.or_eq_true, beq_iff_eq] at hwf <;>
    (try simp only [recordIvLength, Bulk.blockLength, Nat.reduceLT, Nat.lt_irrefl, false_implies, true_implies,
      forall_const] at hiv) <;>
    (first | simp only [KeyMatOk, hk, hiv] | simp only [KeyMatOk, hk]) <;>
    first
      | (subst hwf; decide)
      | (rcases hwf with h1 | h1 <;> subst h1 <;> decide)
      | (obtain ⟨h1 | h1, h2⟩ := hwf <;> subst h1 <;> subst h2 <;> decide)
      | (obtain ⟨h1 | h1, h2 | h2⟩ := hwf <;> subst h1 <;> subst h2 <;> decide)
      | (obtain ⟨h1, h2⟩ := hwf; subst h1; decide)

theorem keyLen_le (sp : SuiteSpec) (hwf : specWf sp = true) : sp.keyLen ≤ 32 := by
  obtain ⟨b, kl, hs, tg⟩ := sp
  cases b <;> simp only [specWf, Bool.and_eq_true, Bool.or_eq_true, beq_iff_eq] at hwf <;> (try cases hwf) <;>
    simp only <;> omega

/-- a suite valid for the version has a record protection in it -/
theorem cls12_exists (pv : ProtocolVersion) (etm : Bool) (sp : SuiteSpec) (hwf : specWf sp = true) (hv : ValidFor sp pv) :
    ∃ cls, cls12 pv etm sp = some cls := by
  obtain ⟨b, kl, hs, tg⟩ := sp
  cases b <;> simp only [specWf, Bool.false_eq_true] at hwf <;>
    first
      | exact ⟨_, rfl⟩
      | (have := hv (.inl rfl); subst this; exact ⟨_, rfl⟩)

theorem ivFree_of_cls12 (pv : ProtocolVersion) (etm : Bool) (sp : SuiteSpec) (cls : CipherClass)
    (hcls : cls12 pv etm sp = some cls) (h0 : ¬ 0 < recordIvLength pv sp.bulk) : IvFree cls := by
  obtain ⟨b, kl, hs, tg⟩ := sp
  cases b <;> cases pv <;> simp [cls12, cbcAlg] at hcls <;> subst hcls <;>
    first | trivial | (exfalso; exact h0 (by simp [recordIvLength, Bulk.blockLength]))

theorem suiteBulk_argsOf (sp : SuiteSpec) : Props.C15.suiteBulk (argsOf sp).ks = some sp.bulk := by
  obtain ⟨b, kl, hs, tg⟩ := sp
  cases b <;> rfl

theorem rfcParams_argsOf (H : Crypto.Prims) (pv : ProtocolVersion) (sp : SuiteSpec) :
    Props.C15.rfcParams H pv (argsOf sp).ks sp.bulk = secParams H pv sp := by
  obtain ⟨b, kl, hs, tg⟩ := sp
  cases hs <;> rfl

theorem prfHash_lawful (H : Crypto.Prims) (hH : H.Lawful) (b : Bool) : (tls12PrfHash H b).Lawful := by
  cases b
  · exact hH.sha256
  · exact hH.sha384

theorem hash_lawful (H : Crypto.Prims) (hH : H.Lawful) (h : HashName) : (h.suite H).Lawful := by
  cases h
  · exact hH.md5
  · exact hH.sha1
  · exact hH.sha256
  · exact hH.sha384

/-! ### F. encrypt-then-MAC -/

theorem etm_extGet (es : List Spec.TlsHello.Ext) (hwf : ∀ e ∈ es, e.ty < 65536) :
    (Session.extGet (es.map Lemmas.Pipeline.extPair) [0x00, 0x16]).isSome = es.any fun e => e.ty == 22 := by
  have key : ∀ e ∈ es, (decide ((Lemmas.Pipeline.extPair e).1 = [0x00, 0x16])) = (e.ty == 22) := by
    intro e he
    have h22 : Spec.TlsHello.u16 22 = [0x00, 0x16] := by decide
    simp only [Lemmas.Pipeline.extPair]
    by_cases h : e.ty = 22
    · simp [h, h22]
    · have : Spec.TlsHello.u16 e.ty ≠ [0x00, 0x16] := by
        intro hh
        rw [← h22] at hh
        exact h (Lemmas.Pipeline.u16_inj _ _ (hwf e he) (by decide) hh)
      simp [h, this]
  simp only [Session.extGet, Option.isSome_map]
  rw [Bool.eq_iff_iff]
  simp only [List.find?_isSome, List.mem_reverse, List.mem_map, List.any_eq_true, decide_eq_true_eq]
  constructor
  · rintro ⟨x, ⟨e, he, rfl⟩, hx⟩
    exact ⟨e, he, by rw [← key e he]; simpa using hx⟩
  · rintro ⟨e, he, h⟩
    refine ⟨_, ⟨e, he, rfl⟩, ?_⟩
    have := key e he
    rw [h] at this
    simpa using this

end TLX.Lemmas.C01Rfc
