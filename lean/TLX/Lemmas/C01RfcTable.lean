/-
Helpers for `Props/C01Rfc.lean`: the bridges from the RFC-side description of a connection (`Spec/RfcSuite`) to the tool-side
facts the file-level capstones of `Props/C01File2` take as hypotheses.

  A. the table     `table_rfc_ok` (kernel evaluation over the REGENERATED table `Gen.cipherSuites`): for every entry, what
                   `Spec.denote` says of the name reads as a `SuiteSpec` with lengths the primitives accept, and
                   `Pipeline.suiteArgs` hands the callees exactly that (`argsOf`); with `C14.resolve_sound_complete`:
                   `resolve_rfc`
  B. the class     `cls12` / `cls13` (RFC) = `C01.classOf` (the `Decryptor`'s dispatch)
(C - F: `Lemmas/C01Rfc.lean`.)
-/
import TLX.Spec.RfcSuite
import TLX.Props.C14
import TLX.Props.C15
import TLX.Props.C01File2
set_option autoImplicit false
set_option linter.unusedSimpArgs false
namespace TLX.Lemmas.C01Rfc
open TLX TLX.Tok TLX.Crypto TLX.Cipher TLX.CipherSuite TLX.Spec.KeySchedules TLX.Spec.TlsSender TLX.Spec.TlsConnection
open TLX.Spec.RfcSuite TLX.RecordLayer

/-! ### A. the table -/

def macTag : HashName → KeySchedule.MacTag
  | .md5 => .md5 | .sha1 => .sha1 | .sha256 => .sha256 | .sha384 => .sha384

def tagOfBulk : Bulk → KeySchedule.CipherTag
  | .rc4_128 => .rc4 | .tripleDesEdeCbc => .tripleDES | .ideaCbc => .idea | .aesCbc => .aes | .camelliaCbc => .camellia
  | .aesGcm => .aesgcm | .aesCcm => .aesccm | .camelliaGcm => .camellia | .chacha20Poly1305 => .chacha

def algOfBulk : Bulk → Alg
  | .rc4_128 => .arc4 | .tripleDesEdeCbc => .tdes | .ideaCbc => .idea | .aesCbc => .aes | .camelliaCbc => .camellia
  | .aesGcm => .aesgcm | .aesCcm => .aesccm | .camelliaGcm => .camellia | .chacha20Poly1305 => .chachaPoly

/-- what `generate_keys` must read from the resolved suite for the callees to work with the suite the name denotes -/
def argsOf (sp : SuiteSpec) : Pipeline.SuiteArgs :=
  { ks := { cipher := tagOfBulk sp.bulk, cryptoFlag := sp.bulk.isAead, modeFlag := sp.bulk.isAead, keyLen := sp.keyLen,
            mac := macTag sp.hash }
    bulk := algOfBulk sp.bulk
    tagLen := some sp.tagLen }

def argsEq (a b : Pipeline.SuiteArgs) : Bool := a.ks == b.ks && a.bulk == b.bulk && a.tagLen == b.tagLen

theorem argsEq_eq (a b : Pipeline.SuiteArgs) (h : argsEq a b = true) : a = b := by
  obtain ⟨k1, b1, t1⟩ := a
  obtain ⟨k2, b2, t2⟩ := b
  simp only [argsEq, Bool.and_eq_true, beq_iff_eq] at h
  obtain ⟨⟨rfl, rfl⟩, rfl⟩ := h
  rfl

/-- key and tag lengths the RFCs define for the bulk cipher (RFC 5246 App. C, RFC 5288, 6655, 7905, 8446 B.4) -/
def specWf (sp : SuiteSpec) : Bool :=
  match sp.bulk with
  | .rc4_128 => sp.keyLen == 16
  | .tripleDesEdeCbc => sp.keyLen == 24
  | .ideaCbc => sp.keyLen == 16
  | .aesCbc | .camelliaCbc => sp.keyLen == 16 || sp.keyLen == 32
  | .aesGcm => (sp.keyLen == 16 || sp.keyLen == 32) && sp.tagLen == 16
  | .aesCcm => (sp.keyLen == 16 || sp.keyLen == 32) && (sp.tagLen == 16 || sp.tagLen == 8)
  | .chacha20Poly1305 => sp.keyLen == 32 && sp.tagLen == 16
  | .camelliaGcm => false

def entryRfcOk (e : Nat × List Nat) : Bool :=
  let ps := splitName Gen.cipherSuiteParts e.2
  match ofDenoted ps, Pipeline.suiteArgs ps with
  | some sp, some a => specWf sp && argsEq a (argsOf sp) && (e.1 / 256 != 0x13 || (cls13 sp).isSome)
  | _, _ => false

/-- kernel evaluation over the whole generated table -/
theorem table_rfc_ok : Gen.cipherSuites.all entryRfcOk = true := by decide +kernel

/-- **C14 composed**: a code point the tool's table accepts resolves to parameters that read as the `SuiteSpec` of the
    code point's IANA name, and `generate_keys` reads exactly that suite from them. -/
theorem resolve_rfc (cs : Nat) (h : CipherSuite.resolve cs ≠ none) :
    ∃ ps sp, CipherSuite.resolve cs = some ps ∧ suiteOfCode cs = some sp ∧ specWf sp = true ∧
      Pipeline.suiteArgs ps = some (argsOf sp) ∧ (cs / 256 = 0x13 → ∃ cls, cls13 sp = some cls) := by
  have hsc := Props.C14.resolve_sound_complete cs
  cases hr : CipherSuite.resolve cs with
  | none => exact absurd hr h
  | some ps =>
    rw [hr] at hsc
    obtain ⟨n, _, _, hl, hd⟩ := hsc
    -- the entry the lookup found
    have hr' := hr
    unfold CipherSuite.resolve CipherSuite.resolveWith at hr'
    cases hn : lookupName Gen.cipherSuites cs with
    | none => rw [hn] at hr'; cases hr'
    | some n' =>
      rw [hn] at hr'
      simp only [Option.map_some, Option.some.injEq] at hr'
      have hmem := Props.C14.lookupName_some hn
      have hok := List.all_eq_true.mp table_rfc_ok _ hmem
      simp only [entryRfcOk, hr'] at hok
      cases ho : ofDenoted ps with
      | none => rw [ho] at hok; cases hok
      | some sp =>
        cases ha : Pipeline.suiteArgs ps with
        | none => rw [ho, ha] at hok; cases hok
        | some a =>
          rw [ho, ha] at hok
          simp only [Bool.and_eq_true] at hok
          refine ⟨ps, sp, rfl, ?_, hok.1.1, ?_, ?_⟩
          · simp only [suiteOfCode, hl, hd, Option.bind_some, ho]
          · rw [← argsEq_eq _ _ hok.1.2]; exact ha
          · intro h13
            have := hok.2
            simp only [h13, bne_self_eq_false, Bool.false_or] at this
            exact Option.isSome_iff_exists.mp this

/-! ### B. the class -/

def sessVer : ProtocolVersion → Session.Ver
  | .ssl30 => .ssl30 | .tls10 => .tls10 | .tls11 => .tls11 | .tls12 => .tls12

def ksVer : ProtocolVersion → KeySchedule.Version
  | .ssl30 => .ssl30 | .tls10 => .tls10 | .tls11 => .tls11 | .tls12 => .tls12

theorem sessVer_ne13 (pv : ProtocolVersion) : sessVer pv ≠ .tls13 := by cases pv <;> simp [sessVer]
theorem ksVersion_sessVer (pv : ProtocolVersion) : Pipeline.ksVersion (sessVer pv) = ksVer pv := by cases pv <;> rfl
theorem specVersion_ksVer (pv : ProtocolVersion) : Props.C15.specVersion (ksVer pv) = some pv := by cases pv <;> rfl

theorem classOf_cls12 (pv : ProtocolVersion) (etm : Bool) (sp : SuiteSpec) (cls : CipherClass)
    (h : cls12 pv etm sp = some cls) :
    Props.C01.classOf (algOfBulk sp.bulk) (Pipeline.rlVersion (sessVer pv)) etm (some sp.tagLen) = some cls := by
  obtain ⟨b, kl, hs, tg⟩ := sp
  cases b <;> cases pv <;>
    simp [cls12, cbcAlg, Props.C01.classOf, algOfBulk, sessVer, Pipeline.rlVersion] at h ⊢ <;> exact h

theorem classOf_cls13 (etm : Bool) (sp : SuiteSpec) (cls : CipherClass) (h : cls13 sp = some cls) :
    Props.C01.classOf (algOfBulk sp.bulk) .tls13 etm (some sp.tagLen) = some cls := by
  obtain ⟨b, kl, hs, tg⟩ := sp
  cases b <;> simp [cls13, Props.C01.classOf, algOfBulk] at h ⊢ <;> exact h

theorem macSuite_argsOf (H : Crypto.Prims) (sp : SuiteSpec) :
    KeySchedule.macSuite H (argsOf sp).ks.mac = sp.hash.suite H := by
  obtain ⟨b, kl, hs, tg⟩ := sp
  cases hs <;> rfl

end TLX.Lemmas.C01Rfc
