/-
Helper lemmas for C12: integer codecs, list slicing over concatenations, option-list and block round trips.
Core Lean only.
-/
import TLX.Container
import TLX.Spec.Containers
namespace TLX.Lemmas.Container
open TLX TLX.Container TLX.Spec.Containers

/-! ### integer codecs -/

theorem leBytes_length (w n : Nat) : (leBytes w n).length = w := by
  induction w generalizing n with
  | zero => rfl
  | succ w ih => simp [leBytes, ih]

@[simp] theorem enc_length (e : Endian) (w n : Nat) : (enc e w n).length = w := by
  cases e <;> simp [enc, leBytes_length]

theorem u8_toNat (n : Nat) : (UInt8.ofNat (n % 256)).toNat = n % 256 := by
  simp [UInt8.toNat_ofNat']

theorem leNat_leBytes (w n : Nat) : leNat (leBytes w n) = n % 256 ^ w := by
  induction w generalizing n with
  | zero => simp [leBytes, leNat, Nat.mod_one]
  | succ w ih =>
    simp only [leBytes, leNat, ih, u8_toNat]
    rw [Nat.pow_succ, Nat.mul_comm (256 ^ w) 256, Nat.mod_mul]

theorem beNat_snoc (l : Bytes) (x : UInt8) : Bytes.beNat (l ++ [x]) = Bytes.beNat l * 256 + x.toNat := by
  simp [Bytes.beNat, List.foldl_append]

theorem beNat_reverse (l : Bytes) : Bytes.beNat l.reverse = leNat l := by
  induction l with
  | nil => rfl
  | cons x xs ih => rw [List.reverse_cons, beNat_snoc, ih, leNat]; omega

theorem rdNat_enc_mod (e : Endian) (w n : Nat) : rdNat e (enc e w n) = n % 256 ^ w := by
  cases e
  · simp [rdNat, enc, leNat_leBytes]
  · simp [rdNat, enc, beNat_reverse, leNat_leBytes]

theorem rdNat_enc (e : Endian) (w n : Nat) (h : n < 256 ^ w) : rdNat e (enc e w n) = n := by
  rw [rdNat_enc_mod, Nat.mod_eq_of_lt h]


theorem pow_256_2 : (256 : Nat) ^ 2 = 2 ^ 16 := by decide
theorem pow_256_4 : (256 : Nat) ^ 4 = 2 ^ 32 := by decide
theorem pow_256_8 : (256 : Nat) ^ 8 = 2 ^ 64 := by decide

theorem rd_u16 (e : Endian) (n : Nat) (h : n < 2 ^ 16) : rdNat e (enc e 2 n) = n :=
  rdNat_enc e 2 n (by rw [pow_256_2]; exact h)
theorem rd_u32 (e : Endian) (n : Nat) (h : n < 2 ^ 32) : rdNat e (enc e 4 n) = n :=
  rdNat_enc e 4 n (by rw [pow_256_4]; exact h)
theorem rd_u64 (e : Endian) (n : Nat) (h : n < 2 ^ 64) : rdNat e (enc e 8 n) = n :=
  rdNat_enc e 8 n (by rw [pow_256_8]; exact h)

/-! ### slicing concatenations -/

theorem fld_eq (e : Endian) (b : Bytes) (off w : Nat) : fld e b off w = rdNat e ((b.drop off).take w) := by
  simp [fld, Bytes.slice]

/-- skip a complete leading chunk -/
theorem fld_skip (e : Endian) (A R : Bytes) (off w : Nat) (h : A.length ≤ off) :
    fld e (A ++ R) off w = fld e R (off - A.length) w := by
  rw [fld_eq, fld_eq, List.drop_append, List.drop_of_length_le h, List.nil_append]

/-- the field is the leading chunk -/
theorem fld_here (e : Endian) (F R : Bytes) (w : Nat) (h : F.length = w) : fld e (F ++ R) 0 w = rdNat e F := by
  rw [fld_eq, List.drop_zero, List.take_left' h]

theorem fld_enc_here (e : Endian) (w v : Nat) (R : Bytes) (h : v < 256 ^ w) : fld e (enc e w v ++ R) 0 w = v := by
  rw [fld_here e _ _ _ (enc_length e w v), rdNat_enc e w v h]

/-- a field that lies inside the first part does not see what follows -/
theorem fld_prefix (e : Endian) (B S : Bytes) (off w : Nat) (h : off + w ≤ B.length) :
    fld e (B ++ S) off w = fld e B off w := by
  rw [fld_eq, fld_eq, List.drop_append_of_le_length (by omega), List.take_append_of_le_length]
  simp only [List.length_drop]; omega

theorem fld_take (e : Endian) (f : Bytes) (k off w : Nat) (h : off + w ≤ k) :
    fld e (f.take k) off w = fld e f off w := by
  rw [fld_eq, fld_eq, List.drop_take, List.take_take, Nat.min_eq_left (by omega)]

/-! ### padding -/

theorem align4_eq (n : Nat) : align4 n = n + (4 - n % 4) % 4 := by
  unfold align4; split <;> omega

theorem padding_length (n : Nat) : (padding n).length = (4 - n % 4) % 4 := by simp [padding]

theorem padded_length (b : Bytes) : (padded b).length = align4 b.length := by
  simp [padded, padding_length, align4_eq]

theorem align4_mod (n : Nat) : align4 n % 4 = 0 := by rw [align4_eq]; omega
theorem align4_ge (n : Nat) : n ≤ align4 n := by rw [align4_eq]; omega
theorem align4_of_mod (n : Nat) (h : n % 4 = 0) : align4 n = n := by rw [align4_eq]; omega

theorem padded_of_mod (b : Bytes) (h : b.length % 4 = 0) : padded b = b := by
  simp [padded, padding, h]


/-! ### options -/

theorem utf8Valid_ascii (d : Bytes) (h : ∀ b ∈ d, b < 0x80) : utf8Valid d = true := by
  unfold utf8Valid
  induction d with
  | nil => rfl
  | cons b bs ih =>
    have hb : b < 0x80 := h b (by simp)
    simp only [List.length_cons, utf8Fuel, hb, ↓reduceIte]
    exact ih (fun x hx => h x (by simp [hx]))

theorem commentOk_ascii (d : Bytes) (h : ∀ b ∈ d, b < 0x80) : commentOk d = true := by
  simp [commentOk, utf8Valid_ascii d h]

/-- the model's view of a specification option -/
def toM (o : Spec.Containers.Opt) : Container.Opt := ⟨o.code, o.val⟩

theorem encOpt_length (e : Endian) (o : Spec.Containers.Opt) : (encOpt e o).length = 4 + align4 o.val.length := by
  simp [encOpt, padded_length]; omega

/-- one round of the option loop over a well-formed option followed by anything -/
theorem parseOpts_step (fuel : Nat) (e : Endian) (o : Spec.Containers.Opt) (R : Bytes) (h : o.WF) :
    parseOptsFuel (fuel + 1) e (encOpt e o ++ R) =
      match parseOptsFuel fuel e R with
      | .ok os => .ok (toM o :: os)
      | .error er => .error er := by
  obtain ⟨hc0, hc, hl, hcom⟩ := h
  have hne : (encOpt e o ++ R).isEmpty = false := by
    simp [encOpt]
    intro h0; have := congrArg List.length h0; simp at this
  have hlen : ¬ (encOpt e o ++ R).length < 4 := by simp [encOpt_length]; omega
  have hcode : fld e (encOpt e o ++ R) 0 2 = o.code := by
    simp only [encOpt, List.append_assoc]
    exact fld_enc_here e 2 o.code _ (by rw [pow_256_2]; exact hc)
  have hlenf : fld e (encOpt e o ++ R) 2 2 = o.val.length := by
    simp only [encOpt, List.append_assoc]
    rw [fld_skip e _ _ 2 2 (by simp), enc_length, Nat.sub_self]
    exact fld_enc_here e 2 _ _ (by rw [pow_256_2]; exact hl)
  have hdata : Bytes.slice (encOpt e o ++ R) 4 (4 + o.val.length) = o.val := by
    simp only [encOpt, padded, List.append_assoc, Bytes.slice]
    rw [List.drop_append, List.drop_of_length_le (by simp), List.nil_append, enc_length,
      List.drop_append, List.drop_of_length_le (by simp), List.nil_append, enc_length]
    simp
  have hdrop : (encOpt e o ++ R).drop (4 + align4 o.val.length) = R := by
    rw [← encOpt_length e o]; exact List.drop_left
  rw [parseOptsFuel]
  simp only [hne, hlen, hcode, hlenf, hdata, hdrop, Bool.false_eq_true, if_false]
  have hcm : ¬ (o.code = 1 ∧ commentOk o.val = false) := by
    intro ⟨h1, h2⟩; rw [commentOk_ascii o.val (hcom h1)] at h2; cases h2
  rw [if_neg hcm, if_neg (by omega)]
  rfl

theorem encOptList_length (e : Endian) (os : List Spec.Containers.Opt) : (encOptList e os).length = optListLen os := by
  induction os with
  | nil => rfl
  | cons o os ih => simp [encOptList, optListLen, encOpt_length, ih, align4_eq]

theorem encOpts_length (e : Endian) (o : Opts) : (encOpts e o).length = o.encLen := by
  cases o with
  | mk l eoo => cases eoo <;> simp [encOpts, Opts.encLen, encOptList_length]

theorem optListLen_mod (os : List Spec.Containers.Opt) : optListLen os % 4 = 0 := by
  induction os with
  | nil => rfl
  | cons o os ih => simp only [optListLen]; omega

theorem encLen_mod (o : Opts) : o.encLen % 4 = 0 := by
  have := optListLen_mod o.list
  unfold Opts.encLen; split <;> omega

theorem optListLen_ge (os : List Spec.Containers.Opt) : 4 * os.length ≤ optListLen os := by
  induction os with
  | nil => exact Nat.le_refl _
  | cons o os ih => simp only [optListLen, List.length_cons]; omega

/-- what the model's option parser must return for an encoded option list -/
def parsedOpts (o : Opts) : List Container.Opt :=
  o.list.map toM ++ (if o.eoo then [⟨0, []⟩] else [])

theorem parseOptsFuel_list (e : Endian) (os : List Spec.Containers.Opt) (eoo : Bool)
    (h : ∀ x ∈ os, x.WF) (fuel : Nat) (hf : os.length + 1 ≤ fuel) :
    parseOptsFuel fuel e (encOpts e ⟨os, eoo⟩) = .ok (parsedOpts ⟨os, eoo⟩) := by
  induction os generalizing fuel with
  | nil =>
    obtain ⟨fuel, rfl⟩ : ∃ k, fuel = k + 1 := ⟨fuel - 1, by simp at hf; omega⟩
    cases eoo
    · simp [encOpts, encOptList, parsedOpts, parseOptsFuel]
    · have h1 : fld e (u16 e 0 ++ u16 e 0) 0 2 = 0 := fld_enc_here e 2 0 _ (by decide)
      have h2 : fld e (u16 e 0 ++ u16 e 0) 2 2 = 0 := by
        rw [fld_skip e _ _ 2 2 (by simp), enc_length, Nat.sub_self]
        have := fld_enc_here e 2 0 [] (by decide); simpa using this
      have hne : (u16 e 0 ++ u16 e 0).isEmpty = false := by
        simp; intro h0; have := congrArg List.length h0; simp at this
      simp only [encOpts, encOptList, parsedOpts, List.nil_append, if_true, List.map_nil]
      rw [parseOptsFuel]
      simp [hne, h1, h2, Bytes.slice]
  | cons o os ih =>
    obtain ⟨fuel, rfl⟩ : ∃ k, fuel = k + 1 := ⟨fuel - 1, by simp at hf; omega⟩
    have hstep := parseOpts_step fuel e o (encOpts e ⟨os, eoo⟩) (h o (by simp))
    have hrec := ih (fun x hx => h x (by simp [hx])) fuel (by simp at hf; omega)
    have : encOpts e ⟨o :: os, eoo⟩ = encOpt e o ++ encOpts e ⟨os, eoo⟩ := by
      simp [encOpts, encOptList, List.append_assoc]
    rw [this, hstep, hrec]
    simp [parsedOpts]

theorem parseOpts_encOpts (e : Endian) (o : Opts) (h : o.WF) :
    parseOpts e (encOpts e o) = .ok (parsedOpts o) := by
  cases o with
  | mk os eoo =>
    unfold parseOpts
    by_cases hemp : os = [] ∧ eoo = false
    · obtain ⟨rfl, rfl⟩ := hemp
      simp [encOpts, encOptList, parsedOpts, parseOptsFuel]
    · apply parseOptsFuel_list e os eoo h
      rw [encOpts_length]
      have := optListLen_ge os
      have hm := optListLen_mod os
      simp only [Opts.encLen]
      cases eoo
      · simp at hemp
        cases os with
        | nil => exact absurd rfl hemp
        | cons o os => simp only [List.length_cons] at *; simp; omega
      · simp; omega


/-! ### the general block structure -/

/-- total length written in both length fields -/
def blkLen (body : Bytes) : Nat := 12 + align4 body.length

theorem encBlock_eq (e : Endian) (ty : Nat) (body : Bytes) :
    encBlock e ty body = u32 e ty ++ (u32 e (blkLen body) ++ (padded body ++ u32 e (blkLen body))) := by
  simp [encBlock, blkLen, padded_length]

theorem encBlock_length (e : Endian) (ty : Nat) (body : Bytes) : (encBlock e ty body).length = blkLen body := by
  simp [encBlock_eq, padded_length, blkLen]; omega

theorem encBlock_ty (e : Endian) (ty : Nat) (body R : Bytes) (h : ty < 2 ^ 32) :
    fld e (encBlock e ty body ++ R) 0 4 = ty := by
  rw [encBlock_eq]; simp only [List.append_assoc]
  exact fld_enc_here e 4 ty _ (by rw [pow_256_4]; exact h)

theorem encBlock_len (e : Endian) (ty : Nat) (body R : Bytes) (h : blkLen body < 2 ^ 32) :
    fld e (encBlock e ty body ++ R) 4 4 = blkLen body := by
  rw [encBlock_eq]; simp only [List.append_assoc]
  rw [fld_skip e _ _ 4 4 (by simp), enc_length, Nat.sub_self]
  exact fld_enc_here e 4 _ _ (by rw [pow_256_4]; exact h)

/-- a field inside the (padded) body -/
theorem encBlock_fld (e : Endian) (ty : Nat) (body : Bytes) (off w : Nat) (h : off + w ≤ (padded body).length) :
    fld e (encBlock e ty body) (8 + off) w = fld e (padded body) off w := by
  rw [encBlock_eq]
  rw [fld_skip e _ _ _ _ (by simp; omega), enc_length, fld_skip e _ _ _ _ (by simp; omega), enc_length,
    show 8 + off - 4 - 4 = off by omega]
  exact fld_prefix e _ _ off w h

theorem encBlock_drop8 (e : Endian) (ty : Nat) (body : Bytes) :
    (encBlock e ty body).drop 8 = padded body ++ u32 e (blkLen body) := by
  rw [encBlock_eq, ← List.append_assoc]
  exact List.drop_left' (by simp)

/-- a slice inside the (padded) body -/
theorem encBlock_slice (e : Endian) (ty : Nat) (body : Bytes) (i j : Nat) (h : j ≤ (padded body).length) :
    Bytes.slice (encBlock e ty body) (8 + i) (8 + j) = Bytes.slice (padded body) i j := by
  unfold Bytes.slice
  rw [← List.drop_drop, encBlock_drop8, show 8 + j - (8 + i) = j - i by omega]
  by_cases hij : i ≤ j
  · rw [List.drop_append_of_le_length (by omega), List.take_append_of_le_length]
    simp only [List.length_drop]; omega
  · simp [show j - i = 0 by omega]

theorem encBlock_trailer (e : Endian) (ty : Nat) (body : Bytes) :
    (encBlock e ty body).drop ((encBlock e ty body).length - 4) = u32 e (blkLen body) := by
  rw [encBlock_length, encBlock_eq, ← List.append_assoc, ← List.append_assoc]
  exact List.drop_left' (by simp [padded_length, blkLen]; omega)

theorem blockHead_encBlock (e : Endian) (ty hdrLen : Nat) (body : Bytes)
    (hl : blkLen body < 2 ^ 32) (hh : hdrLen ≤ blkLen body) :
    blockHead e hdrLen (encBlock e ty body) = .ok (blkLen body) := by
  have h4 : fld e (encBlock e ty body) 4 4 = blkLen body := by
    have := encBlock_len e ty body [] hl; simpa using this
  unfold blockHead
  rw [encBlock_length, if_neg (by omega)]
  simp only [h4]
  rw [if_neg (by omega)]

/-- the tail of a block whose options start at offset `oo` (≥ 8) and fill the rest of the padded body -/
theorem blockTail_encBlock (e : Endian) (ty oo : Nat) (body : Bytes) (o : Opts)
    (hl : blkLen body < 2 ^ 32) (hoo : 8 ≤ oo) (hwf : o.WF)
    (hopts : (padded body).drop (oo - 8) = encOpts e o) :
    blockTail e (encBlock e ty body) (blkLen body) oo = .ok (parsedOpts o) := by
  have hs : Bytes.slice (encBlock e ty body) oo (blkLen body - 4) = encOpts e o := by
    have := encBlock_slice e ty body (oo - 8) (blkLen body - 12) (by simp [padded_length, blkLen])
    rw [show 8 + (oo - 8) = oo by omega, show 8 + (blkLen body - 12) = blkLen body - 4 by simp [blkLen]; omega] at this
    rw [this]
    unfold Bytes.slice
    rw [hopts, List.take_of_length_le]
    have hlen := congrArg List.length hopts
    simp only [List.length_drop, padded_length] at hlen
    simp only [blkLen]; omega
  unfold blockTail
  rw [hs, parseOpts_encOpts e o hwf]
  simp only [encBlock_trailer, rd_u32 e _ hl]
  simp


/-! ### packet-like layouts: fixed header `F`, padded payload, options -/

theorem layout_length (F data O : Bytes) : (F ++ (padded data ++ O)).length = F.length + (align4 data.length + O.length) := by
  simp [padded_length]

theorem layout_data (F data O : Bytes) (k : Nat) (hk : F.length = k) :
    Bytes.slice (F ++ (padded data ++ O)) k (k + data.length) = data := by
  unfold Bytes.slice
  rw [List.drop_left' hk, Nat.add_sub_cancel_left, padded, List.append_assoc]
  exact List.take_left' rfl

theorem layout_opts (F data O : Bytes) (k : Nat) (hk : F.length = k) :
    (F ++ (padded data ++ O)).drop (k + align4 data.length) = O := by
  rw [← List.append_assoc]
  exact List.drop_left' (by simp [padded_length, hk])

theorem parsePkt_encBlock (e : Endian) (ty : Nat) (F data : Bytes) (o : Opts) (hi lo : Nat)
    (hF : F.length = 20) (h_hi : fld e F 4 4 = hi) (h_lo : fld e F 8 4 = lo) (h_cap : fld e F 12 4 = data.length)
    (hwf : o.WF) (hl : blkLen (F ++ (padded data ++ encOpts e o)) < 2 ^ 32) :
    parsePkt e (encBlock e ty (F ++ (padded data ++ encOpts e o))) = .ok ((hi <<< 32) ||| lo, data) := by
  have hblen : (F ++ (padded data ++ encOpts e o)).length = 20 + (align4 data.length + o.encLen) := by
    rw [layout_length, hF, encOpts_length]
  have hmod : (F ++ (padded data ++ encOpts e o)).length % 4 = 0 := by
    rw [hblen]; have := align4_mod data.length; have := encLen_mod o; omega
  have hpad := padded_of_mod _ hmod
  have hbl : blkLen (F ++ (padded data ++ encOpts e o)) = 32 + (align4 data.length + o.encLen) := by
    simp only [blkLen, hblen]; rw [align4_of_mod _ (by rw [← hblen]; exact hmod)]; omega
  have hfld : ∀ off, off + 4 ≤ 20 → fld e (encBlock e ty (F ++ (padded data ++ encOpts e o))) (8 + off) 4 = fld e F off 4 := by
    intro off hoff
    rw [encBlock_fld e ty _ off 4 (by rw [hpad, hblen]; omega), hpad]
    exact fld_prefix e F _ off 4 (by omega)
  have f1 := hfld 4 (by omega)
  have f2 := hfld 8 (by omega)
  have f3 := hfld 12 (by omega)
  simp only [Nat.reduceAdd] at f1 f2 f3
  unfold parsePkt
  rw [blockHead_encBlock e ty 32 _ hl (by omega)]
  simp only [f1, f2, f3, h_hi, h_lo, h_cap]
  have hdata : Bytes.slice (encBlock e ty (F ++ (padded data ++ encOpts e o))) 28 (28 + data.length) = data := by
    have := encBlock_slice e ty (F ++ (padded data ++ encOpts e o)) 20 (20 + data.length)
      (by rw [hpad, hblen]; have := align4_ge data.length; omega)
    rw [show 8 + 20 = 28 by rfl, show 8 + (20 + data.length) = 28 + data.length by omega, hpad] at this
    rw [this]; exact layout_data F data _ 20 hF
  have htail := blockTail_encBlock e ty (28 + align4 data.length) (F ++ (padded data ++ encOpts e o)) o hl (by omega) hwf
    (by rw [hpad, show 28 + align4 data.length - 8 = 20 + align4 data.length by omega]; exact layout_opts F data _ 20 hF)
  rw [htail, hdata]

/-- high/low halves of a 64-bit tick count recombine -/
theorem ticks_recombine (t : Nat) : ((t / 2 ^ 32) <<< 32) ||| (t % 2 ^ 32) = t := by
  rw [← Nat.shiftLeft_add_eq_or_of_lt (Nat.mod_lt _ (by decide)), Nat.shiftLeft_eq]
  have := Nat.div_add_mod t (2 ^ 32)
  rw [Nat.mul_comm]; exact this


theorem parseDsb_encBlock (e : Endian) (ty : Nat) (F data : Bytes) (o : Opts)
    (hF : F.length = 8) (h_len : fld e F 4 4 = data.length)
    (hwf : o.WF) (hl : blkLen (F ++ (padded data ++ encOpts e o)) < 2 ^ 32) :
    parseDsb e (encBlock e ty (F ++ (padded data ++ encOpts e o))) = .ok data := by
  have hblen : (F ++ (padded data ++ encOpts e o)).length = 8 + (align4 data.length + o.encLen) := by
    rw [layout_length, hF, encOpts_length]
  have hmod : (F ++ (padded data ++ encOpts e o)).length % 4 = 0 := by
    rw [hblen]; have := align4_mod data.length; have := encLen_mod o; omega
  have hpad := padded_of_mod _ hmod
  have hbl : blkLen (F ++ (padded data ++ encOpts e o)) = 20 + (align4 data.length + o.encLen) := by
    simp only [blkLen, hblen]; rw [align4_of_mod _ (by rw [← hblen]; exact hmod)]; omega
  have f1 : fld e (encBlock e ty (F ++ (padded data ++ encOpts e o))) 12 4 = fld e F 4 4 := by
    have := encBlock_fld e ty (F ++ (padded data ++ encOpts e o)) 4 4 (by rw [hpad, hblen]; omega)
    rw [hpad] at this
    rw [show (12 : Nat) = 8 + 4 by rfl, this]
    exact fld_prefix e F _ 4 4 (by omega)
  unfold parseDsb
  rw [blockHead_encBlock e ty 20 _ hl (by omega)]
  simp only [f1, h_len]
  have hdata : Bytes.slice (encBlock e ty (F ++ (padded data ++ encOpts e o))) 16 (16 + data.length) = data := by
    have := encBlock_slice e ty (F ++ (padded data ++ encOpts e o)) 8 (8 + data.length)
      (by rw [hpad, hblen]; have := align4_ge data.length; omega)
    rw [show 8 + 8 = 16 by rfl, show 8 + (8 + data.length) = 16 + data.length by omega, hpad] at this
    rw [this]; exact layout_data F data _ 8 hF
  have htail := blockTail_encBlock e ty (16 + align4 data.length) (F ++ (padded data ++ encOpts e o)) o hl (by omega) hwf
    (by rw [hpad, show 16 + align4 data.length - 8 = 8 + align4 data.length by omega]; exact layout_opts F data _ 8 hF)
  rw [htail, hdata]

/-! ### specification blocks seen by the block walk -/

abbrev bTy : Block → Nat := Block.typeCode

def bBody (e : Endian) : Block → Bytes
  | .epb iface ticks data origLen opts =>
    (u32 e iface ++ (u32 e (ticks / 2 ^ 32) ++ (u32 e (ticks % 2 ^ 32) ++ (u32 e data.length ++ u32 e origLen)))) ++
      (padded data ++ encOpts e opts)
  | .pb iface drops ticks data origLen opts =>
    (u16 e iface ++ (u16 e drops ++ (u32 e (ticks / 2 ^ 32) ++ (u32 e (ticks % 2 ^ 32) ++ (u32 e data.length ++ u32 e origLen))))) ++
      (padded data ++ encOpts e opts)
  | .dsb st secrets opts => (u32 e st ++ u32 e secrets.length) ++ (padded secrets ++ encOpts e opts)
  | .other _ body => body

theorem encode_eq (e : Endian) (b : Block) : b.encode e = encBlock e (bTy b) (bBody e b) := by
  cases b <;> simp [Block.encode, bTy, Block.typeCode, bBody, List.append_assoc]

/-- the item the pcapng reader must yield for an event under configuration `c` -/
def ngItem (c : Cfg) : Ev → Item
  | .pkt ticks data => .pkt ⟨ticks, c.divisor, c.offset, false⟩ data
  | .dsb s => .dsb s

theorem wf_blkLen (e : Endian) (b : Block) (h : b.WF) : blkLen (bBody e b) < 2 ^ 32 ∧ bTy b < 2 ^ 32 := by
  cases b with
  | epb iface ticks data origLen opts =>
    obtain ⟨_, _, _, _, hl⟩ := h
    have hmod : (20 + (align4 data.length + opts.encLen)) % 4 = 0 := by
      have := align4_mod data.length; have := encLen_mod opts; omega
    simp only [bBody, bTy, Block.typeCode, blkLen, padded_length, encOpts_length, List.length_append, enc_length]
    rw [show 4 + (4 + (4 + (4 + 4))) + (align4 data.length + opts.encLen) = 20 + (align4 data.length + opts.encLen) by omega,
      align4_of_mod _ hmod]
    rw [padded_length] at hl
    refine ⟨by omega, by decide⟩
  | pb iface drops ticks data origLen opts =>
    obtain ⟨_, _, _, _, _, hl⟩ := h
    have hmod : (20 + (align4 data.length + opts.encLen)) % 4 = 0 := by
      have := align4_mod data.length; have := encLen_mod opts; omega
    simp only [bBody, bTy, Block.typeCode, blkLen, padded_length, encOpts_length, List.length_append, enc_length]
    rw [show 2 + (2 + (4 + (4 + (4 + 4)))) + (align4 data.length + opts.encLen) = 20 + (align4 data.length + opts.encLen) by omega,
      align4_of_mod _ hmod]
    rw [padded_length] at hl
    refine ⟨by omega, by decide⟩
  | dsb st secrets opts =>
    obtain ⟨_, _, hl⟩ := h
    have hmod : (8 + (align4 secrets.length + opts.encLen)) % 4 = 0 := by
      have := align4_mod secrets.length; have := encLen_mod opts; omega
    simp only [bBody, bTy, Block.typeCode, blkLen, padded_length, encOpts_length, List.length_append, enc_length]
    rw [show 4 + 4 + (align4 secrets.length + opts.encLen) = 8 + (align4 secrets.length + opts.encLen) by omega,
      align4_of_mod _ hmod]
    rw [padded_length] at hl
    refine ⟨by omega, by decide⟩
  | other ty body =>
    obtain ⟨ht, _, hl⟩ := h
    rw [padded_length] at hl
    exact ⟨by simpa [bBody, blkLen] using hl, ht⟩

theorem handle_block (c : Cfg) (b : Block) (h : b.WF) :
    handle c (bTy b) (encBlock c.e (bTy b) (bBody c.e b)) = .ok ((b.event).map (ngItem c)) := by
  have hbl := (wf_blkLen c.e b h).1
  cases b with
  | epb iface ticks data origLen opts =>
    obtain ⟨hi, ht, ho, hw, hl⟩ := h
    have hcap : data.length < 2 ^ 32 := by rw [padded_length] at hl; have := align4_ge data.length; omega
    have hp := parsePkt_encBlock c.e 6
      (u32 c.e iface ++ (u32 c.e (ticks / 2 ^ 32) ++ (u32 c.e (ticks % 2 ^ 32) ++ (u32 c.e data.length ++ u32 c.e origLen))))
      data opts (ticks / 2 ^ 32) (ticks % 2 ^ 32) (by simp)
      (by rw [fld_skip _ _ _ _ _ (by simp)]; simp only [enc_length, Nat.sub_self]
          exact fld_enc_here _ 4 _ _ (by rw [pow_256_4]; omega))
      (by rw [fld_skip _ _ _ _ _ (by simp), fld_skip _ _ _ _ _ (by simp)]; simp only [enc_length, Nat.reduceSub]
          exact fld_enc_here _ 4 _ _ (by rw [pow_256_4]; exact Nat.mod_lt _ (by decide)))
      (by rw [fld_skip _ _ _ _ _ (by simp), fld_skip _ _ _ _ _ (by simp), fld_skip _ _ _ _ _ (by simp)]
          simp only [enc_length, Nat.reduceSub]
          exact fld_enc_here _ 4 _ _ (by rw [pow_256_4]; exact hcap))
      hw hbl
    simp only [handle, bTy, Block.typeCode, bBody, parseEpb, ↓reduceIte, hp, ticks_recombine, Block.event, ngItem, Option.map]
  | pb iface drops ticks data origLen opts =>
    obtain ⟨hi, hd, ht, ho, hw, hl⟩ := h
    have hcap : data.length < 2 ^ 32 := by rw [padded_length] at hl; have := align4_ge data.length; omega
    have hp := parsePkt_encBlock c.e 2
      (u16 c.e iface ++ (u16 c.e drops ++ (u32 c.e (ticks / 2 ^ 32) ++ (u32 c.e (ticks % 2 ^ 32) ++ (u32 c.e data.length ++ u32 c.e origLen)))))
      data opts (ticks / 2 ^ 32) (ticks % 2 ^ 32) (by simp)
      (by rw [fld_skip _ _ _ _ _ (by simp), fld_skip _ _ _ _ _ (by simp)]; simp only [enc_length, Nat.reduceSub]
          exact fld_enc_here _ 4 _ _ (by rw [pow_256_4]; omega))
      (by rw [fld_skip _ _ _ _ _ (by simp), fld_skip _ _ _ _ _ (by simp), fld_skip _ _ _ _ _ (by simp)]
          simp only [enc_length, Nat.reduceSub]
          exact fld_enc_here _ 4 _ _ (by rw [pow_256_4]; exact Nat.mod_lt _ (by decide)))
      (by rw [fld_skip _ _ _ _ _ (by simp), fld_skip _ _ _ _ _ (by simp), fld_skip _ _ _ _ _ (by simp),
            fld_skip _ _ _ _ _ (by simp)]
          simp only [enc_length, Nat.reduceSub]
          exact fld_enc_here _ 4 _ _ (by rw [pow_256_4]; exact hcap))
      hw hbl
    simp only [handle, bTy, Block.typeCode, bBody, parsePb, ↓reduceIte, hp, ticks_recombine, Block.event, ngItem, Option.map]
    simp
  | dsb st secrets opts =>
    obtain ⟨hs, hw, hl⟩ := h
    have hcap : secrets.length < 2 ^ 32 := by rw [padded_length] at hl; have := align4_ge secrets.length; omega
    have hp := parseDsb_encBlock c.e 10 (u32 c.e st ++ u32 c.e secrets.length) secrets opts (by simp)
      (by rw [fld_skip _ _ _ _ _ (by simp)]; simp only [enc_length, Nat.sub_self]
          have := fld_enc_here c.e 4 secrets.length [] (by rw [pow_256_4]; exact hcap)
          simpa using this)
      hw hbl
    simp only [handle, bTy, Block.typeCode, bBody, hp, Block.event, ngItem, Option.map]
    simp
  | other ty body =>
    obtain ⟨_, ⟨h6, h2, h10⟩, _⟩ := h
    show handle c ty (encBlock c.e ty body) = .ok none
    unfold handle
    rw [if_neg h6, if_neg h2, if_neg h10]


/-! ### the block walk -/

theorem fread_block (f : Bytes) (n : Nat) (hn : 8 ≤ n) :
    fread (f.drop 8) ((n : Int) - 8) = .ok ((f.drop 8).take (n - 8)) := by
  unfold fread
  rw [if_neg (by omega), if_neg (by omega)]
  congr 2
  omega

theorem take8_append (f : Bytes) (n : Nat) (hn : 8 ≤ n) : f.take 8 ++ (f.drop 8).take (n - 8) = f.take n := by
  have := @List.take_add _ f 8 (n - 8)
  rw [show 8 + (n - 8) = n by omega] at this
  exact this.symm

/-- one round of `__iter__` (and of the IDB scan) over a complete leading block -/
theorem block_read (e : Endian) (ty : Nat) (body R : Bytes) (ht : ty < 2 ^ 32) (hl : blkLen body < 2 ^ 32) :
    let f := encBlock e ty body ++ R
    ¬ f.length < 8 ∧ fld e f 0 4 = ty ∧ fld e f 4 4 = blkLen body ∧
    fread (f.drop 8) ((blkLen body : Int) - 8) = .ok ((f.drop 8).take (blkLen body - 8)) ∧
    f.take 8 ++ (f.drop 8).take (blkLen body - 8) = encBlock e ty body ∧
    (f.drop 8).drop ((f.drop 8).take (blkLen body - 8)).length = R := by
  intro f
  have h12 : 12 ≤ blkLen body := by simp [blkLen]
  have hlen : f.length = blkLen body + R.length := by simp [f, encBlock_length]
  refine ⟨by omega, encBlock_ty e ty body R ht, encBlock_len e ty body R hl, fread_block f _ (by omega), ?_, ?_⟩
  · rw [take8_append f _ (by omega)]
    exact List.take_left' (encBlock_length e ty body)
  · rw [List.length_take, List.length_drop, Nat.min_eq_left (by omega), List.drop_drop,
      show 8 + (blkLen body - 8) = blkLen body by omega]
    exact List.drop_left' (encBlock_length e ty body)

theorem iterFuel_block (fuel : Nat) (c : Cfg) (ty : Nat) (body R : Bytes) (ht : ty < 2 ^ 32)
    (hl : blkLen body < 2 ^ 32) :
    iterFuel (fuel + 1) c (encBlock c.e ty body ++ R) =
      match handle c ty (encBlock c.e ty body) with
      | .error er => ([], some er)
      | .ok it => ((it.toList ++ (iterFuel fuel c R).1), (iterFuel fuel c R).2) := by
  obtain ⟨h1, h2, h3, h4, h5, h6⟩ := block_read c.e ty body R ht hl
  rw [iterFuel]
  simp only [h1, h2, h3, h4, h5, h6, if_false]
  cases handle c ty (encBlock c.e ty body) <;> rfl

theorem encBlocks_append (e : Endian) (a b : List Block) : encBlocks e (a ++ b) = encBlocks e a ++ encBlocks e b := by
  induction a with
  | nil => rfl
  | cons x xs ih => simp [encBlocks, ih, List.append_assoc]

/-- the walk over a list of well-formed blocks, followed by fewer than 8 stray bytes -/
theorem iterFuel_blocks (c : Cfg) (bs : List Block) (tail : Bytes) (h : ∀ b ∈ bs, b.WF) (ht : tail.length < 8)
    (fuel : Nat) (hf : bs.length ≤ fuel) :
    iterFuel fuel c (encBlocks c.e bs ++ tail) = ((bs.filterMap Block.event).map (ngItem c), none) := by
  induction bs generalizing fuel with
  | nil =>
    cases fuel with
    | zero => rfl
    | succ n => simp [encBlocks, iterFuel, ht]
  | cons b bs ih =>
    obtain ⟨fuel, rfl⟩ : ∃ k, fuel = k + 1 := ⟨fuel - 1, by simp at hf; omega⟩
    have hb := h b (by simp)
    have ⟨hl, hty⟩ := wf_blkLen c.e b hb
    rw [encBlocks, encode_eq, List.append_assoc, iterFuel_block fuel c _ _ _ hty hl, handle_block c b hb,
      ih (fun x hx => h x (by simp [hx])) fuel (by simp at hf; omega)]
    cases hev : b.event <;> simp [hev]

theorem encBlocks_length_ge (e : Endian) (bs : List Block) : bs.length ≤ (encBlocks e bs).length := by
  induction bs with
  | nil => exact Nat.le_refl _
  | cons b bs ih =>
    simp only [encBlocks, List.length_append, List.length_cons, encode_eq, encBlock_length, blkLen]; omega

theorem iter_blocks (c : Cfg) (bs : List Block) (tail : Bytes) (h : ∀ b ∈ bs, b.WF) (ht : tail.length < 8) :
    iter c (encBlocks c.e bs ++ tail) = ((bs.filterMap Block.event).map (ngItem c), none) := by
  unfold iter
  apply iterFuel_blocks c bs tail h ht
  have := encBlocks_length_ge c.e bs
  simp only [List.length_append]; omega


/-! ### `__init__`: section header, scan, interface description -/

/-- blocks made of a fixed part `F` (a multiple of 4 bytes) followed by options: SHB, IDB -/
theorem fixed_opts_padded (e : Endian) (F : Bytes) (o : Opts) (hk4 : F.length % 4 = 0) :
    padded (F ++ encOpts e o) = F ++ encOpts e o := by
  apply padded_of_mod
  rw [List.length_append, encOpts_length]; have := encLen_mod o; omega

theorem tail_fixed_opts (e : Endian) (ty : Nat) (F : Bytes) (o : Opts) (k : Nat) (hF : F.length = k) (hk4 : k % 4 = 0)
    (hl : blkLen (F ++ encOpts e o) < 2 ^ 32) (hwf : o.WF) :
    blockTail e (encBlock e ty (F ++ encOpts e o)) (blkLen (F ++ encOpts e o)) (8 + k) = .ok (parsedOpts o) := by
  apply blockTail_encBlock e ty (8 + k) _ o hl (by omega) hwf
  rw [fixed_opts_padded e F o (by rw [hF]; exact hk4), Nat.add_sub_cancel_left]
  exact List.drop_left' hF

theorem blkLen_fixed_opts (e : Endian) (F : Bytes) (o : Opts) (hk4 : F.length % 4 = 0) :
    blkLen (F ++ encOpts e o) = 12 + F.length + o.encLen := by
  have hm : (F.length + o.encLen) % 4 = 0 := by have := encLen_mod o; omega
  simp only [blkLen, List.length_append, encOpts_length]
  rw [align4_of_mod _ hm]; omega

theorem parseIdb_encBlock (e : Endian) (lt sl : Nat) (o : Opts) (hwf : o.WF)
    (hl : blkLen ((u16 e lt ++ (u16 e 0 ++ u32 e sl)) ++ encOpts e o) < 2 ^ 32) :
    parseIdb e (encBlock e 1 ((u16 e lt ++ (u16 e 0 ++ u32 e sl)) ++ encOpts e o)) = .ok (parsedOpts o) := by
  have hF : (u16 e lt ++ (u16 e 0 ++ u32 e sl)).length = 8 := by simp
  have hb := blkLen_fixed_opts e _ o (by rw [hF])
  unfold parseIdb
  rw [blockHead_encBlock e 1 20 _ hl (by rw [hb, hF]; omega)]
  exact tail_fixed_opts e 1 _ o 8 hF (by decide) hl hwf

theorem parseShb_encBlock (e : Endian) (ty magic major minor sl : Nat) (o : Opts) (hwf : o.WF) (hmaj : major < 2 ^ 16)
    (hl : blkLen ((u32 e magic ++ (u16 e major ++ (u16 e minor ++ u64 e sl))) ++ encOpts e o) < 2 ^ 32) :
    parseShb e (encBlock e ty ((u32 e magic ++ (u16 e major ++ (u16 e minor ++ u64 e sl))) ++ encOpts e o)) = .ok major := by
  have hF : (u32 e magic ++ (u16 e major ++ (u16 e minor ++ u64 e sl))).length = 16 := by simp
  have hb := blkLen_fixed_opts e _ o (by rw [hF])
  have hpad := fixed_opts_padded e _ o (show (u32 e magic ++ (u16 e major ++ (u16 e minor ++ u64 e sl))).length % 4 = 0 by rw [hF])
  have hv : fld e (encBlock e ty ((u32 e magic ++ (u16 e major ++ (u16 e minor ++ u64 e sl))) ++ encOpts e o)) 12 2 = major := by
    have := encBlock_fld e ty ((u32 e magic ++ (u16 e major ++ (u16 e minor ++ u64 e sl))) ++ encOpts e o) 4 2
      (by rw [hpad, List.length_append, hF]; omega)
    rw [show (12 : Nat) = 8 + 4 by rfl, this, hpad, fld_prefix e _ _ 4 2 (by rw [hF]; omega),
      fld_skip _ _ _ _ _ (by simp)]
    simp only [enc_length, Nat.sub_self]
    exact fld_enc_here e 2 major _ (by rw [pow_256_2]; exact hmaj)
  unfold parseShb
  rw [blockHead_encBlock e ty 28 _ hl (by rw [hb, hF]; omega)]
  have ht := tail_fixed_opts e ty _ o 16 hF (by decide) hl hwf
  simp only [Nat.reduceAdd] at ht
  simp only [ht, hv]

theorem findIdbFuel_skip (e : Endian) (pre : List Block) (idbBody R : Bytes)
    (hpre : ∀ b ∈ pre, b.WF ∧ bTy b ≠ 1) (hl : blkLen idbBody < 2 ^ 32) (fuel : Nat) (hf : pre.length + 1 ≤ fuel) :
    findIdbFuel fuel e (encBlocks e pre ++ (encBlock e 1 idbBody ++ R)) = parseIdb e (encBlock e 1 idbBody) := by
  induction pre generalizing fuel with
  | nil =>
    obtain ⟨fuel, rfl⟩ : ∃ k, fuel = k + 1 := ⟨fuel - 1, by simp at hf; omega⟩
    obtain ⟨h1, h2, h3, h4, h5, h6⟩ := block_read e 1 idbBody R (by decide) hl
    simp only [encBlocks, List.nil_append]
    rw [findIdbFuel]
    simp only [h1, h2, h3, h4, h5, if_false, if_true]
  | cons b bs ih =>
    obtain ⟨fuel, rfl⟩ : ∃ k, fuel = k + 1 := ⟨fuel - 1, by simp at hf; omega⟩
    obtain ⟨hwf, hne⟩ := hpre b (by simp)
    have ⟨hbl, hty⟩ := wf_blkLen e b hwf
    rw [encBlocks, encode_eq, List.append_assoc]
    obtain ⟨h1, h2, h3, h4, h5, h6⟩ := block_read e (bTy b) (bBody e b) (encBlocks e bs ++ (encBlock e 1 idbBody ++ R)) hty hbl
    rw [findIdbFuel]
    simp only [h1, h2, h3, h4, h6, if_false, if_neg hne]
    exact ih (fun x hx => hpre x (by simp [hx])) fuel (by simp at hf; omega)

/-! ### `if_tsresol`, `if_tsoffset` -/

theorem applyOpts_append (e : Endian) (st : Nat × Int) (a b : List Container.Opt) :
    applyOpts e st (a ++ b) = match applyOpts e st a with
      | .ok st' => applyOpts e st' b
      | .error er => .error er := by
  induction a generalizing st with
  | nil => rfl
  | cons o os ih =>
    simp only [List.cons_append, applyOpts]
    cases applyOpt e st o with
    | error er => rfl
    | ok st' => exact ih st'

theorem applyOpts_other (e : Endian) (st : Nat × Int) (os : List Container.Opt)
    (h : ∀ o ∈ os, o.code ≠ 9 ∧ o.code ≠ 14) : applyOpts e st os = .ok st := by
  induction os with
  | nil => rfl
  | cons o os ih =>
    have ⟨h9, h14⟩ := h o (by simp)
    simp only [applyOpts, applyOpt, if_neg h9, if_neg h14]
    exact ih (fun x hx => h x (by simp [hx]))

theorem applyOpt_tsresol (e : Endian) (st : Nat × Int) (r : TsResol) (h : r.WF) :
    applyOpt e st ⟨9, [UInt8.ofNat r.byte]⟩ = .ok (r.unitsPerSecond, st.2) := by
  cases r with
  | dec k =>
    have hk : k < 128 := h
    have : (UInt8.ofNat k).toNat = k := by simp [UInt8.toNat_ofNat']; omega
    simp only [applyOpt, TsResol.byte, TsResol.unitsPerSecond, this, if_true]
    rw [show k / 128 = 0 by omega, Nat.mod_eq_of_lt hk]; rfl
  | bin k =>
    have hk : k < 128 := h
    have : (UInt8.ofNat (128 + k)).toNat = 128 + k := by simp [UInt8.toNat_ofNat']; omega
    simp only [applyOpt, TsResol.byte, TsResol.unitsPerSecond, this, if_true]
    rw [show (128 + k) / 128 = 1 by omega, show (128 + k) % 128 = k by omega]; rfl

theorem toInt64_i64 (e : Endian) (x : Int) (hlo : -(2 ^ 63 : Int) ≤ x) (hhi : x < 2 ^ 63) :
    toInt64 (rdNat e (i64 e x)) = x := by
  unfold i64
  have hm : (x % ((2 ^ 64 : Nat) : Int)).toNat < 2 ^ 64 := by
    have h1 : 0 ≤ x % ((2 ^ 64 : Nat) : Int) := Int.emod_nonneg _ (by decide)
    have h2 : x % ((2 ^ 64 : Nat) : Int) < ((2 ^ 64 : Nat) : Int) := Int.emod_lt_of_pos _ (by decide)
    omega
  rw [rd_u64 e _ hm]
  unfold toInt64
  have h1 : 0 ≤ x % ((2 ^ 64 : Nat) : Int) := Int.emod_nonneg _ (by decide)
  split <;> omega

theorem applyOpt_tsoffset (e : Endian) (st : Nat × Int) (x : Int) (hlo : -(2 ^ 63 : Int) ≤ x) (hhi : x < 2 ^ 63) :
    applyOpt e st ⟨14, i64 e x⟩ = .ok (st.1, x) := by
  simp only [applyOpt, show ¬ ((14 : Nat) = 9) by decide, if_false, if_true]
  rw [if_pos (by simp [i64]), toInt64_i64 e x hlo hhi]


theorem other_codes (os : List Spec.Containers.Opt) (h : ∀ o ∈ os, otherOptOk o) :
    ∀ o ∈ os.map toM, o.code ≠ 9 ∧ o.code ≠ 14 := by
  intro o ho
  obtain ⟨x, hx, rfl⟩ := List.mem_map.mp ho
  exact ⟨(h x hx).2.1, (h x hx).2.2⟩

theorem applyOpts_idb (h : NgHeader) (hwf : h.WF) :
    applyOpts h.e (10 ^ 6, 0) (parsedOpts h.idbOpts) = .ok (h.divisor, h.offset) := by
  obtain ⟨_, _, _, _, _, _, _, hb, ha, hr, ho, _⟩ := hwf
  have e1 := applyOpts_other h.e (10 ^ 6, 0) _ (other_codes _ hb)
  have eoo_ok : ∀ st, applyOpts h.e st (if h.idbEoo then [⟨0, []⟩] else []) = .ok st := by
    intro st; apply applyOpts_other; intro o ho'
    split at ho'
    · simp at ho'; subst ho'; decide
    · cases ho'
  simp only [parsedOpts, NgHeader.idbOpts, List.map_append, applyOpts_append, e1]
  cases hres : h.tsresol with
  | none =>
    cases hoff : h.tsoffset with
    | none =>
      simp only [List.map_nil, applyOpts, applyOpts_other h.e _ _ (other_codes _ ha),
        NgHeader.divisor, NgHeader.offset, hres, hoff, Option.getD]
      try exact eoo_ok _
    | some x =>
      have ⟨hlo, hhi⟩ := ho x (Option.mem_def.mpr hoff)
      simp only [List.map_nil, List.map_cons, toM, applyOpts, applyOpt_tsoffset h.e _ x hlo hhi,
        applyOpts_other h.e _ _ (other_codes _ ha), NgHeader.divisor, NgHeader.offset, hres, hoff, Option.getD]
      try exact eoo_ok _
  | some r =>
    have hrw := hr r (Option.mem_def.mpr hres)
    cases hoff : h.tsoffset with
    | none =>
      simp only [List.map_nil, List.map_cons, toM, applyOpts, applyOpt_tsresol h.e _ r hrw,
        applyOpts_other h.e _ _ (other_codes _ ha), NgHeader.divisor, NgHeader.offset, hres, hoff, Option.getD]
      try exact eoo_ok _
    | some x =>
      have ⟨hlo, hhi⟩ := ho x (Option.mem_def.mpr hoff)
      simp only [List.map_nil, List.map_cons, toM, applyOpts, applyOpt_tsresol h.e _ r hrw,
        applyOpt_tsoffset h.e _ x hlo hhi,
        applyOpts_other h.e _ _ (other_codes _ ha), NgHeader.divisor, NgHeader.offset, hres, hoff, Option.getD]
      try exact eoo_ok _

theorem idbOpts_wf (h : NgHeader) (hwf : h.WF) : h.idbOpts.WF := by
  obtain ⟨_, _, _, _, _, _, _, hb, ha, hr, ho, _⟩ := hwf
  intro o ho'
  simp only [NgHeader.idbOpts, List.mem_append] at ho'
  rcases ho' with ((h1 | h2) | h3) | h4
  · exact (hb o h1).1
  · cases hres : h.tsresol with
    | none => simp [hres] at h2
    | some r =>
      simp [hres] at h2; subst h2
      refine ⟨by simp, by simp, by simp, by intro h; cases h⟩
  · cases hoff : h.tsoffset with
    | none => simp [hoff] at h3
    | some x =>
      simp [hoff] at h3; subst h3
      refine ⟨by simp, by simp, by simp [i64], by intro h; cases h⟩
  · exact (ha o h4).1


/-! ### `__init__` assembled -/

/-- a field of the body read in ANY byte order (the SHB is first unpacked big-endian) -/
theorem encBlock_fld_any (e' e : Endian) (ty : Nat) (body R : Bytes) (off w : Nat) (h : off + w ≤ (padded body).length) :
    fld e' (encBlock e ty body ++ R) (8 + off) w = fld e' (padded body) off w := by
  rw [encBlock_eq]; simp only [List.append_assoc]
  rw [fld_skip e' _ _ _ _ (by simp; omega), enc_length, fld_skip e' _ _ _ _ (by simp; omega), enc_length,
    show 8 + off - 4 - 4 = off by omega]
  exact fld_prefix e' _ _ off w h

theorem shb_type_be (e : Endian) : rdNat .be (enc e 4 0x0A0D0D0A) = 0x0A0D0D0A := by cases e <;> decide

theorem shb_bom_be (e : Endian) :
    rdNat .be (enc e 4 0x1A2B3C4D) = match e with | .le => 0x4D3C2B1A | .be => 0x1A2B3C4D := by
  cases e <;> decide

def shbFixed (h : NgHeader) : Bytes := u32 h.e 0x1A2B3C4D ++ (u16 h.e 1 ++ (u16 h.e h.minor ++ u64 h.e h.sectionLen))
def idbFixed (h : NgHeader) : Bytes := u16 h.e h.linktype ++ (u16 h.e 0 ++ u32 h.e h.snaplen)

theorem shb_body (h : NgHeader) : bBody h.e h.shb = shbFixed h ++ encOpts h.e h.shbOpts := by
  simp [NgHeader.shb, bBody, shbFixed, List.append_assoc]

theorem idb_body (h : NgHeader) : bBody h.e h.idb = idbFixed h ++ encOpts h.e h.idbOpts := by
  simp [NgHeader.idb, bBody, idbFixed, List.append_assoc]

theorem init_encodeNg (h : NgHeader) (hwf : h.WF) (rest : Bytes) :
    init (h.shb.encode h.e ++ (encBlocks h.e h.preIdb ++ (h.idb.encode h.e ++ rest))) = .ok ⟨h.e, h.divisor, h.offset⟩ := by
  have hwf' := hwf
  obtain ⟨hminor, hsl, hso, hshbwf, hpre, hlt, hsnap, _, _, _, _, hidbwf⟩ := hwf
  have ⟨hl_shb, _⟩ := wf_blkLen h.e h.shb hshbwf
  have ⟨hl_idb, _⟩ := wf_blkLen h.e h.idb hidbwf
  rw [encode_eq, encode_eq]
  simp only [show bTy h.shb = 0x0A0D0D0A from rfl, show bTy h.idb = 1 from rfl]
  rw [shb_body] at hl_shb ⊢
  rw [idb_body] at hl_idb ⊢
  generalize hR : encBlocks h.e h.preIdb ++ (encBlock h.e 1 (idbFixed h ++ encOpts h.e h.idbOpts) ++ rest) = R
  have hF : (shbFixed h).length = 16 := by simp [shbFixed]
  have hbl := blkLen_fixed_opts h.e (shbFixed h) h.shbOpts (by rw [hF])
  have hpad := fixed_opts_padded h.e (shbFixed h) h.shbOpts (by rw [hF])
  rw [hF] at hbl
  generalize hn : blkLen (shbFixed h ++ encOpts h.e h.shbOpts) = n at hbl hl_shb
  have hn28 : 28 ≤ n := by omega
  generalize hB : encBlock h.e 0x0A0D0D0A (shbFixed h ++ encOpts h.e h.shbOpts) = B
  have hBlen : B.length = n := by rw [← hB, encBlock_length, hn]
  have hflen : (B ++ R).length = n + R.length := by simp [hBlen]
  -- the first 28 bytes
  have h0 : fld .be ((B ++ R).take 28) 0 4 = 0x0A0D0D0A := by
    rw [fld_take _ _ _ _ _ (by omega), ← hB, encBlock_eq]; simp only [List.append_assoc]
    rw [fld_here _ _ _ _ (enc_length _ _ _)]; exact shb_type_be h.e
  have hbom : fld .be ((B ++ R).take 28) 8 4 = match h.e with | .le => 0x4D3C2B1A | .be => 0x1A2B3C4D := by
    rw [fld_take _ _ _ _ _ (by omega), ← hB]
    have := encBlock_fld_any .be h.e 0x0A0D0D0A (shbFixed h ++ encOpts h.e h.shbOpts) R 0 4
      (by rw [hpad, List.length_append, hF]; omega)
    rw [Nat.add_zero] at this
    rw [this, hpad, fld_prefix _ _ _ 0 4 (by rw [hF]; omega)]
    simp only [shbFixed]
    rw [fld_here _ _ _ _ (enc_length _ _ _)]; exact shb_bom_be h.e
  have hlenf : fld h.e ((B ++ R).take 28) 4 4 = n := by
    rw [fld_take _ _ _ _ _ (by omega), ← hB, ← hn]
    exact encBlock_len h.e _ _ R (by rw [hn]; exact hl_shb)
  have hread : fread ((B ++ R).drop 28) ((n : Int) - 28) = .ok (((B ++ R).drop 28).take (n - 28)) := by
    unfold fread; rw [if_neg (by omega), if_neg (by omega)]; congr 2; omega
  have hbuf : (B ++ R).take 28 ++ ((B ++ R).drop 28).take (n - 28) = B := by
    have := @List.take_add _ (B ++ R) 28 (n - 28)
    rw [show 28 + (n - 28) = n by omega] at this
    rw [← this]; exact List.take_left' hBlen
  have hrest : ((B ++ R).drop 28).drop (((B ++ R).drop 28).take (n - 28)).length = R := by
    rw [List.length_take, List.length_drop, Nat.min_eq_left (by omega), List.drop_drop,
      show 28 + (n - 28) = n by omega]
    exact List.drop_left' hBlen
  have hshb : parseShb h.e B = .ok 1 := by
    rw [← hB]; simp only [shbFixed]
    exact parseShb_encBlock h.e _ _ 1 _ _ h.shbOpts hso (by decide) (by
      have : blkLen (shbFixed h ++ encOpts h.e h.shbOpts) < 2 ^ 32 := by rw [hn]; exact hl_shb
      simpa [shbFixed] using this)
  have hidb : findIdb h.e R = .ok (parsedOpts h.idbOpts) := by
    unfold findIdb
    rw [← hR, findIdbFuel_skip h.e h.preIdb _ rest
      (fun b hb => hpre b hb) hl_idb _ (by
          have := encBlocks_length_ge h.e h.preIdb
          simp only [List.length_append, encBlock_length, blkLen]; omega)]
    simp only [idbFixed]
    exact parseIdb_encBlock h.e _ _ h.idbOpts (idbOpts_wf h hwf') (by simpa [idbFixed] using hl_idb)
  unfold init
  have hlen28 : ¬ ((B ++ R).take 28).length < 28 := by rw [List.length_take, hflen]; omega
  simp only [hlen28, h0, hbom, if_false, ne_eq, not_true_eq_false]
  cases he : h.e with
  | le =>
    simp only [he] at hlenf hread hshb hidb
    simp only [if_true, hlenf, hread, hbuf, hshb, hrest, hidb, if_false, not_true_eq_false]
    have := applyOpts_idb h hwf'; rw [he] at this; rw [this]
  | be =>
    simp only [he] at hlenf hread hshb hidb
    simp only [show ¬ ((0x1A2B3C4D : Nat) = 0x4D3C2B1A) by decide, if_true, hlenf, hread, hbuf, hshb, hrest, hidb,
      if_false, not_true_eq_false]
    have := applyOpts_idb h hwf'; rw [he] at this; rw [this]


/-! ### legacy pcap -/

theorem legacy_magic (e : Endian) (nano : Bool) :
    rdNat .be (enc e 4 (if nano then 0xa1b23c4d else 0xa1b2c3d4)) =
      match e, nano with
      | .be, false => 0xa1b2c3d4 | .be, true => 0xa1b23c4d
      | .le, false => 0xd4c3b2a1 | .le, true => 0x4d3cb2a1 := by
  cases e <;> cases nano <;> decide

theorem fileHeader_length (v : LegacyVariant) : v.fileHeader.length = 24 := by simp [LegacyVariant.fileHeader]

theorem legacyInit_header (v : LegacyVariant) (rest : Bytes) :
    legacyInit (v.fileHeader ++ rest) = .ok ⟨v.e, 16, v.nano⟩ ∧ (v.fileHeader ++ rest).drop 24 = rest := by
  refine ⟨?_, List.drop_left' (fileHeader_length v)⟩
  have ht : (v.fileHeader ++ rest).take 24 = v.fileHeader := List.take_left' (fileHeader_length v)
  have hm : fld .be v.fileHeader 0 4 = rdNat .be (enc v.e 4 (if v.nano then 0xa1b23c4d else 0xa1b2c3d4)) := by
    simp only [LegacyVariant.fileHeader, LegacyVariant.magic]
    exact fld_here _ _ _ _ (enc_length _ _ _)
  unfold legacyInit
  simp only [ht, fileHeader_length, hm, legacy_magic]
  cases v.e <;> cases v.nano <;> simp

def countPkts : List Ev → Nat
  | [] => 0
  | .pkt _ _ :: evs => countPkts evs + 1
  | .dsb _ :: evs => countPkts evs

theorem unitsPerSecond_lt (v : LegacyVariant) : v.unitsPerSecond < 2 ^ 32 ∧ 0 < v.unitsPerSecond := by
  unfold LegacyVariant.unitsPerSecond; cases v.nano <;> decide

theorem legacyIterFuel_records (v : LegacyVariant) (evs : List Ev) (i : Nat) (hwf : v.WFfrom i evs)
    (fuel : Nat) (hf : countPkts evs ≤ fuel) :
    legacyIterFuel fuel ⟨v.e, 16, v.nano⟩ (v.records i evs) =
      (evs.filterMap (scale (.legacy v)), none) := by
  induction evs generalizing i fuel with
  | nil => cases fuel <;> simp [LegacyVariant.records, legacyIterFuel]
  | cons ev evs ih =>
    cases ev with
    | dsb s =>
      simp only [LegacyVariant.records, List.filterMap_cons, scale]
      exact ih (i + 1) hwf fuel hf
    | pkt ticks data =>
      obtain ⟨hsec, hlen, hrest⟩ := hwf
      obtain ⟨fuel, rfl⟩ : ∃ k, fuel = k + 1 := ⟨fuel - 1, by simp [countPkts] at hf; omega⟩
      have ⟨hU, hU0⟩ := unitsPerSecond_lt v
      have hsub : ticks % v.unitsPerSecond < 2 ^ 32 := Nat.lt_trans (Nat.mod_lt _ hU0) hU
      have hcap : data.length < 2 ^ 32 := by omega
      simp only [LegacyVariant.records]
      generalize hR : v.records (i + 1) evs = R
      generalize hf0 : u32 v.e (ticks / v.unitsPerSecond) ++ (u32 v.e (ticks % v.unitsPerSecond) ++
        (u32 v.e data.length ++ (u32 v.e (data.length + v.extraLen i) ++ (data ++ R)))) = f
      have hne : f.isEmpty = false := by
        rw [← hf0]; simp; intro h0; have := congrArg List.length h0; simp at this
      have hl : ¬ f.length < 16 := by rw [← hf0]; simp; omega
      have h1 : fld v.e f 0 4 = ticks / v.unitsPerSecond := by
        rw [← hf0]; exact fld_enc_here _ 4 _ _ (by rw [pow_256_4]; exact hsec)
      have h2 : fld v.e f 4 4 = ticks % v.unitsPerSecond := by
        rw [← hf0, fld_skip _ _ _ _ _ (by simp)]; simp only [enc_length, Nat.sub_self]
        exact fld_enc_here _ 4 _ _ (by rw [pow_256_4]; exact hsub)
      have h3 : fld v.e f 8 4 = data.length := by
        rw [← hf0, fld_skip _ _ _ _ _ (by simp), fld_skip _ _ _ _ _ (by simp)]; simp only [enc_length, Nat.reduceSub]
        exact fld_enc_here _ 4 _ _ (by rw [pow_256_4]; exact hcap)
      have hd : f.drop 16 = data ++ R := by
        rw [← hf0, ← List.append_assoc, ← List.append_assoc, ← List.append_assoc]
        exact List.drop_left' (by simp)
      rw [legacyIterFuel]
      simp only [hne, hl, h1, h2, h3, hd, Bool.false_eq_true, if_false]
      rw [List.take_left' rfl, List.drop_left' rfl, ← hR,
        ih (i + 1) hrest fuel (by simp [countPkts] at hf; omega)]
      simp only [List.filterMap_cons, scale, LegacyVariant.unitsPerSecond]

theorem countPkts_le (v : LegacyVariant) (evs : List Ev) (i : Nat) : countPkts evs ≤ (v.records i evs).length := by
  induction evs generalizing i with
  | nil => exact Nat.le_refl _
  | cons ev evs ih =>
    cases ev with
    | dsb s => exact ih (i + 1)
    | pkt t d =>
      have := ih (i + 1)
      simp only [countPkts, LegacyVariant.records, List.length_append, enc_length]; omega


/-! ### assembling the readers -/

theorem ngItem_eq (h : NgHeader) : ngItem ⟨h.e, h.divisor, h.offset⟩ = h.item := by
  funext ev; cases ev <;> rfl

theorem unrelated_event (b : Block) (h : b.unrelated) : b.event = none := by
  cases b <;> simp_all [Block.unrelated, Block.event]

theorem unrelated_events (bs : List Block) (h : ∀ b ∈ bs, b.unrelated) : bs.filterMap Block.event = [] := by
  induction bs with
  | nil => rfl
  | cons b bs ih =>
    rw [List.filterMap_cons, unrelated_event b (h b (by simp))]
    exact ih (fun x hx => h x (by simp [hx]))

theorem block_event (ev : Ev) (d : Deco) : (ev.block d).event = some ev := by
  cases ev with
  | pkt t data => simp only [Ev.block]; split <;> rfl
  | dsb s => rfl

theorem weave_events (deco : Nat → Deco) (hd : ∀ i, (deco i).WF) (i : Nat) (evs : List Ev) :
    (weave deco i evs).filterMap Block.event = evs := by
  induction evs generalizing i with
  | nil => rfl
  | cons ev evs ih =>
    rw [weave, List.filterMap_append, unrelated_events _ (fun b hb => ((hd i) b hb).2), List.nil_append,
      List.filterMap_cons, block_event, ih]

/-- pcapng: the reader over a whole file made of a header and well-formed blocks (+ up to 7 stray bytes) -/
theorem read_encodeNg (h : NgHeader) (hwf : h.WF) (bs : List Block) (hbs : ∀ b ∈ bs, b.WF) (tail : Bytes)
    (ht : tail.length < 8) :
    Container.read false (encodeNg h bs ++ tail) = .ok (((h.preIdb ++ bs).filterMap Block.event).map h.item) := by
  have hshb : h.shb.WF := hwf.2.2.2.1
  have hidb : h.idb.WF := hwf.2.2.2.2.2.2.2.2.2.2.2
  have hpre : ∀ b ∈ h.preIdb, b.WF := fun b hb => (hwf.2.2.2.2.1 b hb).1
  have hfile : encodeNg h bs ++ tail = encBlocks h.e (h.shb :: (h.preIdb ++ h.idb :: bs)) ++ tail := by
    simp [encodeNg, encBlocks, encBlocks_append, List.append_assoc]
  have hinit : init (encodeNg h bs ++ tail) = .ok ⟨h.e, h.divisor, h.offset⟩ := by
    have := init_encodeNg h hwf (encBlocks h.e bs ++ tail)
    simpa [encodeNg, List.append_assoc] using this
  have hall : ∀ b ∈ h.shb :: (h.preIdb ++ h.idb :: bs), b.WF := by
    intro b hb
    simp only [List.mem_cons, List.mem_append] at hb
    rcases hb with rfl | hb | rfl | hb
    · exact hshb
    · exact hpre b hb
    · exact hidb
    · exact hbs b hb
  have hiter := iter_blocks ⟨h.e, h.divisor, h.offset⟩ _ tail hall ht
  unfold Container.read readPrefix
  simp only [Bool.false_eq_true, if_false, hinit]
  rw [hfile, hiter, ngItem_eq]
  have e1 : h.shb.event = none := rfl
  have e2 : h.idb.event = none := rfl
  simp only [List.filterMap_cons, List.filterMap_append, e1, e2]

theorem read_legacy (v : LegacyVariant) (evs : List Ev) (hwf : v.WF evs) :
    Container.read true (v.fileHeader ++ v.records 0 evs) = .ok (evs.filterMap (scale (.legacy v))) := by
  have ⟨hi, hd⟩ := legacyInit_header v (v.records 0 evs)
  unfold Container.read readPrefix legacyIter
  simp only [if_true, hi, hd]
  rw [legacyIterFuel_records v evs 0 hwf.2.2.2.2.2 _ (countPkts_le v evs 0)]

end TLX.Lemmas.Container
