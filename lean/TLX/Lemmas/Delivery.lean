/-
Helper lemmas for C05: what the delivery relation of `Spec.TlsFraming` gives the invariant proof —
every captured segment is a chunk of the cut and every chunk is captured; an in-order delivery
starts with the chunk at offset 0.  Core Lean only.
-/
import TLX.Spec.TlsFraming
import TLX.Lemmas.ReasmSort
namespace TLX.Lemmas.Delivery
open TLX TLX.Spec.TlsFraming TLX.Lemmas.ModSeq TLX.Lemmas.ReasmSort

theorem segsOf_eq_offs (isn o : Nat) (cs : List Bytes) :
    segsOf isn o cs = (offs o cs).map (fun x => (sq (2 ^ 32) isn x.1, x.2)) := by
  induction cs generalizing o with
  | nil => rfl
  | cons c cs ih => simp [segsOf, offs, ih, sq]

theorem displaced_mem {k : Nat} {l l' : List Wire} (h : Displaced k l l') (w : Wire) : w ∈ l' ↔ w ∈ l := by
  cases h with
  | later a m b x _ =>
    simp only [List.mem_append, List.mem_cons]
    constructor
    · rintro (h | h | h | h)
      · exact Or.inl h
      · exact Or.inr (Or.inr (Or.inl h))
      · exact Or.inr (Or.inl h)
      · exact Or.inr (Or.inr (Or.inr h))
    · rintro (h | h | h | h)
      · exact Or.inl h
      · exact Or.inr (Or.inr (Or.inl h))
      · exact Or.inr (Or.inl h)
      · exact Or.inr (Or.inr (Or.inr h))
  | earlier a m b x _ =>
    simp only [List.mem_append, List.mem_cons]
    constructor
    · rintro (h | h | h | h)
      · exact Or.inl h
      · exact Or.inr (Or.inr (Or.inl h))
      · exact Or.inr (Or.inl h)
      · exact Or.inr (Or.inr (Or.inr h))
    · rintro (h | h | h | h)
      · exact Or.inl h
      · exact Or.inr (Or.inr (Or.inl h))
      · exact Or.inr (Or.inl h)
      · exact Or.inr (Or.inr (Or.inr h))

/-- A delivery contains exactly the segments of some cut (as a set). -/
theorem delivers_mem {k isn : Nat} {str : Bytes} {l : List Wire} (h : Delivers k isn str l) :
    ∃ chunks, IsCut str chunks ∧ ∀ w, w ∈ l ↔ w ∈ segsOf isn 0 chunks := by
  induction h with
  | cut chunks hc => exact ⟨chunks, hc, fun _ => Iff.rfl⟩
  | dup a b₁ b₂ x _ ih =>
    obtain ⟨chunks, hc, hm⟩ := ih
    refine ⟨chunks, hc, fun w => ?_⟩
    rw [← hm w]
    simp only [List.mem_append, List.mem_cons]
    constructor
    · rintro (h | h | h | h | h)
      · exact Or.inl h
      · exact Or.inr (Or.inl h)
      · exact Or.inr (Or.inr (Or.inl h))
      · exact Or.inr (Or.inl h)
      · exact Or.inr (Or.inr (Or.inr h))
    · rintro (h | h | h | h)
      · exact Or.inl h
      · exact Or.inr (Or.inl h)
      · exact Or.inr (Or.inr (Or.inl h))
      · exact Or.inr (Or.inr (Or.inr (Or.inr h)))
  | displace l l' _ hd ih =>
    obtain ⟨chunks, hc, hm⟩ := ih
    exact ⟨chunks, hc, fun w => (displaced_mem hd w).trans (hm w)⟩

/-- Without displacement the first captured segment is the one that starts the stream. -/
theorem inorder_head {isn : Nat} {str : Bytes} {l : List Wire} (h : Delivers 0 isn str l) :
    ∀ w, l.head? = some w → w.1 = isn % 2 ^ 32 := by
  induction h with
  | cut chunks _ =>
    intro w hw
    cases chunks with
    | nil => simp [segsOf] at hw
    | cons c cs =>
      simp only [segsOf, List.head?_cons, Option.some.injEq] at hw
      rw [← hw, Nat.add_zero]
  | dup a b₁ b₂ x _ ih =>
    intro w hw
    apply ih
    cases a with
    | nil => simpa using hw
    | cons y ys => simpa using hw
  | displace l l' _ hd ih =>
    intro w hw
    apply ih
    cases hd with
    | later a m b x hm =>
      have : m = [] := List.eq_nil_of_length_eq_zero (by omega)
      subst this
      simpa using hw
    | earlier a m b x hm =>
      have : m = [] := List.eq_nil_of_length_eq_zero (by omega)
      subst this
      simpa using hw

end TLX.Lemmas.Delivery
