/-
Helper lemmas for Props/C04 and Props/C18: order-preserving merges, a generic "first session that takes the input, else
create" router and its behaviour under merges of mutually isolated inputs, the bridge from `tlsHandle` / `quicLoop` to that
router, and the order lemmas behind `sorted(cids, key=(-len, bytes))`.
-/
import TLX.Spec.Demux
/-! ### merges -/
namespace TLX.Spec.Demux

section Merge
variable {α β : Type}

theorem Merge.symm {a b m : List α} (h : Merge a b m) : Merge b a m := by
  induction h with
  | nil => exact .nil
  | left x _ ih => exact .right x ih
  | right x _ ih => exact .left x ih

theorem Merge.left_nil : ∀ (a : List α), Merge a [] a
  | [] => .nil
  | x :: a => .left x (Merge.left_nil a)

theorem Merge.right_nil (b : List α) : Merge [] b b := (Merge.left_nil b).symm

theorem Merge.eq_of_right_nil {a m : List α} (h : Merge a [] m) : m = a := by
  generalize hb : ([] : List α) = b at h
  induction h with
  | nil => rfl
  | left x _ ih => rw [ih hb]
  | right x _ _ => cases hb

theorem Merge.append_left {a b m : List α} (h : Merge a b m) (t : List α) : Merge (a ++ t) b (m ++ t) := by
  induction h with
  | nil => exact Merge.left_nil t
  | left x _ ih => exact .left x ih
  | right x _ ih => exact .right x ih

theorem Merge.filter {a b m : List α} (h : Merge a b m) (f : α → Bool) :
    Merge (a.filter f) (b.filter f) (m.filter f) := by
  induction h with
  | nil => exact .nil
  | left x _ ih =>
    simp only [List.filter_cons]
    split
    · exact .left x ih
    · exact ih
  | right x _ ih =>
    simp only [List.filter_cons]
    split
    · exact .right x ih
    · exact ih

theorem Merge.filterMap {a b m : List α} (h : Merge a b m) (f : α → Option β) :
    Merge (a.filterMap f) (b.filterMap f) (m.filterMap f) := by
  induction h with
  | nil => exact .nil
  | left x _ ih =>
    simp only [List.filterMap_cons]
    split
    · exact ih
    · exact .left _ ih
  | right x _ ih =>
    simp only [List.filterMap_cons]
    split
    · exact ih
    · exact .right _ ih

theorem Merge.perm {a b m : List α} (h : Merge a b m) : m.Perm (a ++ b) := by
  induction h with
  | nil => exact .refl _
  | left x _ ih => exact .cons x ih
  | right x _ ih =>
    exact (List.Perm.cons x ih).trans List.perm_middle.symm

theorem Merge.sublist_left {a b m : List α} (h : Merge a b m) : a.Sublist m := by
  induction h with
  | nil => exact .slnil
  | left x _ ih => exact .cons_cons x ih
  | right x _ ih => exact .cons x ih

theorem Merge.mem {a b m : List α} (h : Merge a b m) (x : α) : x ∈ m ↔ x ∈ a ∨ x ∈ b := by
  rw [h.perm.mem_iff, List.mem_append]

theorem Merge.flatMap {a b m : List α} (h : Merge a b m) (f : α → List β) :
    (m.flatMap f).Perm (a.flatMap f ++ b.flatMap f) := by
  rw [← List.flatMap_append]
  exact h.perm.flatMap_right f

end Merge
end TLX.Spec.Demux

namespace TLX.Lemmas.MainLoop
open TLX TLX.MainLoop TLX.Spec.Demux

/-! ### a generic router -/

structure Router (S I : Type) where
  takes : S → I → Bool
  feed : S → I → S
  create : I → Option S

section Router
variable {S I : Type}

def Router.handle (R : Router S I) : List S → I → List S
  | [], x => match R.create x with
    | some s => [s]
    | none => []
  | s :: rest, x => if R.takes s x then R.feed s x :: rest else s :: R.handle rest x

def Router.run (R : Router S I) (ss : List S) (xs : List I) : List S := xs.foldl R.handle ss

theorem Router.handle_merge_left (R : Router S I) {sa sb sm : List S} (h : Merge sa sb sm) (x : I)
    (hb : ∀ s ∈ sb, R.takes s x = false) : Merge (R.handle sa x) sb (R.handle sm x) := by
  induction h with
  | nil =>
    simp only [Router.handle]
    cases R.create x with
    | none => exact .nil
    | some s => exact .left s .nil
  | left s h ih =>
    simp only [Router.handle]
    split
    · exact .left _ h
    · exact .left _ (ih hb)
  | right s h ih =>
    have hs : R.takes s x = false := hb s (List.mem_cons_self)
    simp only [Router.handle, hs]
    exact .right _ (ih fun t ht => hb t (List.mem_cons_of_mem _ ht))

/-- no session of the run on a prefix of `A` (starting from the sessions `sa`) takes an input of `B` -/
def Router.Iso (R : Router S I) (sa : List S) (A B : List I) : Prop :=
  ∀ n, ∀ s ∈ R.run sa (A.take n), ∀ x ∈ B, R.takes s x = false

theorem Router.run_merge (R : Router S I) {A B M : List I} (h : Merge A B M) :
    ∀ {sa sb sm : List S}, Merge sa sb sm → R.Iso sa A B → R.Iso sb B A →
      Merge (R.run sa A) (R.run sb B) (R.run sm M) := by
  induction h with
  | nil => intro sa sb sm hs _ _; exact hs
  | left x _ ih =>
    rename_i a b m
    intro sa sb sm hs hA hB
    have hb : ∀ s ∈ sb, R.takes s x = false := fun s hs' => hB 0 s (by simpa [Router.run] using hs') x List.mem_cons_self
    have := R.handle_merge_left hs x hb
    simp only [Router.run, List.foldl_cons]
    refine ih this ?_ ?_
    · intro n s hs' y hy
      exact hA (n + 1) s (by simpa [Router.run] using hs') y hy
    · intro n s hs' y hy
      exact hB n s hs' y (List.mem_cons_of_mem _ hy)
  | right x _ ih =>
    rename_i a b m
    intro sa sb sm hs hA hB
    have ha : ∀ s ∈ sa, R.takes s x = false := fun s hs' => hA 0 s (by simpa [Router.run] using hs') x List.mem_cons_self
    have := (R.handle_merge_left hs.symm x ha).symm
    simp only [Router.run, List.foldl_cons]
    refine ih this ?_ ?_
    · intro n s hs' y hy
      exact hA n s hs' y (List.mem_cons_of_mem _ hy)
    · intro n s hs' y hy
      exact hB (n + 1) s (by simpa [Router.run] using hs') y hy

end Router

/-! ### flows and TLS sessions -/

section Tls
variable {κ σ ο α : Type}

theorem matches_congr_sameFlow (s : Sess α) {p q : Pkt} (h : sameFlow p q = true) : s.matches p = s.matches q := by
  simp only [sameFlow, Sess.matches, Bool.or_eq_true, Bool.and_eq_true, beq_iff_eq] at *
  rcases h with ⟨h1, h2⟩ | ⟨h1, h2⟩
  · rw [h1, h2]
  · rw [h1, h2, Bool.eq_iff_iff]
    simp only [Bool.or_eq_true, Bool.and_eq_true, beq_iff_eq]
    constructor <;> (rintro (⟨h3, h4⟩ | ⟨h3, h4⟩) <;> simp [h3, h4])

theorem sameFlow_of_matches (s : Sess α) {p q : Pkt} (hp : s.matches p = true) (hq : s.matches q = true) :
    sameFlow p q = true := by
  simp only [sameFlow, Sess.matches, Bool.or_eq_true, Bool.and_eq_true, beq_iff_eq] at *
  rcases hp with ⟨h1, h2⟩ | ⟨h1, h2⟩ <;> rcases hq with ⟨h3, h4⟩ | ⟨h3, h4⟩ <;> simp [h1, h2, h3, h4]

theorem sameFlow_refl (p : Pkt) : sameFlow p p = true := by simp [sameFlow]

theorem sameFlow_symm (p q : Pkt) : sameFlow p q = sameFlow q p := by
  simp only [sameFlow]
  rw [Bool.eq_iff_iff]
  simp only [Bool.or_eq_true, Bool.and_eq_true, beq_iff_eq]
  constructor <;> (rintro (⟨h1, h2⟩ | ⟨h1, h2⟩) <;> simp [h1, h2])

theorem sameFlow_trans {p q r : Pkt} (h1 : sameFlow p q = true) (h2 : sameFlow q r = true) : sameFlow p r = true := by
  simp only [sameFlow, Bool.or_eq_true, Bool.and_eq_true, beq_iff_eq] at *
  rcases h1 with ⟨a, b⟩ | ⟨a, b⟩ <;> rcases h2 with ⟨c, d⟩ | ⟨c, d⟩ <;> simp [a, b, c, d]

theorem tlsNew_matches (M : TlsMachine κ σ ο) (o : Opts) (p q : Pkt) : (tlsNew M o p).matches q = sameFlow p q := by
  simp only [tlsNew, rolesOf, Sess.matches, sameFlow]
  rw [Bool.eq_iff_iff]
  split <;> simp only [Bool.or_eq_true, Bool.and_eq_true, beq_iff_eq] <;>
    constructor <;> (rintro (⟨h1, h2⟩ | ⟨h1, h2⟩) <;> simp [h1, h2])

theorem candidate_congr_sameFlow (o : Opts) {p q : Pkt} (h : sameFlow p q = true) : candidate o p = candidate o q := by
  simp only [sameFlow, Bool.or_eq_true, Bool.and_eq_true, beq_iff_eq] at h
  rcases h with ⟨h1, h2⟩ | ⟨h1, h2⟩
  · simp [candidate, h1, h2]
  · simp [candidate, h1, h2, Bool.or_comm]
end Tls

section Tls2
variable {κ σ ο : Type}

def feedS (M : TlsMachine κ σ ο) (s : TlsSess σ) (p : Pkt) : TlsSess σ := { s with st := M.feed s.st p }

@[simp] theorem feedS_matches (M : TlsMachine κ σ ο) (s : TlsSess σ) (p q : Pkt) : (feedS M s p).matches q = s.matches q := rfl

theorem feedAll_matches (M : TlsMachine κ σ ο) (s : TlsSess σ) (ps : List Pkt) (q : Pkt) :
    (feedAll M s ps).matches q = s.matches q := by
  induction ps generalizing s with
  | nil => rfl
  | cons p ps ih => simp only [feedAll, List.foldl_cons] at *; rw [ih]; rfl

/-- the head session receives exactly the packets it matches; the others see the capture without them -/
theorem tlsRun_cons (M : TlsMachine κ σ ο) (o : Opts) (s : TlsSess σ) (ss : List (TlsSess σ)) (pkts : List Pkt) :
    tlsRun M o (s :: ss) pkts =
      feedAll M s (pkts.filter s.matches) :: tlsRun M o ss (pkts.filter fun q => !s.matches q) := by
  induction pkts generalizing s ss with
  | nil => rfl
  | cons p ps ih =>
    simp only [tlsRun, List.foldl_cons, tlsHandle, List.filter_cons]
    by_cases h : s.matches p = true
    · simp only [h, if_true, Bool.not_true, Bool.false_eq_true, if_false]
      have := ih { s with st := M.feed s.st p } ss
      simp only [tlsRun] at this
      rw [this]
      simp only [feedAll, List.foldl_cons]
      rfl
    · have h' : s.matches p = false := by simpa using h
      simp only [h', Bool.false_eq_true, if_false, Bool.not_false, if_true, List.foldl_cons]
      have := ih s (tlsHandle M o ss p)
      simp only [tlsRun] at this
      rw [this]

theorem tls_run_eq_groupByFlow (M : TlsMachine κ σ ο) (o : Opts) (pkts : List Pkt) :
    tlsRun M o [] pkts = groupByFlow M o pkts := by
  generalize hn : pkts.length = n
  induction n using Nat.strongRecOn generalizing pkts with
  | _ n ih =>
    cases pkts with
    | nil => simp [tlsRun, groupByFlow]
    | cons p ps =>
      rw [groupByFlow]
      by_cases hc : candidate o p = true
      · simp only [hc, if_true]
        have h1 : tlsRun M o [] (p :: ps) = tlsRun M o [tlsNew M o p] ps := by
          simp [tlsRun, tlsHandle, hc]
        rw [h1, tlsRun_cons]
        have hm : (tlsNew M o p).matches = sameFlow p := funext (tlsNew_matches M o p)
        rw [hm]
        congr 1
        exact ih _ (by have := others_length_le p ps; simp at hn; omega) (others p ps) rfl
      · simp only [hc]
        simp only [Bool.false_eq_true, if_false]
        have h1 : tlsRun M o [] (p :: ps) = tlsRun M o [] ps := by
          simp [tlsRun, tlsHandle, hc]
        rw [h1]
        exact ih _ (by simp at hn; omega) ps rfl
end Tls2

section Tls3
variable {κ σ ο : Type}

theorem filter_sameFlow_congr {p q : Pkt} (h : sameFlow p q = true) (l : List Pkt) :
    l.filter (sameFlow p) = l.filter (sameFlow q) := by
  apply List.filter_congr
  intro x _
  rw [Bool.eq_iff_iff]
  constructor
  · intro hx; exact sameFlow_trans (by rw [sameFlow_symm]; exact h) hx
  · intro hx; exact sameFlow_trans h hx

theorem others_filter_sameFlow {p q : Pkt} (h : sameFlow p q = false) (l : List Pkt) :
    (others p l).filter (sameFlow q) = l.filter (sameFlow q) := by
  simp only [others, List.filter_filter]
  apply List.filter_congr
  intro x _
  by_cases hx : sameFlow q x = true
  · have : sameFlow p x = false := by
      cases hpx : sameFlow p x with
      | false => rfl
      | true =>
        have := sameFlow_trans hpx (by rw [sameFlow_symm]; exact hx)
        rw [h] at this; cases this
    simp [hx, this]
  · simp [hx]

theorem alone_none_of_not_candidate (M : TlsMachine κ σ ο) (o : Opts) {p q : Pkt} (hc : candidate o p = false)
    (h : sameFlow q p = true) (l : List Pkt) : alone M o (l.filter (sameFlow q)) = none := by
  cases hl : l.filter (sameFlow q) with
  | nil => rfl
  | cons x xs =>
    have hx : sameFlow q x = true := by
      have : x ∈ l.filter (sameFlow q) := by rw [hl]; exact List.mem_cons_self
      exact (List.mem_filter.mp this).2
    have : candidate o x = false := by
      rw [← candidate_congr_sameFlow o (sameFlow_trans (by rw [sameFlow_symm]; exact h) hx)]; exact hc
    simp [alone, this]

theorem groupByFlow_find (M : TlsMachine κ σ ο) (o : Opts) (q : Pkt) (pkts : List Pkt) :
    (groupByFlow M o pkts).find? (·.matches q) = alone M o (pkts.filter (sameFlow q)) := by
  generalize hn : pkts.length = n
  induction n using Nat.strongRecOn generalizing pkts with
  | _ n ih =>
    cases pkts with
    | nil => simp [groupByFlow, alone]
    | cons p ps =>
      rw [groupByFlow]
      by_cases hc : candidate o p = true
      · simp only [hc, if_true, List.find?_cons, feedAll_matches, tlsNew_matches, List.filter_cons]
        cases hpq : sameFlow p q with
        | true =>
          have hqp : sameFlow q p = true := by rw [sameFlow_symm]; exact hpq
          simp only [hqp, if_true, alone, hc]
          rw [filter_sameFlow_congr hpq]
        | false =>
          have hqp : sameFlow q p = false := by rw [sameFlow_symm]; exact hpq
          simp only [hqp, Bool.false_eq_true, if_false]
          rw [ih _ (by have := others_length_le p ps; simp at hn; omega) (others p ps) rfl]
          rw [others_filter_sameFlow hpq]
      · have hc' : candidate o p = false := by simpa using hc
        simp only [hc', Bool.false_eq_true, if_false, List.filter_cons]
        rw [ih _ (by simp at hn; omega) ps rfl]
        cases hqp : sameFlow q p with
        | true =>
          simp only [if_true, alone, hc', Bool.false_eq_true, if_false]
          exact alone_none_of_not_candidate M o hc' hqp ps
        | false => simp
end Tls3

section RouterInv
variable {S I : Type}

theorem Router.mem_handle (R : Router S I) {ss : List S} {x : I} {t : S} (h : t ∈ R.handle ss x) :
    t ∈ ss ∨ (∃ s ∈ ss, t = R.feed s x) ∨ R.create x = some t := by
  induction ss with
  | nil =>
    simp only [Router.handle] at h
    cases hc : R.create x with
    | none => simp [hc] at h
    | some s => simp [hc] at h; simp [h]
  | cons s rest ih =>
    simp only [Router.handle] at h
    split at h
    · rcases List.mem_cons.mp h with rfl | h
      · exact .inr (.inl ⟨s, List.mem_cons_self, rfl⟩)
      · exact .inl (List.mem_cons_of_mem _ h)
    · rcases List.mem_cons.mp h with rfl | h
      · exact .inl List.mem_cons_self
      · rcases ih h with h | ⟨u, hu, rfl⟩ | h
        · exact .inl (List.mem_cons_of_mem _ h)
        · exact .inr (.inl ⟨u, List.mem_cons_of_mem _ hu, rfl⟩)
        · exact .inr (.inr h)

/-- an invariant of the sessions kept by feeding and established by creation holds throughout a run -/
theorem Router.run_inv (R : Router S I) (P : S → Prop) (A : List I)
    (hfeed : ∀ s, ∀ x ∈ A, P s → P (R.feed s x)) (hcreate : ∀ x ∈ A, ∀ t, R.create x = some t → P t) :
    ∀ (xs : List I), (∀ x ∈ xs, x ∈ A) → ∀ ss : List S, (∀ s ∈ ss, P s) → ∀ s ∈ R.run ss xs, P s := by
  intro xs
  induction xs with
  | nil => intro _ ss h; exact h
  | cons x xs ih =>
    intro hsub ss h
    simp only [Router.run, List.foldl_cons]
    apply ih (fun y hy => hsub y (List.mem_cons_of_mem _ hy))
    intro t ht
    have hx := hsub x List.mem_cons_self
    rcases R.mem_handle ht with h' | ⟨u, hu, rfl⟩ | h'
    · exact h t h'
    · exact hfeed u x hx (h u hu)
    · exact hcreate x hx t h'
end RouterInv

section TlsRouter
variable {κ σ ο : Type}

def tlsRouter (M : TlsMachine κ σ ο) (o : Opts) : Router (TlsSess σ) Pkt where
  takes := Sess.matches
  feed := feedS M
  create := fun p => if candidate o p then some (tlsNew M o p) else none

theorem tlsHandle_eq_router (M : TlsMachine κ σ ο) (o : Opts) (ss : List (TlsSess σ)) (p : Pkt) :
    tlsHandle M o ss p = (tlsRouter M o).handle ss p := by
  induction ss with
  | nil => simp only [tlsHandle, Router.handle, tlsRouter]; split <;> rfl
  | cons s rest ih => simp only [tlsHandle, Router.handle, ih]; rfl

theorem tlsRun_eq_router (M : TlsMachine κ σ ο) (o : Opts) (ss : List (TlsSess σ)) (pkts : List Pkt) :
    tlsRun M o ss pkts = (tlsRouter M o).run ss pkts := by
  have : tlsHandle M o = (tlsRouter M o).handle := by funext ss p; exact tlsHandle_eq_router M o ss p
  simp only [tlsRun, Router.run, this]

/-- every session of a run matches one of the packets of the capture -/
theorem tlsRun_session_flow (M : TlsMachine κ σ ο) (o : Opts) (A : List Pkt) (n : Nat) :
    ∀ s ∈ tlsRun M o [] (A.take n), ∃ a ∈ A, s.matches a = true := by
  rw [tlsRun_eq_router]
  apply (tlsRouter M o).run_inv (fun s => ∃ a ∈ A, s.matches a = true) A
  · intro s x _ ⟨a, ha, hm⟩; exact ⟨a, ha, hm⟩
  · intro x hx t ht
    simp only [tlsRouter] at ht
    split at ht
    · cases ht; exact ⟨x, hx, by rw [tlsNew_matches]; exact sameFlow_refl x⟩
    · cases ht
  · intro x hx; exact List.mem_of_mem_take hx
  · intro s hs; cases hs

theorem tls_iso_of_disjoint (M : TlsMachine κ σ ο) (o : Opts) (A B : List Pkt)
    (h : ∀ a ∈ A, ∀ b ∈ B, sameFlow a b = false) : (tlsRouter M o).Iso [] A B := by
  intro n s hs x hx
  rw [← tlsRun_eq_router] at hs
  obtain ⟨a, ha, hm⟩ := tlsRun_session_flow M o A n s hs
  cases hsx : (tlsRouter M o).takes s x with
  | false => rfl
  | true =>
    have := sameFlow_of_matches s hm hsx
    rw [h a ha x hx] at this; cases this

theorem tls_run_merge (M : TlsMachine κ σ ο) (o : Opts) {A B C : List Pkt} (hm : Merge A B C)
    (h : ∀ a ∈ A, ∀ b ∈ B, sameFlow a b = false) :
    Merge (tlsRun M o [] A) (tlsRun M o [] B) (tlsRun M o [] C) := by
  simp only [tlsRun_eq_router]
  refine (tlsRouter M o).run_merge hm .nil (tls_iso_of_disjoint M o A B h) (tls_iso_of_disjoint M o B A ?_)
  intro b hb a ha
  rw [sameFlow_symm]; exact h a ha b hb
end TlsRouter

section QuicRouter
variable {κ τ ο : Type}

def quicRouter (M : QuicMachine κ τ ο) (o : Opts) : Router (QuicSess τ) (QIn κ) where
  takes := fun s x => x.h != .tooShort && (quicTake M x.h x.p s).isSome
  feed := fun s x => match quicTake M x.h x.p s with
    | some c => { s with st := M.feed s.st x.kl x.p c x.h.ver }
    | none => s
  create := fun x => if x.h = .tooShort ∨ x.h = .short then none else some (quicNew M o x.kl x.h x.p)

theorem quicHandleH_eq_router (M : QuicMachine κ τ ο) (o : Opts) (ss : List (QuicSess τ)) (x : QIn κ) :
    quicHandleH M o x.kl x.h ss x.p = (quicRouter M o).handle ss x := by
  unfold quicHandleH
  by_cases ht : x.h = .tooShort
  · simp only [ht, if_true]
    induction ss with
    | nil => simp [Router.handle, quicRouter, ht]
    | cons s rest ih =>
      simp only [Router.handle]
      have : (quicRouter M o).takes s x = false := by simp [quicRouter, ht]
      simp only [this, Bool.false_eq_true, if_false, ← ih]
  · simp only [ht, if_false]
    induction ss with
    | nil =>
      simp only [quicLoop, Router.handle, quicRouter, ht, false_or]
      split <;> rfl
    | cons s rest ih =>
      simp only [quicLoop, Router.handle]
      have hne : (x.h != Hdr.tooShort) = true := by simpa using ht
      cases hq : quicTake M x.h x.p s with
      | some c =>
        have : (quicRouter M o).takes s x = true := by simp [quicRouter, hne, hq]
        simp only [this, if_true]
        simp only [quicRouter, hq]
      | none =>
        have : (quicRouter M o).takes s x = false := by simp [quicRouter, hq]
        simp only [this, Bool.false_eq_true, if_false, ih]

theorem quicRun_eq_router (M : QuicMachine κ τ ο) (o : Opts) (ss : List (QuicSess τ)) (xs : List (QIn κ)) :
    quicRun M o ss xs = (quicRouter M o).run ss xs := by
  have : (fun ss (x : QIn κ) => quicHandleH M o x.kl x.h ss x.p) = (quicRouter M o).handle := by
    funext ss x; exact quicHandleH_eq_router M o ss x
  simp only [quicRun, Router.run, this]
end QuicRouter

section Order

theorem lexLe_total (a b : Bytes) : (lexLe a b || lexLe b a) = true := by
  induction a generalizing b with
  | nil => simp [lexLe]
  | cons x xs ih =>
    cases b with
    | nil => simp [lexLe]
    | cons y ys =>
      have := ih ys
      simp only [lexLe, Bool.or_eq_true, Bool.and_eq_true, decide_eq_true_eq, beq_iff_eq] at *
      by_cases h1 : x.toNat < y.toNat
      · exact .inl (.inl h1)
      · by_cases h2 : y.toNat < x.toNat
        · exact .inr (.inl h2)
        · have : x.toNat = y.toNat := by omega
          rcases ih ys with h | h
          · exact .inl (.inr ⟨this, h⟩)
          · exact .inr (.inr ⟨this.symm, h⟩)

theorem lexLe_antisymm {a b : Bytes} (h1 : lexLe a b = true) (h2 : lexLe b a = true) : a = b := by
  induction a generalizing b with
  | nil => cases b with
    | nil => rfl
    | cons y ys => simp [lexLe] at h2
  | cons x xs ih =>
    cases b with
    | nil => simp [lexLe] at h1
    | cons y ys =>
      simp only [lexLe, Bool.or_eq_true, Bool.and_eq_true, decide_eq_true_eq, beq_iff_eq] at h1 h2
      rcases h1 with h1 | ⟨e1, h1⟩
      · rcases h2 with h2 | ⟨e2, _⟩ <;> omega
      · rcases h2 with h2 | ⟨_, h2⟩
        · omega
        · rw [ih h1 h2, UInt8.toNat_inj.mp e1]

theorem lexLe_trans {a b c : Bytes} (h1 : lexLe a b = true) (h2 : lexLe b c = true) : lexLe a c = true := by
  induction a generalizing b c with
  | nil => simp [lexLe]
  | cons x xs ih =>
    cases b with
    | nil => simp [lexLe] at h1
    | cons y ys =>
      cases c with
      | nil => simp [lexLe] at h2
      | cons z zs =>
        simp only [lexLe, Bool.or_eq_true, Bool.and_eq_true, decide_eq_true_eq, beq_iff_eq] at *
        rcases h1 with h1 | ⟨e1, h1⟩
        · rcases h2 with h2 | ⟨e2, _⟩
          · exact .inl (by omega)
          · exact .inl (by omega)
        · rcases h2 with h2 | ⟨e2, h2⟩
          · exact .inl (by omega)
          · exact .inr ⟨by omega, ih h1 h2⟩

theorem cidLe_total (a b : Bytes) : (cidLe a b || cidLe b a) = true := by
  have := lexLe_total a b
  simp only [cidLe, Bool.or_eq_true, Bool.and_eq_true, decide_eq_true_eq, beq_iff_eq] at *
  by_cases h1 : b.length < a.length
  · exact .inl (.inl h1)
  · by_cases h2 : a.length < b.length
    · exact .inr (.inl h2)
    · have e : a.length = b.length := by omega
      rcases this with h | h
      · exact .inl (.inr ⟨e, h⟩)
      · exact .inr (.inr ⟨e.symm, h⟩)

theorem cidLe_antisymm {a b : Bytes} (h1 : cidLe a b = true) (h2 : cidLe b a = true) : a = b := by
  simp only [cidLe, Bool.or_eq_true, Bool.and_eq_true, decide_eq_true_eq, beq_iff_eq] at h1 h2
  rcases h1 with h1 | ⟨_, h1⟩
  · rcases h2 with h2 | ⟨e2, _⟩ <;> omega
  · rcases h2 with h2 | ⟨_, h2⟩
    · omega
    · exact lexLe_antisymm h1 h2

theorem cidLe_trans {a b c : Bytes} (h1 : cidLe a b = true) (h2 : cidLe b c = true) : cidLe a c = true := by
  simp only [cidLe, Bool.or_eq_true, Bool.and_eq_true, decide_eq_true_eq, beq_iff_eq] at *
  rcases h1 with h1 | ⟨e1, h1⟩
  · rcases h2 with h2 | ⟨e2, _⟩
    · exact .inl (by omega)
    · exact .inl (by omega)
  · rcases h2 with h2 | ⟨e2, h2⟩
    · exact .inl (by omega)
    · exact .inr ⟨by omega, lexLe_trans h1 h2⟩

theorem insertCid_perm (c : Bytes) (l : List Bytes) : (insertCid c l).Perm (c :: l) := by
  induction l with
  | nil => exact .refl _
  | cons d ds ih =>
    simp only [insertCid]
    split
    · exact .refl _
    · exact (List.Perm.cons d ih).trans (List.Perm.swap c d ds)

theorem sortCids_perm_self (l : List Bytes) : (sortCids l).Perm l := by
  induction l with
  | nil => exact .refl _
  | cons c cs ih =>
    simp only [sortCids, List.foldr_cons] at *
    exact (insertCid_perm c _).trans (List.Perm.cons c ih)

theorem insertCid_sorted (c : Bytes) {l : List Bytes} (h : l.Pairwise fun a b => cidLe a b = true) :
    (insertCid c l).Pairwise fun a b => cidLe a b = true := by
  induction l with
  | nil => simp [insertCid]
  | cons d ds ih =>
    simp only [insertCid]
    have hd := List.pairwise_cons.mp h
    split
    · rename_i hcd
      refine List.pairwise_cons.mpr ⟨?_, h⟩
      intro x hx
      rcases List.mem_cons.mp hx with rfl | hx
      · exact hcd
      · exact cidLe_trans hcd (hd.1 x hx)
    · rename_i hcd
      refine List.pairwise_cons.mpr ⟨?_, ih hd.2⟩
      intro x hx
      rcases List.mem_cons.mp ((insertCid_perm c ds).mem_iff.mp hx) with rfl | hx
      · have := cidLe_total x d
        simp only [Bool.or_eq_true] at this
        rcases this with h' | h'
        · exact absurd h' hcd
        · exact h'
      · exact hd.1 x hx

theorem sortCids_sorted (l : List Bytes) : (sortCids l).Pairwise fun a b => cidLe a b = true := by
  induction l with
  | nil => simp [sortCids]
  | cons c cs ih => simp only [sortCids, List.foldr_cons] at *; exact insertCid_sorted c ih

theorem sortCids_perm {l l' : List Bytes} (h : l.Perm l') : sortCids l = sortCids l' := by
  apply List.Perm.eq_of_pairwise (le := fun a b => cidLe a b = true)
  · intro a b _ _ h1 h2; exact cidLe_antisymm h1 h2
  · exact sortCids_sorted l
  · exact sortCids_sorted l'
  · exact (sortCids_perm_self l).trans (h.trans (sortCids_perm_self l').symm)

theorem mem_sortCids {l : List Bytes} {c : Bytes} : c ∈ sortCids l ↔ c ∈ l :=
  (sortCids_perm_self l).mem_iff

theorem cidPrefixOf_iff (payload c : Bytes) : cidPrefixOf payload c = true ↔ c ≠ [] ∧ c <+: payload.drop 1 := by
  simp only [cidPrefixOf, Bytes.slice, Bool.and_eq_true, decide_eq_true_eq, beq_iff_eq, List.prefix_iff_eq_take]
  have : 1 + c.length - 1 = c.length := by omega
  rw [this, List.length_pos_iff]

theorem shortPick_eq_none_iff (cids : List Bytes) (payload : Bytes) :
    shortPick cids payload = none ↔ ∀ c ∈ cids, c ≠ [] → ¬ c <+: payload.drop 1 := by
  simp only [shortPick, List.find?_eq_none, mem_sortCids, cidPrefixOf_iff]
  constructor
  · intro h c hc hne hp; exact h c hc ⟨hne, hp⟩
  · intro h c hc ⟨hne, hp⟩; exact h c hc hne hp

/-- what a short-header packet is matched with is a non-empty known CID that its bytes 1.. start with -/
theorem shortPick_some {cids : List Bytes} {payload c : Bytes} (h : shortPick cids payload = some c) :
    c ∈ cids ∧ c ≠ [] ∧ c <+: payload.drop 1 := by
  have h1 := List.find?_some h
  have h2 := List.mem_of_find?_eq_some h
  rw [cidPrefixOf_iff] at h1
  exact ⟨mem_sortCids.mp h2, h1⟩

theorem shortPick_longest {cids : List Bytes} {payload c : Bytes} (h : shortPick cids payload = some c) :
    ∀ d ∈ cids, d ≠ [] → d <+: payload.drop 1 → d.length ≤ c.length := by
  intro d hd hne hp
  obtain ⟨as, bs, hsplit, hbefore⟩ := (List.find?_eq_some_iff_append.mp h).2
  have hsorted := sortCids_sorted cids
  rw [hsplit] at hsorted
  have hdm : d ∈ as ++ c :: bs := by rw [← hsplit]; exact mem_sortCids.mpr hd
  rcases List.mem_append.mp hdm with hda | hdc
  · have := hbefore d hda
    rw [Bool.not_eq_true', ← Bool.not_eq_true, cidPrefixOf_iff] at this
    exact absurd ⟨hne, hp⟩ this
  · rcases List.mem_cons.mp hdc with rfl | hdb
    · exact Nat.le_refl _
    · have := (List.pairwise_cons.mp (List.pairwise_append.mp hsorted).2.1).1 d hdb
      simp only [cidLe, Bool.or_eq_true, Bool.and_eq_true, decide_eq_true_eq, beq_iff_eq] at this
      omega

end Order

section QuicApart
variable {κ τ ο : Type}

theorem side_of_not_matches {α : Type} {s : Sess α} {p : Pkt} (h : s.matches p = false) : s.side p = .offTuple := by
  simp [Sess.side, h]

theorem quicTake_eq_none_iff (M : QuicMachine κ τ ο) (s : QuicSess τ) (x : QIn κ) (hx : x.h ≠ .tooShort) :
    quicTake M x.h x.p s = none ↔ Apart M s x := by
  unfold quicTake
  cases hh : x.h with
  | tooShort => exact absurd hh hx
  | long d v =>
    simp only [cidMatch]
    constructor
    · intro h
      split at h
      · cases h
      · rename_i hc
        split at hc
        · cases hc
        · rename_i hn
          split at h
          · cases h
          · rename_i hm
            refine ⟨by simpa using hm, ?_, ?_⟩
            · intro d' v' e hne
              rw [hh] at e
              have hd : d' = d := by injection e with e1 _; exact e1.symm
              rw [hd] at hne ⊢
              have : 0 < d.length := List.length_pos_iff.mpr hne
              constructor
              · intro hc'; exact hn ⟨this, .inl hc'⟩
              · intro hc'; exact hn ⟨this, .inr hc'⟩
            · intro e; rw [hh] at e; cases e
    · intro ⟨ht, hl, _⟩
      have hn : ¬ (0 < d.length ∧ (d ∈ M.clientCids s.st ∨ d ∈ M.serverCids s.st)) := by
        intro ⟨h1, h2⟩
        have := hl d v hh (List.length_pos_iff.mp h1)
        rcases h2 with h2 | h2
        · exact this.1 h2
        · exact this.2 h2
      simp [hn, ht]
  | short =>
    simp only [cidMatch]
    constructor
    · intro h
      split at h
      · cases h
      · rename_i hc
        split at h
        · cases h
        · rename_i hm
          refine ⟨by simpa using hm, ?_, ?_⟩
          · intro d v e; rw [hh] at e; cases e
          · intro _ c hc' hne
            have hm' : s.matches x.p = false := by simpa using hm
            rw [side_of_not_matches hm'] at hc
            exact (shortPick_eq_none_iff _ _).mp hc c (List.mem_append.mpr hc') hne
    · intro ⟨ht, _, hs⟩
      have : shortPick (shortCandidates (M.clientCids s.st) (M.serverCids s.st) (s.side x.p)) x.p.payload = none := by
        rw [side_of_not_matches ht, shortPick_eq_none_iff]
        intro c hc hne
        exact hs hh c (List.mem_append.mp hc) hne
      simp [this, ht]

theorem quic_iso_of_separated (M : QuicMachine κ τ ο) (o : Opts) {A B : List (QIn κ)} (h : QuicSeparated M o A B) :
    (quicRouter M o).Iso [] A B := by
  intro n s hs x hx
  rw [← quicRun_eq_router] at hs
  by_cases ht : x.h = .tooShort
  · simp [quicRouter, ht]
  · have := (quicTake_eq_none_iff M s x ht).mpr (h n s hs x hx ht)
    simp [quicRouter, this]

theorem quic_run_merge (M : QuicMachine κ τ ο) (o : Opts) {A B C : List (QIn κ)} (hm : Merge A B C)
    (hAB : QuicSeparated M o A B) (hBA : QuicSeparated M o B A) :
    Merge (quicRun M o [] A) (quicRun M o [] B) (quicRun M o [] C) := by
  simp only [quicRun_eq_router]
  exact (quicRouter M o).run_merge hm .nil (quic_iso_of_separated M o hAB) (quic_iso_of_separated M o hBA)
end QuicApart

section Whole
variable {κ σ τ ο : Type}

theorem runItems_proj (TM : TlsMachine κ σ ο) (QM : QuicMachine κ τ ο) (o : Opts) (items : List (Item κ))
    (st : State κ σ τ) :
    (runItems TM QM o st items).tls = tlsRun TM o st.tls (tcpView o items) ∧
    (runItems TM QM o st items).keylog = st.keylog ++ dsbKeys o items ∧
    (runItems TM QM o st items).quic = quicRun QM o st.quic (quicView o st.keylog items) := by
  induction items generalizing st with
  | nil => simp [runItems, tlsRun, quicRun, tcpView, dsbKeys, quicView]
  | cons it rest ih =>
    have := ih (step TM QM o st it)
    simp only [runItems, List.foldl_cons] at this ⊢
    obtain ⟨h1, h2, h3⟩ := this
    rw [h1, h2, h3]
    simp only [step, tcpView, dsbKeys, quicView, List.filterMap_cons, List.flatMap_cons]
    cases classify o it with
    | keys ks => simp [List.append_assoc]
    | tls p => simp [tlsRun]
    | quic p b0 r => simp [quicRun]
    | ignore w => simp
end Whole
end TLX.Lemmas.MainLoop
