/-
Helper lemmas for Props/C04 and Props/C18: order-preserving merges, a generic "first session that takes the input, else
create" router and its behaviour under merges of mutually isolated inputs, the bridge from `tlsHandle` / `quicLoop` to that
router, and the order lemmas behind `sorted(cids, key=(-len, bytes))`.
-/
import TLX.Spec.Demux
/-! ### merges -/
namespace TLX.Spec.Demux

section Merge
variable {α β : Type}

theorem Merge.symm {a b m : List α} (h : Merge a b m) : Merge b a m := by
  induction h with
  | nil => exact .nil
  | left x _ ih => exact .right x ih
  | right x _ ih => exact .left x ih

theorem Merge.left_nil : ∀ (a : List α), Merge a [] a
  | [] => .nil
  | x :: a => .left x (Merge.left_nil a)

theorem Merge.right_nil (b : List α) : Merge [] b b := (Merge.left_nil b).symm

theorem Merge.eq_of_right_nil {a m : List α} (h : Merge a [] m) : m = a := by
  generalize hb : ([] : List α) = b at h
  induction h with
  | nil => rfl
  | left x _ ih => rw [ih hb]
  | right x _ _ => cases hb

theorem Merge.append_left {a b m : List α} (h : Merge a b m) (t : List α) : Merge (a ++ t) b (m ++ t) := by
  induction h with
  | nil => exact Merge.left_nil t
  | left x _ ih => exact .left x ih
  | right x _ ih => exact .right x ih

theorem Merge.filter {a b m : List α} (h : Merge a b m) (f : α → Bool) :
    Merge (a.filter f) (b.filter f) (m.filter f) := by
  induction h with
  | nil => exact .nil
  | left x _ ih =>
    simp only [List.filter_cons]
    split
    · exact .left x ih
    · exact ih
  | right x _ ih =>
    simp only [List.filter_cons]
    split
    · exact .right x ih
    · exact ih

theorem Merge.perm {a b m : List α} (h : Merge a b m) : m.Perm (a ++ b) := by
  induction h with
  | nil => exact .refl _
  | left x _ ih => exact .cons x ih
  | right x _ ih =>
    exact (List.Perm.cons x ih).trans List.perm_middle.symm

theorem Merge.sublist_left {a b m : List α} (h : Merge a b m) : a.Sublist m := by
  induction h with
  | nil => exact .slnil
  | left x _ ih => exact .cons_cons x ih
  | right x _ ih => exact .cons x ih

theorem Merge.mem {a b m : List α} (h : Merge a b m) (x : α) : x ∈ m ↔ x ∈ a ∨ x ∈ b := by
  rw [h.perm.mem_iff, List.mem_append]

theorem Merge.flatMap {a b m : List α} (h : Merge a b m) (f : α → List β) :
    (m.flatMap f).Perm (a.flatMap f ++ b.flatMap f) := by
  rw [← List.flatMap_append]
  exact h.perm.flatMap_right f

end Merge
end TLX.Spec.Demux

namespace TLX.Lemmas.MainLoop
open TLX TLX.MainLoop TLX.Spec.Demux

/-! ### a generic router -/

structure Router (S I : Type) where
  takes : S → I → Bool
  feed : S → I → S
  create : I → Option S

section Router
variable {S I : Type}

def Router.handle (R : Router S I) : List S → I → List S
  | [], x => match R.create x with
    | some s => [s]
    | none => []
  | s :: rest, x => if R.takes s x then R.feed s x :: rest else s :: R.handle rest x

def Router.run (R : Router S I) (ss : List S) (xs : List I) : List S := xs.foldl R.handle ss

theorem Router.handle_merge_left (R : Router S I) {sa sb sm : List S} (h : Merge sa sb sm) (x : I)
    (hb : ∀ s ∈ sb, R.takes s x = false) : Merge (R.handle sa x) sb (R.handle sm x) := by
  induction h with
  | nil =>
    simp only [Router.handle]
    cases R.create x with
    | none => exact .nil
    | some s => exact .left s .nil
  | left s h ih =>
    simp only [Router.handle]
    split
    · exact .left _ h
    · exact .left _ (ih hb)
  | right s h ih =>
    have hs : R.takes s x = false := hb s (List.mem_cons_self)
    simp only [Router.handle, hs]
    exact .right _ (ih fun t ht => hb t (List.mem_cons_of_mem _ ht))

/-- no session of the run on a prefix of `A` (starting from the sessions `sa`) takes an input of `B` -/
def Router.Iso (R : Router S I) (sa : List S) (A B : List I) : Prop :=
  ∀ n, ∀ s ∈ R.run sa (A.take n), ∀ x ∈ B, R.takes s x = false

theorem Router.run_merge (R : Router S I) {A B M : List I} (h : Merge A B M) :
    ∀ {sa sb sm : List S}, Merge sa sb sm → R.Iso sa A B → R.Iso sb B A →
      Merge (R.run sa A) (R.run sb B) (R.run sm M) := by
  induction h with
  | nil => intro sa sb sm hs _ _; exact hs
  | left x _ ih =>
    rename_i a b m
    intro sa sb sm hs hA hB
    have hb : ∀ s ∈ sb, R.takes s x = false := fun s hs' => hB 0 s (by simpa [Router.run] using hs') x List.mem_cons_self
    have := R.handle_merge_left hs x hb
    simp only [Router.run, List.foldl_cons]
    refine ih this ?_ ?_
    · intro n s hs' y hy
      exact hA (n + 1) s (by simpa [Router.run] using hs') y hy
    · intro n s hs' y hy
      exact hB n s hs' y (List.mem_cons_of_mem _ hy)
  | right x _ ih =>
    rename_i a b m
    intro sa sb sm hs hA hB
    have ha : ∀ s ∈ sa, R.takes s x = false := fun s hs' => hA 0 s (by simpa [Router.run] using hs') x List.mem_cons_self
    have := (R.handle_merge_left hs.symm x ha).symm
    simp only [Router.run, List.foldl_cons]
    refine ih this ?_ ?_
    · intro n s hs' y hy
      exact hA n s hs' y (List.mem_cons_of_mem _ hy)
    · intro n s hs' y hy
      exact hB (n + 1) s (by simpa [Router.run] using hs') y hy

end Router

/-! ### flows and TLS sessions -/

section Tls
variable {κ σ ο α : Type}

theorem matches_congr_sameFlow (s : Sess α) {p q : Pkt} (h : sameFlow p q = true) : s.matches p = s.matches q := by
  simp only [sameFlow, Sess.matches, Bool.or_eq_true, Bool.and_eq_true, beq_iff_eq] at *
  rcases h with ⟨h1, h2⟩ | ⟨h1, h2⟩
  · rw [h1, h2]
  · rw [h1, h2, Bool.eq_iff_iff]
    simp only [Bool.or_eq_true, Bool.and_eq_true, beq_iff_eq]
    constructor <;> (rintro (⟨h3, h4⟩ | ⟨h3, h4⟩) <;> simp [h3, h4])

theorem sameFlow_of_matches (s : Sess α) {p q : Pkt} (hp : s.matches p = true) (hq : s.matches q = true) :
    sameFlow p q = true := by
  simp only [sameFlow, Sess.matches, Bool.or_eq_true, Bool.and_eq_true, beq_iff_eq] at *
  rcases hp with ⟨h1, h2⟩ | ⟨h1, h2⟩ <;> rcases hq with ⟨h3, h4⟩ | ⟨h3, h4⟩ <;> simp [h1, h2, h3, h4]

theorem sameFlow_refl (p : Pkt) : sameFlow p p = true := by simp [sameFlow]

theorem sameFlow_symm (p q : Pkt) : sameFlow p q = sameFlow q p := by
  simp only [sameFlow]
  rw [Bool.eq_iff_iff]
  simp only [Bool.or_eq_true, Bool.and_eq_true, beq_iff_eq]
  constructor <;> (rintro (⟨h1, h2⟩ | ⟨h1, h2⟩) <;> simp [h1, h2])

theorem sameFlow_trans {p q r : Pkt} (h1 : sameFlow p q = true) (h2 : sameFlow q r = true) : sameFlow p r = true := by
  simp only [sameFlow, Bool.or_eq_true, Bool.and_eq_true, beq_iff_eq] at *
  rcases h1 with ⟨a, b⟩ | ⟨a, b⟩ <;> rcases h2 with ⟨c, d⟩ | ⟨c, d⟩ <;> simp [a, b, c, d]

theorem tlsNew_matches (M : TlsMachine κ σ ο) (o : Opts) (p q : Pkt) : (tlsNew M o p).matches q = sameFlow p q := by
  simp only [tlsNew, rolesOf, Sess.matches, sameFlow]
  rw [Bool.eq_iff_iff]
  split <;> simp only [Bool.or_eq_true, Bool.and_eq_true, beq_iff_eq] <;>
    constructor <;> (rintro (⟨h1, h2⟩ | ⟨h1, h2⟩) <;> simp [h1, h2])

theorem candidate_congr_sameFlow (o : Opts) {p q : Pkt} (h : sameFlow p q = true) : candidate o p = candidate o q := by
  simp only [sameFlow, Bool.or_eq_true, Bool.and_eq_true, beq_iff_eq] at h
  rcases h with ⟨h1, h2⟩ | ⟨h1, h2⟩
  · simp [candidate, h1, h2]
  · simp [candidate, h1, h2, Bool.or_comm]
end Tls

section Tls2
variable {κ σ ο : Type}

def feedS (M : TlsMachine κ σ ο) (s : TlsSess σ) (p : Pkt) : TlsSess σ := { s with st := M.feed s.st p }

@[simp] theorem feedS_matches (M : TlsMachine κ σ ο) (s : TlsSess σ) (p q : Pkt) : (feedS M s p).matches q = s.matches q := rfl

theorem feedAll_matches (M : TlsMachine κ σ ο) (s : TlsSess σ) (ps : List Pkt) (q : Pkt) :
    (feedAll M s ps).matches q = s.matches q := by
  induction ps generalizing s with
  | nil => rfl
  | cons p ps ih => simp only [feedAll, List.foldl_cons] at *; rw [ih]; rfl

/-- the head session receives exactly the packets it matches; the others see the capture without them -/
theorem tlsRun_cons (M : TlsMachine κ σ ο) (o : Opts) (s : TlsSess σ) (ss : List (TlsSess σ)) (pkts : List Pkt) :
    tlsRun M o (s :: ss) pkts =
      feedAll M s (pkts.filter s.matches) :: tlsRun M o ss (pkts.filter fun q => !s.matches q) := by
  induction pkts generalizing s ss with
  | nil => rfl
  | cons p ps ih =>
    simp only [tlsRun, List.foldl_cons, tlsHandle, List.filter_cons]
    by_cases h : s.matches p = true
    · simp only [h, if_true, Bool.not_true, Bool.false_eq_true, if_false]
      have := ih { s with st := M.feed s.st p } ss
      simp only [tlsRun] at this
      rw [this]
      simp only [feedAll, List.foldl_cons]
      rfl
    · have h' : s.matches p = false := by simpa using h
      simp only [h', Bool.false_eq_true, if_false, Bool.not_false, if_true, List.foldl_cons]
      have := ih s (tlsHandle M o ss p)
      simp only [tlsRun] at this
      rw [this]

theorem tls_run_eq_groupByFlow (M : TlsMachine κ σ ο) (o : Opts) (pkts : List Pkt) :
    tlsRun M o [] pkts = groupByFlow M o pkts := by
  generalize hn : pkts.length = n
  induction n using Nat.strongRecOn generalizing pkts with
  | _ n ih =>
    cases pkts with
    | nil => simp [tlsRun, groupByFlow]
    | cons p ps =>
      rw [groupByFlow]
      by_cases hc : candidate o p = true
      · simp only [hc, if_true]
        have h1 : tlsRun M o [] (p :: ps) = tlsRun M o [tlsNew M o p] ps := by
          simp [tlsRun, tlsHandle, hc]
        rw [h1, tlsRun_cons]
        have hm : (tlsNew M o p).matches = sameFlow p := funext (tlsNew_matches M o p)
        rw [hm]
        congr 1
        exact ih _ (by have := others_length_le p ps; simp at hn; omega) (others p ps) rfl
      · simp only [hc]
        simp only [Bool.false_eq_true, if_false]
        have h1 : tlsRun M o [] (p :: ps) = tlsRun M o [] ps := by
          simp [tlsRun, tlsHandle, hc]
        rw [h1]
        exact ih _ (by simp at hn; omega) ps rfl
end Tls2
end TLX.Lemmas.MainLoop
