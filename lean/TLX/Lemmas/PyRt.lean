/-
Facts about the translator runtime `TLX/PyRt.lean` used by `Props/Translated.lean`: what the operations are on the
values the models work with (bytes of a list, naturals).
-/
import TLX.PyRt
import TLX.Quic.Varint
namespace TLX.PyRt
open TLX

@[simp] theorem getItem_nil (i : Int) : getItem [] i = .error .index := by
  unfold getItem
  simp only [List.length_nil, Int.ofNat_eq_natCast, Int.cast_ofNat_Int, Int.add_zero, ite_self]
  split <;> simp

@[simp] theorem getItem_cons_zero (x : UInt8) (r : Bytes) : getItem (x :: r) (0 : Int) = .ok x.toNat := by
  simp [getItem]

/-- `x[i]` for a natural index -/
theorem getItem_nat (b : Bytes) (i : Nat) :
    getItem b (Int.ofNat i) = match b[i]? with | none => .error .index | some x => .ok x.toNat := by
  unfold getItem
  have h1 : ¬ ((Int.ofNat i) < 0) := by simp
  simp only [h1, if_false]
  rfl

/-- all bytes: a property of `UInt8` checked on the 256 values -/
theorem forall_u8 (P : UInt8 → Prop) (h : ∀ n : Fin 256, P (UInt8.ofNat n.val)) (x : UInt8) : P x := by
  have := h ⟨x.toNat, x.toNat_lt⟩
  simpa using this

/-- the loop of `decode_variable_length_int`: `for i in range(s, s + n): v = (v << 8) + b[i]` -/
theorem forE_be (b : Bytes) (n s v : Nat) :
    forE (List.range' s n) v (fun (py_s : Nat) (i : Nat) =>
        tryE (getItem b (Int.ofNat i)) (fun e => .error e) (fun t => .ok ((py_s <<< 8) + t)))
      = if b.length - s < n then .error .index else .ok (Quic.Varint.accBE v ((b.drop s).take n)) := by
  induction n generalizing s v with
  | zero => simp [forE, Quic.Varint.accBE]
  | succ n ih =>
    rw [List.range'_succ, forE, getItem_nat]
    cases hb : b[s]? with
    | none =>
      have : b.length ≤ s := by simpa using hb
      have h2 : b.length - s < n + 1 := by omega
      simp [h2]
    | some x =>
      have hs : s < b.length := by
        rcases Nat.lt_or_ge s b.length with h | h
        · exact h
        · have : b[s]? = none := by simp [h]
          rw [this] at hb; cases hb
      have hd : b.drop s = x :: b.drop (s + 1) := by
        rw [List.drop_eq_getElem_cons hs]
        congr 1
        have := List.getElem?_eq_getElem hs
        rw [this] at hb
        exact Option.some.inj hb
      simp only [ih, hd, List.take_succ_cons]
      have e : v <<< 8 + x.toNat = v * 256 + x.toNat := by rw [Nat.shiftLeft_eq]
      by_cases hl : b.length - (s + 1) < n
      · have : b.length - s < n + 1 := by omega
        simp [hl, this]
      · have : ¬ b.length - s < n + 1 := by omega
        simp [hl, this, Quic.Varint.accBE, e]

theorem beNat_fold_lt (b : Bytes) (a : Nat) :
    b.foldl (fun acc x => acc * 256 + x.toNat) a + 1 ≤ (a + 1) * 256 ^ b.length := by
  induction b generalizing a with
  | nil => simp
  | cons x r ih =>
    simp only [List.foldl_cons, List.length_cons]
    refine Nat.le_trans (ih _) ?_
    have hx := x.toNat_lt
    have : a * 256 + x.toNat + 1 ≤ (a + 1) * 256 := by omega
    calc (a * 256 + x.toNat + 1) * 256 ^ r.length ≤ ((a + 1) * 256) * 256 ^ r.length := Nat.mul_le_mul_right _ this
      _ = (a + 1) * 256 ^ (r.length + 1) := by rw [Nat.pow_succ, Nat.mul_assoc, Nat.mul_comm 256]

theorem beNat_lt (b : Bytes) : Bytes.beNat b < 256 ^ b.length := by
  have := beNat_fold_lt b 0
  simp only [Nat.zero_add, Nat.one_mul] at this
  exact this

/-- clearing the low `k` bits: `e & ~(2^k - 1)` -/
theorem ldiff_mask (e k : Nat) : ldiff e (2 ^ k - 1) = 2 ^ k * (e / 2 ^ k) := by
  apply Nat.eq_of_testBit_eq
  intro i
  unfold ldiff
  rw [Nat.testBit_xor, Nat.testBit_and, Nat.testBit_two_pow_sub_one, Nat.testBit_two_pow_mul, Nat.testBit_div_two_pow]
  by_cases h : i < k
  · have : ¬ i ≥ k := by omega
    simp [h, this]
  · have h2 : i ≥ k := by omega
    have : i - k + k = i := by omega
    simp [h, h2, this]

/-- the bit identity of RFC 9000 A.3: `(e & ~(W-1)) | t = e - e % W + t` for `t < W = 2^k` -/
theorem mask_or (e k t : Nat) (ht : t < 2 ^ k) :
    bor (band (Int.ofNat e) (~~~((Int.ofNat (2 ^ k)) - 1))) (Int.ofNat t) = Int.ofNat (e - e % 2 ^ k + t) := by
  have hp : 0 < 2 ^ k := Nat.pow_pos (by omega)
  have h1 : (Int.ofNat (2 ^ k)) - 1 = Int.ofNat (2 ^ k - 1) := by
    simp only [Int.ofNat_eq_natCast]; omega
  rw [h1]
  show bor (band (Int.ofNat e) (Int.negSucc (2 ^ k - 1))) (Int.ofNat t) = _
  simp only [band, bor, ldiff_mask]
  congr 1
  rw [← Nat.two_pow_add_eq_or_of_lt ht]
  have := Nat.div_add_mod e (2 ^ k)
  omega

theorem mask_or' (L k t : Nat) (ht : t < 2 ^ k) :
    bor (band (Int.ofNat L + 1) (~~~((Int.ofNat (2 ^ k)) - 1))) (Int.ofNat t)
      = Int.ofNat ((L + 1) - (L + 1) % 2 ^ k + t) := by
  have : Int.ofNat L + 1 = Int.ofNat (L + 1) := by simp
  rw [this, mask_or _ _ _ ht]

theorem toBytesE_nat (n k : Nat) (h : n < 256 ^ k) :
    toBytesE (Int.ofNat n) (Int.ofNat k) = .ok (Bytes.ofNatBE k n) := by
  unfold toBytesE
  have h1 : ¬ (Int.ofNat k < 0) := by simp
  have h2 : ¬ (Int.ofNat n < 0 ∨ Int.ofNat n ≥ 256 ^ (Int.ofNat k).toNat) := by
    simp only [Int.ofNat_eq_natCast, Int.toNat_natCast]
    intro hc
    rcases hc with hc | hc
    · omega
    · have : ((256 ^ k : Nat) : Int) = (256 : Int) ^ k := by simp
      omega
  rw [if_neg h1, if_neg h2]
  simp

theorem beNat_snoc (l : Bytes) (x : UInt8) : Bytes.beNat (l ++ [x]) = Bytes.beNat l * 256 + x.toNat := by
  simp [Bytes.beNat, List.foldl_append]

/-- `int.from_bytes(n.to_bytes(k, "big"), "big") == n` -/
theorem beNat_ofNatBE (k n : Nat) (h : n < 256 ^ k) : Bytes.beNat (Bytes.ofNatBE k n) = n := by
  induction k generalizing n with
  | zero =>
    have : n = 0 := by simpa using h
    subst this; rfl
  | succ k ih =>
    have hd : n / 256 < 256 ^ k := by
      rw [Nat.pow_succ] at h
      exact Nat.div_lt_of_lt_mul (by rw [Nat.mul_comm]; exact h)
    have hx : (UInt8.ofNat (n % 256)).toNat = n % 256 := by
      simp only [UInt8.toNat_ofNat']
      omega
    rw [Bytes.ofNatBE, beNat_snoc, ih _ hd, hx]
    omega

/-- `x[-1:]` -/
theorem pySlice_last (x : Bytes) : pySlice x (some (-1 : Int)) none = x.drop (x.length - 1) := by
  have h : ((-1 : Int)) < 0 := by omega
  simp only [pySlice, Option.map_none, Option.getD_none, Option.map_some, Option.getD_some, bound, Bytes.slice, h, if_true]
  have e : ((-1 : Int) + (x.length : Int)).toNat = x.length - 1 := by omega
  rw [e, List.take_of_length_le]
  simp only [List.length_drop]; omega

/-- `x[:-1]` -/
theorem pySlice_init (x : Bytes) : pySlice x none (some (-1 : Int)) = x.dropLast := by
  have h : ((-1 : Int)) < 0 := by omega
  simp only [pySlice, Option.map_none, Option.getD_none, Option.map_some, Option.getD_some, bound, Bytes.slice, List.drop_zero, Nat.sub_zero,
    h, if_true, List.dropLast_eq_take]
  congr 1; omega

/-- `x.rstrip(b"\x00")` -/
theorem rstrip_zero (x : Bytes) : rstrip x [0] = (x.reverse.dropWhile (· = 0)).reverse := by
  unfold rstrip
  congr 2
  funext b
  simp [List.contains_cons]

/-- `d[k] = v` then `d.get(k')` -/
theorem tableGet_tableSet {κ ν : Type} [DecidableEq κ] (t : List (κ × ν)) (k k' : κ) (v : ν) :
    tableGet (tableSet t k v) k' = if k' = k then some v else tableGet t k' := by
  unfold tableSet tableGet
  by_cases ha : (t.any fun e => decide (e.1 = k)) = true
  · simp only [ha, if_true]
    rw [← List.map_reverse, List.find?_map]
    have hf : ((fun e : κ × ν => decide (e.1 = k')) ∘ fun e => if e.1 = k then (k, v) else e) = fun e => decide (e.1 = k') := by
      funext e
      by_cases he : e.1 = k <;> simp [he]
    rw [hf]
    by_cases hk : k' = k
    · subst hk
      simp only [if_true]
      have : ∃ e, List.find? (fun e : κ × ν => decide (e.1 = k')) t.reverse = some e ∧ e.1 = k' := by
        rw [List.any_eq_true] at ha
        obtain ⟨e, he, hk⟩ := ha
        cases hfe : List.find? (fun e : κ × ν => decide (e.1 = k')) t.reverse with
        | none =>
          rw [List.find?_eq_none] at hfe
          exact absurd hk (hfe e (List.mem_reverse.mpr he))
        | some e' =>
          exact ⟨e', rfl, by simpa using List.find?_some hfe⟩
      obtain ⟨e, he, hk⟩ := this
      simp [he, hk]
    · simp only [hk, if_false]
      cases hfe : List.find? (fun e : κ × ν => decide (e.1 = k')) t.reverse with
      | none => rfl
      | some e =>
        have : e.1 = k' := by simpa using List.find?_some hfe
        have : ¬ e.1 = k := by rw [this]; exact hk
        simp [this]
  · simp only [ha, Bool.false_eq_true, if_false, List.reverse_append, List.reverse_cons, List.reverse_nil, List.nil_append, List.singleton_append,
      List.find?_cons]
    by_cases hk : k' = k
    · subst hk; simp
    · have : ¬ k = k' := fun h => hk h.symm
      simp [hk, this]

end TLX.PyRt
