/-
Facts about the translator runtime `TLX/PyRt.lean` used by `Props/Translated.lean`: what the operations are on the
values the models work with (bytes of a list, naturals).
-/
import TLX.PyRt
import TLX.Quic.Varint
namespace TLX.PyRt
open TLX

@[simp] theorem getItem_nil (i : Int) : getItem [] i = .error .index := by
  unfold getItem
  simp only [List.length_nil, Int.ofNat_eq_natCast, Int.cast_ofNat_Int, Int.add_zero, ite_self]
  split <;> simp

@[simp] theorem getItem_cons_zero (x : UInt8) (r : Bytes) : getItem (x :: r) (0 : Int) = .ok x.toNat := by
  simp [getItem]

/-- `x[i]` for a natural index -/
theorem getItem_nat (b : Bytes) (i : Nat) :
    getItem b (Int.ofNat i) = match b[i]? with | none => .error .index | some x => .ok x.toNat := by
  unfold getItem
  have h1 : ¬ ((Int.ofNat i) < 0) := by simp
  simp only [h1, if_false]
  rfl

/-- all bytes: a property of `UInt8` checked on the 256 values -/
theorem forall_u8 (P : UInt8 → Prop) (h : ∀ n : Fin 256, P (UInt8.ofNat n.val)) (x : UInt8) : P x := by
  have := h ⟨x.toNat, x.toNat_lt⟩
  simpa using this

/-- the loop of `decode_variable_length_int`: `for i in range(s, s + n): v = (v << 8) + b[i]` -/
theorem forE_be (b : Bytes) (n s v : Nat) :
    forE (List.range' s n) v (fun (py_s : Nat) (i : Nat) =>
        tryE (getItem b (Int.ofNat i)) (fun e => .error e) (fun t => .ok ((py_s <<< 8) + t)))
      = if b.length - s < n then .error .index else .ok (Quic.Varint.accBE v ((b.drop s).take n)) := by
  induction n generalizing s v with
  | zero => simp [forE, Quic.Varint.accBE]
  | succ n ih =>
    rw [List.range'_succ, forE, getItem_nat]
    cases hb : b[s]? with
    | none =>
      have : b.length ≤ s := by simpa using hb
      have h2 : b.length - s < n + 1 := by omega
      simp [h2]
    | some x =>
      have hs : s < b.length := by
        rcases Nat.lt_or_ge s b.length with h | h
        · exact h
        · have : b[s]? = none := by simp [h]
          rw [this] at hb; cases hb
      have hd : b.drop s = x :: b.drop (s + 1) := by
        rw [List.drop_eq_getElem_cons hs]
        congr 1
        have := List.getElem?_eq_getElem hs
        rw [this] at hb
        exact Option.some.inj hb
      simp only [ih, hd, List.take_succ_cons]
      have e : v <<< 8 + x.toNat = v * 256 + x.toNat := by rw [Nat.shiftLeft_eq]
      by_cases hl : b.length - (s + 1) < n
      · have : b.length - s < n + 1 := by omega
        simp [hl, this]
      · have : ¬ b.length - s < n + 1 := by omega
        simp [hl, this, Quic.Varint.accBE, e]

end TLX.PyRt
