/-
Helpers for `Props/ExportSeg.lean` (C05 and C09 at the level of a whole connection / a whole run).

  * `keys_of_dirs`        the (record bytes, direction) sequence of a release order is determined by the per-direction record
                          sequences and the sequence of directions
  * `released_dir_stream` `Props.C05.reassembly_exact_partial` inside a connection, stated for the byte STREAM
  * `exported_of_keys`    same (bytes, direction) release sequence ⇒ same records handed to `OutputBuilder` (direction,
                          plaintext), both exports exist, same two reassembled payload streams
  * `genKeys_of_installed` `Pipeline.genKeys … kl` reads the key log only through what `Keylog.installed12 .firstMaster` /
                          `Keylog.installed13` say for the client random it is called with
-/
import TLX.Lemmas.SessionCarriers
import TLX.Props.C01Capstone2
import TLX.Props.C01File
import TLX.Lemmas.ExportProps
import TLX.Lemmas.C01Rfc
set_option autoImplicit false
set_option linter.unusedSimpArgs false
namespace TLX.Lemmas.ExportSeg
open TLX TLX.Reassembly TLX.Lemmas.Capstone TLX.Lemmas.Pipeline TLX.Spec.TlsFraming TLX.Props.C01Pipeline

/-! ### the release order -/

theorem ops_rawOnly (H : Crypto.Prims) (P : Cipher.Prims) (kl : List Keylog.Key) :
    Session.RawOnly (Pipeline.ops H P kl) := fun _ _ _ => rfl

theorem keys_of_dirs (M1 M2 : List (Session.Rec × Bool)) (hord : M1.map (·.2) = M2.map (·.2))
    (hdir : ∀ d, (M1.filter fun q => q.2 == d).map (·.1.raw) = (M2.filter fun q => q.2 == d).map (·.1.raw)) :
    Session.keys M1 = Session.keys M2 := by
  induction M1 generalizing M2 with
  | nil =>
    cases M2 with
    | nil => rfl
    | cons _ _ => simp at hord
  | cons x t ih =>
    cases M2 with
    | nil => simp at hord
    | cons y t' =>
      obtain ⟨r, d⟩ := x
      obtain ⟨r', d'⟩ := y
      simp only [List.map_cons, List.cons.injEq] at hord
      obtain ⟨hd, hord'⟩ := hord
      have hd : d = d' := hd
      subst hd
      have h1 := hdir d
      rw [filter_dir_cons_same, filter_dir_cons_same, List.map_cons, List.map_cons] at h1
      simp only [List.cons.injEq] at h1
      have hrest : ∀ e, (t.filter fun q => q.2 == e).map (·.1.raw) = (t'.filter fun q => q.2 == e).map (·.1.raw) := by
        intro e
        by_cases he : e = d
        · subst he; exact h1.2
        · have := hdir e
          rw [filter_dir_cons_other _ _ _ _ he, filter_dir_cons_other _ _ _ _ he] at this
          exact this
      have := ih t' hord' hrest
      simp only [Session.keys, List.map_cons, List.cons.injEq] at this ⊢
      refine ⟨?_, this⟩
      have hr : r.raw = r'.raw := h1.1
      simp only [Session.Rec.erase, hr]

/-- `Props.C05.reassembly_exact_partial` inside a connection: the records released for direction `d` are the records of
    the byte stream that direction's endpoint sent -/
theorem released_dir_stream (info : Nat → Pipeline.Info) (server : MainLoop.Endpoint)
    (pkts : List MainLoop.Pkt) (d : Bool) (k isn : Nat) (str : Bytes) (hw : WholeRecords str)
    (hd : Delivers k isn str ((dirSegs info server d pkts).map Props.C05.wire))
    (hlen : str.length ≤ 2 ^ 31) (hearly : Props.C05.NoEarlyDelivery isn (dirSegs info server d pkts)) :
    ((released info server (St.init, St.init) pkts).filter fun r => r.2 == d).map (·.1.raw) = frame str := by
  have hne : ∀ p ∈ dirSegs info server d pkts, p.data ≠ [] := by
    obtain ⟨chunks, hcut, hmem⟩ := Lemmas.Delivery.delivers_mem hd
    intro p hp
    have := (hmem (Props.C05.wire p)).mp (List.mem_map_of_mem hp)
    rw [Lemmas.Delivery.segsOf_eq_offs] at this
    obtain ⟨x, hx, hxe⟩ := List.mem_map.mp this
    simp only [Props.C05.wire, Prod.mk.injEq] at hxe
    rw [← hxe.2]
    exact hcut.1 _ (Lemmas.ReasmSort.offs_bounds _ _ _ hx).2.2
  have h1 := Props.C05.reassembly_exact_partial k isn str (dirSegs info server d pkts) hd hw hlen hearly
  rw [run_eq_outs _ hne] at h1
  have h2 := released_filter info server (St.init, St.init) pkts d
  have h3 : (if d then (St.init, St.init).2 else (St.init, St.init).1) = St.init := by cases d <;> rfl
  rw [h3] at h2
  rw [← h1, ← h2, List.map_map]
  rfl

/-! ### what the session hands to `OutputBuilder` -/

/-- `application_traffic` as `OutputBuilder` reads it, without the carriers: (direction, bytes to export) per record -/
def exportedRecs (H : Crypto.Prims) (P : Cipher.Prims) (info : Nat → Pipeline.Info) (c : Pipeline.Conn)
    (kl : List Keylog.Key) : List (Bool × Bytes) :=
  (Session.run (Pipeline.ops H P kl) c.opts.metadata Session.St.init (connRecs info c)).traffic.map fun e =>
    (e.fromServer, e.data.getD TcpOut.placeholder)

theorem dirBytes_traffic (d : Bool) (ts : Nat → Nat) (tr : List Session.Entry) :
    Props.C06.dirBytes d (tr.map (toRec ts)) =
      ((tr.map fun e => (e.fromServer, e.data.getD TcpOut.placeholder)).filter fun x => x.1 == d).flatMap (·.2) := by
  induction tr with
  | nil => rfl
  | cons e rest ih =>
    simp only [Props.C06.dirBytes, List.map_cons, List.filter_cons, toRec] at ih ⊢
    by_cases h : (e.fromServer == d) = true
    · simp only [h, if_true, List.flatMap_cons, ih]; rfl
    · simp only [h, if_false, ih]; exact ih

/-- **Same records released in the same order ⇒ same export up to frame boundaries and times.** -/
theorem exported_of_keys (H : Crypto.Prims) (P : Cipher.Prims) (kl : List Keylog.Key)
    (info1 info2 : Nat → Pipeline.Info) (c1 c2 : Pipeline.Conn) (hm : c1.opts.metadata = c2.opts.metadata)
    (hk : Session.keys (connRecs info1 c1) = Session.keys (connRecs info2 c2)) :
    exportedRecs H P info1 c1 kl = exportedRecs H P info2 c2 kl ∧
    ∃ f1 f2 pc ps, Pipeline.connOut H P info1 c1 kl = some (f1.map (Pipeline.addressed c1.opts c1)) ∧
      Pipeline.connOut H P info2 c2 kl = some (f2.map (Pipeline.addressed c2.opts c2)) ∧
      Spec.reassemble f1 = some (pc, ps) ∧ Spec.reassemble f2 = some (pc, ps) := by
  have he := Session.run_carriers (Pipeline.ops H P kl) (ops_rawOnly H P kl) c1.opts.metadata _ _ hk
  have htr := congrArg (·.traffic) he
  simp only [Session.St.erase] at htr
  have hx : exportedRecs H P info1 c1 kl = exportedRecs H P info2 c2 kl := by
    unfold exportedRecs
    rw [← hm]
    have g : ∀ l : List Session.Entry, (l.map fun e => (e.fromServer, e.data.getD TcpOut.placeholder)) =
        (l.map Session.Entry.erase).map fun e => (e.fromServer, e.data.getD TcpOut.placeholder) := by
      intro l; rw [List.map_map]; rfl
    rw [g, htr, ← g]
  refine ⟨hx, ?_⟩
  have s1 := (connOut_never_raises H P info1 c1 kl).2.2
  have s2 := (connOut_never_raises H P info2 c2 kl).2.2
  rw [connOut_eq] at s1 s2 ⊢
  rw [connOut_eq]
  rw [Option.isSome_map] at s1 s2
  obtain ⟨f1, h1⟩ := Option.isSome_iff_exists.mp s1
  obtain ⟨f2, h2⟩ := Option.isSome_iff_exists.mp s2
  have r1 := Props.C06.reassemble_build _ _ h1
  have r2 := Props.C06.reassemble_build _ _ h2
  refine ⟨f1, f2, _, _, by rw [h1]; rfl, by rw [h2]; rfl, r1, ?_⟩
  rw [r2, dirBytes_traffic, dirBytes_traffic, dirBytes_traffic, dirBytes_traffic]
  unfold exportedRecs at hx
  rw [hx]

/-! ### C09: `generate_keys` reads the key log through `Keylog.installed12 .firstMaster` / `Keylog.installed13` only -/

section C09
open TLX.Keylog TLX.Lemmas.KeySchedule TLX.Lemmas.C01Rfc

/-- the key-log lines `generate_keys` looks at -/
def foundOf (kl : List Key) (v : Option Session.Ver) (cr : Bytes) : List Key :=
  if v = some .tls13 then findSessionSecrets kl (Pipeline.natsOfBytes cr)
  else (findSessionSecrets kl (Pipeline.natsOfBytes cr)).filter fun k => k.label == s_CLIENT_RANDOM || k.label == s_RSA

/-- `generate_keys` after the suite has resolved and the lines have been looked up (verbatim the tail of `Pipeline.genKeys`) -/
def inner (H : Crypto.Prims) (P : Cipher.Prims) (v : Option Session.Ver) (a : Pipeline.SuiteArgs) (cr sr : Bytes)
    (exts : Session.Exts) (comp : UInt8) (found : List Key) : Session.Gen RecordLayer.Dec :=
  match found with
  | [] => .noSecrets
  | _ =>
    match v with
    | none => .raised
    | some v =>
      if comp = 1 then .raised else
      match Pipeline.secretsOf (v = .tls13) found with
      | none => .raised
      | some secrets =>
        match KeySchedule.generateKeys H (Pipeline.ksVersion v) a.ks secrets cr sr with
        | .error _ => .raised
        | .ok none => .noSecrets
        | .ok (some inst) =>
          let macLen := (KeySchedule.macSuite H a.ks.mac).outLen
          let etm := (Session.extGet exts [0x00, 0x16]).isSome
          match RecordLayer.Dec.init P a.bulk (Pipeline.rlVersion v) macLen a.tagLen (Pipeline.blockBits a.bulk) etm
                  (Pipeline.keysOfInstalled inst) with
          | .error _ => .raised
          | .ok d => .installed d

theorem genKeys_inner (H : Crypto.Prims) (P : Cipher.Prims) (kl : List Key) (v : Option Session.Ver) (suite cr sr : Bytes)
    (exts : Session.Exts) (comp : UInt8) :
    Pipeline.genKeys H P kl v suite cr sr exts comp =
      match (if suite.length = 2 then CipherSuite.resolve (Bytes.beNat suite) else none) with
      | none => .noSuite
      | some ps =>
        match Pipeline.suiteArgs ps with
        | none => .raised
        | some a => inner H P v a cr sr exts comp (foundOf kl v cr) := rfl

theorem generateKeys_head (H : Crypto.Prims) (v : KeySchedule.Version) (hv : v ≠ .tls13) (s : KeySchedule.Suite)
    (x : KeySchedule.Secret) (t t' : List KeySchedule.Secret) (cr sr : Bytes) :
    KeySchedule.generateKeys H v s (x :: t) cr sr = KeySchedule.generateKeys H v s (x :: t') cr sr := by
  cases v <;> first | rfl | exact absurd rfl hv

theorem devTls13Keys_congr (h : Crypto.HashSuite) (ss1 ss2 : List KeySchedule.Secret) (n : Nat)
    (e1 : lastOf .clientHandshake ss1 = lastOf .clientHandshake ss2)
    (e2 : lastOf .serverHandshake ss1 = lastOf .serverHandshake ss2)
    (e3 : lastOf .clientTraffic0 ss1 = lastOf .clientTraffic0 ss2)
    (e4 : lastOf .serverTraffic0 ss1 = lastOf .serverTraffic0 ss2) :
    KeySchedule.devTls13Keys h ss1 n = KeySchedule.devTls13Keys h ss2 n := by
  unfold KeySchedule.devTls13Keys
  cases KeySchedule.toBytes2 n with
  | error e => rfl
  | ok kl =>
    simp only [bind, Except.bind]
    have h0 : ∀ ki ii : Bytes, ({} : KeySchedule.Tls13Acc) =
        acc13 (fun s => h.hkdfExpand s ki n) (fun s => h.hkdfExpand s ii 12) none none none none := fun _ _ => rfl
    rw [h0, tls13_fold, tls13_fold]
    unfold lastOf at e1 e2 e3 e4
    rw [e1, e2, e3, e4]

theorem generateKeys13_congr (H : Crypto.Prims) (s : KeySchedule.Suite) (ss1 ss2 : List KeySchedule.Secret) (cr sr : Bytes)
    (hn1 : ss1 ≠ []) (hn2 : ss2 ≠ [])
    (e1 : lastOf .clientHandshake ss1 = lastOf .clientHandshake ss2)
    (e2 : lastOf .serverHandshake ss1 = lastOf .serverHandshake ss2)
    (e3 : lastOf .clientTraffic0 ss1 = lastOf .clientTraffic0 ss2)
    (e4 : lastOf .serverTraffic0 ss1 = lastOf .serverTraffic0 ss2) :
    KeySchedule.generateKeys H .tls13 s ss1 cr sr = KeySchedule.generateKeys H .tls13 s ss2 cr sr := by
  cases ss1 with
  | nil => exact absurd rfl hn1
  | cons x1 t1 =>
    cases ss2 with
    | nil => exact absurd rfl hn2
    | cons x2 t2 =>
      simp only [KeySchedule.generateKeys]
      rw [devTls13Keys_congr _ _ _ _ e1 e2 e3 e4]

/-! the TLS 1.3 loop of the key schedule (`lastOf` over `secretsOf true`) and of the key-log model (`scan labels13`) -/

theorem mapM_sec13_cons (k : Key) (ks : List Key) :
    (k :: ks).mapM sec13 = (sec13 k).bind fun b => (ks.mapM sec13).map fun bs => b :: bs := by
  rw [List.mapM_cons]
  cases sec13 k with
  | none => rfl
  | some b => cases ks.mapM sec13 <;> rfl

theorem scan_none_iff (ks : List Key) (st : Str → Option (List Nat)) :
    scan labels13 ks st = none ↔ ks.mapM sec13 = none := by
  induction ks generalizing st with
  | nil => simp [scan]
  | cons k ks ih =>
    rw [mapM_sec13_cons]
    unfold scan sec13
    by_cases hc : labels13.contains k.label = true
    · simp only [hc, if_true]
      cases fromHex k.value with
      | none => simp
      | some b => simp only [Option.map_some, Option.bind_some, Option.map_eq_none_iff]; exact ih _
    · simp only [hc, Bool.false_eq_true, if_false, Option.bind_some, Option.map_eq_none_iff]; exact ih _

theorem labelOf_ne_other (L : Str) (hL : L ∈ labels13) : Pipeline.labelOf L ≠ .other := by
  simp only [labels13, List.mem_cons, List.mem_nil_iff, or_false] at hL
  rcases hL with rfl | rfl | rfl | rfl <;> decide

/-- per label of `labels13`: the last secret the key schedule sees = the secret the key-log scan ends with -/
theorem scan_lastOf (ks : List Key) (st st' : Str → Option (List Nat)) (ss : List KeySchedule.Secret)
    (hm : ks.mapM sec13 = some ss) (hs : scan labels13 ks st = some st') (L : Str) (hL : L ∈ labels13)
    (acc : Option Bytes) (hacc : acc = (st L).map Pipeline.bytesOfNats) :
    ss.foldl (pick (Pipeline.labelOf L)) acc = (st' L).map Pipeline.bytesOfNats := by
  induction ks generalizing st ss acc with
  | nil =>
    simp only [List.mapM_nil, pure, Option.some.injEq] at hm
    simp only [scan, Option.some.injEq] at hs
    subst hm; subst hs
    exact hacc
  | cons k ks ih =>
    rw [mapM_sec13_cons] at hm
    unfold scan at hs
    have hk : sec13 k = if labels13.contains k.label then
        (fromHex k.value).map fun v => (Pipeline.labelOf k.label, Pipeline.bytesOfNats v)
      else some (.other, []) := rfl
    rw [hk] at hm
    by_cases hc : labels13.contains k.label = true
    · simp only [hc, if_true] at hm hs
      cases hx : fromHex k.value with
      | none => rw [hx] at hs; cases hs
      | some b =>
        rw [hx] at hm hs
        simp only [Option.map_some, Option.bind_some] at hm hs
        cases hks : ks.mapM sec13 with
        | none => rw [hks] at hm; cases hm
        | some bs =>
          rw [hks] at hm
          simp only [Option.map_some, Option.some.injEq] at hm
          subst hm
          simp only [List.foldl_cons]
          refine ih _ bs hks hs _ ?_
          by_cases e : L = k.label
          · subst e; simp [pick]
          · have : Pipeline.labelOf k.label ≠ Pipeline.labelOf L := by
              intro h
              exact e (labelOf_inj13 k.label (by simpa using hc) L (by simpa using hL) h.symm)
            simp [pick, this, e, hacc]
    · simp only [hc, Bool.false_eq_true, if_false, Option.bind_some] at hm hs
      cases hks : ks.mapM sec13 with
      | none => rw [hks] at hm; cases hm
      | some bs =>
        rw [hks] at hm
        simp only [Option.map_some, Option.some.injEq] at hm
        subst hm
        simp only [List.foldl_cons]
        refine ih _ bs hks hs _ ?_
        have := labelOf_ne_other L hL
        simp [pick, Ne.symm this, hacc]

theorem mapM_ne_nil (k : Key) (ks : List Key) (ss : List KeySchedule.Secret) (h : (k :: ks).mapM sec13 = some ss) :
    ss ≠ [] := by
  rw [mapM_sec13_cons] at h
  cases hk : sec13 k with
  | none => rw [hk] at h; cases h
  | some b =>
    rw [hk] at h
    cases hks : ks.mapM sec13 with
    | none => rw [hks] at h; cases h
    | some bs => rw [hks] at h; simp at h; subst h; simp

/-- **TLS 1.3**: the tail of `generate_keys` depends on the lines found only through `installed13` -/
theorem inner_congr13 (H : Crypto.Prims) (P : Cipher.Prims) (a : Pipeline.SuiteArgs) (cr sr : Bytes)
    (exts : Session.Exts) (comp : UInt8) (kl1 kl2 : List Key)
    (h : installed13 kl1 (Pipeline.natsOfBytes cr) = installed13 kl2 (Pipeline.natsOfBytes cr)) :
    inner H P (some .tls13) a cr sr exts comp (foundOf kl1 (some .tls13) cr) =
      inner H P (some .tls13) a cr sr exts comp (foundOf kl2 (some .tls13) cr) := by
  unfold installed13 at h
  simp only [foundOf, if_true]
  generalize findSessionSecrets kl1 (Pipeline.natsOfBytes cr) = f1 at *
  generalize findSessionSecrets kl2 (Pipeline.natsOfBytes cr) = f2 at *
  have hbad : ∀ (k : Key) (r : List Key), (match scan labels13 (k :: r) fun _ => none with
      | none => Res.valueError
      | some st => Res.ok (labels13.map st)) ≠ (Res.missing : Res (List (Option (List Nat)))) := by
    intro k r; cases scan labels13 (k :: r) fun _ => none <;> (intro hh; cases hh)
  cases f1 with
  | nil =>
    cases f2 with
    | nil => rfl
    | cons k r => exact absurd h.symm (hbad k r)
  | cons k1 r1 =>
    cases f2 with
    | nil => exact absurd h (hbad k1 r1)
    | cons k2 r2 =>
      simp only at h
      simp only [inner, decide_true, secretsOf_true]
      by_cases hcomp : comp = 1
      · rw [if_pos hcomp, if_pos hcomp]
      · rw [if_neg hcomp, if_neg hcomp]
        cases hs1 : scan labels13 (k1 :: r1) fun _ => none with
        | none =>
          cases hs2 : scan labels13 (k2 :: r2) fun _ => none with
          | none =>
            rw [(scan_none_iff _ _).mp hs1, (scan_none_iff _ _).mp hs2]
          | some st2 => rw [hs1, hs2] at h; cases h
        | some st1 =>
          cases hs2 : scan labels13 (k2 :: r2) fun _ => none with
          | none => rw [hs1, hs2] at h; cases h
          | some st2 =>
            rw [hs1, hs2] at h
            simp only [Res.ok.injEq, labels13, List.map_cons, List.map_nil, List.cons.injEq, and_true] at h
            obtain ⟨q1, q2, q3, q4⟩ := h
            cases hm1 : (k1 :: r1).mapM sec13 with
            | none => exact absurd ((scan_none_iff _ _).mpr hm1) (by rw [hs1]; simp)
            | some ss1 =>
              cases hm2 : (k2 :: r2).mapM sec13 with
              | none => exact absurd ((scan_none_iff _ _).mpr hm2) (by rw [hs2]; simp)
              | some ss2 =>
                simp only
                have key : ∀ L, L ∈ labels13 → st1 L = st2 L →
                    lastOf (Pipeline.labelOf L) ss1 = lastOf (Pipeline.labelOf L) ss2 := by
                  intro L hL e
                  unfold lastOf
                  rw [scan_lastOf _ _ _ _ hm1 hs1 L hL none rfl, scan_lastOf _ _ _ _ hm2 hs2 L hL none rfl, e]
                have g := generateKeys13_congr H a.ks ss1 ss2 cr sr (mapM_ne_nil _ _ _ hm1) (mapM_ne_nil _ _ _ hm2)
                  (key s_CHTS (by simp [labels13]) q1) (key s_SHTS (by simp [labels13]) q2)
                  (key s_CTS0 (by simp [labels13]) q3) (key s_STS0 (by simp [labels13]) q4)
                show (match KeySchedule.generateKeys H .tls13 a.ks ss1 cr sr with | .error _ => _ | .ok none => _ | .ok (some inst) => _) = _
                rw [g]
                rfl

theorem ksVersion_ne13 (v : Session.Ver) (hv : v ≠ .tls13) : Pipeline.ksVersion v ≠ .tls13 := by
  cases v <;> simp [Pipeline.ksVersion] at hv ⊢

/-- what `installed12 .firstMaster` says about a non-empty list of CLIENT_RANDOM / RSA lines -/
def head12 (k : Key) : Res (Bool × List Nat) :=
  if k.label = s_CLIENT_RANDOM then
    match fromHex k.value with | some b => .ok (false, b) | none => .valueError
  else if k.label = s_RSA then
    match fromHex k.value with | some b => .ok (true, b) | none => .valueError
  else .unbound

theorem head12_ne_missing (k : Key) : head12 k ≠ .missing := by
  unfold head12
  repeat' split
  all_goals (intro hh; cases hh)

/-- the secret list of `generate_keys` for SSL 3.0 – TLS 1.2 is decided by the first line -/
theorem secretsOf_false_head (k : Key) (r : List Key) (hl : k.label = s_CLIENT_RANDOM ∨ k.label = s_RSA) :
    Pipeline.secretsOf false (k :: r) =
      (fromHex k.value).map fun v => (Pipeline.labelOf k.label, Pipeline.bytesOfNats v) :: r.map fun _ => (.other, []) := by
  simp only [Pipeline.secretsOf, Bool.false_eq_true, if_false, hl, if_true]

/-- **SSL 3.0 – TLS 1.2**: the tail of `generate_keys` depends on the lines found only through `installed12 .firstMaster` -/
theorem inner_congr12 (H : Crypto.Prims) (P : Cipher.Prims) (v : Option Session.Ver) (hv : v ≠ some .tls13)
    (a : Pipeline.SuiteArgs) (cr sr : Bytes) (exts : Session.Exts) (comp : UInt8) (kl1 kl2 : List Key)
    (h : installed12 .firstMaster kl1 (Pipeline.natsOfBytes cr) = installed12 .firstMaster kl2 (Pipeline.natsOfBytes cr)) :
    inner H P v a cr sr exts comp (foundOf kl1 v cr) = inner H P v a cr sr exts comp (foundOf kl2 v cr) := by
  have hi : ∀ kl, installed12 .firstMaster kl (Pipeline.natsOfBytes cr) =
      match (findSessionSecrets kl (Pipeline.natsOfBytes cr)).filter
          (fun k => k.label == s_CLIENT_RANDOM || k.label == s_RSA) with
      | [] => .missing
      | k :: _ => head12 k := fun _ => rfl
  rw [hi, hi] at h
  simp only [foundOf, hv, if_false]
  have hl : ∀ kl, ∀ k ∈ (findSessionSecrets kl (Pipeline.natsOfBytes cr)).filter
      (fun k => k.label == s_CLIENT_RANDOM || k.label == s_RSA), k.label = s_CLIENT_RANDOM ∨ k.label = s_RSA := by
    intro kl k hk
    have := (List.mem_filter.mp hk).2
    simpa using this
  have hl1 := hl kl1
  have hl2 := hl kl2
  generalize (findSessionSecrets kl1 (Pipeline.natsOfBytes cr)).filter
    (fun k => k.label == s_CLIENT_RANDOM || k.label == s_RSA) = f1 at *
  generalize (findSessionSecrets kl2 (Pipeline.natsOfBytes cr)).filter
    (fun k => k.label == s_CLIENT_RANDOM || k.label == s_RSA) = f2 at *
  cases f1 with
  | nil =>
    cases f2 with
    | nil => rfl
    | cons k r => exact absurd h.symm (head12_ne_missing k)
  | cons k1 r1 =>
    cases f2 with
    | nil => exact absurd h (head12_ne_missing k1)
    | cons k2 r2 =>
      simp only at h
      cases v with
      | none => rfl
      | some v' =>
        have hv' : v' ≠ .tls13 := fun e => hv (by rw [e])
        simp only [inner, hv', decide_false]
        by_cases hcomp : comp = 1
        · rw [if_pos hcomp, if_pos hcomp]
        · rw [if_neg hcomp, if_neg hcomp]
          have e1 := hl1 k1 (by simp)
          have e2 := hl2 k2 (by simp)
          rw [secretsOf_false_head k1 r1 e1, secretsOf_false_head k2 r2 e2]
          have hne : s_RSA ≠ s_CLIENT_RANDOM := by decide
          unfold head12 at h
          have hgen : ∀ (x : KeySchedule.Secret) (t t' : List KeySchedule.Secret),
              KeySchedule.generateKeys H (Pipeline.ksVersion v') a.ks (x :: t) cr sr =
                KeySchedule.generateKeys H (Pipeline.ksVersion v') a.ks (x :: t') cr sr :=
            fun x t t' => generateKeys_head H _ (ksVersion_ne13 v' hv') a.ks x t t' cr sr
          rcases e1 with e1 | e1 <;> rcases e2 with e2 | e2 <;> rw [e1, e2] at h ⊢ <;>
            simp only [hne, if_true, if_false] at h <;>
            cases hx1 : fromHex k1.value <;> cases hx2 : fromHex k2.value <;> rw [hx1, hx2] at h <;>
            simp only [Res.ok.injEq, Prod.mk.injEq, reduceCtorEq, Bool.false_eq_true, Bool.true_eq_false, false_and,
              true_and] at h <;>
            first
              | rfl
              | (simp only [Option.map_some, Option.map_none]; subst h; rw [hgen _ _ (r2.map fun _ => (.other, []))])

/-- the TLS secrets two key lists install agree for every client random -/
def SameTlsSecrets (kl1 kl2 : List Key) : Prop :=
  ∀ cr, installed12 .firstMaster kl1 cr = installed12 .firstMaster kl2 cr ∧ installed13 kl1 cr = installed13 kl2 cr

/-- **`Pipeline.genKeys` is connected to `Keylog.installed`**: `generate_keys` reads the key log only through what
    `installed12 .firstMaster` (SSL 3.0 – TLS 1.2) / `installed13` (TLS 1.3) say for the client random it is called with. -/
theorem genKeys_of_installed (H : Crypto.Prims) (P : Cipher.Prims) (kl1 kl2 : List Key) (v : Option Session.Ver)
    (suite cr sr : Bytes) (exts : Session.Exts) (comp : UInt8)
    (h12 : v ≠ some .tls13 → installed12 .firstMaster kl1 (Pipeline.natsOfBytes cr)
      = installed12 .firstMaster kl2 (Pipeline.natsOfBytes cr))
    (h13 : v = some .tls13 → installed13 kl1 (Pipeline.natsOfBytes cr) = installed13 kl2 (Pipeline.natsOfBytes cr)) :
    Pipeline.genKeys H P kl1 v suite cr sr exts comp = Pipeline.genKeys H P kl2 v suite cr sr exts comp := by
  rw [genKeys_inner, genKeys_inner]
  cases (if suite.length = 2 then CipherSuite.resolve (Bytes.beNat suite) else none) with
  | none => rfl
  | some ps =>
    simp only
    cases Pipeline.suiteArgs ps with
    | none => rfl
    | some a =>
      simp only
      by_cases hv : v = some .tls13
      · subst hv; exact inner_congr13 H P a cr sr exts comp kl1 kl2 (h13 rfl)
      · exact inner_congr12 H P v hv a cr sr exts comp kl1 kl2 (h12 hv)

theorem ops_of_installed (H : Crypto.Prims) (P : Cipher.Prims) (kl1 kl2 : List Key) (h : SameTlsSecrets kl1 kl2) :
    Pipeline.ops H P kl1 = Pipeline.ops H P kl2 := by
  unfold Pipeline.ops
  congr 1
  funext v suite cr sr exts comp
  exact genKeys_of_installed H P kl1 kl2 v suite cr sr exts comp (fun _ => (h _).1) (fun _ => (h _).2)

theorem connOut_of_installed (H : Crypto.Prims) (P : Cipher.Prims) (info : Nat → Pipeline.Info) (c : Pipeline.Conn)
    (kl1 kl2 : List Key) (h : SameTlsSecrets kl1 kl2) :
    Pipeline.connOut H P info c kl1 = Pipeline.connOut H P info c kl2 := by
  unfold Pipeline.connOut
  rw [ops_of_installed H P kl1 kl2 h]

/-! appending the same lines (the DSBs of the capture) to two key lists that install the same TLS secrets -/

theorem scan_append (L : List Str) (x y : List Key) (st : Str → Option (List Nat)) :
    scan L (x ++ y) st = (scan L x st).bind (scan L y) := by
  induction x generalizing st with
  | nil => rfl
  | cons k ks ih =>
    simp only [List.cons_append, scan]
    split
    · split
      · rfl
      · exact ih _
    · exact ih _

theorem scan_congr (L : List Str) (y : List Key) (st st' : Str → Option (List Nat)) (h : ∀ l ∈ L, st l = st' l) :
    (scan L y st).map (fun s => L.map s) = (scan L y st').map (fun s => L.map s) := by
  induction y generalizing st st' with
  | nil =>
    simp only [scan, Option.map_some, Option.some.injEq]
    exact List.map_congr_left h
  | cons k ks ih =>
    simp only [scan]
    split
    · split
      · rfl
      · apply ih
        intro l hl
        by_cases e : l = k.label
        · simp [e]
        · simp [e, h l hl]
    · exact ih _ _ h

def res13 (o : Option (Str → Option (List Nat))) : Res (List (Option (List Nat))) :=
  match o with
  | none => .valueError
  | some st => .ok (labels13.map st)

theorem installed13_eq (kl : List Key) (cr : List Nat) :
    installed13 kl cr = match findSessionSecrets kl cr with
      | [] => .missing
      | k :: r => res13 (scan labels13 (k :: r) fun _ => none) := by
  unfold installed13
  cases findSessionSecrets kl cr <;> rfl

theorem res13_ne_missing (o : Option (Str → Option (List Nat))) : res13 o ≠ .missing := by
  cases o <;> (intro h; cases h)

theorem findSessionSecrets_append (a c : List Key) (cr : List Nat) :
    findSessionSecrets (a ++ c) cr = findSessionSecrets a cr ++ findSessionSecrets c cr := by
  simp [findSessionSecrets, List.filter_append]

theorem installed12_eq (kl : List Key) (cr : List Nat) :
    installed12 .firstMaster kl cr =
      match (findSessionSecrets kl cr).filter (fun k => k.label == s_CLIENT_RANDOM || k.label == s_RSA) with
      | [] => .missing
      | k :: _ => head12 k := rfl

/-- the same lines behind two key lists that install the same TLS secrets: still the same TLS secrets -/
theorem sameTlsSecrets_append (a b c : List Key) (h : SameTlsSecrets a b) : SameTlsSecrets (a ++ c) (b ++ c) := by
  intro cr
  obtain ⟨h12, h13⟩ := h cr
  constructor
  · rw [installed12_eq, installed12_eq] at h12 ⊢
    rw [findSessionSecrets_append, findSessionSecrets_append, List.filter_append, List.filter_append]
    generalize (findSessionSecrets a cr).filter (fun k => k.label == s_CLIENT_RANDOM || k.label == s_RSA) = fa at *
    generalize (findSessionSecrets b cr).filter (fun k => k.label == s_CLIENT_RANDOM || k.label == s_RSA) = fb at *
    cases fa with
    | nil =>
      cases fb with
      | nil => rfl
      | cons k r => exact absurd h12.symm (head12_ne_missing k)
    | cons k r =>
      cases fb with
      | nil => exact absurd h12 (head12_ne_missing k)
      | cons k' r' => exact h12
  · rw [installed13_eq, installed13_eq] at h13 ⊢
    rw [findSessionSecrets_append, findSessionSecrets_append]
    generalize findSessionSecrets a cr = fa at *
    generalize findSessionSecrets b cr = fb at *
    cases fa with
    | nil =>
      cases fb with
      | nil => rfl
      | cons k r => exact absurd h13.symm (res13_ne_missing _)
    | cons k r =>
      cases fb with
      | nil => exact absurd h13 (res13_ne_missing _)
      | cons k' r' =>
        simp only [List.cons_append] at h13 ⊢
        rw [← List.cons_append, ← List.cons_append, scan_append, scan_append]
        cases hs1 : scan labels13 (k :: r) fun _ => none with
        | none =>
          cases hs2 : scan labels13 (k' :: r') fun _ => none with
          | none => rfl
          | some st2 => rw [hs1, hs2] at h13; cases h13
        | some st1 =>
          cases hs2 : scan labels13 (k' :: r') fun _ => none with
          | none => rw [hs1, hs2] at h13; cases h13
          | some st2 =>
            rw [hs1, hs2] at h13
            simp only [res13, Res.ok.injEq] at h13
            simp only [Option.bind_some]
            have hst : ∀ l ∈ labels13, st1 l = st2 l := by
              intro l hl
              have := List.map_inj_left.mp h13 l hl
              exact this
            have := scan_congr labels13 (findSessionSecrets c cr) st1 st2 hst
            cases h1 : scan labels13 (findSessionSecrets c cr) st1 with
            | none =>
              rw [h1] at this
              cases h2 : scan labels13 (findSessionSecrets c cr) st2 with
              | none => rfl
              | some s2 => rw [h2] at this; cases this
            | some s1 =>
              rw [h1] at this
              cases h2 : scan labels13 (findSessionSecrets c cr) st2 with
              | none => rw [h2] at this; cases this
              | some s2 =>
                rw [h2] at this
                simp only [Option.map_some, Option.some.injEq] at this
                simp only [res13, this]

end C09

/-! ### the key-log file as lines (`C09Found.fileText`) in the vocabulary of `Spec.NssKeylog` -/

section FileText
open TLX.Keylog TLX.Spec.NssKeylog TLX.Props.C09Found TLX.Lemmas.Keylog TLX.Lemmas.C01Rfc

theorem stripCR_of_not_mem (l : Str) (h : 13 ∉ l) : stripCR l = l := by
  unfold stripCR
  split
  · rename_i hl
    obtain ⟨ys, rfl⟩ := List.getLast?_eq_some_iff.mp hl
    exact absurd (by simp) h
  · rfl

theorem stripCR_snoc (l : Str) : stripCR (l ++ [13]) = l := by
  simp [stripCR]

theorem lines_fileText (ls : List (FLine × Bool)) (hwf : ∀ x ∈ ls, x.1.WF) :
    lines (fileText ls) = ls.map (·.1.text) ++ [[]] := by
  unfold lines
  rw [splitLF_eq]
  induction ls with
  | nil => simp [fileText, splitOn, stripCR]
  | cons x rest ih =>
    obtain ⟨l, crlf⟩ := x
    obtain ⟨h10, h13⟩ := text_no_eol l (hwf (l, crlf) (by simp))
    have ih := ih (fun y hy => hwf y (by simp [hy]))
    cases crlf with
    | false =>
      simp only [fileText, Bool.false_eq_true, if_false, List.append_assoc, List.singleton_append]
      rw [splitOn_append, splitOn_of_not_mem 10 _ h10, List.map_append, ih]
      simp [stripCR_of_not_mem _ h13]
    | true =>
      simp only [fileText, if_true, List.append_assoc]
      have : l.text ++ ([13, 10] ++ fileText rest) = (l.text ++ [13]) ++ 10 :: fileText rest := by simp
      rw [this, splitOn_append, splitOn_of_not_mem 10 _ (by simp [h10]), List.map_append, ih]
      simp [stripCR_snoc]

theorem hasTriple_of_line (ls : List (FLine × Bool)) (hwf : ∀ x ∈ ls, x.1.WF) (tr : Triple) (hc hv : Str) (crlf : Bool)
    (hm : (FLine.key tr hc hv, crlf) ∈ ls) : HasTriple (fileText ls) tr := by
  refine ⟨(FLine.key tr hc hv).text, ?_, hc, hv, hwf _ hm⟩
  rw [lines_fileText ls hwf]
  exact List.mem_append_left _ (List.mem_map.mpr ⟨_, hm, rfl⟩)

/-- the triples a file of well-formed lines denotes are exactly those of its secret lines -/
theorem hasTriple_fileText_iff (ls : List (FLine × Bool)) (hwf : ∀ x ∈ ls, x.1.WF) (tr : Triple) :
    HasTriple (fileText ls) tr ↔ ∃ hc hv crlf, (FLine.key tr hc hv, crlf) ∈ ls := by
  constructor
  · rintro ⟨l, hl, hden⟩
    rw [lines_fileText ls hwf] at hl
    rcases List.mem_append.mp hl with hl | hl
    · obtain ⟨x, hx, rfl⟩ := List.mem_map.mp hl
      have w := hwf x hx
      obtain ⟨fl, b⟩ := x
      cases fl with
      | key tr' hc hv =>
        have : tr = tr' := denotes_unique hden ⟨hc, hv, w⟩
        subst this
        exact ⟨hc, hv, b, hx⟩
      | other s => exact absurd (looks_of_denotes hden) w.2.2
    · simp only [List.mem_singleton] at hl
      subst hl
      exact absurd (looks_of_denotes hden) not_looks_nil
  · rintro ⟨hc, hv, crlf, hm⟩
    exact hasTriple_of_line ls hwf tr hc hv crlf hm

/-- **`OnlySecret` IS C09's consistency**: in a key-log file that is consistent for the client random (one secret per
    label), a line `label cr secret` is the only secret under that label and client random. -/
theorem onlySecret_of_consistent (ls : List (FLine × Bool)) (hwf : ∀ x ∈ ls, x.1.WF) (cr : List Nat)
    (hcons : ConsistentFor cr (fileText ls)) (label secret : List Nat) (hhas : HasLine ls label cr secret) :
    OnlySecret ls label cr secret := by
  intro tr hc hv crlf hm hl hcr
  obtain ⟨hc0, hv0, crlf0, hm0⟩ := hhas
  exact hcons tr ⟨label, cr, secret⟩ (hasTriple_of_line ls hwf tr hc hv crlf hm)
    (hasTriple_of_line ls hwf _ hc0 hv0 crlf0 hm0) hcr rfl hl

/-- a file of well-formed lines is a well-formed key log in the sense of C09 -/
theorem wellFormed_fileText (ls : List (FLine × Bool)) (hwf : ∀ x ∈ ls, x.1.WF) : WellFormed (fileText ls) := by
  intro l hl
  rw [lines_fileText ls hwf] at hl
  rcases List.mem_append.mp hl with hl | hl
  · obtain ⟨x, hx, rfl⟩ := List.mem_map.mp hl
    refine ⟨(text_no_eol x.1 (hwf x hx)).2, ?_⟩
    have w := hwf x hx
    obtain ⟨fl, b⟩ := x
    cases fl with
    | key tr hc hv => exact .inl ⟨tr, hc, hv, w⟩
    | other s => exact .inr w.2.2
  · simp only [List.mem_singleton] at hl
    subst hl
    exact ⟨by simp, .inr not_looks_nil⟩

theorem crOk_cons_ne (c : Nat) (t : Str) (hc : c ≠ 13) (h : CrOk t) : CrOk (c :: t) := by
  unfold CrOk
  split <;> simp_all

theorem crOk_append_lf (l rest : Str) (h : 13 ∉ l) (hr : CrOk rest) (crlf : Bool) :
    CrOk (l ++ (if crlf then [13, 10] else [10]) ++ rest) := by
  induction l with
  | nil => cases crlf <;> simpa [CrOk] using hr
  | cons c cs ih =>
    have hc : c ≠ 13 := fun e => h (by simp [e])
    have := ih (fun hm => h (by simp [hm]))
    simp only [List.cons_append, List.append_assoc] at this ⊢
    exact crOk_cons_ne c _ hc this

/-- … and every CR in it is followed by LF -/
theorem crOk_fileText (ls : List (FLine × Bool)) (hwf : ∀ x ∈ ls, x.1.WF) : CrOk (fileText ls) := by
  induction ls with
  | nil => simp [fileText, CrOk]
  | cons x rest ih =>
    obtain ⟨l, crlf⟩ := x
    exact crOk_append_lf _ _ (text_no_eol l (hwf (l, crlf) (by simp))).2 (ih (fun y hy => hwf y (by simp [hy]))) crlf

end FileText

end TLX.Lemmas.ExportSeg
