/-
Helpers for `Props/ExportSeg.lean` (C05 and C09 at the level of a whole connection / a whole run).

  * `keys_of_dirs`        the (record bytes, direction) sequence of a release order is determined by the per-direction record
                          sequences and the sequence of directions
  * `released_dir_stream` `Props.C05.reassembly_exact_partial` inside a connection, stated for the byte STREAM
  * `exported_of_keys`    same (bytes, direction) release sequence ⇒ same records handed to `OutputBuilder` (direction,
                          plaintext), both exports exist, same two reassembled payload streams
  * `genKeys_of_installed` `Pipeline.genKeys … kl` reads the key log only through what `Keylog.installed12 .firstMaster` /
                          `Keylog.installed13` say for the client random it is called with
-/
import TLX.Lemmas.SessionCarriers
import TLX.Props.C01Capstone2
import TLX.Props.C01File
import TLX.Lemmas.ExportProps
import TLX.Lemmas.C01Rfc
set_option autoImplicit false
set_option linter.unusedSimpArgs false
namespace TLX.Lemmas.ExportSeg
open TLX TLX.Reassembly TLX.Lemmas.Capstone TLX.Lemmas.Pipeline TLX.Spec.TlsFraming TLX.Props.C01Pipeline

/-! ### the release order -/

theorem ops_rawOnly (H : Crypto.Prims) (P : Cipher.Prims) (kl : List Keylog.Key) :
    Session.RawOnly (Pipeline.ops H P kl) := fun _ _ _ => rfl

theorem keys_of_dirs (M1 M2 : List (Session.Rec × Bool)) (hord : M1.map (·.2) = M2.map (·.2))
    (hdir : ∀ d, (M1.filter fun q => q.2 == d).map (·.1.raw) = (M2.filter fun q => q.2 == d).map (·.1.raw)) :
    Session.keys M1 = Session.keys M2 := by
  induction M1 generalizing M2 with
  | nil =>
    cases M2 with
    | nil => rfl
    | cons _ _ => simp at hord
  | cons x t ih =>
    cases M2 with
    | nil => simp at hord
    | cons y t' =>
      obtain ⟨r, d⟩ := x
      obtain ⟨r', d'⟩ := y
      simp only [List.map_cons, List.cons.injEq] at hord
      obtain ⟨hd, hord'⟩ := hord
      have hd : d = d' := hd
      subst hd
      have h1 := hdir d
      rw [filter_dir_cons_same, filter_dir_cons_same, List.map_cons, List.map_cons] at h1
      simp only [List.cons.injEq] at h1
      have hrest : ∀ e, (t.filter fun q => q.2 == e).map (·.1.raw) = (t'.filter fun q => q.2 == e).map (·.1.raw) := by
        intro e
        by_cases he : e = d
        · subst he; exact h1.2
        · have := hdir e
          rw [filter_dir_cons_other _ _ _ _ he, filter_dir_cons_other _ _ _ _ he] at this
          exact this
      have := ih t' hord' hrest
      simp only [Session.keys, List.map_cons, List.cons.injEq] at this ⊢
      refine ⟨?_, this⟩
      have hr : r.raw = r'.raw := h1.1
      simp only [Session.Rec.erase, hr]

/-- `Props.C05.reassembly_exact_partial` inside a connection: the records released for direction `d` are the records of
    the byte stream that direction's endpoint sent -/
theorem released_dir_stream (info : Nat → Pipeline.Info) (server : MainLoop.Endpoint)
    (pkts : List MainLoop.Pkt) (d : Bool) (k isn : Nat) (str : Bytes) (hw : WholeRecords str)
    (hd : Delivers k isn str ((dirSegs info server d pkts).map Props.C05.wire))
    (hlen : str.length ≤ 2 ^ 31) (hearly : Props.C05.NoEarlyDelivery isn (dirSegs info server d pkts)) :
    ((released info server (St.init, St.init) pkts).filter fun r => r.2 == d).map (·.1.raw) = frame str := by
  have hne : ∀ p ∈ dirSegs info server d pkts, p.data ≠ [] := by
    obtain ⟨chunks, hcut, hmem⟩ := Lemmas.Delivery.delivers_mem hd
    intro p hp
    have := (hmem (Props.C05.wire p)).mp (List.mem_map_of_mem hp)
    rw [Lemmas.Delivery.segsOf_eq_offs] at this
    obtain ⟨x, hx, hxe⟩ := List.mem_map.mp this
    simp only [Props.C05.wire, Prod.mk.injEq] at hxe
    rw [← hxe.2]
    exact hcut.1 _ (Lemmas.ReasmSort.offs_bounds _ _ _ hx).2.2
  have h1 := Props.C05.reassembly_exact_partial k isn str (dirSegs info server d pkts) hd hw hlen hearly
  rw [run_eq_outs _ hne] at h1
  have h2 := released_filter info server (St.init, St.init) pkts d
  have h3 : (if d then (St.init, St.init).2 else (St.init, St.init).1) = St.init := by cases d <;> rfl
  rw [h3] at h2
  rw [← h1, ← h2, List.map_map]
  rfl

/-! ### what the session hands to `OutputBuilder` -/

/-- `application_traffic` as `OutputBuilder` reads it, without the carriers: (direction, bytes to export) per record -/
def exportedRecs (H : Crypto.Prims) (P : Cipher.Prims) (info : Nat → Pipeline.Info) (c : Pipeline.Conn)
    (kl : List Keylog.Key) : List (Bool × Bytes) :=
  (Session.run (Pipeline.ops H P kl) c.opts.metadata Session.St.init (connRecs info c)).traffic.map fun e =>
    (e.fromServer, e.data.getD TcpOut.placeholder)

theorem dirBytes_traffic (d : Bool) (ts : Nat → Nat) (tr : List Session.Entry) :
    Props.C06.dirBytes d (tr.map (toRec ts)) =
      ((tr.map fun e => (e.fromServer, e.data.getD TcpOut.placeholder)).filter fun x => x.1 == d).flatMap (·.2) := by
  induction tr with
  | nil => rfl
  | cons e rest ih =>
    simp only [Props.C06.dirBytes, List.map_cons, List.filter_cons, toRec] at ih ⊢
    by_cases h : (e.fromServer == d) = true
    · simp only [h, if_true, List.flatMap_cons, ih]; rfl
    · simp only [h, if_false, ih]; exact ih

/-- **Same records released in the same order ⇒ same export up to frame boundaries and times.** -/
theorem exported_of_keys (H : Crypto.Prims) (P : Cipher.Prims) (kl : List Keylog.Key)
    (info1 info2 : Nat → Pipeline.Info) (c1 c2 : Pipeline.Conn) (hm : c1.opts.metadata = c2.opts.metadata)
    (hk : Session.keys (connRecs info1 c1) = Session.keys (connRecs info2 c2)) :
    exportedRecs H P info1 c1 kl = exportedRecs H P info2 c2 kl ∧
    ∃ f1 f2 pc ps, Pipeline.connOut H P info1 c1 kl = some (f1.map (Pipeline.addressed c1.opts c1)) ∧
      Pipeline.connOut H P info2 c2 kl = some (f2.map (Pipeline.addressed c2.opts c2)) ∧
      Spec.reassemble f1 = some (pc, ps) ∧ Spec.reassemble f2 = some (pc, ps) := by
  have he := Session.run_carriers (Pipeline.ops H P kl) (ops_rawOnly H P kl) c1.opts.metadata _ _ hk
  have htr := congrArg (·.traffic) he
  simp only [Session.St.erase] at htr
  have hx : exportedRecs H P info1 c1 kl = exportedRecs H P info2 c2 kl := by
    unfold exportedRecs
    rw [← hm]
    have g : ∀ l : List Session.Entry, (l.map fun e => (e.fromServer, e.data.getD TcpOut.placeholder)) =
        (l.map Session.Entry.erase).map fun e => (e.fromServer, e.data.getD TcpOut.placeholder) := by
      intro l; rw [List.map_map]; rfl
    rw [g, htr, ← g]
  refine ⟨hx, ?_⟩
  have s1 := (connOut_never_raises H P info1 c1 kl).2.2
  have s2 := (connOut_never_raises H P info2 c2 kl).2.2
  rw [connOut_eq] at s1 s2 ⊢
  rw [connOut_eq]
  rw [Option.isSome_map] at s1 s2
  obtain ⟨f1, h1⟩ := Option.isSome_iff_exists.mp s1
  obtain ⟨f2, h2⟩ := Option.isSome_iff_exists.mp s2
  have r1 := Props.C06.reassemble_build _ _ h1
  have r2 := Props.C06.reassemble_build _ _ h2
  refine ⟨f1, f2, _, _, by rw [h1]; rfl, by rw [h2]; rfl, r1, ?_⟩
  rw [r2, dirBytes_traffic, dirBytes_traffic, dirBytes_traffic, dirBytes_traffic]
  unfold exportedRecs at hx
  rw [hx]

/-! ### C09: `generate_keys` reads the key log through `Keylog.installed12 .firstMaster` / `Keylog.installed13` only -/

section C09
open TLX.Keylog TLX.Lemmas.KeySchedule TLX.Lemmas.C01Rfc

/-- the key-log lines `generate_keys` looks at -/
def foundOf (kl : List Key) (v : Option Session.Ver) (cr : Bytes) : List Key :=
  if v = some .tls13 then findSessionSecrets kl (Pipeline.natsOfBytes cr)
  else (findSessionSecrets kl (Pipeline.natsOfBytes cr)).filter fun k => k.label == s_CLIENT_RANDOM || k.label == s_RSA

/-- `generate_keys` after the suite has resolved and the lines have been looked up (verbatim the tail of `Pipeline.genKeys`) -/
def inner (H : Crypto.Prims) (P : Cipher.Prims) (v : Option Session.Ver) (a : Pipeline.SuiteArgs) (cr sr : Bytes)
    (exts : Session.Exts) (comp : UInt8) (found : List Key) : Session.Gen RecordLayer.Dec :=
  match found with
  | [] => .noSecrets
  | _ =>
    match v with
    | none => .raised
    | some v =>
      if comp ≠ 0 then .raised else
      match Pipeline.secretsOf (v = .tls13) found with
      | none => .raised
      | some secrets =>
        match KeySchedule.generateKeys H (Pipeline.ksVersion v) a.ks secrets cr sr with
        | .error _ => .raised
        | .ok none => .noSecrets
        | .ok (some inst) =>
          let macLen := (KeySchedule.macSuite H a.ks.mac).outLen
          let etm := (Session.extGet exts [0x00, 0x16]).isSome
          match RecordLayer.Dec.init P a.bulk (Pipeline.rlVersion v) macLen a.tagLen (Pipeline.blockBits a.bulk) etm
                  (Pipeline.keysOfInstalled inst) with
          | .error _ => .raised
          | .ok d => .installed d

theorem genKeys_inner (H : Crypto.Prims) (P : Cipher.Prims) (kl : List Key) (v : Option Session.Ver) (suite cr sr : Bytes)
    (exts : Session.Exts) (comp : UInt8) :
    Pipeline.genKeys H P kl v suite cr sr exts comp =
      match (if suite.length = 2 then CipherSuite.resolve (Bytes.beNat suite) else none) with
      | none => .noSuite
      | some ps =>
        match Pipeline.suiteArgs ps with
        | none => .raised
        | some a => inner H P v a cr sr exts comp (foundOf kl v cr) := rfl

theorem generateKeys_head (H : Crypto.Prims) (v : KeySchedule.Version) (hv : v ≠ .tls13) (s : KeySchedule.Suite)
    (x : KeySchedule.Secret) (t t' : List KeySchedule.Secret) (cr sr : Bytes) :
    KeySchedule.generateKeys H v s (x :: t) cr sr = KeySchedule.generateKeys H v s (x :: t') cr sr := by
  cases v <;> first | rfl | exact absurd rfl hv

theorem devTls13Keys_congr (h : Crypto.HashSuite) (ss1 ss2 : List KeySchedule.Secret) (n : Nat)
    (e1 : lastOf .clientHandshake ss1 = lastOf .clientHandshake ss2)
    (e2 : lastOf .serverHandshake ss1 = lastOf .serverHandshake ss2)
    (e3 : lastOf .clientTraffic0 ss1 = lastOf .clientTraffic0 ss2)
    (e4 : lastOf .serverTraffic0 ss1 = lastOf .serverTraffic0 ss2) :
    KeySchedule.devTls13Keys h ss1 n = KeySchedule.devTls13Keys h ss2 n := by
  unfold KeySchedule.devTls13Keys
  cases KeySchedule.toBytes2 n with
  | error e => rfl
  | ok kl =>
    simp only [bind, Except.bind]
    have h0 : ∀ ki ii : Bytes, ({} : KeySchedule.Tls13Acc) =
        acc13 (fun s => h.hkdfExpand s ki n) (fun s => h.hkdfExpand s ii 12) none none none none := fun _ _ => rfl
    rw [h0, tls13_fold, tls13_fold]
    unfold lastOf at e1 e2 e3 e4
    rw [e1, e2, e3, e4]

theorem generateKeys13_congr (H : Crypto.Prims) (s : KeySchedule.Suite) (ss1 ss2 : List KeySchedule.Secret) (cr sr : Bytes)
    (hn1 : ss1 ≠ []) (hn2 : ss2 ≠ [])
    (e1 : lastOf .clientHandshake ss1 = lastOf .clientHandshake ss2)
    (e2 : lastOf .serverHandshake ss1 = lastOf .serverHandshake ss2)
    (e3 : lastOf .clientTraffic0 ss1 = lastOf .clientTraffic0 ss2)
    (e4 : lastOf .serverTraffic0 ss1 = lastOf .serverTraffic0 ss2) :
    KeySchedule.generateKeys H .tls13 s ss1 cr sr = KeySchedule.generateKeys H .tls13 s ss2 cr sr := by
  cases ss1 with
  | nil => exact absurd rfl hn1
  | cons x1 t1 =>
    cases ss2 with
    | nil => exact absurd rfl hn2
    | cons x2 t2 =>
      simp only [KeySchedule.generateKeys]
      rw [devTls13Keys_congr _ _ _ _ e1 e2 e3 e4]

/-! the TLS 1.3 loop of the key schedule (`lastOf` over `secretsOf true`) and of the key-log model (`scan labels13`) -/

theorem mapM_sec13_cons (k : Key) (ks : List Key) :
    (k :: ks).mapM sec13 = (sec13 k).bind fun b => (ks.mapM sec13).map fun bs => b :: bs := by
  rw [List.mapM_cons]
  cases sec13 k with
  | none => rfl
  | some b => cases ks.mapM sec13 <;> rfl

theorem scan_none_iff (ks : List Key) (st : Str → Option (List Nat)) :
    scan labels13 ks st = none ↔ ks.mapM sec13 = none := by
  induction ks generalizing st with
  | nil => simp [scan]
  | cons k ks ih =>
    rw [mapM_sec13_cons]
    unfold scan sec13
    by_cases hc : labels13.contains k.label = true
    · simp only [hc, if_true]
      cases fromHex k.value with
      | none => simp
      | some b => simp only [Option.map_some, Option.bind_some, Option.map_eq_none_iff]; exact ih _
    · simp only [hc, Bool.false_eq_true, if_false, Option.bind_some, Option.map_eq_none_iff]; exact ih _

theorem labelOf_ne_other (L : Str) (hL : L ∈ labels13) : Pipeline.labelOf L ≠ .other := by
  simp only [labels13, List.mem_cons, List.mem_nil_iff, or_false] at hL
  rcases hL with rfl | rfl | rfl | rfl <;> decide

/-- per label of `labels13`: the last secret the key schedule sees = the secret the key-log scan ends with -/
theorem scan_lastOf (ks : List Key) (st st' : Str → Option (List Nat)) (ss : List KeySchedule.Secret)
    (hm : ks.mapM sec13 = some ss) (hs : scan labels13 ks st = some st') (L : Str) (hL : L ∈ labels13)
    (acc : Option Bytes) (hacc : acc = (st L).map Pipeline.bytesOfNats) :
    ss.foldl (pick (Pipeline.labelOf L)) acc = (st' L).map Pipeline.bytesOfNats := by
  induction ks generalizing st ss acc with
  | nil =>
    simp only [List.mapM_nil, pure, Option.some.injEq] at hm
    simp only [scan, Option.some.injEq] at hs
    subst hm; subst hs
    exact hacc
  | cons k ks ih =>
    rw [mapM_sec13_cons] at hm
    unfold scan at hs
    have hk : sec13 k = if labels13.contains k.label then
        (fromHex k.value).map fun v => (Pipeline.labelOf k.label, Pipeline.bytesOfNats v)
      else some (.other, []) := rfl
    rw [hk] at hm
    by_cases hc : labels13.contains k.label = true
    · simp only [hc, if_true] at hm hs
      cases hx : fromHex k.value with
      | none => rw [hx] at hs; cases hs
      | some b =>
        rw [hx] at hm hs
        simp only [Option.map_some, Option.bind_some] at hm hs
        cases hks : ks.mapM sec13 with
        | none => rw [hks] at hm; cases hm
        | some bs =>
          rw [hks] at hm
          simp only [Option.map_some, Option.some.injEq] at hm
          subst hm
          simp only [List.foldl_cons]
          refine ih _ bs hks hs _ ?_
          by_cases e : L = k.label
          · subst e; simp [pick]
          · have : Pipeline.labelOf k.label ≠ Pipeline.labelOf L := by
              intro h
              exact e (labelOf_inj13 k.label (by simpa using hc) L (by simpa using hL) h.symm)
            simp [pick, this, e, hacc]
    · simp only [hc, Bool.false_eq_true, if_false, Option.bind_some] at hm hs
      cases hks : ks.mapM sec13 with
      | none => rw [hks] at hm; cases hm
      | some bs =>
        rw [hks] at hm
        simp only [Option.map_some, Option.some.injEq] at hm
        subst hm
        simp only [List.foldl_cons]
        refine ih _ bs hks hs _ ?_
        have := labelOf_ne_other L hL
        simp [pick, Ne.symm this, hacc]

theorem mapM_ne_nil (k : Key) (ks : List Key) (ss : List KeySchedule.Secret) (h : (k :: ks).mapM sec13 = some ss) :
    ss ≠ [] := by
  rw [mapM_sec13_cons] at h
  cases hk : sec13 k with
  | none => rw [hk] at h; cases h
  | some b =>
    rw [hk] at h
    cases hks : ks.mapM sec13 with
    | none => rw [hks] at h; cases h
    | some bs => rw [hks] at h; simp at h; subst h; simp

/-- **TLS 1.3**: the tail of `generate_keys` depends on the lines found only through `installed13` -/
theorem inner_congr13 (H : Crypto.Prims) (P : Cipher.Prims) (a : Pipeline.SuiteArgs) (cr sr : Bytes)
    (exts : Session.Exts) (comp : UInt8) (kl1 kl2 : List Key)
    (h : installed13 kl1 (Pipeline.natsOfBytes cr) = installed13 kl2 (Pipeline.natsOfBytes cr)) :
    inner H P (some .tls13) a cr sr exts comp (foundOf kl1 (some .tls13) cr) =
      inner H P (some .tls13) a cr sr exts comp (foundOf kl2 (some .tls13) cr) := by
  unfold installed13 at h
  simp only [foundOf, if_true]
  generalize findSessionSecrets kl1 (Pipeline.natsOfBytes cr) = f1 at *
  generalize findSessionSecrets kl2 (Pipeline.natsOfBytes cr) = f2 at *
  have hbad : ∀ (k : Key) (r : List Key), (match scan labels13 (k :: r) fun _ => none with
      | none => Res.valueError
      | some st => Res.ok (labels13.map st)) ≠ (Res.missing : Res (List (Option (List Nat)))) := by
    intro k r; cases scan labels13 (k :: r) fun _ => none <;> (intro hh; cases hh)
  cases f1 with
  | nil =>
    cases f2 with
    | nil => rfl
    | cons k r => exact absurd h.symm (hbad k r)
  | cons k1 r1 =>
    cases f2 with
    | nil => exact absurd h (hbad k1 r1)
    | cons k2 r2 =>
      simp only at h
      simp only [inner, decide_true, secretsOf_true]
      by_cases hcomp : comp ≠ 0
      · rw [if_pos hcomp, if_pos hcomp]
      · rw [if_neg hcomp, if_neg hcomp]
        cases hs1 : scan labels13 (k1 :: r1) fun _ => none with
        | none =>
          cases hs2 : scan labels13 (k2 :: r2) fun _ => none with
          | none =>
            rw [(scan_none_iff _ _).mp hs1, (scan_none_iff _ _).mp hs2]
          | some st2 => rw [hs1, hs2] at h; cases h
        | some st1 =>
          cases hs2 : scan labels13 (k2 :: r2) fun _ => none with
          | none => rw [hs1, hs2] at h; cases h
          | some st2 =>
            rw [hs1, hs2] at h
            simp only [Res.ok.injEq, labels13, List.map_cons, List.map_nil, List.cons.injEq, and_true] at h
            obtain ⟨q1, q2, q3, q4⟩ := h
            cases hm1 : (k1 :: r1).mapM sec13 with
            | none => exact absurd ((scan_none_iff _ _).mpr hm1) (by rw [hs1]; simp)
            | some ss1 =>
              cases hm2 : (k2 :: r2).mapM sec13 with
              | none => exact absurd ((scan_none_iff _ _).mpr hm2) (by rw [hs2]; simp)
              | some ss2 =>
                simp only
                have key : ∀ L, L ∈ labels13 → st1 L = st2 L →
                    lastOf (Pipeline.labelOf L) ss1 = lastOf (Pipeline.labelOf L) ss2 := by
                  intro L hL e
                  unfold lastOf
                  rw [scan_lastOf _ _ _ _ hm1 hs1 L hL none rfl, scan_lastOf _ _ _ _ hm2 hs2 L hL none rfl, e]
                have g := generateKeys13_congr H a.ks ss1 ss2 cr sr (mapM_ne_nil _ _ _ hm1) (mapM_ne_nil _ _ _ hm2)
                  (key s_CHTS (by simp [labels13]) q1) (key s_SHTS (by simp [labels13]) q2)
                  (key s_CTS0 (by simp [labels13]) q3) (key s_STS0 (by simp [labels13]) q4)
                show (match KeySchedule.generateKeys H .tls13 a.ks ss1 cr sr with | .error _ => _ | .ok none => _ | .ok (some inst) => _) = _
                rw [g]
                rfl

end C09

end TLX.Lemmas.ExportSeg
