/-
Helpers for `Props/ExportSeg.lean` (C05 and C09 at the level of a whole connection / a whole run).

  * `keys_of_dirs`        the (record bytes, direction) sequence of a release order is determined by the per-direction record
                          sequences and the sequence of directions
  * `released_dir_stream` `Props.C05.reassembly_exact_partial` inside a connection, stated for the byte STREAM
  * `exported_of_keys`    same (bytes, direction) release sequence ⇒ same records handed to `OutputBuilder` (direction,
                          plaintext), both exports exist, same two reassembled payload streams
  * `genKeys_of_installed` `Pipeline.genKeys … kl` reads the key log only through what `Keylog.installed12 .firstMaster` /
                          `Keylog.installed13` say for the client random it is called with
-/
import TLX.Lemmas.SessionCarriers
import TLX.Props.C01Capstone2
import TLX.Props.C01File
import TLX.Lemmas.ExportProps
set_option autoImplicit false
set_option linter.unusedSimpArgs false
namespace TLX.Lemmas.ExportSeg
open TLX TLX.Reassembly TLX.Lemmas.Capstone TLX.Lemmas.Pipeline TLX.Spec.TlsFraming TLX.Props.C01Pipeline

/-! ### the release order -/

theorem ops_rawOnly (H : Crypto.Prims) (P : Cipher.Prims) (kl : List Keylog.Key) :
    Session.RawOnly (Pipeline.ops H P kl) := fun _ _ _ => rfl

theorem keys_of_dirs (M1 M2 : List (Session.Rec × Bool)) (hord : M1.map (·.2) = M2.map (·.2))
    (hdir : ∀ d, (M1.filter fun q => q.2 == d).map (·.1.raw) = (M2.filter fun q => q.2 == d).map (·.1.raw)) :
    Session.keys M1 = Session.keys M2 := by
  induction M1 generalizing M2 with
  | nil =>
    cases M2 with
    | nil => rfl
    | cons _ _ => simp at hord
  | cons x t ih =>
    cases M2 with
    | nil => simp at hord
    | cons y t' =>
      obtain ⟨r, d⟩ := x
      obtain ⟨r', d'⟩ := y
      simp only [List.map_cons, List.cons.injEq] at hord
      obtain ⟨hd, hord'⟩ := hord
      have hd : d = d' := hd
      subst hd
      have h1 := hdir d
      rw [filter_dir_cons_same, filter_dir_cons_same, List.map_cons, List.map_cons] at h1
      simp only [List.cons.injEq] at h1
      have hrest : ∀ e, (t.filter fun q => q.2 == e).map (·.1.raw) = (t'.filter fun q => q.2 == e).map (·.1.raw) := by
        intro e
        by_cases he : e = d
        · subst he; exact h1.2
        · have := hdir e
          rw [filter_dir_cons_other _ _ _ _ he, filter_dir_cons_other _ _ _ _ he] at this
          exact this
      have := ih t' hord' hrest
      simp only [Session.keys, List.map_cons, List.cons.injEq] at this ⊢
      refine ⟨?_, this⟩
      have hr : r.raw = r'.raw := h1.1
      simp only [Session.Rec.erase, hr]

/-- `Props.C05.reassembly_exact_partial` inside a connection: the records released for direction `d` are the records of
    the byte stream that direction's endpoint sent -/
theorem released_dir_stream (info : Nat → Pipeline.Info) (server : MainLoop.Endpoint)
    (pkts : List MainLoop.Pkt) (d : Bool) (k isn : Nat) (str : Bytes) (hw : WholeRecords str)
    (hd : Delivers k isn str ((dirSegs info server d pkts).map Props.C05.wire))
    (hlen : str.length ≤ 2 ^ 31) (hearly : Props.C05.NoEarlyDelivery isn (dirSegs info server d pkts)) :
    ((released info server (St.init, St.init) pkts).filter fun r => r.2 == d).map (·.1.raw) = frame str := by
  have hne : ∀ p ∈ dirSegs info server d pkts, p.data ≠ [] := by
    obtain ⟨chunks, hcut, hmem⟩ := Lemmas.Delivery.delivers_mem hd
    intro p hp
    have := (hmem (Props.C05.wire p)).mp (List.mem_map_of_mem hp)
    rw [Lemmas.Delivery.segsOf_eq_offs] at this
    obtain ⟨x, hx, hxe⟩ := List.mem_map.mp this
    simp only [Props.C05.wire, Prod.mk.injEq] at hxe
    rw [← hxe.2]
    exact hcut.1 _ (Lemmas.ReasmSort.offs_bounds _ _ _ hx).2.2
  have h1 := Props.C05.reassembly_exact_partial k isn str (dirSegs info server d pkts) hd hw hlen hearly
  rw [run_eq_outs _ hne] at h1
  have h2 := released_filter info server (St.init, St.init) pkts d
  have h3 : (if d then (St.init, St.init).2 else (St.init, St.init).1) = St.init := by cases d <;> rfl
  rw [h3] at h2
  rw [← h1, ← h2, List.map_map]
  rfl

/-! ### what the session hands to `OutputBuilder` -/

/-- `application_traffic` as `OutputBuilder` reads it, without the carriers: (direction, bytes to export) per record -/
def exportedRecs (H : Crypto.Prims) (P : Cipher.Prims) (info : Nat → Pipeline.Info) (c : Pipeline.Conn)
    (kl : List Keylog.Key) : List (Bool × Bytes) :=
  (Session.run (Pipeline.ops H P kl) c.opts.metadata Session.St.init (connRecs info c)).traffic.map fun e =>
    (e.fromServer, e.data.getD TcpOut.placeholder)

theorem dirBytes_traffic (d : Bool) (ts : Nat → Nat) (tr : List Session.Entry) :
    Props.C06.dirBytes d (tr.map (toRec ts)) =
      ((tr.map fun e => (e.fromServer, e.data.getD TcpOut.placeholder)).filter fun x => x.1 == d).flatMap (·.2) := by
  induction tr with
  | nil => rfl
  | cons e rest ih =>
    simp only [Props.C06.dirBytes, List.map_cons, List.filter_cons, toRec] at ih ⊢
    by_cases h : (e.fromServer == d) = true
    · simp only [h, if_true, List.flatMap_cons, ih]; rfl
    · simp only [h, if_false, ih]; exact ih

/-- **Same records released in the same order ⇒ same export up to frame boundaries and times.** -/
theorem exported_of_keys (H : Crypto.Prims) (P : Cipher.Prims) (kl : List Keylog.Key)
    (info1 info2 : Nat → Pipeline.Info) (c1 c2 : Pipeline.Conn) (hm : c1.opts.metadata = c2.opts.metadata)
    (hk : Session.keys (connRecs info1 c1) = Session.keys (connRecs info2 c2)) :
    exportedRecs H P info1 c1 kl = exportedRecs H P info2 c2 kl ∧
    ∃ f1 f2 pc ps, Pipeline.connOut H P info1 c1 kl = some (f1.map (Pipeline.addressed c1.opts c1)) ∧
      Pipeline.connOut H P info2 c2 kl = some (f2.map (Pipeline.addressed c2.opts c2)) ∧
      Spec.reassemble f1 = some (pc, ps) ∧ Spec.reassemble f2 = some (pc, ps) := by
  have he := Session.run_carriers (Pipeline.ops H P kl) (ops_rawOnly H P kl) c1.opts.metadata _ _ hk
  have htr := congrArg (·.traffic) he
  simp only [Session.St.erase] at htr
  have hx : exportedRecs H P info1 c1 kl = exportedRecs H P info2 c2 kl := by
    unfold exportedRecs
    rw [← hm]
    have g : ∀ l : List Session.Entry, (l.map fun e => (e.fromServer, e.data.getD TcpOut.placeholder)) =
        (l.map Session.Entry.erase).map fun e => (e.fromServer, e.data.getD TcpOut.placeholder) := by
      intro l; rw [List.map_map]; rfl
    rw [g, htr, ← g]
  refine ⟨hx, ?_⟩
  have s1 := (connOut_never_raises H P info1 c1 kl).2.2
  have s2 := (connOut_never_raises H P info2 c2 kl).2.2
  rw [connOut_eq] at s1 s2 ⊢
  rw [connOut_eq]
  rw [Option.isSome_map] at s1 s2
  obtain ⟨f1, h1⟩ := Option.isSome_iff_exists.mp s1
  obtain ⟨f2, h2⟩ := Option.isSome_iff_exists.mp s2
  have r1 := Props.C06.reassemble_build _ _ h1
  have r2 := Props.C06.reassemble_build _ _ h2
  refine ⟨f1, f2, _, _, by rw [h1]; rfl, by rw [h2]; rfl, r1, ?_⟩
  rw [r2, dirBytes_traffic, dirBytes_traffic, dirBytes_traffic, dirBytes_traffic]
  unfold exportedRecs at hx
  rw [hx]

end TLX.Lemmas.ExportSeg
