/-
Bounds on the frames `OutputBuilder.build` (`TcpOut.build`) produces — what the write loop needs of them (C06/C01 file level):
sequence and acknowledgment numbers are 1 + the bytes exported so far in a direction, every payload is a part of one record's
bytes, every flag byte is SYN / SYN|ACK / ACK / PSH|ACK, every time is a carrier time of a record. Core Lean only.
-/
import TLX.Props.C06
namespace TLX.Lemmas.BuildBounds
open TLX TLX.TcpOut TLX.Props.C06

/-- what holds of every frame of a builder run that ends with running sequence numbers ≤ `B`, records of at most `M` bytes
    and carrier times satisfying `T` -/
structure FrameOk (B M : Nat) (T : Nat → Prop) (f : Frame) : Prop where
  seq : f.seq ≤ B
  ack : f.ack ≤ B
  len : f.payload.length ≤ M
  flags : f.flags = 0x02 ∨ f.flags = 0x12 ∨ f.flags = 0x10 ∨ f.flags = 0x18
  ts : T f.ts

theorem partFrames_ok (B M : Nat) (T : Nat → Prop) (q : Seqs) (srv : Bool) (p : Bytes) (t : Nat)
    (hp : p.length ≤ M) (ht : T t) (h1 : (partFrames q srv p t).1.1 ≤ B) (h2 : (partFrames q srv p t).1.2 ≤ B) :
    q.1 ≤ (partFrames q srv p t).1.1 ∧ q.2 ≤ (partFrames q srv p t).1.2 ∧
      ∀ f ∈ (partFrames q srv p t).2, FrameOk B M T f := by
  unfold partFrames at *
  cases srv <;> simp only [Bool.false_eq_true, if_false, if_true] at h1 h2 ⊢
  · refine ⟨by omega, by omega, ?_⟩
    intro f hf
    simp only [List.mem_cons, List.mem_nil_iff, or_false] at hf
    rcases hf with rfl | rfl
    · exact ⟨by simp; omega, by simp; omega, hp, by simp, ht⟩
    · exact ⟨by simp; omega, by simp; omega, by simp, by simp, ht⟩
  · refine ⟨by omega, by omega, ?_⟩
    intro f hf
    simp only [List.mem_cons, List.mem_nil_iff, or_false] at hf
    rcases hf with rfl | rfl
    · exact ⟨by simp; omega, by simp; omega, hp, by simp, ht⟩
    · exact ⟨by simp; omega, by simp; omega, by simp, by simp, ht⟩

theorem FrameOk.mono {B B' M : Nat} {T : Nat → Prop} {f : Frame} (h : FrameOk B M T f) (hb : B ≤ B') : FrameOk B' M T f :=
  ⟨Nat.le_trans h.seq hb, Nat.le_trans h.ack hb, h.len, h.flags, h.ts⟩

theorem partFrames_mono (q : Seqs) (srv : Bool) (p : Bytes) (t : Nat) :
    q.1 ≤ (partFrames q srv p t).1.1 ∧ q.2 ≤ (partFrames q srv p t).1.2 := by
  unfold partFrames; cases srv <;> simp

theorem partsFrames_ok (B M : Nat) (T : Nat → Prop) (srv : Bool) (ps : List Bytes) (ts : List Nat) (q : Seqs)
    (hp : ∀ p ∈ ps, p.length ≤ M) (ht : ∀ t ∈ ts, T t)
    (h1 : (partsFrames q srv ps ts).1.1 ≤ B) (h2 : (partsFrames q srv ps ts).1.2 ≤ B) :
    q.1 ≤ (partsFrames q srv ps ts).1.1 ∧ q.2 ≤ (partsFrames q srv ps ts).1.2 ∧
      ∀ f ∈ (partsFrames q srv ps ts).2, FrameOk B M T f := by
  induction ps generalizing ts q with
  | nil => simp [partsFrames]
  | cons p rest ih =>
    cases ts with
    | nil => simp [partsFrames]
    | cons t tl =>
      simp only [partsFrames] at h1 h2 ⊢
      obtain ⟨i1, i2, i3⟩ := ih tl (partFrames q srv p t).1 (fun x hx => hp x (by simp [hx]))
        (fun x hx => ht x (by simp [hx])) h1 h2
      obtain ⟨m1, m2⟩ := partFrames_mono q srv p t
      obtain ⟨_, _, j3⟩ := partFrames_ok B M T q srv p t (hp p (by simp)) (ht t (by simp)) (by omega) (by omega)
      refine ⟨by omega, by omega, ?_⟩
      intro f hf
      rcases List.mem_append.mp hf with hf | hf
      · exact j3 f hf
      · exact i3 f hf

theorem mem_flatten_length {α : Type} (ps : List (List α)) (p : List α) (h : p ∈ ps) : p.length ≤ ps.flatten.length := by
  induction ps with
  | nil => cases h
  | cons x xs ih =>
    simp only [List.flatten_cons, List.length_append]
    rcases List.mem_cons.mp h with rfl | h
    · omega
    · have := ih h; omega

theorem recFrames_ok (B M : Nat) (T : Nat → Prop) (q : Seqs) (r : Rec) (q' : Seqs) (fs : List Frame)
    (h : recFrames q r = some (q', fs)) (hr : r.bytes.length ≤ M) (ht : ∀ t ∈ r.ts, T t) (h1 : q'.1 ≤ B) (h2 : q'.2 ≤ B) :
    q.1 ≤ q'.1 ∧ q.2 ≤ q'.2 ∧ ∀ f ∈ fs, FrameOk B M T f := by
  unfold recFrames at h
  cases hp : parts r.bytes r.ts.length with
  | none => rw [hp] at h; cases h
  | some ps =>
    rw [hp] at h
    simp only [Option.map_some, Option.some.injEq] at h
    have hfl := parts_flatten _ _ _ hp
    have hlen : ∀ p ∈ ps, p.length ≤ M := fun p hpm => by
      have := mem_flatten_length ps p hpm
      rw [hfl] at this; omega
    have := partsFrames_ok B M T r.fromServer ps r.ts q hlen ht (by rw [h]; exact h1) (by rw [h]; exact h2)
    rw [h] at this
    exact this

theorem bodyFrames_ok (B M : Nat) (T : Nat → Prop) (recs : List Rec) (q q' : Seqs) (fs : List Frame)
    (h : bodyFrames q recs = some (q', fs)) (hr : ∀ r ∈ recs, r.bytes.length ≤ M) (ht : ∀ r ∈ recs, ∀ t ∈ r.ts, T t)
    (h1 : q'.1 ≤ B) (h2 : q'.2 ≤ B) :
    q.1 ≤ q'.1 ∧ q.2 ≤ q'.2 ∧ ∀ f ∈ fs, FrameOk B M T f := by
  induction recs generalizing q q' fs with
  | nil =>
    simp only [bodyFrames, Option.some.injEq, Prod.mk.injEq] at h
    obtain ⟨rfl, rfl⟩ := h
    exact ⟨Nat.le_refl _, Nat.le_refl _, fun f hf => by cases hf⟩
  | cons r rest ih =>
    simp only [bodyFrames] at h
    cases h1r : recFrames q r with
    | none => rw [h1r] at h; cases h
    | some v =>
      obtain ⟨qm, f1⟩ := v
      rw [h1r] at h
      simp only [Option.bind_some] at h
      cases h2r : bodyFrames qm rest with
      | none => rw [h2r] at h; cases h
      | some w =>
        obtain ⟨qe, f2⟩ := w
        rw [h2r] at h
        simp only [Option.map_some, Option.some.injEq, Prod.mk.injEq] at h
        obtain ⟨rfl, rfl⟩ := h
        obtain ⟨a1, a2, a3⟩ := ih qm qe f2 h2r (fun x hx => hr x (by simp [hx])) (fun x hx => ht x (by simp [hx])) h1 h2
        obtain ⟨b1, b2, b3⟩ := recFrames_ok B M T q r qm f1 h1r (hr r (by simp)) (ht r (by simp)) (by omega) (by omega)
        refine ⟨by omega, by omega, ?_⟩
        intro f hf
        rcases List.mem_append.mp hf with hf | hf
        · exact b3 f hf
        · exact a3 f hf

/-- the running sequence numbers at the end: start + the bytes of each direction -/
theorem partsFrames_seqs (srv : Bool) (ps : List Bytes) (ts : List Nat) (q : Seqs) (hl : ps.length ≤ ts.length) :
    (partsFrames q srv ps ts).1 =
      (q.1 + (if srv then 0 else ps.flatten.length), q.2 + (if srv then ps.flatten.length else 0)) := by
  induction ps generalizing ts q with
  | nil => cases srv <;> simp [partsFrames]
  | cons p rest ih =>
    cases ts with
    | nil => simp at hl
    | cons t tl =>
      simp only [partsFrames]
      rw [ih tl _ (by simpa using hl)]
      cases srv <;> simp [partFrames, List.flatten_cons] <;> omega

theorem bodyFrames_seqs (recs : List Rec) (q q' : Seqs) (fs : List Frame) (h : bodyFrames q recs = some (q', fs)) :
    q' = (q.1 + (dirBytes false recs).length, q.2 + (dirBytes true recs).length) := by
  induction recs generalizing q q' fs with
  | nil =>
    simp only [bodyFrames, Option.some.injEq, Prod.mk.injEq] at h
    obtain ⟨rfl, rfl⟩ := h
    simp [dirBytes]
  | cons r rest ih =>
    simp only [bodyFrames] at h
    cases h1r : recFrames q r with
    | none => rw [h1r] at h; cases h
    | some v =>
      obtain ⟨qm, f1⟩ := v
      rw [h1r] at h
      simp only [Option.bind_some] at h
      cases h2r : bodyFrames qm rest with
      | none => rw [h2r] at h; cases h
      | some w =>
        obtain ⟨qe, f2⟩ := w
        rw [h2r] at h
        simp only [Option.map_some, Option.some.injEq, Prod.mk.injEq] at h
        obtain ⟨rfl, rfl⟩ := h
        have hm := ih qm qe f2 h2r
        unfold recFrames at h1r
        cases hp : parts r.bytes r.ts.length with
        | none => rw [hp] at h1r; cases h1r
        | some ps =>
          rw [hp] at h1r
          simp only [Option.map_some, Option.some.injEq] at h1r
          have hs := partsFrames_seqs r.fromServer ps r.ts q (parts_length_le _ _ _ hp)
          rw [h1r, parts_flatten _ _ _ hp] at hs
          simp only at hs
          rw [hm, hs]
          cases hsrv : r.fromServer <;> simp [dirBytes, List.filter_cons, hsrv] <;> omega

/-- **Every frame of `OutputBuilder.build`.** If no record exceeds `M` bytes and each direction exports fewer than `B` bytes
    in all (`1 + bytes ≤ B`), then in every frame: sequence and acknowledgment number ≤ `B` (they are 1 + the bytes sent so
    far), payload ≤ `M` bytes, flags ∈ {SYN, SYN|ACK, ACK, PSH|ACK}, and the time is a carrier time of a record. -/
theorem build_frames_ok (B M : Nat) (T : Nat → Prop) (recs : List Rec) (fs : List Frame) (h : build recs = some fs)
    (hr : ∀ r ∈ recs, r.bytes.length ≤ M) (ht : ∀ r ∈ recs, ∀ t ∈ r.ts, T t)
    (hc : 1 + (dirBytes false recs).length ≤ B) (hs : 1 + (dirBytes true recs).length ≤ B) :
    ∀ f ∈ fs, FrameOk B M T f := by
  unfold build at h
  cases recs with
  | nil => cases h; intro f hf; cases hf
  | cons r rest =>
    simp only at h
    cases hts : r.ts with
    | nil => rw [hts] at h; cases h
    | cons t0 tl =>
      rw [hts] at h
      simp only at h
      cases hb : bodyFrames (1, 1) (r :: rest) with
      | none => rw [hb] at h; cases h
      | some v =>
        obtain ⟨q', body⟩ := v
        rw [hb] at h
        simp only [Option.map_some, Option.some.injEq] at h
        subst h
        have hq := bodyFrames_seqs _ _ _ _ hb
        have ht0 : T t0 := ht r (by simp) t0 (by rw [hts]; simp)
        obtain ⟨_, _, hok⟩ := bodyFrames_ok B M T (r :: rest) (1, 1) q' body hb hr ht (by rw [hq]; exact hc)
          (by rw [hq]; exact hs)
        intro f hf
        rcases List.mem_append.mp hf with hf | hf
        · simp only [handshake, List.mem_cons, List.mem_nil_iff, or_false] at hf
          rcases hf with rfl | rfl | rfl
          · exact ⟨by simp, by simp, by simp, by simp, ht0⟩
          · exact ⟨by simp, by simp; omega, by simp, by simp, ht0⟩
          · exact ⟨by simp; omega, by simp; omega, by simp, by simp, ht0⟩
        · exact hok f hf
end TLX.Lemmas.BuildBounds
