/-
Helper lemmas for `Props/C01Capstone.lean`: the per-connection pipeline against the connection transcript
(`Spec/TlsConnection`): per-direction projection of the released records = the direction's reassembly run, framing of a
concatenation of whole records, one record of each kind through `handle_tls_record`, and the session over an arbitrary
interleaving of the two directions.
-/
import TLX.Props.C01Pipeline
import TLX.Props.C05
import TLX.Spec.TlsConnection
set_option linter.unusedSimpArgs false
namespace TLX.Lemmas.Capstone
open TLX TLX.Reassembly

-- ------------------------------------------------------------------ reassembly: per-step outputs vs the fused run
/-- the records handed on packet by packet when `out` is cleared before every step (as `Pipeline.feedPkt` does) -/
def outs (W : Nat) : Reassembly.St → List Seg → List Reassembly.Rec
  | _, [] => []
  | st, p :: ps => (stepW W { st with out := [] } p).out ++ outs W (stepW W { st with out := [] } p) ps

theorem deliver_reset (W : Nat) (st : Reassembly.St) (base : Nat) (buf : List Seg) :
    deliver W st base buf =
      { deliver W { st with out := [] } base buf with out := st.out ++ (deliver W { st with out := [] } base buf).out } := by
  unfold deliver
  split
  · simp
  · split
    · simp
    · split
      · simp
      · split <;> simp

theorem stepW_reset (W : Nat) (st : Reassembly.St) (p : Seg) :
    stepW W st p =
      { stepW W { st with out := [] } p with out := st.out ++ (stepW W { st with out := [] } p).out } := by
  unfold stepW
  split
  · simp
  · unfold extract
    simp only
    split
    · simp
    · rw [deliver_reset]

theorem outs_out_irrel (W : Nat) (st : Reassembly.St) (o : List Reassembly.Rec) (segs : List Seg) :
    outs W { st with out := o } segs = outs W st segs := by
  cases segs <;> rfl

theorem foldl_stepW_out (W : Nat) (st : Reassembly.St) (segs : List Seg) :
    (segs.foldl (stepW W) st).out = st.out ++ outs W st segs := by
  induction segs generalizing st with
  | nil => simp [outs]
  | cons p ps ih =>
    simp only [List.foldl_cons, outs]
    rw [ih, stepW_reset W st p]
    simp only [List.append_assoc]
    rw [outs_out_irrel]

/-- the fused machine of `Props/C05` over payload-carrying segments = the concatenation of the per-packet outputs -/
theorem run_eq_outs (segs : List Seg) (hne : ∀ p ∈ segs, p.data ≠ []) :
    Reassembly.run segs = outs (2 ^ 32) St.init segs := by
  have hfold : ∀ (st : Reassembly.St), segs.foldl (ingestW (2 ^ 32)) st = segs.foldl (stepW (2 ^ 32)) st := by
    induction segs with
    | nil => intro st; rfl
    | cons p ps ih =>
      intro st
      have hp : p.data.isEmpty = false := by
        have := hne p (by simp)
        cases hd : p.data with
        | nil => exact absurd hd this
        | cons _ _ => rfl
      simp only [List.foldl_cons, ingestW, hp, Bool.false_eq_true, if_false]
      exact ih (fun q hq => hne q (by simp [hq])) _
  unfold Reassembly.run runW
  rw [hfold, foldl_stepW_out]
  rfl

-- ------------------------------------------------------------------ the released records, direction by direction
open TLX.Lemmas.Pipeline in
/-- the TCP segments of one direction of a connection as the session sees them, in capture order -/
def dirSegs (info : Nat → Pipeline.Info) (server : MainLoop.Endpoint) (d : Bool) (pkts : List MainLoop.Pkt) : List Seg :=
  (pkts.filter fun p => (p.src == server) == d).map fun p => ⟨p.tag, (info p.tag).seq, p.payload⟩

open TLX.Lemmas.Pipeline in
/-- the records of direction `d` among the released records are what that direction's reassembler hands on -/
theorem released_filter (info : Nat → Pipeline.Info) (server : MainLoop.Endpoint) (R : Reassembly.St × Reassembly.St)
    (pkts : List MainLoop.Pkt) (d : Bool) :
    ((released info server R pkts).filter fun r => r.2 == d).map (fun r => ((r.1.raw, r.1.carriers) : Reassembly.Rec))
      = outs (2 ^ 32) (if d then R.2 else R.1) (dirSegs info server d pkts) := by
  induction pkts generalizing R with
  | nil => rfl
  | cons p ps ih =>
    simp only [released, List.filter_append, List.map_append, ih]
    by_cases hd : (p.src == server) = d
    · have hf : (List.filter (fun r : Session.Rec × Bool => r.2 == d) (reasmPkt info server R p).2)
          = (reasmPkt info server R p).2 := by
        apply List.filter_eq_self.mpr
        intro r hr
        simp only [reasmPkt, List.mem_map] at hr
        obtain ⟨q, _, rfl⟩ := hr
        simp [hd]
      rw [hf]
      simp only [dirSegs, List.filter_cons, hd, beq_self_eq_true, if_true, List.map_cons, outs]
      subst hd
      cases hs : p.src == server <;>
        simp [reasmPkt, hs, Reassembly.step, List.map_map, Function.comp_def]
    · have hf : (List.filter (fun r : Session.Rec × Bool => r.2 == d) (reasmPkt info server R p).2) = [] := by
        apply List.filter_eq_nil_iff.mpr
        intro r hr
        simp only [reasmPkt, List.mem_map] at hr
        obtain ⟨q, _, rfl⟩ := hr
        simpa using hd
      rw [hf]
      have hd' : ((p.src == server) == d) = false := by simpa using hd
      simp only [dirSegs, List.filter_cons, hd', Bool.false_eq_true, if_false, List.map_nil, List.nil_append]
      congr 1
      cases hs : p.src == server <;> cases d <;> simp_all [reasmPkt]

open TLX.Spec.TlsFraming TLX.Lemmas.Framing in
theorem frame_flatten (recs : List Bytes) (hwf : ∀ r ∈ recs, Spec.TlsConnection.WholeRecord r) :
    frame recs.flatten = recs ∧ WholeRecords recs.flatten := by
  have hwf' : ∀ r ∈ recs, WF r := fun r hr => ⟨(hwf r hr).1, by rw [recLen_eq_hdr r (hwf r hr).1]; exact (hwf r hr).2.symm⟩
  have h := frame_of_scanD _ _ (scanD_flatten recs hwf')
  exact ⟨h, by unfold WholeRecords; rw [h]⟩

open TLX.Spec.TlsFraming TLX.Lemmas.Pipeline in
/-- reassembly ∘ demultiplexing for one direction of a connection: if the direction's segments are an in-order
    delivery (any cuts, exact duplicates, any initial sequence number) of the concatenation of whole records, the
    records released for that direction are exactly those records, each once, in order -/
theorem released_dir_records (info : Nat → Pipeline.Info) (server : MainLoop.Endpoint) (pkts : List MainLoop.Pkt)
    (d : Bool) (isn : Nat) (recs : List Bytes) (hwf : ∀ r ∈ recs, Spec.TlsConnection.WholeRecord r)
    (hd : InOrder isn recs.flatten ((dirSegs info server d pkts).map Props.C05.wire))
    (hlen : recs.flatten.length ≤ 2 ^ 31) :
    ((released info server (St.init, St.init) pkts).filter fun r => r.2 == d).map (·.1.raw) = recs := by
  obtain ⟨hfr, hwhole⟩ := frame_flatten recs hwf
  have hne : ∀ p ∈ dirSegs info server d pkts, p.data ≠ [] := by
    obtain ⟨chunks, hcut, hmem⟩ := Lemmas.Delivery.delivers_mem hd
    intro p hp
    have := (hmem (Props.C05.wire p)).mp (List.mem_map_of_mem hp)
    rw [Lemmas.Delivery.segsOf_eq_offs] at this
    obtain ⟨x, hx, hxe⟩ := List.mem_map.mp this
    simp only [Props.C05.wire, Prod.mk.injEq] at hxe
    rw [← hxe.2]
    exact hcut.1 _ (Lemmas.ReasmSort.offs_bounds _ _ _ hx).2.2
  have h1 := Props.C05.reassembly_exact_inorder isn recs.flatten (dirSegs info server d pkts) hd hwhole hlen
  rw [run_eq_outs _ hne, hfr] at h1
  have h2 := released_filter info server (St.init, St.init) pkts d
  have h3 : (if d then (St.init, St.init).2 else (St.init, St.init).1) = St.init := by cases d <;> rfl
  rw [h3] at h2
  rw [← h1, ← h2, List.map_map]
  rfl

end TLX.Lemmas.Capstone
