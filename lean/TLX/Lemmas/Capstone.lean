/-
Helper lemmas for `Props/C01Capstone.lean`: the per-connection pipeline against the connection transcript
(`Spec/TlsConnection`): per-direction projection of the released records = the direction's reassembly run, framing of a
concatenation of whole records, one record of each kind through `handle_tls_record`, and the session over an arbitrary
interleaving of the two directions.
-/
import TLX.Props.C01Pipeline
import TLX.Props.C05
import TLX.Spec.TlsConnection
import TLX.Props.C07
set_option linter.unusedSimpArgs false
namespace TLX.Lemmas.Capstone
open TLX TLX.Reassembly

-- ------------------------------------------------------------------ reassembly: per-step outputs vs the fused run
/-- the records handed on packet by packet when `out` is cleared before every step (as `Pipeline.feedPkt` does) -/
def outs (W : Nat) : Reassembly.St → List Seg → List Reassembly.Rec
  | _, [] => []
  | st, p :: ps => (stepW W { st with out := [] } p).out ++ outs W (stepW W { st with out := [] } p) ps

theorem deliver_reset (W : Nat) (st : Reassembly.St) (base : Nat) (buf : List Seg) :
    deliver W st base buf =
      { deliver W { st with out := [] } base buf with out := st.out ++ (deliver W { st with out := [] } base buf).out } := by
  unfold deliver
  split
  · simp
  · split
    · simp
    · split
      · simp
      · split <;> simp

theorem stepW_reset (W : Nat) (st : Reassembly.St) (p : Seg) :
    stepW W st p =
      { stepW W { st with out := [] } p with out := st.out ++ (stepW W { st with out := [] } p).out } := by
  unfold stepW
  split
  · simp
  · unfold extract
    simp only
    split
    · simp
    · rw [deliver_reset]

theorem outs_out_irrel (W : Nat) (st : Reassembly.St) (o : List Reassembly.Rec) (segs : List Seg) :
    outs W { st with out := o } segs = outs W st segs := by
  cases segs <;> rfl

theorem foldl_stepW_out (W : Nat) (st : Reassembly.St) (segs : List Seg) :
    (segs.foldl (stepW W) st).out = st.out ++ outs W st segs := by
  induction segs generalizing st with
  | nil => simp [outs]
  | cons p ps ih =>
    simp only [List.foldl_cons, outs]
    rw [ih, stepW_reset W st p]
    simp only [List.append_assoc]
    rw [outs_out_irrel]

/-- the fused machine of `Props/C05` over payload-carrying segments = the concatenation of the per-packet outputs -/
theorem run_eq_outs (segs : List Seg) (hne : ∀ p ∈ segs, p.data ≠ []) :
    Reassembly.run segs = outs (2 ^ 32) St.init segs := by
  have hfold : ∀ (st : Reassembly.St), segs.foldl (ingestW (2 ^ 32)) st = segs.foldl (stepW (2 ^ 32)) st := by
    induction segs with
    | nil => intro st; rfl
    | cons p ps ih =>
      intro st
      have hp : p.data.isEmpty = false := by
        have := hne p (by simp)
        cases hd : p.data with
        | nil => exact absurd hd this
        | cons _ _ => rfl
      simp only [List.foldl_cons, ingestW, hp, Bool.false_eq_true, if_false]
      exact ih (fun q hq => hne q (by simp [hq])) _
  unfold Reassembly.run runW
  rw [hfold, foldl_stepW_out]
  rfl

-- ------------------------------------------------------------------ the released records, direction by direction
open TLX.Lemmas.Pipeline in
/-- the TCP segments of one direction of a connection as the session sees them, in capture order -/
def dirSegs (info : Nat → Pipeline.Info) (server : MainLoop.Endpoint) (d : Bool) (pkts : List MainLoop.Pkt) : List Seg :=
  (pkts.filter fun p => (p.src == server) == d).map fun p => ⟨p.tag, (info p.tag).seq, p.payload⟩

open TLX.Lemmas.Pipeline in
/-- the records of direction `d` among the released records are what that direction's reassembler hands on -/
theorem released_filter (info : Nat → Pipeline.Info) (server : MainLoop.Endpoint) (R : Reassembly.St × Reassembly.St)
    (pkts : List MainLoop.Pkt) (d : Bool) :
    ((released info server R pkts).filter fun r => r.2 == d).map (fun r => ((r.1.raw, r.1.carriers) : Reassembly.Rec))
      = outs (2 ^ 32) (if d then R.2 else R.1) (dirSegs info server d pkts) := by
  induction pkts generalizing R with
  | nil => rfl
  | cons p ps ih =>
    simp only [released, List.filter_append, List.map_append, ih]
    by_cases hd : (p.src == server) = d
    · have hf : (List.filter (fun r : Session.Rec × Bool => r.2 == d) (reasmPkt info server R p).2)
          = (reasmPkt info server R p).2 := by
        apply List.filter_eq_self.mpr
        intro r hr
        simp only [reasmPkt, List.mem_map] at hr
        obtain ⟨q, _, rfl⟩ := hr
        simp [hd]
      rw [hf]
      simp only [dirSegs, List.filter_cons, hd, beq_self_eq_true, if_true, List.map_cons, outs]
      subst hd
      cases hs : p.src == server <;>
        simp [reasmPkt, hs, Reassembly.step, List.map_map, Function.comp_def]
    · have hf : (List.filter (fun r : Session.Rec × Bool => r.2 == d) (reasmPkt info server R p).2) = [] := by
        apply List.filter_eq_nil_iff.mpr
        intro r hr
        simp only [reasmPkt, List.mem_map] at hr
        obtain ⟨q, _, rfl⟩ := hr
        simpa using hd
      rw [hf]
      have hd' : ((p.src == server) == d) = false := by simpa using hd
      simp only [dirSegs, List.filter_cons, hd', Bool.false_eq_true, if_false, List.map_nil, List.nil_append]
      congr 1
      cases hs : p.src == server <;> cases d <;> simp_all [reasmPkt]

open TLX.Spec.TlsFraming TLX.Lemmas.Framing in
theorem frame_flatten (recs : List Bytes) (hwf : ∀ r ∈ recs, Spec.TlsConnection.WholeRecord r) :
    frame recs.flatten = recs ∧ WholeRecords recs.flatten := by
  have hwf' : ∀ r ∈ recs, WF r := fun r hr => ⟨(hwf r hr).1, by rw [recLen_eq_hdr r (hwf r hr).1]; exact (hwf r hr).2.symm⟩
  have h := frame_of_scanD _ _ (scanD_flatten recs hwf')
  exact ⟨h, by unfold WholeRecords; rw [h]⟩

open TLX.Spec.TlsFraming TLX.Lemmas.Pipeline in
/-- reassembly ∘ demultiplexing for one direction of a connection: if the direction's segments are an in-order
    delivery (any cuts, exact duplicates, any initial sequence number) of the concatenation of whole records, the
    records released for that direction are exactly those records, each once, in order -/
theorem released_dir_records (info : Nat → Pipeline.Info) (server : MainLoop.Endpoint) (pkts : List MainLoop.Pkt)
    (d : Bool) (isn : Nat) (recs : List Bytes) (hwf : ∀ r ∈ recs, Spec.TlsConnection.WholeRecord r)
    (hd : InOrder isn recs.flatten ((dirSegs info server d pkts).map Props.C05.wire))
    (hlen : recs.flatten.length ≤ 2 ^ 31) :
    ((released info server (St.init, St.init) pkts).filter fun r => r.2 == d).map (·.1.raw) = recs := by
  obtain ⟨hfr, hwhole⟩ := frame_flatten recs hwf
  have hne : ∀ p ∈ dirSegs info server d pkts, p.data ≠ [] := by
    obtain ⟨chunks, hcut, hmem⟩ := Lemmas.Delivery.delivers_mem hd
    intro p hp
    have := (hmem (Props.C05.wire p)).mp (List.mem_map_of_mem hp)
    rw [Lemmas.Delivery.segsOf_eq_offs] at this
    obtain ⟨x, hx, hxe⟩ := List.mem_map.mp this
    simp only [Props.C05.wire, Prod.mk.injEq] at hxe
    rw [← hxe.2]
    exact hcut.1 _ (Lemmas.ReasmSort.offs_bounds _ _ _ hx).2.2
  have h1 := Props.C05.reassembly_exact_inorder isn recs.flatten (dirSegs info server d pkts) hd hwhole hlen
  rw [run_eq_outs _ hne, hfr] at h1
  have h2 := released_filter info server (St.init, St.init) pkts d
  have h3 : (if d then (St.init, St.init).2 else (St.init, St.init).1) = St.init := by cases d <;> rfl
  rw [h3] at h2
  rw [← h1, ← h2, List.map_map]
  rfl

end TLX.Lemmas.Capstone

-- ====================================================================== the session over the transcript's records
namespace TLX.Lemmas.Capstone
open TLX TLX.Cipher TLX.RecordLayer TLX.Spec.TlsSender TLX.Props.C01 TLX.Lemmas.Pipeline TLX.Spec.TlsConnection

/-- the exported bytes of one direction of a traffic list (what `OutputBuilder` will spread over segments) -/
def dirPlain (d : Bool) (tr : List Session.Entry) : Bytes :=
  (tr.filter fun e => e.fromServer == d).flatMap fun e => e.data.getD TcpOut.placeholder

theorem dirBytes_toRec (ts : Nat → Nat) (d : Bool) (tr : List Session.Entry) :
    Props.C06.dirBytes d (tr.map (toRec ts)) = dirPlain d tr := by
  induction tr with
  | nil => rfl
  | cons e es ih =>
    simp only [Props.C06.dirBytes, dirPlain, List.map_cons, List.filter_cons] at ih ⊢
    by_cases h : e.fromServer = d
    · simp [toRec, h, TcpOut.Rec.bytes, ih]
    · have h' : (e.fromServer == d) = false := by simpa using h
      simp [toRec, h', ih]

theorem dirPlain_append (d : Bool) (a b : List Session.Entry) : dirPlain d (a ++ b) = dirPlain d a ++ dirPlain d b := by
  simp [dirPlain, List.filter_append]

theorem set_get (x : Snd) (d : Bool) : x.set d (x.get d) = x := by cases d <;> rfl

/-- the record an endpoint in cipher state `sd` sends for `e`, and its cipher state afterwards -/
def evRaw (P : Prims) (L : SealLaws P) (cls : CipherClass) (ver : Bytes) (sd : SDir) : DirEv → Bytes
  | .clear body => record 22 ver body
  | .ccs => record 20 ver [1]
  | .enc typ pt f => (protect P L cls ver sd typ pt f).2
  | .hs13 ms f => (protect P L cls ver sd 22 (hsBytes ms) f).2

def evNext (P : Prims) (L : SealLaws P) (cls : CipherClass) (ver : Bytes) (sd : SDir) : DirEv → SDir
  | .clear _ => sd
  | .ccs => sd
  | .enc typ pt f => (protect P L cls ver sd typ pt f).1
  | .hs13 ms f => switchN (finished ms) (protect P L cls ver sd 22 (hsBytes ms) f).1

theorem sendDir_cons (P : Prims) (L : SealLaws P) (cls : CipherClass) (ver : Bytes) (sd : SDir) (e : DirEv)
    (r : List DirEv) :
    sendDir P L cls ver sd (e :: r) = evRaw P L cls ver sd e :: sendDir P L cls ver (evNext P L cls ver sd e) r := by
  cases e <;> rfl

/-- what the RFCs require of the protected records of a script (`Props.C01.SendOk`; uint24 message lengths) -/
def EvOk1 (cls : CipherClass) (macLen : Nat) : DirEv → Prop
  | .enc _ pt f => SendOk cls macLen pt f
  | .hs13 ms _ => ∀ m ∈ ms, MsgOk m
  | _ => True

instance (cls : CipherClass) (macLen : Nat) (e : DirEv) : Decidable (EvOk1 cls macLen e) := by
  cases e <;> unfold EvOk1 <;> infer_instance

theorem record_typ (typ : UInt8) (ver body : Bytes) (car : List Nat) :
    (⟨record typ ver body, car⟩ : Session.Rec).typ = some typ := by
  simp [Session.Rec.typ, record]

theorem record_body (typ : UInt8) (ver body : Bytes) (car : List Nat) (hv : ver.length = 2) :
    (⟨record typ ver body, car⟩ : Session.Rec).body = body := by
  have := (hsRecord_fields ver body car hv).2.2
  match ver, hv with
  | [a, b], _ =>
    have h2 := Lemmas.RecLayer.u16_length body.length
    simp only [record, Session.Rec.body]
    generalize u16 body.length = l at *
    match l, h2 with
    | [l1, l2], _ => rfl

/-- a clear-text handshake record that is no hello, from a side whose ChangeCipherSpec has not been seen (or before any
    decryptor exists): nothing happens (without `-a`) -/
theorem handle_clear_noop (O : Session.Ops Dec) (s : Session.St Dec) (ver body : Bytes) (hv : ver.length = 2)
    (car : List Nat) (d : Bool) (hb : ∀ t ∈ body.head?, t ≠ 1 ∧ t ≠ 2) (h : s.dec = none ∨ ccOf s d = false) :
    Session.handleRecord O false s ⟨record 22 ver body, car⟩ d = s := by
  have hfin : (Session.handshakeFinished O false s ⟨record 22 ver body, car⟩ d).st = s := by
    unfold Session.handshakeFinished
    cases hdec : s.dec with
    | none => rfl
    | some dd =>
      have hcc : ccOf s d = false := by rcases h with h | h; · rw [hdec] at h; cases h
                                        · exact h
      have hgate : (s.srvCC && d && s.canDecrypt || s.cliCC && !d && s.canDecrypt) = false := by
        cases d <;> simp only [ccOf, if_true, Bool.false_eq_true, if_false] at hcc <;> simp [hcc]
      simp only [hgate, Bool.false_eq_true, if_false]
      rfl
  unfold Session.handleRecord Session.handleRecordRaw
  rw [record_typ]
  simp only [if_true]
  have hok := Session.handshakeRecord_isOk O false s ⟨record 22 ver body, car⟩ d
  have hst : (Session.handshakeRecord O false s ⟨record 22 ver body, car⟩ d).st = s := by
    unfold Session.handshakeRecord
    split
    · rw [Session.tryExcept_id_st]; exact hfin
    · rw [record_body 22 ver body car hv]
      cases body with
      | nil => rfl
      | cons t rest =>
        have ht := hb t (by simp)
        simp only [ht.1, ht.2, if_false]
        rw [Session.tryExcept_id_st]; exact hfin
  cases hr : Session.handshakeRecord O false s ⟨record 22 ver body, car⟩ d with
  | raised s1 => rw [hr] at hok; cases hok
  | ok s1 => rw [hr] at hst; simp only [Session.Out.st] at hst ⊢; rw [hst]; rfl

/-- an application-type record never touches the ChangeCipherSpec flags -/
theorem handle_app_flags (O : Session.Ops Dec) (m : Bool) (s : Session.St Dec) (r : Session.Rec) (d : Bool)
    (ht : r.typ = some 0x17) :
    (Session.handleRecord O m s r d).srvCC = s.srvCC ∧ (Session.handleRecord O m s r d).cliCC = s.cliCC := by
  unfold Session.handleRecord Session.handleRecordRaw
  rw [ht]
  have h1 : ((0x17 : UInt8) = 0x16) = False := by decide
  simp only [h1, if_false, if_true]
  split
  · split
    · rw [Session.tryExcept_id_st]
      unfold Session.app13
      split
      · exact ⟨rfl, rfl⟩
      · split
        · exact ⟨rfl, rfl⟩
        · exact ⟨rfl, rfl⟩
        · simp only
          split
          · exact ⟨rfl, rfl⟩
          · split
            · split <;> (cases d <;> exact ⟨rfl, rfl⟩)
            · split <;> exact ⟨rfl, rfl⟩
    · unfold Session.appLegacy
      split
      · exact ⟨rfl, rfl⟩
      · split <;> exact ⟨rfl, rfl⟩
    · exact ⟨rfl, rfl⟩
  · exact ⟨rfl, rfl⟩

-- ------------------------------------------------------------------ TLS ≤ 1.2: one record of a script
def AllEnc12 (l : List DirEv) : Prop := ∀ e ∈ l, ∃ typ pt f, e = DirEv.enc typ pt f ∧ (typ = 22 ∨ typ = 23)

/-- where a side is in its script, as the session's ChangeCipherSpec flag tells -/
def DirInv12 (s : Session.St Dec) (d : Bool) (rem : List DirEv) : Prop :=
  (ccOf s d = false ∧ Script12 rem) ∨ (ccOf s d = true ∧ AllEnc12 rem)

theorem ccOf_of_flags {s s' : Session.St Dec} (h1 : s'.srvCC = s.srvCC) (h2 : s'.cliCC = s.cliCC) (d : Bool) :
    ccOf s' d = ccOf s d := by
  cases d <;> simp [ccOf, h1, h2]

theorem dirPlain_push (d' d : Bool) (tr : List Session.Entry) (pt : Bytes) (r : Session.Rec) (a : Bool) :
    dirPlain d' (tr ++ [⟨some pt, r, d, a⟩]) = dirPlain d' tr ++ (if d' = d then pt else []) := by
  rw [dirPlain_append]
  congr 1
  by_cases h : d' = d
  · subst h; simp [dirPlain]
  · have : (d == d') = false := by simpa using fun h' => h h'.symm
    simp [dirPlain, h, this]

theorem step12 (H : Crypto.Prims) (P : Prims) (L : SealLaws P) (kl : List Keylog.Key) (cls : CipherClass)
    (h13 : cls.is13 = false) (macLen : Nat) (ver : Bytes) (hv : ver.length = 2) (x : Snd) (s : Session.St Dec)
    (hs : Ready cls macLen x s) (d : Bool) (e : DirEv) (rem : List DirEv) (car : List Nat)
    (hinv : DirInv12 s d (e :: rem)) (hok : EvOk1 cls macLen e) (hq : x.c.seq < seqLimit ∧ x.s.seq < seqLimit) :
    let s' := Session.handleRecord (Pipeline.ops H P kl) false s ⟨evRaw P L cls ver (x.get d) e, car⟩ d
    let x' := x.set d (evNext P L cls ver (x.get d) e)
    Ready cls macLen x' s' ∧ DirInv12 s' d rem ∧ ccOf s' (!d) = ccOf s (!d) ∧
    (∀ d', dirPlain d' s'.traffic = dirPlain d' s.traffic ++ (if d' = d then Spec.TlsConnection.plainOf [e] else [])) ∧
    x'.c.seq ≤ max x.c.seq x.s.seq + 1 ∧ x'.s.seq ≤ max x.c.seq x.s.seq + 1 := by
  intro s' x'
  cases e with
  | clear b =>
    rcases hinv with ⟨hcc, cl, rest, hl, hcl, hrest⟩ | ⟨_, hall⟩
    · cases cl with
      | nil => simp at hl
      | cons b' cl' =>
        simp only [List.map_cons, List.cons_append, List.cons.injEq, DirEv.clear.injEq] at hl
        obtain ⟨rfl, hrem⟩ := hl
        have hnoop : s' = s := handle_clear_noop _ s ver b hv car d (hcl b (by simp)) (Or.inr hcc)
        have hx : x' = x := set_get x d
        rw [hnoop, hx]
        refine ⟨hs, Or.inl ⟨hcc, cl', rest, hrem, fun b' hb' => hcl b' (by simp [hb']), hrest⟩, rfl, ?_, by omega, by omega⟩
        intro d'; simp [Spec.TlsConnection.plainOf]
    · obtain ⟨_, _, _, h, _⟩ := hall _ (List.mem_cons_self ..); cases h
  | ccs =>
    obtain ⟨a1, a2, a3, a4, a5, _, a7, a8, a9⟩ := handleRecord_ccs (Pipeline.ops H P kl) false s
      ⟨record 20 ver [1], car⟩ d (record_typ 20 ver [1] car)
    have hx : x' = x := set_get x d
    rw [hx]
    rcases hinv with ⟨hcc, cl, rest, hl, hcl, hrest⟩ | ⟨_, hall⟩
    · cases cl with
      | cons b' cl' => simp at hl
      | nil =>
        simp only [List.map_nil, List.nil_append, List.cons.injEq, true_and] at hl
        subst hl
        refine ⟨hs.of_eq a1 a2 a3 a8 a9, Or.inr ⟨a4, hrest⟩, a5, ?_, by omega, by omega⟩
        intro d'
        show dirPlain d' (Session.handleRecord _ false s ⟨record 20 ver [1], car⟩ d).traffic = _
        rw [a7 rfl]; simp [Spec.TlsConnection.plainOf]
    · obtain ⟨_, _, _, h, _⟩ := hall _ (List.mem_cons_self ..); cases h
  | enc typ pt f =>
    rcases hinv with ⟨_, cl, rest, hl, _, _⟩ | ⟨hcc, hall⟩
    · cases cl <;> simp at hl
    · obtain ⟨typ', pt', f', he, htyp⟩ := hall _ (List.mem_cons_self ..)
      cases he
      have hall' : AllEnc12 rem := fun e he => hall e (List.mem_cons_of_mem _ he)
      rcases htyp with rfl | rfl
      · obtain ⟨_, b2, b3, b4, b5, b6, b7⟩ := handleRecord_hsEnc H P L kl cls h13 macLen ver hv x s hs d hcc pt f hok hq false car
        refine ⟨b3, Or.inr ⟨(ccOf_of_flags b4 b5 d).trans hcc, hall'⟩, ccOf_of_flags b4 b5 _, ?_, b6, b7⟩
        intro d'
        show dirPlain d' (Session.handleRecord _ false s ⟨(protect P L cls ver (x.get d) 22 pt f).2, car⟩ d).traffic = _
        rw [b2 rfl]; simp [Spec.TlsConnection.plainOf]
      · obtain ⟨c1, c2, c3, c4⟩ := handleRecord_app H P L kl cls macLen ver hv x s hs d pt f hok hq false car
        have htyp : (⟨(protect P L cls ver (x.get d) 23 pt f).2, car⟩ : Session.Rec).typ = some 0x17 :=
          protect_head_legacy P L cls h13 ver _ 23 pt f
        obtain ⟨f1, f2⟩ := handle_app_flags (Pipeline.ops H P kl) false s _ d htyp
        refine ⟨c2, Or.inr ⟨(ccOf_of_flags f1 f2 d).trans hcc, hall'⟩, ccOf_of_flags f1 f2 _, ?_, c3, c4⟩
        intro d'
        show dirPlain d' (Session.handleRecord _ false s ⟨(protect P L cls ver (x.get d) 23 pt f).2, car⟩ d).traffic = _
        rw [c1, dirPlain_push]
        simp [Spec.TlsConnection.plainOf]
  | hs13 ms f =>
    rcases hinv with ⟨_, cl, rest, hl, _, _⟩ | ⟨_, hall⟩
    · cases cl <;> simp at hl
    · obtain ⟨_, _, _, h, _⟩ := hall _ (List.mem_cons_self ..); cases h

-- ------------------------------------------------------------------ any interleaving of the two scripts
/-- what remains of the two scripts after direction `d` sent a record -/
def upd (rem : Bool → List DirEv) (d : Bool) (l : List DirEv) : Bool → List DirEv := fun d' => if d' = d then l else rem d'

theorem plainOf_cons (e : DirEv) (r : List DirEv) :
    Spec.TlsConnection.plainOf (e :: r) = Spec.TlsConnection.plainOf [e] ++ Spec.TlsConnection.plainOf r := by
  cases e <;> simp [Spec.TlsConnection.plainOf]
  split <;> simp

theorem sendDir_eq_nil (P : Prims) (L : SealLaws P) (cls : CipherClass) (ver : Bytes) (sd : SDir) (l : List DirEv)
    (h : sendDir P L cls ver sd l = []) : l = [] := by
  cases l with
  | nil => rfl
  | cons e r => rw [sendDir_cons] at h; cases h

theorem filter_dir_cons_same (r : Session.Rec) (d : Bool) (M : List (Session.Rec × Bool)) :
    ((r, d) :: M).filter (fun q => q.2 == d) = (r, d) :: M.filter (fun q => q.2 == d) := by
  simp [List.filter_cons]

theorem filter_dir_cons_other (r : Session.Rec) (d0 d : Bool) (M : List (Session.Rec × Bool)) (h : d ≠ d0) :
    ((r, d0) :: M).filter (fun q => q.2 == d) = M.filter (fun q => q.2 == d) := by
  have : (d0 == d) = false := by simpa using fun h' => h h'.symm
  simp [List.filter_cons, this]

theorem bool_ne (a b : Bool) (h : a ≠ b) : a = !b := by
  cases a <;> cases b <;> first | rfl | exact absurd rfl h

theorem sget_set_ne (x : Snd) (d0 d : Bool) (v : SDir) (h : d ≠ d0) : (x.set d0 v).get d = x.get d := by
  cases d0 <;> cases d <;> first | rfl | exact absurd rfl h

/-- TLS ≤ 1.2 after the ServerHello: `Session` over ANY interleaving of the two sides' remaining records (each side's
    own order kept) exports, per direction, exactly that side's application plaintexts in order (without `-a`) -/
theorem run_merge12 (H : Crypto.Prims) (P : Prims) (L : SealLaws P) (kl : List Keylog.Key) (cls : CipherClass)
    (h13 : cls.is13 = false) (macLen : Nat) (ver : Bytes) (hv : ver.length = 2) (M : List (Session.Rec × Bool)) :
    ∀ (x : Snd) (s : Session.St Dec) (rem : Bool → List DirEv), Ready cls macLen x s →
      (∀ d, DirInv12 s d (rem d)) → (∀ d, ∀ e ∈ rem d, EvOk1 cls macLen e) →
      (∀ d, (M.filter fun q => q.2 == d).map (·.1.raw) = sendDir P L cls ver (x.get d) (rem d)) →
      max x.c.seq x.s.seq + M.length ≤ seqLimit →
      ∀ d, dirPlain d (Session.run (Pipeline.ops H P kl) false s M).traffic
        = dirPlain d s.traffic ++ Spec.TlsConnection.plainOf (rem d) := by
  induction M with
  | nil =>
    intro x s rem _ _ _ hfil _ d
    have := sendDir_eq_nil P L cls ver _ _ (hfil d).symm
    simp [Session.run, this, Spec.TlsConnection.plainOf]
  | cons q M' ih =>
    intro x s rem hs hinv hok hfil hq d
    obtain ⟨r, d0⟩ := q
    have h0 := hfil d0
    rw [filter_dir_cons_same, List.map_cons] at h0
    cases hrem : rem d0 with
    | nil => rw [hrem] at h0; cases h0
    | cons e rest =>
      rw [hrem, sendDir_cons] at h0
      simp only [List.cons.injEq] at h0
      obtain ⟨hraw, htail⟩ := h0
      have hr : r = ⟨evRaw P L cls ver (x.get d0) e, r.carriers⟩ := by
        have hraw' : r.raw = evRaw P L cls ver (x.get d0) e := hraw
        rw [← hraw']
      simp only [List.length_cons] at hq
      obtain ⟨g1, g2, g3, g4, g5, g6⟩ := step12 H P L kl cls h13 macLen ver hv x s hs d0 e rest r.carriers
        (hrem ▸ hinv d0) (hok d0 e (by rw [hrem]; simp)) (by omega)
      rw [← hr] at g1 g2 g3 g4
      have hinv' : ∀ d', DirInv12 (Session.handleRecord (Pipeline.ops H P kl) false s r d0) d' (upd rem d0 rest d') := by
        intro d'
        by_cases hd : d' = d0
        · subst hd; simpa [upd] using g2
        · have hdn : d' = !d0 := bool_ne d' d0 hd
          have hcc : ccOf (Session.handleRecord (Pipeline.ops H P kl) false s r d0) d' = ccOf s d' := by
            rw [hdn]; exact g3
          simp only [upd, hd, if_false]
          unfold DirInv12
          rw [hcc]
          exact hinv d'
      have hok' : ∀ d', ∀ e' ∈ upd rem d0 rest d', EvOk1 cls macLen e' := by
        intro d' e' he'
        by_cases hd : d' = d0
        · subst hd
          simp only [upd, if_true] at he'
          exact hok d' e' (by rw [hrem]; simp [he'])
        · simp only [upd, hd, if_false] at he'
          exact hok d' e' he'
      have hfil' : ∀ d', (M'.filter fun q => q.2 == d').map (·.1.raw)
          = sendDir P L cls ver ((x.set d0 (evNext P L cls ver (x.get d0) e)).get d') (upd rem d0 rest d') := by
        intro d'
        by_cases hd : d' = d0
        · subst hd
          rw [Lemmas.RecLayer.sget_set]
          simpa [upd] using htail
        · rw [sget_set_ne _ _ _ _ hd]
          simp only [upd, hd, if_false]
          rw [← hfil d', filter_dir_cons_other _ _ _ _ hd]
      have := ih _ _ (upd rem d0 rest) g1 hinv' hok' hfil' (by omega) d
      simp only [Session.run, List.foldl_cons] at this ⊢
      rw [this, g4 d]
      by_cases hd : d = d0
      · subst hd
        simp only [upd, if_true, hrem]
        rw [plainOf_cons e rest, List.append_assoc]
      · simp [upd, hd]

-- ------------------------------------------------------------------ TLS 1.3
theorem set_set (x : Snd) (d : Bool) (a b : SDir) : (x.set d a).set d b = x.set d b := by cases d <;> rfl

theorem after_switches (P : Prims) (L : SealLaws P) (cls : CipherClass) (ver : Bytes) (y : Snd) (d : Bool) (n : Nat) :
    after P L cls ver y (List.replicate n (.switch d)) = y.set d (switchN n (y.get d)) := by
  induction n generalizing y with
  | zero => simp [after, switchN, set_get]
  | succ n ih =>
    simp only [List.replicate_succ, after, List.foldl_cons, step] at ih ⊢
    rw [ih, Lemmas.RecLayer.sget_set, set_set]
    rfl

/-- sequence-number budget of a script: one per record, one more per Finished -/
def cost : List DirEv → Nat
  | [] => 0
  | .hs13 ms _ :: r => 1 + finished ms + cost r
  | _ :: r => 1 + cost r

theorem step13 (H : Crypto.Prims) (P : Prims) (L : SealLaws P) (kl : List Keylog.Key) (cls : CipherClass)
    (h13 : cls.is13 = true) (macLen : Nat) (ver : Bytes) (hv : ver.length = 2) (x : Snd) (s : Session.St Dec)
    (hs : Ready cls macLen x s) (d : Bool) (e : DirEv) (car : List Nat)
    (hsc : e = .ccs ∨ (∃ ms f, e = .hs13 ms f) ∨ (∃ pt f, e = .enc 23 pt f)) (hok : EvOk1 cls macLen e)
    (hq : max x.c.seq x.s.seq + cost [e] ≤ seqLimit) :
    let s' := Session.handleRecord (Pipeline.ops H P kl) false s ⟨evRaw P L cls ver (x.get d) e, car⟩ d
    let x' := x.set d (evNext P L cls ver (x.get d) e)
    Ready cls macLen x' s' ∧
    (∀ d', dirPlain d' s'.traffic = dirPlain d' s.traffic ++ (if d' = d then Spec.TlsConnection.plainOf [e] else [])) ∧
    max x'.c.seq x'.s.seq ≤ max x.c.seq x.s.seq + cost [e] := by
  intro s' x'
  rcases hsc with rfl | ⟨ms, f, rfl⟩ | ⟨pt, f, rfl⟩
  · obtain ⟨a1, a2, a3, _, _, _, a7, a8, a9⟩ := handleRecord_ccs (Pipeline.ops H P kl) false s
      ⟨record 20 ver [1], car⟩ d (record_typ 20 ver [1] car)
    have hx : x' = x := set_get x d
    rw [hx]
    refine ⟨hs.of_eq a1 a2 a3 a8 a9, ?_, by omega⟩
    intro d'
    show dirPlain d' (Session.handleRecord _ false s ⟨record 20 ver [1], car⟩ d).traffic = _
    rw [a7 rfl]; simp [Spec.TlsConnection.plainOf]
  · simp only [cost] at hq
    obtain ⟨b1, b2, b3⟩ := handleRecord_hs13 H P L kl cls h13 macLen ver hv x s hs d ms f hok (by exact hq) false car
    rw [after_switches, Lemmas.RecLayer.sget_set, set_set] at b2 b3
    refine ⟨b2, ?_, by simp only [cost]; exact b3⟩
    intro d'
    show dirPlain d' (Session.handleRecord _ false s ⟨(protect P L cls ver (x.get d) 22 (encMsgs ms) f).2, car⟩ d).traffic = _
    rw [b1]; simp [Spec.TlsConnection.plainOf]
  · simp only [cost] at hq
    obtain ⟨c1, c2, c3, c4⟩ := handleRecord_app H P L kl cls macLen ver hv x s hs d pt f
      (sendOk_13 cls h13 macLen pt f) (by omega) false car
    change x'.c.seq ≤ _ at c3
    change x'.s.seq ≤ _ at c4
    refine ⟨c2, ?_, by simp only [cost]; exact Nat.max_le.mpr ⟨by omega, by omega⟩⟩
    intro d'
    show dirPlain d' (Session.handleRecord _ false s ⟨(protect P L cls ver (x.get d) 23 pt f).2, car⟩ d).traffic = _
    rw [c1, dirPlain_push]
    simp [Spec.TlsConnection.plainOf]

theorem cost_cons (e : DirEv) (r : List DirEv) : cost (e :: r) = cost [e] + cost r := by
  cases e <;> simp [cost] <;> omega

/-- TLS 1.3 after the ServerHello: `Session` over ANY interleaving of the two sides' records (dummy ChangeCipherSpec,
    protected handshake records of whole messages — each Finished switching that side's epoch —, application data)
    exports, per direction, exactly that side's application plaintexts in order -/
theorem run_merge13 (H : Crypto.Prims) (P : Prims) (L : SealLaws P) (kl : List Keylog.Key) (cls : CipherClass)
    (h13 : cls.is13 = true) (macLen : Nat) (ver : Bytes) (hv : ver.length = 2) (M : List (Session.Rec × Bool)) :
    ∀ (x : Snd) (s : Session.St Dec) (rem : Bool → List DirEv), Ready cls macLen x s →
      (∀ d, Script13 (rem d)) → (∀ d, ∀ e ∈ rem d, EvOk1 cls macLen e) →
      (∀ d, (M.filter fun q => q.2 == d).map (·.1.raw) = sendDir P L cls ver (x.get d) (rem d)) →
      max x.c.seq x.s.seq + (cost (rem false) + cost (rem true)) ≤ seqLimit →
      ∀ d, dirPlain d (Session.run (Pipeline.ops H P kl) false s M).traffic
        = dirPlain d s.traffic ++ Spec.TlsConnection.plainOf (rem d) := by
  induction M with
  | nil =>
    intro x s rem _ _ _ hfil _ d
    have := sendDir_eq_nil P L cls ver _ _ (hfil d).symm
    simp [Session.run, this, Spec.TlsConnection.plainOf]
  | cons q M' ih =>
    intro x s rem hs hsc hok hfil hq d
    obtain ⟨r, d0⟩ := q
    have h0 := hfil d0
    rw [filter_dir_cons_same, List.map_cons] at h0
    cases hrem : rem d0 with
    | nil => rw [hrem] at h0; cases h0
    | cons e rest =>
      rw [hrem, sendDir_cons] at h0
      simp only [List.cons.injEq] at h0
      obtain ⟨hraw, htail⟩ := h0
      have hr : r = ⟨evRaw P L cls ver (x.get d0) e, r.carriers⟩ := by
        have hraw' : r.raw = evRaw P L cls ver (x.get d0) e := hraw
        rw [← hraw']
      have hcost : cost [e] + cost rest + cost (rem (!d0)) ≤ cost (rem false) + cost (rem true) := by
        have := cost_cons e rest
        cases d0
        · simp only [Bool.not_false, hrem] at *; omega
        · simp only [Bool.not_true, hrem] at *; omega
      obtain ⟨g1, g4, g5⟩ := step13 H P L kl cls h13 macLen ver hv x s hs d0 e r.carriers
        (hsc d0 e (by rw [hrem]; simp)) (hok d0 e (by rw [hrem]; simp)) (by omega)
      rw [← hr] at g1 g4
      have hsc' : ∀ d', Script13 (upd rem d0 rest d') := by
        intro d' e' he'
        by_cases hd : d' = d0
        · subst hd
          simp only [upd, if_true] at he'
          exact hsc d' e' (by rw [hrem]; simp [he'])
        · simp only [upd, hd, if_false] at he'
          exact hsc d' e' he'
      have hok' : ∀ d', ∀ e' ∈ upd rem d0 rest d', EvOk1 cls macLen e' := by
        intro d' e' he'
        by_cases hd : d' = d0
        · subst hd
          simp only [upd, if_true] at he'
          exact hok d' e' (by rw [hrem]; simp [he'])
        · simp only [upd, hd, if_false] at he'
          exact hok d' e' he'
      have hfil' : ∀ d', (M'.filter fun q => q.2 == d').map (·.1.raw)
          = sendDir P L cls ver ((x.set d0 (evNext P L cls ver (x.get d0) e)).get d') (upd rem d0 rest d') := by
        intro d'
        by_cases hd : d' = d0
        · subst hd
          rw [Lemmas.RecLayer.sget_set]
          simpa [upd] using htail
        · rw [sget_set_ne _ _ _ _ hd]
          simp only [upd, hd, if_false]
          rw [← hfil d', filter_dir_cons_other _ _ _ _ hd]
      have hq' : max (x.set d0 (evNext P L cls ver (x.get d0) e)).c.seq (x.set d0 (evNext P L cls ver (x.get d0) e)).s.seq
          + (cost (upd rem d0 rest false) + cost (upd rem d0 rest true)) ≤ seqLimit := by
        have : cost (upd rem d0 rest false) + cost (upd rem d0 rest true) = cost rest + cost (rem (!d0)) := by
          cases d0 <;> simp [upd] <;> omega
        rw [this]; omega
      have := ih _ _ (upd rem d0 rest) g1 hsc' hok' hfil' hq' d
      simp only [Session.run, List.foldl_cons] at this ⊢
      rw [this, g4 d]
      by_cases hd : d = d0
      · subst hd
        simp only [upd, if_true, hrem]
        rw [plainOf_cons e rest, List.append_assoc]
      · simp [upd, hd]

-- ------------------------------------------------------------------ the hello phase
theorem serverHello_flags (O : Session.Ops Dec) (s : Session.St Dec) (r : Session.Rec) :
    (Session.serverHello O s r).st.srvCC = s.srvCC ∧ (Session.serverHello O s r).st.cliCC = s.cliCC := by
  have hl : (Session.latch s).srvCC = s.srvCC ∧ (Session.latch s).cliCC = s.cliCC := by
    unfold Session.latch; split <;> exact ⟨rfl, rfl⟩
  have hc : ∀ (t : Session.St Dec) (a b : Nat) (c : Bool),
      (Session.chooseVersion t a b c).srvCC = t.srvCC ∧ (Session.chooseVersion t a b c).cliCC = t.cliCC := by
    intro t a b c; unfold Session.chooseVersion; repeat' split
    all_goals exact ⟨rfl, rfl⟩
  have hk : ∀ (t : Session.St Dec) (su sr : Bytes) (e : Session.Exts) (c : UInt8),
      (Session.serverHelloKeys O t su sr e c).st.srvCC = t.srvCC ∧ (Session.serverHelloKeys O t su sr e c).st.cliCC = t.cliCC := by
    intro t su sr e c; unfold Session.serverHelloKeys
    cases t.cr with
    | none => exact ⟨rfl, rfl⟩
    | some cr => simp only; split <;> exact ⟨rfl, rfl⟩
  unfold Session.serverHello
  simp only
  split
  · exact hl
  · split
    · exact hl
    · exact ⟨(hk _ _ _ _ _).1.trans ((hc _ _ _ _).1.trans hl.1), (hk _ _ _ _ _).2.trans ((hc _ _ _ _).2.trans hl.2)⟩

/-- a handshake-type record arriving while no ChangeCipherSpec has been seen leaves both flags clear (without `-a`) -/
theorem handle_hs_flags (O : Session.Ops Dec) (s : Session.St Dec) (r : Session.Rec) (d : Bool)
    (ht : r.typ = some 0x16) (h : s.srvCC = false ∧ s.cliCC = false) :
    (Session.handleRecord O false s r d).srvCC = false ∧ (Session.handleRecord O false s r d).cliCC = false := by
  have hfin : (Session.handshakeFinished O false s r d).st.srvCC = s.srvCC ∧
      (Session.handshakeFinished O false s r d).st.cliCC = s.cliCC := by
    unfold Session.handshakeFinished
    split
    · exact ⟨rfl, rfl⟩
    · split
      · split
        · exact ⟨rfl, rfl⟩
        · simp only [Bool.false_and, Bool.false_eq_true, if_false]; exact ⟨rfl, rfl⟩
      · exact ⟨rfl, rfl⟩
  have hst : (Session.handshakeRecord O false s r d).st.srvCC = false ∧
      (Session.handshakeRecord O false s r d).st.cliCC = false := by
    unfold Session.handshakeRecord
    simp only [h.1, h.2, Bool.or_self, Bool.false_eq_true, if_false]
    split
    · exact h
    · split
      · exact ⟨rfl, rfl⟩
      · split
        · have := serverHello_flags O s r
          cases hsh : Session.serverHello O s r with
          | ok s' => rw [hsh] at this; exact ⟨this.1.trans h.1, this.2.trans h.2⟩
          | raised s' => rw [hsh] at this; exact ⟨this.1.trans h.1, this.2.trans h.2⟩
        · rw [Session.tryExcept_id_st]; exact ⟨hfin.1.trans h.1, hfin.2.trans h.2⟩
  unfold Session.handleRecord Session.handleRecordRaw
  rw [ht]
  simp only [if_true]
  have hok := Session.handshakeRecord_isOk O false s r d
  cases hr : Session.handshakeRecord O false s r d with
  | raised s1 => rw [hr] at hok; cases hok
  | ok s1 => rw [hr] at hst; exact hst

/-- a prefix of a TLS ≤ 1.2 script's records that contains no ChangeCipherSpec record lies in the clear-text part -/
theorem prefix_clear (P : Prims) (L : SealLaws P) (cls : CipherClass) (ver : Bytes) (sd : SDir) (A : List Bytes) :
    ∀ (cl : List Bytes) (rest : List DirEv) (B : List Bytes),
      A ++ B = sendDir P L cls ver sd (cl.map DirEv.clear ++ DirEv.ccs :: rest) → (∀ r ∈ A, r.head? ≠ some 20) →
      ∃ cl1 cl2, cl = cl1 ++ cl2 ∧ A = cl1.map (record 22 ver) ∧
        B = sendDir P L cls ver sd (cl2.map DirEv.clear ++ DirEv.ccs :: rest) := by
  induction A with
  | nil => intro cl rest B h _; exact ⟨[], cl, rfl, rfl, by simpa using h⟩
  | cons r A ih =>
    intro cl rest B h hno
    cases cl with
    | nil =>
      simp only [List.map_nil, List.nil_append, sendDir, List.cons_append, List.cons.injEq] at h
      have := hno r (by simp)
      rw [h.1] at this
      simp [record] at this
    | cons b cl =>
      simp only [List.map_cons, List.cons_append, sendDir, List.cons.injEq] at h
      obtain ⟨cl1, cl2, h1, h2, h3⟩ := ih cl rest B h.2 (fun r' hr' => hno r' (by simp [hr']))
      exact ⟨b :: cl1, cl2, by rw [h1]; rfl, by rw [h.1, h2]; rfl, h3⟩

theorem filter_all {α : Type} (p : α → Bool) (l : List α) (h : ∀ a ∈ l, p a = true) : l.filter p = l :=
  List.filter_eq_self.mpr h

theorem filter_none {α : Type} (p : α → Bool) (l : List α) (h : ∀ a ∈ l, p a = false) : l.filter p = [] :=
  List.filter_eq_nil_iff.mpr (fun a ha => by simp [h a ha])

/-- the causality hypothesis of TLS ≤ 1.2 unfolded against the two record lists: the released records are the
    ClientHello, then clear-text client records (no hello, no ChangeCipherSpec), then the ServerHello, then an
    interleaving of what remains -/
theorem hello_split (P : Prims) (L : SealLaws P) (cls : CipherClass) (ver : Bytes) (xc xs : SDir) (chR shR : Bytes)
    (cl : List Bytes) (rest sEvs : List DirEv) (M pre post : List (Session.Rec × Bool))
    (hC : (M.filter fun q => q.2 == false).map (·.1.raw)
      = chR :: sendDir P L cls ver xc (cl.map DirEv.clear ++ DirEv.ccs :: rest))
    (hS : (M.filter fun q => q.2 == true).map (·.1.raw) = shR :: sendDir P L cls ver xs sEvs)
    (hsplit : M = pre ++ post) (hne : pre ≠ []) (hpre : ∀ q ∈ pre, q.2 = false ∧ q.1.typ ≠ some 20)
    (hpost : ∃ q post', post = q :: post' ∧ q.2 = true) :
    ∃ (c0 : List Nat) (noise : List (Session.Rec × Bool)) (c1 : List Nat) (M' : List (Session.Rec × Bool))
      (cl2 : List Bytes), M = (⟨chR, c0⟩, false) :: (noise ++ (⟨shR, c1⟩, true) :: M') ∧
      (∀ q ∈ noise, ∃ b car, q = (⟨record 22 ver b, car⟩, false) ∧ b ∈ cl) ∧ (∀ b ∈ cl2, b ∈ cl) ∧
      cl2.length ≤ cl.length ∧
      (M'.filter fun q => q.2 == false).map (·.1.raw) = sendDir P L cls ver xc (cl2.map DirEv.clear ++ DirEv.ccs :: rest) ∧
      (M'.filter fun q => q.2 == true).map (·.1.raw) = sendDir P L cls ver xs sEvs := by
  obtain ⟨q, post', rfl, hq⟩ := hpost
  obtain ⟨rq, dq⟩ := q
  simp only at hq
  subst hq
  have hpf : pre.filter (fun q => q.2 == false) = pre := filter_all _ _ (fun a ha => by simp [(hpre a ha).1])
  have hpt : pre.filter (fun q => q.2 == true) = [] := filter_none _ _ (fun a ha => by simp [(hpre a ha).1])
  subst hsplit
  rw [List.filter_append, hpf, List.map_append] at hC
  rw [List.filter_append, hpt, List.nil_append, filter_dir_cons_same, List.map_cons] at hS
  rw [filter_dir_cons_other _ _ _ _ (by decide)] at hC
  simp only [List.cons.injEq] at hS
  obtain ⟨hs1, hs2⟩ := hS
  cases pre with
  | nil => exact absurd rfl hne
  | cons q0 pre' =>
    obtain ⟨r0, d0⟩ := q0
    have hd0 : d0 = false := (hpre (r0, d0) (by simp)).1
    subst hd0
    simp only [List.map_cons, List.cons_append, List.cons.injEq] at hC
    obtain ⟨hc1, hc2⟩ := hC
    obtain ⟨cl1, cl2, e1, e2, e3⟩ := prefix_clear P L cls ver xc (pre'.map (·.1.raw)) cl rest _ hc2 (by
      intro r hr
      obtain ⟨q, hq, rfl⟩ := List.mem_map.mp hr
      exact (hpre q (by simp [hq])).2)
    refine ⟨r0.carriers, pre', rq.carriers, post', cl2, ?_, ?_, ?_, by rw [e1]; simp, e3, hs2⟩
    · have h0 : r0 = ⟨chR, r0.carriers⟩ := by have h : r0.raw = chR := hc1; rw [← h]
      have h1 : rq = ⟨shR, rq.carriers⟩ := by have h : rq.raw = shR := hs1; rw [← h]
      rw [← h0, ← h1]; rfl
    · intro q hq
      have hmem : q.1.raw ∈ cl1.map (record 22 ver) := by rw [← e2]; exact List.mem_map_of_mem hq
      obtain ⟨b, hb, hbe⟩ := List.mem_map.mp hmem
      refine ⟨b, q.1.carriers, ?_, by rw [e1]; simp [hb]⟩
      obtain ⟨qr, qd⟩ := q
      have : qd = false := (hpre (qr, qd) (by simp [hq])).1
      subst this
      have h : qr.raw = record 22 ver b := hbe.symm
      rw [← h]
    · intro b hb; rw [e1]; simp [hb]

theorem run_noops (O : Session.Ops Dec) (m : Bool) (s : Session.St Dec) (l : List (Session.Rec × Bool))
    (h : ∀ q ∈ l, Session.handleRecord O m s q.1 q.2 = s) : Session.run O m s l = s := by
  induction l with
  | nil => rfl
  | cons q l ih =>
    simp only [Session.run, List.foldl_cons]
    rw [h q (by simp)]
    exact ih (fun q' hq' => h q' (by simp [hq']))

theorem handle_clientHello (O : Session.Ops Dec) (s0 : Session.St Dec) (h0 : s0.srvCC = false ∧ s0.cliCC = false)
    (rv : Bytes) (hrv : rv.length = 2) (ch : Spec.TlsHello.ClientHello) (hch : ch.WellFormed) (car : List Nat) :
    Session.handleRecord O false s0 ⟨record 22 rv (Spec.TlsHello.encodeClientHello ch), car⟩ false
      = Session.clientHello s0 ⟨record 22 rv (Spec.TlsHello.encodeClientHello ch), car⟩ := by
  obtain ⟨_, rest, hd⟩ := clientHello_layout ch hch
  unfold Session.handleRecord Session.handleRecordRaw
  rw [record_typ]
  simp only [if_true, Session.handshakeRecord, h0.1, h0.2, Bool.or_self, Bool.false_eq_true, if_false,
    record_body 22 rv _ car hrv]
  rw [hd]
  simp only [if_true, Session.Out.st]
  rfl

theorem plainOf_clear_prefix (cl : List Bytes) (r : List DirEv) :
    Spec.TlsConnection.plainOf (cl.map DirEv.clear ++ DirEv.ccs :: r) = Spec.TlsConnection.plainOf r := by
  induction cl with
  | nil => rfl
  | cons b cl ih => simpa [Spec.TlsConnection.plainOf] using ih

theorem sendDir_length (P : Prims) (L : SealLaws P) (cls : CipherClass) (ver : Bytes) (sd : SDir) (l : List DirEv) :
    (sendDir P L cls ver sd l).length = l.length := by
  induction l generalizing sd with
  | nil => rfl
  | cons e r ih => rw [sendDir_cons, List.length_cons, ih, List.length_cons]

theorem length_by_dir (M : List (Session.Rec × Bool)) :
    M.length = (M.filter fun q => q.2 == false).length + (M.filter fun q => q.2 == true).length := by
  induction M with
  | nil => rfl
  | cons q M ih =>
    obtain ⟨r, d⟩ := q
    cases d <;> simp [List.filter_cons, ih] <;> omega

theorem cost_length (l : List DirEv) (h : ∀ e ∈ l, ∀ ms f, e ≠ DirEv.hs13 ms f) : cost l = l.length := by
  induction l with
  | nil => rfl
  | cons e r ih =>
    have := ih (fun e' he' => h e' (by simp [he']))
    cases e with
    | hs13 ms f => exact absurd rfl (h _ (by simp) ms f)
    | _ => simp [cost, this]; omega

-- ------------------------------------------------------------------ the TLS 1.3 handshake buffers after the hellos
theorem serverHello_bufs (O : Session.Ops Dec) (s : Session.St Dec) (r : Session.Rec) :
    (Session.serverHello O s r).st.hsBufC = s.hsBufC ∧ (Session.serverHello O s r).st.hsBufS = s.hsBufS := by
  have hl : (Session.latch s).hsBufC = s.hsBufC ∧ (Session.latch s).hsBufS = s.hsBufS := by
    unfold Session.latch; split <;> exact ⟨rfl, rfl⟩
  have hc : ∀ (t : Session.St Dec) (a b : Nat) (c : Bool),
      (Session.chooseVersion t a b c).hsBufC = t.hsBufC ∧ (Session.chooseVersion t a b c).hsBufS = t.hsBufS := by
    intro t a b c; unfold Session.chooseVersion; repeat' split
    all_goals exact ⟨rfl, rfl⟩
  have hk : ∀ (t : Session.St Dec) (su sr : Bytes) (e : Session.Exts) (c : UInt8),
      (Session.serverHelloKeys O t su sr e c).st.hsBufC = t.hsBufC ∧
      (Session.serverHelloKeys O t su sr e c).st.hsBufS = t.hsBufS := by
    intro t su sr e c; unfold Session.serverHelloKeys
    cases t.cr with
    | none => exact ⟨rfl, rfl⟩
    | some cr => simp only; split <;> exact ⟨rfl, rfl⟩
  unfold Session.serverHello
  simp only
  split
  · exact hl
  · split
    · exact hl
    · exact ⟨(hk _ _ _ _ _).1.trans ((hc _ _ _ _).1.trans hl.1), (hk _ _ _ _ _).2.trans ((hc _ _ _ _).2.trans hl.2)⟩

/-- after the ClientHello and the ServerHello record (RFC-encoded, no ChangeCipherSpec seen before) both TLS 1.3
    handshake buffers are empty: the ClientHello clears them, the ServerHello does not touch them -/
theorem hello_pair_bufs (O : Session.Ops Dec) (m : Bool) (s0 : Session.St Dec)
    (h0 : s0.srvCC = false ∧ s0.cliCC = false) (rvC rvS : Bytes) (hrc : rvC.length = 2) (hrs : rvS.length = 2)
    (ch : Spec.TlsHello.ClientHello) (hch : ch.WellFormed) (sh : Spec.TlsHello.ServerHello) (c0 c1 : List Nat) :
    ∀ d, (Session.handleRecord O m (Session.handleRecord O m s0
        ⟨record 22 rvC (Spec.TlsHello.encodeClientHello ch), c0⟩ false)
        ⟨record 22 rvS (Spec.TlsHello.encodeServerHello sh), c1⟩ true).hsBuf d = [] := by
  have hfalse : ∀ (s0 : Session.St Dec), s0.srvCC = false ∧ s0.cliCC = false →
      ∀ d, (Session.handleRecord O false (Session.handleRecord O false s0
        ⟨record 22 rvC (Spec.TlsHello.encodeClientHello ch), c0⟩ false)
        ⟨record 22 rvS (Spec.TlsHello.encodeServerHello sh), c1⟩ true).hsBuf d = [] := by
    intro s0 h0 d
    rw [handle_clientHello O s0 h0 rvC hrc ch hch c0]
    obtain ⟨shrest, hshd⟩ : ∃ rest, Spec.TlsHello.encodeServerHello sh = 2 :: rest :=
      ⟨_, by simp only [Spec.TlsHello.encodeServerHello, Spec.TlsHello.handshake, Lemmas.TlsHello.u8_eq,
        List.cons_append, List.nil_append]; rfl⟩
    have hb := serverHello_bufs O (Session.clientHello s0 ⟨record 22 rvC (Spec.TlsHello.encodeClientHello ch), c0⟩)
      ⟨record 22 rvS (Spec.TlsHello.encodeServerHello sh), c1⟩
    have hcore : (Session.handleRecord O false (Session.clientHello s0 ⟨record 22 rvC (Spec.TlsHello.encodeClientHello ch), c0⟩)
        ⟨record 22 rvS (Spec.TlsHello.encodeServerHello sh), c1⟩ true)
        = (Session.tryExcept (Session.serverHello O (Session.clientHello s0 ⟨record 22 rvC (Spec.TlsHello.encodeClientHello ch), c0⟩)
            ⟨record 22 rvS (Spec.TlsHello.encodeServerHello sh), c1⟩) fun s' => { s' with canDecrypt := false }).st := by
      unfold Session.handleRecord Session.handleRecordRaw
      rw [record_typ]
      simp only [if_true, Session.handshakeRecord, Session.clientHello, Bool.or_self, Bool.false_eq_true, if_false,
        record_body 22 rvS _ c1 hrs]
      rw [hshd]
      have h21 : ((2 : UInt8) = 1) = False := by decide
      simp only [h21, if_false, if_true]
      cases Session.serverHello O _ _ <;> rfl
    rw [hcore]
    cases hsh : Session.serverHello O (Session.clientHello s0 ⟨record 22 rvC (Spec.TlsHello.encodeClientHello ch), c0⟩)
        ⟨record 22 rvS (Spec.TlsHello.encodeServerHello sh), c1⟩ with
    | ok s' => rw [hsh] at hb; cases d <;> simp [Session.tryExcept, Session.Out.st, Session.St.hsBuf, hb.1, hb.2, Session.clientHello] at hb ⊢ <;> simp [hb]
    | raised s' => rw [hsh] at hb; cases d <;> simp [Session.tryExcept, Session.Out.st, Session.St.hsBuf, hb.1, hb.2, Session.clientHello] at hb ⊢ <;> simp [hb]
  cases m
  · exact hfalse s0 h0
  · intro d
    have h1 := Session.handleRecord_strip O s0 ⟨record 22 rvC (Spec.TlsHello.encodeClientHello ch), c0⟩ false
    have h2 := Session.handleRecord_strip O (Session.handleRecord O true s0
      ⟨record 22 rvC (Spec.TlsHello.encodeClientHello ch), c0⟩ false) ⟨record 22 rvS (Spec.TlsHello.encodeServerHello sh), c1⟩ true
    rw [h1] at h2
    have := hfalse s0.strip h0 d
    rw [← h2, Session.strip_hsBuf] at this
    exact this

end TLX.Lemmas.Capstone
