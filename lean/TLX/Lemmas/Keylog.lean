/-
Helper lemmas for C09 (`TLX.Props.C09`): splitting, hex coding, the recogniser against the
declarative NSS specification, and the lookups on key lists that represent a set of triples.
-/
import TLX.Keylog
import TLX.Spec.NssKeylog
namespace TLX.Lemmas.Keylog
open TLX.Keylog TLX.Spec.NssKeylog

/-! ### `splitOn` -/

theorem splitOn_ne_nil (sep : Nat) (s : Str) : splitOn sep s ≠ [] := by
  induction s with
  | nil => simp [splitOn]
  | cons c cs ih =>
    simp only [splitOn]
    split
    · simp
    · cases h : splitOn sep cs with
      | nil => exact absurd h ih
      | cons a b => simp [consHead]

theorem consHead_append (c : Nat) (a b : List Str) (h : a ≠ []) :
    consHead c (a ++ b) = consHead c a ++ b := by
  cases a with
  | nil => exact absurd rfl h
  | cons x xs => simp [consHead]

/-- `(a + sep + b).split(sep) == a.split(sep) + b.split(sep)` -/
theorem splitOn_append (sep : Nat) (a b : Str) :
    splitOn sep (a ++ sep :: b) = splitOn sep a ++ splitOn sep b := by
  induction a with
  | nil => simp [splitOn]
  | cons c cs ih =>
    simp only [List.cons_append, splitOn]
    split
    · simp [ih]
    · rw [ih, consHead_append _ _ _ (splitOn_ne_nil sep cs)]

theorem splitOn_of_not_mem (sep : Nat) (a : Str) (h : sep ∉ a) : splitOn sep a = [a] := by
  induction a with
  | nil => simp [splitOn]
  | cons c cs ih =>
    have hc : c ≠ sep := fun e => h (by simp [e])
    have hcs : sep ∉ cs := fun e => h (by simp [e])
    simp [splitOn, hc, ih hcs, consHead]

theorem splitOn_filter (sep : Nat) (p : Nat → Bool) (hp : p sep = true) (s : Str) :
    splitOn sep (s.filter p) = (splitOn sep s).map (·.filter p) := by
  induction s with
  | nil => simp [splitOn]
  | cons c cs ih =>
    by_cases hc : c = sep
    · subst hc
      simp [hp, splitOn, ih]
    · cases h : splitOn sep cs with
      | nil => exact absurd h (splitOn_ne_nil sep cs)
      | cons a b =>
        rw [h] at ih
        by_cases hpc : p c = true
        · simp [List.filter_cons, hpc, splitOn, hc, ih, h, consHead]
        · simp [List.filter_cons, hpc, splitOn, hc, ih, h, consHead]

theorem splitLF_eq (t : Str) : splitLF t = splitOn 10 t := by
  induction t with
  | nil => simp [splitLF, splitOn]
  | cons c cs ih =>
    simp only [splitLF, splitOn, ih]
    cases h : splitOn 10 cs with
    | nil => exact absurd h (splitOn_ne_nil 10 cs)
    | cons a b => by_cases hc : c = 10 <;> simp [hc, consHead]

/-! ### hex coding -/

theorem digitVal_eq_hexVal (c : Nat) : digitVal c = hexVal c := by
  by_cases h : c < 128
  · exact (by decide : ∀ c, c < 128 → digitVal c = hexVal c) c h
  · have e1 : hexVal c = none := by
      unfold hexVal
      repeat' split
      all_goals first | omega | rfl
    have e2 : digitVal c = none := by
      have hne : ∀ d, d < 128 → ¬ c = d := by intro d hd; omega
      simp [digitVal, pos?, lowerDigits, upperDigits, hne]
    rw [e1, e2]

/-- a hex digit is no whitespace, no space, and lower-casing it gives the digit `bytes.hex` prints -/
theorem hexVal_facts (c n : Nat) (h : hexVal c = some n) :
    n < 16 ∧ isWs c = false ∧ c ≠ 32 ∧ (if 65 ≤ c ∧ c ≤ 90 then c + 32 else c) = hexDigit n ∧
    (hexLower c || hexUpper c) = true ∧ (hexLower c = true → c = hexDigit n) := by
  unfold hexVal at h
  have hr : (48 ≤ c ∧ c ≤ 57 ∧ n = c - 48) ∨ (97 ≤ c ∧ c ≤ 102 ∧ n = c - 87) ∨ (65 ≤ c ∧ c ≤ 70 ∧ n = c - 55) := by
    split at h
    · cases h; omega
    · split at h
      · cases h; omega
      · split at h
        · cases h; omega
        · cases h
  simp only [isWs, hexDigit, hexLower, hexUpper, Bool.or_eq_true, Bool.and_eq_true, decide_eq_true_eq,
    Bool.or_eq_false_iff, Bool.and_eq_false_iff, decide_eq_false_iff_not, beq_eq_false_iff_ne]
  refine ⟨by omega, ⟨by omega, by omega⟩, by omega, ?_, by omega, ?_⟩
  · split <;> split <;> omega
  · intro _; split <;> omega


theorem isHexOf_nil {h : Str} (H : IsHexOf h []) : h = [] := by
  cases h with
  | nil => rfl
  | cons a r => cases r <;> simp [IsHexOf] at H

theorem isHexOf_cons {h : Str} {x : Nat} {xs : List Nat} (H : IsHexOf h (x :: xs)) :
    ∃ a b r, h = a :: b :: r ∧ x < 256 ∧ hexVal a = some (x / 16) ∧ hexVal b = some (x % 16) ∧
      IsHexOf r xs := by
  match h, H with
  | a :: b :: r, H =>
    simp only [IsHexOf, digitVal_eq_hexVal] at H
    exact ⟨a, b, r, rfl, H.1, H.2.1, H.2.2.1, H.2.2.2⟩
  | [], H => simp [IsHexOf] at H
  | [_], H => simp [IsHexOf] at H

theorem fromHex_of_isHexOf {h : Str} {b : List Nat} (H : IsHexOf h b) : fromHex h = some b := by
  induction b generalizing h with
  | nil => rw [isHexOf_nil H]; rfl
  | cons x xs ih =>
    obtain ⟨a, c, r, rfl, hx, ha, hc, hr⟩ := isHexOf_cons H
    have fa := hexVal_facts a _ ha
    simp only [fromHex, fa.2.1, ha, hc, ih hr]
    have := Nat.div_add_mod x 16
    simp; omega

theorem lower_of_isHexOf {h : Str} {b : List Nat} (H : IsHexOf h b) : lower h = hexOf b := by
  induction b generalizing h with
  | nil => rw [isHexOf_nil H]; rfl
  | cons x xs ih =>
    obtain ⟨a, c, r, rfl, hx, ha, hc, hr⟩ := isHexOf_cons H
    have fa := hexVal_facts a _ ha
    have fc := hexVal_facts c _ hc
    have := ih hr
    simp only [lower, List.map_cons, hexOf] at this ⊢
    rw [fa.2.2.2.1, fc.2.2.2.1, this]

theorem props_of_isHexOf {h : Str} {b : List Nat} (H : IsHexOf h b) :
    32 ∉ h ∧ h.all (HexClass.any.ok) = true ∧ h.length = 2 * b.length ∧
    h.all (fun c => (digitVal c).isSome) = true ∧ (h.all hexLower = true → h.all HexClass.lower.ok = true) := by
  induction b generalizing h with
  | nil => rw [isHexOf_nil H]; simp
  | cons x xs ih =>
    obtain ⟨a, c, r, rfl, hx, ha, hc, hr⟩ := isHexOf_cons H
    have fa := hexVal_facts a _ ha
    have fc := hexVal_facts c _ hc
    obtain ⟨i1, i2, i3, i4, i5⟩ := ih hr
    refine ⟨?_, ?_, ?_, ?_, ?_⟩
    · simp [i1]; exact ⟨fun e => fa.2.2.1 e.symm, fun e => fc.2.2.1 e.symm⟩
    · simp only [List.all_cons, HexClass.ok, fa.2.2.2.2.1, fc.2.2.2.2.1, Bool.true_and]; exact i2
    · simp [i3]; omega
    · simp only [digitVal_eq_hexVal] at i4 ⊢
      simp only [List.all_cons, ha, hc, Option.isSome_some, Bool.true_and]; exact i4
    · exact fun h => h


theorem hexDigit_inj {m n : Nat} (h : hexDigit m = hexDigit n) : m = n := by
  unfold hexDigit at h
  split at h <;> split at h <;> omega

theorem hexOf_inj : ∀ {a b : List Nat}, hexOf a = hexOf b → a = b
  | [], [], _ => rfl
  | [], _ :: _, h => by simp [hexOf] at h
  | _ :: _, [], h => by simp [hexOf] at h
  | x :: xs, y :: ys, h => by
    simp only [hexOf, List.cons.injEq] at h
    have h1 := hexDigit_inj h.1
    have h2 := hexDigit_inj h.2.1
    have := hexOf_inj h.2.2
    have := Nat.div_add_mod x 16
    have := Nat.div_add_mod y 16
    simp; exact ⟨by omega, by assumption⟩

theorem lowerChar_hexDigit (n : Nat) : (if 65 ≤ hexDigit n ∧ hexDigit n ≤ 90 then hexDigit n + 32 else hexDigit n) = hexDigit n := by
  unfold hexDigit
  split <;> split <;> omega

theorem lower_hexOf (b : List Nat) : lower (hexOf b) = hexOf b := by
  induction b with
  | nil => rfl
  | cons x xs ih =>
    simp only [lower, hexOf, List.map_cons] at ih ⊢
    rw [lowerChar_hexDigit, lowerChar_hexDigit, ih]

theorem crMatch_eq {s : Str} {b : List Nat} (h : lower s = hexOf b) (cr : List Nat) :
    (lower s == lower (hexOf cr)) = decide (b = cr) := by
  rw [h, lower_hexOf]
  by_cases e : b = cr
  · simp [e]
  · have : hexOf b ≠ hexOf cr := fun h' => e (hexOf_inj h')
    simp [e, this]


/-! ### one line: the recogniser against the declarative specification -/

theorem takeWhile_dropWhile_stop (p : Nat → Bool) (l r : Str) (c : Nat) (hl : l.all p = true)
    (hc : p c = false) :
    (l ++ c :: r).takeWhile p = l ∧ (l ++ c :: r).dropWhile p = c :: r := by
  induction l with
  | nil => simp [hc]
  | cons x xs ih =>
    simp only [List.all_cons, Bool.and_eq_true] at hl
    simp [hl.1, ih hl.2]

theorem all_takeWhile (p : Nat → Bool) (l : Str) : (l.takeWhile p).all p = true := by
  induction l with
  | nil => rfl
  | cons x xs ih =>
    by_cases h : p x = true
    · simp [List.takeWhile, h]
    · simp [List.takeWhile, h]

theorem nss_facts : ∀ l ∈ nssLabels, 32 ∉ l ∧ l.all isLabelChar = true ∧ 3 ≤ l.length ∧
    l.length ≤ 32 ∧ l ≠ s_RSA := by decide

/-- A line that denotes a triple is split by `Key.__init__` into exactly its three fields. -/
theorem keyOfLine_of_denotes {line : Str} {tr : Triple} {hc hv : Str}
    (H : DenotesVia line tr hc hv) : keyOfLine line = some ⟨tr.label, hc, hv⟩ := by
  obtain ⟨rfl, hl, hcr, _, hsec, _⟩ := H
  have n1 := (nss_facts _ hl).1
  have n2 := (props_of_isHexOf hcr).1
  have n3 := (props_of_isHexOf hsec).1
  simp only [keyOfLine, splitOn_append, splitOn_of_not_mem 32 _ n1, splitOn_of_not_mem 32 _ n2,
    splitOn_of_not_mem 32 _ n3, List.cons_append, List.nil_append]

/-- … and the pattern accepts it, provided the client-random digits are in the pattern's class. -/
theorem accepts_of_denotes {hx : HexClass} {line : Str} {tr : Triple} {hc hv : Str}
    (H : DenotesVia line tr hc hv) (hcls : hc.all hx.ok = true) : accepts hx line = true := by
  obtain ⟨rfl, hl, hcr, hlen, hsec, _⟩ := H
  obtain ⟨_, f2, f3, f4, _⟩ := nss_facts _ hl
  have e : tr.label ++ 32 :: hc ++ 32 :: hv = tr.label ++ 32 :: (hc ++ 32 :: hv) := by simp
  have tw := takeWhile_dropWhile_stop isLabelChar tr.label (hc ++ 32 :: hv) 32 f2 (by decide)
  have l64 : hc.length = 64 := by rw [(props_of_isHexOf hcr).2.2.1, hlen]
  simp only [accepts, e, tw.1, tw.2, List.take_left' l64, List.drop_left' l64, l64, hcls]
  simp [f3, f4]

theorem isLabelChar_word (c : Nat) (h : isLabelChar c = true) : isWordChar c = true := by
  simp only [isLabelChar, isWordChar, Bool.or_eq_true, Bool.and_eq_true, decide_eq_true_eq, beq_iff_eq] at h ⊢
  omega

theorem ok_digit (hx : HexClass) (c : Nat) (h : hx.ok c = true) : (digitVal c).isSome = true := by
  rw [digitVal_eq_hexVal]
  cases hx <;>
  · simp only [HexClass.ok, hexLower, hexUpper, Bool.or_eq_true, Bool.and_eq_true, decide_eq_true_eq] at h
    unfold hexVal
    repeat' split
    all_goals first | rfl | omega

/-- What the pattern accepts looks like a secret line in the sense of the specification. -/
theorem looks_of_accepts {hx : HexClass} {line : Str} (H : accepts hx line = true) :
    LooksLikeKey line := by
  simp only [accepts, Bool.and_eq_true, decide_eq_true_eq] at H
  obtain ⟨⟨h3, _⟩, hm⟩ := H
  have hsplit := List.takeWhile_append_dropWhile (p := isLabelChar) (l := line)
  generalize hd : line.dropWhile isLabelChar = d at hm hsplit
  generalize hw : line.takeWhile isLabelChar = w at h3 hsplit
  match d, hm with
  | 32 :: r, hm =>
    simp only [Bool.and_eq_true, beq_iff_eq] at hm
    obtain ⟨⟨hl, hall⟩, hhead⟩ := hm
    have hr : r = r.take 64 ++ r.drop 64 := (List.take_append_drop 64 r).symm
    generalize hdr : r.drop 64 = dr at hhead hr
    match dr, hhead with
    | 32 :: rest, _ =>
      refine ⟨w, r.take 64, rest, ?_, ?_, ?_, hl, ?_⟩
      · have e : w ++ 32 :: List.take 64 r ++ 32 :: rest = w ++ 32 :: r := by
          simp only [List.append_assoc, List.cons_append]; rw [← hr]
        rw [e, hsplit]
      · intro e; subst e; simp at h3
      · have := all_takeWhile isLabelChar line
        rw [hw, List.all_eq_true] at this
        rw [List.all_eq_true]
        intro c hc
        exact isLabelChar_word c (this c hc)
      · rw [List.all_eq_true] at hall ⊢
        intro c hc
        exact ok_digit hx c (hall c hc)


/-! ### a whole text: the parser's key list represents the set of triples the text denotes -/

/-- `k` is the key of the triple `tr`: what the lookups read off `k` is what `tr` says. -/
structure KeyOf (k : Key) (tr : Triple) : Prop where
  label : k.label = tr.label
  nss : tr.label ∈ nssLabels
  cr : fromHex k.clientRandom = some tr.cr
  crLower : lower k.clientRandom = hexOf tr.cr
  value : fromHex k.value = some tr.secret

theorem keyOf_of_denotes {line : Str} {tr : Triple} {hc hv : Str} (H : DenotesVia line tr hc hv) :
    KeyOf ⟨tr.label, hc, hv⟩ tr :=
  ⟨rfl, H.2.1, fromHex_of_isHexOf H.2.2.1, lower_of_isHexOf H.2.2.1, fromHex_of_isHexOf H.2.2.2.2.1⟩

theorem filter_of_stripCR (l : Str) (h : 13 ∉ stripCR l) : l.filter (· ≠ 13) = stripCR l := by
  unfold stripCR at h ⊢
  split
  · rename_i hl
    rw [if_pos hl] at h
    obtain ⟨ys, rfl⟩ := List.getLast?_eq_some_iff.mp hl
    simp only [List.dropLast_concat] at h ⊢
    rw [List.filter_append, List.filter_eq_self.mpr]
    · simp
    · intro a ha; simp; intro e'; exact h (e' ▸ ha)
  · rename_i hl
    rw [if_neg hl] at h
    rw [List.filter_eq_self]
    intro a ha; simp; intro e'; exact h (e' ▸ ha)

/-- For texts whose CRs belong to CRLF line ends, the parser's lines are the specification's. -/
theorem model_lines_eq (t : Str) (h : ∀ l ∈ lines t, 13 ∉ l) : splitOn 10 (removeCR t) = lines t := by
  unfold removeCR lines
  rw [splitOn_filter 10 _ (by decide), splitLF_eq]
  apply List.map_congr_left
  intro l hl
  apply filter_of_stripCR
  apply h
  unfold lines
  rw [splitLF_eq]
  exact List.mem_map_of_mem hl

/-- The client-random digits of every secret line are in the pattern's class. -/
def CrInClass (hx : HexClass) (t : Str) : Prop :=
  ∀ l ∈ lines t, ∀ tr hc hv, DenotesVia l tr hc hv → hc.all hx.ok = true

theorem crInClass_any (t : Str) : CrInClass .any t :=
  fun _ _ _ _ _ H => (props_of_isHexOf H.2.2.1).2.1

/-! ### the lookups on a key list that represents a consistent set of triples -/

/-- `s` (the lines of one client random, in some order, with repetitions) carries exactly the
    secrets `σ`, one per label. -/
structure SelRep (s : List Key) (σ : Str → Option (List Nat)) : Prop where
  sound : ∀ k ∈ s, k.label ∈ nssLabels ∧ ∃ v, σ k.label = some v ∧ fromHex k.value = some v
  complete : ∀ l v, σ l = some v → ∃ k ∈ s, k.label = l

theorem selRep_nil_iff {s₁ s₂ : List Key} {σ : Str → Option (List Nat)} (h₁ : SelRep s₁ σ)
    (h₂ : SelRep s₂ σ) : s₁ = [] ↔ s₂ = [] := by
  have key : ∀ {a b : List Key}, SelRep a σ → SelRep b σ → b = [] → a = [] := by
    intro a b ha hb e
    cases a with
    | nil => rfl
    | cons k ks =>
      obtain ⟨_, v, hv, _⟩ := ha.sound k (by simp)
      obtain ⟨k', hk', _⟩ := hb.complete _ _ hv
      rw [e] at hk'; cases hk'
  exact ⟨key h₂ h₁, key h₁ h₂⟩

theorem scan_rep (labels : List Str) (σ : Str → Option (List Nat)) :
    ∀ (s : List Key) (st : Str → Option (List Nat)),
      (∀ k ∈ s, ∃ v, σ k.label = some v ∧ fromHex k.value = some v) →
      ∃ st', scan labels s st = some st' ∧
        ∀ l, st' l = if labels.contains l && s.any (·.label == l) then σ l else st l := by
  intro s
  induction s with
  | nil => intro st _; exact ⟨st, rfl, by simp⟩
  | cons k ks ih =>
    intro st hs
    obtain ⟨v, hσ, hv⟩ := hs k (by simp)
    have hks : ∀ k' ∈ ks, ∃ v, σ k'.label = some v ∧ fromHex k'.value = some v :=
      fun k' hk' => hs k' (by simp [hk'])
    by_cases hc : labels.contains k.label = true
    · obtain ⟨st', e, hst'⟩ := ih (fun l => if l = k.label then some v else st l) hks
      refine ⟨st', by simp only [scan, hc, if_true, hv, e], ?_⟩
      intro l
      rw [hst' l]
      by_cases hl : l = k.label
      · subst hl
        have hm : k.label ∈ labels := by simpa using hc
        simp [hm, hσ]
      · have : (k.label == l) = false := by simp; exact fun e => hl e.symm
        simp [hl, this]
    · obtain ⟨st', e, hst'⟩ := ih st hks
      refine ⟨st', by simp only [scan, hc, Bool.false_eq_true, if_false, e], ?_⟩
      intro l
      rw [hst' l]
      by_cases hl : k.label = l
      · subst hl
        have hm : ¬ k.label ∈ labels := by simpa using hc
        simp [hm]
      · have : (k.label == l) = false := by simp [hl]
        simp [this]

theorem scan_selRep (labels : List Str) {s : List Key} {σ : Str → Option (List Nat)}
    (h : SelRep s σ) :
    ∃ st', scan labels s (fun _ => none) = some st' ∧ ∀ l ∈ labels, st' l = σ l := by
  obtain ⟨st', e, hst'⟩ := scan_rep labels σ s (fun _ => none) (fun k hk => (h.sound k hk).2)
  refine ⟨st', e, ?_⟩
  intro l hl
  rw [hst' l]
  have hc : labels.contains l = true := by simp [hl]
  by_cases ha : s.any (·.label == l) = true
  · simp only [hc, ha, Bool.and_self, if_true]
  · simp only [hc, ha, Bool.and_false, Bool.false_eq_true, if_false]
    cases hσ : σ l with
    | none => rfl
    | some v =>
      obtain ⟨k, hk, hkl⟩ := h.complete l v hσ
      exact absurd (List.any_eq_true.mpr ⟨k, hk, by simp [hkl]⟩) ha


theorem installed13_of_selRep {K : List Key} {cr : List Nat} {σ : Str → Option (List Nat)}
    (h : SelRep (findSessionSecrets K cr) σ) :
    installed13 K cr = if findSessionSecrets K cr = [] then .missing else .ok (labels13.map σ) := by
  unfold installed13
  obtain ⟨st', e, hst'⟩ := scan_selRep labels13 h
  cases hs : findSessionSecrets K cr with
  | nil => simp
  | cons k ks =>
    rw [hs] at e
    simp only [e, reduceCtorEq, if_false]
    congr 1
    exact List.map_congr_left hst'

theorem rsa_not_nss : s_RSA ∉ nssLabels := by decide
theorem cr_nss : s_CLIENT_RANDOM ∈ nssLabels := by decide

theorem installed12_master_of_selRep {K : List Key} {cr : List Nat} {σ : Str → Option (List Nat)}
    (h : SelRep (findSessionSecrets K cr) σ) :
    installed12 .firstMaster K cr =
      match σ s_CLIENT_RANDOM with | some v => .ok (false, v) | none => .missing := by
  unfold installed12
  simp only
  generalize findSessionSecrets K cr = s at h
  cases hf : s.filter (fun k => k.label == s_CLIENT_RANDOM || k.label == s_RSA) with
  | nil =>
    simp only
    cases hσ : σ s_CLIENT_RANDOM with
    | none => rfl
    | some v =>
      obtain ⟨k, hk, hkl⟩ := h.complete _ _ hσ
      have : k ∈ s.filter (fun k => k.label == s_CLIENT_RANDOM || k.label == s_RSA) := by
        simp [List.mem_filter, hk, hkl]
      rw [hf] at this; cases this
  | cons k ks =>
    have hk : k ∈ s.filter (fun k => k.label == s_CLIENT_RANDOM || k.label == s_RSA) := by
      rw [hf]; simp
    simp only [List.mem_filter, Bool.or_eq_true, beq_iff_eq] at hk
    obtain ⟨hks, hlab⟩ := hk
    obtain ⟨hn, v, hσ, hv⟩ := h.sound k hks
    have hl : k.label = s_CLIENT_RANDOM := by
      rcases hlab with e | e
      · exact e
      · rw [e] at hn; exact absurd hn rsa_not_nss
    simp only [hl, if_true]
    rw [hl] at hσ
    simp [hσ, hv]

theorem installed12_first_of_selRep {K : List Key} {cr : List Nat} {σ : Str → Option (List Nat)}
    (h : SelRep (findSessionSecrets K cr) σ)
    (hmix : ∀ v, σ s_CLIENT_RANDOM = some v → ∀ l w, σ l = some w → l = s_CLIENT_RANDOM) :
    installed12 .first K cr =
      match σ s_CLIENT_RANDOM with
      | some v => .ok (false, v)
      | none => if findSessionSecrets K cr = [] then .missing else .unbound := by
  unfold installed12
  simp only
  generalize findSessionSecrets K cr = s at h
  cases s with
  | nil =>
    simp only
    cases hσ : σ s_CLIENT_RANDOM with
    | none => simp
    | some v =>
      obtain ⟨k, hk, _⟩ := h.complete _ _ hσ
      cases hk
  | cons k ks =>
    obtain ⟨hn, v, hσ, hv⟩ := h.sound k (by simp)
    simp only
    cases hσc : σ s_CLIENT_RANDOM with
    | some v' =>
      have hl : k.label = s_CLIENT_RANDOM := hmix v' hσc _ _ hσ
      rw [hl] at hσ
      rw [hσc] at hσ; cases hσ
      simp [hl, hv]
    | none =>
      have hl : k.label ≠ s_CLIENT_RANDOM := by
        intro e; rw [e, hσc] at hσ; cases hσ
      have hr : k.label ≠ s_RSA := by
        intro e; rw [e] at hn; exact absurd hn rsa_not_nss
      simp [hl, hr]


open Classical in
/-- The secret of label `l` for client random `cr` in the set `T` (if any). -/
noncomputable def secretOf (T : Triple → Prop) (cr : List Nat) (l : Str) : Option (List Nat) :=
  if h : ∃ v, T ⟨l, cr, v⟩ then some (Classical.choose h) else none

theorem secretOf_some {T : Triple → Prop} {cr : List Nat} {l : Str} {v : List Nat}
    (h : secretOf T cr l = some v) : T ⟨l, cr, v⟩ := by
  unfold secretOf at h
  split at h
  · rename_i hex
    cases h
    exact Classical.choose_spec hex
  · cases h

/-! ### text-level facts used by the property theorems -/

theorem removeCR_append_lf (a b : Str) : removeCR (a ++ 10 :: b) = removeCR a ++ 10 :: removeCR b := by
  simp [removeCR, List.filter_append, List.filter_cons]

theorem parse_append_lf (hx : HexClass) (a b : Str) :
    getKeysFromString hx (a ++ 10 :: b) = getKeysFromString hx a ++ getKeysFromString hx b := by
  simp only [getKeysFromString, removeCR_append_lf, splitOn_append, List.filterMap_append]

theorem parse_nil (hx : HexClass) : getKeysFromString hx [] = [] := by
  cases hx <;> decide

/-- pieces joined with `"\n"` -/
def joinLF : List Str → Str
  | [] => []
  | [a] => a
  | a :: b :: rest => a ++ 10 :: joinLF (b :: rest)

theorem parse_pieces (hx : HexClass) : ∀ ps : List Str,
    ps.flatMap (getKeysFromString hx) = getKeysFromString hx (joinLF ps)
  | [] => by simp [joinLF, parse_nil]
  | [a] => by simp [joinLF]
  | a :: b :: rest => by
    have := parse_pieces hx (b :: rest)
    simp only [List.flatMap_cons] at this ⊢
    rw [joinLF, parse_append_lf, this]

/-- every CR is immediately followed by LF -/
def CrOk : Str → Prop
  | [] => True
  | 13 :: 10 :: r => CrOk r
  | 13 :: _ => False
  | _ :: r => CrOk r

theorem removeCR_universalNewlines (t : Str) (h : CrOk t) :
    removeCR (universalNewlines t) = removeCR t := by
  fun_induction universalNewlines t with
  | case1 => rfl
  | case2 r ih =>
    simp only [CrOk] at h
    simp [removeCR, List.filter_cons] at ih ⊢
    exact ih h
  | case3 r hne ih =>
    cases r with
    | nil => simp [CrOk] at h
    | cons c r' =>
      have : c ≠ 10 := fun e => hne r' (by rw [e])
      simp [CrOk, this] at h
  | case4 c r hc1 hc2 ih =>
    have hc : c ≠ 13 := fun e => hc2 e
    have h' : CrOk r := by
      unfold CrOk at h
      split at h <;> simp_all
    simp [removeCR, List.filter_cons, hc] at ih ⊢
    exact ih h'


/-! ### `Key.__init__` never raises after a match -/

theorem splitOn_length_pos (sep : Nat) (s : Str) : 1 ≤ (splitOn sep s).length := by
  have := splitOn_ne_nil sep s
  cases h : splitOn sep s with
  | nil => exact absurd h this
  | cons a b => simp

theorem keyOfLine_of_accepts {hx : HexClass} {line : Str} (H : accepts hx line = true) :
    ∃ k, keyOfLine line = some k := by
  obtain ⟨w, h, rest, rfl, _, _, _, _⟩ := looks_of_accepts H
  have l1 := splitOn_length_pos 32 w
  have l2 := splitOn_length_pos 32 h
  have l3 := splitOn_length_pos 32 rest
  unfold keyOfLine
  have : 3 ≤ (splitOn 32 (w ++ 32 :: h ++ 32 :: rest)).length := by
    simp only [splitOn_append, List.length_append]; omega
  match hs : splitOn 32 (w ++ 32 :: h ++ 32 :: rest), this with
  | a :: b :: c :: _, _ => exact ⟨_, rfl⟩
  | [], h' => simp at h'
  | [_], h' => simp at h'
  | [_, _], h' => simp at h'

/-! ### describing a concrete text line by line -/

instance decIsHexOf : ∀ h b, Decidable (IsHexOf h b)
  | [], [] => isTrue trivial
  | [], _ :: _ => isFalse (by simp [IsHexOf])
  | [_], _ => isFalse (by intro h; cases ‹List Nat› <;> simp [IsHexOf] at h)
  | _ :: _ :: _, [] => isFalse (by simp [IsHexOf])
  | a :: b :: r, x :: xs =>
    have := decIsHexOf r xs
    if h : x < 256 ∧ digitVal a = some (x / 16) ∧ digitVal b = some (x % 16) ∧ IsHexOf r xs
    then isTrue (by simpa [IsHexOf] using h) else isFalse (by simpa [IsHexOf] using h)

instance (line : Str) (tr : Triple) (hc hv : Str) : Decidable (DenotesVia line tr hc hv) := by
  unfold DenotesVia; exact inferInstance

theorem denotes_unique {l : Str} {tr tr' : Triple} (h : Denotes l tr) (h' : Denotes l tr') : tr = tr' := by
  obtain ⟨hc, hv, H⟩ := h
  obtain ⟨hc', hv', H'⟩ := h'
  have e := (keyOfLine_of_denotes H).symm.trans (keyOfLine_of_denotes H')
  simp only [Option.some.injEq, Key.mk.injEq] at e
  obtain ⟨e1, e2, e3⟩ := e
  have c1 := fromHex_of_isHexOf H.2.2.1
  have c2 := fromHex_of_isHexOf H'.2.2.1
  have v1 := fromHex_of_isHexOf H.2.2.2.2.1
  have v2 := fromHex_of_isHexOf H'.2.2.2.2.1
  rw [e2] at c1; rw [e3] at v1
  cases tr; cases tr'
  simp only [Triple.mk.injEq]
  exact ⟨e1, Option.some.inj (c1.symm.trans c2), Option.some.inj (v1.symm.trans v2)⟩

theorem looks_of_denotes {l : Str} {tr : Triple} (h : Denotes l tr) : LooksLikeKey l := by
  obtain ⟨hc, hv, H⟩ := h
  exact looks_of_accepts (accepts_of_denotes (hx := .any) H (props_of_isHexOf H.2.2.1).2.1)

theorem not_looks_nil : ¬ LooksLikeKey [] := by
  intro ⟨w, h, rest, e, hw, _⟩
  cases w with
  | nil => exact hw rfl
  | cons a b => simp at e

theorem not_looks_of_first (c : Nat) (r : Str) (hc : isWordChar c = false) : ¬ LooksLikeKey (c :: r) := by
  intro ⟨w, h, rest, e, hw, hall, _⟩
  cases w with
  | nil => exact hw rfl
  | cons a b =>
    simp only [List.cons_append, List.cons.injEq] at e
    simp only [List.all_cons, Bool.and_eq_true] at hall
    rw [← e.1, hc] at hall
    exact absurd hall.1 (by decide)

/-! ### the recogniser is the pattern read literally -/

/-- `([A-Z]|\_|0){3,32} (H){64} (H)*` under `re.match`, read literally: for some repetition count
    `k` between 3 and 32 the line starts with `k` label characters, a space, 64 characters of the
    class `H` and a space (the final `(H)*` matches the empty string; `re.match` does not anchor at
    the end). -/
def MatchesPattern (hx : HexClass) (line : Str) : Prop :=
  ∃ k lab h rest, 3 ≤ k ∧ k ≤ 32 ∧ lab.length = k ∧ lab.all isLabelChar = true ∧
    h.length = 64 ∧ h.all hx.ok = true ∧ line = lab ++ 32 :: h ++ 32 :: rest

theorem accepts_iff_matchesPattern (hx : HexClass) (line : Str) :
    accepts hx line = true ↔ MatchesPattern hx line := by
  constructor
  · intro H
    simp only [accepts, Bool.and_eq_true, decide_eq_true_eq] at H
    obtain ⟨⟨h3, h32⟩, hm⟩ := H
    have hsplit := List.takeWhile_append_dropWhile (p := isLabelChar) (l := line)
    have hall := all_takeWhile isLabelChar line
    generalize hd : line.dropWhile isLabelChar = d at hm hsplit
    generalize hw : line.takeWhile isLabelChar = w at h3 h32 hsplit hall
    match d, hm with
    | 32 :: r, hm =>
      simp only [Bool.and_eq_true, beq_iff_eq] at hm
      obtain ⟨⟨hl, hok⟩, hhead⟩ := hm
      have hr : r = r.take 64 ++ r.drop 64 := (List.take_append_drop 64 r).symm
      generalize hdr : r.drop 64 = dr at hhead hr
      match dr, hhead with
      | 32 :: rest, _ =>
        refine ⟨w.length, w, r.take 64, rest, h3, h32, rfl, hall, hl, hok, ?_⟩
        have e : w ++ 32 :: List.take 64 r ++ 32 :: rest = w ++ 32 :: r := by
          simp only [List.append_assoc, List.cons_append]; rw [← hr]
        rw [e, hsplit]
  · intro ⟨k, lab, h, rest, h3, h32, hk, hlab, hlen, hok, e⟩
    subst e
    have e' : lab ++ 32 :: h ++ 32 :: rest = lab ++ 32 :: (h ++ 32 :: rest) := by simp
    have tw := takeWhile_dropWhile_stop isLabelChar lab (h ++ 32 :: rest) 32 hlab (by decide)
    simp only [accepts, e', tw.1, tw.2, List.take_left' hlen, List.drop_left' hlen, hlen, hok, hk]
    simp [h3, h32]


/-! ### per session: only the lines of the session's client random matter -/

/-- `k`'s client-random field is hex text for the byte string `b`. -/
structure CrOf (k : Key) (b : List Nat) : Prop where
  cr : fromHex k.clientRandom = some b
  crLower : lower k.clientRandom = hexOf b

/-- As far as client random `cr` is concerned, `K` represents the set of triples `T`: every key has
    a decodable client-random field, the keys of `cr` are keys of triples of `T`, and every triple of
    `T` for `cr` has a key. -/
def RepFor (cr : List Nat) (K : List Key) (T : Triple → Prop) : Prop :=
  (∀ k ∈ K, ∃ b, CrOf k b ∧ (b = cr → ∃ tr, KeyOf k tr ∧ T tr ∧ tr.cr = cr)) ∧
  (∀ tr, T tr → tr.cr = cr → ∃ k ∈ K, KeyOf k tr)

theorem keyOfLine_of_alien {cr : List Nat} {line : Str} (H : AlienFor cr line) :
    ∃ k b, keyOfLine line = some k ∧ CrOf k b ∧ b ≠ cr := by
  obtain ⟨w, h, rest, b, rfl, hw, hh, _, hne⟩ := H
  have n2 := (props_of_isHexOf hh).1
  obtain ⟨f, fs, hf⟩ : ∃ f fs, splitOn 32 rest = f :: fs := by
    cases hs : splitOn 32 rest with
    | nil => exact absurd hs (splitOn_ne_nil 32 rest)
    | cons f fs => exact ⟨f, fs, rfl⟩
  refine ⟨⟨w, h, f⟩, b, ?_, ⟨fromHex_of_isHexOf hh, lower_of_isHexOf hh⟩, hne⟩
  simp only [keyOfLine, splitOn_append, splitOn_of_not_mem 32 _ hw, splitOn_of_not_mem 32 _ n2, hf,
    List.cons_append, List.nil_append]

theorem repFor_parse (hx : HexClass) (cr : List Nat) (t : Str) (wf : WellFormedFor cr t)
    (hcls : CrInClass hx t) : RepFor cr (getKeysFromString hx t) (HasTriple t) := by
  have hlines := model_lines_eq t (fun l hl => (wf l hl).1)
  constructor
  · intro k hk
    simp only [getKeysFromString, hlines, List.mem_filterMap] at hk
    obtain ⟨line, hmem, hline⟩ := hk
    simp only [getKeyFromLine] at hline
    split at hline
    · rename_i hacc
      rcases (wf line hmem).2 with ⟨tr, hc, hv, H⟩ | hno | hal
      · rw [keyOfLine_of_denotes H] at hline
        cases hline
        have ko := keyOf_of_denotes H
        exact ⟨tr.cr, ⟨ko.cr, ko.crLower⟩, fun e => ⟨tr, ko, ⟨line, hmem, hc, hv, H⟩, e⟩⟩
      · exact absurd (looks_of_accepts hacc) hno
      · obtain ⟨k', b, hk', hcr, hne⟩ := keyOfLine_of_alien hal
        rw [hk'] at hline
        cases hline
        exact ⟨b, hcr, fun e => absurd e hne⟩
    · cases hline
  · intro tr ⟨line, hmem, hc, hv, H⟩ _
    refine ⟨⟨tr.label, hc, hv⟩, ?_, keyOf_of_denotes H⟩
    simp only [getKeysFromString, hlines, List.mem_filterMap]
    refine ⟨line, hmem, ?_⟩
    simp only [getKeyFromLine, accepts_of_denotes H (hcls line hmem tr hc hv H), if_true]
    exact keyOfLine_of_denotes H

theorem quicSessionKeys_of_repFor {cr : List Nat} {K : List Key} {T : Triple → Prop}
    (h : RepFor cr K T) : quicSessionKeys K cr = some (findSessionSecrets K cr) := by
  unfold quicSessionKeys findSessionSecrets
  have hall : (K.all fun k => (fromHex k.clientRandom).isSome) = true := by
    rw [List.all_eq_true]
    intro k hk
    obtain ⟨b, hko, _⟩ := h.1 k hk
    simp [hko.cr]
  rw [if_pos hall]
  congr 1
  apply List.filter_congr
  intro k hk
  obtain ⟨b, hko, _⟩ := h.1 k hk
  rw [crMatch_eq hko.crLower cr, hko.cr]
  by_cases e : b = cr <;> simp [e]

theorem installedQuic_of_selRep' {K : List Key} {cr : List Nat}
    (hq : quicSessionKeys K cr = some (findSessionSecrets K cr))
    {σ : Str → Option (List Nat)} (h : SelRep (findSessionSecrets K cr) σ) :
    installedQuic K cr =
      if (σ s_CHTS).isNone || (σ s_SHTS).isNone || (σ s_CTS0).isNone || (σ s_STS0).isNone
      then .unbound else .ok (labelsQuic.map σ) := by
  unfold installedQuic
  rw [hq]
  obtain ⟨st', e, hst'⟩ := scan_selRep labelsQuic h
  simp only [e]
  rw [hst' s_CHTS (by decide), hst' s_SHTS (by decide), hst' s_CTS0 (by decide), hst' s_STS0 (by decide)]
  rw [List.map_congr_left hst']

/-- One secret per label among the triples of client random `cr`. -/
def ConsistentTFor (cr : List Nat) (T : Triple → Prop) : Prop :=
  ∀ tr tr', T tr → T tr' → tr.cr = cr → tr'.cr = cr → tr.label = tr'.label → tr.secret = tr'.secret

theorem secretOf_of_mem' {T : Triple → Prop} {cr : List Nat} (hc : ConsistentTFor cr T) {l : Str}
    {v : List Nat} (h : T ⟨l, cr, v⟩) : secretOf T cr l = some v := by
  have hex : ∃ v, T ⟨l, cr, v⟩ := ⟨v, h⟩
  unfold secretOf
  rw [dif_pos hex]
  congr 1
  exact hc _ _ (Classical.choose_spec hex) h rfl rfl rfl

theorem selRep_of_repFor {cr : List Nat} {K : List Key} {T : Triple → Prop} (hr : RepFor cr K T)
    (hc : ConsistentTFor cr T) : SelRep (findSessionSecrets K cr) (secretOf T cr) := by
  constructor
  · intro k hk
    simp only [findSessionSecrets, List.mem_filter] at hk
    obtain ⟨hkK, hm⟩ := hk
    obtain ⟨b, hcr, hT⟩ := hr.1 k hkK
    rw [crMatch_eq hcr.crLower cr] at hm
    have hb : b = cr := by simpa using hm
    obtain ⟨tr, hko, hTtr, htc⟩ := hT hb
    refine ⟨hko.label ▸ hko.nss, tr.secret, ?_, hko.value⟩
    apply secretOf_of_mem' hc
    rw [hko.label, ← htc]
    exact hTtr
  · intro l v hσ
    obtain ⟨k, hk, hko⟩ := hr.2 _ (secretOf_some hσ) rfl
    refine ⟨k, ?_, hko.label⟩
    simp only [findSessionSecrets, List.mem_filter]
    refine ⟨hk, ?_⟩
    rw [crMatch_eq hko.crLower cr]
    simp

/-- Key lists that represent, for `cr`, the same consistent set of triples install the same secrets
    in a session with client random `cr` (repaired TLS ≤ 1.2 selection). -/
theorem installed_eq_of_repFor {cr : List Nat} {K₁ K₂ : List Key} {T : Triple → Prop}
    (h₁ : RepFor cr K₁ T) (h₂ : RepFor cr K₂ T) (hc : ConsistentTFor cr T) :
    installed .firstMaster K₁ cr = installed .firstMaster K₂ cr := by
  have s₁ := selRep_of_repFor h₁ hc
  have s₂ := selRep_of_repFor h₂ hc
  have hnil := selRep_nil_iff s₁ s₂
  unfold installed
  rw [installed12_master_of_selRep s₁, installed12_master_of_selRep s₂,
    installed13_of_selRep s₁, installed13_of_selRep s₂,
    installedQuic_of_selRep' (quicSessionKeys_of_repFor h₁) s₁,
    installedQuic_of_selRep' (quicSessionKeys_of_repFor h₂) s₂]
  simp only [hnil]

/-- The same for the selection as found (first line whatever its label), if `cr` has no line with
    another label beside a CLIENT_RANDOM line. -/
theorem installed_eq_of_repFor_first {cr : List Nat} {K₁ K₂ : List Key} {T : Triple → Prop}
    (h₁ : RepFor cr K₁ T) (h₂ : RepFor cr K₂ T) (hc : ConsistentTFor cr T)
    (hmix : ∀ v l w, T ⟨s_CLIENT_RANDOM, cr, v⟩ → T ⟨l, cr, w⟩ → l = s_CLIENT_RANDOM) :
    installed .first K₁ cr = installed .first K₂ cr := by
  have s₁ := selRep_of_repFor h₁ hc
  have s₂ := selRep_of_repFor h₂ hc
  have hnil := selRep_nil_iff s₁ s₂
  have hm : ∀ v, secretOf T cr s_CLIENT_RANDOM = some v → ∀ l w, secretOf T cr l = some w →
      l = s_CLIENT_RANDOM := fun v hv l w hw => hmix v l w (secretOf_some hv) (secretOf_some hw)
  unfold installed
  rw [installed12_first_of_selRep s₁ hm, installed12_first_of_selRep s₂ hm,
    installed13_of_selRep s₁, installed13_of_selRep s₂,
    installedQuic_of_selRep' (quicSessionKeys_of_repFor h₁) s₁,
    installedQuic_of_selRep' (quicSessionKeys_of_repFor h₂) s₂]
  simp only [hnil]

theorem wellFormedFor_of_wellFormed {t : Str} (h : WellFormed t) (cr : List Nat) : WellFormedFor cr t :=
  fun l hl => ⟨(h l hl).1, (h l hl).2.elim Or.inl (fun x => Or.inr (Or.inl x))⟩


/-! ### describing a concrete text line by line -/

inductive LineKind | secret (tr : Triple) | inert | alien
  deriving DecidableEq

/-- `ls` classified line by line, relative to the session with client random `cr`. -/
def ClassifiedFor (cr : List Nat) : List Str → List LineKind → Prop
  | [], [] => True
  | l :: ls, c :: cs =>
    (13 ∉ l ∧ match c with
      | .secret tr => Denotes l tr
      | .inert => ¬ LooksLikeKey l
      | .alien => AlienFor cr l) ∧ ClassifiedFor cr ls cs
  | _, _ => False

theorem not_denotes_of_alien {cr : List Nat} {l : Str} {tr : Triple} (ha : AlienFor cr l)
    (hd : Denotes l tr) : tr.cr ≠ cr := by
  obtain ⟨k, b, hk, hcr, hne⟩ := keyOfLine_of_alien ha
  obtain ⟨hc, hv, H⟩ := hd
  rw [keyOfLine_of_denotes H] at hk
  cases hk
  have := (keyOf_of_denotes H).cr
  rw [hcr.cr] at this
  cases this
  exact hne

theorem classifiedFor_mem {cr : List Nat} : ∀ {ls : List Str} {cs : List LineKind}, ClassifiedFor cr ls cs →
    ∀ l ∈ ls, 13 ∉ l ∧ ((∃ tr, Denotes l tr ∧ LineKind.secret tr ∈ cs) ∨ (¬ LooksLikeKey l) ∨ AlienFor cr l)
  | [], [], _, l, hl => by cases hl
  | l₀ :: ls, c :: cs, h, l, hl => by
    simp only [ClassifiedFor] at h
    rcases List.mem_cons.mp hl with rfl | hl'
    · refine ⟨h.1.1, ?_⟩
      cases c with
      | secret tr => exact Or.inl ⟨tr, h.1.2, by simp⟩
      | inert => exact Or.inr (Or.inl h.1.2)
      | alien => exact Or.inr (Or.inr h.1.2)
    · obtain ⟨h1, h2⟩ := classifiedFor_mem h.2 l hl'
      refine ⟨h1, ?_⟩
      rcases h2 with ⟨tr, hd, hm⟩ | hn
      · exact Or.inl ⟨tr, hd, by simp [hm]⟩
      · exact Or.inr hn
  | [], _ :: _, h, _, _ => by simp [ClassifiedFor] at h
  | _ :: _, [], h, _, _ => by simp [ClassifiedFor] at h

theorem classifiedFor_triple {cr : List Nat} : ∀ {ls : List Str} {cs : List LineKind}, ClassifiedFor cr ls cs →
    ∀ tr, LineKind.secret tr ∈ cs → ∃ l ∈ ls, Denotes l tr
  | [], [], _, tr, h => by cases h
  | l₀ :: ls, c :: cs, h, tr, hm => by
    simp only [ClassifiedFor] at h
    rcases List.mem_cons.mp hm with e | hm'
    · subst e
      exact ⟨l₀, by simp, h.1.2⟩
    · obtain ⟨l, hl, hd⟩ := classifiedFor_triple h.2 tr hm'
      exact ⟨l, by simp [hl], hd⟩
  | [], _ :: _, h, _, _ => by simp [ClassifiedFor] at h
  | _ :: _, [], h, _, _ => by simp [ClassifiedFor] at h

theorem wellFormedFor_of_classified {cr : List Nat} {t : Str} {cs : List LineKind}
    (h : ClassifiedFor cr (lines t) cs) : WellFormedFor cr t := by
  intro l hl
  obtain ⟨h1, h2⟩ := classifiedFor_mem h l hl
  refine ⟨h1, ?_⟩
  rcases h2 with ⟨tr, hd, _⟩ | hn | ha
  · exact Or.inl ⟨tr, hd⟩
  · exact Or.inr (Or.inl hn)
  · exact Or.inr (Or.inr ha)

theorem hasTriple_iff_of_classified {cr : List Nat} {t : Str} {cs : List LineKind}
    (h : ClassifiedFor cr (lines t) cs) (tr : Triple) (hcr : tr.cr = cr) :
    HasTriple t tr ↔ LineKind.secret tr ∈ cs := by
  constructor
  · intro ⟨l, hl, hd⟩
    obtain ⟨_, h2⟩ := classifiedFor_mem h l hl
    rcases h2 with ⟨tr', hd', hm⟩ | hn | ha
    · rw [denotes_unique hd hd']; exact hm
    · exact absurd (looks_of_denotes hd) hn
    · exact absurd hcr (not_denotes_of_alien ha hd)
  · intro hm
    exact classifiedFor_triple h tr hm

theorem equivalentFor_of_classified {cr : List Nat} {t₁ t₂ : Str} {cs₁ cs₂ : List LineKind}
    (h₁ : ClassifiedFor cr (lines t₁) cs₁) (h₂ : ClassifiedFor cr (lines t₂) cs₂)
    (h : ∀ tr, LineKind.secret tr ∈ cs₁ ↔ LineKind.secret tr ∈ cs₂) : EquivalentFor cr t₁ t₂ := fun tr hcr => by
  rw [hasTriple_iff_of_classified h₁ tr hcr, hasTriple_iff_of_classified h₂ tr hcr]; exact h tr

theorem consistentFor_of_classified {cr : List Nat} {t : Str} {cs : List LineKind}
    (h : ClassifiedFor cr (lines t) cs)
    (hc : ∀ tr tr', LineKind.secret tr ∈ cs → LineKind.secret tr' ∈ cs → tr.label = tr'.label →
      tr.secret = tr'.secret) : ConsistentFor cr t := fun tr tr' a b c d e =>
  hc tr tr' ((hasTriple_iff_of_classified h tr c).mp a) ((hasTriple_iff_of_classified h tr' d).mp b) e


end TLX.Lemmas.Keylog
