/-
Helper lemmas for C05: the stable sort / minimum of `Reassembly` on buffers that are already ordered
(which is how `extract_*_buf` meets them: sorted by the previous call, one packet appended), and the
list of chunks of a cut with their stream offsets.  Core Lean only.
-/
import TLX.Lemmas.ModSeq
namespace TLX.Lemmas.ReasmSort
open TLX TLX.Reassembly TLX.Lemmas.ModSeq

/-! ### insertBy / sortBy / minBy on ordered input -/

theorem insertBy_all_ge (key : Seg → Nat) (a : Seg) (l : List Seg) (h : ∀ x ∈ l, ¬ key x < key a) :
    insertBy key a l = a :: l := by
  cases l with
  | nil => rfl
  | cons x xs => simp [insertBy, h x (List.mem_cons_self ..)]

theorem mem_insertBy (key : Seg → Nat) (p : Seg) (l : List Seg) (x : Seg) :
    x ∈ insertBy key p l ↔ x = p ∨ x ∈ l := by
  induction l with
  | nil => simp [insertBy]
  | cons a r ih =>
    simp only [insertBy]
    split
    · simp only [List.mem_cons, ih]
      constructor
      · rintro (h | h | h)
        · exact Or.inr (Or.inl h)
        · exact Or.inl h
        · exact Or.inr (Or.inr h)
      · rintro (h | h | h)
        · exact Or.inr (Or.inl h)
        · exact Or.inl h
        · exact Or.inr (Or.inr h)
    · simp [List.mem_cons]

/-- Appending one packet with a fresh key to a strictly ordered buffer and sorting = inserting it. -/
theorem sortBy_append_one (key : Seg → Nat) (p : Seg) (l : List Seg)
    (hs : l.Pairwise (fun a b => key a < key b)) (hne : ∀ a ∈ l, key a ≠ key p) :
    sortBy key (l ++ [p]) = insertBy key p l := by
  unfold sortBy
  rw [List.foldr_append]
  show List.foldr (insertBy key) [p] l = insertBy key p l
  induction l with
  | nil => rfl
  | cons a r ih =>
    have hs' := List.pairwise_cons.mp hs
    rw [List.foldr_cons, ih hs'.2 (fun x hx => hne x (List.mem_cons_of_mem _ hx))]
    have hap := hne a (List.mem_cons_self ..)
    simp only [insertBy]
    by_cases hlt : key a < key p
    · rw [if_pos hlt]
      apply insertBy_all_ge
      intro x hx
      rcases (mem_insertBy key p r x).mp hx with rfl | hx
      · omega
      · have := hs'.1 x hx; omega
    · rw [if_neg hlt]
      have hpr : insertBy key p r = p :: r := by
        apply insertBy_all_ge
        intro x hx
        have := hs'.1 x hx; omega
      rw [hpr]
      simp only [insertBy]
      rw [if_pos (by omega)]
      congr 1
      apply insertBy_all_ge
      intro x hx
      have := hs'.1 x hx; omega

theorem minBy_head (key : Seg → Nat) (a : Seg) (r : List Seg) (h : ∀ x ∈ r, ¬ key x < key a) :
    minBy key a r = a := by
  unfold minBy
  induction r with
  | nil => rfl
  | cons x xs ih =>
    rw [List.foldl_cons, if_neg (h x (List.mem_cons_self ..))]
    exact ih (fun y hy => h y (List.mem_cons_of_mem _ hy))

theorem minBy_mem (key : Seg → Nat) (a : Seg) (r : List Seg) : minBy key a r = a ∨ minBy key a r ∈ r := by
  unfold minBy
  induction r generalizing a with
  | nil => exact Or.inl rfl
  | cons x xs ih =>
    rw [List.foldl_cons]
    split
    · rcases ih x with h | h
      · exact Or.inr (by rw [h]; exact List.mem_cons_self ..)
      · exact Or.inr (List.mem_cons_of_mem _ h)
    · rcases ih a with h | h
      · exact Or.inl h
      · exact Or.inr (List.mem_cons_of_mem _ h)

/-- A strictly smallest last element is the minimum. -/
theorem minBy_last (key : Seg → Nat) (a : Seg) (r : List Seg) (p : Seg)
    (ha : key p < key a) (hr : ∀ x ∈ r, key p < key x) : minBy key a (r ++ [p]) = p := by
  have hm := minBy_mem key a r
  unfold minBy at hm ⊢
  rw [List.foldl_append, List.foldl_cons, List.foldl_nil]
  rcases hm with h | h
  · rw [h, if_pos ha]
  · rw [if_pos (hr _ h)]

/-! ### pending entries: (offset, packet id, payload) -/

abbrev P := Nat × Nat × Bytes

def toSeg (W isn : Nat) (e : P) : Seg := ⟨e.2.1, sq W isn e.1, e.2.2⟩

/-- (offset, payload) of a pending entry. -/
def oc (e : P) : Nat × Bytes := (e.1, e.2.2)

/-- Insert by offset (the image of `insertBy` under `toSeg`). -/
def insP (pe : P) : List P → List P
  | [] => [pe]
  | a :: r => if a.1 < pe.1 then a :: insP pe r else pe :: a :: r

theorem mem_insP (pe : P) (l : List P) (x : P) : x ∈ insP pe l ↔ x = pe ∨ x ∈ l := by
  induction l with
  | nil => simp [insP]
  | cons a r ih =>
    simp only [insP]
    split
    · simp only [List.mem_cons, ih]
      constructor
      · rintro (h | h | h)
        · exact Or.inr (Or.inl h)
        · exact Or.inl h
        · exact Or.inr (Or.inr h)
      · rintro (h | h | h)
        · exact Or.inr (Or.inl h)
        · exact Or.inl h
        · exact Or.inr (Or.inr h)
    · simp [List.mem_cons]

theorem sorted_insP (pe : P) (l : List P) (hs : l.Pairwise (fun a b => a.1 < b.1))
    (hne : ∀ a ∈ l, a.1 ≠ pe.1) : (insP pe l).Pairwise (fun a b => a.1 < b.1) := by
  induction l with
  | nil => simp [insP]
  | cons a r ih =>
    have hs' := List.pairwise_cons.mp hs
    have ha := hne a (List.mem_cons_self ..)
    simp only [insP]
    split
    · rename_i hlt
      refine List.pairwise_cons.mpr ⟨?_, ih hs'.2 (fun x hx => hne x (List.mem_cons_of_mem _ hx))⟩
      intro x hx
      rcases (mem_insP pe r x).mp hx with rfl | hx
      · exact hlt
      · exact hs'.1 x hx
    · refine List.pairwise_cons.mpr ⟨?_, hs⟩
      intro x hx
      rcases List.mem_cons.mp hx with rfl | hx
      · omega
      · have := hs'.1 x hx; omega

/-- `insertBy` with the in-sync key commutes with `toSeg`. -/
theorem insertBy_toSeg (W isn d : Nat) (hW : 0 < W) (pe : P) (l : List P)
    (hpe : d ≤ pe.1 ∧ pe.1 - d < W) (hl : ∀ a ∈ l, d ≤ a.1 ∧ a.1 - d < W) :
    insertBy (syncKey W (sq W isn d)) (toSeg W isn pe) (l.map (toSeg W isn)) = (insP pe l).map (toSeg W isn) := by
  have hk : ∀ a : P, d ≤ a.1 ∧ a.1 - d < W → syncKey W (sq W isn d) (toSeg W isn a) = a.1 - d := by
    intro a ha
    have := syncKey_sq W isn d (a.1 - d) a.2.1 a.2.2 hW ha.2
    rw [show d + (a.1 - d) = a.1 by omega] at this
    exact this
  induction l with
  | nil => rfl
  | cons a r ih =>
    have ha := hl a (List.mem_cons_self ..)
    simp only [List.map_cons, insertBy, insP]
    rw [hk a ha, hk pe hpe]
    by_cases hlt : a.1 < pe.1
    · rw [if_pos (by omega), if_pos hlt, List.map_cons, ih (fun x hx => hl x (List.mem_cons_of_mem _ hx))]
    · rw [if_neg (by omega), if_neg hlt]; rfl

/-! ### the chunks of a cut with their offsets -/

def offs : Nat → List Bytes → List (Nat × Bytes)
  | _, [] => []
  | o, c :: cs => (o, c) :: offs (o + c.length) cs

theorem offs_map_snd (o : Nat) (cs : List Bytes) : (offs o cs).map (·.2) = cs := by
  induction cs generalizing o with
  | nil => rfl
  | cons c cs ih => simp [offs, ih]

theorem offs_length (o : Nat) (cs : List Bytes) : (offs o cs).length = cs.length := by
  rw [← List.length_map (f := (·.2)), offs_map_snd]

theorem offs_append (o : Nat) (a b : List Bytes) :
    offs o (a ++ b) = offs o a ++ offs (o + a.flatten.length) b := by
  induction a generalizing o with
  | nil => simp [offs]
  | cons c cs ih =>
    simp only [List.cons_append, offs, ih, List.flatten_cons, List.length_append]
    rw [Nat.add_assoc]

theorem offs_bounds (o : Nat) (cs : List Bytes) (x : Nat × Bytes) (hx : x ∈ offs o cs) :
    o ≤ x.1 ∧ x.1 + x.2.length ≤ o + cs.flatten.length ∧ x.2 ∈ cs := by
  induction cs generalizing o with
  | nil => simp [offs] at hx
  | cons c cs ih =>
    simp only [offs, List.mem_cons] at hx
    rcases hx with rfl | hx
    · simp [List.flatten_cons]
    · have := ih (o + c.length) hx
      simp only [List.flatten_cons, List.length_append, List.mem_cons]
      refine ⟨by omega, by omega, Or.inr this.2.2⟩

/-- With non-empty chunks the offset determines the chunk. -/
theorem offs_functional (o : Nat) (cs : List Bytes) (hne : ∀ c ∈ cs, c ≠ []) (x y : Nat × Bytes)
    (hx : x ∈ offs o cs) (hy : y ∈ offs o cs) (h : x.1 = y.1) : x = y := by
  induction cs generalizing o with
  | nil => simp [offs] at hx
  | cons c cs ih =>
    have hc : 0 < c.length := List.length_pos_iff.mpr (hne c (List.mem_cons_self ..))
    have hne' : ∀ c' ∈ cs, c' ≠ [] := fun c' h' => hne c' (List.mem_cons_of_mem _ h')
    simp only [offs, List.mem_cons] at hx hy
    rcases hx with rfl | hx <;> rcases hy with rfl | hy
    · rfl
    · have := (offs_bounds _ _ _ hy).1; simp only at h; omega
    · have := (offs_bounds _ _ _ hx).1; simp only at h; omega
    · exact ih (o + c.length) hne' hx hy

theorem offs_sorted (o : Nat) (cs : List Bytes) (hne : ∀ c ∈ cs, c ≠ []) :
    (offs o cs).Pairwise (fun a b => a.1 < b.1) := by
  induction cs generalizing o with
  | nil => simp [offs]
  | cons c cs ih =>
    have hc : 0 < c.length := List.length_pos_iff.mpr (hne c (List.mem_cons_self ..))
    refine List.pairwise_cons.mpr ⟨?_, ih _ (fun c' h' => hne c' (List.mem_cons_of_mem _ h'))⟩
    intro x hx
    have := (offs_bounds _ _ _ hx).1
    simp only; omega

/-- Two strictly ordered lists with the same offsets-and-members are equal. -/
theorem sorted_ext {α : Type} (f : α → Nat) (l₁ l₂ : List α)
    (h₁ : l₁.Pairwise (fun a b => f a < f b)) (h₂ : l₂.Pairwise (fun a b => f a < f b))
    (h : ∀ x, x ∈ l₁ ↔ x ∈ l₂) : l₁ = l₂ := by
  induction l₁ generalizing l₂ with
  | nil =>
    cases l₂ with
    | nil => rfl
    | cons b _ => exact absurd ((h b).mpr (List.mem_cons_self ..)) (by simp)
  | cons a r ih =>
    cases l₂ with
    | nil => exact absurd ((h a).mp (List.mem_cons_self ..)) (by simp)
    | cons b s =>
      have p₁ := List.pairwise_cons.mp h₁
      have p₂ := List.pairwise_cons.mp h₂
      have hab : a = b := by
        have ha := (h a).mp (List.mem_cons_self ..)
        have hb := (h b).mpr (List.mem_cons_self ..)
        rcases List.mem_cons.mp ha with rfl | ha
        · rfl
        · rcases List.mem_cons.mp hb with rfl | hb
          · rfl
          · have := p₂.1 a ha; have := p₁.1 b hb; omega
      subst hab
      congr 1
      apply ih _ p₁.2 p₂.2
      intro x
      constructor
      · intro hx
        have := (h x).mp (List.mem_cons_of_mem _ hx)
        rcases List.mem_cons.mp this with rfl | hx'
        · have := p₁.1 x hx; omega
        · exact hx'
      · intro hx
        have := (h x).mpr (List.mem_cons_of_mem _ hx)
        rcases List.mem_cons.mp this with rfl | hx'
        · have := p₂.1 x hx; omega
        · exact hx'

end TLX.Lemmas.ReasmSort
