/-
The session state machine (`TLX/Session.lean`) does not look at the CARRIERS of a record (`TlsRecord.metadata`: which packets
the record's bytes came in) — it only stores them with what it appends to `application_traffic`.  `erase` forgets the
carriers; every step commutes with it, for every decryptor whose `decrypt` reads `record.raw` only (`RawOnly`; the real
`Decryptor` does: `Pipeline.ops`).  Hence (`run_carriers`): two record sequences with the same `(raw, direction)` sequence
drive the machine to the same state up to the carriers stored in the traffic.
Pattern of proof: as the `strip` lemmas of `Lemmas/Session.lean`.
-/
import TLX.Lemmas.Session
set_option autoImplicit false
namespace TLX.Session
open TLX

variable {δ : Type}

def Rec.erase (r : Rec) : Rec := ⟨r.raw, []⟩
def Entry.erase (e : Entry) : Entry := { e with record := e.record.erase }
def St.erase (s : St δ) : St δ := { s with traffic := s.traffic.map Entry.erase }

/-- `Decryptor.decrypt(record, isserver)` reads the record's bytes only -/
def RawOnly (O : Ops δ) : Prop := ∀ d r srv, O.decrypt d r srv = O.decrypt d r.erase srv

@[simp] theorem erase_typ (r : Rec) : r.erase.typ = r.typ := rfl
@[simp] theorem erase_ver (r : Rec) : r.erase.ver = r.ver := rfl
@[simp] theorem erase_body (r : Rec) : r.erase.body = r.body := rfl
@[simp] theorem erase_raw (r : Rec) : r.erase.raw = r.raw := rfl
@[simp] theorem erase_erase (r : Rec) : r.erase.erase = r.erase := rfl

@[simp] theorem erase_core (s : St δ) : s.erase.core = s.core := rfl
@[simp] theorem erase_canDecrypt (s : St δ) : s.erase.canDecrypt = s.canDecrypt := rfl
@[simp] theorem erase_chSeen (s : St δ) : s.erase.chSeen = s.chSeen := rfl
@[simp] theorem erase_ver' (s : St δ) : s.erase.ver = s.ver := rfl
@[simp] theorem erase_srvCC (s : St δ) : s.erase.srvCC = s.srvCC := rfl
@[simp] theorem erase_cliCC (s : St δ) : s.erase.cliCC = s.cliCC := rfl
@[simp] theorem erase_dec (s : St δ) : s.erase.dec = s.dec := rfl
@[simp] theorem erase_cr (s : St δ) : s.erase.cr = s.cr := rfl
@[simp] theorem erase_hsBuf (s : St δ) (srv : Bool) : s.erase.hsBuf srv = s.hsBuf srv := by cases srv <;> rfl
theorem setHsBuf_erase (s : St δ) (srv : Bool) (b : Bytes) : (s.setHsBuf srv b).erase = s.erase.setHsBuf srv b := by
  cases srv <;> rfl

theorem erase_push (s : St δ) (e : Entry) : (s.push e).erase = s.erase.push e.erase := by
  simp [St.erase, St.push]

theorem erase_init : (St.init : St δ).erase = St.init := rfl

theorem pushMeta_erase (m : Bool) (s : St δ) (r : Rec) (srv : Bool) :
    (pushMeta m s r srv).erase = pushMeta m s.erase r.erase srv := by
  unfold pushMeta
  split
  · rw [erase_push]; rfl
  · rfl

theorem chooseVersion_erase (s : St δ) (a b : Nat) (c : Bool) :
    (chooseVersion s a b c).erase = chooseVersion s.erase a b c := by
  unfold chooseVersion
  repeat' split
  all_goals rfl

theorem latch_erase (s : St δ) : (latch s).erase = latch s.erase := by
  unfold latch; simp only [erase_chSeen]; by_cases h : s.chSeen = true <;> simp [h, St.erase]

theorem serverHelloKeys_erase (O : Ops δ) (s : St δ) (su sr : Bytes) (e : Exts) (c : UInt8) :
    (serverHelloKeys O s su sr e c).map St.erase = serverHelloKeys O s.erase su sr e c := by
  unfold serverHelloKeys
  simp only [erase_cr, erase_ver']
  cases s.cr with
  | none => rfl
  | some cr => simp only; split <;> rfl

theorem serverHello_erase (O : Ops δ) (s : St δ) (r : Rec) :
    (serverHello O s r).map St.erase = serverHello O s.erase r.erase := by
  unfold serverHello
  simp only [erase_body, erase_ver]
  split
  · simp [Out.map, latch_erase]
  · split
    · simp [Out.map, latch_erase]
    · rw [serverHelloKeys_erase, chooseVersion_erase, latch_erase]
      try rfl

theorem handshakeFinished_erase (O : Ops δ) (hO : RawOnly O) (m : Bool) (s : St δ) (r : Rec) (srv : Bool) :
    (handshakeFinished O m s r srv).map St.erase = handshakeFinished O m s.erase r.erase srv := by
  unfold handshakeFinished
  simp only [erase_dec, erase_srvCC, erase_cliCC, erase_canDecrypt]
  cases s.dec with
  | none => rfl
  | some d =>
    simp only
    by_cases hc : (s.srvCC && srv && s.canDecrypt || s.cliCC && !srv && s.canDecrypt) = true
    · simp only [hc, if_true]
      rw [← hO d r srv]
      rcases hdec : O.decrypt d r srv with ⟨d', _ | pt⟩
      · rfl
      · simp only
        by_cases hp : (m && decide (pt ≠ some [])) = true
        · simp only [hp, if_true, Out.map]; rw [erase_push]; rfl
        · simp only [hp]; rfl
    · simp only [hc]
      cases m <;> rfl

theorem tryExcept_map {σ τ : Type} (f : σ → τ) (x : Out σ) (h : σ → σ) (h' : τ → τ) (hh : ∀ s, f (h s) = h' (f s)) :
    (tryExcept x h).map f = tryExcept (x.map f) h' := by
  cases x <;> simp [tryExcept, Out.map, hh]

theorem clientHello_erase (s : St δ) (r : Rec) : (clientHello s r).erase = clientHello s.erase r.erase := rfl

theorem handshakeRecord_erase (O : Ops δ) (hO : RawOnly O) (m : Bool) (s : St δ) (r : Rec) (srv : Bool) :
    (handshakeRecord O m s r srv).map St.erase = handshakeRecord O m s.erase r.erase srv := by
  unfold handshakeRecord
  simp only [erase_srvCC, erase_cliCC, erase_body]
  by_cases hcc : (s.srvCC || s.cliCC) = true
  · simp only [hcc, if_true]
    rw [tryExcept_map St.erase _ id id (fun _ => rfl), handshakeFinished_erase O hO]
  · simp only [hcc, Bool.false_eq_true, if_false]
    cases r.body with
    | nil => rfl
    | cons t _ =>
      simp only
      by_cases h1 : t = 0x01
      · simp only [h1, if_true]; rfl
      · simp only [h1, if_false]
        by_cases h2 : t = 0x02
        · simp only [h2, if_true]
          rw [tryExcept_map St.erase (serverHello O s r) (fun s' => { s' with canDecrypt := false })
            (fun s' => { s' with canDecrypt := false }) (fun _ => rfl), serverHello_erase]
        · rw [if_neg h2, if_neg h2]
          rw [tryExcept_map St.erase _ id id (fun _ => rfl), handshakeFinished_erase O hO]

theorem alert_erase (s : St δ) (l : UInt8) : (alert s l).erase = alert s.erase l := by
  unfold alert
  by_cases h : l = 0x01 ∧ s.ver ≠ some .tls13 <;> simp [h, St.erase]

theorem app13_erase (O : Ops δ) (hO : RawOnly O) (s : St δ) (r : Rec) (srv : Bool) :
    (app13 O s r srv).map St.erase = app13 O s.erase r.erase srv := by
  unfold app13
  simp only [erase_dec]
  cases s.dec with
  | none => rfl
  | some d =>
    simp only
    rw [← hO d r srv]
    rcases hdec : O.decrypt d r srv with ⟨d1, _ | _ | pt⟩
    · rfl
    · rfl
    · simp only
      split
      · rfl
      · split
        · simp only [erase_hsBuf]
          split <;> (simp only [Out.map, setHsBuf_erase]; rfl)
        · split
          · simp only [Out.map]; rw [erase_push]; rfl
          · rfl

theorem appLegacy_erase (O : Ops δ) (hO : RawOnly O) (s : St δ) (r : Rec) (srv : Bool) :
    (appLegacy O s r srv).map St.erase = appLegacy O s.erase r.erase srv := by
  unfold appLegacy
  simp only [erase_dec]
  cases s.dec with
  | none => rfl
  | some d =>
    simp only
    rw [← hO d r srv]
    rcases hdec : O.decrypt d r srv with ⟨d1, _ | pt⟩
    · rfl
    · simp only [Out.map]; rw [erase_push]; rfl

theorem handleRecordRaw_erase (O : Ops δ) (hO : RawOnly O) (m : Bool) (s : St δ) (r : Rec) (srv : Bool) :
    (handleRecordRaw O m s r srv).map St.erase = handleRecordRaw O m s.erase r.erase srv := by
  unfold handleRecordRaw
  simp only [erase_typ, erase_body]
  cases r.typ with
  | none => rfl
  | some t =>
    simp only [erase_canDecrypt, erase_dec, erase_ver']
    by_cases h16 : t = 0x16
    · simp only [h16, if_true]
      rw [← handshakeRecord_erase O hO]
      cases handshakeRecord O m s r srv with
      | ok s1 => simp only [Out.map]; rw [pushMeta_erase]
      | raised s1 => rfl
    · simp only [h16, if_false]
      by_cases h17 : t = 0x17
      · simp only [h17, if_true]
        by_cases hg : (s.canDecrypt && s.dec.isSome) = true
        · simp only [hg, if_true]
          cases hv : s.ver with
          | none => rfl
          | some v =>
            cases v
            case tls13 =>
              simp only
              rw [tryExcept_map St.erase _ id id (fun _ => rfl), app13_erase O hO]
            all_goals exact appLegacy_erase O hO ..
        · simp only [hg]; rfl
      · simp only [h17, if_false]
        by_cases h15 : t = 0x15
        · simp only [h15, if_true, Out.map]
          rw [pushMeta_erase]
          congr 2
          cases r.body with
          | nil => rfl
          | cons lvl _ => exact alert_erase ..
        · simp only [h15, if_false]
          by_cases h14 : t = 0x14
          · simp only [h14, if_true, Out.map]
            rw [pushMeta_erase]
            congr 2
            cases srv <;> rfl
          · simp only [h14, if_false]; rfl

theorem handleRecord_erase (O : Ops δ) (hO : RawOnly O) (m : Bool) (s : St δ) (r : Rec) (srv : Bool) :
    (handleRecord O m s r srv).erase = handleRecord O m s.erase r.erase srv := by
  unfold handleRecord
  rw [← handleRecordRaw_erase O hO]
  cases handleRecordRaw O m s r srv <;> rfl

/-- the (record bytes, direction) sequence of a release order -/
def keys (M : List (Rec × Bool)) : List (Rec × Bool) := M.map fun q => (q.1.erase, q.2)

theorem run_erase (O : Ops δ) (hO : RawOnly O) (m : Bool) (s : St δ) (M : List (Rec × Bool)) :
    (run O m s M).erase = run O m s.erase (keys M) := by
  induction M generalizing s with
  | nil => rfl
  | cons x rest ih =>
    simp only [run, keys, List.map_cons, List.foldl_cons]
    have := ih (handleRecord O m s x.1 x.2)
    simp only [run, keys] at this
    rw [this, handleRecord_erase O hO]

/-- **The machine is blind to carriers**: the same records released in the same order — whatever packets carried them —
    leave the same state up to the carriers stored with the traffic. -/
theorem run_carriers (O : Ops δ) (hO : RawOnly O) (m : Bool) (M1 M2 : List (Rec × Bool)) (h : keys M1 = keys M2) :
    (run O m St.init M1).erase = (run O m St.init M2).erase := by
  rw [run_erase O hO, run_erase O hO, h]

end TLX.Session
