/-
Sequence-number arithmetic modulo `W` (= 2^32 in the model), generic in `W` so that no tactic ever
sees the literal.  `sq W isn o` is the sequence number of the byte at offset `o`.
Core Lean only.
-/
import TLX.Reassembly
namespace TLX.Lemmas.ModSeq
open TLX TLX.Reassembly

/-- Sequence number of stream offset `o`. -/
def sq (W isn o : Nat) : Nat := (isn + o) % W

theorem sq_lt (W isn o : Nat) (hW : 0 < W) : sq W isn o < W := Nat.mod_lt _ hW

theorem mod_lt_two (x W : Nat) (_hW : 0 < W) (h : x < 2 * W) : x % W = if x < W then x else x - W := by
  split
  · exact Nat.mod_eq_of_lt ‹_›
  · rw [Nat.mod_eq_sub_mod (by omega), Nat.mod_eq_of_lt (by omega)]

/-- `pyModSub` really is Python's `(a - b) % W`. -/
theorem pyModSub_eq_emod (a b W : Nat) (hW : 0 < W) :
    ((pyModSub a b W : Nat) : Int) = ((a : Int) - (b : Int)) % (W : Int) := by
  unfold pyModSub
  have hle : b % W ≤ W := Nat.le_of_lt (Nat.mod_lt _ hW)
  rw [Int.natCast_emod, Int.natCast_add, Int.natCast_sub hle, Int.natCast_emod]
  have hb := Int.emod_add_mul_ediv (b : Int) (W : Int)
  have : (a : Int) + ((W : Int) - (b : Int) % (W : Int)) = ((a : Int) - (b : Int)) + (W : Int) * ((b : Int) / (W : Int) + 1) := by
    rw [Int.mul_add, Int.mul_one]
    omega
  rw [this, Int.add_mul_emod_self_left]

theorem pyModSub_self (x W : Nat) (hx : x < W) : pyModSub x x W = 0 := by
  unfold pyModSub
  rw [Nat.mod_eq_of_lt hx, show x + (W - x) = W by omega, Nat.mod_self]

/-- Distance of `A + e` from `A`, both reduced modulo `W`, is `e` (for `e < W`). -/
theorem pyModSub_mod (W A e : Nat) (hW : 0 < W) (he : e < W) : pyModSub ((A + e) % W) (A % W) W = e := by
  unfold pyModSub
  rw [Nat.mod_mod, Nat.add_mod A e W, Nat.mod_eq_of_lt he]
  have hr := Nat.mod_lt A hW
  generalize A % W = r at hr
  rw [mod_lt_two (r + e) W hW (by omega)]
  split
  · rw [show r + e + (W - r) = e + W by omega, Nat.add_mod_right, Nat.mod_eq_of_lt he]
  · rw [show r + e - W + (W - r) = e by omega, Nat.mod_eq_of_lt he]

theorem pyModSub_add (x h b W : Nat) : pyModSub (x + h) b W = (pyModSub x b W + h) % W := by
  unfold pyModSub
  rw [show x + h + (W - b % W) = (x + (W - b % W)) + h by omega, Nat.mod_add_mod]

/-- In sync: the sort key of the segment at offset `d + e` relative to next expected offset `d`. -/
theorem syncKey_sq (W isn d e id : Nat) (c : Bytes) (hW : 0 < W) (he : e < W) :
    syncKey W (sq W isn d) ⟨id, sq W isn (d + e), c⟩ = e := by
  unfold syncKey sq
  rw [← Nat.add_assoc]
  exact pyModSub_mod W (isn + d) e hW he

/-- Before sync: signed-distance key of the segment at offset `e` relative to the one at offset 0. -/
theorem presyncKey_sq (W isn e id : Nat) (c : Bytes) (hW : 0 < W) (he : e + W / 2 < W) :
    presyncKey W (sq W isn 0) ⟨id, sq W isn e, c⟩ = e + W / 2 := by
  unfold presyncKey sq
  rw [pyModSub_add, Nat.add_zero, pyModSub_mod W isn e hW (by omega), Nat.mod_eq_of_lt he]

/-- Distance of `A` from `A + e` (going forward through the wrap) is `W - e`. -/
theorem pyModSub_mod_neg (W A e : Nat) (hW : 0 < W) (he0 : 0 < e) (he : e < W) :
    pyModSub (A % W) ((A + e) % W) W = W - e := by
  unfold pyModSub
  rw [Nat.mod_mod, Nat.add_mod A e W, Nat.mod_eq_of_lt he]
  have hr := Nat.mod_lt A hW
  generalize A % W = r at hr
  rw [mod_lt_two (r + e) W hW (by omega)]
  split
  · rw [show r + (W - (r + e)) = W - e by omega, Nat.mod_eq_of_lt (by omega)]
  · rw [show r + (W - (r + e - W)) = (W - e) + W by omega, Nat.add_mod_right, Nat.mod_eq_of_lt (by omega)]

/-- Before sync: signed-distance key of a segment `e` bytes *behind* the reference segment. -/
theorem presyncKey_sq_ge (W isn m e id : Nat) (c : Bytes) (hW : 0 < W) (he : e + W / 2 < W) :
    presyncKey W (sq W isn m) ⟨id, sq W isn (m + e), c⟩ = e + W / 2 := by
  unfold presyncKey sq
  rw [pyModSub_add, ← Nat.add_assoc, pyModSub_mod W (isn + m) e hW (by omega), Nat.mod_eq_of_lt he]

/-- Before sync: signed-distance key of a segment `e` bytes *before* the reference segment. -/
theorem presyncKey_sq_lt (W isn m e id : Nat) (c : Bytes) (hW : 0 < W) (he0 : 0 < e) (he : e ≤ W / 2)
    (hm : e ≤ m) : presyncKey W (sq W isn m) ⟨id, sq W isn (m - e), c⟩ = W / 2 - e := by
  unfold presyncKey sq
  have hA : isn + m = isn + (m - e) + e := by omega
  rw [pyModSub_add, hA, pyModSub_mod_neg W (isn + (m - e)) e hW he0 (by omega)]
  rw [mod_lt_two (W - e + W / 2) W hW (by omega), if_neg (by omega)]
  omega

theorem sq_add (W isn o n : Nat) : (sq W isn o + n) % W = sq W isn (o + n) := by
  unfold sq
  rw [Nat.mod_add_mod, Nat.add_assoc]

/-- Offsets less than `W` apart have different sequence numbers. -/
theorem sq_inj (W isn o₁ o₂ : Nat) (hW : 0 < W) (hle : o₁ ≤ o₂) (hd : o₂ - o₁ < W)
    (h : sq W isn o₁ = sq W isn o₂) : o₁ = o₂ := by
  have h1 := pyModSub_mod W (isn + o₁) (o₂ - o₁) hW hd
  rw [show isn + o₁ + (o₂ - o₁) = isn + o₂ by omega] at h1
  unfold sq at h
  rw [← h, pyModSub_self _ _ (Nat.mod_lt _ hW)] at h1
  omega

theorem sq_inj' (W isn o₁ o₂ L : Nat) (hW : 0 < W) (hL : L ≤ W) (h1 : o₁ < L) (h2 : o₂ < L)
    (h : sq W isn o₁ = sq W isn o₂) : o₁ = o₂ := by
  rcases Nat.le_total o₁ o₂ with hle | hle
  · exact sq_inj W isn o₁ o₂ hW hle (by omega) h
  · exact (sq_inj W isn o₂ o₁ hW hle (by omega) h.symm).symm

end TLX.Lemmas.ModSeq
