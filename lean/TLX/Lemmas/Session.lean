/-
Lemmas about the session state machine (`TLX/Session.lean`): every step is total, only appends to
`application_traffic`, tags what it appends with the record and direction it was called with, and commutes with
removing the metadata entries (`strip`).
-/
import TLX.Session
namespace TLX.Session
open TLX

variable {δ : Type}

/-- everything but `application_traffic` -/
structure Core (δ : Type) where
  canDecrypt : Bool
  chSeen : Bool
  ver : Option Ver
  srvCC : Bool
  cliCC : Bool
  dec : Option δ
  cr : Option Bytes
  hsBufC : Bytes
  hsBufS : Bytes

def St.core (s : St δ) : Core δ := ⟨s.canDecrypt, s.chSeen, s.ver, s.srvCC, s.cliCC, s.dec, s.cr, s.hsBufC, s.hsBufS⟩

theorem St.ext' (a b : St δ) (hc : a.core = b.core) (ht : a.traffic = b.traffic) : a = b := by
  cases a; cases b
  simp only [St.core, Core.mk.injEq] at hc
  simp_all

/-- what the export keeps when metadata is off: the application-data entries -/
def St.strip (s : St δ) : St δ := { s with traffic := s.traffic.filter (·.isApp) }

@[simp] theorem strip_core (s : St δ) : s.strip.core = s.core := rfl
@[simp] theorem strip_canDecrypt (s : St δ) : s.strip.canDecrypt = s.canDecrypt := rfl
@[simp] theorem strip_chSeen (s : St δ) : s.strip.chSeen = s.chSeen := rfl
@[simp] theorem strip_ver (s : St δ) : s.strip.ver = s.ver := rfl
@[simp] theorem strip_srvCC (s : St δ) : s.strip.srvCC = s.srvCC := rfl
@[simp] theorem strip_cliCC (s : St δ) : s.strip.cliCC = s.cliCC := rfl
@[simp] theorem strip_dec (s : St δ) : s.strip.dec = s.dec := rfl
@[simp] theorem strip_cr (s : St δ) : s.strip.cr = s.cr := rfl
@[simp] theorem strip_hsBufC (s : St δ) : s.strip.hsBufC = s.hsBufC := rfl
@[simp] theorem strip_hsBufS (s : St δ) : s.strip.hsBufS = s.hsBufS := rfl
@[simp] theorem strip_hsBuf (s : St δ) (srv : Bool) : s.strip.hsBuf srv = s.hsBuf srv := by cases srv <;> rfl
theorem setHsBuf_traffic (s : St δ) (srv : Bool) (b : Bytes) : (s.setHsBuf srv b).traffic = s.traffic := by
  cases srv <;> rfl
theorem setHsBuf_strip (s : St δ) (srv : Bool) (b : Bytes) : (s.setHsBuf srv b).strip = s.strip.setHsBuf srv b := by
  cases srv <;> rfl
@[simp] theorem strip_traffic (s : St δ) : s.strip.traffic = s.traffic.filter (·.isApp) := rfl

theorem strip_push_app (s : St δ) (e : Entry) (h : e.isApp = true) : (s.push e).strip = s.strip.push e := by
  simp [St.strip, St.push, List.filter_append, h]

theorem strip_push_meta (s : St δ) (e : Entry) (h : e.isApp = false) : (s.push e).strip = s.strip := by
  simp [St.strip, St.push, List.filter_append, h]

/-- `f` appends entries of record `r`, direction `srv` (and nothing else happens to the traffic) -/
def Appends (r : Rec) (srv : Bool) (s s' : St δ) : Prop :=
  ∃ l : List Entry, s'.traffic = s.traffic ++ l ∧ ∀ e ∈ l, e.record = r ∧ e.fromServer = srv

theorem Appends.refl (r : Rec) (srv : Bool) (s : St δ) : Appends r srv s s := ⟨[], by simp, by simp⟩

theorem Appends.of_traffic_eq (r : Rec) (srv : Bool) (s s' : St δ) (h : s'.traffic = s.traffic) :
    Appends r srv s s' := ⟨[], by simp [h], by simp⟩

theorem Appends.trans {r : Rec} {srv : Bool} {a b c : St δ} (h1 : Appends r srv a b) (h2 : Appends r srv b c) :
    Appends r srv a c := by
  obtain ⟨l1, e1, p1⟩ := h1
  obtain ⟨l2, e2, p2⟩ := h2
  refine ⟨l1 ++ l2, by rw [e2, e1, List.append_assoc], ?_⟩
  intro e he
  rcases List.mem_append.mp he with h | h
  · exact p1 e h
  · exact p2 e h

theorem Appends.push (r : Rec) (srv : Bool) (s : St δ) (d : Option Bytes) (a : Bool) :
    Appends r srv s (s.push ⟨d, r, srv, a⟩) := ⟨[⟨d, r, srv, a⟩], rfl, by simp⟩

-- ------------------------------------------------------------------ tryExcept
@[simp] theorem tryExcept_isOk {σ : Type} (x : Out σ) (h : σ → σ) : (tryExcept x h).isOk = true := by
  cases x <;> rfl

@[simp] theorem tryExcept_id_st {σ : Type} (x : Out σ) : (tryExcept x id).st = x.st := by
  cases x <;> rfl

-- ------------------------------------------------------------------ pushMeta
theorem pushMeta_appends (m : Bool) (s : St δ) (r : Rec) (srv : Bool) : Appends r srv s (pushMeta m s r srv) := by
  unfold pushMeta
  split
  · exact Appends.push ..
  · exact Appends.refl ..

theorem pushMeta_strip (s : St δ) (r : Rec) (srv : Bool) :
    (pushMeta true s r srv).strip = pushMeta false s.strip r srv := by
  simp [pushMeta, strip_push_meta]

@[simp] theorem pushMeta_core (m : Bool) (s : St δ) (r : Rec) (srv : Bool) : (pushMeta m s r srv).core = s.core := by
  unfold pushMeta; split <;> rfl

-- ------------------------------------------------------------------ serverHello
theorem chooseVersion_traffic (s : St δ) (a b : Nat) (c : Bool) : (chooseVersion s a b c).traffic = s.traffic := by
  unfold chooseVersion
  repeat' split
  all_goals rfl

theorem chooseVersion_strip (s : St δ) (a b : Nat) (c : Bool) :
    (chooseVersion s a b c).strip = chooseVersion s.strip a b c := by
  unfold chooseVersion
  repeat' split
  all_goals rfl

theorem latch_traffic (s : St δ) : (latch s).traffic = s.traffic := by unfold latch; split <;> rfl

theorem latch_strip (s : St δ) : (latch s).strip = latch s.strip := by
  unfold latch; simp only [strip_chSeen]; by_cases h : s.chSeen = true <;> simp [h, St.strip]

theorem serverHelloKeys_traffic (O : Ops δ) (s : St δ) (su sr : Bytes) (e : Exts) (c : UInt8) :
    (serverHelloKeys O s su sr e c).st.traffic = s.traffic := by
  unfold serverHelloKeys
  cases s.cr with
  | none => rfl
  | some cr => simp only; split <;> rfl

def Out.map {σ τ : Type} (f : σ → τ) : Out σ → Out τ
  | .ok s => .ok (f s)
  | .raised s => .raised (f s)

theorem serverHelloKeys_strip (O : Ops δ) (s : St δ) (su sr : Bytes) (e : Exts) (c : UInt8) :
    (serverHelloKeys O s su sr e c).map St.strip = serverHelloKeys O s.strip su sr e c := by
  unfold serverHelloKeys
  simp only [strip_cr, strip_ver]
  cases s.cr with
  | none => rfl
  | some cr => simp only; split <;> rfl

theorem serverHello_traffic (O : Ops δ) (s : St δ) (r : Rec) : (serverHello O s r).st.traffic = s.traffic := by
  unfold serverHello
  simp only
  split
  · exact latch_traffic s
  · split
    · exact latch_traffic s
    · rw [serverHelloKeys_traffic, chooseVersion_traffic, latch_traffic]

theorem serverHello_strip (O : Ops δ) (s : St δ) (r : Rec) :
    (serverHello O s r).map St.strip = serverHello O s.strip r := by
  unfold serverHello
  simp only
  split
  · simp [Out.map, latch_strip]
  · split
    · simp [Out.map, latch_strip]
    · rw [serverHelloKeys_strip, chooseVersion_strip, latch_strip]

-- ------------------------------------------------------------------ handshakeFinished
theorem handshakeFinished_appends (O : Ops δ) (m : Bool) (s : St δ) (r : Rec) (srv : Bool) :
    Appends r srv s (handshakeFinished O m s r srv).st := by
  unfold handshakeFinished
  cases s.dec with
  | none => exact Appends.refl ..
  | some d =>
    simp only
    split
    · rcases hdec : O.decrypt d r srv with ⟨d', _ | pt⟩
      · exact Appends.of_traffic_eq _ _ _ _ rfl
      · simp only
        split
        · exact Appends.push r srv { s with dec := some d' } pt false
        · exact Appends.of_traffic_eq _ _ _ _ rfl
    · split <;> exact Appends.refl ..

theorem handshakeFinished_strip (O : Ops δ) (s : St δ) (r : Rec) (srv : Bool) :
    (handshakeFinished O true s r srv).st.strip = (handshakeFinished O false s.strip r srv).st := by
  unfold handshakeFinished
  simp only [strip_dec, strip_srvCC, strip_cliCC, strip_canDecrypt]
  cases s.dec with
  | none => rfl
  | some d =>
    simp only
    by_cases hc : (s.srvCC && srv && s.canDecrypt || s.cliCC && !srv && s.canDecrypt) = true
    · simp only [hc, if_true]
      rcases hdec : O.decrypt d r srv with ⟨d', _ | pt⟩
      · rfl
      · simp only [Bool.true_and, Bool.false_and, Bool.false_eq_true, if_false]
        by_cases hp : decide (pt ≠ some []) = true
        · simp only [hp, if_true, Out.st]; rw [strip_push_meta _ _ rfl]; rfl
        · simp only [hp]; rfl
    · simp only [hc]; rfl

-- ------------------------------------------------------------------ handshakeRecord
theorem clientHello_traffic (s : St δ) (r : Rec) : (clientHello s r).traffic = s.traffic := rfl

theorem handshakeRecord_isOk (O : Ops δ) (m : Bool) (s : St δ) (r : Rec) (srv : Bool) :
    (handshakeRecord O m s r srv).isOk = true := by
  unfold handshakeRecord
  split
  · simp
  · split
    · rfl
    · split
      · rfl
      · split <;> simp

theorem handshakeRecord_appends (O : Ops δ) (m : Bool) (s : St δ) (r : Rec) (srv : Bool) :
    Appends r srv s (handshakeRecord O m s r srv).st := by
  unfold handshakeRecord
  split
  · rw [tryExcept_id_st]; exact handshakeFinished_appends ..
  · split
    · exact Appends.refl ..
    · split
      · exact Appends.of_traffic_eq _ _ _ _ (clientHello_traffic ..)
      · split
        · apply Appends.of_traffic_eq
          have := serverHello_traffic O s r
          cases hsh : serverHello O s r with
          | ok s' => rw [hsh] at this; exact this
          | raised s' => rw [hsh] at this; exact this
        · rw [tryExcept_id_st]; exact handshakeFinished_appends ..

theorem handshakeRecord_strip (O : Ops δ) (s : St δ) (r : Rec) (srv : Bool) :
    (handshakeRecord O true s r srv).st.strip = (handshakeRecord O false s.strip r srv).st := by
  unfold handshakeRecord
  simp only [strip_srvCC, strip_cliCC]
  by_cases hcc : (s.srvCC || s.cliCC) = true
  · simp only [hcc, if_true, tryExcept_id_st]; exact handshakeFinished_strip ..
  · simp only [hcc]
    cases r.body with
    | nil => rfl
    | cons t _ =>
      simp only
      by_cases h1 : t = 0x01
      · simp only [h1, if_true]; rfl
      · simp only [h1, if_false]
        by_cases h2 : t = 0x02
        · simp only [h2, if_true]
          have := serverHello_strip O s r
          cases hsh : serverHello O s r with
          | ok s' => rw [hsh] at this; simp only [Out.map] at this; rw [← this]; rfl
          | raised s' => rw [hsh] at this; simp only [Out.map] at this; rw [← this]; rfl
        · rw [if_neg h2, if_neg h2]; simp only [Bool.false_eq_true, if_false, tryExcept_id_st]; exact handshakeFinished_strip ..

-- ------------------------------------------------------------------ application records
theorem app13_appends (O : Ops δ) (s : St δ) (r : Rec) (srv : Bool) : Appends r srv s (app13 O s r srv).st := by
  unfold app13
  cases s.dec with
  | none => exact Appends.refl ..
  | some d =>
    simp only
    rcases hdec : O.decrypt d r srv with ⟨d1, _ | _ | pt⟩
    · exact Appends.of_traffic_eq _ _ _ _ rfl
    · exact Appends.of_traffic_eq _ _ _ _ rfl
    · simp only
      split
      · exact Appends.of_traffic_eq _ _ _ _ rfl
      · split
        · split <;> exact Appends.of_traffic_eq _ _ _ _ (setHsBuf_traffic _ _ _)
        · split
          · exact Appends.push r srv { s with dec := some d1 } _ true
          · exact Appends.of_traffic_eq _ _ _ _ rfl

theorem app13_strip (O : Ops δ) (s : St δ) (r : Rec) (srv : Bool) :
    (app13 O s r srv).st.strip = (app13 O s.strip r srv).st := by
  unfold app13
  simp only [strip_dec]
  cases s.dec with
  | none => rfl
  | some d =>
    simp only
    rcases hdec : O.decrypt d r srv with ⟨d1, _ | _ | pt⟩
    · rfl
    · rfl
    · simp only
      split
      · rfl
      · split
        · simp only [strip_hsBuf]
          split <;> (simp only [Out.st, setHsBuf_strip]; rfl)
        · split
          · simp only [Out.st]; rw [strip_push_app _ _ rfl]; rfl
          · rfl

theorem appLegacy_appends (O : Ops δ) (s : St δ) (r : Rec) (srv : Bool) : Appends r srv s (appLegacy O s r srv).st := by
  unfold appLegacy
  cases s.dec with
  | none => exact Appends.refl ..
  | some d =>
    simp only
    rcases hdec : O.decrypt d r srv with ⟨d1, _ | pt⟩
    · exact Appends.of_traffic_eq _ _ _ _ rfl
    · exact Appends.push r srv { s with dec := some d1 } pt true

theorem appLegacy_isOk (O : Ops δ) (s : St δ) (r : Rec) (srv : Bool) : (appLegacy O s r srv).isOk = true := by
  unfold appLegacy
  cases s.dec with
  | none => rfl
  | some d =>
    simp only
    rcases hdec : O.decrypt d r srv with ⟨d1, _ | pt⟩ <;> rfl

theorem appLegacy_strip (O : Ops δ) (s : St δ) (r : Rec) (srv : Bool) :
    (appLegacy O s r srv).st.strip = (appLegacy O s.strip r srv).st := by
  unfold appLegacy
  simp only [strip_dec]
  cases s.dec with
  | none => rfl
  | some d =>
    simp only
    rcases hdec : O.decrypt d r srv with ⟨d1, _ | pt⟩
    · rfl
    · simp only [Out.st]; rw [strip_push_app _ _ rfl]; rfl

theorem alert_traffic (s : St δ) (l : UInt8) : (alert s l).traffic = s.traffic := by
  unfold alert; split <;> rfl

theorem alert_strip (s : St δ) (l : UInt8) : (alert s l).strip = alert s.strip l := by
  unfold alert
  by_cases h : l = 0x01 ∧ s.ver ≠ some .tls13 <;> simp [h, St.strip]

-- ------------------------------------------------------------------ handle_tls_record
theorem handleRecordRaw_isOk (O : Ops δ) (m : Bool) (s : St δ) (r : Rec) (srv : Bool) :
    (handleRecordRaw O m s r srv).isOk = true := by
  unfold handleRecordRaw
  cases r.typ with
  | none => rfl
  | some t =>
    simp only
    split
    · have := handshakeRecord_isOk O m s r srv
      cases h : handshakeRecord O m s r srv with
      | ok s1 => rfl
      | raised s1 => rw [h] at this; cases this
    · split
      · split
        · split
          · simp
          · exact appLegacy_isOk ..
          · rfl
        · rfl
      · split
        · rfl
        · split <;> rfl

theorem handleRecord_appends (O : Ops δ) (m : Bool) (s : St δ) (r : Rec) (srv : Bool) :
    Appends r srv s (handleRecord O m s r srv) := by
  unfold handleRecord handleRecordRaw
  cases r.typ with
  | none => exact Appends.refl ..
  | some t =>
    simp only
    split
    · have h1 := handshakeRecord_appends O m s r srv
      cases h : handshakeRecord O m s r srv with
      | ok s1 => rw [h] at h1; exact h1.trans (pushMeta_appends ..)
      | raised s1 => rw [h] at h1; exact h1
    · split
      · split
        · split
          · rw [tryExcept_id_st]; exact app13_appends ..
          · exact appLegacy_appends ..
          · exact Appends.of_traffic_eq _ _ _ _ rfl
        · exact Appends.refl ..
      · split
        · refine Appends.trans (b := (match r.body with | [] => s | lvl :: _ => alert s lvl)) ?_ (pushMeta_appends ..)
          apply Appends.of_traffic_eq
          split
          · rfl
          · exact alert_traffic ..
        · split
          · refine Appends.trans (b := (if srv then { s with srvCC := true } else { s with cliCC := true })) ?_
              (pushMeta_appends ..)
            apply Appends.of_traffic_eq; split <;> rfl
          · exact Appends.refl ..

theorem handleRecord_strip (O : Ops δ) (s : St δ) (r : Rec) (srv : Bool) :
    (handleRecord O true s r srv).strip = handleRecord O false s.strip r srv := by
  unfold handleRecord handleRecordRaw
  cases r.typ with
  | none => rfl
  | some t =>
    simp only [strip_canDecrypt, strip_dec, strip_ver]
    by_cases h16 : t = 0x16
    · simp only [h16, if_true]
      have hs := handshakeRecord_strip O s r srv
      have ho1 := handshakeRecord_isOk O true s r srv
      have ho2 := handshakeRecord_isOk O false s.strip r srv
      cases h1 : handshakeRecord O true s r srv with
      | raised s1 => rw [h1] at ho1; cases ho1
      | ok s1 =>
        cases h2 : handshakeRecord O false s.strip r srv with
        | raised s2 => rw [h2] at ho2; cases ho2
        | ok s2 =>
          rw [h1, h2] at hs
          simp only [Out.st] at hs ⊢
          rw [pushMeta_strip, hs]
    · simp only [h16, if_false]
      by_cases h17 : t = 0x17
      · simp only [h17, if_true]
        by_cases hg : (s.canDecrypt && s.dec.isSome) = true
        · simp only [hg, if_true]
          cases hv : s.ver with
          | none => rfl
          | some v =>
            cases v
            case tls13 => simp only [tryExcept_id_st]; exact app13_strip ..
            all_goals exact appLegacy_strip ..
        · simp only [hg]; rfl
      · simp only [h17, if_false]
        by_cases h15 : t = 0x15
        · simp only [h15, if_true, Out.st]
          rw [pushMeta_strip]
          congr 1
          cases r.body with
          | nil => rfl
          | cons lvl _ => exact alert_strip ..
        · simp only [h15, if_false]
          by_cases h14 : t = 0x14
          · simp only [h14, if_true, Out.st]
            rw [pushMeta_strip]
            congr 1
            cases srv <;> rfl
          · simp only [h14, if_false]; rfl

-- ------------------------------------------------------------------ runs
theorem runRaw_eq_run (O : Ops δ) (m : Bool) (s : St δ) (rs : List (Rec × Bool)) :
    runRaw O m s rs = .ok (run O m s rs) := by
  induction rs generalizing s with
  | nil => rfl
  | cons x rest ih =>
    obtain ⟨r, srv⟩ := x
    have hok := handleRecordRaw_isOk O m s r srv
    simp only [runRaw, run, List.foldl_cons, handleRecord]
    cases h : handleRecordRaw O m s r srv with
    | ok s1 => simp only [Out.st]; exact ih s1
    | raised s1 => rw [h] at hok; cases hok

theorem run_strip (O : Ops δ) (s : St δ) (rs : List (Rec × Bool)) :
    (run O true s rs).strip = run O false s.strip rs := by
  induction rs generalizing s with
  | nil => rfl
  | cons x rest ih =>
    simp only [run, List.foldl_cons]
    have := ih (handleRecord O true s x.1 x.2)
    simp only [run] at this
    rw [this, handleRecord_strip]

theorem run_append (O : Ops δ) (m : Bool) (s : St δ) (a b : List (Rec × Bool)) :
    run O m s (a ++ b) = run O m (run O m s a) b := by
  simp [run, List.foldl_append]

theorem run_traffic_prefix (O : Ops δ) (m : Bool) (s : St δ) (rs : List (Rec × Bool)) :
    s.traffic <+: (run O m s rs).traffic := by
  induction rs generalizing s with
  | nil => exact List.prefix_refl _
  | cons x rest ih =>
    simp only [run, List.foldl_cons]
    obtain ⟨l, hl, _⟩ := handleRecord_appends O m s x.1 x.2
    have := ih (handleRecord O m s x.1 x.2)
    simp only [run] at this
    exact (hl ▸ List.prefix_append _ _ : s.traffic <+: (handleRecord O m s x.1 x.2).traffic).trans this

end TLX.Session
