/- Helper lemmas for C10 (`TLX.Props.C10`). -/
import TLX.Options
namespace TLX.Lemmas.Options
open TLX.Options

theorem dictGet_update (m : List (Int × Int)) (k v k' : Int) :
    dictGet? (m.map fun e => if e.1 == k then (k, v) else e) k' =
      if k' = k then (if m.any (·.1 == k) then some v else none) else dictGet? m k' := by
  induction m with
  | nil => simp [dictGet?]
  | cons e es ih =>
    unfold dictGet? at ih ⊢
    by_cases he : e.1 = k
    · by_cases hk : k' = k
      · subst hk; simp [he]
      · have hkk : ¬ k = k' := fun h => hk h.symm
        simp only [List.map_cons, he, if_true, List.find?_cons, beq_iff_eq, 
          hk, if_false] at ih ⊢
        have hb : (k == k') = false := by simp [hkk]
        simp only [hb]
        exact ih
    · have heb : (e.1 == k) = false := by simp [he]
      by_cases hek : e.1 = k'
      · have hk : ¬ k' = k := fun h => he (hek.trans h)
        simp [heb, hek, hk]
      · have hekb : (e.1 == k') = false := by simp [hek]
        simp only [List.map_cons, heb, Bool.false_eq_true, if_false, List.find?_cons, hekb,
          List.any_cons, Bool.false_or] at ih ⊢
        exact ih

end TLX.Lemmas.Options
