/-
The TLS session state machine does not look at the carrier lists of the records it is handed: for ANY function `ρ` on
carrier lists (`Lemmas/TagNat` has the special case "rename every carrier"), running on records with `ρ` applied commutes
with applying `ρ` to the carrier lists stored in `application_traffic`. With `ρ := fun _ => []`: what a conversation decrypts
and in which direction depends only on the records' bytes and directions. Core Lean only.
-/
import TLX.Lemmas.TagNat
set_option linter.unusedSimpArgs false
namespace TLX.Lemmas.CarrierMap
open TLX

-- ====================================================================== the session state machine
namespace Sess
open TLX.Session

variable (ρ : List Nat → List Nat)

def rec (r : Rec) : Rec := { r with carriers := ρ r.carriers }
def entry (e : Entry) : Entry := { e with record := rec ρ e.record }
def st {δ : Type} (s : St δ) : St δ := { s with traffic := s.traffic.map (entry ρ) }
def out {δ : Type} : Out (St δ) → Out (St δ)
  | .ok s => .ok (st ρ s)
  | .raised s => .raised (st ρ s)

variable {δ : Type}

@[simp] theorem rec_raw (r : Rec) : (rec ρ r).raw = r.raw := rfl
@[simp] theorem rec_typ (r : Rec) : (rec ρ r).typ = r.typ := rfl
@[simp] theorem rec_ver (r : Rec) : (rec ρ r).ver = r.ver := rfl
@[simp] theorem rec_body (r : Rec) : (rec ρ r).body = r.body := rfl
@[simp] theorem st_canDecrypt (s : St δ) : (st ρ s).canDecrypt = s.canDecrypt := rfl
@[simp] theorem st_chSeen (s : St δ) : (st ρ s).chSeen = s.chSeen := rfl
@[simp] theorem st_ver (s : St δ) : (st ρ s).ver = s.ver := rfl
@[simp] theorem st_srvCC (s : St δ) : (st ρ s).srvCC = s.srvCC := rfl
@[simp] theorem st_cliCC (s : St δ) : (st ρ s).cliCC = s.cliCC := rfl
@[simp] theorem st_dec (s : St δ) : (st ρ s).dec = s.dec := rfl
@[simp] theorem st_cr (s : St δ) : (st ρ s).cr = s.cr := rfl
@[simp] theorem st_hsBuf (s : St δ) (srv : Bool) : (st ρ s).hsBuf srv = s.hsBuf srv := by cases srv <;> rfl

theorem push_nat (s : St δ) (e : Entry) : (st ρ s).push (entry ρ e) = st ρ (s.push e) := by
  simp [St.push, st, List.map_append]

theorem pushMeta_nat (m : Bool) (s : St δ) (r : Rec) (srv : Bool) :
    pushMeta m (st ρ s) (rec ρ r) srv = st ρ (pushMeta m s r srv) := by
  unfold pushMeta
  split
  · exact push_nat ρ s ⟨some r.raw, r, srv, false⟩
  · rfl

theorem setHsBuf_nat (s : St δ) (srv : Bool) (b : Bytes) : (st ρ s).setHsBuf srv b = st ρ (s.setHsBuf srv b) := by
  cases srv <;> rfl

theorem tryExcept_nat (x : Out (St δ)) (h : St δ → St δ) (hh : ∀ s, h (st ρ s) = st ρ (h s)) :
    tryExcept (out ρ x) h = out ρ (tryExcept x h) := by
  cases x with
  | ok s => rfl
  | raised s => simp only [out, tryExcept, hh]

variable (O : Ops δ) (hdec : ∀ d r srv, O.decrypt d (rec ρ r) srv = O.decrypt d r srv)
include hdec

theorem handshakeFinished_nat (m : Bool) (s : St δ) (r : Rec) (srv : Bool) :
    handshakeFinished O m (st ρ s) (rec ρ r) srv = out ρ (handshakeFinished O m s r srv) := by
  unfold handshakeFinished
  simp only [st_dec, st_srvCC, st_cliCC, st_canDecrypt, hdec]
  cases s.dec with
  | none => rfl
  | some d =>
    simp only
    split
    · rcases O.decrypt d r srv with ⟨d', _ | pt⟩
      · rfl
      · simp only
        split
        · exact congrArg Out.ok (push_nat ρ { s with dec := some d' } ⟨pt, r, srv, false⟩)
        · rfl
    · split <;> rfl

omit hdec in
theorem clientHello_nat (s : St δ) (r : Rec) : clientHello (st ρ s) (rec ρ r) = st ρ (clientHello s r) := rfl

omit hdec in
theorem latch_nat (s : St δ) : latch (st ρ s) = st ρ (latch s) := by
  unfold latch
  by_cases h : s.chSeen = true
  · have h' : (st ρ s).chSeen = true := h
    rw [if_pos h, if_pos h']; rfl
  · have h' : ¬ (st ρ s).chSeen = true := h
    rw [if_neg h, if_neg h']

omit hdec in
theorem chooseVersion_nat (s : St δ) (a b : Nat) (c : Bool) :
    chooseVersion (st ρ s) a b c = st ρ (chooseVersion s a b c) := by
  unfold chooseVersion
  by_cases h1 : a = 0x0300
  · simp only [h1, if_true]; rfl
  · by_cases h2 : a = 0x0302
    · simp only [h1, h2, if_true, if_false]; rfl
    · by_cases h3 : b = 0x0301
      · simp only [h1, h2, h3, if_true, if_false]; rfl
      · by_cases h4 : b = 0x0303
        · simp only [h1, h2, h3, h4, if_true, if_false]; cases c <;> rfl
        · simp only [h1, h2, h3, h4, if_false]; rfl

omit hdec in
theorem serverHelloKeys_nat (s2 : St δ) (suite sr : Bytes) (exts : Exts) (comp : UInt8) :
    serverHelloKeys O (st ρ s2) suite sr exts comp = out ρ (serverHelloKeys O s2 suite sr exts comp) := by
  unfold serverHelloKeys
  simp only [st_cr, st_ver]
  cases s2.cr with
  | none => rfl
  | some cr =>
    simp only
    cases O.genKeys s2.ver suite cr sr exts comp <;> rfl

omit hdec in
theorem serverHello_nat (s : St δ) (r : Rec) : serverHello O (st ρ s) (rec ρ r) = out ρ (serverHello O s r) := by
  unfold serverHello
  simp only [rec_body, rec_ver, latch_nat]
  cases r.body[38]? with
  | none => rfl
  | some sidLen =>
    simp only
    cases r.body[38 + sidLen.toNat + 1 + 2]? with
    | none => rfl
    | some comp =>
      simp only [chooseVersion_nat]
      exact serverHelloKeys_nat ρ O _ _ _ _ _

theorem handshakeRecord_nat (m : Bool) (s : St δ) (r : Rec) (srv : Bool) :
    handshakeRecord O m (st ρ s) (rec ρ r) srv = out ρ (handshakeRecord O m s r srv) := by
  unfold handshakeRecord
  simp only [st_srvCC, st_cliCC, rec_body, handshakeFinished_nat ρ O hdec, serverHello_nat ρ O]
  split
  · exact tryExcept_nat ρ _ _ (fun _ => rfl)
  · cases r.body with
    | nil => rfl
    | cons t _ =>
      simp only
      split
      · rfl
      · split
        · exact tryExcept_nat ρ _ _ (fun _ => rfl)
        · exact tryExcept_nat ρ _ _ (fun _ => rfl)

theorem app13_nat (s : St δ) (r : Rec) (srv : Bool) : app13 O (st ρ s) (rec ρ r) srv = out ρ (app13 O s r srv) := by
  unfold app13
  simp only [st_dec, hdec, st_hsBuf]
  cases s.dec with
  | none => rfl
  | some d =>
    simp only
    rcases O.decrypt d r srv with ⟨d1, _ | _ | pt⟩
    · rfl
    · rfl
    · simp only
      cases (rstrip0 pt).getLast? with
      | none => rfl
      | some t =>
        simp only
        split
        · rcases hs13Loop O srv _ _ d1 with ⟨d2, b, _ | _⟩
          · exact congrArg Out.raised (setHsBuf_nat ρ { s with dec := some d2 } srv b)
          · exact congrArg Out.ok (setHsBuf_nat ρ { s with dec := some d2 } srv b)
        · split
          · exact congrArg Out.ok (push_nat ρ { s with dec := some d1 } ⟨some (rstrip0 pt).dropLast, r, srv, true⟩)
          · rfl

theorem appLegacy_nat (s : St δ) (r : Rec) (srv : Bool) :
    appLegacy O (st ρ s) (rec ρ r) srv = out ρ (appLegacy O s r srv) := by
  unfold appLegacy
  simp only [st_dec, hdec]
  cases s.dec with
  | none => rfl
  | some d =>
    simp only
    rcases O.decrypt d r srv with ⟨d1, _ | pt⟩
    · rfl
    · exact congrArg Out.ok (push_nat ρ { s with dec := some d1 } ⟨pt, r, srv, true⟩)

theorem handleRecordRaw_nat (m : Bool) (s : St δ) (r : Rec) (srv : Bool) :
    handleRecordRaw O m (st ρ s) (rec ρ r) srv = out ρ (handleRecordRaw O m s r srv) := by
  unfold handleRecordRaw
  simp only [rec_typ, rec_body, handshakeRecord_nat ρ O hdec, st_canDecrypt, st_dec, st_ver, app13_nat ρ O hdec,
    appLegacy_nat ρ O hdec]
  cases r.typ with
  | none => rfl
  | some t =>
    simp only
    split
    · cases handshakeRecord O m s r srv with
      | ok s1 => exact congrArg Out.ok (pushMeta_nat ρ m s1 r srv)
      | raised s1 => rfl
    · split
      · split
        · cases s.ver with
          | none => rfl
          | some v => cases v <;> first | rfl | exact tryExcept_nat ρ _ _ (fun _ => rfl)
        · rfl
      · split
        · cases r.body with
          | nil => exact congrArg Out.ok (pushMeta_nat ρ m s r srv)
          | cons lvl _ =>
            have : alert (st ρ s) lvl = st ρ (alert s lvl) := by
              unfold alert
              by_cases h : lvl = 0x01 ∧ s.ver ≠ some .tls13
              · have h' : lvl = 0x01 ∧ (st ρ s).ver ≠ some .tls13 := h
                rw [if_pos h, if_pos h']
              · have h' : ¬ (lvl = 0x01 ∧ (st ρ s).ver ≠ some .tls13) := h
                rw [if_neg h, if_neg h']; rfl
            simp only [this]
            exact congrArg Out.ok (pushMeta_nat ρ m _ r srv)
        · split
          · cases srv
            · exact congrArg Out.ok (pushMeta_nat ρ m { s with cliCC := true } r false)
            · exact congrArg Out.ok (pushMeta_nat ρ m { s with srvCC := true } r true)
          · rfl

theorem handleRecord_nat (m : Bool) (s : St δ) (r : Rec) (srv : Bool) :
    handleRecord O m (st ρ s) (rec ρ r) srv = st ρ (handleRecord O m s r srv) := by
  unfold handleRecord
  rw [handleRecordRaw_nat ρ O hdec]
  cases handleRecordRaw O m s r srv <;> rfl

theorem run_nat (m : Bool) (s : St δ) (rs : List (Rec × Bool)) :
    run O m (st ρ s) (rs.map fun x => (rec ρ x.1, x.2)) = st ρ (run O m s rs) := by
  induction rs generalizing s with
  | nil => rfl
  | cons x rs ih =>
    simp only [run, List.map_cons, List.foldl_cons] at ih ⊢
    rw [handleRecord_nat ρ O hdec]
    exact ih _

end Sess


end TLX.Lemmas.CarrierMap
