/-
Naturality of the TLS pipeline under RENAMING OF PACKET TAGS.

`Pkt.tag` names the packet object (`Ingest`: its position in the capture). The session machines never compare tags: the
reassembler carries them through as `Seg.id` into the carrier lists of the records (`ranges`, `carriers`), the session
stores the records in `application_traffic`, and `Session.decrypt()` reads `(info id).ts` for every carrier. So for ANY
function `ρ : Nat → Nat` (no injectivity, no monotonicity is needed):

    running on the packets retagged by `ρ` with the table `info'`  =  running on the packets with the table `info' ∘ ρ`.

Together with the congruence "two tables that agree on the tags that occur give the same run" (`Lemmas.ExportProps`) this
is all the file-level theorems need. Core Lean only.
-/
import TLX.Lemmas.ExportProps
set_option linter.unusedSimpArgs false
namespace TLX.Lemmas.TagNat
open TLX TLX.MainLoop

-- ====================================================================== reassembly
namespace Reasm
open TLX.Reassembly

variable (ρ : Nat → Nat)

def seg (s : Seg) : Seg := { s with id := ρ s.id }
def rec (r : Rec) : Rec := (r.1, r.2.map ρ)
def st (s : St) : St := { s with buf := s.buf.map (seg ρ), out := s.out.map (rec ρ) }

theorem insertBy_nat (key : Seg → Nat) (hk : ∀ x, key (seg ρ x) = key x) (p : Seg) (l : List Seg) :
    insertBy key (seg ρ p) (l.map (seg ρ)) = (insertBy key p l).map (seg ρ) := by
  induction l with
  | nil => rfl
  | cons a r ih =>
    simp only [List.map_cons, insertBy, hk]
    split
    · simp only [List.map_cons, ih]
    · rfl

theorem sortBy_nat (key : Seg → Nat) (hk : ∀ x, key (seg ρ x) = key x) (l : List Seg) :
    sortBy key (l.map (seg ρ)) = (sortBy key l).map (seg ρ) := by
  induction l with
  | nil => rfl
  | cons a r ih =>
    simp only [sortBy, List.map_cons, List.foldr_cons] at ih ⊢
    rw [ih, insertBy_nat ρ key hk]

theorem minBy_nat (key : Seg → Nat) (hk : ∀ x, key (seg ρ x) = key x) (a : Seg) (r : List Seg) :
    minBy key (seg ρ a) (r.map (seg ρ)) = seg ρ (minBy key a r) := by
  induction r generalizing a with
  | nil => rfl
  | cons x r ih =>
    simp only [minBy, List.map_cons, List.foldl_cons, hk] at ih ⊢
    split
    · exact ih x
    · exact ih a

theorem bufData_nat (b : List Seg) : bufData (b.map (seg ρ)) = bufData b := by
  simp [bufData, List.map_map, Function.comp_def, seg]

theorem ranges_nat (b : List Seg) (s : Nat) :
    ranges (b.map (seg ρ)) s = (ranges b s).map fun r => (r.1, r.2.1, ρ r.2.2) := by
  induction b generalizing s with
  | nil => rfl
  | cons a r ih => simp only [List.map_cons, ranges, ih, seg]

theorem carriers_nat (rs : List (Nat × Nat × Nat)) (i n : Nat) :
    carriers (rs.map fun r => (r.1, r.2.1, ρ r.2.2)) i n = (carriers rs i n).map ρ := by
  simp only [carriers, List.filter_map, List.map_map, Function.comp_def]

theorem records_nat (d : Bytes) (rs : List (Nat × Nat × Nat)) (i : Nat) :
    records d (rs.map fun r => (r.1, r.2.1, ρ r.2.2)) i = (records d rs i).map (rec ρ) := by
  induction h : d.length - i using Nat.strongRecOn generalizing i with
  | ind n ih =>
    by_cases hle : d.length ≤ i
    · rw [records, if_pos hle]
      conv => rhs; rw [records, if_pos hle]
      rfl
    · have := recLenAt_ge d i
      rw [records, if_neg hle]
      conv => rhs; rw [records, if_neg hle]
      simp only [List.map_cons, rec, carriers_nat]
      rw [ih (d.length - (i + recLenAt d i)) (by omega) _ rfl]

theorem flush_nat (buf : List Seg) : flush (buf.map (seg ρ)) = (flush buf).map (List.map (rec ρ)) := by
  simp only [flush, bufData_nat, ranges_nat, records_nat]
  split <;> rfl

theorem contiguous_nat (W : Nat) (l : List Seg) : contiguous W (l.map (seg ρ)) = contiguous W l := by
  induction l with
  | nil => rfl
  | cons a r ih =>
    cases r with
    | nil => rfl
    | cons b r' =>
      simp only [List.map_cons, contiguous] at ih ⊢
      rw [ih]; rfl

theorem deliver_nat (W : Nat) (s : St) (base : Nat) (buf : List Seg) :
    deliver W (st ρ s) base (buf.map (seg ρ)) = st ρ (deliver W s base buf) := by
  cases buf with
  | nil => rfl
  | cons h t =>
    simp only [deliver, List.map_cons]
    have hc := contiguous_nat ρ W (h :: t)
    simp only [List.map_cons] at hc
    have hf := flush_nat ρ (h :: t)
    simp only [List.map_cons] at hf
    have hb := bufData_nat ρ (h :: t)
    simp only [List.map_cons] at hb
    rw [hc, hf, hb]
    have hseq : (seg ρ h).seq = h.seq := rfl
    rw [hseq]
    split
    · rfl
    · split
      · rfl
      · cases flush (h :: t) with
        | none => rfl
        | some recs => simp [st, List.map_append]

theorem extract_nat (W : Nat) (s : St) : extract W (st ρ s) = st ρ (extract W s) := by
  unfold extract
  cases hb : s.buf with
  | nil => simp [st, hb]
  | cons first rest =>
    have : (st ρ s).buf = seg ρ first :: rest.map (seg ρ) := by simp [st, hb]
    rw [this]
    simp only
    have hbase : baseOf W (st ρ s).next (seg ρ first) (rest.map (seg ρ)) = baseOf W s.next first rest := by
      unfold baseOf
      have : (st ρ s).next = s.next := rfl
      rw [this]
      cases s.next with
      | some b => rfl
      | none =>
        simp only
        have hs : (seg ρ first).seq = first.seq := rfl
        rw [hs, minBy_nat ρ _ (fun x => rfl)]
        rfl
    rw [hbase]
    have := sortBy_nat ρ (syncKey W (baseOf W s.next first rest)) (fun x => rfl) (first :: rest)
    simp only [List.map_cons] at this
    rw [this, deliver_nat]

theorem stepW_nat (W : Nat) (s : St) (p : Seg) : stepW W (st ρ s) (seg ρ p) = st ρ (stepW W s p) := by
  unfold stepW
  have h1 : (st ρ s).seen = s.seen := rfl
  have h2 : (seg ρ p).seq = p.seq := rfl
  rw [h1, h2]
  split
  · rfl
  · have : ({ st ρ s with seen := s.seen ++ [p.seq], buf := (st ρ s).buf ++ [seg ρ p] } : St) =
        st ρ { s with seen := s.seen ++ [p.seq], buf := s.buf ++ [p] } := by
      simp [st, List.map_append]
    rw [this, extract_nat]

end Reasm

-- ====================================================================== the session state machine
namespace Sess
open TLX.Session

variable (ρ : Nat → Nat)

def rec (r : Rec) : Rec := { r with carriers := r.carriers.map ρ }
def entry (e : Entry) : Entry := { e with record := rec ρ e.record }
def st {δ : Type} (s : St δ) : St δ := { s with traffic := s.traffic.map (entry ρ) }
def out {δ : Type} : Out (St δ) → Out (St δ)
  | .ok s => .ok (st ρ s)
  | .raised s => .raised (st ρ s)

variable {δ : Type}

@[simp] theorem rec_raw (r : Rec) : (rec ρ r).raw = r.raw := rfl
@[simp] theorem rec_typ (r : Rec) : (rec ρ r).typ = r.typ := rfl
@[simp] theorem rec_ver (r : Rec) : (rec ρ r).ver = r.ver := rfl
@[simp] theorem rec_body (r : Rec) : (rec ρ r).body = r.body := rfl
@[simp] theorem st_canDecrypt (s : St δ) : (st ρ s).canDecrypt = s.canDecrypt := rfl
@[simp] theorem st_chSeen (s : St δ) : (st ρ s).chSeen = s.chSeen := rfl
@[simp] theorem st_ver (s : St δ) : (st ρ s).ver = s.ver := rfl
@[simp] theorem st_srvCC (s : St δ) : (st ρ s).srvCC = s.srvCC := rfl
@[simp] theorem st_cliCC (s : St δ) : (st ρ s).cliCC = s.cliCC := rfl
@[simp] theorem st_dec (s : St δ) : (st ρ s).dec = s.dec := rfl
@[simp] theorem st_cr (s : St δ) : (st ρ s).cr = s.cr := rfl
@[simp] theorem st_hsBuf (s : St δ) (srv : Bool) : (st ρ s).hsBuf srv = s.hsBuf srv := by cases srv <;> rfl

theorem push_nat (s : St δ) (e : Entry) : (st ρ s).push (entry ρ e) = st ρ (s.push e) := by
  simp [St.push, st, List.map_append]

theorem pushMeta_nat (m : Bool) (s : St δ) (r : Rec) (srv : Bool) :
    pushMeta m (st ρ s) (rec ρ r) srv = st ρ (pushMeta m s r srv) := by
  unfold pushMeta
  split
  · exact push_nat ρ s ⟨some r.raw, r, srv, false⟩
  · rfl

theorem setHsBuf_nat (s : St δ) (srv : Bool) (b : Bytes) : (st ρ s).setHsBuf srv b = st ρ (s.setHsBuf srv b) := by
  cases srv <;> rfl

theorem tryExcept_nat (x : Out (St δ)) (h : St δ → St δ) (hh : ∀ s, h (st ρ s) = st ρ (h s)) :
    tryExcept (out ρ x) h = out ρ (tryExcept x h) := by
  cases x with
  | ok s => rfl
  | raised s => simp only [out, tryExcept, hh]

variable (O : Ops δ) (hdec : ∀ d r srv, O.decrypt d (rec ρ r) srv = O.decrypt d r srv)
include hdec

theorem handshakeFinished_nat (m : Bool) (s : St δ) (r : Rec) (srv : Bool) :
    handshakeFinished O m (st ρ s) (rec ρ r) srv = out ρ (handshakeFinished O m s r srv) := by
  unfold handshakeFinished
  simp only [st_dec, st_srvCC, st_cliCC, st_canDecrypt, hdec]
  cases s.dec with
  | none => rfl
  | some d =>
    simp only
    split
    · rcases O.decrypt d r srv with ⟨d', _ | pt⟩
      · rfl
      · simp only
        split
        · exact congrArg Out.ok (push_nat ρ { s with dec := some d' } ⟨pt, r, srv, false⟩)
        · rfl
    · split <;> rfl

omit hdec in
theorem clientHello_nat (s : St δ) (r : Rec) : clientHello (st ρ s) (rec ρ r) = st ρ (clientHello s r) := rfl

omit hdec in
theorem latch_nat (s : St δ) : latch (st ρ s) = st ρ (latch s) := by
  unfold latch
  by_cases h : s.chSeen = true
  · have h' : (st ρ s).chSeen = true := h
    rw [if_pos h, if_pos h']; rfl
  · have h' : ¬ (st ρ s).chSeen = true := h
    rw [if_neg h, if_neg h']

omit hdec in
theorem chooseVersion_nat (s : St δ) (a b : Nat) (c : Bool) :
    chooseVersion (st ρ s) a b c = st ρ (chooseVersion s a b c) := by
  unfold chooseVersion
  by_cases h1 : a = 0x0300
  · simp only [h1, if_true]; rfl
  · by_cases h2 : a = 0x0302
    · simp only [h1, h2, if_true, if_false]; rfl
    · by_cases h3 : b = 0x0301
      · simp only [h1, h2, h3, if_true, if_false]; rfl
      · by_cases h4 : b = 0x0303
        · simp only [h1, h2, h3, h4, if_true, if_false]; cases c <;> rfl
        · simp only [h1, h2, h3, h4, if_false]; rfl

omit hdec in
theorem serverHelloKeys_nat (s2 : St δ) (suite sr : Bytes) (exts : Exts) (comp : UInt8) :
    serverHelloKeys O (st ρ s2) suite sr exts comp = out ρ (serverHelloKeys O s2 suite sr exts comp) := by
  unfold serverHelloKeys
  simp only [st_cr, st_ver]
  cases s2.cr with
  | none => rfl
  | some cr =>
    simp only
    cases O.genKeys s2.ver suite cr sr exts comp <;> rfl

omit hdec in
theorem serverHello_nat (s : St δ) (r : Rec) : serverHello O (st ρ s) (rec ρ r) = out ρ (serverHello O s r) := by
  unfold serverHello
  simp only [rec_body, rec_ver, latch_nat]
  cases r.body[38]? with
  | none => rfl
  | some sidLen =>
    simp only
    cases r.body[38 + sidLen.toNat + 1 + 2]? with
    | none => rfl
    | some comp =>
      simp only [chooseVersion_nat]
      exact serverHelloKeys_nat ρ O _ _ _ _ _

theorem handshakeRecord_nat (m : Bool) (s : St δ) (r : Rec) (srv : Bool) :
    handshakeRecord O m (st ρ s) (rec ρ r) srv = out ρ (handshakeRecord O m s r srv) := by
  unfold handshakeRecord
  simp only [st_srvCC, st_cliCC, rec_body, handshakeFinished_nat ρ O hdec, serverHello_nat ρ O]
  split
  · exact tryExcept_nat ρ _ _ (fun _ => rfl)
  · cases r.body with
    | nil => rfl
    | cons t _ =>
      simp only
      split
      · rfl
      · split
        · exact tryExcept_nat ρ _ _ (fun _ => rfl)
        · exact tryExcept_nat ρ _ _ (fun _ => rfl)

theorem app13_nat (s : St δ) (r : Rec) (srv : Bool) : app13 O (st ρ s) (rec ρ r) srv = out ρ (app13 O s r srv) := by
  unfold app13
  simp only [st_dec, hdec, st_hsBuf]
  cases s.dec with
  | none => rfl
  | some d =>
    simp only
    rcases O.decrypt d r srv with ⟨d1, _ | _ | pt⟩
    · rfl
    · rfl
    · simp only
      cases (rstrip0 pt).getLast? with
      | none => rfl
      | some t =>
        simp only
        split
        · rcases hs13Loop O srv _ _ d1 with ⟨d2, b, _ | _⟩
          · exact congrArg Out.raised (setHsBuf_nat ρ { s with dec := some d2 } srv b)
          · exact congrArg Out.ok (setHsBuf_nat ρ { s with dec := some d2 } srv b)
        · split
          · exact congrArg Out.ok (push_nat ρ { s with dec := some d1 } ⟨some (rstrip0 pt).dropLast, r, srv, true⟩)
          · rfl

theorem appLegacy_nat (s : St δ) (r : Rec) (srv : Bool) :
    appLegacy O (st ρ s) (rec ρ r) srv = out ρ (appLegacy O s r srv) := by
  unfold appLegacy
  simp only [st_dec, hdec]
  cases s.dec with
  | none => rfl
  | some d =>
    simp only
    rcases O.decrypt d r srv with ⟨d1, _ | pt⟩
    · rfl
    · exact congrArg Out.ok (push_nat ρ { s with dec := some d1 } ⟨pt, r, srv, true⟩)

theorem handleRecordRaw_nat (m : Bool) (s : St δ) (r : Rec) (srv : Bool) :
    handleRecordRaw O m (st ρ s) (rec ρ r) srv = out ρ (handleRecordRaw O m s r srv) := by
  unfold handleRecordRaw
  simp only [rec_typ, rec_body, handshakeRecord_nat ρ O hdec, st_canDecrypt, st_dec, st_ver, app13_nat ρ O hdec,
    appLegacy_nat ρ O hdec]
  cases r.typ with
  | none => rfl
  | some t =>
    simp only
    split
    · cases handshakeRecord O m s r srv with
      | ok s1 => exact congrArg Out.ok (pushMeta_nat ρ m s1 r srv)
      | raised s1 => rfl
    · split
      · split
        · cases s.ver with
          | none => rfl
          | some v => cases v <;> first | rfl | exact tryExcept_nat ρ _ _ (fun _ => rfl)
        · rfl
      · split
        · cases r.body with
          | nil => exact congrArg Out.ok (pushMeta_nat ρ m s r srv)
          | cons lvl _ =>
            have : alert (st ρ s) lvl = st ρ (alert s lvl) := by
              unfold alert
              by_cases h : lvl = 0x01 ∧ s.ver ≠ some .tls13
              · have h' : lvl = 0x01 ∧ (st ρ s).ver ≠ some .tls13 := h
                rw [if_pos h, if_pos h']
              · have h' : ¬ (lvl = 0x01 ∧ (st ρ s).ver ≠ some .tls13) := h
                rw [if_neg h, if_neg h']; rfl
            simp only [this]
            exact congrArg Out.ok (pushMeta_nat ρ m _ r srv)
        · split
          · cases srv
            · exact congrArg Out.ok (pushMeta_nat ρ m { s with cliCC := true } r false)
            · exact congrArg Out.ok (pushMeta_nat ρ m { s with srvCC := true } r true)
          · rfl

theorem handleRecord_nat (m : Bool) (s : St δ) (r : Rec) (srv : Bool) :
    handleRecord O m (st ρ s) (rec ρ r) srv = st ρ (handleRecord O m s r srv) := by
  unfold handleRecord
  rw [handleRecordRaw_nat ρ O hdec]
  cases handleRecordRaw O m s r srv <;> rfl

theorem run_nat (m : Bool) (s : St δ) (rs : List (Rec × Bool)) :
    run O m (st ρ s) (rs.map fun x => (rec ρ x.1, x.2)) = st ρ (run O m s rs) := by
  induction rs generalizing s with
  | nil => rfl
  | cons x rs ih =>
    simp only [run, List.map_cons, List.foldl_cons] at ih ⊢
    rw [handleRecord_nat ρ O hdec]
    exact ih _

end Sess

-- ====================================================================== one connection
section Conn
open TLX.Lemmas.Pipeline TLX.Props.C01Pipeline

variable (H : Crypto.Prims) (P : Cipher.Prims) (ρ : Nat → Nat)

/-- the packet with its tag renamed -/
def retag (p : Pkt) : Pkt := { p with tag := ρ p.tag }

/-- the conversation object holding the renamed packets -/
def connRetag (c : Pipeline.Conn) : Pipeline.Conn := { c with pkts := c.pkts.map (retag ρ) }

def recs (l : List (Session.Rec × Bool)) : List (Session.Rec × Bool) := l.map fun x => (Sess.rec ρ x.1, x.2)

theorem reasmPkt_nat (info' : Nat → Pipeline.Info) (server : Endpoint) (R : Reassembly.St × Reassembly.St) (p : Pkt) :
    reasmPkt info' server (Reasm.st ρ R.1, Reasm.st ρ R.2) (retag ρ p) =
      (((Reasm.st ρ (reasmPkt (info' ∘ ρ) server R p).1.1, Reasm.st ρ (reasmPkt (info' ∘ ρ) server R p).1.2)),
        recs ρ (reasmPkt (info' ∘ ρ) server R p).2) := by
  unfold reasmPkt
  have hs : ∀ (st0 : Reassembly.St),
      Reassembly.step { Reasm.st ρ st0 with out := [] } ⟨ρ p.tag, (info' (ρ p.tag)).seq, p.payload⟩ =
        Reasm.st ρ (Reassembly.step { st0 with out := [] } ⟨p.tag, (info' (ρ p.tag)).seq, p.payload⟩) :=
    fun st0 => Reasm.stepW_nat ρ (2 ^ 32) { st0 with out := [] } ⟨p.tag, (info' (ρ p.tag)).seq, p.payload⟩
  simp only [Reasm.st] at hs
  simp only [retag, Function.comp]
  by_cases hsrv : (p.src == server) = true
  · simp only [hsrv, if_true, recs, Reasm.st, hs, List.map_map, Function.comp_def, Sess.rec, Reasm.rec]
  · simp only [hsrv, Bool.false_eq_true, if_false, recs, Reasm.st, hs, List.map_map, Function.comp_def, Sess.rec, Reasm.rec]

theorem released_nat (info' : Nat → Pipeline.Info) (server : Endpoint) (pkts : List Pkt) :
    ∀ R : Reassembly.St × Reassembly.St,
      released info' server (Reasm.st ρ R.1, Reasm.st ρ R.2) (pkts.map (retag ρ)) =
        recs ρ (released (info' ∘ ρ) server R pkts) := by
  induction pkts with
  | nil => intro R; rfl
  | cons p ps ih =>
    intro R
    simp only [List.map_cons, released, reasmPkt_nat, ih, recs, List.map_append]

theorem connRecs_nat (info' : Nat → Pipeline.Info) (c : Pipeline.Conn) :
    connRecs info' (connRetag ρ c) = recs ρ (connRecs (info' ∘ ρ) c) :=
  released_nat ρ info' c.server c.pkts (Reassembly.St.init, Reassembly.St.init)

/-- **One conversation.** `Session.decrypt()` on the conversation holding the retagged packets, reading the table
    `info'`, returns what it returns on the original packets reading `info' ∘ ρ` — for ANY `ρ`. -/
theorem connOut_nat (info' : Nat → Pipeline.Info) (c : Pipeline.Conn) (kl : List Keylog.Key) :
    Pipeline.connOut H P info' (connRetag ρ c) kl = Pipeline.connOut H P (info' ∘ ρ) c kl := by
  rw [connOut_eq, connOut_eq, connRecs_nat]
  have hrun := Sess.run_nat ρ (Pipeline.ops H P kl) (fun _ _ _ => rfl) c.opts.metadata Session.St.init
    (connRecs (info' ∘ ρ) c)
  have hinit : Sess.st ρ (Session.St.init : Session.St RecordLayer.Dec) = Session.St.init := rfl
  rw [hinit] at hrun
  have hopts : (connRetag ρ c).opts = c.opts := rfl
  rw [hopts]
  unfold recs
  rw [hrun]
  have ht : (Sess.st ρ (Session.run (Pipeline.ops H P kl) c.opts.metadata Session.St.init (connRecs (info' ∘ ρ) c))).traffic.map
        (toRec fun id => (info' id).ts) =
      (Session.run (Pipeline.ops H P kl) c.opts.metadata Session.St.init (connRecs (info' ∘ ρ) c)).traffic.map
        (toRec fun id => ((info' ∘ ρ) id).ts) := by
    simp only [Sess.st, List.map_map]
    apply List.map_congr_left
    intro e _
    simp only [Function.comp, toRec, Sess.entry, Sess.rec, List.map_map]
    rfl
  rw [ht]
  rfl

end Conn

-- ====================================================================== the main loop
section Loop
open TLX.Spec.Demux TLX.Lemmas.ExportProps

variable (mask : Quic.Dissect.MaskFn) (H : Crypto.Prims) (P : Cipher.Prims) (ρ : Nat → Nat)

def itemRetag {κ : Type} : Item κ → Item κ
  | .dsb ks => .dsb ks
  | .frame p => .frame (retag ρ p)

def sessRetag (s : TlsSess Pipeline.Conn) : TlsSess Pipeline.Conn := { s with st := connRetag ρ s.st }

/-- the classification of an item does not read the tag -/
theorem classify_retag {κ : Type} (o : Opts) (it : Item κ) :
    classify o (itemRetag ρ it) =
      match classify o it with
      | .keys ks => .keys ks
      | .tls p => .tls (retag ρ p)
      | .quic p b0 r => .quic (retag ρ p) b0 r
      | .ignore w => .ignore w := by
  cases it with
  | dsb ks => rfl
  | frame p =>
    obtain ⟨l4, src, dst, payload, csumOk, tag⟩ := p
    simp only [itemRetag, classify, retag]
    cases l4 with
    | other => rfl
    | tcp =>
      simp only
      by_cases h1 : payload.length = 0
      · simp [h1]
      · by_cases h2 : (o.checksumTest && !csumOk) = true <;> simp [h1, h2]
    | udp =>
      simp only
      cases payload with
      | nil => rfl
      | cons b0 r =>
        simp only
        by_cases h2 : (o.checksumTest && !csumOk) = true
        · simp [h2]
        · by_cases h3 : ((b0.toNat &&& 0x40) >>> 6 = 1 || o.greasy) = true <;> simp [h2, h3]

theorem tcpView_retag {κ : Type} (o : Opts) (xs : List (Item κ)) :
    tcpView o (xs.map (itemRetag ρ)) = (tcpView o xs).map (retag ρ) := by
  induction xs with
  | nil => rfl
  | cons it xs ih =>
    simp only [tcpView, List.map_cons, List.filterMap_cons, classify_retag] at ih ⊢
    cases classify o it <;> simp [ih]

theorem dsbOnly_retag {κ : Type} (xs : List (Item κ)) : dsbOnly (xs.map (itemRetag ρ)) = dsbOnly xs := by
  induction xs with
  | nil => rfl
  | cons it xs ih =>
    simp only [dsbOnly, List.map_cons, List.flatMap_cons] at ih ⊢
    rw [ih]
    cases it <;> rfl

theorem quicView_retag {κ : Type} (o : Opts) (xs : List (Item κ)) :
    ∀ kl, quicView o kl (xs.map (itemRetag ρ)) = (quicView o kl xs).map fun x => { x with p := retag ρ x.p } := by
  induction xs with
  | nil => intro kl; rfl
  | cons it xs ih =>
    intro kl
    simp only [List.map_cons, quicView, classify_retag]
    cases classify o it with
    | keys ks => exact ih _
    | tls p => exact ih _
    | ignore w => exact ih _
    | quic p b0 r => simp only [List.map_cons, ih]

theorem tlsHandle_nat (info' : Nat → Pipeline.Info) (o : Opts) (ss : List (TlsSess Pipeline.Conn)) (p : Pkt) :
    tlsHandle (Pipeline.tlsMachine H P info') o (ss.map (sessRetag ρ)) (retag ρ p) =
      (tlsHandle (Pipeline.tlsMachine H P (info' ∘ ρ)) o ss p).map (sessRetag ρ) := by
  induction ss with
  | nil =>
    have hc : candidate o (retag ρ p) = candidate o p := rfl
    simp only [tlsHandle, List.map_nil, hc]
    cases candidate o p with
    | true => rfl
    | false => rfl
  | cons s rest ih =>
    simp only [tlsHandle, List.map_cons]
    have : (sessRetag ρ s).matches (retag ρ p) = s.matches p := rfl
    rw [this]
    cases s.matches p with
    | true =>
      simp only [if_true, List.map_cons, List.cons.injEq, and_true]
      simp [sessRetag, connRetag, Pipeline.tlsMachine, List.map_append]
    | false => simp only [Bool.false_eq_true, if_false, ih, List.map_cons]

theorem tlsRun_nat (info' : Nat → Pipeline.Info) (o : Opts) (pkts : List Pkt) :
    ∀ ss, tlsRun (Pipeline.tlsMachine H P info') o (ss.map (sessRetag ρ)) (pkts.map (retag ρ)) =
      (tlsRun (Pipeline.tlsMachine H P (info' ∘ ρ)) o ss pkts).map (sessRetag ρ) := by
  induction pkts with
  | nil => intro ss; rfl
  | cons p ps ih =>
    intro ss
    simp only [tlsRun, List.map_cons, List.foldl_cons] at ih ⊢
    rw [tlsHandle_nat, ih]

/-- **TLS part of a run.** Items with renamed tags and the table `info'` export the same conversations, frame by frame,
    as the original items with the table `info' ∘ ρ`. -/
theorem tlsFrames_nat (info' : Nat → Pipeline.Info) (o : Opts) (fk : Option (List Keylog.Key))
    (xs : List (Item Keylog.Key)) :
    tlsFrames H P info' o fk (xs.map (itemRetag ρ)) = tlsFrames H P (info' ∘ ρ) o fk xs := by
  unfold tlsFrames tlsConvs keysOf
  rw [tcpView_retag, dsbOnly_retag]
  have := tlsRun_nat H P ρ info' o (tcpView o xs) []
  simp only [List.map_nil] at this
  rw [this, List.map_map]
  apply List.map_congr_left
  intro s _
  simp only [Function.comp, convFrames, sessRetag]
  rw [connOut_nat]

/-! #### QUIC: the machine reads `info p.tag` and nothing else of the tag -/

theorem quicHandleH_nat (info' : Nat → Pipeline.Info) (o : Opts) (kl : List Keylog.Key) (h : Hdr)
    (ss : List (QuicSess QuicPipeline.QConn)) (p : Pkt) :
    quicHandleH (QuicPipeline.quicMachine mask H P info') o kl h ss (retag ρ p) =
      quicHandleH (QuicPipeline.quicMachine mask H P (info' ∘ ρ)) o kl h ss p := by
  unfold quicHandleH
  split
  · rfl
  · induction ss with
    | nil => rfl
    | cons s rest ih =>
      simp only [quicLoop]
      have ht : quicTake (QuicPipeline.quicMachine mask H P info') h (retag ρ p) s =
          quicTake (QuicPipeline.quicMachine mask H P (info' ∘ ρ)) h p s := rfl
      rw [ht, ih]
      rfl

theorem quicRun_nat (info' : Nat → Pipeline.Info) (o : Opts) (X : List (QIn Keylog.Key)) :
    ∀ ss, quicRun (QuicPipeline.quicMachine mask H P info') o ss (X.map fun x => { x with p := retag ρ x.p }) =
      quicRun (QuicPipeline.quicMachine mask H P (info' ∘ ρ)) o ss X := by
  induction X with
  | nil => intro ss; rfl
  | cons x X ih =>
    intro ss
    simp only [quicRun, List.map_cons, List.foldl_cons] at ih ⊢
    rw [quicHandleH_nat, ih]

end Loop

end TLX.Lemmas.TagNat
