/-
Helper lemmas for the hello-message theorems (Props/C02Hello.lean): integer codecs, a cursor over
concatenated fields, the extension list round trip, frame lemmas of the extension loop.
Core Lean only.
-/
import TLX.Quic.TlsMsgs
import TLX.Spec.TlsHello
import TLX.Lemmas.QuicVarint
namespace TLX.Lemmas.TlsHello
open TLX TLX.Quic.Varint TLX.Quic.TlsMsgs TLX.Spec.TlsHello TLX.Spec.QuicFrames
open TLX.Lemmas.QuicVarint (ofNatBE_length accBE_ofNatBE readVarint_enc readVarint_encW)

/-! ### integer codecs -/

theorem beNat_ofNatBE (k n : Nat) (h : n < 256 ^ k) : Bytes.beNat (Bytes.ofNatBE k n) = n := by
  have := accBE_ofNatBE 0 k n h
  simpa [accBE, Bytes.beNat] using this

theorem u8_length (n : Nat) : (u8 n).length = 1 := ofNatBE_length 1 n
theorem u16_length (n : Nat) : (u16 n).length = 2 := ofNatBE_length 2 n
theorem u24_length (n : Nat) : (u24 n).length = 3 := ofNatBE_length 3 n

theorem beNat_u16 (n : Nat) (h : n < 65536) : Bytes.beNat (u16 n) = n := beNat_ofNatBE 2 n (by simpa using h)
theorem beNat_u24 (n : Nat) (h : n < 16777216) : Bytes.beNat (u24 n) = n := beNat_ofNatBE 3 n (by simpa using h)

theorem u8_eq (n : Nat) : u8 n = [UInt8.ofNat n] := by
  simp only [u8, Bytes.ofNatBE, List.nil_append, List.cons.injEq, and_true]
  apply UInt8.toNat_inj.mp
  simp

theorem toNat_ofNat (n : Nat) (h : n < 256) : (UInt8.ofNat n).toNat = n := by
  simp; omega

/-! ### cursor over `pre ++ field ++ rest` -/

theorem slice_cursor (r pre f rest : Bytes) (i j : Nat) (h : r = pre ++ (f ++ rest))
    (hi : pre.length = i) (hj : i + f.length = j) : Bytes.slice r i j = f := by
  subst h hi hj
  unfold Bytes.slice
  rw [List.drop_left, Nat.add_sub_cancel_left, List.take_left]

theorem slice_length (b : Bytes) (i j : Nat) : (Bytes.slice b i j).length = min (j - i) (b.length - i) := by
  simp [Bytes.slice]

theorem get_cursor (r pre : Bytes) (x : UInt8) (rest : Bytes) (i : Nat) (h : r = pre ++ (x :: rest))
    (hi : pre.length = i) : r[i]? = some x := by
  subst h hi
  simp

theorem drop_cursor (r pre rest : Bytes) (i : Nat) (h : r = pre ++ rest) (hi : pre.length = i) :
    r.drop i = rest := by
  subst h hi
  exact List.drop_left

/-! ### the extension list -/

/-- What the collecting loop of `get_extensions` should produce for a sent extension. -/
def toP (e : Ext) : PExt := ⟨u16 e.ty, e.body.length, e.body⟩

theorem extsPayload_cons (e : Ext) (es : List Ext) :
    extsPayload (e :: es) = u16 e.ty ++ (u16 e.body.length ++ (e.body ++ extsPayload es)) := by
  simp [extsPayload, encodeExt, vec16]

theorem parseExts_nil : parseExts [] = [] := by rw [parseExts]; rfl

theorem parseExts_payload (es : List Ext) (h : ∀ e ∈ es, e.wf) :
    parseExts (extsPayload es) = es.map toP := by
  induction es with
  | nil => exact parseExts_nil
  | cons e es ih =>
    have he := (h e (by simp)).2
    have hr := extsPayload_cons e es
    generalize extsPayload (e :: es) = r at hr
    have hlen : r.length = 4 + e.body.length + (extsPayload es).length := by
      rw [hr]; simp only [List.length_append, u16_length]; omega
    have h0 : Bytes.slice r 0 2 = u16 e.ty :=
      slice_cursor r [] _ _ 0 2 (by rw [hr]; rfl) rfl (by rw [u16_length])
    have h2 : Bytes.slice r 2 4 = u16 e.body.length :=
      slice_cursor r (u16 e.ty) _ _ 2 4 hr (u16_length _) (by rw [u16_length])
    have h4 : Bytes.slice r 4 (4 + e.body.length) = e.body :=
      slice_cursor r (u16 e.ty ++ u16 e.body.length) e.body (extsPayload es) 4 _ (by rw [hr]; simp only [List.append_assoc])
        (by simp only [List.length_append, u16_length]) rfl
    have hd : r.drop (4 + e.body.length) = extsPayload es :=
      drop_cursor r (u16 e.ty ++ (u16 e.body.length ++ e.body)) (extsPayload es) _ (by rw [hr]; simp only [List.append_assoc])
        (by simp only [List.length_append, u16_length]; omega)
    rw [parseExts]
    simp only [h2, beNat_u16 _ he, h0, h4, hd]
    rw [if_neg (by omega), if_neg (by omega), ih (fun x hx => h x (by simp [hx]))]
    rfl

/-- The collecting loop only keeps complete extensions: `len(e_body) == e_length`. -/
theorem parseExts_body_length (r : Bytes) : ∀ e ∈ parseExts r, e.body.length = e.len := by
  induction r using parseExts.induct with
  | case1 r h => rw [parseExts, if_pos h]; simp
  | case2 r h el h2 => rw [parseExts, if_neg h]; simp only; rw [if_pos h2]; simp
  | case3 r h el h2 ih =>
    rw [parseExts, if_neg h]; simp only; rw [if_neg h2]
    intro e he
    rcases List.mem_cons.mp he with rfl | he
    · show (Bytes.slice r 4 (4 + el)).length = el
      rw [slice_length]; omega
    · exact ih e he

/-! ### the dispatch loop of `get_extensions` -/

theorem qtp_frame (s : State) (b : Bytes) :
    (quicTransportParameters s b).clientRandom = s.clientRandom ∧
    (quicTransportParameters s b).ciphersuite = s.ciphersuite ∧
    (quicTransportParameters s b).sessionId = s.sessionId ∧
    (quicTransportParameters s b).newData = s.newData ∧
    (quicTransportParameters s b).tlsVers = s.tlsVers ∧
    (quicTransportParameters s b).alpn = s.alpn := by
  unfold quicTransportParameters
  split
  · simp
  · split <;> simp

/-- `e_body[2]` cannot raise: the body of a collected extension is complete. -/
theorem applyExt_isSome (s : State) (e : PExt) (h : e.body.length = e.len) : (applyExt s e).isSome = true := by
  unfold applyExt
  split
  · split <;> rfl
  · split
    · rfl
    · rename_i hl
      have : 2 < e.body.length := by omega
      rw [List.getElem?_eq_getElem this]
      simp only
      split <;> rfl
  · rfl
  · rfl

/-- No round of the loop touches the key-material attributes or `new_data`. -/
theorem applyExt_frame (s s' : State) (e : PExt) (h : applyExt s e = some s') :
    s'.clientRandom = s.clientRandom ∧ s'.ciphersuite = s.ciphersuite ∧ s'.sessionId = s.sessionId ∧
    s'.newData = s.newData := by
  unfold applyExt at h
  split at h
  · split at h <;> (cases h; simp)
  · split at h
    · cases h; simp
    · split at h
      · cases h
      · split at h <;> (cases h; simp)
  · cases h
    have := qtp_frame s e.body
    simp [this]
  · cases h; simp

theorem applyExts_no_raise (es : List PExt) (h : ∀ e ∈ es, e.body.length = e.len) (s : State) :
    (applyExts s es).2 = none := by
  induction es generalizing s with
  | nil => rfl
  | cons e es ih =>
    have := applyExt_isSome s e (h e (by simp))
    unfold applyExts
    cases hx : applyExt s e with
    | none => rw [hx] at this; cases this
    | some s' => exact ih (fun x hx => h x (by simp [hx])) s'

theorem applyExts_frame (es : List PExt) (s : State) :
    (applyExts s es).1.clientRandom = s.clientRandom ∧ (applyExts s es).1.ciphersuite = s.ciphersuite ∧
    (applyExts s es).1.sessionId = s.sessionId ∧ (applyExts s es).1.newData = s.newData := by
  induction es generalizing s with
  | nil => simp [applyExts]
  | cons e es ih =>
    unfold applyExts
    cases hx : applyExt s e with
    | none => simp
    | some s' =>
      have h1 := applyExt_frame s s' e hx
      have h2 := ih s'
      simp only [h2, h1, and_self]

/-- `get_extensions` never raises, whatever the bytes. -/
theorem getExtensions_no_raise (s : State) (r : Bytes) : (getExtensions s r).2 = none := by
  unfold getExtensions
  split
  · rfl
  · exact applyExts_no_raise _ (parseExts_body_length _) s

theorem getExtensions_frame (s : State) (r : Bytes) :
    (getExtensions s r).1.clientRandom = s.clientRandom ∧ (getExtensions s r).1.ciphersuite = s.ciphersuite ∧
    (getExtensions s r).1.sessionId = s.sessionId ∧ (getExtensions s r).1.newData = s.newData := by
  unfold getExtensions
  split
  · simp
  · exact applyExts_frame _ s

theorem extsThenNewData_eq (s : State) (r : Bytes) :
    extsThenNewData s r = ({ (getExtensions s r).1 with newData := true }, none) := by
  have := getExtensions_no_raise s r
  unfold extsThenNewData
  generalize getExtensions s r = x at *
  obtain ⟨s', e⟩ := x
  simp only at this
  subst this
  rfl

/-- One round of the loop on a *sent* extension (never raises: `applyExt_isSome`). -/
def applyD (s : State) (e : Ext) : State := (applyExt s (toP e)).getD s

/-- The state after the dispatch loop ran over the sent extensions `es`. -/
def extsEffect (s : State) (es : List Ext) : State := es.foldl applyD s

theorem applyExts_toP (es : List Ext) (s : State) : applyExts s (es.map toP) = (extsEffect s es, none) := by
  induction es generalizing s with
  | nil => rfl
  | cons e es ih =>
    have := applyExt_isSome s (toP e) rfl
    simp only [List.map_cons, applyExts, extsEffect, List.foldl_cons, applyD]
    cases hx : applyExt s (toP e) with
    | none => rw [hx] at this; cases this
    | some s' => simp only [Option.getD_some]; exact ih s'

theorem getExtensions_encodeExts (s : State) (es : List Ext) (h : extsWf es) :
    getExtensions s (encodeExts es) = (extsEffect s es, none) := by
  have hr : encodeExts es = [] ++ (u16 (extsPayload es).length ++ extsPayload es) := rfl
  have h0 : Bytes.slice (encodeExts es) 0 2 = u16 (extsPayload es).length := by
    have := slice_cursor (encodeExts es) [] (u16 (extsPayload es).length) (extsPayload es) 0 2 hr rfl
      (by rw [u16_length])
    exact this
  have hd : (encodeExts es).drop 2 = extsPayload es :=
    drop_cursor _ (u16 (extsPayload es).length) _ 2 rfl (u16_length _)
  unfold getExtensions
  rw [h0, hd, beNat_u16 _ h.2, if_neg (by simp), parseExts_payload es h.1, applyExts_toP]

theorem getExtensions_nil (s : State) : getExtensions s [] = (s, none) := by
  unfold getExtensions
  rw [if_neg (by decide)]
  show applyExts s (parseExts []) = _
  rw [parseExts_nil]; rfl

theorem getExtensions_encodeOptExts (s : State) (o : Option (List Ext)) (h : optExtsWf o) :
    getExtensions s (encodeOptExts o) = (extsEffect s (o.getD []), none) := by
  cases o with
  | none => exact getExtensions_nil s
  | some es => exact getExtensions_encodeExts s es h

/-! ### handshake framing and the hello layouts -/

theorem handshake_length (t : Nat) (body : Bytes) : (handshake t body).length = 4 + body.length := by
  unfold handshake
  rw [List.length_append, List.length_append, u8_length, u24_length]

theorem handshake_lenfield (t : Nat) (body : Bytes) (h : body.length < 16777216) :
    Bytes.beNat (Bytes.slice (handshake t body) 1 4) = body.length := by
  rw [slice_cursor (handshake t body) (u8 t) (u24 body.length) body 1 4
    (by simp only [handshake, List.append_assoc]) (u8_length _) (by rw [u24_length])]
  exact beNat_u24 _ h

theorem handshake_drop (t : Nat) (body : Bytes) : (handshake t body).drop 4 = body :=
  drop_cursor _ (u8 t ++ u24 body.length) body 4 rfl (by simp only [List.length_append, u8_length, u24_length])

/-- `handle_client_hello` after `record = record[4:]`, on a body laid out as RFC 8446 §4.1.2 says. -/
theorem chBody_layout (s : State) (lv rnd sid suites comp extblk : Bytes)
    (hlv : lv.length = 2) (hrnd : rnd.length = 32) (hsid : sid.length < 256)
    (hsu : suites.length < 65536) (hcomp : comp.length < 256) :
    chBody s (lv ++ rnd ++ vec8 sid ++ vec16 suites ++ vec8 comp ++ extblk) =
      extsThenNewData { s with tlsVers := some lv, clientRandom := some rnd, sessionId := some sid,
                               ciphersuite := some (Bytes.slice suites 0 2) } extblk := by
  have hr : lv ++ rnd ++ vec8 sid ++ vec16 suites ++ vec8 comp ++ extblk =
      lv ++ (rnd ++ (UInt8.ofNat sid.length :: (sid ++ (u16 suites.length ++ (suites ++
        (UInt8.ofNat comp.length :: (comp ++ extblk))))))) := by
    simp only [vec8, vec16, u8_eq, List.append_assoc, List.cons_append, List.nil_append]
  generalize lv ++ rnd ++ vec8 sid ++ vec16 suites ++ vec8 comp ++ extblk = r at hr
  have e0 : Bytes.slice r 0 2 = lv := slice_cursor r [] lv (rnd ++ (UInt8.ofNat sid.length :: (sid ++ (u16 suites.length ++ (suites ++ (UInt8.ofNat comp.length :: (comp ++ extblk))))))) 0 2 hr rfl (by omega)
  have e1 : Bytes.slice r 2 34 = rnd := slice_cursor r lv rnd (UInt8.ofNat sid.length :: (sid ++ (u16 suites.length ++ (suites ++ (UInt8.ofNat comp.length :: (comp ++ extblk)))))) 2 34 hr hlv (by omega)
  have e2 : r[34]? = some (UInt8.ofNat sid.length) :=
    get_cursor r (lv ++ rnd) (UInt8.ofNat sid.length) (sid ++ (u16 suites.length ++ (suites ++ (UInt8.ofNat comp.length :: (comp ++ extblk))))) 34 (by rw [hr]; simp only [List.append_assoc])
      (by simp only [List.length_append]; omega)
  have e3 : Bytes.slice r 35 (35 + sid.length) = sid :=
    slice_cursor r (lv ++ (rnd ++ [UInt8.ofNat sid.length])) sid (u16 suites.length ++ (suites ++ (UInt8.ofNat comp.length :: (comp ++ extblk)))) 35 _
      (by rw [hr]; simp only [List.append_assoc, List.cons_append, List.nil_append])
      (by simp only [List.length_append, List.length_cons, List.length_nil]; omega) rfl
  have e4 : Bytes.slice r (35 + sid.length) (35 + sid.length + 2) = u16 suites.length :=
    slice_cursor r (lv ++ (rnd ++ (UInt8.ofNat sid.length :: sid))) (u16 suites.length) (suites ++ (UInt8.ofNat comp.length :: (comp ++ extblk))) _ _
      (by rw [hr]; simp only [List.append_assoc, List.cons_append])
      (by simp only [List.length_append, List.length_cons]; omega) (by rw [u16_length])
  have e5 : Bytes.slice r (35 + sid.length + 2) (35 + sid.length + 2 + suites.length) = suites :=
    slice_cursor r (lv ++ (rnd ++ (UInt8.ofNat sid.length :: (sid ++ u16 suites.length)))) suites (UInt8.ofNat comp.length :: (comp ++ extblk)) _ _
      (by rw [hr]; simp only [List.append_assoc, List.cons_append])
      (by simp only [List.length_append, List.length_cons, u16_length]; omega) rfl
  have e6 : r[35 + sid.length + 2 + suites.length]? = some (UInt8.ofNat comp.length) :=
    get_cursor r (lv ++ (rnd ++ (UInt8.ofNat sid.length :: (sid ++ (u16 suites.length ++ suites))))) (UInt8.ofNat comp.length) (comp ++ extblk) _
      (by rw [hr]; simp only [List.append_assoc, List.cons_append])
      (by simp only [List.length_append, List.length_cons, u16_length]; omega)
  have e7 : r.drop (35 + sid.length + 2 + suites.length + (1 + comp.length)) = extblk :=
    drop_cursor r (lv ++ (rnd ++ (UInt8.ofNat sid.length :: (sid ++ (u16 suites.length ++ (suites ++
        (UInt8.ofNat comp.length :: comp))))))) extblk _
      (by rw [hr]; simp only [List.append_assoc, List.cons_append])
      (by simp only [List.length_append, List.length_cons, u16_length]; omega)
  unfold chBody
  simp only [e0, e1, e2, toNat_ofNat _ hsid, e3, e4, beNat_u16 _ hsu, e5, e6, toNat_ofNat _ hcomp, e7]

theorem first_suite (suites : List Bytes) (h : ∀ x ∈ suites, x.length = 2) :
    Bytes.slice suites.flatten 0 2 = suites.head?.getD [] := by
  cases suites with
  | nil => rfl
  | cons x xs =>
    have := h x (by simp)
    simp only [List.flatten_cons, List.head?_cons, Option.getD_some]
    exact slice_cursor _ [] x xs.flatten 0 2 rfl rfl (by omega)

theorem flatten_length2 (suites : List Bytes) (h : ∀ x ∈ suites, x.length = 2) :
    suites.flatten.length = 2 * suites.length := by
  induction suites with
  | nil => rfl
  | cons x xs ih =>
    have := h x (by simp)
    simp only [List.flatten_cons, List.length_append, List.length_cons, ih (fun y hy => h y (by simp [hy]))]
    omega

/-- `handle_server_hello` on a record laid out as RFC 8446 §4.1.3 says, when the 44-byte guard passes. -/
theorem handleServerHello_layout (s : State) (hdr lv rnd sid suite : Bytes) (cm : UInt8) (extblk : Bytes)
    (hhdr : hdr.length = 4) (hlv : lv.length = 2) (hrnd : rnd.length = 32) (hsid : sid.length < 256)
    (hsuite : suite.length = 2) (hlen : 2 ≤ sid.length + extblk.length) :
    handleServerHello s (hdr ++ (lv ++ rnd ++ vec8 sid ++ suite ++ [cm] ++ extblk)) =
      extsThenNewData { s with ciphersuite := some suite } extblk := by
  have hr : hdr ++ (lv ++ rnd ++ vec8 sid ++ suite ++ [cm] ++ extblk) =
      hdr ++ (lv ++ (rnd ++ (UInt8.ofNat sid.length :: (sid ++ (suite ++ (cm :: extblk)))))) := by
    simp only [vec8, u8_eq, List.append_assoc, List.cons_append, List.nil_append]
  generalize hdr ++ (lv ++ rnd ++ vec8 sid ++ suite ++ [cm] ++ extblk) = r at hr
  have hl : r.length = 42 + sid.length + extblk.length := by
    rw [hr]; simp only [List.length_append, List.length_cons]; omega
  have e1 : r[38]? = some (UInt8.ofNat sid.length) :=
    get_cursor r (hdr ++ (lv ++ rnd)) (UInt8.ofNat sid.length) (sid ++ (suite ++ (cm :: extblk))) 38 (by rw [hr]; simp only [List.append_assoc])
      (by simp only [List.length_append]; omega)
  have e2 : r.drop (39 + sid.length) = suite ++ (cm :: extblk) :=
    drop_cursor r (hdr ++ (lv ++ (rnd ++ (UInt8.ofNat sid.length :: sid)))) (suite ++ (cm :: extblk)) _
      (by rw [hr]; simp only [List.append_assoc, List.cons_append])
      (by simp only [List.length_append, List.length_cons]; omega)
  have e3 : Bytes.slice (suite ++ (cm :: extblk)) 0 2 = suite :=
    slice_cursor _ [] suite (cm :: extblk) 0 2 rfl rfl (by omega)
  have e4 : (suite ++ (cm :: extblk)).drop 3 = extblk :=
    drop_cursor _ (suite ++ [cm]) extblk 3 (by simp only [List.append_assoc, List.cons_append, List.nil_append])
      (by simp only [List.length_append, List.length_cons, List.length_nil]; omega)
  unfold handleServerHello
  rw [if_neg (by omega)]
  simp only [e1, toNat_ofNat _ hsid, e2, e3, e4]

/-! ### what the dispatch loop does to `tls_vers`, `alpn`, `greasy_bit` -/

theorem extsEffect_eq (s : State) (es : List Ext) : extsEffect s es = (applyExts s (es.map toP)).1 := by
  rw [applyExts_toP]

theorem extsEffect_append (s : State) (a b : List Ext) :
    extsEffect s (a ++ b) = extsEffect (extsEffect s a) b := by
  simp [extsEffect, List.foldl_append]

theorem extsEffect_cons (s : State) (e : Ext) (es : List Ext) :
    extsEffect s (e :: es) = extsEffect (applyD s e) es := rfl

theorem applyD_spec (s : State) (e : Ext) : applyExt s (toP e) = some (applyD s e) := by
  have := applyExt_isSome s (toP e) rfl
  unfold applyD
  cases hx : applyExt s (toP e) with
  | none => rw [hx] at this; cases this
  | some s' => rfl

theorem applyExt_tlsVers (s s' : State) (e : PExt) (n : Nat) (hty : Bytes.beNat e.ty = n)
    (h : applyExt s e = some s') :
    s'.tlsVers = if (n == 43 && e.len == 2) = true then some e.body else s.tlsVers := by
  unfold applyExt at h
  simp only [hty] at h
  split at h
  · simp only [beq_self_eq_true, Bool.true_and, beq_iff_eq]
    split at h <;> rename_i h2 <;> cases h
    · rw [if_neg h2]
    · rw [if_pos (by simpa using h2)]
  · have : ¬ (((16:Nat) == 43 && e.len == 2) = true) := by simp
    rw [if_neg this]
    split at h
    · cases h; rfl
    · split at h
      · cases h
      · split at h <;> (cases h; rfl)
  · have : ¬ (((57:Nat) == 43 && e.len == 2) = true) := by simp
    rw [if_neg this]
    cases h
    exact (qtp_frame s e.body).2.2.2.2.1
  · rename_i h43 _ _
    have : ¬ ((n == 43 && e.len == 2) = true) := by
      simp only [Bool.and_eq_true, beq_iff_eq, not_and]; intro h; exact absurd h h43
    rw [if_neg this]; cases h; rfl

theorem applyD_tlsVers (s : State) (e : Ext) (he : e.ty < 65536) :
    (applyD s e).tlsVers = if (e.ty == 43 && e.body.length == 2) = true then some e.body else s.tlsVers :=
  applyExt_tlsVers s _ (toP e) e.ty (beNat_u16 _ he) (applyD_spec s e)

theorem versionSeen_cons (d : Option Bytes) (e : Ext) (es : List Ext) :
    versionSeen d (e :: es) =
      versionSeen (if (e.ty == 43 && e.body.length == 2) = true then some e.body else d) es := by
  unfold versionSeen
  rw [List.reverse_cons, List.find?_append]
  cases es.reverse.find? (fun e => e.ty == 43 && e.body.length == 2) with
  | some x => rfl
  | none =>
    simp only [Option.none_or, List.find?_cons, List.find?_nil]
    cases h : (e.ty == 43 && e.body.length == 2) <;> simp

theorem extsEffect_tlsVers (es : List Ext) (h : ∀ e ∈ es, e.wf) (s : State) :
    (extsEffect s es).tlsVers = versionSeen s.tlsVers es := by
  induction es generalizing s with
  | nil => rfl
  | cons e es ih =>
    rw [extsEffect_cons, ih (fun x hx => h x (by simp [hx])), versionSeen_cons,
      applyD_tlsVers s e (h e (by simp)).1]

theorem applyExt_alpn_other (s s' : State) (e : PExt) (n : Nat) (hty : Bytes.beNat e.ty = n) (h16 : n ≠ 16)
    (h : applyExt s e = some s') : s'.alpn = s.alpn := by
  unfold applyExt at h
  simp only [hty] at h
  split at h
  · split at h <;> (cases h; rfl)
  · exact absurd rfl h16
  · cases h; exact (qtp_frame s e.body).2.2.2.2.2
  · cases h; rfl

theorem applyD_alpn_other (s : State) (e : Ext) (he : e.ty < 65536) (h16 : e.ty ≠ 16) :
    (applyD s e).alpn = s.alpn :=
  applyExt_alpn_other s _ (toP e) e.ty (beNat_u16 _ he) h16 (applyD_spec s e)

theorem applyExt_alpn_one (s s' : State) (e : PExt) (name : Bytes) (hty : Bytes.beNat e.ty = 16)
    (hl : e.len = 3 + name.length) (hbl : e.body.length = 3 + name.length)
    (e2 : e.body[2]? = some (UInt8.ofNat name.length)) (hn : name.length < 256)
    (e3 : Bytes.slice e.body 3 (3 + name.length) = name)
    (h : applyExt s e = some s') : s'.alpn = some name := by
  unfold applyExt at h
  simp only [hty] at h
  rw [if_neg (by omega)] at h
  simp only [e2, toNat_ofNat _ hn] at h
  rw [if_neg (by omega), e3] at h
  cases h; rfl

theorem extsEffect_alpn_other (es : List Ext) (h : ∀ e ∈ es, e.wf ∧ e.ty ≠ 16) (s : State) :
    (extsEffect s es).alpn = s.alpn := by
  induction es generalizing s with
  | nil => rfl
  | cons e es ih =>
    have he := h e (by simp)
    rw [extsEffect_cons, ih (fun x hx => h x (by simp [hx])), applyD_alpn_other s e he.1.1 he.2]

/-- RFC 7301 body with exactly one protocol name. -/
theorem applyD_alpn_one (s : State) (name : Bytes) (hn : name.length < 256) :
    (applyD s ⟨16, alpnBody [name]⟩).alpn = some name := by
  have hb : alpnBody [name] = u16 (vec8 name ++ []).length ++ (UInt8.ofNat name.length :: name) := by
    simp [alpnBody, vec16, vec8, u8_eq]
  generalize alpnBody [name] = b at hb
  generalize (vec8 name ++ []).length = k at hb
  have hl : b.length = 3 + name.length := by rw [hb]; simp only [List.length_append, List.length_cons, u16_length]; omega
  have e2 : b[2]? = some (UInt8.ofNat name.length) := get_cursor b (u16 k) _ name 2 hb (u16_length _)
  have e3 : Bytes.slice b 3 (3 + name.length) = name :=
    slice_cursor b (u16 k ++ [UInt8.ofNat name.length]) name [] 3 _
      (by rw [hb]; simp only [List.append_assoc, List.cons_append, List.nil_append, List.append_nil])
      (by simp only [List.length_append, List.length_cons, List.length_nil, u16_length]) rfl
  exact applyExt_alpn_one s _ (toP ⟨16, b⟩) name (beNat_u16 16 (by decide)) hl hl e2 hn e3 (applyD_spec s ⟨16, b⟩)

theorem applyExt_greasy_other (s s' : State) (e : PExt) (n : Nat) (hty : Bytes.beNat e.ty = n) (h57 : n ≠ 57)
    (h : applyExt s e = some s') : s'.greasyBit = s.greasyBit := by
  unfold applyExt at h
  simp only [hty] at h
  split at h
  · split at h <;> (cases h; rfl)
  · split at h
    · cases h; rfl
    · split at h
      · cases h
      · split at h <;> (cases h; rfl)
  · exact absurd rfl h57
  · cases h; rfl

theorem applyD_greasy_other (s : State) (e : Ext) (he : e.ty < 65536) (h57 : e.ty ≠ 57) :
    (applyD s e).greasyBit = s.greasyBit :=
  applyExt_greasy_other s _ (toP e) e.ty (beNat_u16 _ he) h57 (applyD_spec s e)

theorem applyExt_57 (s s' : State) (e : PExt) (hty : Bytes.beNat e.ty = 57) (h : applyExt s e = some s') :
    s' = quicTransportParameters s e.body := by
  unfold applyExt at h
  simp only [hty, Option.some.injEq] at h
  exact h.symm

theorem extsEffect_greasy_other (es : List Ext) (h : ∀ e ∈ es, e.wf ∧ e.ty ≠ 57) (s : State) :
    (extsEffect s es).greasyBit = s.greasyBit := by
  induction es generalizing s with
  | nil => rfl
  | cons e es ih =>
    have he := h e (by simp)
    rw [extsEffect_cons, ih (fun x hx => h x (by simp [hx])), applyD_greasy_other s e he.1.1 he.2]

/-- `get_quic_transport_parameters` reads back a well-formed RFC 9000 §18 parameter sequence. -/
theorem parseTP_tpBody (ps : List TParam) (h : ∀ p ∈ ps, p.wf) :
    parseTP (tpBody ps) = some (ps.map fun p => (p.id.val, p.value.length, p.value)) := by
  induction ps with
  | nil => rw [parseTP]; rfl
  | cons p ps ih =>
    have hp := h p (by simp)
    have hr : tpBody (p :: ps) = p.id.enc ++ (p.lenW.enc p.value.length ++ (p.value ++ tpBody ps)) := by
      simp [tpBody, encodeTParam]
    generalize tpBody (p :: ps) = r at hr
    have hw1 := QuicVarint.VI.enc_length p.id
    have hw2 := QuicVarint.VW.enc_length p.lenW p.value.length
    have hp1 := QuicVarint.VW.w_pos p.id.w
    have r1 : readVarint r 0 = some (p.id.val, 0 + p.id.w.w) :=
      readVarint_enc r [] _ p.id 0 hp.1 (by rw [hr]; rfl) rfl
    have r2 : readVarint r (0 + p.id.w.w) = some (p.value.length, 0 + p.id.w.w + p.lenW.w) :=
      readVarint_encW r p.id.enc (p.value ++ tpBody ps) p.lenW p.value.length _ hp.2 hr (by rw [hw1]; omega)
    have hlen : ¬ r.length < 1 := by
      rw [hr]; simp only [List.length_append, hw1]; omega
    have e3 : Bytes.slice r (0 + p.id.w.w + p.lenW.w) (0 + p.id.w.w + p.lenW.w + p.value.length) = p.value :=
      slice_cursor r (p.id.enc ++ p.lenW.enc p.value.length) p.value (tpBody ps) _ _
        (by rw [hr]; simp only [List.append_assoc]) (by simp only [List.length_append, hw1, hw2]; omega) rfl
    have e4 : r.drop (0 + p.id.w.w + p.lenW.w + p.value.length) = tpBody ps :=
      drop_cursor r (p.id.enc ++ (p.lenW.enc p.value.length ++ p.value)) (tpBody ps) _
        (by rw [hr]; simp only [List.append_assoc]) (by simp only [List.length_append, hw1, hw2]; omega)
    rw [parseTP, if_neg hlen]
    split
    · rename_i hx; rw [r1] at hx; cases hx
    · rename_i pty index hx
      rw [r1] at hx; cases hx
      split
      · rename_i hy; rw [r2] at hy; cases hy
      · rename_i plen index2 hy
        rw [r2] at hy; cases hy
        rw [e4, ih (fun x hx => h x (by simp [hx])), e3]
        rfl

theorem applyD_greasy_tp (s : State) (ps : List TParam) (hw : ∀ p ∈ ps, p.wf) :
    (applyD s ⟨57, tpBody ps⟩).greasyBit = (s.greasyBit || ps.any (fun p => p.id.val == 0x2ab2)) := by
  rw [applyExt_57 s _ (toP ⟨57, tpBody ps⟩) (beNat_u16 57 (by decide)) (applyD_spec s ⟨57, tpBody ps⟩)]
  show (quicTransportParameters s (tpBody ps)).greasyBit = _
  unfold quicTransportParameters
  rw [parseTP_tpBody ps hw]
  simp only [List.any_map]
  have : ((fun p : Nat × Nat × Bytes => p.1 == 0x2ab2) ∘ fun p : TParam => (p.id.val, p.value.length, p.value)) =
      fun p : TParam => p.id.val == 0x2ab2 := rfl
  rw [this]
  cases ps.any (fun p => p.id.val == 0x2ab2) <;> simp

end TLX.Lemmas.TlsHello
