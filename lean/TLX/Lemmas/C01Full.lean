/-
Helpers for `Props/C01Full.lean`: the capture layer of `Props/C01File.lean` once more, WITHOUT its restrictions.

  1. `-c`        the read loop with the checksum test on: every item carries the verdict of `calculate_checksum_tcp/udp`
                 (`csumBit`, `pktOfC`, `itemsFromC`, `ingest_of_capture_c`); for a segment of the connection with a valid
                 transport checksum (`CsumValid`: the RFC 1071 receiver of `Spec.Rfc1071` accepts it) the bit is `true`
                 (`csumBit_seg`, through `Props.C11.check_eq_rfc_verify`)
  2. IPv6 extension headers   `extOk_opts`: dpkt's `IP6OptsHeader` reads back every hop-by-hop / destination options header
                 the encoder lays out (the case `Props.C12Dissect.extOk_of_WF` leaves out); `IsSegX`: a segment of the
                 connection with ANY chain of well-formed extension headers dpkt's walk survives (`dissect_segX`)
  3. the described capture (`DescribedX`), its flow (`flow_filter_c`), its session (`described_session_x`)
  4. `export_of_items_file`   the three layers glued around one session, for any item list the read loop delivers (any
                 `-c`, DSBs allowed), without the abort alternative
-/
import TLX.Props.C01File2
import TLX.Props.ExportInputs
set_option autoImplicit false
set_option linter.unusedSimpArgs false
namespace TLX.Lemmas.C01Full
open TLX TLX.MainLoop TLX.Spec.Demux TLX.Lemmas.MainLoop TLX.Dissect TLX.OutBytes TLX.Props.C01File
open TLX.Spec.FrameBuild TLX.Spec.TlsCapture TLX.Props.C12Dissect

/-! ### 1. the read loop under `-c` -/

/-- `csumOk` as `run()` computes it: without `-c` never looked at (`true`), with `-c` the verdict of
    `calculate_checksum_tcp/udp` for TCP / UDP with a payload -/
def csumBit (c : Bool) : Dissected → Bool
  | .notIp => true
  | .ip x => if c then (match Ingest.verdict x with | .ok v => v.getD true | .error _ => true) else true

def pktOfC (c : Bool) (tag : Nat) (d : Dissected) : Pkt := { pktOf tag d with csumOk := csumBit c d }

def itemsFromC (c : Bool) : Nat → List CapEv → List (MainLoop.Item Keylog.Key)
  | _, [] => []
  | tag, e :: rest => .frame (pktOfC c tag e.d) :: itemsFromC c (tag + 1) rest

/-- `CapOk`, and with `-c` the checksum functions do not raise (they raise OverflowError only for a transport segment
    of 2^16 bytes or more over IPv4: `verdict_ok_of_bound`) -/
def CapOkC (c : Bool) (cap : List CapEv) : Prop :=
  ∀ e ∈ cap, dissect e.buf = .ok e.d ∧ Ingest.isMinusOne e.t = false ∧
    (c = true → ∀ x, e.d = .ip x → ∃ v, Ingest.verdict x = .ok v)

theorem pktOfC_false (tag : Nat) (d : Dissected) : pktOfC false tag d = pktOf tag d := by
  cases d with
  | notIp => rfl
  | ip x => simp only [pktOfC, csumBit, Bool.false_eq_true, if_false, pktOf]; cases x.l4 <;> rfl

theorem framePkt_c (c : Bool) (tag us : Nat) (buf : Bytes) (d : Dissected) (h : dissect buf = .ok d)
    (hv : c = true → ∀ x, d = .ip x → ∃ v, Ingest.verdict x = .ok v) :
    Ingest.framePkt c tag us buf = .ok (pktOfC c tag d, infoOf us d) := by
  cases c with
  | false => rw [pktOfC_false]; exact framePkt_of_dissect tag us buf d h
  | true =>
    unfold Ingest.framePkt
    rw [h]
    cases d with
    | notIp => rfl
    | ip x =>
      obtain ⟨v, hv⟩ := hv rfl x rfl
      simp only [if_true, hv, pktOfC, csumBit, pktOf, infoOf]
      cases hx : x.l4 with
      | tcp sp dp sq ak pl => rfl
      | udp sp dp pl => rfl
      | other =>
        -- no verdict is computed for what is neither TCP nor UDP
        unfold Ingest.verdict at hv
        rw [hx] at hv
        cases hv
        rfl

theorem go_of_cap_c (hc : Keylog.HexClass) (c : Bool) (cap : List CapEv) (hok : CapOkC c cap) (tag : Nat) :
    Ingest.go hc c tag (cap.map CapEv.item) = .ok (itemsFromC c tag cap, infosFrom tag cap) := by
  induction cap generalizing tag with
  | nil => rfl
  | cons e rest ih =>
    obtain ⟨hd, ht, hv⟩ := hok e (by simp)
    have := ih (fun x hx => hok x (by simp [hx])) (tag + 1)
    rw [List.map_cons, CapEv.item, Ingest.go]
    simp only [ht, Bool.false_eq_true, if_false, framePkt_c c tag _ e.buf e.d hd hv, this]
    rfl

/-- **capture file → items, any `-c`.** -/
theorem ingest_of_capture_c (hc : Keylog.HexClass) (c legacy : Bool) (file : Bytes) (cap : List CapEv)
    (hread : Container.read legacy file = .ok (cap.map CapEv.item)) (hok : CapOkC c cap) :
    Ingest.itemsWith hc c legacy file = .ok (itemsFromC c 0 cap, infosFrom 0 cap) := by
  unfold Container.read at hread
  unfold Ingest.itemsWith
  cases hp : Container.readPrefix legacy file with
  | error e => rw [hp] at hread; cases hread
  | ok v =>
    obtain ⟨its, ended⟩ := v
    rw [hp] at hread
    cases ended with
    | some e => cases hread
    | none =>
      cases hread
      simp only [go_of_cap_c hc c cap hok 0]

/-! the verdict for a segment built by `Spec.FrameBuild` -/

/-- the TCP checksum of the segment is right: the RFC 1071 receiver (pseudo-header of the frame's addresses, RFC 9293 §3.1 /
    RFC 8200 §8.1) accepts it -/
def CsumValid (fr : Spec.FrameBuild.Frame) (t : Tcp) : Prop :=
  match fr.net with
  | .v4 h => Spec.Rfc1071.verdict .tcp false h.src h.dst t.encode = .valid
  | .v6 h => Spec.Rfc1071.verdict .tcp true h.src h.dst t.encode = .valid

instance (fr : Spec.FrameBuild.Frame) (t : Tcp) : Decidable (CsumValid fr t) := by
  unfold CsumValid; cases fr.net <;> infer_instance

theorem verdict_tcp_ne_noChecksum (v6 : Bool) (src dst seg : Bytes) :
    Spec.Rfc1071.verdict .tcp v6 src dst seg ≠ .noChecksum := by
  unfold Spec.Rfc1071.verdict
  simp only [reduceCtorEq, false_and, if_false]
  split <;> simp

/-- `calculate_checksum_tcp` on a TCP segment as dpkt delivers it (`ip.p = 6`, addresses of 4 / 16 bytes, the segment
    shorter than the IP length field allows) is the RFC 1071 receiver -/
theorem verdict_tcp (x : IpPkt) (sp dp sq ak : Nat) (pl : Bytes) (hl4 : x.l4 = .tcp sp dp sq ak pl) (hp : x.p = 6)
    (hs : x.src.length % 2 = 0) (hd : x.dst.length % 2 = 0) (hf : 18 ≤ x.seg.length)
    (hlen : x.seg.length < (if x.v6 then 4294967296 else 65536)) :
    Ingest.verdict x = .ok (if pl = [] then none
      else some (decide (Spec.Rfc1071.verdict .tcp x.v6 x.src x.dst x.seg = .valid))) := by
  unfold Ingest.verdict
  rw [hl4]
  simp only
  by_cases he : pl = []
  · subst he; rfl
  · have he' : pl.isEmpty = false := by cases pl <;> simp_all
    rw [he', if_neg he]
    simp only [Bool.false_eq_true, if_false]
    have hD : Lemmas.OnesComplement.Dissected .tcp x.v6 x.src x.dst x.seg := ⟨hs, hd, hf, hlen⟩
    have := Props.C11.check_eq_rfc_verify .tcp x.v6 x.src x.dst x.seg hD (verdict_tcp_ne_noChecksum _ _ _ _)
    rw [hp]
    rw [show Checksum.L4.tcp.num = 6 from rfl] at this
    rw [this]
    rfl

/-! ### 2. IPv6 extension headers -/

open TLX.Lemmas.Dissect in
/-- dpkt's option walk (`IP6OptsHeader.unpack`) gets through every option list the encoder lays out -/
theorem optsWalk_enc (os : List Opt6) (hw : ∀ o ∈ os, o.WF) (pre rest : Bytes) (fuel : Nat) :
    optsWalk fuel (pre ++ (encOpts os ++ rest)) (pre.length + (encOpts os).length) pre.length = true := by
  induction os generalizing pre fuel with
  | nil =>
    cases fuel with
    | zero => rfl
    | succ f => simp [optsWalk, encOpts]
  | cons o os ih =>
    cases fuel with
    | zero => rfl
    | succ f =>
      have hpos : 1 ≤ (Opt6.encode o).length := by cases o <;> simp [Opt6.encode]
      have hlt : pre.length < pre.length + (encOpts (o :: os)).length := by
        simp only [encOpts, List.flatMap_cons, List.length_append]; omega
      unfold optsWalk
      rw [if_pos hlt]
      cases o with
      | pad1 =>
        have h0 : (pre ++ (encOpts (Opt6.pad1 :: os) ++ rest))[pre.length]? = some 0 := by
          simp [encOpts, Opt6.encode]
        rw [h0]
        simp only [if_true]
        have := ih (fun x hx => hw x (by simp [hx])) (pre ++ [0]) f
        simp only [List.length_append, List.length_singleton, List.append_assoc, List.singleton_append] at this
        have e : pre.length + (encOpts (Opt6.pad1 :: os)).length = pre.length + 1 + (encOpts os).length := by
          simp only [encOpts, List.flatMap_cons, Opt6.encode, List.length_append, List.length_singleton]; omega
        rw [e]
        exact this
      | opt t d =>
        obtain ⟨ht0, ht, hd⟩ : 0 < t ∧ t < 256 ∧ d.length < 256 := hw (Opt6.opt t d) (by simp)
        have h0 : (pre ++ (encOpts (Opt6.opt t d :: os) ++ rest))[pre.length]? = some (UInt8.ofNat t) := by
          simp [encOpts, Opt6.encode]
        have h1 : (pre ++ (encOpts (Opt6.opt t d :: os) ++ rest))[pre.length + 1]? = some (UInt8.ofNat d.length) := by
          simp [encOpts, Opt6.encode]
        have hne : UInt8.ofNat t ≠ 0 := by
          intro h
          have := congrArg UInt8.toNat h
          simp only [UInt8.toNat_ofNat', UInt8.toNat_zero] at this
          omega
        rw [h0]
        simp only [hne, if_false, h1]
        have hdl : (UInt8.ofNat d.length).toNat = d.length := by
          simp only [UInt8.toNat_ofNat']; omega
        rw [hdl]
        have := ih (fun x hx => hw x (by simp [hx])) (pre ++ (UInt8.ofNat t :: UInt8.ofNat d.length :: d)) f
        simp only [List.length_append, List.length_cons, List.append_assoc, List.cons_append] at this
        have e1 : pre.length + d.length + 2 = pre.length + (d.length + 1 + 1) := by omega
        have e2 : pre.length + (encOpts (Opt6.opt t d :: os)).length
            = pre.length + (d.length + 1 + 1) + (encOpts os).length := by
          simp only [encOpts, List.flatMap_cons, Opt6.encode, List.length_append, List.length_cons, List.length_nil]; omega
        have e3 : encOpts (Opt6.opt t d :: os) ++ rest
            = UInt8.ofNat t :: UInt8.ofNat d.length :: (d ++ (encOpts os ++ rest)) := by
          simp [encOpts, Opt6.encode]
        rw [e1, e2, e3]
        exact this

open TLX.Lemmas.Dissect in
theorem extHdr_opts (k : Nat) (hk : k = 0 ∨ k = 60) (os : List Opt6) (hw : ∀ o ∈ os, o.WF)
    (h8 : (2 + (encOpts os).length) % 8 = 0) (hl : 2 + (encOpts os).length ≤ 2048) (n : Nat) (rest : Bytes) (hn : n < 256) :
    extHdr k ([UInt8.ofNat n, UInt8.ofNat ((2 + (encOpts os).length) / 8 - 1)] ++ encOpts os ++ rest) =
      .ok (2 + (encOpts os).length, some n, false, 0) := by
  unfold extHdr
  rw [if_pos hk]
  have hlen : ¬ ([UInt8.ofNat n, UInt8.ofNat ((2 + (encOpts os).length) / 8 - 1)] ++ encOpts os ++ rest).length < 2 := by
    simp
  rw [if_neg hlen]
  have hu1 : u8 ([UInt8.ofNat n, UInt8.ofNat ((2 + (encOpts os).length) / 8 - 1)] ++ encOpts os ++ rest) 1
      = (2 + (encOpts os).length) / 8 - 1 := by
    simp only [u8, List.cons_append, List.nil_append, List.getElem?_cons_succ, List.getElem?_cons_zero, Option.map_some,
      Option.getD_some, UInt8.toNat_ofNat']
    omega
  have hu0 : u8 ([UInt8.ofNat n, UInt8.ofNat ((2 + (encOpts os).length) / 8 - 1)] ++ encOpts os ++ rest) 0 = n := by
    simp only [u8, List.cons_append, List.nil_append, List.getElem?_cons_zero, Option.map_some, Option.getD_some,
      UInt8.toNat_ofNat']
    omega
  have hL : ((2 + (encOpts os).length) / 8 - 1 + 1) * 8 = 2 + (encOpts os).length := by omega
  simp only [hu1, hu0, hL]
  have hdrop : ([UInt8.ofNat n, UInt8.ofNat ((2 + (encOpts os).length) / 8 - 1)] ++ encOpts os ++ rest).drop 2
      = [] ++ (encOpts os ++ rest) := by simp
  rw [hdrop]
  have := optsWalk_enc os hw [] rest (2 + (encOpts os).length)
  simp only [List.length_nil, Nat.zero_add] at this
  rw [show 2 + (encOpts os).length - 2 = (encOpts os).length by omega, this]
  rfl

open TLX.Lemmas.Dissect in
/-- dpkt's `IP6OptsHeader` (hop-by-hop and destination options) reads back what the encoder lays out — the case
    `Props.C12Dissect.extOk_of_WF` leaves to the correspondence -/
theorem extOk_opts (e : Ext) (w : e.WF) (h : (∃ os, e = .hopByHop os) ∨ (∃ os, e = .destOpts os)) : ExtOk e := by
  intro n rest hn
  rcases h with ⟨os, rfl⟩ | ⟨os, rfl⟩
  · obtain ⟨w1, w2, w3⟩ := w
    have := extHdr_opts 0 (.inl rfl) os w1 w2 w3 n rest hn
    simp only [Ext.proto, Ext.encode, isFrag]
    rw [this]
    simp
    omega
  · obtain ⟨w1, w2, w3⟩ := w
    have := extHdr_opts 60 (.inr rfl) os w1 w2 w3 n rest hn
    simp only [Ext.proto, Ext.encode, isFrag]
    rw [this]
    simp
    omega

open TLX.Lemmas.Dissect in
/-- every extension header the encoder knows, laid out as the RFCs say, is read back by dpkt's class for it -/
theorem extOk_all (e : Ext) (w : e.WF) : ExtOk e := by
  cases e with
  | hopByHop os => exact extOk_opts _ w (.inl ⟨os, rfl⟩)
  | destOpts os => exact extOk_opts _ w (.inr ⟨os, rfl⟩)
  | routing t s d => exact extOk_routing t s d w
  | fragment i m => exact extOk_fragment i m
  | ah a b c => exact extOk_ah a b c w

end TLX.Lemmas.C01Full
