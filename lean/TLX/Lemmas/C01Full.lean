/-
Helpers for `Props/C01Full.lean`: the capture layer of `Props/C01File.lean` once more, WITHOUT its restrictions.

  1. `-c`        the read loop with the checksum test on: every item carries the verdict of `calculate_checksum_tcp/udp`
                 (`csumBit`, `pktOfC`, `itemsFromC`, `ingest_of_capture_c`); for a segment of the connection with a valid
                 transport checksum (`CsumValid`: the RFC 1071 receiver of `Spec.Rfc1071` accepts it) the bit is `true`
                 (`csumBit_seg`, through `Props.C11.check_eq_rfc_verify`)
  2. IPv6 extension headers   `extOk_opts`: dpkt's `IP6OptsHeader` reads back every hop-by-hop / destination options header
                 the encoder lays out (the case `Props.C12Dissect.extOk_of_WF` leaves out); `IsSegX`: a segment of the
                 connection with ANY chain of well-formed extension headers dpkt's walk survives (`dissect_segX`)
  3. the described capture (`DescribedX`), its flow (`flow_filter_c`), its session (`described_session_x`)
  4. `export_of_items_file`   the three layers glued around one session, for any item list the read loop delivers (any
                 `-c`, DSBs allowed), without the abort alternative
-/
import TLX.Props.C01File2
import TLX.Props.ExportInputs
set_option autoImplicit false
set_option linter.unusedSimpArgs false
namespace TLX.Lemmas.C01Full
open TLX TLX.MainLoop TLX.Spec.Demux TLX.Lemmas.MainLoop TLX.Dissect TLX.OutBytes TLX.Props.C01File
open TLX.Spec.FrameBuild TLX.Spec.TlsCapture TLX.Props.C12Dissect

/-! ### 1. the read loop under `-c` -/

/-- `csumOk` as `run()` computes it: without `-c` never looked at (`true`), with `-c` the verdict of
    `calculate_checksum_tcp/udp` for TCP / UDP with a payload -/
def csumBit (c : Bool) : Dissected → Bool
  | .notIp => true
  | .ip x => if c then (match Ingest.verdict x with | .ok v => v.getD true | .error _ => true) else true

def pktOfC (c : Bool) (tag : Nat) (d : Dissected) : Pkt := { pktOf tag d with csumOk := csumBit c d }

def itemsFromC (c : Bool) : Nat → List CapEv → List (MainLoop.Item Keylog.Key)
  | _, [] => []
  | tag, e :: rest => .frame (pktOfC c tag e.d) :: itemsFromC c (tag + 1) rest

/-- `CapOk`, and with `-c` the checksum functions do not raise (they raise OverflowError only for a transport segment
    of 2^16 bytes or more over IPv4: `verdict_ok_of_bound`) -/
def CapOkC (c : Bool) (cap : List CapEv) : Prop :=
  ∀ e ∈ cap, dissect e.buf = .ok e.d ∧ Ingest.isMinusOne e.t = false ∧
    (c = true → ∀ x, e.d = .ip x → ∃ v, Ingest.verdict x = .ok v)

theorem pktOfC_false (tag : Nat) (d : Dissected) : pktOfC false tag d = pktOf tag d := by
  cases d with
  | notIp => rfl
  | ip x => simp only [pktOfC, csumBit, Bool.false_eq_true, if_false, pktOf]; cases x.l4 <;> rfl

theorem framePkt_c (c : Bool) (tag us : Nat) (buf : Bytes) (d : Dissected) (h : dissect buf = .ok d)
    (hv : c = true → ∀ x, d = .ip x → ∃ v, Ingest.verdict x = .ok v) :
    Ingest.framePkt c tag us buf = .ok (pktOfC c tag d, infoOf us d) := by
  cases c with
  | false => rw [pktOfC_false]; exact framePkt_of_dissect tag us buf d h
  | true =>
    unfold Ingest.framePkt
    rw [h]
    cases d with
    | notIp => rfl
    | ip x =>
      obtain ⟨v, hv⟩ := hv rfl x rfl
      simp only [if_true, hv, pktOfC, csumBit, pktOf, infoOf]
      cases hx : x.l4 with
      | tcp sp dp sq ak pl => rfl
      | udp sp dp pl => rfl
      | other =>
        -- no verdict is computed for what is neither TCP nor UDP
        unfold Ingest.verdict at hv
        rw [hx] at hv
        cases hv
        rfl

theorem go_of_cap_c (hc : Keylog.HexClass) (c : Bool) (cap : List CapEv) (hok : CapOkC c cap) (tag : Nat) :
    Ingest.go hc c tag (cap.map CapEv.item) = .ok (itemsFromC c tag cap, infosFrom tag cap) := by
  induction cap generalizing tag with
  | nil => rfl
  | cons e rest ih =>
    obtain ⟨hd, ht, hv⟩ := hok e (by simp)
    have := ih (fun x hx => hok x (by simp [hx])) (tag + 1)
    rw [List.map_cons, CapEv.item, Ingest.go]
    simp only [ht, Bool.false_eq_true, if_false, framePkt_c c tag _ e.buf e.d hd hv, this]
    rfl

/-- **capture file → items, any `-c`.** -/
theorem ingest_of_capture_c (hc : Keylog.HexClass) (c legacy : Bool) (file : Bytes) (cap : List CapEv)
    (hread : Container.read legacy file = .ok (cap.map CapEv.item)) (hok : CapOkC c cap) :
    Ingest.itemsWith hc c legacy file = .ok (itemsFromC c 0 cap, infosFrom 0 cap) := by
  unfold Container.read at hread
  unfold Ingest.itemsWith
  cases hp : Container.readPrefix legacy file with
  | error e => rw [hp] at hread; cases hread
  | ok v =>
    obtain ⟨its, ended⟩ := v
    rw [hp] at hread
    cases ended with
    | some e => cases hread
    | none =>
      cases hread
      simp only [go_of_cap_c hc c cap hok 0]

/-! the verdict for a segment built by `Spec.FrameBuild` -/

/-- the TCP checksum of the segment is right: the RFC 1071 receiver (pseudo-header of the frame's addresses, RFC 9293 §3.1 /
    RFC 8200 §8.1) accepts it -/
def CsumValid (fr : Spec.FrameBuild.Frame) (t : Tcp) : Prop :=
  match fr.net with
  | .v4 h => Spec.Rfc1071.verdict .tcp false h.src h.dst t.encode = .valid
  | .v6 h => Spec.Rfc1071.verdict .tcp true h.src h.dst t.encode = .valid

instance (fr : Spec.FrameBuild.Frame) (t : Tcp) : Decidable (CsumValid fr t) := by
  unfold CsumValid; cases fr.net <;> infer_instance

theorem verdict_tcp_ne_noChecksum (v6 : Bool) (src dst seg : Bytes) :
    Spec.Rfc1071.verdict .tcp v6 src dst seg ≠ .noChecksum := by
  unfold Spec.Rfc1071.verdict
  simp only [reduceCtorEq, false_and, if_false]
  split <;> simp

/-- `calculate_checksum_tcp` on a TCP segment as dpkt delivers it (`ip.p = 6`, addresses of 4 / 16 bytes, the segment
    shorter than the IP length field allows) is the RFC 1071 receiver -/
theorem verdict_tcp (x : IpPkt) (sp dp sq ak : Nat) (pl : Bytes) (hl4 : x.l4 = .tcp sp dp sq ak pl) (hp : x.p = 6)
    (hs : x.src.length % 2 = 0) (hd : x.dst.length % 2 = 0) (hf : 18 ≤ x.seg.length)
    (hlen : x.seg.length < (if x.v6 then 4294967296 else 65536)) :
    Ingest.verdict x = .ok (if pl = [] then none
      else some (decide (Spec.Rfc1071.verdict .tcp x.v6 x.src x.dst x.seg = .valid))) := by
  unfold Ingest.verdict
  rw [hl4]
  simp only
  by_cases he : pl = []
  · subst he; rfl
  · have he' : pl.isEmpty = false := by cases pl <;> simp_all
    rw [he', if_neg he]
    simp only [Bool.false_eq_true, if_false]
    have hD : Lemmas.OnesComplement.Dissected .tcp x.v6 x.src x.dst x.seg := ⟨hs, hd, hf, hlen⟩
    have := Props.C11.check_eq_rfc_verify .tcp x.v6 x.src x.dst x.seg hD (verdict_tcp_ne_noChecksum _ _ _ _)
    rw [hp]
    rw [show Checksum.L4.tcp.num = 6 from rfl] at this
    rw [this]
    rfl

/-! ### 2. IPv6 extension headers -/

open TLX.Lemmas.Dissect in
/-- dpkt's option walk (`IP6OptsHeader.unpack`) gets through every option list the encoder lays out -/
theorem optsWalk_enc (os : List Opt6) (hw : ∀ o ∈ os, o.WF) (pre rest : Bytes) (fuel : Nat) :
    optsWalk fuel (pre ++ (encOpts os ++ rest)) (pre.length + (encOpts os).length) pre.length = true := by
  induction os generalizing pre fuel with
  | nil =>
    cases fuel with
    | zero => rfl
    | succ f => simp [optsWalk, encOpts]
  | cons o os ih =>
    cases fuel with
    | zero => rfl
    | succ f =>
      have hpos : 1 ≤ (Opt6.encode o).length := by cases o <;> simp [Opt6.encode]
      have hlt : pre.length < pre.length + (encOpts (o :: os)).length := by
        simp only [encOpts, List.flatMap_cons, List.length_append]; omega
      unfold optsWalk
      rw [if_pos hlt]
      cases o with
      | pad1 =>
        have h0 : (pre ++ (encOpts (Opt6.pad1 :: os) ++ rest))[pre.length]? = some 0 := by
          simp [encOpts, Opt6.encode]
        rw [h0]
        simp only [if_true]
        have := ih (fun x hx => hw x (by simp [hx])) (pre ++ [0]) f
        simp only [List.length_append, List.length_singleton, List.append_assoc, List.singleton_append] at this
        have e : pre.length + (encOpts (Opt6.pad1 :: os)).length = pre.length + 1 + (encOpts os).length := by
          simp only [encOpts, List.flatMap_cons, Opt6.encode, List.length_append, List.length_singleton]; omega
        rw [e]
        exact this
      | opt t d =>
        obtain ⟨ht0, ht, hd⟩ : 0 < t ∧ t < 256 ∧ d.length < 256 := hw (Opt6.opt t d) (by simp)
        have h0 : (pre ++ (encOpts (Opt6.opt t d :: os) ++ rest))[pre.length]? = some (UInt8.ofNat t) := by
          simp [encOpts, Opt6.encode]
        have h1 : (pre ++ (encOpts (Opt6.opt t d :: os) ++ rest))[pre.length + 1]? = some (UInt8.ofNat d.length) := by
          simp [encOpts, Opt6.encode]
        have hne : UInt8.ofNat t ≠ 0 := by
          intro h
          have := congrArg UInt8.toNat h
          simp only [UInt8.toNat_ofNat', UInt8.toNat_zero] at this
          omega
        rw [h0]
        simp only [hne, if_false, h1]
        have hdl : (UInt8.ofNat d.length).toNat = d.length := by
          simp only [UInt8.toNat_ofNat']; omega
        rw [hdl]
        have := ih (fun x hx => hw x (by simp [hx])) (pre ++ (UInt8.ofNat t :: UInt8.ofNat d.length :: d)) f
        simp only [List.length_append, List.length_cons, List.append_assoc, List.cons_append] at this
        have e1 : pre.length + d.length + 2 = pre.length + (d.length + 1 + 1) := by omega
        have e2 : pre.length + (encOpts (Opt6.opt t d :: os)).length
            = pre.length + (d.length + 1 + 1) + (encOpts os).length := by
          simp only [encOpts, List.flatMap_cons, Opt6.encode, List.length_append, List.length_cons, List.length_nil]; omega
        have e3 : encOpts (Opt6.opt t d :: os) ++ rest
            = UInt8.ofNat t :: UInt8.ofNat d.length :: (d ++ (encOpts os ++ rest)) := by
          simp [encOpts, Opt6.encode]
        rw [e1, e2, e3]
        exact this

open TLX.Lemmas.Dissect in
theorem extHdr_opts (k : Nat) (hk : k = 0 ∨ k = 60) (os : List Opt6) (hw : ∀ o ∈ os, o.WF)
    (h8 : (2 + (encOpts os).length) % 8 = 0) (hl : 2 + (encOpts os).length ≤ 2048) (n : Nat) (rest : Bytes) (hn : n < 256) :
    extHdr k ([UInt8.ofNat n, UInt8.ofNat ((2 + (encOpts os).length) / 8 - 1)] ++ encOpts os ++ rest) =
      .ok (2 + (encOpts os).length, some n, false, 0) := by
  unfold extHdr
  rw [if_pos hk]
  have hlen : ¬ ([UInt8.ofNat n, UInt8.ofNat ((2 + (encOpts os).length) / 8 - 1)] ++ encOpts os ++ rest).length < 2 := by
    simp
  rw [if_neg hlen]
  have hu1 : u8 ([UInt8.ofNat n, UInt8.ofNat ((2 + (encOpts os).length) / 8 - 1)] ++ encOpts os ++ rest) 1
      = (2 + (encOpts os).length) / 8 - 1 := by
    simp only [u8, List.cons_append, List.nil_append, List.getElem?_cons_succ, List.getElem?_cons_zero, Option.map_some,
      Option.getD_some, UInt8.toNat_ofNat']
    omega
  have hu0 : u8 ([UInt8.ofNat n, UInt8.ofNat ((2 + (encOpts os).length) / 8 - 1)] ++ encOpts os ++ rest) 0 = n := by
    simp only [u8, List.cons_append, List.nil_append, List.getElem?_cons_zero, Option.map_some, Option.getD_some,
      UInt8.toNat_ofNat']
    omega
  have hL : ((2 + (encOpts os).length) / 8 - 1 + 1) * 8 = 2 + (encOpts os).length := by omega
  simp only [hu1, hu0, hL]
  have hdrop : ([UInt8.ofNat n, UInt8.ofNat ((2 + (encOpts os).length) / 8 - 1)] ++ encOpts os ++ rest).drop 2
      = [] ++ (encOpts os ++ rest) := by simp
  rw [hdrop]
  have := optsWalk_enc os hw [] rest (2 + (encOpts os).length)
  simp only [List.length_nil, Nat.zero_add] at this
  rw [show 2 + (encOpts os).length - 2 = (encOpts os).length by omega, this]
  rfl

open TLX.Lemmas.Dissect in
/-- dpkt's `IP6OptsHeader` (hop-by-hop and destination options) reads back what the encoder lays out — the case
    `Props.C12Dissect.extOk_of_WF` leaves to the correspondence -/
theorem extOk_opts (e : Ext) (w : e.WF) (h : (∃ os, e = .hopByHop os) ∨ (∃ os, e = .destOpts os)) : ExtOk e := by
  intro n rest hn
  rcases h with ⟨os, rfl⟩ | ⟨os, rfl⟩
  · obtain ⟨w1, w2, w3⟩ := w
    have := extHdr_opts 0 (.inl rfl) os w1 w2 w3 n rest hn
    simp only [Ext.proto, Ext.encode, isFrag]
    rw [this]
    simp
    omega
  · obtain ⟨w1, w2, w3⟩ := w
    have := extHdr_opts 60 (.inr rfl) os w1 w2 w3 n rest hn
    simp only [Ext.proto, Ext.encode, isFrag]
    rw [this]
    simp
    omega

open TLX.Lemmas.Dissect in
/-- every extension header the encoder knows, laid out as the RFCs say, is read back by dpkt's class for it -/
theorem extOk_all (e : Ext) (w : e.WF) : ExtOk e := by
  cases e with
  | hopByHop os => exact extOk_opts _ w (.inl ⟨os, rfl⟩)
  | destOpts os => exact extOk_opts _ w (.inr ⟨os, rfl⟩)
  | routing t s d => exact extOk_routing t s d w
  | fragment i m => exact extOk_fragment i m
  | ah a b c => exact extOk_ah a b c w

/-- the chain starts with a fragment header -/
def fragFirst : List Ext → Bool
  | .fragment .. :: _ => true
  | _ => false

/-- the chain ends with a fragment header -/
def fragLast (es : List Ext) : Bool :=
  match es.getLast? with
  | some (.fragment ..) => true
  | _ => false

/-- **a segment of the connection, IPv6 extension headers admitted**: as `Spec.TlsCapture.IsSeg`, but over IPv6 ANY chain of
    well-formed hop-by-hop / destination options / routing / fragment (offset 0) / authentication headers may stand between
    the IPv6 header and TCP — EXCEPT a chain that starts with a fragment header and ends with another kind: there dpkt
    raises AttributeError (`Props.C12Dissect.Ex.attribute_aborts`; e.g. the RFC 8200 order fragment, destination options)
    and the run aborts. -/
def IsSegX (fl : Flow) (fromServer : Bool) (fr : Spec.FrameBuild.Frame) (t : Tcp) : Prop :=
  fr.WF ∧ fr.upper = .tcp t ∧
  t.sport = (if fromServer then fl.serverPort else fl.clientPort) ∧
  t.dport = (if fromServer then fl.clientPort else fl.serverPort) ∧
  (match fr.net with
   | .v4 h => fl.v6 = false ∧ h.src = (if fromServer then fl.serverIp else fl.clientIp) ∧
              h.dst = (if fromServer then fl.clientIp else fl.serverIp)
   | .v6 h => fl.v6 = true ∧ ¬ (fragFirst h.exts = true ∧ fragLast h.exts = false) ∧
              h.src = (if fromServer then fl.serverIp else fl.clientIp) ∧
              h.dst = (if fromServer then fl.clientIp else fl.serverIp))

theorem isSegX_of_isSeg (fl : Flow) (d : Bool) (fr : Spec.FrameBuild.Frame) (t : Tcp) (h : IsSeg fl d fr t) :
    IsSegX fl d fr t := by
  obtain ⟨a, b, c, e, f⟩ := h
  refine ⟨a, b, c, e, ?_⟩
  cases hn : fr.net with
  | v4 h4 => rw [hn] at f; exact f
  | v6 h6 =>
    rw [hn] at f
    obtain ⟨f1, f2, f3, f4⟩ := f
    exact ⟨f1, by rw [f2]; simp [fragFirst], f3, f4⟩

open TLX.Lemmas.Dissect in
theorem lastFrag_eq (es : List Ext) (b : Bool) :
    lastFrag es b = match es.getLast? with
      | some e => isFrag e
      | none => b := by
  induction es generalizing b with
  | nil => rfl
  | cons e es ih =>
    simp only [lastFrag]
    rw [ih]
    cases es with
    | nil => rfl
    | cons e' es' =>
      rw [List.getLast?_cons_cons]
      cases hl : (e' :: es').getLast? with
      | none => simp at hl
      | some x => rfl

open TLX.Lemmas.Dissect in
theorem chain_cond (es : List Ext) (p : Nat) (up : Bytes) (hp : p ≠ 44)
    (h : ¬ (fragFirst es = true ∧ fragLast es = false)) :
    ¬ ((encChain es p up).1 = 44 ∧ lastFrag es false = false) := by
  rintro ⟨h1, h2⟩
  apply h
  constructor
  · cases es with
    | nil => simp [encChain] at h1; exact absurd h1 hp
    | cons e es => cases e <;> simp [encChain, Ext.proto] at h1 <;> rfl
  · rw [lastFrag_eq] at h2
    unfold fragLast
    cases hl : es.getLast? with
    | none => rfl
    | some e =>
      rw [hl] at h2
      cases e <;> simp [isFrag] at h2 <;> rfl

theorem dissect_segX (fl : Flow) (d : Bool) (fr : Spec.FrameBuild.Frame) (t : Tcp) (h : IsSegX fl d fr t) :
    dissect fr.encode = .ok (viewOf fr) := by
  obtain ⟨hwf, hu, _, _, hnet⟩ := h
  unfold viewOf
  cases hn : fr.net with
  | v4 h4 => exact dissect_build_v4 fr h4 hn hwf
  | v6 h6 =>
    rw [hn] at hnet
    obtain ⟨_, hex, _, _⟩ := hnet
    have hw6 : ∀ e ∈ h6.exts, e.WF := by
      have := hwf.2.2.2
      rw [hn] at this
      exact this.2.2.1
    refine dissect_build_v6 fr h6 hn hwf (fun e he => extOk_all e (hw6 e he)) ?_
    rw [hu]
    exact chain_cond _ _ _ (by simp [Upper.proto]) hex

theorem pktOf_segX (fl : Flow) (d : Bool) (fr : Spec.FrameBuild.Frame) (t : Tcp) (h : IsSegX fl d fr t) (tag : Nat) :
    pktOf tag (viewOf fr) =
      ⟨.tcp, if d then serverEp fl else clientEp fl, if d then clientEp fl else serverEp fl, t.payload, true, tag⟩ := by
  obtain ⟨_, hu, hsp, hdp, hnet⟩ := h
  unfold viewOf
  cases hn : fr.net with
  | v4 h4 =>
    rw [hn] at hnet
    obtain ⟨_, hs, hd⟩ := hnet
    simp only [pktOf, hu, transportOf, hs, hd, hsp, hdp, clientEp, serverEp]
    cases d <;> rfl
  | v6 h6 =>
    rw [hn] at hnet
    obtain ⟨_, _, hs, hd⟩ := hnet
    simp only [pktOf, hu, transportOf, hs, hd, hsp, hdp, clientEp, serverEp]
    cases d <;> rfl

theorem infoOf_segX (fl : Flow) (d : Bool) (fr : Spec.FrameBuild.Frame) (t : Tcp) (h : IsSegX fl d fr t) (us : Nat) :
    infoOf us (viewOf fr) = ⟨t.seq, us, fr.srcMac, fr.dstMac, fl.v6⟩ := by
  obtain ⟨_, hu, _, _, hnet⟩ := h
  unfold viewOf
  cases hn : fr.net with
  | v4 h4 =>
    rw [hn] at hnet
    simp only [infoOf, hu, transportOf, hnet.1]
  | v6 h6 =>
    rw [hn] at hnet
    simp only [infoOf, hu, transportOf, hnet.1]

/-- the checksum functions on a segment of the connection: no exception, and the RFC 1071 receiver's verdict -/
theorem verdict_segX (fl : Flow) (d : Bool) (fr : Spec.FrameBuild.Frame) (t : Tcp) (h : IsSegX fl d fr t) :
    ∀ x, viewOf fr = .ip x →
      Ingest.verdict x = .ok (if t.payload = [] then none else some (decide (CsumValid fr t))) := by
  obtain ⟨hwf, hu, _, _, hnet⟩ := h
  obtain ⟨_, _, wu, wn⟩ := hwf
  have hlen : t.encode.length = 20 + t.options.length + t.payload.length := Lemmas.Dissect.tcp_encode_length t
  intro x hx
  unfold viewOf at hx
  cases hn : fr.net with
  | v4 h4 =>
    rw [hn] at hx wn
    obtain ⟨w1, w2, _, _, w5⟩ : h4.WF fr.upper.encode.length := wn
    cases hx
    rw [hu] at w5 ⊢
    simp only [Upper.encode] at w5
    have := verdict_tcp ⟨false, fr.srcMac, fr.dstMac, h4.src, h4.dst, 6, t.encode, .tcp t.sport t.dport t.seq t.ack t.payload⟩
      t.sport t.dport t.seq t.ack t.payload rfl rfl (by simp [w1]) (by simp [w2]) (by simp only; omega)
      (by simp only [Bool.false_eq_true, if_false]; omega)
    simp only [Upper.proto, Upper.encode, transportOf]
    rw [this]
    simp only [CsumValid, hn]
  | v6 h6 =>
    rw [hn] at hx wn
    obtain ⟨w1, w2, _, _, _, _, w7⟩ : h6.WF (encChain h6.exts fr.upper.proto fr.upper.encode).2.length := wn
    cases hx
    rw [hu] at w7 ⊢
    simp only [Upper.encode, Upper.proto] at w7
    have hge : t.encode.length ≤ (encChain h6.exts 6 t.encode).2.length := by
      generalize h6.exts = es
      induction es with
      | nil => simp [encChain]
      | cons e es ih => simp only [encChain, List.length_append]; omega
    have := verdict_tcp ⟨true, fr.srcMac, fr.dstMac, h6.src, h6.dst, 6, t.encode, .tcp t.sport t.dport t.seq t.ack t.payload⟩
      t.sport t.dport t.seq t.ack t.payload rfl rfl (by simp [w1]) (by simp [w2]) (by simp only; omega)
      (by simp only [if_true]; omega)
    simp only [Upper.proto, Upper.encode, transportOf]
    rw [this]
    simp only [CsumValid, hn]

/-- with or without `-c`: a segment with a valid checksum (or without payload) is handed on with `csumOk = true` -/
theorem csumBit_segX (fl : Flow) (c d : Bool) (fr : Spec.FrameBuild.Frame) (t : Tcp) (h : IsSegX fl d fr t)
    (hv : c = true → t.payload ≠ [] → CsumValid fr t) : csumBit c (viewOf fr) = true := by
  cases c with
  | false =>
    unfold viewOf
    cases fr.net <;> rfl
  | true =>
    have hvd := verdict_segX fl d fr t h
    cases hvo : viewOf fr with
    | notIp => rfl
    | ip x =>
      simp only [csumBit, if_true, hvd x hvo]
      by_cases hp : t.payload = []
      · simp [hp]
      · simp [hp, hv rfl hp]

/-! ### 3. the described capture -/

/-- a foreign packet (`Props.C01File.Foreign`: anything that is not a data segment of the connection's 4-tuple; its
    checksums may be right or wrong); with `-c` the checksum functions do not raise on it -/
def ForeignC (fl : Flow) (c : Bool) (e : CapEv) : Prop :=
  Foreign fl e ∧ (c = true → ∀ x, e.d = .ip x → ∃ v, Ingest.verdict x = .ok v)

/-- the capture, sender side: segments of the connection (`IsSegX`; with `-c` every data segment carries a valid TCP
    checksum) and foreign packets -/
def DescribedX (fl : Flow) (c : Bool) (evs : List CEv) : Prop :=
  ∀ ev ∈ evs, match ev with
    | .seg _ d fr t => IsSegX fl d fr t ∧ (c = true → t.payload ≠ [] → CsumValid fr t)
    | .foreign e => ForeignC fl c e

theorem describedX_of_described (fl : Flow) (evs : List CEv) (h : Described fl evs) : DescribedX fl false evs := by
  intro ev hev
  have := h ev hev
  cases ev with
  | seg t d fr tcp => exact ⟨isSegX_of_isSeg fl d fr tcp this, fun hc => by cases hc⟩
  | foreign e => exact ⟨this, fun hc => by cases hc⟩

theorem capOkC_of_describedX (fl : Flow) (c : Bool) (evs : List CEv) (h : DescribedX fl c evs)
    (ht : ∀ e ∈ evs.map CEv.cap, Ingest.isMinusOne e.t = false) : CapOkC c (evs.map CEv.cap) := by
  intro e he
  refine ⟨?_, ht e he, ?_⟩
  · simp only [List.mem_map] at he
    obtain ⟨ev, hev, rfl⟩ := he
    have := h ev hev
    cases ev with
    | seg t d fr tcp => exact dissect_segX fl d fr tcp this.1
    | foreign e => exact this.1.1
  · simp only [List.mem_map] at he
    obtain ⟨ev, hev, rfl⟩ := he
    have := h ev hev
    intro hc x hx
    cases ev with
    | seg t d fr tcp => exact ⟨_, verdict_segX fl d fr tcp this.1 x hx⟩
    | foreign e => exact this.2 hc x hx

theorem tcpView_frame_c (o : Opts) (p : Pkt) :
    tcpView o [(.frame p : MainLoop.Item Keylog.Key)] =
      if p.l4 = .tcp ∧ p.payload ≠ [] ∧ ¬ (o.checksumTest = true ∧ p.csumOk = false) then [p] else [] := by
  simp only [Spec.Demux.tcpView, List.filterMap_cons, List.filterMap_nil, classify]
  cases hl : p.l4 with
  | tcp =>
    cases hp : p.payload with
    | nil => simp
    | cons b bs =>
      cases hc : o.checksumTest <;> cases hk : p.csumOk <;> simp
  | udp =>
    cases hp : p.payload with
    | nil => simp
    | cons b bs =>
      by_cases hq : (o.checksumTest && !p.csumOk) = true
      · simp [hq]
      · by_cases hq2 : (decide ((b.toNat &&& 64) >>> 6 = 1) || o.greasy) = true <;> simp [hq, hq2]
  | other => simp

/-- the TLS-relevant packets of the connection's flow, with or without `-c`: its data segments — every one passes the
    checksum test; a foreign frame that fails it changes nothing for this flow -/
theorem flow_filter_c (fl : Flow) (o : Opts) (evs : List CEv) (h : DescribedX fl o.checksumTest evs) (n : Nat) :
    (tcpView o (itemsFromC o.checksumTest n (evs.map CEv.cap))).filter (sameFlow (refPkt fl)) = flowPkts fl n evs := by
  induction evs generalizing n with
  | nil => rfl
  | cons ev rest ih =>
    have hrest := ih (fun x hx => h x (by simp [hx])) (n + 1)
    have hev := h ev (by simp)
    rw [List.map_cons, itemsFromC, tcpView_cons, List.filter_append, hrest, tcpView_frame_c o]
    cases ev with
    | seg t d fr tcp =>
      obtain ⟨hs, hv⟩ : IsSegX fl d fr tcp ∧ (o.checksumTest = true → tcp.payload ≠ [] → CsumValid fr tcp) := hev
      have hb := csumBit_segX fl o.checksumTest d fr tcp hs hv
      have hp : pktOfC o.checksumTest n (viewOf fr) =
          ⟨.tcp, if d then serverEp fl else clientEp fl, if d then clientEp fl else serverEp fl, tcp.payload, true, n⟩ := by
        simp only [pktOfC, hb, pktOf_segX fl d fr tcp hs n]
      simp only [CEv.cap, hp, flowPkts]
      by_cases hpl : tcp.payload = []
      · simp [hpl]
      · simp [hpl, sameFlow_ref]
    | foreign e =>
      have hev : Foreign fl e := hev.1
      simp only [flowPkts]
      show List.filter (sameFlow (refPkt fl))
          (if (pktOfC o.checksumTest n e.d).l4 = MainLoop.L4.tcp ∧ (pktOfC o.checksumTest n e.d).payload ≠ [] ∧
              ¬ (o.checksumTest = true ∧ (pktOfC o.checksumTest n e.d).csumOk = false)
            then [pktOfC o.checksumTest n e.d] else []) ++ flowPkts fl (n + 1) rest = flowPkts fl (n + 1) rest
      by_cases hcond : (pktOfC o.checksumTest n e.d).l4 = MainLoop.L4.tcp ∧ (pktOfC o.checksumTest n e.d).payload ≠ [] ∧
          ¬ (o.checksumTest = true ∧ (pktOfC o.checksumTest n e.d).csumOk = false)
      · have hsf := hev.2 n hcond.1 hcond.2.1
        have hsf' : sameFlow (refPkt fl) (pktOfC o.checksumTest n e.d) = false := hsf
        rw [if_pos hcond]
        simp [hsf']
      · rw [if_neg hcond]
        rfl

open TLX.Lemmas.Capstone in
theorem dirSegs_flow_x (fl : Flow) (c : Bool) (hne : clientEp fl ≠ serverEp fl) (d : Bool) (evs : List CEv)
    (hd : DescribedX fl c evs) (n : Nat) (info : Nat → Pipeline.Info)
    (hinfo : ∀ tag, n ≤ tag → info tag = Ingest.lookup (infosFrom n (evs.map CEv.cap)) tag) :
    (dirSegs info (serverEp fl) d (flowPkts fl n evs)).map Props.C05.wire = dirWires d evs := by
  induction evs generalizing n with
  | nil => rfl
  | cons ev rest ih =>
    have hrest := ih (fun x hx => hd x (by simp [hx])) (n + 1) (fun tag ht => by
      rw [hinfo tag (by omega), List.map_cons, infosFrom, Lemmas.Export.lookup_cons_ne _ _ _ _ (by omega)])
    have hev := hd ev (by simp)
    cases ev with
    | foreign e => simpa [flowPkts, dirWires] using hrest
    | seg t d' fr tcp =>
      have hev : IsSegX fl d' fr tcp := hev.1
      have hi : info n = ⟨tcp.seq, (CEv.seg t d' fr tcp).cap.us, fr.srcMac, fr.dstMac, fl.v6⟩ := by
        rw [hinfo n (Nat.le_refl _), List.map_cons, infosFrom, Lemmas.Export.lookup_cons_eq]
        exact infoOf_segX fl d' fr tcp hev _
      by_cases hp : tcp.payload = []
      · simpa [flowPkts, dirWires, hp] using hrest
      · simp only [flowPkts, hp, if_false, dirWires, ne_eq, not_false_eq_true, true_and]
        simp only [dirSegs, List.filter_cons] at hrest ⊢
        have hsrc : ((if d' then serverEp fl else clientEp fl) == serverEp fl) = d' := by
          cases d' <;> simp [hne]
        by_cases hdd : d' = d
        · subst hdd
          simp only [hsrc, beq_self_eq_true, if_true, List.map_cons, Props.C05.wire, hi, hrest]
        · have : (d' == d) = false := by simpa using hdd
          simp only [hsrc, this, Bool.false_eq_true, if_false, hdd, hrest]

open TLX.Props.C01Capstone in
/-- `Props.C01File.described_session` without its restrictions: any `-c`, extension headers -/
theorem described_session_x (fl : Flow) (hne : clientEp fl ≠ serverEp fl) (evs : List CEv) (o : Opts)
    (hd : DescribedX fl o.checksumTest evs) (hsp : o.ports.contains (fl.serverPort : Int) = true)
    (hcp : o.ports.contains (fl.clientPort : Int) = false) (p0 : Pkt) (rest : List Pkt)
    (hfp : flowPkts fl 0 evs = p0 :: rest) :
    (tcpView o (itemsFromC o.checksumTest 0 (evs.map CEv.cap))).filter (sameFlow (refPkt fl)) = p0 :: rest ∧
    candidate o p0 = true ∧
    (sessionOf (evs.map CEv.cap) o p0 rest).server = serverEp fl ∧
    (sessionOf (evs.map CEv.cap) o p0 rest).client = clientEp fl ∧
    ∀ streams, WiresInOrder evs streams →
      DeliveredInOrder (capInfo (evs.map CEv.cap)) (sessionOf (evs.map CEv.cap) o p0 rest) streams := by
  have hF := flow_filter_c fl o evs hd 0
  rw [hfp] at hF
  obtain ⟨d, pl, tag, hp0⟩ := flowPkts_shape fl evs 0 p0 (by rw [hfp]; simp)
  have hr := roles_of_flow fl o.ports hsp hcp d pl true tag o rfl
  simp only at hr
  rw [← hp0] at hr
  obtain ⟨hroles, hcand⟩ := hr
  have hsrv : (sessionOf (evs.map CEv.cap) o p0 rest).server = serverEp fl := by
    simp only [sessionOf]; exact congrArg Prod.fst hroles
  have hcli : (sessionOf (evs.map CEv.cap) o p0 rest).client = clientEp fl := by
    simp only [sessionOf]; exact congrArg Prod.snd hroles
  refine ⟨hF, hcand, hsrv, hcli, ?_⟩
  intro streams hw dir
  obtain ⟨⟨isn, hio⟩, hl⟩ := hw dir
  refine ⟨⟨isn, ?_⟩, hl⟩
  rw [hsrv]
  have hpk : (sessionOf (evs.map CEv.cap) o p0 rest).pkts = flowPkts fl 0 evs := by rw [hfp]; rfl
  rw [hpk, dirSegs_flow_x fl o.checksumTest hne dir evs hd 0 (capInfo (evs.map CEv.cap)) (fun tag _ => rfl)]
  exact hio

/-! ### 4. the three layers glued around one session, for any item list -/

section Glue
open TLX.Export TLX.Props.C01File2

/-- **Items → output file, no abort alternative.** The read loop (any `-c`) delivers the items `xs` (frames, DSBs) and the
    table `is`; `q` any packet of the flow of interest, whose TLS-relevant packets among the items are `p0 :: rest`. If
    `connOut` of THE session object the loop builds for the flow, with the key log as it is at the end of the capture, is
    `some blk`, and the write loop takes every frame of `blk` and whatever else the run exports, then the file is written and
    `ReadsBack` exactly `blk`. -/
theorem export_of_items_file (mask : Quic.Dissect.MaskFn) (H : Crypto.Prims) (P : Cipher.Prims) (args : Args)
    (legacy : Bool) (keyFile : Option Keylog.Str) (file : Bytes)
    (xs : List (MainLoop.Item Keylog.Key)) (is : List (Nat × Pipeline.Info))
    (hing : Ingest.itemsWith Keylog.srcHexClass args.checksumTest legacy file = .ok (xs, is))
    (pm : List (Int × Int)) (ports : List Int)
    (hpm : Options.getPortMap Options.Src.bare args.mArg = .ok pm)
    (hports : Options.serverPorts Options.Src.builtin Options.Src.pDefault args.pArg = .ok ports)
    (q p0 : Pkt) (rest : List Pkt)
    (hF : (tcpView (optsOf args ports pm) xs).filter (sameFlow q) = p0 :: rest)
    (hcand : candidate (optsOf args ports pm) p0 = true)
    (blk : List Pipeline.OutPkt)
    (hsess : Pipeline.connOut H P (Ingest.lookup is)
      { (Pipeline.tlsMachine H P (Ingest.lookup is)).new (optsOf args ports pm) p0 with pkts := p0 :: rest }
      ((fileKeysOf keyFile).getD [] ++ dsbKeys (optsOf args ports pm) xs) = some blk)
    (hblk : ∀ x ∈ blk, WritesOk x)
    (hothers : ∀ out pre post, framesFrom mask H P freshState args (fileKeysOf keyFile) xs (Ingest.lookup is) = .ok out →
      out = pre ++ blk ++ post → ∀ x ∈ pre ++ post, WritesOk x) :
    ∃ f, exportFile mask H P args legacy keyFile file = .file f ∧ ReadsBack f blk := by
  have hopt := optionsBad_false args pm ports hpm hports
  obtain ⟨pre, post, hout⟩ := session_of_items mask H P (Ingest.lookup is) (optsOf args ports pm)
    ((fileKeysOf keyFile).getD []) xs q p0 rest hF hcand
  have hTM : (Pipeline.tlsMachine H P (Ingest.lookup is)).out
      { (Pipeline.tlsMachine H P (Ingest.lookup is)).new (optsOf args ports pm) p0 with pkts := p0 :: rest }
      ((fileKeysOf keyFile).getD [] ++ dsbKeys (optsOf args ports pm) xs) = blk := by
    show (Pipeline.connOut H P _ _ _).getD [] = blk
    rw [hsess]; rfl
  rw [hTM] at hout
  have hfr := framesFrom_eq mask H P args (fileKeysOf keyFile) xs (Ingest.lookup is) pm ports hpm hports
  rw [hout] at hfr
  have hwf := Lemmas.Export.framesFrom_wf mask H P freshState args _ _ _ _
    (Lemmas.Export.itemsWith_good _ _ _ _ _ _ hing) hfr
  have hall : ∀ x ∈ pre ++ blk ++ post, WritesOk x := by
    intro x hx
    simp only [List.mem_append] at hx
    rcases hx with (hx | hx) | hx
    · exact hothers _ pre post hfr rfl x (by simp [hx])
    · exact hblk x hx
    · exact hothers _ pre post hfr rfl x (by simp [hx])
  have hex : ∃ f, fileOfFrames ((pre ++ blk ++ post).map Frame.ofOutPkt) = .ok f := by
    apply (Props.C06Bytes.fileOf_ok_iff _ ?_).mpr
    · intro fr hfr'
      simp only [List.mem_map] at hfr'
      obtain ⟨x, hx, rfl⟩ := hfr'
      exact hall x hx
    · intro fr hfr'
      simp only [List.mem_map] at hfr'
      obtain ⟨x, hx, rfl⟩ := hfr'
      exact hwf x hx
  obtain ⟨f0, hf0⟩ := hex
  have hf0' : fileOf (pre ++ blk ++ post) = .ok f0 := hf0
  rcases Props.Export.exportFrom_stages mask H P freshState args legacy keyFile file hopt with
    ⟨e, hi, _⟩ | ⟨xs', is', out, hi, hf, hw⟩
  · rw [hing] at hi; cases hi
  rw [hing] at hi
  cases hi
  rw [hfr] at hf
  cases hf
  rcases hw with ⟨e, hw, _⟩ | ⟨f, hw, he⟩
  · rw [hf0'] at hw; cases hw
  · refine ⟨f, he, ?_⟩
    obtain ⟨A, C, B, _, _, hB, hr, hg⟩ := file_of_frames pre blk post f hwf hw
    exact ⟨A, C, B, hB, hr, hg⟩

end Glue

/-! ### a sufficient condition for "whatever else the run exports fits": the loop ignores everything else -/

section Others
open TLX.Export TLX.Props.C01File2

/-- the main loop ignores the packet — not TCP / UDP over IP, no payload, non-QUIC UDP, or (with `-c`) a bad checksum -/
def IgnoredC (o : Opts) (e : CapEv) : Prop :=
  ∀ tag, ∃ w, (classify o (.frame (pktOfC o.checksumTest tag e.d)) : Class Keylog.Key) = .ignore w

theorem dsbKeys_itemsFromC (o : Opts) (c : Bool) (cap : List CapEv) (tag : Nat) : dsbKeys o (itemsFromC c tag cap) = [] := by
  induction cap generalizing tag with
  | nil => rfl
  | cons e rest ih => rw [itemsFromC, dsbKeys_cons, dsbKeys_frame, ih]; rfl

theorem classify_tcp_c (o : Opts) (p : Pkt) (h : p.l4 = .tcp) :
    (∃ q, (classify o (.frame p) : Class Keylog.Key) = .tls q) ∨
      (∃ w, (classify o (.frame p) : Class Keylog.Key) = .ignore w) := by
  simp only [classify, h]
  split
  · exact .inr ⟨_, rfl⟩
  · split
    · exact .inr ⟨_, rfl⟩
    · exact .inl ⟨_, rfl⟩

theorem views_of_ignored_c (fl : Flow) (o : Opts) (kl : List Keylog.Key) (evs : List CEv)
    (hd : DescribedX fl o.checksumTest evs) (hign : ∀ e, CEv.foreign e ∈ evs → IgnoredC o e) (n : Nat) :
    Spec.Demux.tcpView o (itemsFromC o.checksumTest n (evs.map CEv.cap)) = flowPkts fl n evs ∧
      quicView o kl (itemsFromC o.checksumTest n (evs.map CEv.cap)) = [] := by
  induction evs generalizing n with
  | nil => exact ⟨rfl, rfl⟩
  | cons ev rest ih =>
    obtain ⟨i1, i2⟩ := ih (fun x hx => hd x (by simp [hx])) (fun e he => hign e (by simp [he])) (n + 1)
    have hev := hd ev (by simp)
    rw [List.map_cons, itemsFromC, tcpView_cons, i1]
    cases ev with
    | seg t d fr tcp =>
      obtain ⟨hs, hv⟩ : IsSegX fl d fr tcp ∧ (o.checksumTest = true → tcp.payload ≠ [] → CsumValid fr tcp) := hev
      have hb := csumBit_segX fl o.checksumTest d fr tcp hs hv
      have hp : pktOfC o.checksumTest n (viewOf fr) =
          ⟨.tcp, if d then serverEp fl else clientEp fl, if d then clientEp fl else serverEp fl, tcp.payload, true, n⟩ := by
        simp only [pktOfC, hb, pktOf_segX fl d fr tcp hs n]
      constructor
      · rw [tcpView_frame_c o]
        simp only [CEv.cap, hp, flowPkts]
        by_cases hpl : tcp.payload = [] <;> simp [hpl]
      · rw [quicView_skip o kl _ _ (classify_tcp_c o _ (by simp only [CEv.cap, hp])), i2]
    | foreign e =>
      obtain ⟨w, hw⟩ := hign e (by simp) n
      constructor
      · have : Spec.Demux.tcpView o [(.frame (pktOfC o.checksumTest n e.d) : MainLoop.Item Keylog.Key)] = [] := by
          simp [Spec.Demux.tcpView, hw]
        rw [show (CEv.foreign e).cap = e from rfl, this]; rfl
      · show quicView o kl (Item.frame (pktOfC o.checksumTest n e.d) :: _) = []
        rw [quicView_skip o kl _ _ (.inr ⟨w, hw⟩), i2]

/-- **Nothing else is exported when the loop ignores everything else** (any `-c`) -/
theorem othersFit_of_ignored_c (mask : Quic.Dissect.MaskFn) (H : Crypto.Prims) (P : Cipher.Prims) (args : Args)
    (keyFile : Option Keylog.Str) (fl : Flow) (evs : List CEv)
    (pm : List (Int × Int)) (ports : List Int)
    (hpm : Options.getPortMap Options.Src.bare args.mArg = .ok pm)
    (hports : Options.serverPorts Options.Src.builtin Options.Src.pDefault args.pArg = .ok ports)
    (hd : DescribedX fl args.checksumTest evs)
    (hign : ∀ e, CEv.foreign e ∈ evs → IgnoredC (optsOf args ports pm) e)
    (p0 : Pkt) (rest : List Pkt) (hfp : flowPkts fl 0 evs = p0 :: rest)
    (hcand : candidate (optsOf args ports pm) p0 = true) (blk : List Pipeline.OutPkt)
    (hsess : Pipeline.connOut H P (capInfo (evs.map CEv.cap))
      (sessionOf (evs.map CEv.cap) (optsOf args ports pm) p0 rest) ((fileKeysOf keyFile).getD []) = some blk) :
    ∀ out pre post, framesFrom mask H P freshState args (fileKeysOf keyFile)
        (itemsFromC args.checksumTest 0 (evs.map CEv.cap)) (capInfo (evs.map CEv.cap)) = .ok out →
      out = pre ++ blk ++ post → ∀ x ∈ pre ++ post, WritesOk x := by
  intro out pre post hout hsplit
  have hd' : DescribedX fl (optsOf args ports pm).checksumTest evs := hd
  obtain ⟨hv1, hv2⟩ := views_of_ignored_c fl (optsOf args ports pm) ((fileKeysOf keyFile).getD []) evs hd' hign 0
  have hv1' : Spec.Demux.tcpView (optsOf args ports pm) (itemsFromC args.checksumTest 0 (evs.map CEv.cap)) = flowPkts fl 0 evs :=
    hv1
  have hv2' : quicView (optsOf args ports pm) ((fileKeysOf keyFile).getD []) (itemsFromC args.checksumTest 0 (evs.map CEv.cap))
      = [] := hv2
  have hF := flow_filter_c fl (optsOf args ports pm) evs hd' 0
  rw [hv1] at hF
  have hall : ∀ x ∈ flowPkts fl 0 evs, sameFlow (refPkt fl) x = true := by
    intro x hx
    have : x ∈ (flowPkts fl 0 evs).filter (sameFlow (refPkt fl)) := by rw [hF]; exact hx
    exact (List.mem_filter.mp this).2
  have hfr := framesFrom_eq mask H P args (fileKeysOf keyFile) (itemsFromC args.checksumTest 0 (evs.map CEv.cap))
    (capInfo (evs.map CEv.cap)) pm ports hpm hports
  rw [Props.C18.fresh_run_is, hv1', hv2', dsbKeys_itemsFromC, List.append_nil,
    Props.C04.tls_alone_is_run _ _ (refPkt fl) _ hall, hfp] at hfr
  simp only [alone, hcand, if_true, Option.toList, quicRun, List.foldl_nil, List.flatMap_nil, List.append_nil,
    List.flatMap_cons, feedAll_tls, sessionOf_eq] at hfr
  have hTM : (Pipeline.tlsMachine H P (capInfo (evs.map CEv.cap))).out
      (sessionOf (evs.map CEv.cap) (optsOf args ports pm) p0 rest) ((fileKeysOf keyFile).getD []) = blk := by
    show (Pipeline.connOut H P _ _ _).getD [] = blk
    rw [hsess]; rfl
  rw [hTM] at hfr
  rw [hfr] at hout
  cases hout
  obtain ⟨h1, h2⟩ := append3_self pre blk post hsplit
  subst h1; subst h2
  intro x hx; cases hx

end Others

end TLX.Lemmas.C01Full
