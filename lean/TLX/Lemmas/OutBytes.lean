/-
Helper lemmas for C06Bytes: scapy's checksum routine against RFC 1071, the serialised layers, the pcapng writer
against the draft encoder. Core Lean only.
-/
import TLX.OutBytes
import TLX.Lemmas.OnesComplement
import TLX.Lemmas.Container
import TLX.Spec.FrameParse
import TLX.Spec.PcapngWalk
namespace TLX.Lemmas.OutBytes
open TLX TLX.OutBytes TLX.Checksum TLX.Spec.Rfc1071 TLX.Lemmas.OnesComplement

/-! ### `scapy.utils.checksum` is the RFC 1071 checksum (below 2^32) -/

/-- RFC 1071 §2(B), byte-order independence: the little-endian word sum is 256 × the big-endian one modulo 0xFFFF -/
theorem leWordSum_mod (b : Bytes) (h : b.length % 2 = 0) :
    leWordSum b % 65535 = (256 * wordSum b) % 65535 := by
  fun_induction leWordSum b with
  | case1 => simp [wordSum]
  | case2 x => simp at h
  | case3 x y rest ih =>
    simp only [List.length_cons] at h
    have := ih (by omega)
    simp only [wordSum]
    omega

theorem leWordSum_pos_iff (b : Bytes) (h : b.length % 2 = 0) : leWordSum b = 0 ↔ wordSum b = 0 := by
  fun_induction leWordSum b with
  | case1 => simp [wordSum]
  | case2 x => simp at h
  | case3 x y rest ih =>
    simp only [List.length_cons] at h
    have := ih (by omega)
    simp only [wordSum]
    omega

theorem leWordSum_le (b : Bytes) (h : b.length % 2 = 0) : leWordSum b ≤ 65535 * (b.length / 2) := by
  fun_induction leWordSum b with
  | case1 => simp
  | case2 x => simp at h
  | case3 x y rest ih =>
    simp only [List.length_cons] at h ⊢
    have := ih (by omega)
    have := x.toNat_lt
    have := y.toNat_lt
    omega

theorem pad_length_even (b : Bytes) : (pad b).length % 2 = 0 := by
  unfold pad; split
  · simp only [List.length_append, List.length_cons, List.length_nil]; omega
  · omega

/-- two folding steps reduce a sum below 2^32 to its representative in `1 … 0xFFFF` -/
theorem two_folds (L : Nat) (hL : L < 4294967296) (h0 : L ≠ 0) :
    ∃ r, (L / 65536 + L % 65536 + (L / 65536 + L % 65536) / 65536) % 65536 = r ∧
      1 ≤ r ∧ r ≤ 65535 ∧ r % 65535 = L % 65535 := by
  have hdm := Nat.div_add_mod L 65536
  have ha : L / 65536 < 65536 := by omega
  have hm : L % 65536 < 65536 := Nat.mod_lt _ (by decide)
  generalize L / 65536 = a at *
  generalize L % 65536 = m at *
  subst hdm
  by_cases hs : a + m < 65536
  · have e : (a + m) / 65536 = 0 := Nat.div_eq_of_lt hs
    rw [e, Nat.add_zero, Nat.mod_eq_of_lt hs]
    refine ⟨_, rfl, ?_, ?_, ?_⟩ <;> omega
  · have e : (a + m) / 65536 = 1 := by omega
    rw [e]
    have e2 : (a + m + 1) % 65536 = a + m - 65535 := by omega
    rw [e2]
    refine ⟨_, rfl, ?_, ?_, ?_⟩ <;> omega

/-- swapping the bytes of a 16-bit value multiplies it by 256 modulo 0xFFFF and keeps it in `1 … 0xFFFF` -/
theorem swap_mod (r : Nat) (h1 : 1 ≤ r) (h2 : r ≤ 65535) :
    1 ≤ r / 256 + r % 256 * 256 ∧ r / 256 + r % 256 * 256 ≤ 65535 ∧
      (r / 256 + r % 256 * 256) % 65535 = (256 * r) % 65535 := by
  refine ⟨?_, ?_, ?_⟩ <;> omega

theorem swap_compl (r : Nat) (h2 : r ≤ 65535) :
    (65535 - r) / 256 + (65535 - r) % 256 * 256 = 65535 - (r / 256 + r % 256 * 256) := by omega

/-- the arithmetic core: two folding steps, complement, byte swap — for a little-endian sum `L < 2^32` that is
    congruent to 256 × the big-endian sum `B` -/
theorem fold_swap (L B : Nat) (hL : L < 4294967296) (hmod : L % 65535 = (256 * B) % 65535) (hz : L = 0 ↔ B = 0) :
    (let s := L / 65536 + L % 65536
     let s := s + s / 65536
     let c := 65535 - s % 65536
     c / 256 + c % 256 * 256) = 65535 - norm B := by
  unfold norm
  by_cases hB : B = 0
  · have : L = 0 := hz.mpr hB
    subst this; subst hB; rfl
  · have hL0 : L ≠ 0 := fun h => hB (hz.mp h)
    rw [if_neg hB]
    obtain ⟨r, hr, r1, r2, rm⟩ := two_folds L hL hL0
    simp only [hr]
    rw [swap_compl r r2]
    obtain ⟨s1, s2, sm⟩ := swap_mod r r1 r2
    generalize r / 256 + r % 256 * 256 = sw at *
    omega

theorem checksum_eq (b : Bytes) (h : b.length ≤ 131070) : OutBytes.checksum b = 65535 - norm (S b) := by
  have hpad : (if b.length % 2 = 1 then b ++ [0] else b) = pad b := by
    unfold pad
    by_cases hb : b.length % 2 = 1
    · rw [if_pos hb, if_pos (by omega)]
    · rw [if_neg hb, if_neg (by omega)]
  have hev := pad_length_even b
  have hlen : (pad b).length ≤ 131072 := by
    unfold pad; split
    · simp only [List.length_append, List.length_cons, List.length_nil]; omega
    · omega
  have hle := leWordSum_le (pad b) hev
  unfold OutBytes.checksum
  rw [hpad]
  exact fold_swap (leWordSum (pad b)) (S b) (by omega) (leWordSum_mod _ hev) (leWordSum_pos_iff _ hev)

/-! ### closed form of `serializeFrame` -/

/-- the pseudo-header bytes scapy sums (closed form of `pseudo`) -/
def phBytes (v6 : Bool) (src dst : Bytes) (proto len : Nat) : Bytes :=
  if v6 then src ++ dst ++ Bytes.ofNatBE 4 len ++ [0, 0, 0] ++ [UInt8.ofNat proto]
  else src ++ dst ++ Bytes.ofNatBE 2 proto ++ Bytes.ofNatBE 2 len

/-- length of the transport segment -/
def l4Len (f : Frame) : Nat :=
  match f.l4 with
  | .tcp .. => 20 + f.payload.length
  | .udp => 8 + f.payload.length

/-- every fixed-width field holds its value: exactly when scapy serialises the frame -/
def Fits (f : Frame) : Prop :=
  f.src.port < 65536 ∧ f.dst.port < 65536 ∧ f.l4.fieldsFit = true ∧
    (if f.ipv6 then l4Len f else 20 + l4Len f) < 65536

instance (f : Frame) : Decidable (Fits f) := by unfold Fits; infer_instance

/-- the transport checksum scapy computes -/
def l4Ck (f : Frame) : Nat :=
  match f.l4 with
  | .tcp fl s a =>
    OutBytes.checksum (phBytes f.ipv6 f.src.ip f.dst.ip 6 (20 + f.payload.length) ++
      (tcpHeader f.src.port f.dst.port fl s a 0 ++ f.payload))
  | .udp =>
    OutBytes.checksum (phBytes f.ipv6 f.src.ip f.dst.ip 17 (8 + f.payload.length) ++
      (udpHeader f.src.port f.dst.port (8 + f.payload.length) 0 ++ f.payload))

def segBytes (f : Frame) : Bytes :=
  match f.l4 with
  | .tcp fl s a => tcpHeader f.src.port f.dst.port fl s a (l4Ck f) ++ f.payload
  | .udp => udpHeader f.src.port f.dst.port (8 + f.payload.length) (if l4Ck f = 0 then 0xFFFF else l4Ck f) ++ f.payload

def ipBytes (f : Frame) : Bytes :=
  if f.ipv6 then ipv6Header f.src.ip f.dst.ip f.l4.proto (segBytes f).length ++ segBytes f
  else ipv4Header f.src.ip f.dst.ip f.l4.proto (20 + (segBytes f).length)
    (OutBytes.checksum (ipv4Header f.src.ip f.dst.ip f.l4.proto (20 + (segBytes f).length) 0)) ++ segBytes f

def frameBytes (f : Frame) : Bytes :=
  f.dstMac ++ f.srcMac ++ (if f.ipv6 then [0x86, 0xDD] else [0x08, 0x00]) ++ ipBytes f

theorem ofNatBE_length (w n : Nat) : (Bytes.ofNatBE w n).length = w := by
  induction w generalizing n with
  | zero => rfl
  | succ w ih => simp [Bytes.ofNatBE, ih]

theorem tcpHeader_length (sp dp fl s a ck : Nat) : (tcpHeader sp dp fl s a ck).length = 20 := by
  simp [tcpHeader, ofNatBE_length]

theorem udpHeader_length (sp dp l ck : Nat) : (udpHeader sp dp l ck).length = 8 := by
  simp [udpHeader, ofNatBE_length]

theorem segBytes_length (f : Frame) : (segBytes f).length = l4Len f := by
  unfold segBytes l4Len
  cases f.l4 <;> simp [tcpHeader_length, udpHeader_length]

theorem pseudo_eq (v6 : Bool) (src dst : Bytes) (proto len : Nat) (h : len < 65536) :
    pseudo v6 src dst proto len = .ok (phBytes v6 src dst proto len) := by
  unfold pseudo phBytes packH
  cases v6
  · simp [h]
  · have : len < 4294967296 := by omega
    simp [this]

theorem pseudo_err (v6 : Bool) (src dst : Bytes) (proto len : Nat) (h : ¬ len < 65536) (hv : v6 = false) :
    ∃ e, pseudo v6 src dst proto len = .error e := by
  subst hv
  simp [pseudo, packH, h]

theorem l4Checksum_eq (v6 : Bool) (src dst : Bytes) (proto : Nat) (p : Bytes) (h : p.length < 65536) :
    l4Checksum v6 src dst proto p = .ok (OutBytes.checksum (phBytes v6 src dst proto p.length ++ p)) := by
  unfold l4Checksum; rw [pseudo_eq _ _ _ _ _ h]

theorem l4Segment_eq (f : Frame) (h : l4Len f < 65536) : l4Segment f = .ok (segBytes f) := by
  unfold l4Segment segBytes l4Ck
  unfold l4Len at h
  cases hl : f.l4 with
  | tcp fl s a =>
    rw [hl] at h
    simp only at h ⊢
    unfold tcpSegment
    rw [l4Checksum_eq _ _ _ _ _ (by simp only [List.length_append, tcpHeader_length]; omega)]
    simp only [List.length_append, tcpHeader_length]
  | udp =>
    rw [hl] at h
    simp only at h ⊢
    unfold udpSegment packH
    rw [if_pos h]
    simp only
    rw [l4Checksum_eq _ _ _ _ _ (by simp only [List.length_append, udpHeader_length]; omega)]
    simp only [List.length_append, udpHeader_length]

/-- whatever `l4Segment` returns has the header in front of the payload -/
theorem l4Segment_shape (f : Frame) :
    (∃ e, l4Segment f = .error e) ∨ (∃ seg, l4Segment f = .ok seg ∧ seg.length = l4Len f) := by
  unfold l4Segment l4Len
  cases f.l4 with
  | tcp fl s a =>
    simp only
    unfold tcpSegment
    cases l4Checksum f.ipv6 f.src.ip f.dst.ip 6 (tcpHeader f.src.port f.dst.port fl s a 0 ++ f.payload) with
    | error e => exact .inl ⟨e, rfl⟩
    | ok ck => exact .inr ⟨_, rfl, by simp only [List.length_append, tcpHeader_length]⟩
  | udp =>
    simp only
    unfold udpSegment
    cases packH (8 + f.payload.length) with
    | error e => exact .inl ⟨e, rfl⟩
    | ok _ =>
      simp only
      cases l4Checksum f.ipv6 f.src.ip f.dst.ip 17 (udpHeader f.src.port f.dst.port (8 + f.payload.length) 0 ++ f.payload) with
      | error e => exact .inl ⟨e, rfl⟩
      | ok ck => exact .inr ⟨_, rfl, by simp only [List.length_append, udpHeader_length]⟩

/-- `serializeFrame` succeeds exactly on the frames whose fields fit, with the closed form as result -/
theorem serialize_cases (f : Frame) :
    (Fits f ∧ serializeFrame f = .ok (frameBytes f)) ∨ (¬ Fits f ∧ ∃ e, serializeFrame f = .error e) := by
  unfold serializeFrame
  by_cases hp' : ¬ (f.src.port < 65536 ∧ f.dst.port < 65536 ∧ f.l4.fieldsFit = true)
  · exact .inr ⟨fun h => hp' ⟨h.1, h.2.1, h.2.2.1⟩, .value, by rw [if_pos hp']⟩
  rw [if_neg hp']
  have hp := Classical.not_not.mp hp'
  by_cases hl : (if f.ipv6 then l4Len f else 20 + l4Len f) < 65536
  · refine .inl ⟨⟨hp.1, hp.2.1, hp.2.2, hl⟩, ?_⟩
    have hl4 : l4Len f < 65536 := by split at hl <;> omega
    rw [l4Segment_eq f hl4]
    simp only
    unfold frameBytes ipBytes OutBytes.ipv6 OutBytes.ipv4 packH
    rw [segBytes_length]
    cases hv : f.ipv6 with
    | false =>
      rw [hv] at hl
      simp only [Bool.false_eq_true, if_false] at hl ⊢
      rw [if_pos hl]
    | true =>
      rw [hv] at hl
      simp only [if_true] at hl ⊢
      rw [if_pos hl]
  · refine .inr ⟨fun h => hl h.2.2.2, ?_⟩
    rcases l4Segment_shape f with ⟨e, he⟩ | ⟨seg, hs, hlen⟩
    · exact ⟨e, by rw [he]⟩
    · rw [hs]
      simp only
      unfold OutBytes.ipv6 OutBytes.ipv4 packH
      rw [hlen]
      cases hv : f.ipv6 with
      | false =>
        rw [hv] at hl
        simp only [Bool.false_eq_true, if_false] at hl ⊢
        rw [if_neg hl]
        exact ⟨_, rfl⟩
      | true =>
        rw [hv] at hl
        simp only [if_true] at hl ⊢
        rw [if_neg hl]
        exact ⟨_, rfl⟩

theorem serialize_ok {f : Frame} {b : Bytes} (h : serializeFrame f = .ok b) : Fits f ∧ b = frameBytes f := by
  rcases serialize_cases f with ⟨hf, he⟩ | ⟨_, e, he⟩
  · rw [he] at h; exact ⟨hf, (Except.ok.inj h).symm⟩
  · rw [he] at h; cases h

/-! ### checksums of the serialised layers -/

theorem norm_add_compl (s : Nat) (h : 0 < s) : norm (s + (65535 - norm s)) = 65535 := by
  unfold norm
  rw [if_neg (by omega), if_neg (by omega)]
  omega

theorem wordSum_ofNatBE2 (n : Nat) (h : n < 65536) : wordSum (Bytes.ofNatBE 2 n) = n := by
  rw [ofNatBE_two, wordSum_two]
  simp only [UInt8.toNat_ofNat']
  omega

/-- the pseudo-header scapy sums has even length and sums to addresses + protocol + length -/
theorem phBytes_sum (v6 : Bool) (src dst : Bytes) (proto n : Nat) (hs : src.length % 2 = 0) (hd : dst.length % 2 = 0)
    (hp : proto < 256) (hn : n < (if v6 then 4294967296 else 65536)) :
    (phBytes v6 src dst proto n).length % 2 = 0 ∧
      wordSum (phBytes v6 src dst proto n) = wordSum src + wordSum dst + proto + lenPart v6 n := by
  cases v6 with
  | false =>
    simp only [Bool.false_eq_true, if_false] at hn
    unfold phBytes
    simp only [Bool.false_eq_true, if_false]
    constructor
    · simp only [ofNatBE_length, List.length_append]; omega
    · rw [List.append_assoc, List.append_assoc, wordSum_append _ _ hs, wordSum_append _ _ hd,
        wordSum_append _ _ (by simp [ofNatBE_length]), wordSum_ofNatBE2 _ hn, wordSum_ofNatBE2 _ (by omega)]
      simp only [lenPart, Bool.false_eq_true, if_false]
      omega
  | true =>
    simp only [if_true] at hn
    unfold phBytes
    simp only [if_true]
    constructor
    · simp only [ofNatBE_length, List.length_append, List.length_cons, List.length_nil]; omega
    · rw [List.append_assoc, List.append_assoc, List.append_assoc, wordSum_append _ _ hs, wordSum_append _ _ hd]
      simp only [Bytes.ofNatBE, List.nil_append, List.cons_append, wordSum, UInt8.toNat_ofNat', lenPart,
        if_true, UInt8.toNat_zero]
      omega

/-- what scapy sums for the transport checksum is the base sum of the C11 lemmas -/
theorem S_ph_zeroField (k : Checksum.L4) (v6 : Bool) (src dst seg : Bytes) (hd : Dissected k v6 src dst seg) :
    S (phBytes v6 src dst k.num seg.length ++ zeroField k seg) = baseSum k v6 src dst seg := by
  obtain ⟨hev, hsum⟩ := phBytes_sum v6 src dst k.num seg.length hd.src_even hd.dst_even (num_pos k).2 hd.len
  rw [S_append _ _ hev, hsum]
  have hpre : (seg.take k.off).length % 2 = 0 := by
    have := hd.field; have := off_even k
    simp only [List.length_take]; omega
  have : S (zeroField k seg) = wordSum (seg.take k.off) + S (seg.drop (k.off + 2)) := by
    unfold zeroField
    rw [List.append_assoc, S_append _ _ hpre, S_append [0, 0] _ (by simp)]
    simp [wordSum]
  rw [this]
  simp only [baseSum, Nat.add_assoc]

theorem ipv4Header_split (src dst : Bytes) (proto len ck : Nat) :
    ipv4Header src dst proto len ck =
      ([0x45, 0] ++ Bytes.ofNatBE 2 len ++ [0, 1, 0, 0, 64, UInt8.ofNat proto]) ++ (Bytes.ofNatBE 2 ck ++ (src ++ dst)) := by
  simp [ipv4Header, List.append_assoc]

theorem ipv4Header_length (src dst : Bytes) (proto len ck : Nat) (hs : src.length = 4) (hd : dst.length = 4) :
    (ipv4Header src dst proto len ck).length = 20 := by
  simp [ipv4Header, ofNatBE_length, hs, hd]

theorem ipv4Header_sum (src dst : Bytes) (proto len ck : Nat) (hck : ck < 65536) :
    S (ipv4Header src dst proto len ck) = S (ipv4Header src dst proto len 0) + ck ∧
      0 < S (ipv4Header src dst proto len 0) := by
  have hpre : ([0x45, 0] ++ Bytes.ofNatBE 2 len ++ [0, 1, 0, 0, 64, UInt8.ofNat proto] : Bytes).length % 2 = 0 := by
    simp [ofNatBE_length]
  have h2 : ∀ c, (Bytes.ofNatBE 2 c).length % 2 = 0 := fun c => by simp [ofNatBE_length]
  rw [ipv4Header_split, ipv4Header_split, S_append _ _ hpre, S_append _ _ hpre, S_append _ _ (h2 ck),
    S_append _ _ (h2 0), wordSum_ofNatBE2 _ hck, wordSum_ofNatBE2 0 (by omega)]
  constructor
  · omega
  · have : 0 < wordSum ([0x45, 0] ++ Bytes.ofNatBE 2 len ++ [0, 1, 0, 0, 64, UInt8.ofNat proto] : Bytes) := by
      simp [wordSum, Bytes.ofNatBE]
      omega
    omega

/-- the IPv4 header scapy writes verifies (RFC 1071: the one's-complement sum over the header is all ones) -/
theorem ipv4Header_valid (src dst : Bytes) (proto len : Nat) (hs : src.length = 4) (hd : dst.length = 4) :
    ocSum (words (ipv4Header src dst proto len (OutBytes.checksum (ipv4Header src dst proto len 0)))) = 0xFFFF := by
  have hck := checksum_eq (ipv4Header src dst proto len 0) (by rw [ipv4Header_length _ _ _ _ _ hs hd]; omega)
  have hlt : OutBytes.checksum (ipv4Header src dst proto len 0) < 65536 := by omega
  obtain ⟨hsum, hpos⟩ := ipv4Header_sum src dst proto len _ hlt
  rw [ocSum_eq_norm _ (words_le _), words_sum, hsum, hck]
  exact norm_add_compl _ hpos

theorem stored_tcp (sp dp fl s a ck : Nat) (pay : Bytes) (h : ck < 65536) :
    storedChecksum .tcp (tcpHeader sp dp fl s a ck ++ pay) = ck := by
  simp [storedChecksum, Transport.checksumWord, tcpHeader, Bytes.ofNatBE, words]
  omega

theorem stored_udp (sp dp l ck : Nat) (pay : Bytes) (h : ck < 65536) :
    storedChecksum .udp (udpHeader sp dp l ck ++ pay) = ck := by
  simp [storedChecksum, Transport.checksumWord, udpHeader, Bytes.ofNatBE, words]
  omega

theorem zeroField_tcp (sp dp fl s a ck : Nat) (pay : Bytes) :
    zeroField .tcp (tcpHeader sp dp fl s a ck ++ pay) = tcpHeader sp dp fl s a 0 ++ pay := by
  simp [zeroField, L4.off, tcpHeader, Bytes.ofNatBE]

theorem zeroField_udp (sp dp l ck : Nat) (pay : Bytes) :
    zeroField .udp (udpHeader sp dp l ck ++ pay) = udpHeader sp dp l 0 ++ pay := by
  simp [zeroField, L4.off, udpHeader, Bytes.ofNatBE]


/-- the model transport of a frame, in the terms of the C11 model -/
def kOf : OutBytes.L4 → Checksum.L4
  | .tcp .. => .tcp
  | .udp => .udp

theorem dissected (f : Frame) (hwf : f.WF) (hfit : Fits f) :
    Dissected (kOf f.l4) f.ipv6 f.src.ip f.dst.ip (segBytes f) := by
  have hl := segBytes_length f
  obtain ⟨_, _, _, hlen⟩ := hfit
  refine ⟨?_, ?_, ?_, ?_⟩
  · rw [hwf.src]; split <;> rfl
  · rw [hwf.dst]; split <;> rfl
  · rw [hl]; unfold l4Len kOf; cases f.l4 <;> simp [Checksum.L4.off] <;> omega
  · rw [hl]; split at hlen <;> simp_all <;> omega

theorem phBytes_length (v6 : Bool) (src dst : Bytes) (proto n : Nat)
    (hs : src.length = (if v6 then 16 else 4)) (hd : dst.length = (if v6 then 16 else 4)) :
    (phBytes v6 src dst proto n).length ≤ 40 := by
  unfold phBytes
  cases v6 <;> simp_all [ofNatBE_length]

theorem verdict_of_sum (k : Checksum.L4) (v6 : Bool) (src dst seg : Bytes) (st : Nat) (hst : st ≠ 0)
    (hstored : storedChecksum (toSpec k) seg = st)
    (hoc : ocSum (pseudoWords v6 src dst (toSpec k) seg.length ++ words seg) = 65535) :
    verdict (toSpec k) v6 src dst seg = .valid := by
  unfold verdict
  rw [hstored, if_neg (by intro h; exact hst h.2), if_pos hoc]

/-- the transport checksum of a serialised frame verifies — for the receiver specification and for the tool's own `-c` -/
theorem l4_valid (f : Frame) (hwf : f.WF) (hfit : Fits f) :
    verdict (toSpec (kOf f.l4)) f.ipv6 f.src.ip f.dst.ip (segBytes f) = .valid ∧
      check (kOf f.l4) f.ipv6 f.src.ip f.dst.ip (kOf f.l4).num (segBytes f) = .ok true := by
  have hd := dissected f hwf hfit
  have hlen := segBytes_length f
  have hfl : l4Len f < 65536 := by
    obtain ⟨_, _, _, h⟩ := hfit
    split at h <;> omega
  cases hl : f.l4 with
  | tcp fl s a =>
    rw [hl] at hd
    have hk : kOf (.tcp fl s a) = .tcp := rfl
    rw [hk] at hd ⊢
    have hseg : segBytes f = tcpHeader f.src.port f.dst.port fl s a (l4Ck f) ++ f.payload := by
      unfold segBytes; rw [hl]
    have hl4 : l4Len f = 20 + f.payload.length := by unfold l4Len; rw [hl]
    obtain ⟨st, hstle, hstored, hoc, hchk⟩ := check_arith _ _ _ _ _ hd
    have hpos := baseSum_pos .tcp f.ipv6 f.src.ip f.dst.ip (segBytes f)
    have hbase := S_ph_zeroField _ _ _ _ _ hd
    have hphl := phBytes_length f.ipv6 f.src.ip f.dst.ip 6 (20 + f.payload.length) hwf.src hwf.dst
    have hck : l4Ck f = 65535 - norm (baseSum .tcp f.ipv6 f.src.ip f.dst.ip (segBytes f)) := by
      rw [← hbase, hseg, zeroField_tcp, ← hseg, hlen, hl4]
      unfold l4Ck; rw [hl]
      simp only
      rw [checksum_eq]
      · rfl
      · simp only [List.length_append, tcpHeader_length]; omega
    have hnle := norm_le (baseSum .tcp f.ipv6 f.src.ip f.dst.ip (segBytes f))
    have hst : st = l4Ck f := by
      rw [← hstored, hseg]; exact stored_tcp _ _ _ _ _ _ _ (by omega)
    generalize baseSum .tcp f.ipv6 f.src.ip f.dst.ip (segBytes f) = base at *
    have hsum : norm (base + st) = 65535 := by rw [hst, hck]; exact norm_add_compl _ hpos
    constructor
    · unfold verdict
      rw [if_neg (by simp [toSpec]), hoc, if_pos hsum]
    · rw [hchk]
      simp only
      rw [← hck, ← hst]
      split <;> simp
  | udp =>
    rw [hl] at hd
    have hk : kOf .udp = .udp := rfl
    rw [hk] at hd ⊢
    have hseg : segBytes f = udpHeader f.src.port f.dst.port (8 + f.payload.length)
        (if l4Ck f = 0 then 0xFFFF else l4Ck f) ++ f.payload := by
      unfold segBytes; rw [hl]
    have hl4 : l4Len f = 8 + f.payload.length := by unfold l4Len; rw [hl]
    obtain ⟨st, hstle, hstored, hoc, hchk⟩ := check_arith _ _ _ _ _ hd
    have hpos := baseSum_pos .udp f.ipv6 f.src.ip f.dst.ip (segBytes f)
    have hbase := S_ph_zeroField _ _ _ _ _ hd
    have hphl := phBytes_length f.ipv6 f.src.ip f.dst.ip 17 (8 + f.payload.length) hwf.src hwf.dst
    have hck : l4Ck f = 65535 - norm (baseSum .udp f.ipv6 f.src.ip f.dst.ip (segBytes f)) := by
      rw [← hbase, hseg, zeroField_udp, ← hseg, hlen, hl4]
      unfold l4Ck; rw [hl]
      simp only
      rw [checksum_eq]
      · rfl
      · simp only [List.length_append, udpHeader_length]; omega
    have hnle := norm_le (baseSum .udp f.ipv6 f.src.ip f.dst.ip (segBytes f))
    have hst : st = if l4Ck f = 0 then 0xFFFF else l4Ck f := by
      rw [← hstored, hseg]; exact stored_udp _ _ _ _ _ (by split <;> omega)
    generalize baseSum .udp f.ipv6 f.src.ip f.dst.ip (segBytes f) = base at *
    generalize l4Ck f = ck at *
    have hnp := norm_pos hpos
    have hsum : norm (base + st) = 65535 := by
      rw [hst]
      split
      · rename_i h0
        have : norm base = 65535 := by omega
        unfold norm at this ⊢
        rw [if_neg (by omega)] at this
        rw [if_neg (by omega)]
        omega
      · rw [hck]; exact norm_add_compl _ hpos
    constructor
    · exact verdict_of_sum .udp _ _ _ _ st (by rw [hst]; split <;> omega) hstored (by rw [hoc, hsum])
    · rw [hchk]
      simp only
      rw [← hck, ← hst]
      simp

/-! ### the independent frame parser on the serialised layers -/
section
open TLX.Spec.FrameParse

theorem parseTcp_header (sp dp fl s a ck : Nat) (pay : Bytes) (hsp : sp < 65536) (hdp : dp < 65536)
    (hs : s < 4294967296) (ha : a < 4294967296) :
    parseTcp (tcpHeader sp dp fl s a ck ++ pay) =
      some ⟨sp, dp, .tcp s a 5 (fl % 512 / 256) (fl % 256) 8192 0 [], pay⟩ := by
  unfold parseTcp
  have hlen : ¬ (tcpHeader sp dp fl s a ck ++ pay).length < 20 := by
    simp only [List.length_append, tcpHeader_length]; omega
  rw [if_neg hlen]
  have hb : fl % 512 / 256 < 2 := by omega
  unfold tcpHeader
  generalize fl % 512 / 256 = hi at *
  have h5 : (80 + hi) % 256 / 16 = 5 := by omega
  simp [Bytes.ofNatBE, u8, u16, u32, Bytes.slice, h5]
  omega

theorem parseUdp_header (sp dp ck : Nat) (pay : Bytes) (hsp : sp < 65536) (hdp : dp < 65536)
    (hl : 8 + pay.length < 65536) :
    parseUdp (udpHeader sp dp (8 + pay.length) ck ++ pay) = some ⟨sp, dp, .udp, pay⟩ := by
  unfold parseUdp
  have hlen : ¬ (udpHeader sp dp (8 + pay.length) ck ++ pay).length < 8 := by
    simp only [List.length_append, udpHeader_length]; omega
  rw [if_neg hlen]
  simp [udpHeader, Bytes.ofNatBE, u8, u16]
  omega

theorem len4 (b : Bytes) (h : b.length = 4) : ∃ a0 a1 a2 a3, b = [a0, a1, a2, a3] := by
  match b, h with
  | [a0, a1, a2, a3], _ => exact ⟨a0, a1, a2, a3, rfl⟩

theorem len6 (b : Bytes) (h : b.length = 6) : ∃ a0 a1 a2 a3 a4 a5, b = [a0, a1, a2, a3, a4, a5] := by
  match b, h with
  | [a0, a1, a2, a3, a4, a5], _ => exact ⟨a0, a1, a2, a3, a4, a5, rfl⟩

theorem len16 (b : Bytes) (h : b.length = 16) :
    ∃ a0 a1 a2 a3 a4 a5 a6 a7 a8 a9 a10 a11 a12 a13 a14 a15,
      b = [a0, a1, a2, a3, a4, a5, a6, a7, a8, a9, a10, a11, a12, a13, a14, a15] := by
  match b, h with
  | [a0, a1, a2, a3, a4, a5, a6, a7, a8, a9, a10, a11, a12, a13, a14, a15], _ =>
    exact ⟨a0, a1, a2, a3, a4, a5, a6, a7, a8, a9, a10, a11, a12, a13, a14, a15, rfl⟩

theorem parseIpv4_header (src dst : Bytes) (proto ck : Nat) (seg : Bytes) (hs : src.length = 4) (hd : dst.length = 4)
    (hp : proto < 256) (hl : 20 + seg.length < 65536) :
    parseIpv4 (ipv4Header src dst proto (20 + seg.length) ck ++ seg) = some ⟨false, src, dst, 64, proto, seg⟩ := by
  obtain ⟨s0, s1, s2, s3, rfl⟩ := len4 src hs
  obtain ⟨d0, d1, d2, d3, rfl⟩ := len4 dst hd
  unfold parseIpv4
  simp [ipv4Header, Bytes.ofNatBE, u8, u16, Bytes.slice]
  omega

theorem parseIpv6_header (src dst : Bytes) (nh : Nat) (seg : Bytes) (hs : src.length = 16) (hd : dst.length = 16)
    (hp : nh < 256) (hl : seg.length < 65536) :
    parseIpv6 (ipv6Header src dst nh seg.length ++ seg) = some ⟨true, src, dst, 64, nh, seg⟩ := by
  obtain ⟨s0, s1, s2, s3, s4, s5, s6, s7, s8, s9, s10, s11, s12, s13, s14, s15, rfl⟩ := len16 src hs
  obtain ⟨d0, d1, d2, d3, d4, d5, d6, d7, d8, d9, d10, d11, d12, d13, d14, d15, rfl⟩ := len16 dst hd
  unfold parseIpv6
  simp [ipv6Header, Bytes.ofNatBE, u8, u16, Bytes.slice]
  omega

/-- what a receiver must read out of the frame serialised for `f` -/
def expected (f : Frame) : Parsed :=
  ⟨f.dstMac, f.srcMac, f.ipv6, f.src.ip, f.dst.ip, 64, f.src.port, f.dst.port,
    (match f.l4 with
     | .tcp fl s a => .tcp s a 5 (fl % 512 / 256) (fl % 256) 8192 0 []
     | .udp => .udp),
    segBytes f, f.payload⟩

theorem parse_ether (dm sm : Bytes) (t0 t1 : UInt8) (ip : Bytes) (hd : dm.length = 6) (hs : sm.length = 6) :
    let fr := dm ++ sm ++ [t0, t1] ++ ip
    ¬ fr.length < 14 ∧ u16 fr 12 = t0.toNat * 256 + t1.toNat ∧ fr.drop 14 = ip ∧ fr.take 6 = dm ∧ fr.slice 6 12 = sm := by
  obtain ⟨a0, a1, a2, a3, a4, a5, rfl⟩ := len6 dm hd
  obtain ⟨b0, b1, b2, b3, b4, b5, rfl⟩ := len6 sm hs
  simp [u16, u8, Bytes.slice]

theorem proto_lt (l : OutBytes.L4) : l.proto < 256 := by cases l <;> simp [OutBytes.L4.proto]

theorem parse_frameBytes (f : Frame) (hwf : f.WF) (hfit : Fits f) : parse (frameBytes f) = some (expected f) := by
  obtain ⟨hsp, hdp, hff, hlen⟩ := hfit
  have hsl := segBytes_length f
  -- the transport layer
  have hl4 : (if f.l4.proto = 6 then parseTcp (segBytes f) else if f.l4.proto = 17 then parseUdp (segBytes f) else none)
      = some ⟨f.src.port, f.dst.port, (expected f).l4, f.payload⟩ := by
    unfold segBytes expected l4Len at *
    cases hl : f.l4 with
    | tcp fl s a =>
      rw [hl] at hff hsl
      simp only [OutBytes.L4.fieldsFit, Bool.and_eq_true, decide_eq_true_eq] at hff
      simp only [OutBytes.L4.proto, if_true]
      exact parseTcp_header _ _ _ _ _ _ _ hsp hdp hff.1 hff.2
    | udp =>
      rw [hl] at hsl hlen
      simp only [OutBytes.L4.proto, if_true, show ¬ (17 = 6) by decide, if_false]
      have : 8 + f.payload.length < 65536 := by
        simp only at hlen; split at hlen <;> omega
      exact parseUdp_header _ _ _ _ hsp hdp this
  unfold parse frameBytes
  cases hv : f.ipv6 with
  | false =>
    have hs := hwf.src; have hd := hwf.dst
    rw [hv] at hs hd hlen
    simp only [Bool.false_eq_true, if_false] at hs hd hlen ⊢
    obtain ⟨h1, h2, h3, h4, h5⟩ := parse_ether f.dstMac f.srcMac 0x08 0x00 (ipBytes f) hwf.dstMac hwf.srcMac
    rw [if_neg h1, h2, h3, h4, h5]
    have hip : parseIpv4 (ipBytes f) = some ⟨false, f.src.ip, f.dst.ip, 64, f.l4.proto, segBytes f⟩ := by
      unfold ipBytes; rw [hv]
      simp only [Bool.false_eq_true, if_false]
      exact parseIpv4_header _ _ _ _ _ hs hd (proto_lt _) (by omega)
    simp only [show (0x08 : UInt8).toNat * 256 + (0x00 : UInt8).toNat = 0x0800 from rfl, if_true, hip, hl4]
    simp [expected, hv]
  | true =>
    have hs := hwf.src; have hd := hwf.dst
    rw [hv] at hs hd hlen
    simp only [if_true] at hs hd hlen ⊢
    obtain ⟨h1, h2, h3, h4, h5⟩ := parse_ether f.dstMac f.srcMac 0x86 0xDD (ipBytes f) hwf.dstMac hwf.srcMac
    rw [if_neg h1, h2, h3, h4, h5]
    have hip : parseIpv6 (ipBytes f) = some ⟨true, f.src.ip, f.dst.ip, 64, f.l4.proto, segBytes f⟩ := by
      unfold ipBytes; rw [hv]
      simp only [if_true]
      exact parseIpv6_header _ _ _ _ hs hd (proto_lt _) (by omega)
    simp only [show (0x86 : UInt8).toNat * 256 + (0xDD : UInt8).toNat = 0x86DD from rfl,
      show ¬ (0x86DD = 0x0800) by decide, if_false, if_true, hip, hl4]
    simp [expected, hv]

end

section
open TLX.Spec.Containers TLX.Lemmas.Container
open TLX.Container (Endian)

/-! ### the dpkt writer produces the draft's encoding -/

/-- the choices `dpkt.pcapng.Writer(file, snaplen=Gen.writerSnaplen)` makes among the variants of the pcapng draft: little
    endian, version 1.0, section length unspecified, no options anywhere, one Ethernet interface with snaplen
    as announced and the default microsecond clock, one EPB per packet on interface 0 with original length = captured length -/
def dpktVariant : NgVariant := { hdr := { e := .le, snaplen := Gen.writerSnaplen, idbEoo := false } }

/-- the event a written packet is -/
def evOf (p : Bytes × Nat) : Ev := .pkt p.2 p.1

/-- a packet `writepkt` can write: block length and time stamp fit their 32-bit fields -/
def PktFits (p : Bytes × Nat) : Prop := 32 + OutBytes.align4 p.1.length < 4294967296 ∧ p.2 / 4294967296 < 4294967296

instance (p : Bytes × Nat) : Decidable (PktFits p) := by unfold PktFits; infer_instance

theorem leN_eq (w n : Nat) : leN w n = leBytes w n := by
  induction w generalizing n with
  | zero => rfl
  | succ w ih => simp [leN, leBytes, ih]

theorem align4_eq' (n : Nat) : OutBytes.align4 n = Container.align4 n := rfl

theorem pad_eq (b : Bytes) : b ++ List.replicate (OutBytes.align4 b.length - b.length) 0 = padded b := by
  unfold padded padding
  rw [align4_eq', align4_eq]
  congr 2
  omega

theorem shb_eq : shb = dpktVariant.hdr.shb.encode .le := by decide +kernel
theorem idb_eq : idb Gen.writerSnaplen = dpktVariant.hdr.idb.encode .le := by decide +kernel

theorem epb_eq (p : Bytes × Nat) (h : PktFits p) :
    epb p.1 p.2 = .ok ((Ev.block {} (evOf p)).encode .le) := by
  unfold epb
  dsimp only
  have h' : 32 + OutBytes.align4 p.1.length < 4294967296 ∧ p.2 / 4294967296 < 4294967296 := h
  rw [if_pos h']
  have hlen : (u32 .le 0 ++ (u32 .le (p.2 / 2 ^ 32) ++ (u32 .le (p.2 % 2 ^ 32) ++ (u32 .le p.1.length ++
      (u32 .le (p.1.length + 0) ++ (padded p.1 ++ encOpts .le {})))))).length % 4 = 0 := by
    simp only [List.length_append, u32, enc, leBytes_length, padded_length, encOpts_length]
    have := align4_mod p.1.length
    simp [Opts.encLen, optListLen]
    omega
  simp only [evOf, Ev.block, Bool.false_eq_true, if_false, Block.encode, encBlock]
  rw [padded_of_mod _ hlen]
  simp only [List.length_append, u32, enc, leBytes_length, padded_length, encOpts_length]
  simp only [leN_eq, align4_eq', encOpts, encOptList, Bool.false_eq_true, if_false, List.append_nil,
    Nat.add_zero, List.append_assoc, Opts.encLen, optListLen]
  have e1 : (2 : Nat) ^ 32 = 4294967296 := by decide
  have e2 : 12 + (4 + (4 + (4 + (4 + (4 + Container.align4 p.1.length))))) = 32 + Container.align4 p.1.length := by omega
  rw [e1, e2, ← pad_eq, align4_eq']
  simp only [List.append_assoc]

theorem epb_err (p : Bytes × Nat) (h : ¬ PktFits p) : epb p.1 p.2 = .error .struct := by
  unfold epb
  dsimp only
  have h' : ¬ (32 + OutBytes.align4 p.1.length < 4294967296 ∧ p.2 / 4294967296 < 4294967296) := h
  rw [if_neg h']

theorem weave_default (i : Nat) (evs : List Ev) : weave (fun _ => {}) i evs = evs.map (Ev.block {}) := by
  induction evs generalizing i with
  | nil => rfl
  | cons ev evs ih => simp [weave, ih]

theorem epbs_eq (pkts : List (Bytes × Nat)) (h : ∀ p ∈ pkts, PktFits p) :
    epbs pkts = .ok (encBlocks .le ((pkts.map evOf).map (Ev.block {}))) := by
  induction pkts with
  | nil => rfl
  | cons p ps ih =>
    obtain ⟨b, us⟩ := p
    have h1 := epb_eq (b, us) (h _ (by simp))
    have h2 := ih (fun q hq => h q (by simp [hq]))
    simp only at h1
    simp only [epbs, h1, h2, List.map_cons, encBlocks]

theorem epbs_err (pkts : List (Bytes × Nat)) (h : ¬ ∀ p ∈ pkts, PktFits p) : epbs pkts = .error .struct := by
  induction pkts with
  | nil => exact absurd (by simp) h
  | cons p ps ih =>
    obtain ⟨b, us⟩ := p
    by_cases h1 : PktFits (b, us)
    · have h2 : ¬ ∀ q ∈ ps, PktFits q := fun hq => h (by
        intro q hq'
        simp only [List.mem_cons] at hq'
        rcases hq' with rfl | hq'
        · exact h1
        · exact hq q hq')
      have e1 := epb_eq (b, us) h1
      simp only at e1
      simp only [epbs, e1, ih h2]
    · have e1 := epb_err (b, us) h1
      simp only at e1
      simp only [epbs, e1]

/-- the file the writer leaves behind IS the pcapng draft's encoding of the packets as events, in the writer's variant -/
theorem pcapng_eq (pkts : List (Bytes × Nat)) (h : ∀ p ∈ pkts, PktFits p) :
    pcapng pkts = .ok (encode (.pcapng dpktVariant) (pkts.map evOf)) := by
  unfold pcapng
  rw [epbs_eq pkts h]
  simp only [encode, encodeNg, NgVariant.blocks, shb_eq, idb_eq]
  simp [dpktVariant, encBlocks, weave_default]

theorem pcapng_err (pkts : List (Bytes × Nat)) (h : ¬ ∀ p ∈ pkts, PktFits p) : pcapng pkts = .error .struct := by
  unfold pcapng; rw [epbs_err pkts h]

end

section
open TLX.Spec.Containers TLX.Lemmas.Container TLX.Spec.PcapngWalk
open TLX.Container (Endian fld rdNat)

/-! ### the block walk over encoded blocks -/

theorem walk_block (fuel ty : Nat) (body R : Bytes) (ht : ty < 2 ^ 32) (hl : blkLen body < 2 ^ 32) :
    walkFuel (fuel + 1) (encBlock .le ty body ++ R) =
      (walkFuel fuel R).map fun bs => (ty, padded body) :: bs := by
  have hlen := encBlock_length .le ty body
  have hbl : 12 ≤ blkLen body ∧ blkLen body % 4 = 0 := by
    unfold blkLen; have := align4_mod body.length; omega
  have h1 : (encBlock .le ty body ++ R).isEmpty = false := by
    cases hq : encBlock Endian.le ty body ++ R with
    | nil => have := congrArg List.length hq; simp [hlen] at this; omega
    | cons _ _ => rfl
  have h2 : ¬ (encBlock .le ty body ++ R).length < 12 := by simp only [List.length_append, hlen]; omega
  have h3 := encBlock_ty .le ty body R ht
  have h4 := encBlock_len .le ty body R hl
  have h5 : ¬ (blkLen body < 12 ∨ blkLen body % 4 ≠ 0 ∨ (encBlock .le ty body ++ R).length < blkLen body) := by
    simp only [List.length_append, hlen]; omega
  have h6 : fld .le (encBlock .le ty body ++ R) (blkLen body - 4) 4 = blkLen body := by
    rw [fld_prefix _ _ _ _ _ (by rw [hlen]; omega), fld_eq]
    have := encBlock_trailer .le ty body
    rw [hlen] at this
    rw [this, List.take_of_length_le (by simp)]
    exact rd_u32 _ _ hl
  have h7 : (encBlock .le ty body ++ R).drop (blkLen body) = R := by
    rw [← hlen]; exact List.drop_left
  have h8 : (encBlock .le ty body ++ R).slice 8 (blkLen body - 4) = padded body := by
    unfold Bytes.slice
    rw [List.drop_append_of_le_length (by rw [hlen]; omega), encBlock_drop8, List.append_assoc,
      List.take_left' (by rw [padded_length]; unfold blkLen; omega)]
  rw [walkFuel]
  simp only [h1, Bool.false_eq_true, if_false, h2, h3, h4, h5, h6, h7, h8, ne_eq, not_true_eq_false]
  cases walkFuel fuel R <;> rfl

theorem walkFuel_blocks (bs : List Block) (h : ∀ b ∈ bs, b.WF) (fuel : Nat) (hf : bs.length ≤ fuel) :
    walkFuel fuel (encBlocks .le bs) = some (bs.map fun b => (bTy b, padded (bBody .le b))) := by
  induction bs generalizing fuel with
  | nil => cases fuel <;> rfl
  | cons b bs ih =>
    obtain ⟨fuel, rfl⟩ : ∃ k, fuel = k + 1 := ⟨fuel - 1, by simp at hf; omega⟩
    have hb := h b (by simp)
    have ⟨hl, hty⟩ := wf_blkLen .le b hb
    rw [encBlocks, encode_eq, walk_block fuel _ _ _ hty hl, ih (fun x hx => h x (by simp [hx])) fuel (by simp at hf; omega)]
    rfl

theorem walk_blocks (bs : List Block) (h : ∀ b ∈ bs, b.WF) :
    walk (encBlocks .le bs) = some (bs.map fun b => (bTy b, padded (bBody .le b))) :=
  walkFuel_blocks bs h _ (encBlocks_length_ge .le bs)

end

section
open TLX.Spec.Containers TLX.Lemmas.Container TLX.Spec.PcapngWalk
open TLX.Container (Endian fld rdNat)

theorem epbBlock_wf (p : Bytes × Nat) (h : PktFits p) : (Ev.block {} (evOf p)).WF := by
  obtain ⟨h1, h2⟩ := h
  have := align4_ge p.1.length
  rw [align4_eq'] at h1
  simp only [evOf, Ev.block, Bool.false_eq_true, if_false, Block.WF, padded_length]
  refine ⟨by decide, ?_, ?_, ?_, ?_⟩
  · have : p.2 < 4294967296 * 4294967296 := by
      have := Nat.div_add_mod p.2 4294967296
      have := Nat.mod_lt p.2 (show 0 < 4294967296 by decide)
      omega
    have e : (2 : Nat) ^ 64 = 4294967296 * 4294967296 := by decide
    rw [e]; exact this
  · have e : (2 : Nat) ^ 32 = 4294967296 := by decide
    rw [e]; omega
  · intro x hx; cases hx
  · have e : (2 : Nat) ^ 32 = 4294967296 := by decide
    rw [e]; simp [Opts.encLen, optListLen]; omega

theorem dpktVariant_wf (pkts : List (Bytes × Nat)) (h : ∀ p ∈ pkts, PktFits p) :
    dpktVariant.WF (pkts.map evOf) := by
  unfold NgVariant.WF
  refine ⟨by decide +kernel, ?_, ?_, ?_, ?_, ?_⟩
  · intro b hb; cases hb
  · intro b hb; cases hb
  · intro b hb; cases hb
  · intro i b hb; cases hb
  · intro b hb
    rw [show dpktVariant.deco = fun _ => {} from rfl, weave_default] at hb
    simp only [List.mem_map] at hb
    obtain ⟨ev, ⟨p, hp, rfl⟩, rfl⟩ := hb
    exact epbBlock_wf p (h p hp)

/-! ### the write loop -/

theorem fileBody_eq (fs : List Frame) (h : ∀ f ∈ fs, Fits f ∧ PktFits (frameBytes f, f.ts)) :
    fileBody fs = epbs (fs.map fun f => (frameBytes f, f.ts)) := by
  induction fs with
  | nil => rfl
  | cons f fs ih =>
    have hf := h f (by simp)
    rcases serialize_cases f with ⟨_, he⟩ | ⟨hn, _⟩
    · have e1 := epb_eq (frameBytes f, f.ts) hf.2
      simp only at e1
      simp only [fileBody, he, List.map_cons, epbs, e1, ih (fun g hg => h g (by simp [hg]))]
    · exact absurd hf.1 hn

theorem fileBody_ok (fs : List Frame) (body : Bytes) (h : fileBody fs = .ok body) :
    ∀ f ∈ fs, Fits f ∧ PktFits (frameBytes f, f.ts) := by
  induction fs generalizing body with
  | nil => intro f hf; cases hf
  | cons f fs ih =>
    rcases serialize_cases f with ⟨hfit, he⟩ | ⟨_, e, he⟩
    · by_cases hp : PktFits (frameBytes f, f.ts)
      · have e1 := epb_eq (frameBytes f, f.ts) hp
        simp only at e1
        simp only [fileBody, he, e1] at h
        cases hr : fileBody fs with
        | error er => rw [hr] at h; cases h
        | ok r =>
          intro g hg
          simp only [List.mem_cons] at hg
          rcases hg with rfl | hg
          · exact ⟨hfit, hp⟩
          · exact ih r hr g hg
      · have e1 := epb_err (frameBytes f, f.ts) hp
        simp only at e1
        simp only [fileBody, he, e1] at h
        cases h
    · simp only [fileBody, he] at h
      cases h

theorem fileOfFrames_eq (fs : List Frame) (h : ∀ f ∈ fs, Fits f ∧ PktFits (frameBytes f, f.ts)) :
    fileOfFrames fs = pcapng (fs.map fun f => (frameBytes f, f.ts)) := by
  unfold fileOfFrames pcapng; rw [fileBody_eq fs h]

theorem fileOfFrames_ok (fs : List Frame) (file : Bytes) (h : fileOfFrames fs = .ok file) :
    ∀ f ∈ fs, Fits f ∧ PktFits (frameBytes f, f.ts) := by
  unfold fileOfFrames at h
  cases hb : fileBody fs with
  | error e => rw [hb] at h; cases h
  | ok body => exact fileBody_ok fs body hb

theorem fileOfFrames_err (fs : List Frame) (h : ¬ ∀ f ∈ fs, Fits f ∧ PktFits (frameBytes f, f.ts)) :
    ∃ e, fileOfFrames fs = .error e := by
  cases hf : fileOfFrames fs with
  | error e => exact ⟨e, rfl⟩
  | ok file => exact absurd (fileOfFrames_ok fs file hf) h

theorem frameBytes_length (f : Frame) (hwf : f.WF) :
    (frameBytes f).length = 14 + (if f.ipv6 then 40 else 20) + l4Len f := by
  unfold frameBytes ipBytes
  have := segBytes_length f
  have hs := hwf.src; have hd := hwf.dst
  cases hv : f.ipv6 <;> rw [hv] at hs hd <;>
    simp_all [ipv4Header, ipv6Header, ofNatBE_length, hwf.srcMac, hwf.dstMac] <;> omega

/-- a frame scapy can serialise always fits an EPB; only the time stamp can be too large -/
theorem pktFits_of_fits (f : Frame) (hwf : f.WF) (hfit : Fits f) (hts : f.ts < 2 ^ 64) : PktFits (frameBytes f, f.ts) := by
  obtain ⟨_, _, _, hl⟩ := hfit
  have hlen := frameBytes_length f hwf
  have e : (2 : Nat) ^ 64 = 4294967296 * 4294967296 := by decide
  rw [e] at hts
  unfold PktFits OutBytes.align4
  simp only
  constructor
  · split at hl <;> split <;> simp_all <;> omega
  · exact Nat.div_lt_of_lt_mul hts

end

end TLX.Lemmas.OutBytes
