/-
Helpers for `Props/C01All.lean`.

  A. TLS 1.3 with FRAGMENTED handshake messages, `-a` on or off: `streamF` (what each direction exports), `stepFm`,
     `run_mergeFm` (`Lemmas/Capstone2.stepF`, `run_mergeF` for either value of `exp_meta`; with `-a` a dummy ChangeCipherSpec
     record is exported verbatim, a protected handshake record contributes nothing — its outer type is 23)
  B. the connection capstones FROM THE RELEASE ORDER (`hproj`: the records released for each direction are the transcript's)
     for the cases `Props/C01Capstone2` states with an in-order delivery only: TLS 1.3 fragmented (`-a` off / on), TLS ≤ 1.2
     with `-a`
  C. the capture side: `capSegs` (the data segments of a direction as the reassembler gets them), `WiresDelivered` ⇒
     `DeliveredDisplaced`; `FlightsFirst` (packet order) ⇒ `FirstFlights`
-/
import TLX.Props.C01Full
import TLX.Props.C02File
set_option autoImplicit false
set_option linter.unusedSimpArgs false
set_option linter.unusedVariables false
namespace TLX.Lemmas.C01All
open TLX TLX.Cipher TLX.RecordLayer TLX.Spec.TlsSender TLX.Props.C01 TLX.Lemmas.Pipeline TLX.Spec.TlsConnection
open TLX.Lemmas.Capstone TLX.Lemmas.Capstone2 TLX.Props.C01Pipeline TLX.Spec.TlsFraming TLX.Spec.TlsFragmented13

/-! ### A. fragmented TLS 1.3, either `-a` -/

/-- what one record of a fragmenting TLS 1.3 endpoint contributes to the exported stream of its direction: application data
    as plaintext; with `-a` a dummy ChangeCipherSpec record verbatim; a protected handshake record nothing -/
def outF (m : Bool) (raw : Bytes) : FEv → Bytes
  | .ccs => if m then raw else []
  | .frag _ _ _ => []
  | .app pt _ => pt

def streamF (m : Bool) (P : Prims) (L : SealLaws P) (cls : CipherClass) (ver : Bytes) : SDir → List FEv → Bytes
  | _, [] => []
  | sd, e :: r => outF m (evRawF P L cls ver sd e) e ++ streamF m P L cls ver (evNextF P L cls ver sd e) r

theorem streamF_false (P : Prims) (L : SealLaws P) (cls : CipherClass) (ver : Bytes) (sd : SDir) (l : List FEv) :
    streamF false P L cls ver sd l = plainOfF l := by
  induction l generalizing sd with
  | nil => rfl
  | cons e r ih => cases e <;> simp [streamF, outF, plainOfF, ih]

theorem stepFm (H : Crypto.Prims) (P : Prims) (L : SealLaws P) (kl : List Keylog.Key) (cls : CipherClass)
    (h13 : cls.is13 = true) (macLen : Nat) (ver : Bytes) (hv : ver.length = 2) (m : Bool) (x : Snd) (s : Session.St Dec)
    {bf : Bool → Bytes} (hs : ReadyB cls macLen x s bf) (d : Bool) (e : FEv) (rest : List FEv) (car : List Nat)
    (hplan : Plan (bf d) (e :: rest)) (hq : max x.c.seq x.s.seq + costF [e] ≤ seqLimit) :
    let s' := Session.handleRecord (Pipeline.ops H P kl) m s ⟨evRawF P L cls ver (x.get d) e, car⟩ d
    let x' := x.set d (evNextF P L cls ver (x.get d) e)
    ∃ t', ReadyB cls macLen x' s' (updB bf d t') ∧ Plan t' rest ∧
    (∀ d', dirPlain d' s'.traffic = dirPlain d' s.traffic ++
      (if d' = d then outF m (evRawF P L cls ver (x.get d) e) e else [])) ∧
    max x'.c.seq x'.s.seq ≤ max x.c.seq x.s.seq + costF [e] := by
  intro s' x'
  cases e with
  | ccs =>
    obtain ⟨a1, a2, a3, _, _, _, a7, a8, a9⟩ := handleRecord_ccs (Pipeline.ops H P kl) m s
      ⟨record 20 ver [1], car⟩ d (record_typ 20 ver [1] car)
    have hx : x' = x := set_get x d
    rw [hx]
    refine ⟨bf d, by rw [updB_self]; exact hs.of_eq a1 a2 a3 a8 a9, hplan, ?_, by omega⟩
    intro d'
    show dirPlain d' (Session.handleRecord _ m s ⟨record 20 ver [1], car⟩ d).traffic = _
    cases m with
    | false => rw [a7 rfl]; simp [outF]
    | true =>
      rw [handle_ccs_meta (Pipeline.ops H P kl) s ⟨record 20 ver [1], car⟩ d (record_typ 20 ver [1] car), dirPlain_push1]
      simp [outF, evRawF]
  | frag b n f =>
    obtain ⟨newly, t', hsplit, hinc, hms, hn, hrest⟩ := hplan
    subst hn
    simp only [costF] at hq
    obtain ⟨b1, b2, b3⟩ := handleRecord_frag H P L kl cls h13 macLen ver hv x s hs d b f newly t' hms hsplit hinc
      (by omega) m car
    rw [after_switches, Lemmas.RecLayer.sget_set, set_set] at b2 b3
    change max x'.c.seq x'.s.seq ≤ _ at b3
    refine ⟨t', b2, hrest, ?_, by simp only [costF]; omega⟩
    intro d'
    show dirPlain d' (Session.handleRecord _ m s ⟨(protect P L cls ver (x.get d) 22 b f).2, car⟩ d).traffic = _
    rw [b1]; simp [outF]
  | app pt f =>
    simp only [costF] at hq
    obtain ⟨c1, c2, c3, c4⟩ := handleRecord_app H P L kl cls macLen ver hv x s hs d pt f
      (sendOk_13 cls h13 macLen pt f) (by omega) m car
    change x'.c.seq ≤ _ at c3
    change x'.s.seq ≤ _ at c4
    refine ⟨bf d, by rw [updB_self]; exact c2, hplan, ?_, by simp only [costF]; exact Nat.max_le.mpr ⟨by omega, by omega⟩⟩
    intro d'
    show dirPlain d' (Session.handleRecord _ m s ⟨(protect P L cls ver (x.get d) 23 pt f).2, car⟩ d).traffic = _
    rw [c1, dirPlain_push]
    simp [outF]

/-- TLS 1.3 after the ServerHello with handshake messages FRAGMENTED anywhere, `-a` on or off: over any interleaving of
    the two sides' records the session exports, per direction, `streamF` -/
theorem run_mergeFm (H : Crypto.Prims) (P : Prims) (L : SealLaws P) (kl : List Keylog.Key) (cls : CipherClass)
    (h13 : cls.is13 = true) (macLen : Nat) (ver : Bytes) (hv : ver.length = 2) (m : Bool) (M : List (Session.Rec × Bool)) :
    ∀ (x : Snd) (s : Session.St Dec) (rem : Bool → List FEv) (bf : Bool → Bytes), ReadyB cls macLen x s bf →
      (∀ d, Plan (bf d) (rem d)) →
      (∀ d, (M.filter fun q => q.2 == d).map (·.1.raw) = sendDirF P L cls ver (x.get d) (rem d)) →
      max x.c.seq x.s.seq + (costF (rem false) + costF (rem true)) ≤ seqLimit →
      ∀ d, dirPlain d (Session.run (Pipeline.ops H P kl) m s M).traffic
        = dirPlain d s.traffic ++ streamF m P L cls ver (x.get d) (rem d) := by
  induction M with
  | nil =>
    intro x s rem bf _ _ hfil _ d
    have := sendDirF_eq_nil P L cls ver _ _ (hfil d).symm
    simp [Session.run, this, streamF]
  | cons q M' ih =>
    intro x s rem bf hs hplan hfil hq d
    obtain ⟨r, d0⟩ := q
    have h0 := hfil d0
    rw [filter_dir_cons_same, List.map_cons] at h0
    cases hrem : rem d0 with
    | nil => rw [hrem] at h0; cases h0
    | cons e rest =>
      rw [hrem, sendDirF_cons] at h0
      simp only [List.cons.injEq] at h0
      obtain ⟨hraw, htail⟩ := h0
      have hr : r = ⟨evRawF P L cls ver (x.get d0) e, r.carriers⟩ := by
        have hraw' : r.raw = evRawF P L cls ver (x.get d0) e := hraw
        rw [← hraw']
      have hcost : costF [e] + costF rest + costF (rem (!d0)) ≤ costF (rem false) + costF (rem true) := by
        have := costF_cons e rest
        cases d0
        · simp only [Bool.not_false, hrem] at *; omega
        · simp only [Bool.not_true, hrem] at *; omega
      obtain ⟨t', g1, g2, g4, g5⟩ := stepFm H P L kl cls h13 macLen ver hv m x s hs d0 e rest r.carriers
        (hrem ▸ hplan d0) (by omega)
      rw [← hr] at g1 g4
      have hplan' : ∀ d', Plan (updB bf d0 t' d') (updF rem d0 rest d') := by
        intro d'
        by_cases hd : d' = d0
        · subst hd; simpa [updF, updB] using g2
        · simp only [updF, updB, hd, if_false]; exact hplan d'
      have hfil' : ∀ d', (M'.filter fun q => q.2 == d').map (·.1.raw)
          = sendDirF P L cls ver ((x.set d0 (evNextF P L cls ver (x.get d0) e)).get d') (updF rem d0 rest d') := by
        intro d'
        by_cases hd : d' = d0
        · subst hd
          rw [Lemmas.RecLayer.sget_set]
          simpa [updF] using htail
        · rw [sget_set_ne _ _ _ _ hd]
          simp only [updF, hd, if_false]
          rw [← hfil d', filter_dir_cons_other _ _ _ _ hd]
      have hq' : max (x.set d0 (evNextF P L cls ver (x.get d0) e)).c.seq (x.set d0 (evNextF P L cls ver (x.get d0) e)).s.seq
          + (costF (updF rem d0 rest false) + costF (updF rem d0 rest true)) ≤ seqLimit := by
        have : costF (updF rem d0 rest false) + costF (updF rem d0 rest true) = costF rest + costF (rem (!d0)) := by
          cases d0 <;> simp [updF] <;> omega
        rw [this]; omega
      have := ih _ _ (updF rem d0 rest) (updB bf d0 t') g1 hplan' hfil' hq' d
      simp only [Session.run, List.foldl_cons] at this ⊢
      rw [this, g4 d]
      by_cases hd : d = d0
      · subst hd
        simp only [updF, if_true, hrem, Lemmas.RecLayer.sget_set]
        rw [streamF, List.append_assoc]
      · simp [updF, hd, sget_set_ne _ _ _ _ hd]

/-! ### B. the capstones from the release order -/

open TLX.Props.C01Capstone in
theorem tls13_fragmented_of_release (H : Crypto.Prims) (P : Prims) (L : SealLaws P) (kl : List Keylog.Key)
    (info : Nat → Pipeline.Info) (c : Pipeline.Conn) (hmeta : c.opts.metadata = false)
    -- the connection as sent
    (t : TranscriptF) (hch : t.ch.WellFormed) (hsh : t.sh.WellFormed) (hrc : t.rvC.length = 2) (hrs : t.rvS.length = 2)
    (hv : t.ver.length = 2) (hcomp : t.sh.compressionMethod = 0) (hneg : Negotiated t.rvS t.sh .tls13)
    -- suite table (C14), key log (C09), key schedule (C15), as in `genKeys_installs_rel_13`
    (ps : CipherSuite.Params) (hres : CipherSuite.resolve (Bytes.beNat t.sh.cipherSuite) = some ps)
    (a : Pipeline.SuiteArgs) (hargs : Pipeline.suiteArgs ps = some a)
    (f : Keylog.Key) (fs : List Keylog.Key)
    (hfound : Keylog.findSessionSecrets kl (Pipeline.natsOfBytes t.ch.random) = f :: fs)
    (secrets : List KeySchedule.Secret) (hsec : Pipeline.secretsOf true (f :: fs) = some secrets)
    (k : KeySchedule.Installed13)
    (hgen : KeySchedule.generateKeys H .tls13 a.ks secrets t.ch.random t.sh.random = .ok (some (.tls13 k)))
    (chk chiv cak caiv shk shiv sak saiv : Bytes)
    (hk : k.clientHsKey = some chk ∧ k.clientHsIv = some chiv ∧ k.clientAppKey = some cak ∧ k.clientAppIv = some caiv ∧
      k.serverHsKey = some shk ∧ k.serverHsIv = some shiv ∧ k.serverAppKey = some sak ∧ k.serverAppIv = some saiv)
    (cls : CipherClass)
    (hcls : classOf a.bulk .tls13
      (Session.extGet ((t.sh.extensions.getD []).map extPair) [0x00, 0x16]).isSome a.tagLen = some cls)
    (h1 : KeyMatOk cls chk chiv) (h2 : KeyMatOk cls cak caiv) (h3 : KeyMatOk cls shk shiv) (h4 : KeyMatOk cls sak saiv)
    -- what follows the hellos
    (hfc : FragConform t.cF) (hfs : FragConform t.sF)
    (hwr : ∀ d, ∀ r ∈ t.records P L cls ⟨SDir.init chk chiv cak caiv, SDir.init shk shiv sak saiv⟩ d, WholeRecord r)
    (hlen : costF t.cF + costF t.sF ≤ seqLimit)
    -- the capture
    (hproj : ∀ d, ((connRecs info c).filter fun q => q.2 == d).map (·.1.raw)
      = t.records P L cls ⟨SDir.init chk chiv cak caiv, SDir.init shk shiv sak saiv⟩ d)
    (hcausal : Causal13 (connRecs info c)) :
    ∃ frames, Pipeline.connOut H P info c kl = some (frames.map (Pipeline.addressed c.opts c)) ∧
      Spec.reassemble frames = some (plainOfF t.cF, plainOfF t.sF) ∧
      TimesFromCarriers info c frames := by
  apply export_of_dirPlain
  rw [hmeta]
  have hC := hproj false
  have hS := hproj true
  simp only [TranscriptF.records, Bool.false_eq_true, if_false, if_true] at hC hS
  obtain ⟨⟨r0, d0⟩, ⟨r1, d1⟩, M', hM, hd0, hd1⟩ := hcausal
  simp only at hd0 hd1
  subst hd0 hd1
  rw [hM] at hC hS ⊢
  rw [filter_dir_cons_same, filter_dir_cons_other _ _ _ _ (by decide), List.map_cons] at hC
  rw [filter_dir_cons_other _ _ _ _ (by decide), filter_dir_cons_same, List.map_cons] at hS
  simp only [List.cons.injEq] at hC hS
  obtain ⟨hc1, hC'⟩ := hC
  obtain ⟨hs1, hS'⟩ := hS
  have hr0 : r0 = ⟨t.chRecord, r0.carriers⟩ := by have h : r0.raw = t.chRecord := hc1; rw [← h]
  have hr1 : r1 = ⟨t.shRecord, r1.carriers⟩ := by have h : r1.raw = t.shRecord := hs1; rw [← h]
  have h0 : (Session.St.init : Session.St Dec).srvCC = false ∧ (Session.St.init : Session.St Dec).cliCC = false :=
    ⟨rfl, rfl⟩
  obtain ⟨g1, _, g3⟩ := server_hello_installs H P kl false Session.St.init h0 t.ch hch t.sh hsh t.rvC t.rvS hrc hrs
    r0.carriers r1.carriers .tls13 hneg
  obtain ⟨dd, hinst, hR⟩ := genKeys_installs_rel_13 H P kl t.sh.cipherSuite t.ch.random t.sh.random
    ((t.sh.extensions.getD []).map extPair) hsh.2.2.2.1 ps hres a hargs f fs hfound secrets hsec k hgen
    chk chiv cak caiv shk shiv sak saiv hk cls hcls h1 h2 h3 h4
  rw [hcomp, hinst] at g3
  simp only at g3
  have h13 : cls.is13 = true := by rw [(classOf_spec _ _ _ _ cls hcls).2.2.2]; rfl
  have ht1 : (⟨t.chRecord, r0.carriers⟩ : Session.Rec).typ = some 0x16 := record_typ 22 _ _ _
  have ht2 : (⟨t.shRecord, r1.carriers⟩ : Session.Rec).typ = some 0x16 := record_typ 22 _ _ _
  have htr1 := Props.C13.hello_records_silent (Pipeline.ops H P kl) Session.St.init ⟨t.chRecord, r0.carriers⟩ false ht1
  have htr2 := Props.C13.hello_records_silent (Pipeline.ops H P kl)
    (Session.handleRecord (Pipeline.ops H P kl) false Session.St.init ⟨t.chRecord, r0.carriers⟩ false)
    ⟨t.shRecord, r1.carriers⟩ true ht2
  have hready : Ready cls (KeySchedule.macSuite H a.ks.mac).outLen
      ⟨SDir.init chk chiv cak caiv, SDir.init shk shiv sak saiv⟩
      (Session.handleRecord (Pipeline.ops H P kl) false
        (Session.handleRecord (Pipeline.ops H P kl) false Session.St.init ⟨t.chRecord, r0.carriers⟩ false)
        ⟨t.shRecord, r1.carriers⟩ true) :=
    ⟨⟨g3.1, ⟨.tls13, g1, ⟨fun _ => h13, fun _ => rfl⟩⟩, dd, g3.2, hR⟩,
      hello_pair_bufs _ false Session.St.init h0 t.rvC t.rvS hrc hrs t.ch hch t.sh r0.carriers r1.carriers⟩
  rw [hr0, hr1]
  have hmerge := run_mergeF H P L kl cls h13 _ t.ver hv M'
    ⟨SDir.init chk chiv cak caiv, SDir.init shk shiv sak saiv⟩ _
    (fun d => if d then t.sF else t.cF) (fun _ => []) hready
    (by intro d; cases d; exact plan_of_conform _ hfc; exact plan_of_conform _ hfs)
    (by intro d; cases d; exact hC'; exact hS')
    (by simp only [SDir.init] at hlen ⊢; simpa using hlen)
  intro d
  simp only [Session.run, List.foldl_cons] at hmerge ⊢
  rw [hmerge d, htr2, htr1]
  cases d <;> rfl

open TLX.Props.C01Capstone in
theorem tls13_fragmented_meta_of_release (H : Crypto.Prims) (P : Prims) (L : SealLaws P) (kl : List Keylog.Key)
    (info : Nat → Pipeline.Info) (c : Pipeline.Conn) (hmeta : c.opts.metadata = true)
    -- the connection as sent
    (t : TranscriptF) (hch : t.ch.WellFormed) (hsh : t.sh.WellFormed) (hrc : t.rvC.length = 2) (hrs : t.rvS.length = 2)
    (hv : t.ver.length = 2) (hcomp : t.sh.compressionMethod = 0) (hneg : Negotiated t.rvS t.sh .tls13)
    -- suite table (C14), key log (C09), key schedule (C15), as in `genKeys_installs_rel_13`
    (ps : CipherSuite.Params) (hres : CipherSuite.resolve (Bytes.beNat t.sh.cipherSuite) = some ps)
    (a : Pipeline.SuiteArgs) (hargs : Pipeline.suiteArgs ps = some a)
    (f : Keylog.Key) (fs : List Keylog.Key)
    (hfound : Keylog.findSessionSecrets kl (Pipeline.natsOfBytes t.ch.random) = f :: fs)
    (secrets : List KeySchedule.Secret) (hsec : Pipeline.secretsOf true (f :: fs) = some secrets)
    (k : KeySchedule.Installed13)
    (hgen : KeySchedule.generateKeys H .tls13 a.ks secrets t.ch.random t.sh.random = .ok (some (.tls13 k)))
    (chk chiv cak caiv shk shiv sak saiv : Bytes)
    (hk : k.clientHsKey = some chk ∧ k.clientHsIv = some chiv ∧ k.clientAppKey = some cak ∧ k.clientAppIv = some caiv ∧
      k.serverHsKey = some shk ∧ k.serverHsIv = some shiv ∧ k.serverAppKey = some sak ∧ k.serverAppIv = some saiv)
    (cls : CipherClass)
    (hcls : classOf a.bulk .tls13
      (Session.extGet ((t.sh.extensions.getD []).map extPair) [0x00, 0x16]).isSome a.tagLen = some cls)
    (h1 : KeyMatOk cls chk chiv) (h2 : KeyMatOk cls cak caiv) (h3 : KeyMatOk cls shk shiv) (h4 : KeyMatOk cls sak saiv)
    -- what follows the hellos
    (hfc : FragConform t.cF) (hfs : FragConform t.sF)
    (hwr : ∀ d, ∀ r ∈ t.records P L cls ⟨SDir.init chk chiv cak caiv, SDir.init shk shiv sak saiv⟩ d, WholeRecord r)
    (hlen : costF t.cF + costF t.sF ≤ seqLimit)
    -- the capture
    (hproj : ∀ d, ((connRecs info c).filter fun q => q.2 == d).map (·.1.raw)
      = t.records P L cls ⟨SDir.init chk chiv cak caiv, SDir.init shk shiv sak saiv⟩ d)
    (hcausal : Causal13 (connRecs info c)) :
    ∃ frames, Pipeline.connOut H P info c kl = some (frames.map (Pipeline.addressed c.opts c)) ∧
      Spec.reassemble frames = some
        (t.chRecord ++ streamF true P L cls t.ver (SDir.init chk chiv cak caiv) t.cF,
         t.shRecord ++ streamF true P L cls t.ver (SDir.init shk shiv sak saiv) t.sF) ∧
      TimesFromCarriers info c frames := by
  apply export_of_dirPlain
  rw [hmeta]
  have hC := hproj false
  have hS := hproj true
  simp only [TranscriptF.records, Bool.false_eq_true, if_false, if_true] at hC hS
  obtain ⟨⟨r0, d0⟩, ⟨r1, d1⟩, M', hM, hd0, hd1⟩ := hcausal
  simp only at hd0 hd1
  subst hd0 hd1
  rw [hM] at hC hS ⊢
  rw [filter_dir_cons_same, filter_dir_cons_other _ _ _ _ (by decide), List.map_cons] at hC
  rw [filter_dir_cons_other _ _ _ _ (by decide), filter_dir_cons_same, List.map_cons] at hS
  simp only [List.cons.injEq] at hC hS
  obtain ⟨hc1, hC'⟩ := hC
  obtain ⟨hs1, hS'⟩ := hS
  have hr0 : r0 = ⟨t.chRecord, r0.carriers⟩ := by have h : r0.raw = t.chRecord := hc1; rw [← h]
  have hr1 : r1 = ⟨t.shRecord, r1.carriers⟩ := by have h : r1.raw = t.shRecord := hs1; rw [← h]
  have h0 : (Session.St.init : Session.St Dec).srvCC = false ∧ (Session.St.init : Session.St Dec).cliCC = false :=
    ⟨rfl, rfl⟩
  obtain ⟨g1, _, g3⟩ := server_hello_installs H P kl true Session.St.init h0 t.ch hch t.sh hsh t.rvC t.rvS hrc hrs
    r0.carriers r1.carriers .tls13 hneg
  obtain ⟨dd, hinst, hR⟩ := genKeys_installs_rel_13 H P kl t.sh.cipherSuite t.ch.random t.sh.random
    ((t.sh.extensions.getD []).map extPair) hsh.2.2.2.1 ps hres a hargs f fs hfound secrets hsec k hgen
    chk chiv cak caiv shk shiv sak saiv hk cls hcls h1 h2 h3 h4
  rw [hcomp, hinst] at g3
  simp only at g3
  have h13 : cls.is13 = true := by rw [(classOf_spec _ _ _ _ cls hcls).2.2.2]; rfl
  have ht1 : (⟨t.chRecord, r0.carriers⟩ : Session.Rec).typ = some 0x16 := record_typ 22 _ _ _
  have ht2 : (⟨t.shRecord, r1.carriers⟩ : Session.Rec).typ = some 0x16 := record_typ 22 _ _ _
  have hst1 := Session.handleRecord_strip (Pipeline.ops H P kl) Session.St.init ⟨t.chRecord, r0.carriers⟩ false
  have hi0 : (Session.St.init : Session.St Dec).strip = Session.St.init := rfl
  rw [hi0] at hst1
  have hf1 := handle_hs_flags (Pipeline.ops H P kl) Session.St.init ⟨t.chRecord, r0.carriers⟩ false ht1 h0
  have hfl1 : (Session.handleRecord (Pipeline.ops H P kl) true Session.St.init ⟨t.chRecord, r0.carriers⟩ false).srvCC = false ∧
      (Session.handleRecord (Pipeline.ops H P kl) true Session.St.init ⟨t.chRecord, r0.carriers⟩ false).cliCC = false := by
    have a := congrArg Session.St.srvCC hst1
    have b := congrArg Session.St.cliCC hst1
    simp only [Session.strip_srvCC, Session.strip_cliCC] at a b
    exact ⟨a.trans hf1.1, b.trans hf1.2⟩
  obtain ⟨_, chrest, hchd⟩ := clientHello_layout t.ch hch
  obtain ⟨shrest, hshd⟩ : ∃ rest, Spec.TlsHello.encodeServerHello t.sh = 2 :: rest :=
    ⟨_, by simp only [Spec.TlsHello.encodeServerHello, Spec.TlsHello.handshake, Lemmas.TlsHello.u8_eq, List.cons_append,
      List.nil_append]; rfl⟩
  have htr1 := handle_hello_meta (Pipeline.ops H P kl) Session.St.init ⟨t.chRecord, r0.carriers⟩ false ht1 h0 1 chrest
    (by rw [TranscriptF.chRecord, record_body 22 _ _ _ hrc, hchd]) (Or.inl rfl)
  have htr2 := handle_hello_meta (Pipeline.ops H P kl) _ ⟨t.shRecord, r1.carriers⟩ true ht2 hfl1 2 shrest
    (by rw [TranscriptF.shRecord, record_body 22 _ _ _ hrs, hshd]) (Or.inr rfl)
  have hready : Ready cls (KeySchedule.macSuite H a.ks.mac).outLen
      ⟨SDir.init chk chiv cak caiv, SDir.init shk shiv sak saiv⟩
      (Session.handleRecord (Pipeline.ops H P kl) true
        (Session.handleRecord (Pipeline.ops H P kl) true Session.St.init ⟨t.chRecord, r0.carriers⟩ false)
        ⟨t.shRecord, r1.carriers⟩ true) :=
    ⟨⟨g3.1, ⟨.tls13, g1, ⟨fun _ => h13, fun _ => rfl⟩⟩, dd, g3.2, hR⟩,
      hello_pair_bufs _ true Session.St.init h0 t.rvC t.rvS hrc hrs t.ch hch t.sh r0.carriers r1.carriers⟩
  rw [hr0, hr1]
  have hmerge := run_mergeFm H P L kl cls h13 _ t.ver hv true M'
    ⟨SDir.init chk chiv cak caiv, SDir.init shk shiv sak saiv⟩ _
    (fun d => if d then t.sF else t.cF) (fun _ => []) hready
    (by intro d; cases d; exact plan_of_conform _ hfc; exact plan_of_conform _ hfs)
    (by intro d; cases d; exact hC'; exact hS')
    (by simp only [SDir.init] at hlen ⊢; simpa using hlen)
  intro d
  simp only [Session.run, List.foldl_cons] at hmerge ⊢
  rw [hmerge d, htr2, htr1]
  cases d <;> simp [dirPlain, Snd.get, Session.St.init]

open TLX.Props.C01Capstone in
theorem tls12_meta_of_release (H : Crypto.Prims) (P : Prims) (L : SealLaws P) (kl : List Keylog.Key)
    (info : Nat → Pipeline.Info) (c : Pipeline.Conn) (hmeta : c.opts.metadata = true)
    -- the connection as sent
    (t : Transcript) (hch : t.ch.WellFormed) (hsh : t.sh.WellFormed) (hrc : t.rvC.length = 2) (hrs : t.rvS.length = 2)
    (hv : t.ver.length = 2) (hcomp : t.sh.compressionMethod = 0)
    (v : Session.Ver) (hvne : v ≠ .tls13) (hneg : Negotiated t.rvS t.sh v)
    -- suite table (C14), key log (C09), key schedule (C15), as in `genKeys_installs_rel_legacy`
    (ps : CipherSuite.Params) (hres : CipherSuite.resolve (Bytes.beNat t.sh.cipherSuite) = some ps)
    (a : Pipeline.SuiteArgs) (hargs : Pipeline.suiteArgs ps = some a)
    (f : Keylog.Key) (fs : List Keylog.Key)
    (hfound : (Keylog.findSessionSecrets kl (Pipeline.natsOfBytes t.ch.random)).filter
        (fun k => k.label == Keylog.s_CLIENT_RANDOM || k.label == Keylog.s_RSA) = f :: fs)
    (secrets : List KeySchedule.Secret) (hsec : Pipeline.secretsOf false (f :: fs) = some secrets)
    (k : KeySchedule.Keys6)
    (hgen : KeySchedule.generateKeys H (Pipeline.ksVersion v) a.ks secrets t.ch.random t.sh.random
      = .ok (some (.legacy k)))
    (cls : CipherClass)
    (hcls : classOf a.bulk (Pipeline.rlVersion v)
      (Session.extGet ((t.sh.extensions.getD []).map extPair) [0x00, 0x16]).isSome a.tagLen = some cls)
    (hmac : 0 < (KeySchedule.macSuite H a.ks.mac).outLen)
    (hck : KeyMatOk cls k.clientKey k.clientIv) (hsk : KeyMatOk cls k.serverKey k.serverIv)
    -- what follows the hellos
    (hsc : Script12 t.cEvs) (hss : Script12 t.sEvs)
    (hokc : ∀ e ∈ t.cEvs, EvOk1 cls (KeySchedule.macSuite H a.ks.mac).outLen e)
    (hoks : ∀ e ∈ t.sEvs, EvOk1 cls (KeySchedule.macSuite H a.ks.mac).outLen e)
    (hwr : ∀ d, ∀ r ∈ t.records P L cls (legacySnd k) d, WholeRecord r)
    (hlen : t.cEvs.length + t.sEvs.length ≤ seqLimit)
    -- the capture
    (hproj : ∀ d, ((connRecs info c).filter fun q => q.2 == d).map (·.1.raw) = t.records P L cls (legacySnd k) d)
    (hcausal : Causal13 (connRecs info c)) :
    ∃ frames, Pipeline.connOut H P info c kl = some (frames.map (Pipeline.addressed c.opts c)) ∧
      Spec.reassemble frames = some
        (t.chRecord ++ metaStream12 P L cls t.ver (legacySnd k).c t.cEvs,
         t.shRecord ++ metaStream12 P L cls t.ver (legacySnd k).s t.sEvs) ∧
      TimesFromCarriers info c frames := by
  apply export_of_dirPlain
  rw [hmeta]
  have hC := hproj false
  have hS := hproj true
  simp only [Transcript.records, Bool.false_eq_true, if_false, if_true] at hC hS
  obtain ⟨⟨r0, d0⟩, ⟨r1, d1⟩, M', hM, hd0, hd1⟩ := hcausal
  simp only at hd0 hd1
  subst hd0 hd1
  rw [hM] at hC hS ⊢
  rw [filter_dir_cons_same, filter_dir_cons_other _ _ _ _ (by decide), List.map_cons] at hC
  rw [filter_dir_cons_other _ _ _ _ (by decide), filter_dir_cons_same, List.map_cons] at hS
  simp only [List.cons.injEq] at hC hS
  obtain ⟨hc1, hC'⟩ := hC
  obtain ⟨hs1, hS'⟩ := hS
  have hr0 : r0 = ⟨t.chRecord, r0.carriers⟩ := by have h : r0.raw = t.chRecord := hc1; rw [← h]
  have hr1 : r1 = ⟨t.shRecord, r1.carriers⟩ := by have h : r1.raw = t.shRecord := hs1; rw [← h]
  have h0 : (Session.St.init : Session.St Dec).srvCC = false ∧ (Session.St.init : Session.St Dec).cliCC = false :=
    ⟨rfl, rfl⟩
  obtain ⟨g1, _, g3⟩ := server_hello_installs H P kl true Session.St.init h0 t.ch hch t.sh hsh t.rvC t.rvS hrc hrs
    r0.carriers r1.carriers v hneg
  obtain ⟨dd, hinst, hR⟩ := genKeys_installs_rel_legacy H P L kl v hvne t.sh.cipherSuite t.ch.random t.sh.random
    ((t.sh.extensions.getD []).map extPair) hsh.2.2.2.1 ps hres a hargs f fs hfound secrets hsec k hgen cls hcls hmac hck hsk
  rw [hcomp, hinst] at g3
  simp only at g3
  have hrl : Pipeline.rlVersion v ≠ .tls13 := rl_ne13 v hvne
  have h13 : cls.is13 = false := by
    rw [(classOf_spec _ _ _ _ cls hcls).2.2.2]; simpa using hrl
  have ht1 : (⟨t.chRecord, r0.carriers⟩ : Session.Rec).typ = some 0x16 := record_typ 22 _ _ _
  have ht2 : (⟨t.shRecord, r1.carriers⟩ : Session.Rec).typ = some 0x16 := record_typ 22 _ _ _
  -- flags: the `-a` run and the run without `-a` agree on everything but the traffic (`handleRecord_strip`)
  have hst1 := Session.handleRecord_strip (Pipeline.ops H P kl) Session.St.init ⟨t.chRecord, r0.carriers⟩ false
  have hst2 := Session.handleRecord_strip (Pipeline.ops H P kl)
    (Session.handleRecord (Pipeline.ops H P kl) true Session.St.init ⟨t.chRecord, r0.carriers⟩ false)
    ⟨t.shRecord, r1.carriers⟩ true
  have hi0 : (Session.St.init : Session.St Dec).strip = Session.St.init := rfl
  rw [hi0] at hst1
  rw [hst1] at hst2
  have hf1 := handle_hs_flags (Pipeline.ops H P kl) Session.St.init ⟨t.chRecord, r0.carriers⟩ false ht1 h0
  have hf2 := handle_hs_flags (Pipeline.ops H P kl) _ ⟨t.shRecord, r1.carriers⟩ true ht2 hf1
  have hfl1 : (Session.handleRecord (Pipeline.ops H P kl) true Session.St.init ⟨t.chRecord, r0.carriers⟩ false).srvCC = false ∧
      (Session.handleRecord (Pipeline.ops H P kl) true Session.St.init ⟨t.chRecord, r0.carriers⟩ false).cliCC = false := by
    have a := congrArg Session.St.srvCC hst1
    have b := congrArg Session.St.cliCC hst1
    simp only [Session.strip_srvCC, Session.strip_cliCC] at a b
    exact ⟨a.trans hf1.1, b.trans hf1.2⟩
  have hfl2 : (Session.handleRecord (Pipeline.ops H P kl) true
        (Session.handleRecord (Pipeline.ops H P kl) true Session.St.init ⟨t.chRecord, r0.carriers⟩ false)
        ⟨t.shRecord, r1.carriers⟩ true).srvCC = false ∧
      (Session.handleRecord (Pipeline.ops H P kl) true
        (Session.handleRecord (Pipeline.ops H P kl) true Session.St.init ⟨t.chRecord, r0.carriers⟩ false)
        ⟨t.shRecord, r1.carriers⟩ true).cliCC = false := by
    have a := congrArg Session.St.srvCC hst2
    have b := congrArg Session.St.cliCC hst2
    simp only [Session.strip_srvCC, Session.strip_cliCC] at a b
    exact ⟨a.trans hf2.1, b.trans hf2.2⟩
  -- traffic after the hellos: the two records verbatim
  obtain ⟨_, chrest, hchd⟩ := clientHello_layout t.ch hch
  obtain ⟨shrest, hshd⟩ : ∃ rest, Spec.TlsHello.encodeServerHello t.sh = 2 :: rest :=
    ⟨_, by simp only [Spec.TlsHello.encodeServerHello, Spec.TlsHello.handshake, Lemmas.TlsHello.u8_eq, List.cons_append,
      List.nil_append]; rfl⟩
  have htr1 := handle_hello_meta (Pipeline.ops H P kl) Session.St.init ⟨t.chRecord, r0.carriers⟩ false ht1 h0 1 chrest
    (by rw [Transcript.chRecord, record_body 22 _ _ _ hrc, hchd]) (Or.inl rfl)
  have htr2 := handle_hello_meta (Pipeline.ops H P kl) _ ⟨t.shRecord, r1.carriers⟩ true ht2 hfl1 2 shrest
    (by rw [Transcript.shRecord, record_body 22 _ _ _ hrs, hshd]) (Or.inr rfl)
  have hready : Ready cls (KeySchedule.macSuite H a.ks.mac).outLen (legacySnd k)
      (Session.handleRecord (Pipeline.ops H P kl) true
        (Session.handleRecord (Pipeline.ops H P kl) true Session.St.init ⟨t.chRecord, r0.carriers⟩ false)
        ⟨t.shRecord, r1.carriers⟩ true) :=
    ⟨⟨g3.1, ⟨v, g1, ⟨fun h => absurd h hvne, fun h => by rw [h13] at h; cases h⟩⟩, dd, g3.2, hR⟩,
      hello_pair_bufs _ true Session.St.init h0 t.rvC t.rvS hrc hrs t.ch hch t.sh r0.carriers r1.carriers⟩
  rw [hr0, hr1]
  have hmerge := run_merge12m H P L kl cls h13 _ t.ver hv M' (legacySnd k) _
    (fun d => if d then t.sEvs else t.cEvs) hready
    (by
      intro d
      cases d
      · exact Or.inl ⟨by simp [ccOf, hfl2.2], hsc⟩
      · exact Or.inl ⟨by simp [ccOf, hfl2.1], hss⟩)
    (by intro d e he; cases d; exact hokc e he; exact hoks e he)
    (by intro d; cases d; exact hC'; exact hS')
    (by
      have h1 := length_by_dir M'
      have h2 := congrArg List.length hC'
      have h3 := congrArg List.length hS'
      simp only [List.length_map, sendDir_length] at h2 h3
      simp only [legacySnd, SDir.init]
      omega)
  intro d
  simp only [Session.run, List.foldl_cons] at hmerge ⊢
  rw [hmerge d, htr2, htr1]
  cases d <;> simp [dirPlain, Snd.get, legacySnd, Session.St.init]

/-! ### C. the capture side -/

section Capture
open TLX.MainLoop TLX.Props.C01File TLX.Spec.TlsCapture TLX.Lemmas.C01Full TLX.Props.C01Capstone TLX.Reassembly

/-- the data segments of direction `d` as the capture shows them to that direction's reassembler: (position in the capture,
    sequence-number field, payload) -/
def capSegs (d : Bool) : Nat → List CEv → List Seg
  | _, [] => []
  | n, .seg _ d' _ t :: rest =>
    if t.payload ≠ [] ∧ d' = d then ⟨n, t.seq, t.payload⟩ :: capSegs d (n + 1) rest else capSegs d (n + 1) rest
  | n, .foreign _ :: rest => capSegs d (n + 1) rest

theorem capSegs_wire (d : Bool) (n : Nat) (evs : List CEv) : (capSegs d n evs).map Props.C05.wire = dirWires d evs := by
  induction evs generalizing n with
  | nil => rfl
  | cons ev rest ih =>
    cases ev with
    | foreign e => simpa [capSegs, dirWires] using ih (n + 1)
    | seg t d' fr tcp =>
      simp only [capSegs, dirWires]
      split
      · simp [Props.C05.wire, ih (n + 1)]
      · exact ih (n + 1)

/-- the session's view of a direction is the capture's: `dirSegs` over the flow's packets = `capSegs` -/
theorem dirSegs_capSegs (fl : Flow) (c : Bool) (hne : clientEp fl ≠ serverEp fl) (d : Bool) (evs : List CEv)
    (hd : DescribedX fl c evs) (n : Nat) (info : Nat → Pipeline.Info)
    (hinfo : ∀ i ev, evs[i]? = some ev → info (n + i) = infoOf ev.cap.us ev.cap.d) :
    dirSegs info (serverEp fl) d (flowPkts fl n evs) = capSegs d n evs := by
  induction evs generalizing n with
  | nil => rfl
  | cons ev rest ih =>
    have hrest := ih (fun x hx => hd x (by simp [hx])) (n + 1) (fun i ev' h => by
      have := hinfo (i + 1) ev' (by simpa using h)
      rw [show n + 1 + i = n + (i + 1) by omega]; exact this)
    have hev := hd ev (by simp)
    cases ev with
    | foreign e => simpa [flowPkts, capSegs] using hrest
    | seg t d' fr tcp =>
      have hev : IsSegX fl d' fr tcp := hev.1
      have hi : info n = ⟨tcp.seq, (CEv.seg t d' fr tcp).cap.us, fr.srcMac, fr.dstMac, fl.v6⟩ := by
        have := hinfo 0 _ rfl
        rw [Nat.add_zero] at this
        rw [this]
        exact infoOf_segX fl d' fr tcp hev _
      by_cases hp : tcp.payload = []
      · simpa [flowPkts, capSegs, hp] using hrest
      · simp only [flowPkts, hp, if_false, capSegs, ne_eq, not_false_eq_true, true_and]
        simp only [dirSegs, List.filter_cons] at hrest ⊢
        have hsrc : ((if d' then serverEp fl else clientEp fl) == serverEp fl) = d' := by
          cases d' <;> simp [hne]
        by_cases hdd : d' = d
        · subst hdd
          simp only [hsrc, beq_self_eq_true, if_true, List.map_cons, hi, hrest]
        · have : (d' == d) = false := by simpa using hdd
          simp only [hsrc, this, Bool.false_eq_true, if_false, hdd, hrest]

theorem capInfo_hinfo (evs : List CEv) : ∀ i ev, evs[i]? = some ev →
    capInfo (evs.map CEv.cap) (0 + i) = infoOf ev.cap.us ev.cap.d := by
  intro i ev h
  rw [Nat.zero_add]
  exact Props.C02File.capInfo_at _ i _ (by rw [List.getElem?_map, h]; rfl)

/-- **TCP delivery, C05's whole domain, stated on the capture**: per direction the (sequence number, data) pairs of the
    connection's data segments are a delivery of the stream — ANY cut, exact duplicates, segments displaced by up to `k`
    positions (any `k`), ANY initial sequence number (the sequence space may wrap anywhere inside the stream) — nothing is
    handed on before the segment that starts the stream has been captured (`Props.C05.NoEarlyDelivery`; it fails exactly
    when the FIRST data segment of a direction is overtaken by segments that are whole records: the open C05 finding
    `reassembly_exact_counterexample`, a recorded limit), and the stream has at most 2^31 bytes -/
def WiresDelivered (evs : List CEv) (streams : Bool → Bytes) : Prop :=
  ∀ d, (∃ k isn, Spec.TlsFraming.Delivers k isn (streams d) (dirWires d evs) ∧
      Props.C05.NoEarlyDelivery isn (capSegs d 0 evs)) ∧ (streams d).length ≤ 2 ^ 31

/-- the simplest sufficient condition for `NoEarlyDelivery`: the first captured data segment of the direction is the one
    that starts the stream (every LATER segment may be displaced) -/
theorem noEarly_of_first (isn : Nat) (segs : List Seg) (h : ∀ s, segs.head? = some s → s.seq = isn % 2 ^ 32) :
    Props.C05.NoEarlyDelivery isn segs := by
  intro pre post hsplit hno
  cases pre with
  | nil => rfl
  | cons s t => exact absurd (h s (by rw [hsplit]; rfl)) (hno s (List.mem_cons_self ..))

theorem wiresDelivered_of_inOrder (evs : List CEv) (streams : Bool → Bytes) (h : WiresInOrder evs streams) :
    WiresDelivered evs streams := by
  intro d
  obtain ⟨⟨isn, hio⟩, hl⟩ := h d
  refine ⟨⟨0, isn, hio, noEarly_of_first isn _ ?_⟩, hl⟩
  intro s hs
  have hio' : Spec.TlsFraming.Delivers 0 isn (streams d) ((capSegs d 0 evs).map Props.C05.wire) := by
    rw [capSegs_wire]; exact hio
  exact Lemmas.Delivery.inorder_head hio' (Props.C05.wire s) (by rw [List.head?_map, hs]; rfl)

/-- what the described capture gives the connection capstones: `DeliveredDisplaced` from the sender-side `WiresDelivered` -/
theorem delivered_of_wires (fl : Flow) (hne : clientEp fl ≠ serverEp fl) (evs : List CEv) (o : Opts)
    (hd : DescribedX fl o.checksumTest evs) (hsp : o.ports.contains (fl.serverPort : Int) = true)
    (hcp : o.ports.contains (fl.clientPort : Int) = false) (p0 : Pkt) (rest : List Pkt)
    (hfp : flowPkts fl 0 evs = p0 :: rest) (streams : Bool → Bytes) (hw : WiresDelivered evs streams) :
    DeliveredDisplaced (capInfo (evs.map CEv.cap)) (sessionOf (evs.map CEv.cap) o p0 rest) streams := by
  obtain ⟨_, _, hsrv, _, _⟩ := described_session_x fl hne evs o hd hsp hcp p0 rest hfp
  intro dir
  obtain ⟨⟨k, isn, hdel, hearly⟩, hl⟩ := hw dir
  have hpk : (sessionOf (evs.map CEv.cap) o p0 rest).pkts = flowPkts fl 0 evs := by rw [hfp]; rfl
  have hseg := dirSegs_capSegs fl o.checksumTest hne dir evs hd 0 (capInfo (evs.map CEv.cap)) (capInfo_hinfo evs)
  refine ⟨⟨k, isn, ?_, ?_⟩, hl⟩
  · rw [hsrv, hpk, hseg, capSegs_wire]; exact hdel
  · rw [hsrv, hpk, hseg]; exact hearly

/-! packet order ⇒ release order -/

/-- **first flights alternate, stated on the capture order of the packets**: the capture is `A ++ B ++ C` where `A` holds no
    data segment of the server and its client data segments deliver — in order: any cuts, exact duplicates, any ISN — exactly
    the ClientHello record; `B` holds no data segment of the client and its server data segments deliver whole records
    `recsB`, at least one (the ServerHello); `C` is arbitrary. Foreign packets may sit anywhere. I.e. the ClientHello is
    complete before the server's first data segment is captured, and the server's first flight ends on a record boundary
    before the client's next data segment. -/
structure FlightsFirst (evs : List CEv) (chRec : Bytes) (recsB : List Bytes) : Prop where
  split : ∃ A B C, evs = A ++ B ++ C ∧ dirWires true A = [] ∧ dirWires false B = [] ∧
    (∃ isn, Spec.TlsFraming.InOrder isn chRec (dirWires false A)) ∧
    (∃ isn, Spec.TlsFraming.InOrder isn recsB.flatten (dirWires true B))
  wholeA : WholeRecord chRec
  wholeB : ∀ r ∈ recsB, WholeRecord r
  lenA : chRec.length ≤ 2 ^ 31
  lenB : recsB.flatten.length ≤ 2 ^ 31
  neB : recsB ≠ []

theorem flowPkts_append (fl : Flow) (A B : List CEv) (n : Nat) :
    flowPkts fl n (A ++ B) = flowPkts fl n A ++ flowPkts fl (n + A.length) B := by
  induction A generalizing n with
  | nil => simp [flowPkts]
  | cons ev rest ih =>
    have e : n + (ev :: rest).length = n + 1 + rest.length := by simp only [List.length_cons]; omega
    cases ev with
    | foreign e' => simp only [List.cons_append, flowPkts, ih (n + 1), e]
    | seg t d fr tcp =>
      simp only [List.cons_append, flowPkts, ih (n + 1), e]
      split <;> simp

theorem flowPkts_dir (fl : Flow) (hne : clientEp fl ≠ serverEp fl) (d : Bool) (A : List CEv) (h : dirWires (!d) A = [])
    (n : Nat) : ∀ p ∈ flowPkts fl n A, (p.src == serverEp fl) = d := by
  induction A generalizing n with
  | nil => intro p hp; cases hp
  | cons ev rest ih =>
    cases ev with
    | foreign e => exact ih (by simpa [dirWires] using h) (n + 1)
    | seg t d' fr tcp =>
      simp only [dirWires] at h
      intro p hp
      simp only [flowPkts] at hp
      by_cases hpl : tcp.payload = []
      · rw [if_pos hpl] at hp
        rw [if_neg (by simp [hpl])] at h
        exact ih h (n + 1) p hp
      · rw [if_neg hpl] at hp
        by_cases hdd : d' = !d
        · rw [if_pos ⟨hpl, hdd⟩] at h; cases h
        · rw [if_neg (by simp [hpl, hdd])] at h
          rcases List.mem_cons.mp hp with rfl | hp
          · have : d' = d := by cases d <;> cases d' <;> simp_all
            subst this
            cases d' <;> simp [hne]
          · exact ih h (n + 1) p hp

/-- **packet order ⇒ `FirstFlights`** for the session object of the described capture -/
theorem firstFlights_of_capture (fl : Flow) (hne : clientEp fl ≠ serverEp fl) (evs : List CEv) (o : Opts)
    (hd : DescribedX fl o.checksumTest evs) (hsp : o.ports.contains (fl.serverPort : Int) = true)
    (hcp : o.ports.contains (fl.clientPort : Int) = false) (p0 : Pkt) (rest : List Pkt)
    (hfp : flowPkts fl 0 evs = p0 :: rest) (chRec : Bytes) (recsB : List Bytes) (h : FlightsFirst evs chRec recsB) :
    FirstFlights (capInfo (evs.map CEv.cap)) (sessionOf (evs.map CEv.cap) o p0 rest) [chRec] recsB := by
  obtain ⟨_, _, hsrv, _, _⟩ := described_session_x fl hne evs o hd hsp hcp p0 rest hfp
  obtain ⟨A, B, C, hev, hA, hB, ⟨isnA, hiA⟩, ⟨isnB, hiB⟩⟩ := h.split
  have hpk : (sessionOf (evs.map CEv.cap) o p0 rest).pkts = flowPkts fl 0 evs := by rw [hfp]; rfl
  have hinfo := capInfo_hinfo evs
  have hdA : DescribedX fl o.checksumTest A := fun x hx => hd x (by rw [hev]; simp [hx])
  have hdB : DescribedX fl o.checksumTest B := fun x hx => hd x (by rw [hev]; simp [hx])
  have hsA := dirSegs_capSegs fl o.checksumTest hne false A hdA 0 (capInfo (evs.map CEv.cap)) (fun i ev hi => by
    apply hinfo i ev
    rw [hev, List.append_assoc, List.getElem?_append_left (List.getElem?_eq_some_iff.mp hi).1]; exact hi)
  have hsB := dirSegs_capSegs fl o.checksumTest hne true B hdB A.length (capInfo (evs.map CEv.cap)) (fun i ev hi => by
    have := hinfo (A.length + i) ev (by
      rw [hev, List.append_assoc, List.getElem?_append_right (by omega),
        List.getElem?_append_left (by have := (List.getElem?_eq_some_iff.mp hi).1; omega)]
      rw [show A.length + i - A.length = i by omega]; exact hi)
    rw [Nat.zero_add] at this; exact this)
  refine ⟨⟨flowPkts fl 0 A, flowPkts fl A.length B, flowPkts fl (A.length + B.length) C, ?_, ?_, ?_, ⟨isnA, ?_⟩, ⟨isnB, ?_⟩⟩,
    ?_, h.wholeB, ?_, h.lenB, h.neB⟩
  · rw [hpk, hev, flowPkts_append, flowPkts_append, Nat.zero_add]
    simp [List.length_append]
  · rw [hsrv]; exact flowPkts_dir fl hne false A (by simpa using hA) 0
  · rw [hsrv]; exact flowPkts_dir fl hne true B (by simpa using hB) A.length
  · rw [hsrv, hsA, capSegs_wire]; simpa using hiA
  · rw [hsrv, hsB, capSegs_wire]; exact hiB
  · intro r hr; simp only [List.mem_singleton] at hr; subst hr; exact h.wholeA
  · simpa using h.lenA

end Capture

/-! ### D. the write loop takes what ANY TLS conversation exports, under range conditions that evaluation can check -/

section Fits
open TLX.MainLoop TLX.Props.C01File TLX.Props.C01File2 TLX.Export

/-- the range conditions of `Props.C01File2.connOut_fits` for one conversation, as a Boolean: no record above 65495 bytes,
    fewer than 2^32 − 1 exported bytes in all, both exported ports below 2^16 -/
def fitsB (H : Crypto.Prims) (P : Cipher.Prims) (info : Nat → Pipeline.Info) (kl : List Keylog.Key) (c : Pipeline.Conn) : Bool :=
  (sessTraffic H P info c kl).all (fun e => decide ((e.data.getD TcpOut.placeholder).length ≤ 65495)) &&
  decide ((dirPlain false (sessTraffic H P info c kl)).length + (dirPlain true (sessTraffic H P info c kl)).length + 1 < 2 ^ 32) &&
  decide (c.client.port < 65536) &&
  decide (TcpOut.exportedServerPort c.opts.keep (Pipeline.portmapFn c.opts.portmap) c.server.port < 65536)

theorem conv_fits (H : Crypto.Prims) (P : Cipher.Prims) (info : Nat → Pipeline.Info) (kl : List Keylog.Key)
    (c : Pipeline.Conn) (h : fitsB H P info kl c = true) (hts : ∀ id, (info id).ts < 2 ^ 64) :
    ∀ q ∈ (Pipeline.connOut H P info c kl).getD [], WritesOk q := by
  simp only [fitsB, Bool.and_eq_true, List.all_eq_true, decide_eq_true_eq] at h
  obtain ⟨⟨⟨h1, h2⟩, h3⟩, h4⟩ := h
  have hsome := (connOut_never_raises H P info c kl).2.2
  have heq := connOut_eq H P info c kl
  rw [heq, Option.isSome_map] at hsome
  obtain ⟨frames, hb⟩ := Option.isSome_iff_exists.mp hsome
  have hconn : Pipeline.connOut H P info c kl = some (frames.map (Pipeline.addressed c.opts c)) := by rw [heq, hb]; rfl
  have hre := Props.C06.reassemble_build _ _ hb
  rw [dirBytes_toRec, dirBytes_toRec] at hre
  have := connOut_fits H P info c kl frames _ _ hconn hre (fun e he => h1 e he) h2 h3 h4 hts
  rw [hconn]
  exact this

end Fits

end TLX.Lemmas.C01All
