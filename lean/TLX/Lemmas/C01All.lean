/-
Helpers for `Props/C01All.lean`.

  A. TLS 1.3 with FRAGMENTED handshake messages, `-a` on or off: `streamF` (what each direction exports), `stepFm`,
     `run_mergeFm` (`Lemmas/Capstone2.stepF`, `run_mergeF` for either value of `exp_meta`; with `-a` a dummy ChangeCipherSpec
     record is exported verbatim, a protected handshake record contributes nothing — its outer type is 23)
  B. the connection capstones FROM THE RELEASE ORDER (`hproj`: the records released for each direction are the transcript's)
     for the cases `Props/C01Capstone2` states with an in-order delivery only: TLS 1.3 fragmented (`-a` off / on), TLS ≤ 1.2
     with `-a`
  C. the capture side: `capSegs` (the data segments of a direction as the reassembler gets them), `WiresDelivered` ⇒
     `DeliveredDisplaced`; `FlightsFirst` (packet order) ⇒ `FirstFlights`
-/
import TLX.Props.C01Full
set_option autoImplicit false
set_option linter.unusedSimpArgs false
set_option linter.unusedVariables false
namespace TLX.Lemmas.C01All
open TLX TLX.Cipher TLX.RecordLayer TLX.Spec.TlsSender TLX.Props.C01 TLX.Lemmas.Pipeline TLX.Spec.TlsConnection
open TLX.Lemmas.Capstone TLX.Lemmas.Capstone2 TLX.Props.C01Pipeline TLX.Spec.TlsFraming TLX.Spec.TlsFragmented13

/-! ### A. fragmented TLS 1.3, either `-a` -/

/-- what one record of a fragmenting TLS 1.3 endpoint contributes to the exported stream of its direction: application data
    as plaintext; with `-a` a dummy ChangeCipherSpec record verbatim; a protected handshake record nothing -/
def outF (m : Bool) (raw : Bytes) : FEv → Bytes
  | .ccs => if m then raw else []
  | .frag _ _ _ => []
  | .app pt _ => pt

def streamF (m : Bool) (P : Prims) (L : SealLaws P) (cls : CipherClass) (ver : Bytes) : SDir → List FEv → Bytes
  | _, [] => []
  | sd, e :: r => outF m (evRawF P L cls ver sd e) e ++ streamF m P L cls ver (evNextF P L cls ver sd e) r

theorem streamF_false (P : Prims) (L : SealLaws P) (cls : CipherClass) (ver : Bytes) (sd : SDir) (l : List FEv) :
    streamF false P L cls ver sd l = plainOfF l := by
  induction l generalizing sd with
  | nil => rfl
  | cons e r ih => cases e <;> simp [streamF, outF, plainOfF, ih]

theorem stepFm (H : Crypto.Prims) (P : Prims) (L : SealLaws P) (kl : List Keylog.Key) (cls : CipherClass)
    (h13 : cls.is13 = true) (macLen : Nat) (ver : Bytes) (hv : ver.length = 2) (m : Bool) (x : Snd) (s : Session.St Dec)
    {bf : Bool → Bytes} (hs : ReadyB cls macLen x s bf) (d : Bool) (e : FEv) (rest : List FEv) (car : List Nat)
    (hplan : Plan (bf d) (e :: rest)) (hq : max x.c.seq x.s.seq + costF [e] ≤ seqLimit) :
    let s' := Session.handleRecord (Pipeline.ops H P kl) m s ⟨evRawF P L cls ver (x.get d) e, car⟩ d
    let x' := x.set d (evNextF P L cls ver (x.get d) e)
    ∃ t', ReadyB cls macLen x' s' (updB bf d t') ∧ Plan t' rest ∧
    (∀ d', dirPlain d' s'.traffic = dirPlain d' s.traffic ++
      (if d' = d then outF m (evRawF P L cls ver (x.get d) e) e else [])) ∧
    max x'.c.seq x'.s.seq ≤ max x.c.seq x.s.seq + costF [e] := by
  intro s' x'
  cases e with
  | ccs =>
    obtain ⟨a1, a2, a3, _, _, _, a7, a8, a9⟩ := handleRecord_ccs (Pipeline.ops H P kl) m s
      ⟨record 20 ver [1], car⟩ d (record_typ 20 ver [1] car)
    have hx : x' = x := set_get x d
    rw [hx]
    refine ⟨bf d, by rw [updB_self]; exact hs.of_eq a1 a2 a3 a8 a9, hplan, ?_, by omega⟩
    intro d'
    show dirPlain d' (Session.handleRecord _ m s ⟨record 20 ver [1], car⟩ d).traffic = _
    cases m with
    | false => rw [a7 rfl]; simp [outF]
    | true =>
      rw [handle_ccs_meta (Pipeline.ops H P kl) s ⟨record 20 ver [1], car⟩ d (record_typ 20 ver [1] car), dirPlain_push1]
      simp [outF, evRawF]
  | frag b n f =>
    obtain ⟨newly, t', hsplit, hinc, hms, hn, hrest⟩ := hplan
    subst hn
    simp only [costF] at hq
    obtain ⟨b1, b2, b3⟩ := handleRecord_frag H P L kl cls h13 macLen ver hv x s hs d b f newly t' hms hsplit hinc
      (by omega) m car
    rw [after_switches, Lemmas.RecLayer.sget_set, set_set] at b2 b3
    change max x'.c.seq x'.s.seq ≤ _ at b3
    refine ⟨t', b2, hrest, ?_, by simp only [costF]; omega⟩
    intro d'
    show dirPlain d' (Session.handleRecord _ m s ⟨(protect P L cls ver (x.get d) 22 b f).2, car⟩ d).traffic = _
    rw [b1]; simp [outF]
  | app pt f =>
    simp only [costF] at hq
    obtain ⟨c1, c2, c3, c4⟩ := handleRecord_app H P L kl cls macLen ver hv x s hs d pt f
      (sendOk_13 cls h13 macLen pt f) (by omega) m car
    change x'.c.seq ≤ _ at c3
    change x'.s.seq ≤ _ at c4
    refine ⟨bf d, by rw [updB_self]; exact c2, hplan, ?_, by simp only [costF]; exact Nat.max_le.mpr ⟨by omega, by omega⟩⟩
    intro d'
    show dirPlain d' (Session.handleRecord _ m s ⟨(protect P L cls ver (x.get d) 23 pt f).2, car⟩ d).traffic = _
    rw [c1, dirPlain_push]
    simp [outF]

/-- TLS 1.3 after the ServerHello with handshake messages FRAGMENTED anywhere, `-a` on or off: over any interleaving of
    the two sides' records the session exports, per direction, `streamF` -/
theorem run_mergeFm (H : Crypto.Prims) (P : Prims) (L : SealLaws P) (kl : List Keylog.Key) (cls : CipherClass)
    (h13 : cls.is13 = true) (macLen : Nat) (ver : Bytes) (hv : ver.length = 2) (m : Bool) (M : List (Session.Rec × Bool)) :
    ∀ (x : Snd) (s : Session.St Dec) (rem : Bool → List FEv) (bf : Bool → Bytes), ReadyB cls macLen x s bf →
      (∀ d, Plan (bf d) (rem d)) →
      (∀ d, (M.filter fun q => q.2 == d).map (·.1.raw) = sendDirF P L cls ver (x.get d) (rem d)) →
      max x.c.seq x.s.seq + (costF (rem false) + costF (rem true)) ≤ seqLimit →
      ∀ d, dirPlain d (Session.run (Pipeline.ops H P kl) m s M).traffic
        = dirPlain d s.traffic ++ streamF m P L cls ver (x.get d) (rem d) := by
  induction M with
  | nil =>
    intro x s rem bf _ _ hfil _ d
    have := sendDirF_eq_nil P L cls ver _ _ (hfil d).symm
    simp [Session.run, this, streamF]
  | cons q M' ih =>
    intro x s rem bf hs hplan hfil hq d
    obtain ⟨r, d0⟩ := q
    have h0 := hfil d0
    rw [filter_dir_cons_same, List.map_cons] at h0
    cases hrem : rem d0 with
    | nil => rw [hrem] at h0; cases h0
    | cons e rest =>
      rw [hrem, sendDirF_cons] at h0
      simp only [List.cons.injEq] at h0
      obtain ⟨hraw, htail⟩ := h0
      have hr : r = ⟨evRawF P L cls ver (x.get d0) e, r.carriers⟩ := by
        have hraw' : r.raw = evRawF P L cls ver (x.get d0) e := hraw
        rw [← hraw']
      have hcost : costF [e] + costF rest + costF (rem (!d0)) ≤ costF (rem false) + costF (rem true) := by
        have := costF_cons e rest
        cases d0
        · simp only [Bool.not_false, hrem] at *; omega
        · simp only [Bool.not_true, hrem] at *; omega
      obtain ⟨t', g1, g2, g4, g5⟩ := stepFm H P L kl cls h13 macLen ver hv m x s hs d0 e rest r.carriers
        (hrem ▸ hplan d0) (by omega)
      rw [← hr] at g1 g4
      have hplan' : ∀ d', Plan (updB bf d0 t' d') (updF rem d0 rest d') := by
        intro d'
        by_cases hd : d' = d0
        · subst hd; simpa [updF, updB] using g2
        · simp only [updF, updB, hd, if_false]; exact hplan d'
      have hfil' : ∀ d', (M'.filter fun q => q.2 == d').map (·.1.raw)
          = sendDirF P L cls ver ((x.set d0 (evNextF P L cls ver (x.get d0) e)).get d') (updF rem d0 rest d') := by
        intro d'
        by_cases hd : d' = d0
        · subst hd
          rw [Lemmas.RecLayer.sget_set]
          simpa [updF] using htail
        · rw [sget_set_ne _ _ _ _ hd]
          simp only [updF, hd, if_false]
          rw [← hfil d', filter_dir_cons_other _ _ _ _ hd]
      have hq' : max (x.set d0 (evNextF P L cls ver (x.get d0) e)).c.seq (x.set d0 (evNextF P L cls ver (x.get d0) e)).s.seq
          + (costF (updF rem d0 rest false) + costF (updF rem d0 rest true)) ≤ seqLimit := by
        have : costF (updF rem d0 rest false) + costF (updF rem d0 rest true) = costF rest + costF (rem (!d0)) := by
          cases d0 <;> simp [updF] <;> omega
        rw [this]; omega
      have := ih _ _ (updF rem d0 rest) (updB bf d0 t') g1 hplan' hfil' hq' d
      simp only [Session.run, List.foldl_cons] at this ⊢
      rw [this, g4 d]
      by_cases hd : d = d0
      · subst hd
        simp only [updF, if_true, hrem, Lemmas.RecLayer.sget_set]
        rw [streamF, List.append_assoc]
      · simp [updF, hd, sget_set_ne _ _ _ _ hd]

/-! ### B. the capstones from the release order -/

open TLX.Props.C01Capstone in
theorem tls13_fragmented_of_release (H : Crypto.Prims) (P : Prims) (L : SealLaws P) (kl : List Keylog.Key)
    (info : Nat → Pipeline.Info) (c : Pipeline.Conn) (hmeta : c.opts.metadata = false)
    -- the connection as sent
    (t : TranscriptF) (hch : t.ch.WellFormed) (hsh : t.sh.WellFormed) (hrc : t.rvC.length = 2) (hrs : t.rvS.length = 2)
    (hv : t.ver.length = 2) (hcomp : t.sh.compressionMethod = 0) (hneg : Negotiated t.rvS t.sh .tls13)
    -- suite table (C14), key log (C09), key schedule (C15), as in `genKeys_installs_rel_13`
    (ps : CipherSuite.Params) (hres : CipherSuite.resolve (Bytes.beNat t.sh.cipherSuite) = some ps)
    (a : Pipeline.SuiteArgs) (hargs : Pipeline.suiteArgs ps = some a)
    (f : Keylog.Key) (fs : List Keylog.Key)
    (hfound : Keylog.findSessionSecrets kl (Pipeline.natsOfBytes t.ch.random) = f :: fs)
    (secrets : List KeySchedule.Secret) (hsec : Pipeline.secretsOf true (f :: fs) = some secrets)
    (k : KeySchedule.Installed13)
    (hgen : KeySchedule.generateKeys H .tls13 a.ks secrets t.ch.random t.sh.random = .ok (some (.tls13 k)))
    (chk chiv cak caiv shk shiv sak saiv : Bytes)
    (hk : k.clientHsKey = some chk ∧ k.clientHsIv = some chiv ∧ k.clientAppKey = some cak ∧ k.clientAppIv = some caiv ∧
      k.serverHsKey = some shk ∧ k.serverHsIv = some shiv ∧ k.serverAppKey = some sak ∧ k.serverAppIv = some saiv)
    (cls : CipherClass)
    (hcls : classOf a.bulk .tls13
      (Session.extGet ((t.sh.extensions.getD []).map extPair) [0x00, 0x16]).isSome a.tagLen = some cls)
    (h1 : KeyMatOk cls chk chiv) (h2 : KeyMatOk cls cak caiv) (h3 : KeyMatOk cls shk shiv) (h4 : KeyMatOk cls sak saiv)
    -- what follows the hellos
    (hfc : FragConform t.cF) (hfs : FragConform t.sF)
    (hwr : ∀ d, ∀ r ∈ t.records P L cls ⟨SDir.init chk chiv cak caiv, SDir.init shk shiv sak saiv⟩ d, WholeRecord r)
    (hlen : costF t.cF + costF t.sF ≤ seqLimit)
    -- the capture
    (hproj : ∀ d, ((connRecs info c).filter fun q => q.2 == d).map (·.1.raw)
      = t.records P L cls ⟨SDir.init chk chiv cak caiv, SDir.init shk shiv sak saiv⟩ d)
    (hcausal : Causal13 (connRecs info c)) :
    ∃ frames, Pipeline.connOut H P info c kl = some (frames.map (Pipeline.addressed c.opts c)) ∧
      Spec.reassemble frames = some (plainOfF t.cF, plainOfF t.sF) ∧
      TimesFromCarriers info c frames := by
  apply export_of_dirPlain
  rw [hmeta]
  have hC := hproj false
  have hS := hproj true
  simp only [TranscriptF.records, Bool.false_eq_true, if_false, if_true] at hC hS
  obtain ⟨⟨r0, d0⟩, ⟨r1, d1⟩, M', hM, hd0, hd1⟩ := hcausal
  simp only at hd0 hd1
  subst hd0 hd1
  rw [hM] at hC hS ⊢
  rw [filter_dir_cons_same, filter_dir_cons_other _ _ _ _ (by decide), List.map_cons] at hC
  rw [filter_dir_cons_other _ _ _ _ (by decide), filter_dir_cons_same, List.map_cons] at hS
  simp only [List.cons.injEq] at hC hS
  obtain ⟨hc1, hC'⟩ := hC
  obtain ⟨hs1, hS'⟩ := hS
  have hr0 : r0 = ⟨t.chRecord, r0.carriers⟩ := by have h : r0.raw = t.chRecord := hc1; rw [← h]
  have hr1 : r1 = ⟨t.shRecord, r1.carriers⟩ := by have h : r1.raw = t.shRecord := hs1; rw [← h]
  have h0 : (Session.St.init : Session.St Dec).srvCC = false ∧ (Session.St.init : Session.St Dec).cliCC = false :=
    ⟨rfl, rfl⟩
  obtain ⟨g1, _, g3⟩ := server_hello_installs H P kl false Session.St.init h0 t.ch hch t.sh hsh t.rvC t.rvS hrc hrs
    r0.carriers r1.carriers .tls13 hneg
  obtain ⟨dd, hinst, hR⟩ := genKeys_installs_rel_13 H P kl t.sh.cipherSuite t.ch.random t.sh.random
    ((t.sh.extensions.getD []).map extPair) hsh.2.2.2.1 ps hres a hargs f fs hfound secrets hsec k hgen
    chk chiv cak caiv shk shiv sak saiv hk cls hcls h1 h2 h3 h4
  rw [hcomp, hinst] at g3
  simp only at g3
  have h13 : cls.is13 = true := by rw [(classOf_spec _ _ _ _ cls hcls).2.2.2]; rfl
  have ht1 : (⟨t.chRecord, r0.carriers⟩ : Session.Rec).typ = some 0x16 := record_typ 22 _ _ _
  have ht2 : (⟨t.shRecord, r1.carriers⟩ : Session.Rec).typ = some 0x16 := record_typ 22 _ _ _
  have htr1 := Props.C13.hello_records_silent (Pipeline.ops H P kl) Session.St.init ⟨t.chRecord, r0.carriers⟩ false ht1
  have htr2 := Props.C13.hello_records_silent (Pipeline.ops H P kl)
    (Session.handleRecord (Pipeline.ops H P kl) false Session.St.init ⟨t.chRecord, r0.carriers⟩ false)
    ⟨t.shRecord, r1.carriers⟩ true ht2
  have hready : Ready cls (KeySchedule.macSuite H a.ks.mac).outLen
      ⟨SDir.init chk chiv cak caiv, SDir.init shk shiv sak saiv⟩
      (Session.handleRecord (Pipeline.ops H P kl) false
        (Session.handleRecord (Pipeline.ops H P kl) false Session.St.init ⟨t.chRecord, r0.carriers⟩ false)
        ⟨t.shRecord, r1.carriers⟩ true) :=
    ⟨⟨g3.1, ⟨.tls13, g1, ⟨fun _ => h13, fun _ => rfl⟩⟩, dd, g3.2, hR⟩,
      hello_pair_bufs _ false Session.St.init h0 t.rvC t.rvS hrc hrs t.ch hch t.sh r0.carriers r1.carriers⟩
  rw [hr0, hr1]
  have hmerge := run_mergeF H P L kl cls h13 _ t.ver hv M'
    ⟨SDir.init chk chiv cak caiv, SDir.init shk shiv sak saiv⟩ _
    (fun d => if d then t.sF else t.cF) (fun _ => []) hready
    (by intro d; cases d; exact plan_of_conform _ hfc; exact plan_of_conform _ hfs)
    (by intro d; cases d; exact hC'; exact hS')
    (by simp only [SDir.init] at hlen ⊢; simpa using hlen)
  intro d
  simp only [Session.run, List.foldl_cons] at hmerge ⊢
  rw [hmerge d, htr2, htr1]
  cases d <;> rfl

open TLX.Props.C01Capstone in
theorem tls13_fragmented_meta_of_release (H : Crypto.Prims) (P : Prims) (L : SealLaws P) (kl : List Keylog.Key)
    (info : Nat → Pipeline.Info) (c : Pipeline.Conn) (hmeta : c.opts.metadata = true)
    -- the connection as sent
    (t : TranscriptF) (hch : t.ch.WellFormed) (hsh : t.sh.WellFormed) (hrc : t.rvC.length = 2) (hrs : t.rvS.length = 2)
    (hv : t.ver.length = 2) (hcomp : t.sh.compressionMethod = 0) (hneg : Negotiated t.rvS t.sh .tls13)
    -- suite table (C14), key log (C09), key schedule (C15), as in `genKeys_installs_rel_13`
    (ps : CipherSuite.Params) (hres : CipherSuite.resolve (Bytes.beNat t.sh.cipherSuite) = some ps)
    (a : Pipeline.SuiteArgs) (hargs : Pipeline.suiteArgs ps = some a)
    (f : Keylog.Key) (fs : List Keylog.Key)
    (hfound : Keylog.findSessionSecrets kl (Pipeline.natsOfBytes t.ch.random) = f :: fs)
    (secrets : List KeySchedule.Secret) (hsec : Pipeline.secretsOf true (f :: fs) = some secrets)
    (k : KeySchedule.Installed13)
    (hgen : KeySchedule.generateKeys H .tls13 a.ks secrets t.ch.random t.sh.random = .ok (some (.tls13 k)))
    (chk chiv cak caiv shk shiv sak saiv : Bytes)
    (hk : k.clientHsKey = some chk ∧ k.clientHsIv = some chiv ∧ k.clientAppKey = some cak ∧ k.clientAppIv = some caiv ∧
      k.serverHsKey = some shk ∧ k.serverHsIv = some shiv ∧ k.serverAppKey = some sak ∧ k.serverAppIv = some saiv)
    (cls : CipherClass)
    (hcls : classOf a.bulk .tls13
      (Session.extGet ((t.sh.extensions.getD []).map extPair) [0x00, 0x16]).isSome a.tagLen = some cls)
    (h1 : KeyMatOk cls chk chiv) (h2 : KeyMatOk cls cak caiv) (h3 : KeyMatOk cls shk shiv) (h4 : KeyMatOk cls sak saiv)
    -- what follows the hellos
    (hfc : FragConform t.cF) (hfs : FragConform t.sF)
    (hwr : ∀ d, ∀ r ∈ t.records P L cls ⟨SDir.init chk chiv cak caiv, SDir.init shk shiv sak saiv⟩ d, WholeRecord r)
    (hlen : costF t.cF + costF t.sF ≤ seqLimit)
    -- the capture
    (hproj : ∀ d, ((connRecs info c).filter fun q => q.2 == d).map (·.1.raw)
      = t.records P L cls ⟨SDir.init chk chiv cak caiv, SDir.init shk shiv sak saiv⟩ d)
    (hcausal : Causal13 (connRecs info c)) :
    ∃ frames, Pipeline.connOut H P info c kl = some (frames.map (Pipeline.addressed c.opts c)) ∧
      Spec.reassemble frames = some
        (t.chRecord ++ streamF true P L cls t.ver (SDir.init chk chiv cak caiv) t.cF,
         t.shRecord ++ streamF true P L cls t.ver (SDir.init shk shiv sak saiv) t.sF) ∧
      TimesFromCarriers info c frames := by
  apply export_of_dirPlain
  rw [hmeta]
  have hC := hproj false
  have hS := hproj true
  simp only [TranscriptF.records, Bool.false_eq_true, if_false, if_true] at hC hS
  obtain ⟨⟨r0, d0⟩, ⟨r1, d1⟩, M', hM, hd0, hd1⟩ := hcausal
  simp only at hd0 hd1
  subst hd0 hd1
  rw [hM] at hC hS ⊢
  rw [filter_dir_cons_same, filter_dir_cons_other _ _ _ _ (by decide), List.map_cons] at hC
  rw [filter_dir_cons_other _ _ _ _ (by decide), filter_dir_cons_same, List.map_cons] at hS
  simp only [List.cons.injEq] at hC hS
  obtain ⟨hc1, hC'⟩ := hC
  obtain ⟨hs1, hS'⟩ := hS
  have hr0 : r0 = ⟨t.chRecord, r0.carriers⟩ := by have h : r0.raw = t.chRecord := hc1; rw [← h]
  have hr1 : r1 = ⟨t.shRecord, r1.carriers⟩ := by have h : r1.raw = t.shRecord := hs1; rw [← h]
  have h0 : (Session.St.init : Session.St Dec).srvCC = false ∧ (Session.St.init : Session.St Dec).cliCC = false :=
    ⟨rfl, rfl⟩
  obtain ⟨g1, _, g3⟩ := server_hello_installs H P kl true Session.St.init h0 t.ch hch t.sh hsh t.rvC t.rvS hrc hrs
    r0.carriers r1.carriers .tls13 hneg
  obtain ⟨dd, hinst, hR⟩ := genKeys_installs_rel_13 H P kl t.sh.cipherSuite t.ch.random t.sh.random
    ((t.sh.extensions.getD []).map extPair) hsh.2.2.2.1 ps hres a hargs f fs hfound secrets hsec k hgen
    chk chiv cak caiv shk shiv sak saiv hk cls hcls h1 h2 h3 h4
  rw [hcomp, hinst] at g3
  simp only at g3
  have h13 : cls.is13 = true := by rw [(classOf_spec _ _ _ _ cls hcls).2.2.2]; rfl
  have ht1 : (⟨t.chRecord, r0.carriers⟩ : Session.Rec).typ = some 0x16 := record_typ 22 _ _ _
  have ht2 : (⟨t.shRecord, r1.carriers⟩ : Session.Rec).typ = some 0x16 := record_typ 22 _ _ _
  have hst1 := Session.handleRecord_strip (Pipeline.ops H P kl) Session.St.init ⟨t.chRecord, r0.carriers⟩ false
  have hi0 : (Session.St.init : Session.St Dec).strip = Session.St.init := rfl
  rw [hi0] at hst1
  have hf1 := handle_hs_flags (Pipeline.ops H P kl) Session.St.init ⟨t.chRecord, r0.carriers⟩ false ht1 h0
  have hfl1 : (Session.handleRecord (Pipeline.ops H P kl) true Session.St.init ⟨t.chRecord, r0.carriers⟩ false).srvCC = false ∧
      (Session.handleRecord (Pipeline.ops H P kl) true Session.St.init ⟨t.chRecord, r0.carriers⟩ false).cliCC = false := by
    have a := congrArg Session.St.srvCC hst1
    have b := congrArg Session.St.cliCC hst1
    simp only [Session.strip_srvCC, Session.strip_cliCC] at a b
    exact ⟨a.trans hf1.1, b.trans hf1.2⟩
  obtain ⟨_, chrest, hchd⟩ := clientHello_layout t.ch hch
  obtain ⟨shrest, hshd⟩ : ∃ rest, Spec.TlsHello.encodeServerHello t.sh = 2 :: rest :=
    ⟨_, by simp only [Spec.TlsHello.encodeServerHello, Spec.TlsHello.handshake, Lemmas.TlsHello.u8_eq, List.cons_append,
      List.nil_append]; rfl⟩
  have htr1 := handle_hello_meta (Pipeline.ops H P kl) Session.St.init ⟨t.chRecord, r0.carriers⟩ false ht1 h0 1 chrest
    (by rw [TranscriptF.chRecord, record_body 22 _ _ _ hrc, hchd]) (Or.inl rfl)
  have htr2 := handle_hello_meta (Pipeline.ops H P kl) _ ⟨t.shRecord, r1.carriers⟩ true ht2 hfl1 2 shrest
    (by rw [TranscriptF.shRecord, record_body 22 _ _ _ hrs, hshd]) (Or.inr rfl)
  have hready : Ready cls (KeySchedule.macSuite H a.ks.mac).outLen
      ⟨SDir.init chk chiv cak caiv, SDir.init shk shiv sak saiv⟩
      (Session.handleRecord (Pipeline.ops H P kl) true
        (Session.handleRecord (Pipeline.ops H P kl) true Session.St.init ⟨t.chRecord, r0.carriers⟩ false)
        ⟨t.shRecord, r1.carriers⟩ true) :=
    ⟨⟨g3.1, ⟨.tls13, g1, ⟨fun _ => h13, fun _ => rfl⟩⟩, dd, g3.2, hR⟩,
      hello_pair_bufs _ true Session.St.init h0 t.rvC t.rvS hrc hrs t.ch hch t.sh r0.carriers r1.carriers⟩
  rw [hr0, hr1]
  have hmerge := run_mergeFm H P L kl cls h13 _ t.ver hv true M'
    ⟨SDir.init chk chiv cak caiv, SDir.init shk shiv sak saiv⟩ _
    (fun d => if d then t.sF else t.cF) (fun _ => []) hready
    (by intro d; cases d; exact plan_of_conform _ hfc; exact plan_of_conform _ hfs)
    (by intro d; cases d; exact hC'; exact hS')
    (by simp only [SDir.init] at hlen ⊢; simpa using hlen)
  intro d
  simp only [Session.run, List.foldl_cons] at hmerge ⊢
  rw [hmerge d, htr2, htr1]
  cases d <;> simp [dirPlain, Snd.get, Session.St.init]

open TLX.Props.C01Capstone in
theorem tls12_meta_of_release (H : Crypto.Prims) (P : Prims) (L : SealLaws P) (kl : List Keylog.Key)
    (info : Nat → Pipeline.Info) (c : Pipeline.Conn) (hmeta : c.opts.metadata = true)
    -- the connection as sent
    (t : Transcript) (hch : t.ch.WellFormed) (hsh : t.sh.WellFormed) (hrc : t.rvC.length = 2) (hrs : t.rvS.length = 2)
    (hv : t.ver.length = 2) (hcomp : t.sh.compressionMethod = 0)
    (v : Session.Ver) (hvne : v ≠ .tls13) (hneg : Negotiated t.rvS t.sh v)
    -- suite table (C14), key log (C09), key schedule (C15), as in `genKeys_installs_rel_legacy`
    (ps : CipherSuite.Params) (hres : CipherSuite.resolve (Bytes.beNat t.sh.cipherSuite) = some ps)
    (a : Pipeline.SuiteArgs) (hargs : Pipeline.suiteArgs ps = some a)
    (f : Keylog.Key) (fs : List Keylog.Key)
    (hfound : (Keylog.findSessionSecrets kl (Pipeline.natsOfBytes t.ch.random)).filter
        (fun k => k.label == Keylog.s_CLIENT_RANDOM || k.label == Keylog.s_RSA) = f :: fs)
    (secrets : List KeySchedule.Secret) (hsec : Pipeline.secretsOf false (f :: fs) = some secrets)
    (k : KeySchedule.Keys6)
    (hgen : KeySchedule.generateKeys H (Pipeline.ksVersion v) a.ks secrets t.ch.random t.sh.random
      = .ok (some (.legacy k)))
    (cls : CipherClass)
    (hcls : classOf a.bulk (Pipeline.rlVersion v)
      (Session.extGet ((t.sh.extensions.getD []).map extPair) [0x00, 0x16]).isSome a.tagLen = some cls)
    (hmac : 0 < (KeySchedule.macSuite H a.ks.mac).outLen)
    (hck : KeyMatOk cls k.clientKey k.clientIv) (hsk : KeyMatOk cls k.serverKey k.serverIv)
    -- what follows the hellos
    (hsc : Script12 t.cEvs) (hss : Script12 t.sEvs)
    (hokc : ∀ e ∈ t.cEvs, EvOk1 cls (KeySchedule.macSuite H a.ks.mac).outLen e)
    (hoks : ∀ e ∈ t.sEvs, EvOk1 cls (KeySchedule.macSuite H a.ks.mac).outLen e)
    (hwr : ∀ d, ∀ r ∈ t.records P L cls (legacySnd k) d, WholeRecord r)
    (hlen : t.cEvs.length + t.sEvs.length ≤ seqLimit)
    -- the capture
    (hproj : ∀ d, ((connRecs info c).filter fun q => q.2 == d).map (·.1.raw) = t.records P L cls (legacySnd k) d)
    (hcausal : Causal13 (connRecs info c)) :
    ∃ frames, Pipeline.connOut H P info c kl = some (frames.map (Pipeline.addressed c.opts c)) ∧
      Spec.reassemble frames = some
        (t.chRecord ++ metaStream12 P L cls t.ver (legacySnd k).c t.cEvs,
         t.shRecord ++ metaStream12 P L cls t.ver (legacySnd k).s t.sEvs) ∧
      TimesFromCarriers info c frames := by
  apply export_of_dirPlain
  rw [hmeta]
  have hC := hproj false
  have hS := hproj true
  simp only [Transcript.records, Bool.false_eq_true, if_false, if_true] at hC hS
  obtain ⟨⟨r0, d0⟩, ⟨r1, d1⟩, M', hM, hd0, hd1⟩ := hcausal
  simp only at hd0 hd1
  subst hd0 hd1
  rw [hM] at hC hS ⊢
  rw [filter_dir_cons_same, filter_dir_cons_other _ _ _ _ (by decide), List.map_cons] at hC
  rw [filter_dir_cons_other _ _ _ _ (by decide), filter_dir_cons_same, List.map_cons] at hS
  simp only [List.cons.injEq] at hC hS
  obtain ⟨hc1, hC'⟩ := hC
  obtain ⟨hs1, hS'⟩ := hS
  have hr0 : r0 = ⟨t.chRecord, r0.carriers⟩ := by have h : r0.raw = t.chRecord := hc1; rw [← h]
  have hr1 : r1 = ⟨t.shRecord, r1.carriers⟩ := by have h : r1.raw = t.shRecord := hs1; rw [← h]
  have h0 : (Session.St.init : Session.St Dec).srvCC = false ∧ (Session.St.init : Session.St Dec).cliCC = false :=
    ⟨rfl, rfl⟩
  obtain ⟨g1, _, g3⟩ := server_hello_installs H P kl true Session.St.init h0 t.ch hch t.sh hsh t.rvC t.rvS hrc hrs
    r0.carriers r1.carriers v hneg
  obtain ⟨dd, hinst, hR⟩ := genKeys_installs_rel_legacy H P L kl v hvne t.sh.cipherSuite t.ch.random t.sh.random
    ((t.sh.extensions.getD []).map extPair) hsh.2.2.2.1 ps hres a hargs f fs hfound secrets hsec k hgen cls hcls hmac hck hsk
  rw [hcomp, hinst] at g3
  simp only at g3
  have hrl : Pipeline.rlVersion v ≠ .tls13 := rl_ne13 v hvne
  have h13 : cls.is13 = false := by
    rw [(classOf_spec _ _ _ _ cls hcls).2.2.2]; simpa using hrl
  have ht1 : (⟨t.chRecord, r0.carriers⟩ : Session.Rec).typ = some 0x16 := record_typ 22 _ _ _
  have ht2 : (⟨t.shRecord, r1.carriers⟩ : Session.Rec).typ = some 0x16 := record_typ 22 _ _ _
  -- flags: the `-a` run and the run without `-a` agree on everything but the traffic (`handleRecord_strip`)
  have hst1 := Session.handleRecord_strip (Pipeline.ops H P kl) Session.St.init ⟨t.chRecord, r0.carriers⟩ false
  have hst2 := Session.handleRecord_strip (Pipeline.ops H P kl)
    (Session.handleRecord (Pipeline.ops H P kl) true Session.St.init ⟨t.chRecord, r0.carriers⟩ false)
    ⟨t.shRecord, r1.carriers⟩ true
  have hi0 : (Session.St.init : Session.St Dec).strip = Session.St.init := rfl
  rw [hi0] at hst1
  rw [hst1] at hst2
  have hf1 := handle_hs_flags (Pipeline.ops H P kl) Session.St.init ⟨t.chRecord, r0.carriers⟩ false ht1 h0
  have hf2 := handle_hs_flags (Pipeline.ops H P kl) _ ⟨t.shRecord, r1.carriers⟩ true ht2 hf1
  have hfl1 : (Session.handleRecord (Pipeline.ops H P kl) true Session.St.init ⟨t.chRecord, r0.carriers⟩ false).srvCC = false ∧
      (Session.handleRecord (Pipeline.ops H P kl) true Session.St.init ⟨t.chRecord, r0.carriers⟩ false).cliCC = false := by
    have a := congrArg Session.St.srvCC hst1
    have b := congrArg Session.St.cliCC hst1
    simp only [Session.strip_srvCC, Session.strip_cliCC] at a b
    exact ⟨a.trans hf1.1, b.trans hf1.2⟩
  have hfl2 : (Session.handleRecord (Pipeline.ops H P kl) true
        (Session.handleRecord (Pipeline.ops H P kl) true Session.St.init ⟨t.chRecord, r0.carriers⟩ false)
        ⟨t.shRecord, r1.carriers⟩ true).srvCC = false ∧
      (Session.handleRecord (Pipeline.ops H P kl) true
        (Session.handleRecord (Pipeline.ops H P kl) true Session.St.init ⟨t.chRecord, r0.carriers⟩ false)
        ⟨t.shRecord, r1.carriers⟩ true).cliCC = false := by
    have a := congrArg Session.St.srvCC hst2
    have b := congrArg Session.St.cliCC hst2
    simp only [Session.strip_srvCC, Session.strip_cliCC] at a b
    exact ⟨a.trans hf2.1, b.trans hf2.2⟩
  -- traffic after the hellos: the two records verbatim
  obtain ⟨_, chrest, hchd⟩ := clientHello_layout t.ch hch
  obtain ⟨shrest, hshd⟩ : ∃ rest, Spec.TlsHello.encodeServerHello t.sh = 2 :: rest :=
    ⟨_, by simp only [Spec.TlsHello.encodeServerHello, Spec.TlsHello.handshake, Lemmas.TlsHello.u8_eq, List.cons_append,
      List.nil_append]; rfl⟩
  have htr1 := handle_hello_meta (Pipeline.ops H P kl) Session.St.init ⟨t.chRecord, r0.carriers⟩ false ht1 h0 1 chrest
    (by rw [Transcript.chRecord, record_body 22 _ _ _ hrc, hchd]) (Or.inl rfl)
  have htr2 := handle_hello_meta (Pipeline.ops H P kl) _ ⟨t.shRecord, r1.carriers⟩ true ht2 hfl1 2 shrest
    (by rw [Transcript.shRecord, record_body 22 _ _ _ hrs, hshd]) (Or.inr rfl)
  have hready : Ready cls (KeySchedule.macSuite H a.ks.mac).outLen (legacySnd k)
      (Session.handleRecord (Pipeline.ops H P kl) true
        (Session.handleRecord (Pipeline.ops H P kl) true Session.St.init ⟨t.chRecord, r0.carriers⟩ false)
        ⟨t.shRecord, r1.carriers⟩ true) :=
    ⟨⟨g3.1, ⟨v, g1, ⟨fun h => absurd h hvne, fun h => by rw [h13] at h; cases h⟩⟩, dd, g3.2, hR⟩,
      hello_pair_bufs _ true Session.St.init h0 t.rvC t.rvS hrc hrs t.ch hch t.sh r0.carriers r1.carriers⟩
  rw [hr0, hr1]
  have hmerge := run_merge12m H P L kl cls h13 _ t.ver hv M' (legacySnd k) _
    (fun d => if d then t.sEvs else t.cEvs) hready
    (by
      intro d
      cases d
      · exact Or.inl ⟨by simp [ccOf, hfl2.2], hsc⟩
      · exact Or.inl ⟨by simp [ccOf, hfl2.1], hss⟩)
    (by intro d e he; cases d; exact hokc e he; exact hoks e he)
    (by intro d; cases d; exact hC'; exact hS')
    (by
      have h1 := length_by_dir M'
      have h2 := congrArg List.length hC'
      have h3 := congrArg List.length hS'
      simp only [List.length_map, sendDir_length] at h2 h3
      simp only [legacySnd, SDir.init]
      omega)
  intro d
  simp only [Session.run, List.foldl_cons] at hmerge ⊢
  rw [hmerge d, htr2, htr1]
  cases d <;> simp [dirPlain, Snd.get, legacySnd, Session.St.init]

end TLX.Lemmas.C01All
