/-
Helper lemmas for C17, list level: the parse loop on the concatenated encodings of a well-formed
frame sequence; facts about the loop on arbitrary bytes.
-/
import TLX.Lemmas.QuicFrames
set_option linter.unusedSimpArgs false
set_option linter.unusedVariables false
namespace TLX.Lemmas.QuicFrameSeq
open TLX TLX.Quic TLX.Quic.Varint TLX.Quic.Frame TLX.Spec.QuicFrames TLX.Lemmas.QuicVarint TLX.Lemmas.QuicFrames

/-! ### unfolding the loop -/

theorem parseFrames_nil : parseFrames [] = some [] := by
  rw [parseFrames]; simp

theorem parseFrames_step (p : Bytes) (hp : p ≠ []) :
    parseFrames p = (parseOne p).bind fun f => (parseFrames (p.drop f.length)).map (f :: ·) := by
  rw [parseFrames]
  have : ¬ p.length = 0 := by
    intro h; exact hp (List.eq_nil_of_length_eq_zero h)
  rw [dif_neg this]
  split <;> simp [*]

theorem parseFrames_some_step (p : Bytes) (hp : p ≠ []) (fs : List Parsed) (h : parseFrames p = some fs) :
    ∃ f rest, parseOne p = some f ∧ parseFrames (p.drop f.length) = some rest ∧ fs = f :: rest := by
  rw [parseFrames_step p hp] at h
  simp only [Option.bind_eq_some_iff, Option.map_eq_some_iff] at h
  obtain ⟨f, h1, rest, h2, h3⟩ := h
  exact ⟨f, rest, h1, h2, h3.symm⟩

/-! ### facts about the encoder -/

theorem toParsed_length (f : QFrame) (hwf : f.wf) : f.toParsed.length = f.encode.length := by
  cases f <;> simp [QFrame.toParsed, Parsed.length, QFrame.encode]
  case pathChallenge d => have : d.length = 8 := hwf; omega
  case pathResponse d => have : d.length = 8 := hwf; omega

theorem streamType_ne_zero (fin l o : Bool) : UInt8.ofNat (streamType fin l o) ≠ 0 := by
  cases fin <;> cases l <;> cases o <;> decide

/-- A well-formed frame that is not PADDING starts with a non-zero type byte. -/
theorem encode_head (f : QFrame) (hnp : f.isPadding = false) : ∃ t r, f.encode = t :: r ∧ t ≠ 0 := by
  cases f <;> simp [QFrame.isPadding] at hnp <;> simp [QFrame.encode]
  case ack l d c fr rs ecn => cases ecn <;> simp
  case stream fin sid off lw data => exact streamType_ne_zero _ _ _
  case maxStreams uni m => cases uni <;> simp
  case streamsBlocked uni m => cases uni <;> simp
  case connectionClose e ft lw r => cases ft <;> simp
  case datagram lw d => cases lw <;> simp

theorem encode_ne_nil (f : QFrame) (hwf : f.wf) : f.encode ≠ [] := by
  cases hp : f.isPadding
  · obtain ⟨t, r, h, _⟩ := encode_head f hp
    rw [h]; simp
  · cases f <;> simp [QFrame.isPadding] at hp
    case padding n =>
      have : 1 ≤ n := hwf
      simp [QFrame.encode]; omega

theorem encodeAll_cons (f : QFrame) (fs : List QFrame) : encodeAll (f :: fs) = f.encode ++ encodeAll fs := by
  simp [encodeAll]

theorem wfSeq_cons (f : QFrame) (rest : List QFrame) :
    WellFormedSeq (f :: rest) ↔ f.wf ∧ (rest ≠ [] → f.greedy = false) ∧ WellFormedSeq rest := by
  cases rest <;> simp [WellFormedSeq]

/-- No two PADDING runs next to each other. -/
def NoAdjPad : List QFrame → Prop
  | [] => True
  | [_] => True
  | f :: g :: rest => ¬ (f.isPadding = true ∧ g.isPadding = true) ∧ NoAdjPad (g :: rest)

theorem noAdjPad_cons (f : QFrame) (rest : List QFrame) :
    NoAdjPad (f :: rest) ↔ (f.isPadding = true → ∀ g, rest.head? = some g → g.isPadding = false) ∧ NoAdjPad rest := by
  cases rest <;> simp [NoAdjPad]

/-- The loop on the payload of a well-formed sequence without adjacent PADDING runs returns the frames. -/
theorem parseFrames_encodeAll (gs : List QFrame) (hwf : WellFormedSeq gs) (hn : NoAdjPad gs) :
    parseFrames (encodeAll gs) = some (gs.map QFrame.toParsed) := by
  induction gs with
  | nil => simp [encodeAll, parseFrames_nil]
  | cons g rest ih =>
    obtain ⟨hg, hgr, hrest⟩ := (wfSeq_cons g rest).mp hwf
    obtain ⟨hpad, hnrest⟩ := (noAdjPad_cons g rest).mp hn
    rw [encodeAll_cons]
    have hne : g.encode ++ encodeAll rest ≠ [] := by
      intro h; exact encode_ne_nil g hg (List.append_eq_nil_iff.mp h).1
    have h1 : parseOne (g.encode ++ encodeAll rest) = some g.toParsed := by
      apply parseOne_encode g hg
      · intro hgreedy
        cases rest with
        | nil => rfl
        | cons g' r => rw [hgr (by simp)] at hgreedy; cases hgreedy
      · intro hp
        cases rest with
        | nil => simp [encodeAll]
        | cons g' r =>
          have hg' := hpad hp g' rfl
          obtain ⟨t, r', he, ht⟩ := encode_head g' hg'
          rw [encodeAll_cons, he]
          simp [ht]
    rw [parseFrames_step _ hne, h1]
    simp only [Option.bind_some, toParsed_length g hg, List.drop_left, ih hrest hnrest, Option.map_some, List.map_cons]

/-! ### normalisation of PADDING runs -/

theorem normalize_nonpad (f : QFrame) (rest : List QFrame) (h : f.isPadding = false) :
    normalize (f :: rest) = f :: normalize rest := by
  cases f <;> simp [QFrame.isPadding] at h <;> simp [normalize]

theorem normalize_pad_cases (a : Nat) (rest : List QFrame) :
    (normalize rest = [] ∧ normalize (.padding a :: rest) = [.padding a]) ∨
    (∃ b r, normalize rest = .padding b :: r ∧ normalize (.padding a :: rest) = .padding (a + b) :: r) ∨
    (∃ g r, normalize rest = g :: r ∧ g.isPadding = false ∧ normalize (.padding a :: rest) = .padding a :: g :: r) := by
  cases h : normalize rest with
  | nil => left; simp [normalize, h]
  | cons g r =>
    right
    cases g
    case padding b => left; exact ⟨b, r, rfl, by simp [normalize, h]⟩
    all_goals (right; exact ⟨_, _, rfl, rfl, by simp [normalize, h]⟩)

theorem normalize_eq_nil (fs : List QFrame) : normalize fs = [] ↔ fs = [] := by
  cases fs with
  | nil => simp [normalize]
  | cons f rest =>
    simp only [reduceCtorEq, iff_false]
    cases hp : f.isPadding
    · rw [normalize_nonpad f rest hp]; simp
    · cases f <;> simp [QFrame.isPadding] at hp
      case padding a =>
        rcases normalize_pad_cases a rest with ⟨_, h⟩ | ⟨b, r, _, h⟩ | ⟨g, r, _, _, h⟩ <;> rw [h] <;> simp

theorem replicate_add (a b : Nat) (x : UInt8) : List.replicate (a + b) x = List.replicate a x ++ List.replicate b x := by
  induction a with
  | zero => simp
  | succ a ih => rw [Nat.succ_add, List.replicate_succ, List.replicate_succ, ih, List.cons_append]

theorem encodeAll_normalize (fs : List QFrame) : encodeAll (normalize fs) = encodeAll fs := by
  induction fs with
  | nil => rfl
  | cons f rest ih =>
    cases hp : f.isPadding
    · rw [normalize_nonpad f rest hp, encodeAll_cons, encodeAll_cons, ih]
    · cases f <;> simp [QFrame.isPadding] at hp
      case padding a =>
        rw [encodeAll_cons, ← ih]
        rcases normalize_pad_cases a rest with ⟨h0, h⟩ | ⟨b, r, h0, h⟩ | ⟨g, r, h0, _, h⟩ <;> rw [h, h0]
        · simp [encodeAll]
        · simp only [encodeAll_cons, QFrame.encode, replicate_add, List.append_assoc]
        · simp only [encodeAll_cons]

theorem normalize_wf (fs : List QFrame) (h : WellFormedSeq fs) : WellFormedSeq (normalize fs) := by
  induction fs with
  | nil => simpa [normalize] using h
  | cons f rest ih =>
    obtain ⟨hf, hgr, hrest⟩ := (wfSeq_cons f rest).mp h
    have ihr := ih hrest
    cases hp : f.isPadding
    · rw [normalize_nonpad f rest hp, wfSeq_cons]
      exact ⟨hf, fun hne => hgr (fun h0 => hne ((normalize_eq_nil rest).mpr h0)), ihr⟩
    · cases f <;> simp [QFrame.isPadding] at hp
      case padding a =>
        have ha : 1 ≤ a := hf
        rcases normalize_pad_cases a rest with ⟨h0, h⟩ | ⟨b, r, h0, h⟩ | ⟨g, r, h0, _, h⟩ <;> rw [h]
        · exact hf
        · rw [h0, wfSeq_cons] at ihr
          rw [wfSeq_cons]
          exact ⟨(by show 1 ≤ a + b; omega), fun _ => rfl, ihr.2.2⟩
        · rw [h0] at ihr
          rw [wfSeq_cons]
          exact ⟨hf, fun _ => rfl, ihr⟩

theorem normalize_noAdjPad (fs : List QFrame) : NoAdjPad (normalize fs) := by
  induction fs with
  | nil => simp [normalize, NoAdjPad]
  | cons f rest ih =>
    cases hp : f.isPadding
    · rw [normalize_nonpad f rest hp, noAdjPad_cons]
      exact ⟨fun h => (by rw [hp] at h; cases h), ih⟩
    · cases f <;> simp [QFrame.isPadding] at hp
      case padding a =>
        rcases normalize_pad_cases a rest with ⟨h0, h⟩ | ⟨b, r, h0, h⟩ | ⟨g, r, h0, hg, h⟩ <;> rw [h]
        · simp [NoAdjPad]
        · rw [h0, noAdjPad_cons] at ih
          rw [noAdjPad_cons]
          exact ⟨fun _ g' hg' => ih.1 rfl g' hg', ih.2⟩
        · rw [h0] at ih
          rw [noAdjPad_cons]
          refine ⟨fun _ g' hg' => ?_, ih⟩
          simp only [List.head?_cons, Option.some.injEq] at hg'
          rw [← hg']; exact hg

theorem frames_roundtrip (fs : List QFrame) (h : WellFormedSeq fs) :
    parseFrames (encodeAll fs) = some ((normalize fs).map QFrame.toParsed) := by
  rw [← encodeAll_normalize]
  exact parseFrames_encodeAll _ (normalize_wf fs h) (normalize_noAdjPad fs)

end TLX.Lemmas.QuicFrameSeq
