/-
Helper lemmas for `Props/C01Capstone2.lean`.
-/
import TLX.Props.C01Capstone
import TLX.Spec.TlsFragmented13
set_option linter.unusedSimpArgs false
namespace TLX.Lemmas.Capstone2
open TLX TLX.Reassembly TLX.Lemmas.Capstone TLX.Lemmas.Pipeline TLX.Spec.TlsFraming

/-- `released_dir_records` for displaced deliveries (`Props.C05.reassembly_exact_partial`) -/
theorem released_dir_records_displaced (info : Nat → Pipeline.Info) (server : MainLoop.Endpoint)
    (pkts : List MainLoop.Pkt) (d : Bool) (k isn : Nat) (recs : List Bytes)
    (hwf : ∀ r ∈ recs, Spec.TlsConnection.WholeRecord r)
    (hd : Delivers k isn recs.flatten ((dirSegs info server d pkts).map Props.C05.wire))
    (hlen : recs.flatten.length ≤ 2 ^ 31) (hearly : Props.C05.NoEarlyDelivery isn (dirSegs info server d pkts)) :
    ((released info server (St.init, St.init) pkts).filter fun r => r.2 == d).map (·.1.raw) = recs := by
  obtain ⟨hfr, hwhole⟩ := frame_flatten recs hwf
  have hne : ∀ p ∈ dirSegs info server d pkts, p.data ≠ [] := by
    obtain ⟨chunks, hcut, hmem⟩ := Lemmas.Delivery.delivers_mem hd
    intro p hp
    have := (hmem (Props.C05.wire p)).mp (List.mem_map_of_mem hp)
    rw [Lemmas.Delivery.segsOf_eq_offs] at this
    obtain ⟨x, hx, hxe⟩ := List.mem_map.mp this
    simp only [Props.C05.wire, Prod.mk.injEq] at hxe
    rw [← hxe.2]
    exact hcut.1 _ (Lemmas.ReasmSort.offs_bounds _ _ _ hx).2.2
  have h1 := Props.C05.reassembly_exact_partial k isn recs.flatten (dirSegs info server d pkts) hd hwhole hlen hearly
  rw [run_eq_outs _ hne, hfr] at h1
  have h2 := released_filter info server (St.init, St.init) pkts d
  have h3 : (if d then (St.init, St.init).2 else (St.init, St.init).1) = St.init := by cases d <;> rfl
  rw [h3] at h2
  rw [← h1, ← h2, List.map_map]
  rfl

-- ------------------------------------------------------------------ flights: a block of packets of one direction
theorem dirSegs_none (info : Nat → Pipeline.Info) (server : MainLoop.Endpoint) (d : Bool) (pkts : List MainLoop.Pkt)
    (h : ∀ p ∈ pkts, (p.src == server) = !d) : dirSegs info server d pkts = [] := by
  unfold dirSegs
  rw [List.filter_eq_nil_iff.mpr (fun p hp => by rw [h p hp]; cases d <;> simp)]
  rfl

theorem all_dir_of_filter_nil (l : List (Session.Rec × Bool)) (d : Bool)
    (h : (l.filter fun q => q.2 == !d) = []) : ∀ q ∈ l, q.2 = d := by
  intro q hq
  have := List.filter_eq_nil_iff.mp h q hq
  cases d <;> cases hq2 : q.2 <;> simp_all

/-- a block of packets that all travel in direction `d` and deliver (in order: any cuts, duplicates, any ISN) a stream of
    whole records, fed to a connection whose reassembler of direction `d` is still in its initial state: exactly these
    records are released, all tagged `d` -/
theorem released_block (info : Nat → Pipeline.Info) (server : MainLoop.Endpoint) (R : Reassembly.St × Reassembly.St)
    (pkts : List MainLoop.Pkt) (d : Bool) (hR : (if d then R.2 else R.1) = St.init)
    (hdir : ∀ p ∈ pkts, (p.src == server) = d) (isn : Nat) (recs : List Bytes)
    (hwf : ∀ r ∈ recs, Spec.TlsConnection.WholeRecord r)
    (hd : InOrder isn recs.flatten ((dirSegs info server d pkts).map Props.C05.wire))
    (hlen : recs.flatten.length ≤ 2 ^ 31) :
    (released info server R pkts).map (·.1.raw) = recs ∧ ∀ q ∈ released info server R pkts, q.2 = d := by
  obtain ⟨hfr, hwhole⟩ := frame_flatten recs hwf
  have hne : ∀ p ∈ dirSegs info server d pkts, p.data ≠ [] := by
    obtain ⟨chunks, hcut, hmem⟩ := Lemmas.Delivery.delivers_mem hd
    intro p hp
    have := (hmem (Props.C05.wire p)).mp (List.mem_map_of_mem hp)
    rw [Lemmas.Delivery.segsOf_eq_offs] at this
    obtain ⟨x, hx, hxe⟩ := List.mem_map.mp this
    simp only [Props.C05.wire, Prod.mk.injEq] at hxe
    rw [← hxe.2]
    exact hcut.1 _ (Lemmas.ReasmSort.offs_bounds _ _ _ hx).2.2
  have h1 := Props.C05.reassembly_exact_inorder isn recs.flatten (dirSegs info server d pkts) hd hwhole hlen
  rw [run_eq_outs _ hne, hfr] at h1
  have h2 := released_filter info server R pkts d
  rw [hR] at h2
  have h3 := released_filter info server R pkts (!d)
  rw [dirSegs_none info server (!d) pkts (by intro p hp; rw [hdir p hp]; simp)] at h3
  simp only [outs, List.map_eq_nil_iff] at h3
  have hall : ∀ q ∈ released info server R pkts, q.2 = d := all_dir_of_filter_nil _ d h3
  refine ⟨?_, hall⟩
  have hf : (released info server R pkts).filter (fun r => r.2 == d) = released info server R pkts :=
    List.filter_eq_self.mpr (fun q hq => by simp [hall q hq])
  rw [hf] at h2
  rw [← h1, ← h2, List.map_map]
  rfl

/-- packets of the other direction do not touch a direction's reassembler -/
theorem reasmFinal_other (info : Nat → Pipeline.Info) (server : MainLoop.Endpoint) (R : Reassembly.St × Reassembly.St)
    (pkts : List MainLoop.Pkt) (d : Bool) (h : ∀ p ∈ pkts, (p.src == server) = !d) :
    (if d then (reasmFinal info server R pkts).2 else (reasmFinal info server R pkts).1) = (if d then R.2 else R.1) := by
  induction pkts generalizing R with
  | nil => rfl
  | cons p ps ih =>
    simp only [reasmFinal]
    rw [ih _ (fun q hq => h q (by simp [hq]))]
    have hp := h p (by simp)
    cases d <;> simp_all [reasmPkt]

end TLX.Lemmas.Capstone2

-- ====================================================================== TLS 1.3: fragmented handshake records
namespace TLX.Lemmas.Capstone2
open TLX TLX.Cipher TLX.RecordLayer TLX.Spec.TlsSender TLX.Props.C01 TLX.Lemmas.Pipeline TLX.Spec.TlsConnection
open TLX.Lemmas.Capstone TLX.Spec.TlsFragmented13

/-- EXACTLY what `handle_decrypted_tls_13_handshake_record` looks at in a record's plaintext `p`: it starts at offset 0
    of THIS record and hops `index += 4 + int(p[index+1:index+4])` (slices clamp) while `index < len(p)`; `walk` lists
    the bytes it takes for message types. -/
def walk (p : Bytes) : Nat → Nat → List UInt8
  | 0, _ => []
  | fuel + 1, i =>
    match p[i]? with
    | none => []
    | some t => t :: walk p fuel (i + Bytes.beNat (Bytes.slice p (i + 1) (i + 4)) + 4)

/-- the number of `update_keys` calls a record with plaintext `p` triggers: the 20s among the walked type bytes -/
def seenFins (p : Bytes) : Nat := ((walk p p.length 0).filter (· = 20)).length

theorem legacy_hs13Loop_walk {δ : Type} (O : Session.Ops δ) (srv : Bool) (p : Bytes) :
    ∀ (fuel i : Nat) (d : δ),
      Session.Legacy.hs13Loop O p srv fuel i d = updFold O srv d ((walk p fuel i).map fun t => ((t, []) : HsMsg)) := by
  intro fuel
  induction fuel with
  | zero => intro i d; rfl
  | succ n ih =>
    intro i d
    rw [Session.Legacy.hs13Loop, walk]
    cases hp : p[i]? with
    | none => rfl
    | some t =>
      simp only [List.map_cons, updFold]
      by_cases h : t = 20
      · simp only [h, if_true]
        rcases hu : O.updateKeys d srv with ⟨d', ok⟩
        cases ok
        · rfl
        · simp only; rw [ih]
      · simp only [h, if_false]
        rw [ih]

theorem finCount_walk (l : List UInt8) :
    finCount (l.map fun t => ((t, []) : HsMsg)) = (l.filter (· = 20)).length := by
  induction l with
  | nil => rfl
  | cons t r ih =>
    rw [List.map_cons, finCount_cons, ih]
    by_cases h : t = 20 <;> simp [List.filter_cons, h]; omega

-- ------------------------------------------------------------------ the session over fragmenting scripts
def evRawF (P : Prims) (L : SealLaws P) (cls : CipherClass) (ver : Bytes) (sd : SDir) : FEv → Bytes
  | .ccs => record 20 ver [1]
  | .frag b _ f => (protect P L cls ver sd 22 b f).2
  | .app pt f => (protect P L cls ver sd 23 pt f).2

def evNextF (P : Prims) (L : SealLaws P) (cls : CipherClass) (ver : Bytes) (sd : SDir) : FEv → SDir
  | .ccs => sd
  | .frag b n f => switchN n (protect P L cls ver sd 22 b f).1
  | .app pt f => (protect P L cls ver sd 23 pt f).1

theorem sendDirF_cons (P : Prims) (L : SealLaws P) (cls : CipherClass) (ver : Bytes) (sd : SDir) (e : FEv)
    (r : List FEv) :
    sendDirF P L cls ver sd (e :: r) = evRawF P L cls ver sd e :: sendDirF P L cls ver (evNextF P L cls ver sd e) r := by
  cases e <;> rfl

theorem sendDirF_eq_nil (P : Prims) (L : SealLaws P) (cls : CipherClass) (ver : Bytes) (sd : SDir) (l : List FEv)
    (h : sendDirF P L cls ver sd l = []) : l = [] := by
  cases l with
  | nil => rfl
  | cons e r => rw [sendDirF_cons] at h; cases h

def costF : List FEv → Nat
  | [] => 0
  | .frag _ n _ :: r => 1 + n + costF r
  | _ :: r => 1 + costF r

theorem costF_cons (e : FEv) (r : List FEv) : costF (e :: r) = costF [e] + costF r := by
  cases e <;> simp [costF] <;> omega

theorem plainOfF_cons (e : FEv) (r : List FEv) : plainOfF (e :: r) = plainOfF [e] ++ plainOfF r := by
  cases e <;> simp [plainOfF]

def updF (rem : Bool → List FEv) (d : Bool) (l : List FEv) : Bool → List FEv := fun d' => if d' = d then l else rem d'

/-- how the records of a fragmenting script meet the buffer: with `t` buffered, each handshake record's bytes complete
    the messages `newly` (whose Finished count is the record's `fins`) and leave the unfinished tail `t'` -/
def Plan : Bytes → List FEv → Prop
  | _, [] => True
  | t, .ccs :: r => Plan t r
  | t, .app _ _ :: r => Plan t r
  | t, .frag b n _ :: r =>
    ∃ (newly : List HsMsg) (t' : Bytes), t ++ b = encMsgs newly ++ t' ∧ Incomplete t' ∧ (∀ m ∈ newly, MsgOk m) ∧
      n = finCount newly ∧ Plan t' r

theorem updB_self (bf : Bool → Bytes) (d : Bool) : updB bf d (bf d) = bf := by
  funext d'; unfold updB; split <;> simp_all

theorem stepF (H : Crypto.Prims) (P : Prims) (L : SealLaws P) (kl : List Keylog.Key) (cls : CipherClass)
    (h13 : cls.is13 = true) (macLen : Nat) (ver : Bytes) (hv : ver.length = 2) (x : Snd) (s : Session.St Dec)
    {bf : Bool → Bytes} (hs : ReadyB cls macLen x s bf) (d : Bool) (e : FEv) (rest : List FEv) (car : List Nat)
    (hplan : Plan (bf d) (e :: rest)) (hq : max x.c.seq x.s.seq + costF [e] ≤ seqLimit) :
    let s' := Session.handleRecord (Pipeline.ops H P kl) false s ⟨evRawF P L cls ver (x.get d) e, car⟩ d
    let x' := x.set d (evNextF P L cls ver (x.get d) e)
    ∃ t', ReadyB cls macLen x' s' (updB bf d t') ∧ Plan t' rest ∧
    (∀ d', dirPlain d' s'.traffic = dirPlain d' s.traffic ++ (if d' = d then plainOfF [e] else [])) ∧
    max x'.c.seq x'.s.seq ≤ max x.c.seq x.s.seq + costF [e] := by
  intro s' x'
  cases e with
  | ccs =>
    obtain ⟨a1, a2, a3, _, _, _, a7, a8, a9⟩ := handleRecord_ccs (Pipeline.ops H P kl) false s
      ⟨record 20 ver [1], car⟩ d (record_typ 20 ver [1] car)
    have hx : x' = x := set_get x d
    rw [hx]
    refine ⟨bf d, by rw [updB_self]; exact hs.of_eq a1 a2 a3 a8 a9, hplan, ?_, by omega⟩
    intro d'
    show dirPlain d' (Session.handleRecord _ false s ⟨record 20 ver [1], car⟩ d).traffic = _
    rw [a7 rfl]; simp [plainOfF]
  | frag b n f =>
    obtain ⟨newly, t', hsplit, hinc, hms, hn, hrest⟩ := hplan
    subst hn
    simp only [costF] at hq
    obtain ⟨b1, b2, b3⟩ := handleRecord_frag H P L kl cls h13 macLen ver hv x s hs d b f newly t' hms hsplit hinc
      (by omega) false car
    rw [after_switches, Lemmas.RecLayer.sget_set, set_set] at b2 b3
    change max x'.c.seq x'.s.seq ≤ _ at b3
    refine ⟨t', b2, hrest, ?_, by simp only [costF]; omega⟩
    intro d'
    show dirPlain d' (Session.handleRecord _ false s ⟨(protect P L cls ver (x.get d) 22 b f).2, car⟩ d).traffic = _
    rw [b1]; simp [plainOfF]
  | app pt f =>
    simp only [costF] at hq
    obtain ⟨c1, c2, c3, c4⟩ := handleRecord_app H P L kl cls macLen ver hv x s hs d pt f
      (sendOk_13 cls h13 macLen pt f) (by omega) false car
    change x'.c.seq ≤ _ at c3
    change x'.s.seq ≤ _ at c4
    refine ⟨bf d, by rw [updB_self]; exact c2, hplan, ?_, by simp only [costF]; exact Nat.max_le.mpr ⟨by omega, by omega⟩⟩
    intro d'
    show dirPlain d' (Session.handleRecord _ false s ⟨(protect P L cls ver (x.get d) 23 pt f).2, car⟩ d).traffic = _
    rw [c1, dirPlain_push]
    simp [plainOfF]

/-- TLS 1.3 after the ServerHello with handshake messages FRAGMENTED anywhere: `Session` (as repaired: per-direction
    buffer) over any interleaving of the two sides' records exports each side's application plaintexts exactly -/
theorem run_mergeF (H : Crypto.Prims) (P : Prims) (L : SealLaws P) (kl : List Keylog.Key) (cls : CipherClass)
    (h13 : cls.is13 = true) (macLen : Nat) (ver : Bytes) (hv : ver.length = 2) (M : List (Session.Rec × Bool)) :
    ∀ (x : Snd) (s : Session.St Dec) (rem : Bool → List FEv) (bf : Bool → Bytes), ReadyB cls macLen x s bf →
      (∀ d, Plan (bf d) (rem d)) →
      (∀ d, (M.filter fun q => q.2 == d).map (·.1.raw) = sendDirF P L cls ver (x.get d) (rem d)) →
      max x.c.seq x.s.seq + (costF (rem false) + costF (rem true)) ≤ seqLimit →
      ∀ d, dirPlain d (Session.run (Pipeline.ops H P kl) false s M).traffic
        = dirPlain d s.traffic ++ plainOfF (rem d) := by
  induction M with
  | nil =>
    intro x s rem bf _ _ hfil _ d
    have := sendDirF_eq_nil P L cls ver _ _ (hfil d).symm
    simp [Session.run, this, plainOfF]
  | cons q M' ih =>
    intro x s rem bf hs hplan hfil hq d
    obtain ⟨r, d0⟩ := q
    have h0 := hfil d0
    rw [filter_dir_cons_same, List.map_cons] at h0
    cases hrem : rem d0 with
    | nil => rw [hrem] at h0; cases h0
    | cons e rest =>
      rw [hrem, sendDirF_cons] at h0
      simp only [List.cons.injEq] at h0
      obtain ⟨hraw, htail⟩ := h0
      have hr : r = ⟨evRawF P L cls ver (x.get d0) e, r.carriers⟩ := by
        have hraw' : r.raw = evRawF P L cls ver (x.get d0) e := hraw
        rw [← hraw']
      have hcost : costF [e] + costF rest + costF (rem (!d0)) ≤ costF (rem false) + costF (rem true) := by
        have := costF_cons e rest
        cases d0
        · simp only [Bool.not_false, hrem] at *; omega
        · simp only [Bool.not_true, hrem] at *; omega
      obtain ⟨t', g1, g2, g4, g5⟩ := stepF H P L kl cls h13 macLen ver hv x s hs d0 e rest r.carriers
        (hrem ▸ hplan d0) (by omega)
      rw [← hr] at g1 g4
      have hplan' : ∀ d', Plan (updB bf d0 t' d') (updF rem d0 rest d') := by
        intro d'
        by_cases hd : d' = d0
        · subst hd; simpa [updF, updB] using g2
        · simp only [updF, updB, hd, if_false]; exact hplan d'
      have hfil' : ∀ d', (M'.filter fun q => q.2 == d').map (·.1.raw)
          = sendDirF P L cls ver ((x.set d0 (evNextF P L cls ver (x.get d0) e)).get d') (updF rem d0 rest d') := by
        intro d'
        by_cases hd : d' = d0
        · subst hd
          rw [Lemmas.RecLayer.sget_set]
          simpa [updF] using htail
        · rw [sget_set_ne _ _ _ _ hd]
          simp only [updF, hd, if_false]
          rw [← hfil d', filter_dir_cons_other _ _ _ _ hd]
      have hq' : max (x.set d0 (evNextF P L cls ver (x.get d0) e)).c.seq (x.set d0 (evNextF P L cls ver (x.get d0) e)).s.seq
          + (costF (updF rem d0 rest false) + costF (updF rem d0 rest true)) ≤ seqLimit := by
        have : costF (updF rem d0 rest false) + costF (updF rem d0 rest true) = costF rest + costF (rem (!d0)) := by
          cases d0 <;> simp [updF] <;> omega
        rw [this]; omega
      have := ih _ _ (updF rem d0 rest) (updB bf d0 t') g1 hplan' hfil' hq' d
      simp only [Session.run, List.foldl_cons] at this ⊢
      rw [this, g4 d]
      by_cases hd : d = d0
      · subst hd
        simp only [updF, if_true, hrem]
        rw [plainOfF_cons e rest, List.append_assoc]
      · simp [updF, hd]

-- ------------------------------------------------------------------ RFC-conformant fragmentation ⇒ a plan
def msgLen (m : HsMsg) : Nat := 4 + m.2.length

theorem encMsg_length (m : HsMsg) : (encMsg m).length = msgLen m := by
  simp [encMsg_eq, Lemmas.TlsHello.u24_length, msgLen]; omega

theorem encMsgs_cons (m : HsMsg) (r : List HsMsg) : encMsgs (m :: r) = encMsg m ++ encMsgs r := by simp [encMsgs]

theorem encMsgs_append (a b : List HsMsg) : encMsgs (a ++ b) = encMsgs a ++ encMsgs b := by simp [encMsgs]

/-- the messages of `rm` that fit entirely into the first `L` bytes of its encoding, and the others -/
def completed : List HsMsg → Nat → List HsMsg × List HsMsg
  | [], _ => ([], [])
  | m :: r, L =>
    if msgLen m ≤ L then (m :: (completed r (L - msgLen m)).1, (completed r (L - msgLen m)).2) else ([], m :: r)

theorem completed_spec (rm : List HsMsg) (L : Nat) :
    rm = (completed rm L).1 ++ (completed rm L).2 ∧ (encMsgs (completed rm L).1).length ≤ L ∧
    (∀ m r, (completed rm L).2 = m :: r → L - (encMsgs (completed rm L).1).length < msgLen m) ∧
    (∀ m ∈ (completed rm L).1, m ∈ rm) := by
  induction rm generalizing L with
  | nil => simp [completed, encMsgs]
  | cons m r ih =>
    unfold completed
    by_cases h : msgLen m ≤ L
    · obtain ⟨i1, i2, i3, i4⟩ := ih (L - msgLen m)
      simp only [h, if_true]
      refine ⟨by rw [List.cons_append, ← i1], ?_, ?_, ?_⟩
      · rw [encMsgs_cons, List.length_append, encMsg_length]; omega
      · intro m' r' h'
        have := i3 m' r' h'
        rw [encMsgs_cons, List.length_append, encMsg_length]; omega
      · intro m' hm'
        rcases List.mem_cons.mp hm' with rfl | hm'
        · simp
        · exact List.mem_cons_of_mem _ (i4 m' hm')
    · simp only [h, if_false]
      refine ⟨rfl, by simp [encMsgs], ?_, by simp⟩
      intro m' r' h'
      simp only [List.cons.injEq] at h'
      rw [← h'.1]; simp [encMsgs]; omega

theorem finEnds_ge (base : Nat) (m : HsMsg) (r : List HsMsg) : ∀ e ∈ finEnds base (m :: r), base + msgLen m ≤ e := by
  induction r generalizing base m with
  | nil =>
    intro e he
    simp only [finEnds, List.append_nil] at he
    split at he
    · simp only [List.mem_singleton] at he; rw [he, msgLen]; omega
    · simp at he
  | cons m' r' ih =>
    intro e he
    rw [finEnds] at he
    rcases List.mem_append.mp he with h | h
    · split at h
      · simp only [List.mem_singleton] at h; rw [h, msgLen]; omega
      · simp at h
    · have := ih (base + 4 + m.2.length) m' e h
      rw [msgLen] at *; omega

theorem finEnds_le (base : Nat) (a : List HsMsg) : ∀ e ∈ finEnds base a, e ≤ base + (encMsgs a).length := by
  induction a generalizing base with
  | nil => simp [finEnds]
  | cons m r ih =>
    intro e he
    rw [finEnds] at he
    rw [encMsgs_cons, List.length_append, encMsg_length, msgLen]
    rcases List.mem_append.mp he with h | h
    · split at h
      · simp only [List.mem_singleton] at h; omega
      · simp at h
    · have := ih _ e h; omega

theorem finEnds_append (base : Nat) (a b : List HsMsg) :
    finEnds base (a ++ b) = finEnds base a ++ finEnds (base + (encMsgs a).length) b := by
  induction a generalizing base with
  | nil => simp [finEnds, encMsgs]
  | cons m r ih =>
    have hb : base + 4 + m.2.length + (encMsgs r).length = base + (encMsgs (m :: r)).length := by
      rw [encMsgs_cons, List.length_append, encMsg_length, msgLen]; omega
    simp only [List.cons_append, finEnds, ih, List.append_assoc, hb]

/-- the number of Finished messages ending in `(lo, base + L]` when every end of `rm` lies beyond `lo` -/
theorem completed_fins (rm : List HsMsg) (base L lo : Nat) (hlo : ∀ e ∈ finEnds base rm, lo < e) :
    ((finEnds base rm).filter fun e => decide (lo < e ∧ e ≤ base + L)).length = finCount (completed rm L).1 := by
  induction rm generalizing base L with
  | nil => simp [finEnds, completed, finCount]
  | cons m r ih =>
    unfold completed
    by_cases h : msgLen m ≤ L
    · simp only [h, if_true]
      rw [finEnds, List.filter_append, List.length_append, finCount_cons]
      have hr := ih (base + 4 + m.2.length) (L - msgLen m) (fun e he => hlo e (by rw [finEnds]; exact List.mem_append_right _ he))
      have hbl : base + 4 + m.2.length + (L - msgLen m) = base + L := by rw [msgLen] at *; omega
      rw [hbl] at hr
      rw [hr]
      congr 1
      by_cases h20 : m.1 = 20
      · have hl := hlo (base + 4 + m.2.length) (by rw [finEnds]; simp [h20])
        simp only [h20, if_true, List.filter_cons, List.filter_nil]
        have : decide (lo < base + 4 + m.2.length ∧ base + 4 + m.2.length ≤ base + L) = true := by
          rw [msgLen] at h; simp; omega
        simp [this]
      · simp [h20]
    · simp only [h, if_false, finCount, List.filter_nil, List.length_nil]
      rw [List.length_eq_zero_iff, List.filter_eq_nil_iff]
      intro e he
      have := finEnds_ge base m r e he
      simp; omega

theorem finsRight_drop (A B : List Nat) (rem : List FEv) (o : Nat) (hA : ∀ a ∈ A, a ≤ o)
    (h : FinsRight (A ++ B) o rem) : FinsRight B o rem := by
  induction rem generalizing o with
  | nil => trivial
  | cons e r ih =>
    cases e with
    | ccs => exact ih o hA h
    | app pt f => exact ih o hA h
    | frag b n f =>
      obtain ⟨h1, h2⟩ := h
      refine ⟨?_, ih (o + b.length) (fun a ha => by have := hA a ha; omega) h2⟩
      rw [h1, List.filter_append, List.length_append]
      have : (A.filter fun e => decide (o < e ∧ e ≤ o + b.length)) = [] := by
        rw [List.filter_eq_nil_iff]; intro a ha; have := hA a ha; simp; omega
      rw [this]; simp

theorem incomplete_prefix (m : HsMsg) (hm : MsgOk m) (rest : Bytes) (k : Nat) (hk : k < msgLen m) :
    Incomplete ((encMsg m ++ rest).take k) := by
  unfold Incomplete
  by_cases h4 : k < 4
  · left; rw [List.length_take]; omega
  · right
    have hlen : ((encMsg m ++ rest).take k).length = k := by
      rw [List.length_take, List.length_append, encMsg_length]; omega
    have hsl : Bytes.slice ((encMsg m ++ rest).take k) 1 4 = Spec.TlsHello.u24 m.2.length := by
      have e : (encMsg m ++ rest).take k = m.1 :: (Spec.TlsHello.u24 m.2.length ++ ((m.2 ++ rest).take (k - 4))) := by
        rw [encMsg_eq]
        have h3 := Lemmas.TlsHello.u24_length m.2.length
        generalize Spec.TlsHello.u24 m.2.length = u at *
        match u, h3 with
        | [a, b, c], _ =>
          obtain ⟨k', rfl⟩ : ∃ k', k = k' + 4 := ⟨k - 4, by omega⟩
          simp
      rw [e]
      have := slice_mid [] (Spec.TlsHello.u24 m.2.length) ((m.2 ++ rest).take (k - 4)) m.1 (Lemmas.TlsHello.u24_length _)
      simpa using this
    rw [hsl, Lemmas.TlsHello.beNat_u24 _ hm, hlen]
    rw [msgLen] at hk; omega

/-- `t` is a proper prefix of the first remaining message (or nothing remains and `t` is empty) -/
def Tail (t : Bytes) : List HsMsg → Prop
  | [] => t = []
  | m :: _ => t.length < msgLen m

theorem plan_gen (rem : List FEv) :
    ∀ (rm : List HsMsg) (t : Bytes) (base : Nat), (∀ m ∈ rm, MsgOk m) → t ++ hsStream rem = encMsgs rm → Tail t rm →
      FinsRight (finEnds base rm) (base + t.length) rem → Plan t rem := by
  induction rem with
  | nil => intros; trivial
  | cons e r ih =>
    intro rm t base hok hstr htail hF
    cases e with
    | ccs => exact ih rm t base hok hstr htail hF
    | app pt f => exact ih rm t base hok hstr htail hF
    | frag b n f =>
      obtain ⟨hn, hfr⟩ := hF
      have hstr' : t ++ (b ++ hsStream r) = encMsgs rm := hstr
      obtain ⟨c1, c2, c3, c4⟩ := completed_spec rm (t.length + b.length)
      generalize hnw : (completed rm (t.length + b.length)).1 = nw at *
      generalize hrm' : (completed rm (t.length + b.length)).2 = rm' at *
      have henc : encMsgs rm = encMsgs nw ++ encMsgs rm' := by rw [c1, encMsgs_append]
      have hLle : t.length + b.length ≤ (encMsgs rm).length := by
        rw [← hstr']; simp only [List.length_append]; omega
      have htb : t ++ b = encMsgs nw ++ (encMsgs rm').take (t.length + b.length - (encMsgs nw).length) := by
        have h1 : t ++ b = (encMsgs rm).take (t.length + b.length) := by
          rw [← hstr', ← List.append_assoc, List.take_left' (by simp)]
        rw [h1, henc, List.take_append, List.take_of_length_le c2]
      have hrest : (encMsgs rm').take (t.length + b.length - (encMsgs nw).length) ++ hsStream r = encMsgs rm' := by
        have h2 : hsStream r = (encMsgs rm).drop (t.length + b.length) := by
          rw [← hstr', ← List.append_assoc, List.drop_left' (by simp)]
        rw [h2, henc, List.drop_append, List.drop_eq_nil_of_le c2, List.nil_append, List.take_append_drop]
      have htl : ((encMsgs rm').take (t.length + b.length - (encMsgs nw).length)).length
          = t.length + b.length - (encMsgs nw).length := by
        rw [List.length_take]
        rw [henc, List.length_append] at hLle
        omega
      have hok' : ∀ m ∈ rm', MsgOk m := fun m hm => hok m (by rw [c1]; exact List.mem_append_right _ hm)
      have hoknw : ∀ m ∈ nw, MsgOk m := fun m hm => hok m (c4 m hm)
      have htail' : Tail ((encMsgs rm').take (t.length + b.length - (encMsgs nw).length)) rm' := by
        cases hr : rm' with
        | nil => simp [Tail, encMsgs]
        | cons m r' =>
          have := c3 m r' hr
          simp only [Tail]
          rw [← hr, htl]; exact this
      have hinc : Incomplete ((encMsgs rm').take (t.length + b.length - (encMsgs nw).length)) := by
        cases hr : rm' with
        | nil => left; simp [encMsgs]
        | cons m r' =>
          rw [encMsgs_cons]
          exact incomplete_prefix m (hok' m (by rw [hr]; simp)) _ _ (c3 m r' hr)
      have hlo : ∀ e ∈ finEnds base rm, base + t.length < e := by
        intro e he
        cases hr : rm with
        | nil => rw [hr] at he; simp [finEnds] at he
        | cons m r0 =>
          rw [hr] at he htail
          have := finEnds_ge base m r0 e he
          simp only [Tail] at htail
          omega
      have hcount : n = finCount nw := by
        have hp : (fun e => decide (base + t.length < e ∧ e ≤ base + t.length + b.length))
            = (fun e => decide (base + t.length < e ∧ e ≤ base + (t.length + b.length))) := by
          funext e; rw [Nat.add_assoc]
        rw [hn, hp, completed_fins rm base (t.length + b.length) (base + t.length) hlo, hnw]
      refine ⟨nw, _, htb, hinc, hoknw, hcount, ?_⟩
      apply ih rm' _ (base + (encMsgs nw).length) hok' hrest htail'
      rw [htl]
      have hfe : finEnds base rm = finEnds base nw ++ finEnds (base + (encMsgs nw).length) rm' := by
        rw [c1, finEnds_append]
      rw [hfe] at hfr
      have hoff : base + (encMsgs nw).length + (t.length + b.length - (encMsgs nw).length) = base + t.length + b.length := by
        omega
      rw [hoff]
      exact finsRight_drop _ _ r _ (fun a ha => by have := finEnds_le base nw a ha; omega) hfr

/-- RFC-conformant fragmentation (`Spec/TlsFragmented13.FragConform`) yields a plan from the empty buffer -/
theorem plan_of_conform (l : List FEv) (h : FragConform l) : Plan [] l := by
  obtain ⟨msgs, hok, hstr, hfr, _⟩ := h
  apply plan_gen l msgs [] 0 hok (by simp only [List.nil_append]; exact hstr)
  · cases msgs with
    | nil => rfl
    | cons m r => simp only [Tail, msgLen, List.length_nil]; omega
  · simpa using hfr

/-- the buffer after feeding the pieces of a cut of the first `n` stream bytes one by one through `consume` -/
theorem bufAfter_eq (msgs : List HsMsg) (hok : ∀ m ∈ msgs, MsgOk m) (frs : List Bytes) (n : Nat)
    (hcut : frs.flatten = (encMsgs msgs).take n) (hn : n ≤ (encMsgs msgs).length) :
    frs.foldl (fun buf f => (consume (buf ++ f).length (buf ++ f)).2) []
      = ((encMsgs msgs).take n).drop (encMsgs (completed msgs n).1).length := by
  -- generalised: `done` messages consumed, `t` buffered
  have gen : ∀ (frs : List Bytes) (rm : List HsMsg) (t : Bytes) (k : Nat), (∀ m ∈ rm, MsgOk m) → Tail t rm →
      t ++ frs.flatten = (encMsgs rm).take k → k ≤ (encMsgs rm).length →
      frs.foldl (fun buf f => (consume (buf ++ f).length (buf ++ f)).2) t
        = ((encMsgs rm).take k).drop (encMsgs (completed rm k).1).length := by
    intro frs
    induction frs with
    | nil =>
      intro rm t k hok htail hstr hk
      simp only [List.flatten_nil, List.append_nil] at hstr
      simp only [List.foldl_nil]
      have hkl : k = t.length := by rw [hstr, List.length_take]; omega
      cases rm with
      | nil => simp [encMsgs] at hstr; simp [hstr, completed, encMsgs]
      | cons m r =>
        simp only [Tail] at htail
        have hnot : ¬ msgLen m ≤ k := by omega
        have hc : completed (m :: r) k = ([], m :: r) := by simp [completed, hnot]
        have e0 : (encMsgs ([] : List HsMsg)).length = 0 := rfl
        rw [hc, e0, List.drop_zero]
        exact hstr
    | cons f fr ih =>
      intro rm t k hok htail hstr hk
      simp only [List.flatten_cons] at hstr
      simp only [List.foldl_cons]
      obtain ⟨c1, c2, c3, c4⟩ := completed_spec rm (t.length + f.length)
      generalize hnw : (completed rm (t.length + f.length)).1 = nw at *
      generalize hrm' : (completed rm (t.length + f.length)).2 = rm' at *
      have henc : encMsgs rm = encMsgs nw ++ encMsgs rm' := by rw [c1, encMsgs_append]
      have hkge : t.length + f.length ≤ k := by
        have := congrArg List.length hstr
        simp only [List.length_append, List.length_take] at this
        omega
      have htf : t ++ f = (encMsgs rm).take (t.length + f.length) := by
        have : t ++ f = ((encMsgs rm).take k).take (t.length + f.length) := by
          rw [← hstr, ← List.append_assoc, List.take_left' (by simp)]
        rw [this, List.take_take, Nat.min_eq_left hkge]
      have htb : t ++ f = encMsgs nw ++ (encMsgs rm').take (t.length + f.length - (encMsgs nw).length) := by
        rw [htf, henc, List.take_append, List.take_of_length_le c2]
      have hLle : t.length + f.length ≤ (encMsgs rm).length := by omega
      have htl : ((encMsgs rm').take (t.length + f.length - (encMsgs nw).length)).length
          = t.length + f.length - (encMsgs nw).length := by
        rw [List.length_take]; rw [henc, List.length_append] at hLle; omega
      have hok' : ∀ m ∈ rm', MsgOk m := fun m hm => hok m (by rw [c1]; exact List.mem_append_right _ hm)
      have hoknw : ∀ m ∈ nw, MsgOk m := fun m hm => hok m (c4 m hm)
      have htail' : Tail ((encMsgs rm').take (t.length + f.length - (encMsgs nw).length)) rm' := by
        cases hr : rm' with
        | nil => simp [Tail, encMsgs]
        | cons m r' => have := c3 m r' hr; simp only [Tail]; rw [← hr, htl]; exact this
      have hinc : Incomplete ((encMsgs rm').take (t.length + f.length - (encMsgs nw).length)) := by
        cases hr : rm' with
        | nil => left; simp [encMsgs]
        | cons m r' => rw [encMsgs_cons]; exact incomplete_prefix m (hok' m (by rw [hr]; simp)) _ _ (c3 m r' hr)
      have hcons := consume_msgs nw hoknw _ hinc (t ++ f).length (by
        rw [htb]; have := encMsgs_length_ge nw; simp only [List.length_append]; omega)
      rw [← htb] at hcons
      rw [hcons]
      -- the rest of the pieces against the remaining messages
      have hstr' : (encMsgs rm').take (t.length + f.length - (encMsgs nw).length) ++ fr.flatten
          = (encMsgs rm').take (k - (encMsgs nw).length) := by
        have h1 : (t ++ f) ++ fr.flatten = (encMsgs rm).take k := by rw [List.append_assoc]; exact hstr
        rw [htb, henc, List.take_append, List.take_of_length_le (Nat.le_trans c2 hkge), List.append_assoc] at h1
        exact List.append_cancel_left h1
      have := ih rm' _ (k - (encMsgs nw).length) hok' htail' hstr' (by rw [henc, List.length_append] at hk; omega)
      rw [this]
      -- completed rm k = nw ++ completed rm' (k - |nw|)
      have hcomp : ∀ (a b : List HsMsg) (K : Nat), (encMsgs a).length ≤ K →
          completed (a ++ b) K = (a ++ (completed b (K - (encMsgs a).length)).1, (completed b (K - (encMsgs a).length)).2) := by
        intro a
        induction a with
        | nil => intro b K _; simp [encMsgs]
        | cons m a iha =>
          intro b K hK
          rw [encMsgs_cons, List.length_append, encMsg_length] at hK
          have : msgLen m ≤ K := by omega
          simp only [List.cons_append, completed, this, if_true]
          rw [iha b (K - msgLen m) (by omega)]
          simp only [encMsgs_cons, List.length_append, encMsg_length, List.cons_append]
          have : K - msgLen m - (encMsgs a).length = K - (msgLen m + (encMsgs a).length) := by omega
          rw [this]
      rw [c1, hcomp nw rm' k (Nat.le_trans c2 hkge)]
      simp only [encMsgs_append, List.length_append]
      rw [List.take_append, List.take_of_length_le (Nat.le_trans c2 hkge), ← List.drop_drop, List.drop_left]
  have := gen frs msgs [] n hok (by cases msgs <;> simp [Tail, msgLen] <;> omega) (by simpa using hcut) hn
  exact this

-- ------------------------------------------------------------------ when the walk is right
theorem walk_msgs (ms : List HsMsg) (hok : ∀ m ∈ ms, MsgOk m) (pre : Bytes) (fuel : Nat) (hf : ms.length ≤ fuel) :
    walk (pre ++ encMsgs ms) fuel pre.length = ms.map (·.1) := by
  induction ms generalizing pre fuel with
  | nil =>
    cases fuel with
    | zero => rfl
    | succ n => simp [walk, encMsgs]
  | cons m ms ih =>
    cases fuel with
    | zero => simp at hf
    | succ n =>
      have hm : MsgOk m := hok m (by simp)
      have hlen : Bytes.beNat (Bytes.slice (pre ++ encMsgs (m :: ms)) (pre.length + 1) (pre.length + 4)) = m.2.length := by
        simp only [encMsgs, List.flatMap_cons, encMsg_eq, List.cons_append, List.append_assoc]
        rw [slice_mid _ _ _ _ (Lemmas.TlsHello.u24_length _)]
        exact Lemmas.TlsHello.beNat_u24 _ hm
      have hget : (pre ++ encMsgs (m :: ms))[pre.length]? = some m.1 := by
        simp [encMsgs, encMsg_eq]
      have hidx : pre.length + m.2.length + 4 = (pre ++ encMsg m).length := by
        simp [encMsg_eq, Lemmas.TlsHello.u24_length]; omega
      have hsplit : pre ++ encMsgs (m :: ms) = (pre ++ encMsg m) ++ encMsgs ms := by
        simp [encMsgs]
      rw [walk, hget]
      simp only [hlen, hidx, List.map_cons]
      rw [hsplit, ih (fun m' h' => hok m' (by simp [h'])) (pre ++ encMsg m) n (by simpa using hf)]

theorem count20_map (l : List HsMsg) :
    ((l.map (·.1)).filter (· = 20)).length = (l.filter fun m => m.1 = 20).length := by
  induction l with
  | nil => rfl
  | cons m r ih => by_cases h : m.1 = 20 <;> simp [List.filter_cons, h, ih]

/-- records of whole messages are in lockstep: the walk sees every message type, so it counts the Finished messages -/
theorem seenFins_whole (ms : List HsMsg) (hok : ∀ m ∈ ms, MsgOk m) : seenFins (encMsgs ms) = finCount ms := by
  have := walk_msgs ms hok [] (encMsgs ms).length (encMsgs_length_ge ms)
  simp only [List.nil_append, List.length_nil] at this
  unfold seenFins finCount
  rw [this]
  exact count20_map ms

-- ====================================================================== 4. with `-a` (metadata export on)
theorem dirPlain_push1 (d' d : Bool) (tr : List Session.Entry) (data : Bytes) (r : Session.Rec) (a : Bool) :
    dirPlain d' (tr ++ [⟨some data, r, d, a⟩]) = dirPlain d' tr ++ (if d' = d then data else []) :=
  dirPlain_push d' d tr data r a

/-- a ChangeCipherSpec record with `-a`: the record itself is exported -/
theorem handle_ccs_meta (O : Session.Ops Dec) (s : Session.St Dec) (r : Session.Rec) (d : Bool)
    (ht : r.typ = some 0x14) :
    (Session.handleRecord O true s r d).traffic = s.traffic ++ [⟨some r.raw, r, d, false⟩] := by
  simp only [Session.handleRecord, Session.handleRecordRaw, ht]
  have h1 : ((0x14 : UInt8) = 0x16) = False := by decide
  have h2 : ((0x14 : UInt8) = 0x17) = False := by decide
  have h3 : ((0x14 : UInt8) = 0x15) = False := by decide
  simp only [h1, h2, h3, if_false, if_true, Session.Out.st]
  cases d <;> simp [Session.pushMeta, Session.St.push]

/-- a clear-text handshake record that is no hello, gate closed, with `-a`: state untouched, the record exported -/
theorem handle_clear_meta (O : Session.Ops Dec) (s : Session.St Dec) (ver body : Bytes) (hv : ver.length = 2)
    (car : List Nat) (d : Bool) (hb : ∀ t ∈ body.head?, t ≠ 1 ∧ t ≠ 2) (h : s.dec = none ∨ ccOf s d = false) :
    Session.handleRecord O true s ⟨record 22 ver body, car⟩ d
      = s.push ⟨some (record 22 ver body), ⟨record 22 ver body, car⟩, d, false⟩ := by
  have hfin : Session.tryExcept (Session.handshakeFinished O true s ⟨record 22 ver body, car⟩ d) id = .ok s := by
    unfold Session.handshakeFinished
    cases hdec : s.dec with
    | none => rfl
    | some dd =>
      have hcc : ccOf s d = false := by
        rcases h with h | h
        · rw [hdec] at h; cases h
        · exact h
      have hgate : (s.srvCC && d && s.canDecrypt || s.cliCC && !d && s.canDecrypt) = false := by
        cases d <;> simp only [ccOf, if_true, Bool.false_eq_true, if_false] at hcc <;> simp [hcc]
      simp only [hgate, Bool.false_eq_true, if_false, if_true]
      rfl
  unfold Session.handleRecord Session.handleRecordRaw
  rw [record_typ]
  simp only [if_true]
  have hst : Session.handshakeRecord O true s ⟨record 22 ver body, car⟩ d = .ok s := by
    unfold Session.handshakeRecord
    split
    · exact hfin
    · rw [record_body 22 ver body car hv]
      cases body with
      | nil => rfl
      | cons t rest =>
        have ht := hb t (by simp)
        simp only [ht.1, ht.2, if_false]
        exact hfin
  rw [hst]
  rfl

/-- a hello record (first body byte 1 or 2) while no ChangeCipherSpec has been seen, with `-a`: the record itself is
    exported, nothing else -/
theorem handle_hello_meta (O : Session.Ops Dec) (s : Session.St Dec) (r : Session.Rec) (d : Bool)
    (ht : r.typ = some 0x16) (h0 : s.srvCC = false ∧ s.cliCC = false) (t : UInt8) (rest : Bytes)
    (hb : r.body = t :: rest) (ht12 : t = 1 ∨ t = 2) :
    (Session.handleRecord O true s r d).traffic = s.traffic ++ [⟨some r.raw, r, d, false⟩] := by
  unfold Session.handleRecord Session.handleRecordRaw
  rw [ht]
  simp only [if_true, Session.handshakeRecord, h0.1, h0.2, Bool.or_self, Bool.false_eq_true, if_false, hb]
  by_cases h1 : t = 1
  · simp only [h1, if_true]; rfl
  · have h2 : t = 2 := by rcases ht12 with h | h; exact absurd h h1; exact h
    simp only [h1, if_false, h2, if_true]
    have htr := Session.serverHello_traffic O s r
    cases hsh : Session.serverHello O s r with
    | ok s' => rw [hsh] at htr; simp only [Session.tryExcept, Session.Out.st, Session.pushMeta, Session.St.push] at htr ⊢; simp [htr]
    | raised s' => rw [hsh] at htr; simp only [Session.tryExcept, Session.Out.st, Session.pushMeta, Session.St.push] at htr ⊢; simp [htr]

/-- the protected Finished of TLS ≤ 1.2 with `-a`: the decrypted message, then the record itself -/
theorem hsEnc_meta_traffic (H : Crypto.Prims) (P : Prims) (L : SealLaws P) (kl : List Keylog.Key) (cls : CipherClass)
    (h13 : cls.is13 = false) (macLen : Nat) (ver : Bytes) (hv : ver.length = 2) (x : Snd) (s : Session.St Dec)
    (hs : Ready cls macLen x s) (srv : Bool) (hcc : ccOf s srv = true) (body : Bytes) (f : Fresh)
    (hok : SendOk cls macLen body f) (hq : x.c.seq < seqLimit ∧ x.s.seq < seqLimit) (car : List Nat) (d' : Bool) :
    dirPlain d' (Session.handleRecord (Pipeline.ops H P kl) true s
        ⟨(protect P L cls ver (x.get srv) 22 body f).2, car⟩ srv).traffic
      = dirPlain d' s.traffic ++ (if d' = srv then body ++ (protect P L cls ver (x.get srv) 22 body f).2 else []) := by
  obtain ⟨⟨hcan, ⟨v, hver, hv13⟩, d, hdec, hR⟩, _⟩ := hs
  obtain ⟨h1, h2, h3, h4⟩ := step_exact P L cls macLen ver hv x d hR (.send srv 22 body f) hok hq
  simp only [step, expected] at h1
  generalize ho : protect P L cls ver (x.get srv) 22 body f = o at *
  have hd : (Pipeline.ops H P kl).decrypt d ⟨o.2, car⟩ srv
      = ((recvStep P d (.record srv o.2)).1, some (some body)) := by
    rw [ops_decrypt, h1, delivered_legacy cls h13]; rfl
  have htyp : (⟨o.2, car⟩ : Session.Rec).typ = some 22 := by rw [← ho]; exact protect_head_legacy P L cls h13 ver _ 22 body f
  have hor : (s.srvCC || s.cliCC) = true := by
    cases srv <;> simp only [ccOf, if_true, Bool.false_eq_true, if_false] at hcc <;> simp [hcc]
  have hgate : (s.srvCC && srv && s.canDecrypt || s.cliCC && !srv && s.canDecrypt) = true := by
    cases srv <;> simp only [ccOf, if_true, Bool.false_eq_true, if_false] at hcc <;> simp [hcc, hcan]
  have heq : Session.handleRecord (Pipeline.ops H P kl) true s ⟨o.2, car⟩ srv = Session.pushMeta true
      (if (true && decide (some body ≠ some ([] : Bytes))) = true then
        ({ s with dec := some (recvStep P d (.record srv o.2)).1 } : Session.St Dec).push ⟨some body, ⟨o.2, car⟩, srv, false⟩
       else { s with dec := some (recvStep P d (.record srv o.2)).1 }) ⟨o.2, car⟩ srv := by
    unfold Session.handleRecord Session.handleRecordRaw
    rw [htyp]
    simp only [if_true]
    unfold Session.handshakeRecord
    rw [if_pos hor]
    unfold Session.handshakeFinished
    simp only [hdec]
    rw [if_pos hgate, hd]
    simp only
    by_cases hb : (true && decide (some body ≠ some ([] : Bytes))) = true
    · rw [if_pos hb, if_pos hb]; rfl
    · rw [if_neg hb, if_neg hb]; rfl
  rw [heq]
  by_cases hbody : body = []
  · subst hbody
    simp only [ne_eq, not_true_eq_false, decide_false, Bool.and_false, Bool.false_eq_true, if_false, Session.pushMeta,
      if_true, Session.St.push, List.nil_append]
    exact dirPlain_push d' srv s.traffic o.2 _ false
  · have hne : (true && decide (some body ≠ some ([] : Bytes))) = true := by simp [hbody]
    rw [if_pos hne]
    simp only [Session.pushMeta, if_true, Session.St.push]
    rw [dirPlain_push, dirPlain_push, List.append_assoc]
    congr 1
    by_cases hdd : d' = srv <;> simp [hdd]

/-- what `-a` makes one record of a TLS ≤ 1.2 script contribute to the exported stream of its direction: clear-text
    handshake and ChangeCipherSpec records verbatim; a protected handshake record as its plaintext followed by the
    record as captured; application data as plaintext only -/
def metaOf12 (raw : Bytes) : DirEv → Bytes
  | .clear _ => raw
  | .ccs => raw
  | .enc typ pt _ => if typ = 23 then pt else pt ++ raw
  | .hs13 _ _ => []

def metaStream12 (P : Prims) (L : SealLaws P) (cls : CipherClass) (ver : Bytes) : SDir → List DirEv → Bytes
  | _, [] => []
  | sd, e :: r => metaOf12 (evRaw P L cls ver sd e) e ++ metaStream12 P L cls ver (evNext P L cls ver sd e) r

theorem dirInv12_of_cc {s s' : Session.St Dec} {d : Bool} {rem : List DirEv} (h : ccOf s' d = ccOf s d)
    (hi : DirInv12 s d rem) : DirInv12 s' d rem := by
  unfold DirInv12 at hi ⊢; rw [h]; exact hi

theorem step12m (H : Crypto.Prims) (P : Prims) (L : SealLaws P) (kl : List Keylog.Key) (cls : CipherClass)
    (h13 : cls.is13 = false) (macLen : Nat) (ver : Bytes) (hv : ver.length = 2) (x : Snd) (s : Session.St Dec)
    (hs : Ready cls macLen x s) (d : Bool) (e : DirEv) (rem : List DirEv) (car : List Nat)
    (hinv : DirInv12 s d (e :: rem)) (hok : EvOk1 cls macLen e) (hq : x.c.seq < seqLimit ∧ x.s.seq < seqLimit) :
    let s' := Session.handleRecord (Pipeline.ops H P kl) true s ⟨evRaw P L cls ver (x.get d) e, car⟩ d
    let x' := x.set d (evNext P L cls ver (x.get d) e)
    Ready cls macLen x' s' ∧ DirInv12 s' d rem ∧ ccOf s' (!d) = ccOf s (!d) ∧
    (∀ d', dirPlain d' s'.traffic = dirPlain d' s.traffic ++
      (if d' = d then metaOf12 (evRaw P L cls ver (x.get d) e) e else [])) ∧
    x'.c.seq ≤ max x.c.seq x.s.seq + 1 ∧ x'.s.seq ≤ max x.c.seq x.s.seq + 1 := by
  intro s' x'
  cases e with
  | clear b =>
    rcases hinv with ⟨hcc, cl, rest, hl, hcl, hrest⟩ | ⟨_, hall⟩
    · cases cl with
      | nil => simp at hl
      | cons b' cl' =>
        simp only [List.map_cons, List.cons_append, List.cons.injEq, DirEv.clear.injEq] at hl
        obtain ⟨rfl, hrem⟩ := hl
        have hpush : s' = s.push ⟨some (record 22 ver b), ⟨record 22 ver b, car⟩, d, false⟩ :=
          handle_clear_meta _ s ver b hv car d (hcl b (by simp)) (Or.inr hcc)
        have hx : x' = x := set_get x d
        rw [hpush, hx]
        refine ⟨hs.of_eq rfl rfl rfl rfl rfl, Or.inl ⟨hcc, cl', rest, hrem, fun b' hb' => hcl b' (by simp [hb']), hrest⟩, rfl, ?_,
          by omega, by omega⟩
        intro d'
        exact dirPlain_push d' d s.traffic _ _ false
    · obtain ⟨_, _, _, h, _⟩ := hall _ (List.mem_cons_self ..); cases h
  | ccs =>
    obtain ⟨a1, a2, a3, a4, a5, _, _, a8, a9⟩ := handleRecord_ccs (Pipeline.ops H P kl) true s
      ⟨record 20 ver [1], car⟩ d (record_typ 20 ver [1] car)
    have a7 := handle_ccs_meta (Pipeline.ops H P kl) s ⟨record 20 ver [1], car⟩ d (record_typ 20 ver [1] car)
    have hx : x' = x := set_get x d
    rw [hx]
    rcases hinv with ⟨hcc, cl, rest, hl, hcl, hrest⟩ | ⟨_, hall⟩
    · cases cl with
      | cons b' cl' => simp at hl
      | nil =>
        simp only [List.map_nil, List.nil_append, List.cons.injEq, true_and] at hl
        subst hl
        refine ⟨hs.of_eq a1 a2 a3 a8 a9, Or.inr ⟨a4, hrest⟩, a5, ?_, by omega, by omega⟩
        intro d'
        show dirPlain d' (Session.handleRecord _ true s ⟨record 20 ver [1], car⟩ d).traffic = _
        rw [a7]; exact dirPlain_push d' d s.traffic _ _ false
    · obtain ⟨_, _, _, h, _⟩ := hall _ (List.mem_cons_self ..); cases h
  | enc typ pt f =>
    rcases hinv with ⟨_, cl, rest, hl, _, _⟩ | ⟨hcc, hall⟩
    · cases cl <;> simp at hl
    · obtain ⟨typ', pt', f', he, htyp⟩ := hall _ (List.mem_cons_self ..)
      cases he
      have hall' : AllEnc12 rem := fun e he => hall e (List.mem_cons_of_mem _ he)
      rcases htyp with rfl | rfl
      · obtain ⟨_, _, b3, b4, b5, b6, b7⟩ := handleRecord_hsEnc H P L kl cls h13 macLen ver hv x s hs d hcc pt f hok hq true car
        refine ⟨b3, Or.inr ⟨(ccOf_of_flags b4 b5 d).trans hcc, hall'⟩, ccOf_of_flags b4 b5 _, ?_, b6, b7⟩
        intro d'
        have := hsEnc_meta_traffic H P L kl cls h13 macLen ver hv x s hs d hcc pt f hok hq car d'
        show dirPlain d' (Session.handleRecord _ true s ⟨(protect P L cls ver (x.get d) 22 pt f).2, car⟩ d).traffic = _
        rw [this]; simp [metaOf12, evRaw]
      · obtain ⟨c1, c2, c3, c4⟩ := handleRecord_app H P L kl cls macLen ver hv x s hs d pt f hok hq true car
        have htyp : (⟨(protect P L cls ver (x.get d) 23 pt f).2, car⟩ : Session.Rec).typ = some 0x17 :=
          protect_head_legacy P L cls h13 ver _ 23 pt f
        obtain ⟨f1, f2⟩ := handle_app_flags (Pipeline.ops H P kl) true s _ d htyp
        refine ⟨c2, Or.inr ⟨(ccOf_of_flags f1 f2 d).trans hcc, hall'⟩, ccOf_of_flags f1 f2 _, ?_, c3, c4⟩
        intro d'
        show dirPlain d' (Session.handleRecord _ true s ⟨(protect P L cls ver (x.get d) 23 pt f).2, car⟩ d).traffic = _
        rw [c1, dirPlain_push]
        simp [metaOf12]
  | hs13 ms f =>
    rcases hinv with ⟨_, cl, rest, hl, _, _⟩ | ⟨_, hall⟩
    · cases cl <;> simp at hl
    · obtain ⟨_, _, _, h, _⟩ := hall _ (List.mem_cons_self ..); cases h

/-- TLS ≤ 1.2 after the ServerHello: `Session` over ANY interleaving of the two sides' remaining records (each side's
    own order kept) exports with `-a`, per direction, exactly `metaStream12` -/
theorem run_merge12m (H : Crypto.Prims) (P : Prims) (L : SealLaws P) (kl : List Keylog.Key) (cls : CipherClass)
    (h13 : cls.is13 = false) (macLen : Nat) (ver : Bytes) (hv : ver.length = 2) (M : List (Session.Rec × Bool)) :
    ∀ (x : Snd) (s : Session.St Dec) (rem : Bool → List DirEv), Ready cls macLen x s →
      (∀ d, DirInv12 s d (rem d)) → (∀ d, ∀ e ∈ rem d, EvOk1 cls macLen e) →
      (∀ d, (M.filter fun q => q.2 == d).map (·.1.raw) = sendDir P L cls ver (x.get d) (rem d)) →
      max x.c.seq x.s.seq + M.length ≤ seqLimit →
      ∀ d, dirPlain d (Session.run (Pipeline.ops H P kl) true s M).traffic
        = dirPlain d s.traffic ++ metaStream12 P L cls ver (x.get d) (rem d) := by
  induction M with
  | nil =>
    intro x s rem _ _ _ hfil _ d
    have := sendDir_eq_nil P L cls ver _ _ (hfil d).symm
    simp [Session.run, this, metaStream12]
  | cons q M' ih =>
    intro x s rem hs hinv hok hfil hq d
    obtain ⟨r, d0⟩ := q
    have h0 := hfil d0
    rw [filter_dir_cons_same, List.map_cons] at h0
    cases hrem : rem d0 with
    | nil => rw [hrem] at h0; cases h0
    | cons e rest =>
      rw [hrem, sendDir_cons] at h0
      simp only [List.cons.injEq] at h0
      obtain ⟨hraw, htail⟩ := h0
      have hr : r = ⟨evRaw P L cls ver (x.get d0) e, r.carriers⟩ := by
        have hraw' : r.raw = evRaw P L cls ver (x.get d0) e := hraw
        rw [← hraw']
      simp only [List.length_cons] at hq
      obtain ⟨g1, g2, g3, g4, g5, g6⟩ := step12m H P L kl cls h13 macLen ver hv x s hs d0 e rest r.carriers
        (hrem ▸ hinv d0) (hok d0 e (by rw [hrem]; simp)) (by omega)
      rw [← hr] at g1 g2 g3 g4
      have hinv' : ∀ d', DirInv12 (Session.handleRecord (Pipeline.ops H P kl) true s r d0) d' (upd rem d0 rest d') := by
        intro d'
        by_cases hd : d' = d0
        · subst hd; simpa [upd] using g2
        · have hdn : d' = !d0 := bool_ne d' d0 hd
          have hcc : ccOf (Session.handleRecord (Pipeline.ops H P kl) true s r d0) d' = ccOf s d' := by
            rw [hdn]; exact g3
          simp only [upd, hd, if_false]
          unfold DirInv12
          rw [hcc]
          exact hinv d'
      have hok' : ∀ d', ∀ e' ∈ upd rem d0 rest d', EvOk1 cls macLen e' := by
        intro d' e' he'
        by_cases hd : d' = d0
        · subst hd
          simp only [upd, if_true] at he'
          exact hok d' e' (by rw [hrem]; simp [he'])
        · simp only [upd, hd, if_false] at he'
          exact hok d' e' he'
      have hfil' : ∀ d', (M'.filter fun q => q.2 == d').map (·.1.raw)
          = sendDir P L cls ver ((x.set d0 (evNext P L cls ver (x.get d0) e)).get d') (upd rem d0 rest d') := by
        intro d'
        by_cases hd : d' = d0
        · subst hd
          rw [Lemmas.RecLayer.sget_set]
          simpa [upd] using htail
        · rw [sget_set_ne _ _ _ _ hd]
          simp only [upd, hd, if_false]
          rw [← hfil d', filter_dir_cons_other _ _ _ _ hd]
      have := ih _ _ (upd rem d0 rest) g1 hinv' hok' hfil' (by omega) d
      simp only [Session.run, List.foldl_cons] at this ⊢
      rw [this, g4 d]
      by_cases hd : d = d0
      · subst hd
        simp only [upd, if_true, hrem, if_true, Lemmas.RecLayer.sget_set, metaStream12]
        rw [List.append_assoc]
      · rw [sget_set_ne _ _ _ _ hd]
        simp [upd, hd]


/-- what `-a` makes one record of a TLS 1.3 script contribute: dummy ChangeCipherSpec (and clear-text) records verbatim,
    protected handshake records NOTHING (their outer type is 23: `handle_tls_record` never appends the record), application
    data as plaintext -/
def metaOf13 (raw : Bytes) : DirEv → Bytes
  | .clear _ => raw
  | .ccs => raw
  | .enc _ pt _ => pt
  | .hs13 _ _ => []

def metaStream13 (P : Prims) (L : SealLaws P) (cls : CipherClass) (ver : Bytes) : SDir → List DirEv → Bytes
  | _, [] => []
  | sd, e :: r => metaOf13 (evRaw P L cls ver sd e) e ++ metaStream13 P L cls ver (evNext P L cls ver sd e) r

theorem step13m (H : Crypto.Prims) (P : Prims) (L : SealLaws P) (kl : List Keylog.Key) (cls : CipherClass)
    (h13 : cls.is13 = true) (macLen : Nat) (ver : Bytes) (hv : ver.length = 2) (x : Snd) (s : Session.St Dec)
    (hs : Ready cls macLen x s) (d : Bool) (e : DirEv) (car : List Nat)
    (hsc : e = .ccs ∨ (∃ ms f, e = .hs13 ms f) ∨ (∃ pt f, e = .enc 23 pt f)) (hok : EvOk1 cls macLen e)
    (hq : max x.c.seq x.s.seq + cost [e] ≤ seqLimit) :
    let s' := Session.handleRecord (Pipeline.ops H P kl) true s ⟨evRaw P L cls ver (x.get d) e, car⟩ d
    let x' := x.set d (evNext P L cls ver (x.get d) e)
    Ready cls macLen x' s' ∧
    (∀ d', dirPlain d' s'.traffic = dirPlain d' s.traffic ++
      (if d' = d then metaOf13 (evRaw P L cls ver (x.get d) e) e else [])) ∧
    max x'.c.seq x'.s.seq ≤ max x.c.seq x.s.seq + cost [e] := by
  intro s' x'
  rcases hsc with rfl | ⟨ms, f, rfl⟩ | ⟨pt, f, rfl⟩
  · obtain ⟨a1, a2, a3, _, _, _, _, a8, a9⟩ := handleRecord_ccs (Pipeline.ops H P kl) true s
      ⟨record 20 ver [1], car⟩ d (record_typ 20 ver [1] car)
    have a7 := handle_ccs_meta (Pipeline.ops H P kl) s ⟨record 20 ver [1], car⟩ d (record_typ 20 ver [1] car)
    have hx : x' = x := set_get x d
    rw [hx]
    refine ⟨hs.of_eq a1 a2 a3 a8 a9, ?_, by omega⟩
    intro d'
    show dirPlain d' (Session.handleRecord _ true s ⟨record 20 ver [1], car⟩ d).traffic = _
    rw [a7]; exact dirPlain_push d' d s.traffic _ _ false
  · simp only [cost] at hq
    obtain ⟨b1, b2, b3⟩ := handleRecord_hs13 H P L kl cls h13 macLen ver hv x s hs d ms f hok (by exact hq) true car
    rw [after_switches, Lemmas.RecLayer.sget_set, set_set] at b2 b3
    refine ⟨b2, ?_, by simp only [cost]; exact b3⟩
    intro d'
    show dirPlain d' (Session.handleRecord _ true s ⟨(protect P L cls ver (x.get d) 22 (encMsgs ms) f).2, car⟩ d).traffic = _
    rw [b1]; simp [metaOf13]
  · simp only [cost] at hq
    obtain ⟨c1, c2, c3, c4⟩ := handleRecord_app H P L kl cls macLen ver hv x s hs d pt f
      (sendOk_13 cls h13 macLen pt f) (by omega) true car
    change x'.c.seq ≤ _ at c3
    change x'.s.seq ≤ _ at c4
    refine ⟨c2, ?_, by simp only [cost]; exact Nat.max_le.mpr ⟨by omega, by omega⟩⟩
    intro d'
    show dirPlain d' (Session.handleRecord _ true s ⟨(protect P L cls ver (x.get d) 23 pt f).2, car⟩ d).traffic = _
    rw [c1, dirPlain_push]
    simp [metaOf13]

/-- TLS 1.3 after the ServerHello: `Session` over ANY interleaving of the two sides' records (dummy ChangeCipherSpec,
    protected handshake records of whole messages — each Finished switching that side's epoch —, application data)
    exports, per direction, exactly that side's application plaintexts in order -/
theorem run_merge13m (H : Crypto.Prims) (P : Prims) (L : SealLaws P) (kl : List Keylog.Key) (cls : CipherClass)
    (h13 : cls.is13 = true) (macLen : Nat) (ver : Bytes) (hv : ver.length = 2) (M : List (Session.Rec × Bool)) :
    ∀ (x : Snd) (s : Session.St Dec) (rem : Bool → List DirEv), Ready cls macLen x s →
      (∀ d, Script13 (rem d)) → (∀ d, ∀ e ∈ rem d, EvOk1 cls macLen e) →
      (∀ d, (M.filter fun q => q.2 == d).map (·.1.raw) = sendDir P L cls ver (x.get d) (rem d)) →
      max x.c.seq x.s.seq + (cost (rem false) + cost (rem true)) ≤ seqLimit →
      ∀ d, dirPlain d (Session.run (Pipeline.ops H P kl) true s M).traffic
        = dirPlain d s.traffic ++ metaStream13 P L cls ver (x.get d) (rem d) := by
  induction M with
  | nil =>
    intro x s rem _ _ _ hfil _ d
    have := sendDir_eq_nil P L cls ver _ _ (hfil d).symm
    simp [Session.run, this, metaStream13]
  | cons q M' ih =>
    intro x s rem hs hsc hok hfil hq d
    obtain ⟨r, d0⟩ := q
    have h0 := hfil d0
    rw [filter_dir_cons_same, List.map_cons] at h0
    cases hrem : rem d0 with
    | nil => rw [hrem] at h0; cases h0
    | cons e rest =>
      rw [hrem, sendDir_cons] at h0
      simp only [List.cons.injEq] at h0
      obtain ⟨hraw, htail⟩ := h0
      have hr : r = ⟨evRaw P L cls ver (x.get d0) e, r.carriers⟩ := by
        have hraw' : r.raw = evRaw P L cls ver (x.get d0) e := hraw
        rw [← hraw']
      have hcost : cost [e] + cost rest + cost (rem (!d0)) ≤ cost (rem false) + cost (rem true) := by
        have := cost_cons e rest
        cases d0
        · simp only [Bool.not_false, hrem] at *; omega
        · simp only [Bool.not_true, hrem] at *; omega
      obtain ⟨g1, g4, g5⟩ := step13m H P L kl cls h13 macLen ver hv x s hs d0 e r.carriers
        (hsc d0 e (by rw [hrem]; simp)) (hok d0 e (by rw [hrem]; simp)) (by omega)
      rw [← hr] at g1 g4
      have hsc' : ∀ d', Script13 (upd rem d0 rest d') := by
        intro d' e' he'
        by_cases hd : d' = d0
        · subst hd
          simp only [upd, if_true] at he'
          exact hsc d' e' (by rw [hrem]; simp [he'])
        · simp only [upd, hd, if_false] at he'
          exact hsc d' e' he'
      have hok' : ∀ d', ∀ e' ∈ upd rem d0 rest d', EvOk1 cls macLen e' := by
        intro d' e' he'
        by_cases hd : d' = d0
        · subst hd
          simp only [upd, if_true] at he'
          exact hok d' e' (by rw [hrem]; simp [he'])
        · simp only [upd, hd, if_false] at he'
          exact hok d' e' he'
      have hfil' : ∀ d', (M'.filter fun q => q.2 == d').map (·.1.raw)
          = sendDir P L cls ver ((x.set d0 (evNext P L cls ver (x.get d0) e)).get d') (upd rem d0 rest d') := by
        intro d'
        by_cases hd : d' = d0
        · subst hd
          rw [Lemmas.RecLayer.sget_set]
          simpa [upd] using htail
        · rw [sget_set_ne _ _ _ _ hd]
          simp only [upd, hd, if_false]
          rw [← hfil d', filter_dir_cons_other _ _ _ _ hd]
      have hq' : max (x.set d0 (evNext P L cls ver (x.get d0) e)).c.seq (x.set d0 (evNext P L cls ver (x.get d0) e)).s.seq
          + (cost (upd rem d0 rest false) + cost (upd rem d0 rest true)) ≤ seqLimit := by
        have : cost (upd rem d0 rest false) + cost (upd rem d0 rest true) = cost rest + cost (rem (!d0)) := by
          cases d0 <;> simp [upd] <;> omega
        rw [this]; omega
      have := ih _ _ (upd rem d0 rest) g1 hsc' hok' hfil' hq' d
      simp only [Session.run, List.foldl_cons] at this ⊢
      rw [this, g4 d]
      by_cases hd : d = d0
      · subst hd
        simp only [upd, if_true, hrem, if_true, Lemmas.RecLayer.sget_set, metaStream13]
        rw [List.append_assoc]
      · rw [sget_set_ne _ _ _ _ hd]
        simp [upd, hd]


end TLX.Lemmas.Capstone2
