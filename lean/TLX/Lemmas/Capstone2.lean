/-
Helper lemmas for `Props/C01Capstone2.lean`.
-/
import TLX.Props.C01Capstone
set_option linter.unusedSimpArgs false
namespace TLX.Lemmas.Capstone2
open TLX TLX.Reassembly TLX.Lemmas.Capstone TLX.Lemmas.Pipeline TLX.Spec.TlsFraming

/-- `released_dir_records` for displaced deliveries (`Props.C05.reassembly_exact_partial`) -/
theorem released_dir_records_displaced (info : Nat → Pipeline.Info) (server : MainLoop.Endpoint)
    (pkts : List MainLoop.Pkt) (d : Bool) (k isn : Nat) (recs : List Bytes)
    (hwf : ∀ r ∈ recs, Spec.TlsConnection.WholeRecord r)
    (hd : Delivers k isn recs.flatten ((dirSegs info server d pkts).map Props.C05.wire))
    (hlen : recs.flatten.length ≤ 2 ^ 31) (hearly : Props.C05.NoEarlyDelivery isn (dirSegs info server d pkts)) :
    ((released info server (St.init, St.init) pkts).filter fun r => r.2 == d).map (·.1.raw) = recs := by
  obtain ⟨hfr, hwhole⟩ := frame_flatten recs hwf
  have hne : ∀ p ∈ dirSegs info server d pkts, p.data ≠ [] := by
    obtain ⟨chunks, hcut, hmem⟩ := Lemmas.Delivery.delivers_mem hd
    intro p hp
    have := (hmem (Props.C05.wire p)).mp (List.mem_map_of_mem hp)
    rw [Lemmas.Delivery.segsOf_eq_offs] at this
    obtain ⟨x, hx, hxe⟩ := List.mem_map.mp this
    simp only [Props.C05.wire, Prod.mk.injEq] at hxe
    rw [← hxe.2]
    exact hcut.1 _ (Lemmas.ReasmSort.offs_bounds _ _ _ hx).2.2
  have h1 := Props.C05.reassembly_exact_partial k isn recs.flatten (dirSegs info server d pkts) hd hwhole hlen hearly
  rw [run_eq_outs _ hne, hfr] at h1
  have h2 := released_filter info server (St.init, St.init) pkts d
  have h3 : (if d then (St.init, St.init).2 else (St.init, St.init).1) = St.init := by cases d <;> rfl
  rw [h3] at h2
  rw [← h1, ← h2, List.map_map]
  rfl

end TLX.Lemmas.Capstone2
