/-
Helper lemmas for `Props/C01Capstone2.lean`.
-/
import TLX.Props.C01Capstone
set_option linter.unusedSimpArgs false
namespace TLX.Lemmas.Capstone2
open TLX TLX.Reassembly TLX.Lemmas.Capstone TLX.Lemmas.Pipeline TLX.Spec.TlsFraming

/-- `released_dir_records` for displaced deliveries (`Props.C05.reassembly_exact_partial`) -/
theorem released_dir_records_displaced (info : Nat → Pipeline.Info) (server : MainLoop.Endpoint)
    (pkts : List MainLoop.Pkt) (d : Bool) (k isn : Nat) (recs : List Bytes)
    (hwf : ∀ r ∈ recs, Spec.TlsConnection.WholeRecord r)
    (hd : Delivers k isn recs.flatten ((dirSegs info server d pkts).map Props.C05.wire))
    (hlen : recs.flatten.length ≤ 2 ^ 31) (hearly : Props.C05.NoEarlyDelivery isn (dirSegs info server d pkts)) :
    ((released info server (St.init, St.init) pkts).filter fun r => r.2 == d).map (·.1.raw) = recs := by
  obtain ⟨hfr, hwhole⟩ := frame_flatten recs hwf
  have hne : ∀ p ∈ dirSegs info server d pkts, p.data ≠ [] := by
    obtain ⟨chunks, hcut, hmem⟩ := Lemmas.Delivery.delivers_mem hd
    intro p hp
    have := (hmem (Props.C05.wire p)).mp (List.mem_map_of_mem hp)
    rw [Lemmas.Delivery.segsOf_eq_offs] at this
    obtain ⟨x, hx, hxe⟩ := List.mem_map.mp this
    simp only [Props.C05.wire, Prod.mk.injEq] at hxe
    rw [← hxe.2]
    exact hcut.1 _ (Lemmas.ReasmSort.offs_bounds _ _ _ hx).2.2
  have h1 := Props.C05.reassembly_exact_partial k isn recs.flatten (dirSegs info server d pkts) hd hwhole hlen hearly
  rw [run_eq_outs _ hne, hfr] at h1
  have h2 := released_filter info server (St.init, St.init) pkts d
  have h3 : (if d then (St.init, St.init).2 else (St.init, St.init).1) = St.init := by cases d <;> rfl
  rw [h3] at h2
  rw [← h1, ← h2, List.map_map]
  rfl

-- ------------------------------------------------------------------ flights: a block of packets of one direction
theorem dirSegs_none (info : Nat → Pipeline.Info) (server : MainLoop.Endpoint) (d : Bool) (pkts : List MainLoop.Pkt)
    (h : ∀ p ∈ pkts, (p.src == server) = !d) : dirSegs info server d pkts = [] := by
  unfold dirSegs
  rw [List.filter_eq_nil_iff.mpr (fun p hp => by rw [h p hp]; cases d <;> simp)]
  rfl

theorem all_dir_of_filter_nil (l : List (Session.Rec × Bool)) (d : Bool)
    (h : (l.filter fun q => q.2 == !d) = []) : ∀ q ∈ l, q.2 = d := by
  intro q hq
  have := List.filter_eq_nil_iff.mp h q hq
  cases d <;> cases hq2 : q.2 <;> simp_all

/-- a block of packets that all travel in direction `d` and deliver (in order: any cuts, duplicates, any ISN) a stream of
    whole records, fed to a connection whose reassembler of direction `d` is still in its initial state: exactly these
    records are released, all tagged `d` -/
theorem released_block (info : Nat → Pipeline.Info) (server : MainLoop.Endpoint) (R : Reassembly.St × Reassembly.St)
    (pkts : List MainLoop.Pkt) (d : Bool) (hR : (if d then R.2 else R.1) = St.init)
    (hdir : ∀ p ∈ pkts, (p.src == server) = d) (isn : Nat) (recs : List Bytes)
    (hwf : ∀ r ∈ recs, Spec.TlsConnection.WholeRecord r)
    (hd : InOrder isn recs.flatten ((dirSegs info server d pkts).map Props.C05.wire))
    (hlen : recs.flatten.length ≤ 2 ^ 31) :
    (released info server R pkts).map (·.1.raw) = recs ∧ ∀ q ∈ released info server R pkts, q.2 = d := by
  obtain ⟨hfr, hwhole⟩ := frame_flatten recs hwf
  have hne : ∀ p ∈ dirSegs info server d pkts, p.data ≠ [] := by
    obtain ⟨chunks, hcut, hmem⟩ := Lemmas.Delivery.delivers_mem hd
    intro p hp
    have := (hmem (Props.C05.wire p)).mp (List.mem_map_of_mem hp)
    rw [Lemmas.Delivery.segsOf_eq_offs] at this
    obtain ⟨x, hx, hxe⟩ := List.mem_map.mp this
    simp only [Props.C05.wire, Prod.mk.injEq] at hxe
    rw [← hxe.2]
    exact hcut.1 _ (Lemmas.ReasmSort.offs_bounds _ _ _ hx).2.2
  have h1 := Props.C05.reassembly_exact_inorder isn recs.flatten (dirSegs info server d pkts) hd hwhole hlen
  rw [run_eq_outs _ hne, hfr] at h1
  have h2 := released_filter info server R pkts d
  rw [hR] at h2
  have h3 := released_filter info server R pkts (!d)
  rw [dirSegs_none info server (!d) pkts (by intro p hp; rw [hdir p hp]; simp)] at h3
  simp only [outs, List.map_eq_nil_iff] at h3
  have hall : ∀ q ∈ released info server R pkts, q.2 = d := all_dir_of_filter_nil _ d h3
  refine ⟨?_, hall⟩
  have hf : (released info server R pkts).filter (fun r => r.2 == d) = released info server R pkts :=
    List.filter_eq_self.mpr (fun q hq => by simp [hall q hq])
  rw [hf] at h2
  rw [← h1, ← h2, List.map_map]
  rfl

/-- packets of the other direction do not touch a direction's reassembler -/
theorem reasmFinal_other (info : Nat → Pipeline.Info) (server : MainLoop.Endpoint) (R : Reassembly.St × Reassembly.St)
    (pkts : List MainLoop.Pkt) (d : Bool) (h : ∀ p ∈ pkts, (p.src == server) = !d) :
    (if d then (reasmFinal info server R pkts).2 else (reasmFinal info server R pkts).1) = (if d then R.2 else R.1) := by
  induction pkts generalizing R with
  | nil => rfl
  | cons p ps ih =>
    simp only [reasmFinal]
    rw [ih _ (fun q hq => h q (by simp [hq]))]
    have hp := h p (by simp)
    cases d <;> simp_all [reasmPkt]

end TLX.Lemmas.Capstone2
