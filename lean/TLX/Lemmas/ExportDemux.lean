/-
Helpers of `Props/ExportDemux.lean` (C04 for the whole program): a capture restricted to some of its frames (`only`), what
that does to the three views of the loop, the heads of the TCP flows in order of first appearance (`flowHeads`), and the
generic step from a separation condition on the CAPTURE to the condition on session states of `Props/C04`.
-/
import TLX.Props.ExportPropsQuic
import TLX.Props.ExportInputs
set_option linter.unusedSimpArgs false
namespace TLX.Lemmas.ExportDemux
open TLX TLX.MainLoop TLX.Spec.Demux TLX.Lemmas.MainLoop TLX.Lemmas.ExportProps

/-! ### a capture restricted to some of its frames -/
section Only
variable {κ : Type}

/-- the capture with only the frames satisfying `keep`; the decryption-secrets blocks stay where they are -/
def only (keep : Pkt → Bool) (xs : List (Item κ)) : List (Item κ) :=
  xs.filter fun
    | .dsb _ => true
    | .frame p => keep p

theorem only_cons_dsb (keep : Pkt → Bool) (ks : List κ) (xs : List (Item κ)) :
    only keep (.dsb ks :: xs) = .dsb ks :: only keep xs := by simp [only]

theorem only_cons_frame (keep : Pkt → Bool) (p : Pkt) (xs : List (Item κ)) :
    only keep (.frame p :: xs) = if keep p then .frame p :: only keep xs else only keep xs := by
  simp only [only, List.filter_cons]

theorem dsbOnly_only (keep : Pkt → Bool) (xs : List (Item κ)) : dsbOnly (only keep xs) = dsbOnly xs := by
  induction xs with
  | nil => rfl
  | cons it rest ih =>
    cases it with
    | dsb ks => rw [only_cons_dsb]; simp only [dsbOnly, List.flatMap_cons] at ih ⊢; rw [ih]
    | frame p =>
      rw [only_cons_frame]
      split
      · simp only [dsbOnly, List.flatMap_cons] at ih ⊢; rw [ih]
      · simp only [dsbOnly, List.flatMap_cons, List.nil_append] at ih ⊢; exact ih

/-- a frame the loop hands to `handle_packet` is handed over as it is -/
theorem classify_tls_eq (o : Opts) (q p : Pkt) (h : classify o (Item.frame q : Item κ) = .tls p) : p = q := by
  simp only [classify] at h
  cases hq : q.l4 with
  | tcp =>
    rw [hq] at h
    simp only at h
    by_cases h1 : q.payload.length = 0
    · simp [h1] at h
    · by_cases h2 : (o.checksumTest && !q.csumOk) = true
      · simp [h1, h2] at h
      · simp [h1, h2] at h; exact h.symm
  | udp =>
    rw [hq] at h
    simp only at h
    cases hp : q.payload with
    | nil => rw [hp] at h; cases h
    | cons b0 r =>
      rw [hp] at h
      simp only at h
      by_cases h2 : (o.checksumTest && !q.csumOk) = true
      · simp [h2] at h
      · by_cases h3 : ((b0.toNat &&& 0x40) >>> 6 = 1 || o.greasy) = true <;> simp [h2, h3] at h
  | other => rw [hq] at h; cases h

theorem classify_quic_eq (o : Opts) (q p : Pkt) (b0 : UInt8) (r : Bytes)
    (h : classify o (Item.frame q : Item κ) = .quic p b0 r) : p = q := by
  cases hl : q.l4 with
  | tcp =>
    simp only [classify, hl] at h
    repeat' split at h
    all_goals cases h
  | other => simp only [classify, hl] at h; cases h
  | udp =>
    cases hp : q.payload with
    | nil => simp only [classify, hl, hp] at h; cases h
    | cons c cs =>
      simp only [classify, hl, hp] at h
      split at h
      · cases h
      · split at h
        · simp only [Class.quic.injEq] at h
          exact h.1.symm
        · cases h

theorem tcpView_only (o : Opts) (keep : Pkt → Bool) (xs : List (Item κ)) :
    tcpView o (only keep xs) = (tcpView o xs).filter keep := by
  induction xs with
  | nil => rfl
  | cons it rest ih =>
    cases it with
    | dsb ks =>
      rw [only_cons_dsb]
      simp only [tcpView, List.filterMap_cons, classify] at ih ⊢
      exact ih
    | frame p =>
      rw [only_cons_frame]
      simp only [tcpView, List.filterMap_cons] at ih ⊢
      cases hc : classify o (Item.frame p : Item κ) with
      | tls q =>
        have := classify_tls_eq o p q hc
        subst this
        by_cases hk : keep q = true
        · simp only [hk, if_true, List.filterMap_cons, hc, List.filter_cons]; rw [ih]
        · simp only [hk, Bool.false_eq_true, if_false, List.filter_cons]; exact ih
      | keys ks => split <;> simp only [List.filterMap_cons, hc] <;> exact ih
      | quic q b0 r => split <;> simp only [List.filterMap_cons, hc] <;> exact ih
      | ignore w => split <;> simp only [List.filterMap_cons, hc] <;> exact ih

theorem quicView_only (o : Opts) (keep : Pkt → Bool) (xs : List (Item κ)) :
    ∀ kl, quicView o kl (only keep xs) = (quicView o kl xs).filter fun x => keep x.p := by
  induction xs with
  | nil => intro kl; rfl
  | cons it rest ih =>
    intro kl
    cases it with
    | dsb ks =>
      rw [only_cons_dsb]
      simp only [quicView, classify]
      exact ih _
    | frame p =>
      rw [only_cons_frame]
      cases hc : classify o (Item.frame p : Item κ) with
      | quic q b0 r =>
        have := classify_quic_eq o p q b0 r hc
        subst this
        by_cases hk : keep q = true
        · simp only [hk, if_true, quicView, hc, List.filter_cons]; rw [ih]
        · simp only [hk, Bool.false_eq_true, if_false, quicView, hc, List.filter_cons]; exact ih kl
      | keys ks => exact absurd hc (Props.ExportInputs.classify_frame_not_keys o p ks)
      | tls q => split <;> simp only [quicView, hc] <;> exact ih kl
      | ignore w => split <;> simp only [quicView, hc] <;> exact ih kl

end Only

/-! ### a list split by a predicate is a merge of the two parts -/
theorem merge_filter {α : Type} (f : α → Bool) (l : List α) :
    Merge (l.filter f) (l.filter fun x => !f x) l := by
  induction l with
  | nil => exact .nil
  | cons x xs ih =>
    simp only [List.filter_cons]
    cases hf : f x with
    | true => simpa using Merge.left x ih
    | false => simpa using Merge.right x ih


theorem flatMap_congr' {α β : Type} {l : List α} {f g : α → List β} (h : ∀ x ∈ l, f x = g x) :
    l.flatMap f = l.flatMap g := by
  induction l with
  | nil => rfl
  | cons a as ih =>
    simp only [List.flatMap_cons]
    rw [h a (List.mem_cons_self ..), ih fun x hx => h x (List.mem_cons_of_mem _ hx)]

/-! ### the TCP flows of a capture, in order of first appearance -/
section Heads
variable {κ σ ο : Type}

/-- the first packet of every flow that has a server port at one end, in capture order -/
def flowHeads (o : Opts) : List Pkt → List Pkt
  | [] => []
  | p :: ps => if candidate o p then p :: flowHeads o (others p ps) else flowHeads o ps
termination_by l => l.length
decreasing_by
  · have := others_length_le p ps
    simp only [List.length_cons]; omega
  · simp only [List.length_cons]; omega

theorem mem_others {p q : Pkt} {l : List Pkt} (h : q ∈ others p l) : q ∈ l ∧ sameFlow p q = false := by
  simp only [others, List.mem_filter, Bool.not_eq_true'] at h
  exact h

theorem flowHeads_spec (o : Opts) (l : List Pkt) : ∀ q ∈ flowHeads o l, q ∈ l ∧ candidate o q = true := by
  generalize hn : l.length = n
  induction n using Nat.strongRecOn generalizing l with
  | _ n ih =>
    cases l with
    | nil => intro q hq; simp [flowHeads] at hq
    | cons p ps =>
      intro q hq
      rw [flowHeads] at hq
      by_cases hc : candidate o p = true
      · simp only [hc, if_true, List.mem_cons] at hq
        rcases hq with rfl | hq
        · exact ⟨List.mem_cons_self .., hc⟩
        · obtain ⟨h1, h2⟩ := ih _ (by have := others_length_le p ps; simp at hn; omega) (others p ps) rfl q hq
          exact ⟨List.mem_cons_of_mem _ (mem_others h1).1, h2⟩
      · simp only [hc, if_false] at hq
        obtain ⟨h1, h2⟩ := ih _ (by simp at hn; omega) ps rfl q hq
        exact ⟨List.mem_cons_of_mem _ h1, h2⟩

theorem flowHeads_others (o : Opts) (p : Pkt) (ps : List Pkt) : ∀ q ∈ flowHeads o (others p ps), sameFlow p q = false :=
  fun q hq => (mem_others (flowHeads_spec o _ q hq).1).2

/-- the session list of a run, flow by flow: the session of each flow head is what the packets of that flow alone give -/
theorem groupByFlow_heads (M : TlsMachine κ σ ο) (o : Opts) (pkts : List Pkt) :
    groupByFlow M o pkts = (flowHeads o pkts).flatMap fun q => (alone M o (pkts.filter (sameFlow q))).toList := by
  generalize hn : pkts.length = n
  induction n using Nat.strongRecOn generalizing pkts with
  | _ n ih =>
    cases pkts with
    | nil => simp [groupByFlow, flowHeads]
    | cons p ps =>
      rw [groupByFlow, flowHeads]
      by_cases hc : candidate o p = true
      · simp only [hc, if_true, List.flatMap_cons]
        have hhead : (alone M o ((p :: ps).filter (sameFlow p))).toList =
            [feedAll M (tlsNew M o p) (ps.filter (sameFlow p))] := by
          simp [List.filter_cons, sameFlow_refl, alone, hc]
        rw [hhead, List.singleton_append]
        congr 1
        rw [ih _ (by have := others_length_le p ps; simp at hn; omega) (others p ps) rfl]
        apply flatMap_congr'
        intro q hq
        have hpq := flowHeads_others o p ps q hq
        have hqp : sameFlow q p = false := by rw [sameFlow_symm]; exact hpq
        rw [others_filter_sameFlow hpq, List.filter_cons]
        simp [hqp]
      · have hc' : candidate o p = false := by simpa using hc
        simp only [hc', Bool.false_eq_true, if_false]
        rw [ih _ (by simp at hn; omega) ps rfl]
        apply flatMap_congr'
        intro q hq
        have hcq := (flowHeads_spec o ps q hq).2
        have hqp : sameFlow q p = false := by
          cases h : sameFlow q p with
          | false => rfl
          | true => rw [candidate_congr_sameFlow o h, hc'] at hcq; cases hcq
        simp [List.filter_cons, hqp]
end Heads

/-! ### from the capture to the session states -/
section Sep
variable {κ τ ο : Type}

/-- the connection ID `c` is, at some moment of the run on the datagrams `A` alone, in a CID set of one of the sessions -/
def EverHolds (M : QuicMachine κ τ ο) (o : Opts) (A : List (QIn κ)) (c : Bytes) : Prop :=
  ∃ n, ∃ s ∈ quicRun M o [] (A.take n), c ∈ M.clientCids s.st ∨ c ∈ M.serverCids s.st

/-- **separation of two sets of datagrams, stated on the capture**: no datagram of `B` runs between the two endpoints of a
    datagram of `A` (either direction); no long-header datagram of `B` names, as its non-empty DCID, a connection ID that the
    sessions of `A` ever hold; no short-header datagram of `B` starts (bytes 1..) with such a non-empty connection ID -/
structure CaptureSeparated (M : QuicMachine κ τ ο) (o : Opts) (A B : List (QIn κ)) : Prop where
  tuples : ∀ a ∈ A, ∀ b ∈ B, sameFlow a.p b.p = false
  long : ∀ b ∈ B, ∀ d v, b.h = .long d v → d ≠ [] → ¬ EverHolds M o A d
  short : ∀ b ∈ B, b.h = .short → ∀ c, c ≠ [] → EverHolds M o A c → ¬ c <+: b.p.payload.drop 1

theorem quicNew_matches (M : QuicMachine κ τ ο) (o : Opts) (kl : List κ) (h : Hdr) (p q : Pkt) :
    (quicNew M o kl h p).matches q = sameFlow p q := by
  simp only [quicNew, rolesOf, Sess.matches, sameFlow]
  rw [Bool.eq_iff_iff]
  split <;> simp only [Bool.or_eq_true, Bool.and_eq_true, beq_iff_eq] <;>
    constructor <;> (rintro (⟨h1, h2⟩ | ⟨h1, h2⟩) <;> simp [h1, h2])

/-- every session of a run runs between the endpoints of one of the run's datagrams -/
theorem quicRun_session_flow (M : QuicMachine κ τ ο) (o : Opts) (A : List (QIn κ)) (n : Nat) :
    ∀ s ∈ quicRun M o [] (A.take n), ∃ a ∈ A, s.matches a.p = true := by
  apply Props.ExportPropsQuic.quicRun_inv M o (fun s => ∃ a ∈ A, s.matches a.p = true)
  · intro x hx
    exact ⟨x, List.mem_of_mem_take hx, by rw [quicNew_matches]; exact sameFlow_refl _⟩
  · intro x _ s c hs _
    exact hs
  · intro s hs; cases hs

theorem quicSeparated_of_capture (M : QuicMachine κ τ ο) (o : Opts) {A B : List (QIn κ)}
    (h : CaptureSeparated M o A B) : QuicSeparated M o A B := by
  intro n s hs x hx _
  refine ⟨?_, ?_, ?_⟩
  · obtain ⟨a, ha, hm⟩ := quicRun_session_flow M o A n s hs
    cases hsx : s.matches x.p with
    | false => rfl
    | true =>
      have := sameFlow_of_matches s hm hsx
      rw [h.tuples a ha x hx] at this; cases this
  · intro d v hd hne
    have := h.long x hx d v hd hne
    exact ⟨fun hc => this ⟨n, s, hs, .inl hc⟩, fun hc => this ⟨n, s, hs, .inr hc⟩⟩
  · intro hsh c hc hne hp
    exact h.short x hx hsh c hne ⟨n, s, hs, hc⟩ hp
end Sep

/-! ### any number of mutually isolated input classes -/
section Labelled
variable {S I : Type}

/-- inputs of class `j` -/
def cls (lab : I → Nat) (j : Nat) (l : List I) : List I := l.filter fun x => lab x == j
/-- inputs of the other classes -/
def rest (lab : I → Nat) (j : Nat) (l : List I) : List I := l.filter fun x => !(lab x == j)

theorem Router.run_nil (R : Router S I) (ss : List S) : R.run ss [] = ss := rfl

/-- `L` is made of inputs of `M`, and class by class a prefix of `M` -/
def Fam (lab : I → Nat) (M L : List I) : Prop := (∀ x ∈ L, x ∈ M) ∧ ∀ j, cls lab j L <+: cls lab j M

theorem Fam.take {lab : I → Nat} {M L : List I} (h : Fam lab M L) (n : Nat) : Fam lab M (L.take n) :=
  ⟨fun x hx => h.1 x (List.mem_of_mem_take hx),
   fun j => ((List.take_prefix n L).filter _).trans (h.2 j)⟩

theorem cls_rest_self (lab : I → Nat) (k : Nat) (L : List I) : cls lab k (rest lab k L) = [] := by
  simp only [cls, rest, List.filter_filter, List.filter_eq_nil_iff]
  intro x _; simp

theorem cls_rest_other (lab : I → Nat) {j k : Nat} (h : j ≠ k) (L : List I) : cls lab j (rest lab k L) = cls lab j L := by
  simp only [cls, rest, List.filter_filter]
  apply List.filter_congr
  intro x _
  by_cases hx : lab x = j
  · simp [hx, h]
  · simp [hx]

theorem cls_take_rest_self (lab : I → Nat) (k m : Nat) (L : List I) : cls lab k ((rest lab k L).take m) = [] := by
  have := ((List.take_prefix m (rest lab k L)).filter fun x => lab x == k)
  rw [show List.filter (fun x => lab x == k) (rest lab k L) = cls lab k (rest lab k L) from rfl, cls_rest_self] at this
  exact List.prefix_nil.mp this

theorem Fam.rest {lab : I → Nat} {M L : List I} (h : Fam lab M L) (k : Nat) : Fam lab M (rest lab k L) := by
  refine ⟨fun x hx => h.1 x (List.mem_filter.mp hx).1, fun j => ?_⟩
  by_cases hj : j = k
  · subst hj; rw [cls_rest_self]; exact List.nil_prefix
  · rw [cls_rest_other lab hj]; exact h.2 j

variable (R : Router S I) (lab : I → Nat) (M : List I)

/-- the hypothesis: a session that the inputs of one class alone give rise to never takes an input of another class -/
def IsoN : Prop :=
  ∀ j n, ∀ s ∈ R.run [] ((cls lab j M).take n), ∀ x ∈ M, lab x ≠ j → R.takes s x = false

theorem iso_of_prefix {R : Router S I} {lab : I → Nat} {M : List I} (H : IsoN R lab M) {j : Nat} {A : List I}
    (hA : A <+: cls lab j M) (B : List I) (hB : ∀ x ∈ B, x ∈ M ∧ lab x ≠ j) : R.Iso [] A B := by
  intro n s hs x hx
  have h1 : A.take n <+: cls lab j M := (List.take_prefix n A).trans hA
  rw [List.prefix_iff_eq_take] at h1
  rw [h1] at hs
  exact H j _ s hs x (hB x hx).1 (hB x hx).2

/-- every session of a run on mutually isolated classes is a session of the run on ONE class alone -/
theorem run_one_class {R : Router S I} {lab : I → Nat} {M : List I} (H : IsoN R lab M) :
    ∀ L, Fam lab M L → ∀ s ∈ R.run [] L, ∃ j, s ∈ R.run [] (cls lab j L) := by
  intro L
  generalize hn : L.length = n
  induction n using Nat.strongRecOn generalizing L with
  | _ n ih =>
    intro hF s hs
    cases L with
    | nil => simp [Router.run] at hs
    | cons x0 L0 =>
      let k := lab x0
      have hlt : (rest lab k (x0 :: L0)).length < n := by
        have : rest lab k (x0 :: L0) = rest lab k L0 := by simp [rest, k]
        rw [this, ← hn]
        exact Nat.lt_succ_of_le (List.length_filter_le _ _)
      have hm : Merge (cls lab k (x0 :: L0)) (rest lab k (x0 :: L0)) (x0 :: L0) := merge_filter _ _
      have hA : R.Iso [] (cls lab k (x0 :: L0)) (rest lab k (x0 :: L0)) :=
        iso_of_prefix H (hF.2 k) _ fun x hx => by
          have := List.mem_filter.mp hx
          exact ⟨hF.1 x this.1, by simpa using this.2⟩
      have hB : R.Iso [] (rest lab k (x0 :: L0)) (cls lab k (x0 :: L0)) := by
        intro m t ht x hx
        have hF' := (hF.rest k).take m
        obtain ⟨j, hj⟩ := ih _ (by simp only [List.length_take]; omega) _ rfl hF' t ht
        have hjk : j ≠ k := by
          intro e; rw [e, cls_take_rest_self] at hj; simp [Router.run] at hj
        have hx' := List.mem_filter.mp hx
        refine iso_of_prefix H (hF'.2 j) [x] (fun y hy => ?_) _ t (by rw [List.take_length]; exact hj) x (List.mem_singleton_self x)
        rw [List.mem_singleton] at hy; subst hy
        have hk : lab y = k := by simpa using hx'.2
        exact ⟨hF.1 _ hx'.1, by rw [hk]; exact fun e => hjk e.symm⟩
      have hmerge := R.run_merge hm .nil hA hB
      rcases (hmerge.mem s).mp hs with h | h
      · exact ⟨k, h⟩
      · obtain ⟨j, hj⟩ := ih _ hlt _ rfl (hF.rest k) s h
        by_cases hjk : j = k
        · subst hjk; rw [cls_rest_self] at hj; simp [Router.run] at hj
        · rw [cls_rest_other lab hjk] at hj; exact ⟨j, hj⟩

/-- **any number of classes**: for every class `k`, the sessions of the whole run are the sessions of class `k` alone and
    the sessions of all the other inputs, interleaved -/
theorem Router.run_labelled {R : Router S I} {lab : I → Nat} {M : List I} (H : IsoN R lab M) (k : Nat) :
    Merge (R.run [] (cls lab k M)) (R.run [] (rest lab k M)) (R.run [] M) := by
  have hF : Fam lab M M := ⟨fun _ h => h, fun _ => List.prefix_refl _⟩
  refine R.run_merge (merge_filter _ _) .nil ?_ ?_
  · exact iso_of_prefix H (List.prefix_refl _) _ fun x hx => by
      have := List.mem_filter.mp hx
      exact ⟨this.1, by simpa using this.2⟩
  · intro m t ht x hx
    have hF' := (hF.rest k).take m
    obtain ⟨j, hj⟩ := run_one_class H _ hF' t ht
    have hjk : j ≠ k := by
      intro e; rw [e, cls_take_rest_self] at hj; simp [Router.run] at hj
    have hx' := List.mem_filter.mp hx
    refine iso_of_prefix H (hF'.2 j) [x] (fun y hy => ?_) _ t (by rw [List.take_length]; exact hj) x (List.mem_singleton_self x)
    rw [List.mem_singleton] at hy; subst hy
    have hk : lab y = k := by simpa using hx'.2
    exact ⟨hx'.1, by rw [hk]; exact fun e => hjk e.symm⟩
end Labelled
end TLX.Lemmas.ExportDemux
