/-
Helper lemmas for C17: the RFC 9000 §16 encoder of TLX/Spec/QuicFrames.lean is inverted by the model
of quic_decode.py (TLX/Quic/Varint.lean) — generic in the prefix, so one proof covers the 1-, 2-, 4-
and 8-byte encodings, minimal or not.
-/
import TLX.Quic.Varint
import TLX.Spec.QuicFrames
namespace TLX.Lemmas.QuicVarint
open TLX TLX.Quic.Varint TLX.Spec.QuicFrames

theorem ofNatBE_length (w n : Nat) : (Bytes.ofNatBE w n).length = w := by
  induction w generalizing n with
  | zero => rfl
  | succ w ih => simp [Bytes.ofNatBE, ih]

theorem accBE_append (a : Nat) (b c : Bytes) : accBE a (b ++ c) = accBE (accBE a b) c := by
  simp [accBE, List.foldl_append]

theorem accBE_ofNatBE (a w n : Nat) (h : n < 256 ^ w) : accBE a (Bytes.ofNatBE w n) = a * 256 ^ w + n := by
  induction w generalizing n with
  | zero => simp [Bytes.ofNatBE, accBE] at *; omega
  | succ w ih =>
    rw [Bytes.ofNatBE, accBE_append, ih (n / 256) (by rw [Nat.pow_succ] at h; omega)]
    simp only [accBE, List.foldl_cons, List.foldl_nil]
    have : (UInt8.ofNat (n % 256)).toNat = n % 256 := by simp
    rw [this, Nat.pow_succ]
    have := Nat.div_add_mod n 256
    rw [Nat.add_mul, Nat.mul_assoc]
    omega

theorem ofNatBE_succ_head (w n : Nat) :
    Bytes.ofNatBE (w + 1) n = UInt8.ofNat (n / 256 ^ w) :: Bytes.ofNatBE w (n % 256 ^ w) := by
  induction w generalizing n with
  | zero =>
    simp only [Bytes.ofNatBE, List.nil_append, Nat.pow_zero, Nat.div_one]
    congr 1
    apply UInt8.toNat_inj.mp
    simp
  | succ w ih =>
    rw [Bytes.ofNatBE, ih (n / 256), List.cons_append]
    congr 1
    · congr 1
      rw [Nat.pow_succ, Nat.div_div_eq_div_mul, Nat.mul_comm]
    · conv => rhs; rw [Bytes.ofNatBE]
      congr 1
      · congr 1
        rw [Nat.pow_succ, Nat.mul_comm, Nat.mod_mul_right_div_self]
      · congr 2
        rw [Nat.pow_succ, Nat.mod_mul_left_mod]

/-- `8w − 2` usable bits, written the way the byte-level proof needs it. -/
theorem usable_bits (w : Nat) (hw : 1 ≤ w) : 2 ^ (8 * w - 2) = 64 * 256 ^ (w - 1) := by
  obtain ⟨m, rfl⟩ : ∃ m, w = m + 1 := ⟨w - 1, by omega⟩
  rw [show 8 * (m + 1) - 2 = 6 + 8 * m by omega, Nat.pow_add, Nat.pow_mul, Nat.add_sub_cancel]

theorem VW.w_pos (x : VW) : 1 ≤ x.w := Nat.one_le_two_pow

theorem VW.enc_length (x : VW) (v : Nat) : (x.enc v).length = x.w := by
  simp [VW.enc, ofNatBE_length]

theorem VI.enc_length (x : VI) : x.enc.length = x.w.w := VW.enc_length _ _

/-- The byte-level round trip: the first byte announces the width, and decoding the first `w` bytes
    (whatever follows) returns the value. -/
theorem decode_enc (x : VW) (v : Nat) (hv : x.fits v) (tail : Bytes) :
    ∃ b rest, x.enc v ++ tail = b :: rest ∧ varintLen b = x.w ∧
      decodeVarint ((x.enc v ++ tail).take x.w) = some v := by
  obtain ⟨p, hp⟩ := x
  have hw1 : 1 ≤ 2 ^ p := Nat.one_le_two_pow
  simp only [VW.fits, VW.enc, VW.w] at *
  rw [usable_bits _ hw1] at hv ⊢
  generalize hw : 2 ^ p = w at *
  obtain ⟨m, rfl⟩ : ∃ m, w = m + 1 := ⟨w - 1, by omega⟩
  simp only [Nat.add_sub_cancel] at hv ⊢
  generalize hM : 256 ^ m = M at hv
  have hMpos : 0 < M := by rw [← hM]; exact Nat.pow_pos (by omega)
  rw [ofNatBE_succ_head, hM]
  have hdiv : (p * (64 * M) + v) / M = p * 64 + v / M := by
    rw [show p * (64 * M) + v = v + (p * 64) * M by rw [Nat.mul_assoc]; omega, Nat.add_mul_div_right _ _ hMpos]; omega
  have hmod : (p * (64 * M) + v) % M = v % M := by
    rw [show p * (64 * M) + v = v + (p * 64) * M by rw [Nat.mul_assoc]; omega, Nat.add_mul_mod_self_right]
  have hq : v / M < 64 := by
    rw [Nat.div_lt_iff_lt_mul hMpos]; exact hv
  rw [hdiv, hmod]
  have hvm := Nat.div_add_mod v M
  generalize v / M = q at *
  have hx : (UInt8.ofNat (p * 64 + q)).toNat = p * 64 + q := by
    simp; omega
  have hsh : (p * 64 + q) / 2 ^ 6 = p := by omega
  have hlen : varintLen (UInt8.ofNat (p * 64 + q)) = m + 1 := by
    unfold varintLen
    rw [hx, Nat.shiftRight_eq_div_pow, Nat.shiftLeft_eq, hsh, Nat.one_mul, hw]
  refine ⟨_, _, rfl, hlen, ?_⟩
  rw [List.cons_append, List.take_succ_cons]
  unfold decodeVarint
  simp only
  rw [hlen]
  simp only [Nat.add_sub_cancel]
  have htk : (Bytes.ofNatBE m (v % M) ++ tail).take m = Bytes.ofNatBE m (v % M) := by
    rw [List.take_append_of_le_length (by rw [ofNatBE_length]; exact Nat.le_refl _),
      List.take_of_length_le (by rw [ofNatBE_length]; exact Nat.le_refl _)]
  rw [htk, ofNatBE_length, if_neg (by omega), List.take_of_length_le (by rw [ofNatBE_length]; exact Nat.le_refl _)]
  rw [hx, accBE_ofNatBE _ _ _ (by rw [hM]; exact Nat.mod_lt _ hMpos), hM]
  have hand : (p * 64 + q) &&& 0x3f = q := by
    rw [show (0x3f : Nat) = 2 ^ 6 - 1 by decide, Nat.and_two_pow_sub_one_eq_mod]; omega
  rw [hand]
  congr 1
  rw [Nat.mul_comm]; exact hvm

/-- The reading idiom of the frame classes at `index = i`, when the payload `p` has a varint of width
    `x` with value `v` at that place (anything before, anything after). -/
theorem readVarint_encW (p pre tail : Bytes) (x : VW) (v i : Nat) (hv : x.fits v)
    (hp : p = pre ++ (x.enc v ++ tail)) (hi : i = pre.length) :
    readVarint p i = some (v, i + x.w) := by
  subst hp hi
  obtain ⟨b, rest, hb, hlen, hdec⟩ := decode_enc x v hv tail
  rw [readVarint_eq, List.drop_left, hb]
  simp only [hlen]
  rw [hb] at hdec
  have hw := VW.w_pos x
  obtain ⟨m, hm⟩ : ∃ m, x.w = m + 1 := ⟨x.w - 1, by omega⟩
  rw [hm] at hdec ⊢
  rw [List.take_succ_cons] at hdec
  simp only [decodeVarint, hlen, hm, Nat.add_sub_cancel, List.length_take] at hdec ⊢
  have hr : ¬ rest.length < m := by
    have : (x.enc v ++ tail).length = rest.length + 1 := by rw [hb]; rfl
    simp only [List.length_append, VW.enc_length] at this
    omega
  have hmin : ¬ min m rest.length < m := by omega
  rw [if_neg hmin] at hdec
  rw [if_neg hr]
  simp only [List.take_take, Nat.min_self, Option.some.injEq] at hdec
  rw [hdec]

theorem readVarint_enc (p pre tail : Bytes) (x : VI) (i : Nat) (hx : x.ok)
    (hp : p = pre ++ (x.enc ++ tail)) (hi : i = pre.length) :
    readVarint p i = some (x.val, i + x.w.w) :=
  readVarint_encW p pre tail x.w x.val i hx hp hi

end TLX.Lemmas.QuicVarint
