/-
Helper lemmas for `Props/ExportProps.lean` (whole-program forms of C08, C13, C10, C07 for TLS): how the session list of
the main loop grows, what of the options the demultiplexer reads, what `framesFrom` is once the options parse.
-/
import TLX.Props.Export
import TLX.Props.C01Capstone2
set_option linter.unusedSimpArgs false
namespace TLX.Lemmas.ExportProps
open TLX TLX.MainLoop TLX.Lemmas.MainLoop TLX.Spec.Demux

-- ------------------------------------------------------------------ lists that only grow
/-- `t` extends `s`: element by element related by `R`, possibly more elements at the end -/
inductive ListExt {α β : Type} (R : α → β → Prop) : List α → List β → Prop
  | nil (t : List β) : ListExt R [] t
  | cons {a : α} {b : β} {as : List α} {bs : List β} : R a b → ListExt R as bs → ListExt R (a :: as) (b :: bs)

theorem ListExt.refl {α : Type} {R : α → α → Prop} (hR : ∀ a, R a a) : ∀ l, ListExt R l l
  | [] => .nil _
  | a :: l => .cons (hR a) (ListExt.refl hR l)

theorem ListExt.trans {α : Type} {R : α → α → Prop} (hR : ∀ a b c, R a b → R b c → R a c) {x y z : List α}
    (h1 : ListExt R x y) (h2 : ListExt R y z) : ListExt R x z := by
  induction h1 generalizing z with
  | nil t => exact .nil _
  | cons r _ ih =>
    cases h2 with
    | cons r' h2' => exact .cons (hR _ _ _ r r') (ih h2')

theorem ListExt.length_le {α β : Type} {R : α → β → Prop} {x : List α} {y : List β} (h : ListExt R x y) :
    x.length ≤ y.length := by
  induction h with
  | nil t => simp
  | cons _ _ ih => simp only [List.length_cons]; omega

theorem ListExt.get {α β : Type} {R : α → β → Prop} {x : List α} {y : List β} (h : ListExt R x y) (i : Nat)
    (hi : i < x.length) : ∃ hj : i < y.length, R x[i] y[i] := by
  induction h generalizing i with
  | nil t => simp at hi
  | cons r _ ih =>
    cases i with
    | zero => exact ⟨by simp, r⟩
    | succ i =>
      obtain ⟨hj, hr⟩ := ih i (by simpa using hi)
      exact ⟨by simpa using hj, by simpa using hr⟩

theorem ListExt.map {α β γ δ : Type} {R : α → β → Prop} {S : γ → δ → Prop} (f : α → γ) (g : β → δ)
    (hfg : ∀ a b, R a b → S (f a) (g b)) {x : List α} {y : List β} (h : ListExt R x y) :
    ListExt S (x.map f) (y.map g) := by
  induction h with
  | nil t => exact .nil _
  | cons r _ ih => exact .cons (hfg _ _ r) ih

-- ------------------------------------------------------------------ the TLS session list only grows
section Tls
variable {κ σ ο : Type}

/-- the session `t` is the session `s` after more packets -/
def SessExt (M : TlsMachine κ σ ο) (s t : TlsSess σ) : Prop :=
  t.server = s.server ∧ t.client = s.client ∧ ∃ more : List Pkt, t.st = more.foldl M.feed s.st

theorem SessExt.refl (M : TlsMachine κ σ ο) (s : TlsSess σ) : SessExt M s s := ⟨rfl, rfl, [], rfl⟩

theorem SessExt.trans (M : TlsMachine κ σ ο) (a b c : TlsSess σ) (h1 : SessExt M a b) (h2 : SessExt M b c) :
    SessExt M a c := by
  obtain ⟨a1, a2, m1, a3⟩ := h1
  obtain ⟨b1, b2, m2, b3⟩ := h2
  exact ⟨b1.trans a1, b2.trans a2, m1 ++ m2, by rw [b3, a3, List.foldl_append]⟩

/-- one packet through `handle_packet`: existing sessions keep their place and identity, at most one is fed, at most one
    new session is appended -/
theorem tlsHandle_ext (M : TlsMachine κ σ ο) (o : Opts) (ss : List (TlsSess σ)) (p : Pkt) :
    ListExt (SessExt M) ss (tlsHandle M o ss p) := by
  induction ss with
  | nil => exact .nil _
  | cons s rest ih =>
    simp only [tlsHandle]
    split
    · exact .cons ⟨rfl, rfl, [p], rfl⟩ (ListExt.refl (SessExt.refl M) rest)
    · exact .cons (SessExt.refl M s) ih

theorem tlsRun_ext (M : TlsMachine κ σ ο) (o : Opts) (ss : List (TlsSess σ)) (pkts : List Pkt) :
    ListExt (SessExt M) ss (tlsRun M o ss pkts) := by
  induction pkts generalizing ss with
  | nil => exact ListExt.refl (SessExt.refl M) ss
  | cons p ps ih =>
    simp only [tlsRun, List.foldl_cons]
    exact ListExt.trans (SessExt.trans M) (tlsHandle_ext M o ss p) (ih _)

/-- **demultiplexing is monotone**: the sessions after a prefix of the packets are, in the same creation order, the
    first sessions of the full run, each holding a prefix of what it gets in the full run; later sessions are absent -/
theorem tlsRun_prefix_ext (M : TlsMachine κ σ ο) (o : Opts) (ss : List (TlsSess σ)) {a b : List Pkt} (h : a <+: b) :
    ListExt (SessExt M) (tlsRun M o ss a) (tlsRun M o ss b) := by
  obtain ⟨t, rfl⟩ := h
  have : tlsRun M o ss (a ++ t) = tlsRun M o (tlsRun M o ss a) t := by simp [tlsRun, List.foldl_append]
  rw [this]
  exact tlsRun_ext M o _ t

end Tls

-- ------------------------------------------------------------------ invariants of the TLS session list
section Inv
variable {κ σ ο : Type}

theorem tlsHandle_inv (M : TlsMachine κ σ ο) (o : Opts) (Q : TlsSess σ → Prop) (p : Pkt)
    (hfeed : ∀ s, Q s → s.matches p = true → Q { s with st := M.feed s.st p })
    (hnew : candidate o p = true → Q (tlsNew M o p)) (ss : List (TlsSess σ)) (h : ∀ s ∈ ss, Q s) :
    ∀ s ∈ tlsHandle M o ss p, Q s := by
  induction ss with
  | nil =>
    intro s hs
    simp only [tlsHandle] at hs
    split at hs
    · rename_i hc; simp only [List.mem_singleton] at hs; subst hs; exact hnew hc
    · simp at hs
  | cons a rest ih =>
    intro s hs
    simp only [tlsHandle] at hs
    split at hs
    · rename_i hm
      rcases List.mem_cons.mp hs with rfl | hs
      · exact hfeed a (h a (by simp)) hm
      · exact h s (by simp [hs])
    · rcases List.mem_cons.mp hs with rfl | hs
      · exact h _ (by simp)
      · exact ih (fun t ht => h t (by simp [ht])) s hs

theorem tlsRun_inv (M : TlsMachine κ σ ο) (o : Opts) (Q : TlsSess σ → Prop) (all : List Pkt)
    (hfeed : ∀ p ∈ all, ∀ s, Q s → s.matches p = true → Q { s with st := M.feed s.st p })
    (hnew : ∀ p ∈ all, candidate o p = true → Q (tlsNew M o p)) :
    ∀ (pkts : List Pkt), (∀ p ∈ pkts, p ∈ all) → ∀ ss : List (TlsSess σ), (∀ s ∈ ss, Q s) →
      ∀ s ∈ tlsRun M o ss pkts, Q s := by
  intro pkts
  induction pkts with
  | nil => intro _ ss h; exact h
  | cons p ps ih =>
    intro hsub ss h
    simp only [tlsRun, List.foldl_cons]
    exact ih (fun q hq => hsub q (by simp [hq])) _
      (tlsHandle_inv M o Q p (hfeed p (hsub p (by simp))) (hnew p (hsub p (by simp))) ss h)

end Inv

-- ------------------------------------------------------------------ views of a cut capture
section Views
variable {κ : Type}

theorem filterMap_take_prefix {α β : Type} (f : α → Option β) (l : List α) (n : Nat) :
    (l.take n).filterMap f <+: l.filterMap f := by
  conv => rhs; rw [← List.take_append_drop n l, List.filterMap_append]
  exact List.prefix_append _ _

theorem tcpView_take_prefix (o : Opts) (items : List (Item κ)) (n : Nat) :
    tcpView o (items.take n) <+: tcpView o items := filterMap_take_prefix _ _ _

theorem dsbKeys_append (o : Opts) (a b : List (Item κ)) : dsbKeys o (a ++ b) = dsbKeys o a ++ dsbKeys o b := by
  simp [dsbKeys, List.flatMap_append]

/-- the keys of the DSB items of a capture (no option is read) -/
def dsbOnly (items : List (Item κ)) : List κ := items.flatMap fun
  | .dsb ks => ks
  | .frame _ => []

theorem classify_frame_keys (o : Opts) (p : Pkt) :
    (match classify o (.frame p : Item κ) with
      | .keys ks => ks
      | _ => []) = [] := by
  simp only [classify]
  cases p.l4 with
  | tcp =>
    simp only
    by_cases h1 : p.payload.length = 0
    · simp [h1]
    · by_cases h2 : (o.checksumTest && !p.csumOk) = true <;> simp [h1, h2]
  | udp =>
    simp only
    cases p.payload with
    | nil => rfl
    | cons b0 r =>
      simp only
      by_cases h2 : (o.checksumTest && !p.csumOk) = true
      · simp [h2]
      · by_cases h3 : ((b0.toNat &&& 0x40) >>> 6 = 1 || o.greasy) = true <;> simp [h2, h3]
  | other => rfl

theorem dsbKeys_eq (o : Opts) (items : List (Item κ)) : dsbKeys o items = dsbOnly items := by
  induction items with
  | nil => rfl
  | cons it rest ih =>
    simp only [dsbKeys, dsbOnly, List.flatMap_cons] at ih ⊢
    rw [ih]
    congr 1
    cases it with
    | dsb ks => rfl
    | frame p => exact classify_frame_keys o p

end Views

-- ------------------------------------------------------------------ the composed TLS machine
section Composed
variable (H : Crypto.Prims) (P : Cipher.Prims) (info : Nat → Pipeline.Info)

theorem foldl_feed (c : Pipeline.Conn) (more : List Pkt) :
    more.foldl (Pipeline.tlsMachine H P info).feed c = { c with pkts := c.pkts ++ more } := by
  induction more generalizing c with
  | nil => simp
  | cons p ps ih =>
    rw [List.foldl_cons, ih]
    simp [Pipeline.tlsMachine]

/-- the conversation `a` is the conversation `b` cut after its first `k` packets: same roles, addresses, options -/
def ConnCut (a b : TlsSess Pipeline.Conn) : Prop :=
  a.server = b.server ∧ a.client = b.client ∧ ∃ k, a.st = { b.st with pkts := b.st.pkts.take k }

theorem connCut_of_ext {a b : TlsSess Pipeline.Conn} (h : SessExt (Pipeline.tlsMachine H P info) a b) : ConnCut a b := by
  obtain ⟨h1, h2, more, h3⟩ := h
  refine ⟨h1.symm, h2.symm, a.st.pkts.length, ?_⟩
  rw [h3, foldl_feed]
  simp

end Composed

-- ------------------------------------------------------------------ `framesFrom` once the options parse
/-- the options the loop runs with (`none`: an unusable `-p` / `-m` value, no output) -/
def optsOf (args : Args) : Option Opts :=
  match Options.getPortMap Options.Src.bare args.mArg with
  | .error _ => none
  | .ok pm =>
    match Options.serverPorts Options.Src.builtin Options.Src.pDefault args.pArg with
    | .error _ => none
    | .ok ports => some ⟨ports, args.checksumTest, args.greasy, args.metadata, Options.keepOriginalPorts args.mArg, pm⟩

/-- the key log at the end of the run: the `-s` file, then the DSB items in order -/
def keysOf (fk : Option (List Keylog.Key)) (xs : List (Item Keylog.Key)) : List Keylog.Key := fk.getD [] ++ dsbOnly xs

section Frames
variable (mask : Quic.Dissect.MaskFn) (H : Crypto.Prims) (P : Cipher.Prims) (info : Nat → Pipeline.Info)

/-- the TLS conversations of a run, in creation order -/
def tlsConvs (o : Opts) (xs : List (Item Keylog.Key)) : List (TlsSess Pipeline.Conn) :=
  tlsRun (Pipeline.tlsMachine H P info) o [] (tcpView o xs)

/-- the frames one conversation contributes to the output -/
def convFrames (kl : List Keylog.Key) (s : TlsSess Pipeline.Conn) : List Pipeline.OutPkt :=
  (Pipeline.connOut H P info s.st kl).getD []

/-- the TLS part of the output, conversation by conversation -/
def tlsFrames (o : Opts) (fk : Option (List Keylog.Key)) (xs : List (Item Keylog.Key)) : List (List Pipeline.OutPkt) :=
  (tlsConvs H P info o xs).map (convFrames H P info (keysOf fk xs))

theorem framesFrom_ok (prior : Export.Prior) (args : Args) (fk : Option (List Keylog.Key))
    (xs : List (Item Keylog.Key)) (o : Opts) (ho : optsOf args = some o) :
    ∃ quicPart, Export.framesFrom mask H P prior args fk xs info
      = .ok ((tlsFrames H P info o fk xs).flatten ++ quicPart) := by
  unfold optsOf at ho
  unfold Export.framesFrom runFrom body
  rw [Props.C18.reset_is_fresh]
  cases hpm : Options.getPortMap Options.Src.bare args.mArg with
  | error e => rw [hpm] at ho; cases ho
  | ok pm =>
    rw [hpm] at ho
    simp only at ho ⊢
    have hsp : (freshState : Export.Prior).serverPorts = Options.Src.builtin := rfl
    rw [hsp]
    cases hp : Options.serverPorts Options.Src.builtin Options.Src.pDefault args.pArg with
    | error e => rw [hp] at ho; cases ho
    | ok ports =>
      rw [hp] at ho
      simp only [Option.some.injEq] at ho
      subst ho
      simp only
      obtain ⟨h1, h2, h3⟩ := runItems_proj (Pipeline.tlsMachine H P info) (QuicPipeline.quicMachine mask H P info)
        ⟨ports, args.checksumTest, args.greasy, args.metadata, Options.keepOriginalPorts args.mArg, pm⟩ xs
        ({ (freshState : Export.Prior).st with keylog := (freshState : Export.Prior).st.keylog ++ fk.getD [] })
      refine ⟨(runItems (Pipeline.tlsMachine H P info) (QuicPipeline.quicMachine mask H P info)
        ⟨ports, args.checksumTest, args.greasy, args.metadata, Options.keepOriginalPorts args.mArg, pm⟩
        ({ (freshState : Export.Prior).st with keylog := (freshState : Export.Prior).st.keylog ++ fk.getD [] }) xs).quic.flatMap
          (fun s => (QuicPipeline.quicMachine mask H P info).out args.metadata s.st), ?_⟩
      simp only [exportAll, h1, h2, dsbKeys_eq, List.nil_append, tlsFrames, tlsConvs, keysOf, List.flatMap_def]
      rfl

theorem framesFrom_ok_opts (prior : Export.Prior) (args : Args) (fk : Option (List Keylog.Key))
    (xs : List (Item Keylog.Key)) (out : List Pipeline.OutPkt)
    (h : Export.framesFrom mask H P prior args fk xs info = .ok out) : ∃ o, optsOf args = some o := by
  unfold optsOf
  unfold Export.framesFrom runFrom body at h
  rw [Props.C18.reset_is_fresh] at h
  have hsp : (freshState : Export.Prior).serverPorts = Options.Src.builtin := rfl
  rw [hsp] at h
  cases hpm : Options.getPortMap Options.Src.bare args.mArg with
  | error e => rw [hpm] at h; cases h
  | ok pm =>
    cases hp : Options.serverPorts Options.Src.builtin Options.Src.pDefault args.pArg with
    | error e => rw [hpm, hp] at h; cases h
    | ok ports => exact ⟨_, rfl⟩

end Frames

-- ------------------------------------------------------------------ what every TLS conversation of a run satisfies
section ConvInv
variable (H : Crypto.Prims) (P : Cipher.Prims) (info : Nat → Pipeline.Info)

/-- the facts about a conversation object that the export reads: options as given, the roles decided on the first packet
    (`rolesOf`: the side whose port is a server port), the MAC addresses and the IP version of that packet, and that every
    packet it holds belongs to its flow, is a packet of the capture's TCP view, and has a server port at one end -/
structure ConvOk (o : Opts) (all : List Pkt) (s : TlsSess Pipeline.Conn) : Prop where
  opts : s.st.opts = o
  server : s.st.server = s.server
  client : s.st.client = s.client
  first : ∃ p0 rest, s.st.pkts = p0 :: rest ∧ candidate o p0 = true ∧ (s.server, s.client) = rolesOf o.ports p0 ∧
    s.st.serverMac = (if s.server == p0.src then (info p0.tag).srcMac else (info p0.tag).dstMac) ∧
    s.st.clientMac = (if s.server == p0.src then (info p0.tag).dstMac else (info p0.tag).srcMac) ∧
    s.st.ipv6 = (info p0.tag).ipv6
  pkts : ∀ q ∈ s.st.pkts, q ∈ all ∧ s.matches q = true ∧ candidate o q = true

theorem convOk_all (o : Opts) (xs : List (Item Keylog.Key)) :
    ∀ s ∈ tlsConvs H P info o xs, ConvOk info o (tcpView o xs) s := by
  unfold tlsConvs
  apply tlsRun_inv (Pipeline.tlsMachine H P info) o (ConvOk info o (tcpView o xs)) (tcpView o xs) ?_ ?_ _ (fun p hp => hp) []
    (by simp)
  · intro p hp s hs hm
    obtain ⟨h1, h2, h3, ⟨p0, rest, h4, h5, h6, h7, h8, h9⟩, h10⟩ := hs
    refine ⟨h1, h2, h3, ⟨p0, rest ++ [p], by simp [Pipeline.tlsMachine, h4], h5, h6, h7, h8, h9⟩, ?_⟩
    intro q hq
    simp only [Pipeline.tlsMachine, List.mem_append, List.mem_singleton] at hq
    rcases hq with hq | rfl
    · exact h10 q hq
    · refine ⟨hp, hm, ?_⟩
      have hp0 := (h10 p0 (by rw [h4]; simp)).2.1
      have := sameFlow_of_matches s hp0 hm
      rw [← candidate_congr_sameFlow o this]; exact h5
  · intro p hp hc
    refine ⟨rfl, rfl, rfl, ⟨p, [], rfl, hc, rfl, rfl, rfl, rfl⟩, ?_⟩
    intro q hq
    simp only [tlsNew, Pipeline.tlsMachine, List.mem_singleton] at hq
    subst hq
    exact ⟨hp, by rw [tlsNew_matches]; exact sameFlow_refl _, hc⟩

end ConvInv

-- ------------------------------------------------------------------ `-a` does not touch the demultiplexer
section Meta
variable (H : Crypto.Prims) (P : Cipher.Prims) (info : Nat → Pipeline.Info)

def optMeta (o : Opts) (b : Bool) : Opts := { o with metadata := b }

/-- the same conversation object created under `-a` set / cleared -/
def sessMeta (b : Bool) (s : TlsSess Pipeline.Conn) : TlsSess Pipeline.Conn :=
  { s with st := Props.C01Pipeline.setMeta s.st b }

theorem classify_optMeta {κ : Type} (o : Opts) (b : Bool) (it : Item κ) : classify (optMeta o b) it = classify o it := rfl

theorem tcpView_optMeta {κ : Type} (o : Opts) (b : Bool) (xs : List (Item κ)) : tcpView (optMeta o b) xs = tcpView o xs := rfl

theorem tlsHandle_optMeta (o : Opts) (b : Bool) (ss : List (TlsSess Pipeline.Conn)) (p : Pkt) :
    tlsHandle (Pipeline.tlsMachine H P info) (optMeta o b) (ss.map (sessMeta b)) p
      = (tlsHandle (Pipeline.tlsMachine H P info) o ss p).map (sessMeta b) := by
  induction ss with
  | nil =>
    simp only [tlsHandle, List.map_nil]
    have : candidate (optMeta o b) p = candidate o p := rfl
    rw [this]
    split <;> rfl
  | cons s rest ih =>
    simp only [tlsHandle, List.map_cons]
    have : (sessMeta b s).matches p = s.matches p := rfl
    rw [this]
    split
    · rfl
    · rw [ih]; rfl

/-- the demultiplexer does not read `-a`: the conversations of the two runs correspond one to one, in order, and differ
    only in the stored `exp_meta` -/
theorem tlsConvs_optMeta (o : Opts) (b : Bool) (xs : List (Item Keylog.Key)) :
    tlsConvs H P info (optMeta o b) xs = (tlsConvs H P info o xs).map (sessMeta b) := by
  unfold tlsConvs
  rw [tcpView_optMeta]
  generalize tcpView o xs = pkts
  have : ∀ (ss : List (TlsSess Pipeline.Conn)),
      tlsRun (Pipeline.tlsMachine H P info) (optMeta o b) (ss.map (sessMeta b)) pkts
        = (tlsRun (Pipeline.tlsMachine H P info) o ss pkts).map (sessMeta b) := by
    induction pkts with
    | nil => intro ss; rfl
    | cons p ps ih =>
      intro ss
      simp only [tlsRun, List.foldl_cons] at ih ⊢
      rw [tlsHandle_optMeta, ih]
  exact this []

end Meta

-- ------------------------------------------------------------------ carriers are packets of the connection
section Carriers
open TLX.Reassembly TLX.Lemmas.Capstone TLX.Lemmas.Pipeline

theorem records_carriers_sub (d : Bytes) (rs : List (Nat × Nat × Nat)) (i : Nat) :
    ∀ r ∈ records d rs i, ∀ id ∈ r.2, id ∈ rs.map (·.2.2) := by
  induction hn : d.length - i using Nat.strongRecOn generalizing i with
  | _ n ih =>
    intro r hr id hid
    rw [records] at hr
    by_cases h0 : d.length ≤ i
    · rw [if_pos h0] at hr; simp at hr
    · rw [if_neg h0] at hr
      rcases List.mem_cons.mp hr with rfl | hr
      · simp only [carriers, List.mem_map, List.mem_filter] at hid ⊢
        obtain ⟨x, ⟨hx, _⟩, rfl⟩ := hid
        exact ⟨x, hx, rfl⟩
      · have := recLenAt_ge d i
        exact ih (d.length - (i + recLenAt d i)) (by omega) (i + recLenAt d i) rfl r hr id hid

theorem ranges_ids (buf : List Seg) (s : Nat) : (ranges buf s).map (·.2.2) = buf.map (·.id) := by
  induction buf generalizing s with
  | nil => rfl
  | cons a r ih => simp [ranges, ih]

theorem flush_carriers_sub (buf : List Seg) (recs : List Reassembly.Rec) (h : flush buf = some recs) :
    ∀ r ∈ recs, ∀ id ∈ r.2, id ∈ buf.map (·.id) := by
  unfold flush at h
  split at h
  · cases h
  · simp only [Option.some.injEq] at h
    subst h
    intro r hr id hid
    have := records_carriers_sub _ _ _ r hr id hid
    rwa [ranges_ids] at this

theorem mem_sortBy (key : Seg → Nat) (l : List Seg) (x : Seg) : x ∈ sortBy key l ↔ x ∈ l := by
  induction l with
  | nil => simp [sortBy]
  | cons a r ih =>
    simp only [sortBy, List.foldr_cons] at ih ⊢
    rw [Lemmas.ReasmSort.mem_insertBy, ih]
    simp [eq_comm, or_comm]

theorem deliver_ids (W : Nat) (st : Reassembly.St) (base : Nat) (buf : List Seg) (hout : st.out = []) :
    (∀ r ∈ (deliver W st base buf).out, ∀ id ∈ r.2, id ∈ buf.map (·.id)) ∧
    (∀ s ∈ (deliver W st base buf).buf, s ∈ buf ∨ s ∈ st.buf) := by
  unfold deliver
  split
  · exact ⟨by simp [hout], fun s hs => .inr hs⟩
  · split
    · exact ⟨by simp [hout], fun s hs => .inl hs⟩
    · split
      · exact ⟨by simp [hout], fun s hs => .inl hs⟩
      · split
        · exact ⟨by simp [hout], fun s hs => .inl hs⟩
        · rename_i recs hf
          refine ⟨?_, by simp⟩
          simp only [hout, List.nil_append]
          exact flush_carriers_sub _ recs hf

theorem stepW_ids (W : Nat) (st : Reassembly.St) (p : Seg) :
    (∀ r ∈ (stepW W { st with out := [] } p).out, ∀ id ∈ r.2, id ∈ (st.buf ++ [p]).map (·.id)) ∧
    (∀ s ∈ (stepW W { st with out := [] } p).buf, s ∈ st.buf ++ [p]) := by
  unfold stepW
  split
  · exact ⟨by simp, fun s hs => List.mem_append_left _ hs⟩
  · unfold extract
    simp only
    split
    · rename_i hb; simp at hb
    · rename_i first rest hb
      have hd := deliver_ids W { st with out := [], seen := st.seen ++ [p.seq], buf := st.buf ++ [p] }
        (baseOf W st.next first rest) (sortBy (syncKey W (baseOf W st.next first rest)) (first :: rest)) rfl
      have hmem : ∀ s, s ∈ sortBy (syncKey W (baseOf W st.next first rest)) (first :: rest) ↔ s ∈ st.buf ++ [p] := by
        intro s; rw [mem_sortBy, ← hb]
      refine ⟨?_, ?_⟩
      · intro r hr id hid
        have := hd.1 r hr id hid
        obtain ⟨s, hs, rfl⟩ := List.mem_map.mp this
        exact List.mem_map.mpr ⟨s, (hmem s).mp hs, rfl⟩
      · intro s hs
        rcases hd.2 s hs with h | h
        · exact (hmem s).mp h
        · exact h

theorem outs_ids (W : Nat) (st : Reassembly.St) (segs : List Seg) :
    ∀ r ∈ outs W st segs, ∀ id ∈ r.2, id ∈ (st.buf ++ segs).map (·.id) := by
  induction segs generalizing st with
  | nil => simp [outs]
  | cons p ps ih =>
    intro r hr id hid
    simp only [outs, List.mem_append] at hr
    obtain ⟨h1, h2⟩ := stepW_ids W st p
    rcases hr with hr | hr
    · have := h1 r hr id hid
      simp only [List.map_append, List.mem_append, List.map_cons, List.map_nil, List.mem_cons] at this ⊢
      rcases this with h | h | h
      · exact .inl h
      · exact .inr (.inl h)
      · simp at h
    · have := ih _ r hr id hid
      simp only [List.map_append, List.mem_append, List.mem_map] at this ⊢
      rcases this with ⟨s, hs, rfl⟩ | h
      · have := h2 s hs
        rcases List.mem_append.mp this with h | h
        · exact .inl ⟨s, h, rfl⟩
        · simp only [List.mem_singleton] at h; subst h; exact .inr ⟨s, by simp, rfl⟩
      · obtain ⟨s, hs, rfl⟩ := h
        exact .inr ⟨s, by simp [hs], rfl⟩

/-- every carrier of a released record is (the tag of) a packet of the connection that travels in the record's direction -/
theorem released_carrier_tags (info : Nat → Pipeline.Info) (server : Endpoint) (pkts : List Pkt) :
    ∀ r ∈ released info server (Reassembly.St.init, Reassembly.St.init) pkts, ∀ id ∈ r.1.carriers,
      ∃ q ∈ pkts, q.tag = id ∧ (q.src == server) = r.2 := by
  intro r hr id hid
  have hf := released_filter info server (Reassembly.St.init, Reassembly.St.init) pkts r.2
  have hmem : ((r.1.raw, r.1.carriers) : Reassembly.Rec) ∈
      (List.filter (fun q => q.2 == r.2) (released info server (Reassembly.St.init, Reassembly.St.init) pkts)).map
        (fun q => ((q.1.raw, q.1.carriers) : Reassembly.Rec)) :=
    List.mem_map.mpr ⟨r, List.mem_filter.mpr ⟨hr, by simp⟩, rfl⟩
  rw [hf] at hmem
  have hinit : (if r.2 = true then (Reassembly.St.init, Reassembly.St.init).2 else (Reassembly.St.init, Reassembly.St.init).1)
      = Reassembly.St.init := by cases r.2 <;> rfl
  rw [hinit] at hmem
  have := outs_ids (2 ^ 32) Reassembly.St.init _ _ hmem id hid
  simp only [Reassembly.St.init, List.nil_append, dirSegs, List.map_map, List.mem_map, List.mem_filter, Function.comp] at this
  obtain ⟨q, ⟨hq, hd⟩, rfl⟩ := this
  exact ⟨q, hq, rfl, by simpa using hd⟩

end Carriers

-- ------------------------------------------------------------------ the export reads `info` only at the packets' tags
section InfoCongr
variable (H : Crypto.Prims) (P : Cipher.Prims)
open TLX.Lemmas.Pipeline TLX.Props.C01Pipeline

theorem tlsRun_machine_congr {κ σ ο : Type} (M M' : TlsMachine κ σ ο) (o : Opts) (hf : M.feed = M'.feed)
    (pkts : List Pkt) (hn : ∀ p ∈ pkts, M.new o p = M'.new o p) (ss : List (TlsSess σ)) :
    tlsRun M o ss pkts = tlsRun M' o ss pkts := by
  induction pkts generalizing ss with
  | nil => rfl
  | cons p ps ih =>
    simp only [tlsRun, List.foldl_cons] at ih ⊢
    have hh : tlsHandle M o ss p = tlsHandle M' o ss p := by
      induction ss with
      | nil => simp only [tlsHandle, tlsNew, hn p (by simp)]
      | cons s rest ihs => simp only [tlsHandle, hf, ihs]
    rw [hh]
    exact ih (fun q hq => hn q (by simp [hq])) _

theorem tlsConvs_info_congr (info info' : Nat → Pipeline.Info) (o : Opts) (xs : List (Item Keylog.Key))
    (h : ∀ p ∈ tcpView o xs, info p.tag = info' p.tag) : tlsConvs H P info o xs = tlsConvs H P info' o xs := by
  unfold tlsConvs
  exact tlsRun_machine_congr (Pipeline.tlsMachine H P info) (Pipeline.tlsMachine H P info') o rfl _
    (fun p hp => by simp only [Pipeline.tlsMachine, h p hp]) []

theorem released_info_congr (info info' : Nat → Pipeline.Info) (server : Endpoint) (pkts : List Pkt)
    (h : ∀ p ∈ pkts, info p.tag = info' p.tag) (R : Reassembly.St × Reassembly.St) :
    released info server R pkts = released info' server R pkts := by
  induction pkts generalizing R with
  | nil => rfl
  | cons p ps ih =>
    have hp : reasmPkt info server R p = reasmPkt info' server R p := by simp only [reasmPkt, h p (by simp)]
    simp only [released, hp]
    rw [ih (fun q hq => h q (by simp [hq]))]

theorem connOut_info_congr (info info' : Nat → Pipeline.Info) (c : Pipeline.Conn) (kl : List Keylog.Key)
    (h : ∀ p ∈ c.pkts, info p.tag = info' p.tag) :
    Pipeline.connOut H P info c kl = Pipeline.connOut H P info' c kl := by
  rw [connOut_eq, connOut_eq]
  have hr : connRecs info c = connRecs info' c := released_info_congr info info' c.server c.pkts h _
  rw [hr]
  congr 2
  apply List.map_congr_left
  intro e he
  have horig := Props.C07.entry_origin (Pipeline.ops H P kl) c.opts.metadata (connRecs info' c) e he
  simp only [toRec, TcpOut.Rec.mk.injEq, true_and, and_true]
  apply List.map_congr_left
  intro id hid
  obtain ⟨q, hq, hqt, _⟩ := released_carrier_tags info' c.server c.pkts (e.record, e.fromServer) horig id hid
  rw [← hqt, h q hq]

theorem tlsFrames_info_congr (info info' : Nat → Pipeline.Info) (o : Opts) (fk : Option (List Keylog.Key))
    (xs : List (Item Keylog.Key)) (h : ∀ p ∈ tcpView o xs, info p.tag = info' p.tag) :
    tlsFrames H P info o fk xs = tlsFrames H P info' o fk xs := by
  unfold tlsFrames
  rw [tlsConvs_info_congr H P info info' o xs h]
  apply List.map_congr_left
  intro s hs
  simp only [convFrames]
  rw [connOut_info_congr H P info info' s.st _ (fun p hp => h p ((convOk_all H P info' o xs s hs).pkts p hp).1)]

end InfoCongr

-- ------------------------------------------------------------------ ingest of a cut container
section IngestCut
open TLX.Ingest

theorem framePkt_tag (c : Bool) (tag us : Nat) (buf : Bytes) (p : Pkt) (i : Pipeline.Info)
    (h : framePkt c tag us buf = .ok (p, i)) : p.tag = tag := by
  unfold framePkt at h
  split at h
  · cases h
  · simp only [Except.ok.injEq, Prod.mk.injEq] at h; rw [← h.1]; rfl
  · split at h
    · cases h
    · simp only at h
      split at h <;> (simp only [Except.ok.injEq, Prod.mk.injEq] at h; rw [← h.1]) <;> rfl

/-- the read loop over the first `k` items the reader yields: the first `k` main-loop items (one per container item:
    a frame or a DSB) and a prefix of the tag ↦ info table -/
theorem go_take (hc : Keylog.HexClass) (c : Bool) (its : List Container.Item) :
    ∀ (tag k : Nat) (X : List (Item Keylog.Key)) (IS : List (Nat × Pipeline.Info)),
      go hc c tag its = .ok (X, IS) →
      ∃ IS', go hc c tag (its.take k) = .ok (X.take k, IS') ∧ IS' <+: IS ∧
        ∀ p, Item.frame p ∈ X.take k → ∃ i, (p.tag, i) ∈ IS' := by
  induction its with
  | nil =>
    intro tag k X IS h
    simp only [go, Except.ok.injEq, Prod.mk.injEq] at h
    obtain ⟨rfl, rfl⟩ := h
    exact ⟨[], by simp [go], List.prefix_refl _, by simp⟩
  | cons it rest ih =>
    intro tag k X IS h
    cases k with
    | zero => exact ⟨[], by simp [go], List.nil_prefix, by simp⟩
    | succ k =>
      cases it with
      | dsb s =>
        simp only [go] at h ⊢
        cases hd : decodeAscii s with
        | error e => rw [hd] at h; cases h
        | ok str =>
          rw [hd] at h
          simp only at h ⊢
          cases hg : go hc c (tag + 1) rest with
          | error e => rw [hg] at h; cases h
          | ok v =>
            obtain ⟨xs, is⟩ := v
            rw [hg] at h
            simp only [Except.ok.injEq, Prod.mk.injEq] at h
            obtain ⟨rfl, rfl⟩ := h
            obtain ⟨IS', g1, g2, g3⟩ := ih (tag + 1) k xs is hg
            refine ⟨IS', by simp only [List.take_succ_cons, go, hd, g1], g2, ?_⟩
            intro p hp
            simp only [List.take_succ_cons, List.mem_cons] at hp
            rcases hp with hp | hp
            · cases hp
            · exact g3 p hp
      | pkt t buf =>
        simp only [go] at h ⊢
        by_cases hm : isMinusOne t = true
        · simp only [hm, if_true] at h ⊢
          cases hd : decodeAscii buf with
          | error e => rw [hd] at h; cases h
          | ok str =>
            rw [hd] at h
            simp only at h ⊢
            cases hg : go hc c (tag + 1) rest with
            | error e => rw [hg] at h; cases h
            | ok v =>
              obtain ⟨xs, is⟩ := v
              rw [hg] at h
              simp only [Except.ok.injEq, Prod.mk.injEq] at h
              obtain ⟨rfl, rfl⟩ := h
              obtain ⟨IS', g1, g2, g3⟩ := ih (tag + 1) k xs is hg
              refine ⟨IS', by simp only [List.take_succ_cons, go, hm, if_true, hd, g1], g2, ?_⟩
              intro p hp
              simp only [List.take_succ_cons, List.mem_cons] at hp
              rcases hp with hp | hp
              · cases hp
              · exact g3 p hp
        · simp only [hm, Bool.false_eq_true, if_false] at h ⊢
          cases hf : framePkt c tag (Container.usOfFloat t.toFloat) buf with
          | error e => rw [hf] at h; cases h
          | ok v =>
            obtain ⟨p0, i0⟩ := v
            rw [hf] at h
            simp only at h ⊢
            cases hg : go hc c (tag + 1) rest with
            | error e => rw [hg] at h; cases h
            | ok v =>
              obtain ⟨xs, is⟩ := v
              rw [hg] at h
              simp only [Except.ok.injEq, Prod.mk.injEq] at h
              obtain ⟨rfl, rfl⟩ := h
              obtain ⟨IS', g1, g2, g3⟩ := ih (tag + 1) k xs is hg
              refine ⟨(tag, i0) :: IS', by simp only [List.take_succ_cons, go, hm, Bool.false_eq_true, if_false, hf, g1],
                by simpa using g2, ?_⟩
              intro p hp
              simp only [List.take_succ_cons, List.mem_cons, Item.frame.injEq] at hp
              rcases hp with rfl | hp
              · exact ⟨i0, by rw [framePkt_tag c tag _ buf p i0 hf]; simp⟩
              · obtain ⟨i, hi⟩ := g3 p hp
                exact ⟨i, by simp [hi]⟩

theorem lookup_prefix (IS' IS : List (Nat × Pipeline.Info)) (h : IS' <+: IS) (t : Nat) (i : Pipeline.Info)
    (hm : (t, i) ∈ IS') : lookup IS' t = lookup IS t := by
  obtain ⟨r, rfl⟩ := h
  unfold lookup
  rw [List.find?_append]
  have : (IS'.find? (·.1 == t)).isSome := by
    rw [List.find?_isSome]; exact ⟨(t, i), hm, by simp⟩
  obtain ⟨v, hv⟩ := Option.isSome_iff_exists.mp this
  rw [hv]; rfl

end IngestCut

end TLX.Lemmas.ExportProps
