/-
Helper lemmas for Props/C12Dissect.lean: the model's field readers on the specification encoder's output.  Core Lean only.
-/
import TLX.Dissect
import TLX.Spec.FrameBuild
namespace TLX.Lemmas.Dissect
open TLX TLX.Dissect TLX.Spec.FrameBuild

theorem toNat_ofNat (n : Nat) : (UInt8.ofNat n).toNat = n % 256 := by simp

theorem beNat2 (a b : UInt8) : Bytes.beNat [a, b] = a.toNat * 256 + b.toNat := by
  simp [Bytes.beNat]

theorem beNat4 (a b c d : UInt8) :
    Bytes.beNat [a, b, c, d] = ((a.toNat * 256 + b.toNat) * 256 + c.toNat) * 256 + d.toNat := by
  simp [Bytes.beNat]

theorem beNat_be2 (v : Nat) (h : v < 65536) : Bytes.beNat (be2 v) = v := by
  simp only [be2, beNat2, toNat_ofNat]; omega

theorem beNat_be4 (v : Nat) (h : v < 4294967296) : Bytes.beNat (be4 v) = v := by
  simp only [be4, beNat4, toNat_ofNat]; omega

theorem drop_len_add {α} (a b : List α) (n : Nat) : (a ++ b).drop (a.length + n) = b.drop n := by
  rw [← List.drop_drop, List.drop_left]

theorem drop_len_add' {α} (a b : List α) (n k : Nat) (h : a.length = k) : (a ++ b).drop (k + n) = b.drop n := by
  subst h; exact drop_len_add a b n

theorem take_len_add {α} (a b : List α) (n : Nat) : (a ++ b).take (a.length + n) = a ++ b.take n := by
  simp [List.take_append, List.take_of_length_le]

theorem tcp_header_length (t : Tcp) : t.header.length = 20 := by
  simp [Tcp.header, be2, be4]

theorem tcp_encode_length (t : Tcp) : t.encode.length = 20 + t.options.length + t.payload.length := by
  simp [Tcp.encode, tcp_header_length]; omega

theorem tcpOk_encode (t : Tcp) (h : t.WF) : tcpOk t.encode = .ok () := by
  obtain ⟨_, _, _, _, _, hr, ho4, ho⟩ := h
  have hl := tcp_encode_length t
  unfold tcpOk
  rw [if_neg (by omega)]
  have : u8 t.encode 12 = (5 + t.options.length / 4) * 16 + t.rsv := by
    simp [u8, Tcp.encode, Tcp.header, be2, be4]; omega
  rw [this, if_neg (by omega)]

theorem tcpView_encode (t : Tcp) (h : t.WF) :
    tcpView t.encode = .tcp t.sport t.dport t.seq t.ack t.payload := by
  obtain ⟨h1, h2, h3, h4, _, hr, ho4, ho⟩ := h
  have e12 : u8 t.encode 12 = (5 + t.options.length / 4) * 16 + t.rsv := by
    simp [u8, Tcp.encode, Tcp.header, be2, be4]; omega
  have e0 : u16 t.encode 0 = t.sport := by
    have : Bytes.slice t.encode 0 2 = be2 t.sport := by simp [Bytes.slice, Tcp.encode, Tcp.header, be2, be4]
    rw [u16, this, beNat_be2 _ h1]
  have e2 : u16 t.encode 2 = t.dport := by
    have : Bytes.slice t.encode 2 4 = be2 t.dport := by simp [Bytes.slice, Tcp.encode, Tcp.header, be2, be4]
    rw [u16, this, beNat_be2 _ h2]
  have e4 : u32 t.encode 4 = t.seq := by
    have : Bytes.slice t.encode 4 8 = be4 t.seq := by simp [Bytes.slice, Tcp.encode, Tcp.header, be2, be4]
    rw [u32, this, beNat_be4 _ h3]
  have e8 : u32 t.encode 8 = t.ack := by
    have : Bytes.slice t.encode 8 12 = be4 t.ack := by simp [Bytes.slice, Tcp.encode, Tcp.header, be2, be4]
    rw [u32, this, beNat_be4 _ h4]
  have ed : t.encode.drop (((5 + t.options.length / 4) * 16 + t.rsv) / 16 * 4) = t.payload := by
    have : ((5 + t.options.length / 4) * 16 + t.rsv) / 16 * 4 = t.header.length + t.options.length := by
      rw [tcp_header_length]; omega
    rw [this, Tcp.encode, drop_len_add, List.drop_left]
  simp only [tcpView, e0, e2, e4, e8, e12, ed]

theorem udp_encode_length (u : Udp) : u.encode.length = 8 + u.payload.length := by
  simp [Udp.encode, be2]; omega

theorem udpView_encode (u : Udp) (h : u.WF) : udpView u.encode = .udp u.sport u.dport u.payload := by
  obtain ⟨h1, h2, _⟩ := h
  have e0 : u16 u.encode 0 = u.sport := by
    have : Bytes.slice u.encode 0 2 = be2 u.sport := by simp [Bytes.slice, Udp.encode, be2]
    rw [u16, this, beNat_be2 _ h1]
  have e2 : u16 u.encode 2 = u.dport := by
    have : Bytes.slice u.encode 2 4 = be2 u.dport := by simp [Bytes.slice, Udp.encode, be2]
    rw [u16, this, beNat_be2 _ h2]
  have ed : u.encode.drop 8 = u.payload := by simp [Udp.encode, be2]
  simp only [udpView, e0, e2, ed]

/-! ### reading through a prefix -/

theorem slice_cursor (pre f rest : Bytes) (i j : Nat) (hi : pre.length = i) (hj : i + f.length = j) :
    Bytes.slice (pre ++ (f ++ rest)) i j = f := by
  subst hi hj
  unfold Bytes.slice
  rw [List.drop_left, Nat.add_sub_cancel_left, List.take_left]

theorem slice_left (a b : Bytes) (i j : Nat) (h : j ≤ a.length) : Bytes.slice (a ++ b) i j = Bytes.slice a i j := by
  unfold Bytes.slice
  rw [List.drop_append, List.take_append]
  have : j - i - (a.drop i).length = 0 := by simp; omega
  rw [this, List.take_zero, List.append_nil]

theorem u8_left (a b : Bytes) (i : Nat) (h : i < a.length) : u8 (a ++ b) i = u8 a i := by
  simp [u8, List.getElem?_append_left h]

theorem u16_left (a b : Bytes) (i : Nat) (h : i + 2 ≤ a.length) : u16 (a ++ b) i = u16 a i := by
  simp only [u16, slice_left a b i (i + 2) h]

/-! ### IPv4 -/

theorem v4_fixed_length (h : V4) (p n : Nat) : (h.fixed p n).length = 12 := by simp [V4.fixed, be2]

theorem v4_encode_length (h : V4) (p : Nat) (pl : Bytes) (w : h.WF pl.length) :
    (h.encode p pl).length = 20 + h.options.length + pl.length := by
  obtain ⟨h1, h2, _⟩ := w
  simp [V4.encode, v4_fixed_length, h1, h2]; omega

structure V4Facts (h : V4) (p : Nat) (pl tr : Bytes) : Prop where
  len : 20 ≤ (h.encode p pl ++ tr).length
  hl : u8 (h.encode p pl ++ tr) 0 % 16 * 4 = 20 + h.options.length
  off : ip4Offset (h.encode p pl ++ tr) = 0
  proto : u8 (h.encode p pl ++ tr) 9 = p
  payload : ip4Payload (h.encode p pl ++ tr) = pl
  src : Bytes.slice (h.encode p pl ++ tr) 12 16 = h.src
  dst : Bytes.slice (h.encode p pl ++ tr) 16 20 = h.dst

theorem v4_facts (h : V4) (p : Nat) (pl tr : Bytes) (w : h.WF pl.length) (hp : p < 256) : V4Facts h p pl tr := by
  have hlen := v4_encode_length h p pl w
  obtain ⟨h1, h2, ho4, ho, htot⟩ := w
  have hf := v4_fixed_length h p pl.length
  have shape : h.encode p pl ++ tr = h.fixed p pl.length ++ (h.src ++ (h.dst ++ (h.options ++ (pl ++ tr)))) := by
    simp [V4.encode, List.append_assoc]
  have e0 : u8 (h.encode p pl ++ tr) 0 = 0x40 + (5 + h.options.length / 4) := by
    rw [shape, u8_left _ _ _ (by omega)]
    simp [u8, V4.fixed, be2]; omega
  have e2 : u16 (h.encode p pl ++ tr) 2 = 20 + h.options.length + pl.length := by
    rw [shape, u16_left _ _ _ (by omega)]
    have : Bytes.slice (h.fixed p pl.length) 2 4 = be2 (20 + h.options.length + pl.length) := by
      simp [Bytes.slice, V4.fixed, be2]
    rw [u16, this, beNat_be2 _ htot]
  have hhl : u8 (h.encode p pl ++ tr) 0 % 16 * 4 = 20 + h.options.length := by rw [e0]; omega
  refine ⟨by simp; omega, hhl, ?_, ?_, ?_, ?_, ?_⟩
  · rw [ip4Offset, shape, u16_left _ _ _ (by omega)]
    have : Bytes.slice (h.fixed p pl.length) 6 8 =
        [UInt8.ofNat ((if h.df then 0x40 else 0) + (if h.mf then 0x20 else 0)), 0] := by
      simp [Bytes.slice, V4.fixed, be2]
    rw [u16, this, beNat2]
    cases h.df <;> cases h.mf <;> simp
  · rw [shape, u8_left _ _ _ (by omega)]
    simp [u8, V4.fixed, be2]; omega
  · unfold ip4Payload
    simp only [hhl, e2]
    rw [if_pos (by omega)]
    have : h.encode p pl ++ tr = (h.fixed p pl.length ++ h.src ++ h.dst ++ h.options) ++ (pl ++ tr) := by
      simp [V4.encode, List.append_assoc]
    rw [this]
    exact slice_cursor _ _ _ _ _ (by simp [hf, h1, h2]; omega) (by omega)
  · rw [shape]; exact slice_cursor _ _ _ _ _ hf (by omega)
  · have : h.encode p pl ++ tr = (h.fixed p pl.length ++ h.src) ++ (h.dst ++ (h.options ++ (pl ++ tr))) := by
      simp [V4.encode, List.append_assoc]
    rw [this]; exact slice_cursor _ _ _ _ _ (by simp [hf, h1]) (by omega)

/-! ### budget bookkeeping -/

theorem need_ok (x : Dep) (h : x.py ≤ 1000) : need x = .ok () := by
  simp [need, pyLimit]; omega

theorem enter_ok (d : Dep) (k : Nat) (h : d.c + k ≤ 1500) : d.enter k = .ok ⟨d.py, d.c + k⟩ := by
  simp [Dep.enter, cLimit]; omega

/-! ### Ethernet II carrying IP -/

theorem eth_ip (n : Nat) (d : Dep) (dm sm D : Bytes) (v6 : Bool) (r0 : ERes) (hd : dm.length = 6) (hs : sm.length = 6)
    (hpy : d.py + 5 ≤ 1000) (hc : d.c + 5 ≤ 1500)
    (hin : parse n (⟨d.py + 4, d.c + 5⟩ : Dep) (if v6 then Layer.ip6 else Layer.ip4) D = .ok r0) :
    parse (n + 1) d .eth (dm ++ (sm ++ ((if v6 then [0x86, 0xdd] else [0x08, 0x00]) ++ D))) =
      .ok ⟨dm, sm, if v6 then 0x86dd else 0x0800, some (if v6 then 0x86dd else 0x0800),
           if v6 then .ip6 D else .ip4 D⟩ := by
  obtain ⟨d1, d2, d3, d4, d5, d6, hd'⟩ : ∃ a b c d e f, dm = [a, b, c, d, e, f] := by
    match dm, hd with
    | [a, b, c, d, e, f], _ => exact ⟨a, b, c, d, e, f, rfl⟩
  obtain ⟨s1, s2, s3, s4, s5, s6, hs'⟩ : ∃ a b c d e f, sm = [a, b, c, d, e, f] := by
    match sm, hs with
    | [a, b, c, d, e, f], _ => exact ⟨a, b, c, d, e, f, rfl⟩
  subst hd' hs'
  rw [parse, show Layer.eth.cUnits = 5 from rfl, enter_ok d 5 hc]
  simp only [body, ethLayer, ethUnpack]
  rw [need_ok _ (by simp; omega)]
  cases v6
  · have hin' : parse n ((⟨d.py, d.c + 5⟩ : Dep) + 3 + 1) .ip4 D = .ok r0 := hin
    simp [u16, Bytes.slice, Bytes.beNat, unpackData, isQinq, isMpls, typesw, guarded, hin', secondPass, bind, Except.bind,
      pure, Except.pure]
    rw [if_neg (by omega)]
  · have hin' : parse n ((⟨d.py, d.c + 5⟩ : Dep) + 3 + 1) .ip6 D = .ok r0 := hin
    simp [u16, Bytes.slice, Bytes.beNat, unpackData, isQinq, isMpls, typesw, guarded, hin', secondPass, bind, Except.bind,
      pure, Except.pure]
    rw [if_neg (by omega)]

/-! ### the upper layer under `tryLayer` -/

theorem upper_proto_lt (up : Upper) : up.proto < 256 := by cases up <;> simp [Upper.proto]

theorem try_upper (n : Nat) (d : Dep) (up : Upper) (wu : up.WF) (hpy : d.py + 3 ≤ 1000) (hc : d.c + 3 ≤ 1500) :
    tryLayer (parse (n + 1)) d (protosw up.proto) up.encode = .ok true := by
  cases up with
  | tcp t =>
    have hok := tcpOk_encode t wu
    simp only [Upper.proto, Upper.encode, protosw, tryLayer]
    simp only [show ¬ ((6 : Nat) = 0 ∨ (6 : Nat) = 4) by omega, if_false, show ¬ (6 : Nat) = 1 by omega,
      show ¬ (6 : Nat) = 2 by omega, if_true]
    rw [parse, show Layer.tcp.cUnits = 3 from rfl, enter_ok d 3 hc]
    simp only [body]
    rw [need_ok _ (by simp; omega)]
    simp [hok, guarded, bind, Except.bind, pure, Except.pure]
  | udp u =>
    have hl := udp_encode_length u
    simp only [Upper.proto, Upper.encode, protosw, tryLayer]
    simp only [show ¬ ((17 : Nat) = 0 ∨ (17 : Nat) = 4) by omega, if_false, show ¬ (17 : Nat) = 1 by omega,
      show ¬ (17 : Nat) = 2 by omega, show ¬ (17 : Nat) = 6 by omega, if_true]
    rw [parse, show Layer.udp.cUnits = 3 from rfl, enter_ok d 3 hc]
    simp only [body]
    rw [need_ok _ (by simp; omega)]
    simp only [hl, guarded, bind, Except.bind, pure, Except.pure]
    rw [if_neg (by omega)]

theorem ip4_upper (n : Nat) (d : Dep) (h : V4) (up : Upper) (tr : Bytes) (w : h.WF up.encode.length) (wu : up.WF)
    (hpy : d.py + 6 ≤ 1000) (hc : d.c + 8 ≤ 1500) :
    parse (n + 2) d .ip4 (h.encode up.proto up.encode ++ tr) = .ok {} := by
  have f := v4_facts h up.proto up.encode tr w (upper_proto_lt up)
  rw [parse, show Layer.ip4.cUnits = 5 from rfl, enter_ok d 5 (by omega)]
  simp only [body, ip4Layer]
  rw [need_ok _ (by simp; omega)]
  have ht := try_upper n ((⟨d.py, d.c + 5⟩ : Dep) + 3) up wu (by simp; omega) (by simp; omega)
  simp only [f.hl, f.off, f.proto, f.payload, ht, bind, Except.bind, pure, Except.pure]
  rw [if_neg (by have := f.len; omega), if_neg (by omega)]
  simp

/-! ### IPv6 -/

theorem v6_fixed_length (h : V6) (n k : Nat) : (h.fixed n k).length = 8 := by simp [V6.fixed, be2]

structure V6Facts (h : V6) (n : Nat) (b tr : Bytes) : Prop where
  len : 40 ≤ (h.fixed n b.length ++ (h.src ++ (h.dst ++ b)) ++ tr).length
  nxt : u8 (h.fixed n b.length ++ (h.src ++ (h.dst ++ b)) ++ tr) 6 = n
  body : ip6Body (h.fixed n b.length ++ (h.src ++ (h.dst ++ b)) ++ tr) = b
  src : Bytes.slice (h.fixed n b.length ++ (h.src ++ (h.dst ++ b)) ++ tr) 8 24 = h.src
  dst : Bytes.slice (h.fixed n b.length ++ (h.src ++ (h.dst ++ b)) ++ tr) 24 40 = h.dst

theorem v6_facts (h : V6) (n : Nat) (b tr : Bytes) (h1 : h.src.length = 16) (h2 : h.dst.length = 16) (hn : n < 256)
    (hb0 : 0 < b.length) (hb : b.length < 65536) : V6Facts h n b tr := by
  have hf := v6_fixed_length h n b.length
  have shape : h.fixed n b.length ++ (h.src ++ (h.dst ++ b)) ++ tr = h.fixed n b.length ++ (h.src ++ (h.dst ++ (b ++ tr))) := by
    simp [List.append_assoc]
  have e4 : u16 (h.fixed n b.length ++ (h.src ++ (h.dst ++ b)) ++ tr) 4 = b.length := by
    rw [shape, u16_left _ _ _ (by omega)]
    have : Bytes.slice (h.fixed n b.length) 4 6 = be2 b.length := by simp [Bytes.slice, V6.fixed, be2]
    rw [u16, this, beNat_be2 _ hb]
  refine ⟨by simp [hf, h1, h2]; omega, ?_, ?_, ?_, ?_⟩
  · rw [shape, u8_left _ _ _ (by omega)]
    simp [u8, V6.fixed, be2]; omega
  · unfold ip6Body
    simp only [e4]
    rw [if_pos (by omega)]
    have : h.fixed n b.length ++ (h.src ++ (h.dst ++ b)) ++ tr = (h.fixed n b.length ++ h.src ++ h.dst) ++ (b ++ tr) := by
      simp [List.append_assoc]
    rw [this, show (40 : Nat) = (h.fixed n b.length ++ h.src ++ h.dst).length + 0 by simp [hf, h1, h2], drop_len_add,
      List.drop_zero, List.take_left]
  · rw [shape]; exact slice_cursor _ _ _ _ _ hf (by omega)
  · have : h.fixed n b.length ++ (h.src ++ (h.dst ++ b)) ++ tr = (h.fixed n b.length ++ h.src) ++ (h.dst ++ (b ++ tr)) := by
      simp [List.append_assoc]
    rw [this]; exact slice_cursor _ _ _ _ _ (by simp [hf, h1]) (by omega)

/-- the IPv6 layer on an encoded packet, given what the extension-header walk yields -/
theorem ip6_upper (m : Nat) (d : Dep) (D : Bytes) (up : Upper) (wu : up.WF) (k : Nat) (lf : Bool)
    (hlen : 40 ≤ D.length) (hch : ip6Chain D = .ok ⟨some up.proto, up.encode, k, lf, 0⟩)
    (hattr : ¬ (u8 D 6 = 44 ∧ lf = false))
    (hpy : d.py + 5 ≤ 1000) (hc : d.c + 6 ≤ 1500) :
    parse (m + 2) d .ip6 D = .ok {} := by
  rw [parse, show Layer.ip6.cUnits = 3 from rfl, enter_ok d 3 (by omega)]
  simp only [body, ip6Layer]
  rw [need_ok _ (by simp; omega)]
  have ht := try_upper m ((⟨d.py, d.c + 3⟩ : Dep) + 2) up wu (by simp; omega) (by simp; omega)
  have hn5 : need ((⟨d.py, d.c + 3⟩ : Dep) + 5) = .ok () := need_ok _ (by simp; omega)
  simp only [hch, ht, hn5, bind, Except.bind, pure, Except.pure]
  rw [if_neg (by omega)]
  have hattr' : ¬ (u8 D 6 = 44 ∧ (!lf) = true) := by
    intro ⟨a, b⟩; exact hattr ⟨a, by cases lf <;> simp_all⟩
  split <;> simp [hattr']

/-! ### the extension-header chain -/

def isFrag : Ext → Bool
  | .fragment .. => true
  | _ => false

def lastFrag : List Ext → Bool → Bool
  | [], lf => lf
  | e :: es, _ => lastFrag es (isFrag e)

/-- dpkt's extension-header class for `e` reads an encoded `e` back: its length, its Next Header, offset 0 -/
def ExtOk (e : Ext) : Prop :=
  ∀ (n : Nat) (rest : Bytes), n < 256 →
    extHdr e.proto (e.encode n ++ rest) = .ok ((e.encode n).length, some n, isFrag e, 0)

theorem ext_proto_isExt (e : Ext) : isExt e.proto = true := by cases e <;> simp [Ext.proto, isExt]

theorem encChain_fst_lt (es : List Ext) (p : Nat) (up : Bytes) (hp : p < 256) : (encChain es p up).1 < 256 := by
  cases es with
  | nil => simpa [encChain]
  | cons e es => cases e <;> simp [encChain, Ext.proto]

theorem extWalk_chain (es : List Ext) (p : Nat) (up : Bytes) (hp : p < 256) (hpx : isExt p = false)
    (hok : ∀ e ∈ es, ExtOk e) :
    ∀ (fuel c : Nat) (lf : Bool), es.length < fuel →
      extWalk fuel (encChain es p up).1 (encChain es p up).2 c lf 0 =
        .ok ⟨some p, up, c + es.length, lastFrag es lf, 0⟩ := by
  induction es with
  | nil =>
    intro fuel c lf hf
    cases fuel with
    | zero => simp at hf
    | succ f => simp [encChain, extWalk, hpx, lastFrag]
  | cons e es ih =>
    intro fuel c lf hf
    cases fuel with
    | zero => simp at hf
    | succ f =>
      have hn := encChain_fst_lt es p up hp
      have he := hok e (by simp) (encChain es p up).1 (encChain es p up).2 hn
      have ih' := ih (fun e' h' => hok e' (by simp [h'])) f (c + 1) (isFrag e) (by simp at hf; omega)
      simp only [encChain, extWalk, ext_proto_isExt, if_true, he, List.drop_left, ih', lastFrag, List.length_cons]
      simp only [Except.ok.injEq, Chain.mk.injEq, true_and, and_true]
      omega

theorem extOk_routing (t s : Nat) (d : Bytes) (w : (Ext.routing t s d).WF) : ExtOk (.routing t s d) := by
  intro n rest hn
  obtain ⟨w8, wl⟩ := w
  simp only [Ext.proto, Ext.encode, extHdr, isFrag]
  simp [u8]
  have e : ((4 + d.length) / 8 - 1) % 256 * 8 + 8 = d.length + 1 + 1 + 1 + 1 := by omega
  rw [if_neg (by omega), Nat.mod_eq_of_lt hn, e]

theorem extOk_fragment (i : Nat) (m : Bool) : ExtOk (.fragment i m) := by
  intro n rest hn
  simp only [Ext.proto, Ext.encode, extHdr, isFrag]
  cases m <;> simp [u8, u16, Bytes.slice, Bytes.beNat, be4] <;> rw [if_neg (by omega), Nat.mod_eq_of_lt hn]

theorem extOk_ah (spi seq : Nat) (icv : Bytes) (w : (Ext.ah spi seq icv).WF) : ExtOk (.ah spi seq icv) := by
  intro n rest hn
  obtain ⟨w4, wl⟩ := w
  simp only [Ext.proto, Ext.encode, extHdr, isFrag]
  simp [u8, be4]
  have e : (((12 + icv.length) / 4 - 2) % 256 + 2) * 4 = icv.length + 1 + 1 + 1 + 1 + 1 + 1 + 1 + 1 + 1 + 1 + 1 + 1 := by
    omega
  rw [if_neg (by omega), Nat.mod_eq_of_lt hn, e]

theorem ext_encode_pos (e : Ext) (n : Nat) : 1 ≤ (e.encode n).length := by
  cases e <;> simp [Ext.encode]

theorem encChain_length_ge (es : List Ext) (p : Nat) (up : Bytes) : es.length ≤ (encChain es p up).2.length := by
  induction es with
  | nil => simp
  | cons e es ih =>
    have := ext_encode_pos e (encChain es p up).1
    simp only [encChain, List.length_cons, List.length_append]
    omega

theorem upper_not_ext (up : Upper) : isExt up.proto = false := by cases up <;> simp [Upper.proto, isExt]

end TLX.Lemmas.Dissect
