/-
Helper lemmas for C05/C07: the framing scans of `Reassembly` (`needData`, `records`) expressed through
one drop-based scan `scanD`, the facts about `scanD` on streams of whole records, and the link to the
independent `Spec.TlsFraming.frame`.  Core Lean only.
-/
import TLX.Reassembly
import TLX.Spec.TlsFraming
namespace TLX.Lemmas.Framing
open TLX TLX.Reassembly TLX.Spec.TlsFraming

/-- Length of the record that starts at the head of `r`, as the implementation reads it. -/
def recLen (r : Bytes) : Nat := Bytes.beNat ((r.drop 3).take 2) + 5

theorem recLen_ge (r : Bytes) : 5 ≤ recLen r := by unfold recLen; omega

theorem recLenAt_eq (d : Bytes) (i : Nat) : recLenAt d i = recLen (d.drop i) := by
  simp [recLenAt, recLen, Bytes.slice, List.drop_drop, Nat.add_comm]

/-- The whole buffer as a list of records, `none` if it does not end on a record boundary. -/
def scanD (d : Bytes) : Option (List Bytes) :=
  if d.length = 0 then some []
  else if d.length < 5 then none
  else if d.length < recLen d then none
  else (scanD (d.drop (recLen d))).map (d.take (recLen d) :: ·)
termination_by d.length
decreasing_by
  simp only [List.length_drop]
  have := recLen_ge d
  omega

/-- A whole record: header present and the length field says exactly its length. -/
def WF (r : Bytes) : Prop := 5 ≤ r.length ∧ recLen r = r.length

theorem recLen_append (r t : Bytes) (h : 5 ≤ r.length) : recLen (r ++ t) = recLen r := by
  unfold recLen
  rw [List.drop_append_of_le_length (by omega), List.take_append_of_le_length (by simp; omega)]

theorem recLen_eq_hdr (r : Bytes) (h : 5 ≤ r.length) : recLen r = 5 + hdrLen r := by
  match r, h with
  | a0 :: a1 :: a2 :: a3 :: a4 :: rest, _ =>
    simp [recLen, hdrLen, Bytes.beNat]
    omega

theorem scanD_nil : scanD [] = some [] := by rw [scanD]; simp

theorem scanD_cons (r t : Bytes) (h : WF r) : scanD (r ++ t) = (scanD t).map (r :: ·) := by
  obtain ⟨h5, hl⟩ := h
  rw [scanD]
  have e : recLen (r ++ t) = r.length := by rw [recLen_append r t h5, hl]
  have h1 : ¬ (r ++ t).length = 0 := by rw [List.length_append]; omega
  have h2 : ¬ (r ++ t).length < 5 := by rw [List.length_append]; omega
  have h3 : ¬ (r ++ t).length < recLen (r ++ t) := by rw [e, List.length_append]; omega
  rw [if_neg h1, if_neg h2, if_neg h3, e, List.drop_left, List.take_left]

theorem scanD_prefix_none (r : Bytes) (h : WF r) (k : Nat) (hk0 : 0 < k) (hk : k < r.length) :
    scanD (r.take k) = none := by
  obtain ⟨h5, hl⟩ := h
  rw [scanD]
  have hlen : (r.take k).length = k := by rw [List.length_take]; omega
  rw [hlen, if_neg (by omega)]
  by_cases hk5 : k < 5
  · rw [if_pos hk5]
  · rw [if_neg hk5]
    have : recLen (r.take k) = r.length := by
      have := recLen_append (r.take k) (r.drop k) (by omega)
      rw [List.take_append_drop] at this
      rw [← this]; exact hl
    rw [this, if_pos hk]

theorem scanD_flatten (rs : List Bytes) (h : ∀ r ∈ rs, WF r) : scanD rs.flatten = some rs := by
  induction rs with
  | nil => exact scanD_nil
  | cons r rs ih =>
    rw [List.flatten_cons, scanD_cons r _ (h r (List.mem_cons_self ..)),
      ih (fun x hx => h x (List.mem_cons_of_mem _ hx))]
    rfl

/-- Framing is deterministic: whatever scans out of a prefix of the stream is a prefix of the records. -/
theorem scanD_take (rs : List Bytes) (h : ∀ r ∈ rs, WF r) (n : Nat) (recs : List Bytes)
    (hs : scanD (rs.flatten.take n) = some recs) :
    ∃ k, recs = rs.take k ∧ (rs.take k).flatten = rs.flatten.take n := by
  induction rs generalizing n recs with
  | nil =>
    simp only [List.flatten_nil, List.take_nil] at hs
    rw [scanD_nil] at hs
    exact ⟨0, by simpa using hs.symm, by simp⟩
  | cons r rs ih =>
    have hr := h r (List.mem_cons_self ..)
    have hrs : ∀ x ∈ rs, WF x := fun x hx => h x (List.mem_cons_of_mem _ hx)
    rw [List.flatten_cons] at hs ⊢
    by_cases hn0 : n = 0
    · subst hn0
      simp only [List.take_zero] at hs ⊢
      rw [scanD_nil] at hs
      exact ⟨0, by simpa using hs.symm, by simp⟩
    by_cases hn : n < r.length
    · rw [List.take_append_of_le_length (by omega)] at hs
      rw [scanD_prefix_none r hr n (by omega) hn] at hs
      exact absurd hs (by simp)
    · have hsplit : (r ++ rs.flatten).take n = r ++ rs.flatten.take (n - r.length) := by
        rw [List.take_append]
        rw [List.take_of_length_le (by omega)]
      rw [hsplit, scanD_cons r _ hr] at hs
      cases hsc : scanD (rs.flatten.take (n - r.length)) with
      | none => rw [hsc] at hs; exact absurd hs (by simp)
      | some recs' =>
        rw [hsc] at hs
        obtain ⟨k, hk1, hk2⟩ := ih hrs (n - r.length) recs' hsc
        refine ⟨k + 1, ?_, ?_⟩
        · simp only [Option.map_some, Option.some.injEq] at hs
          rw [← hs, hk1]; rfl
        · rw [List.take_succ_cons, List.flatten_cons, hk2, hsplit]

/-- Whole records are not empty, so a stream of them that is empty has none. -/
theorem wf_flatten_nil (rs : List Bytes) (h : ∀ r ∈ rs, WF r) (hf : rs.flatten = []) : rs = [] := by
  cases rs with
  | nil => rfl
  | cons r t =>
    have := (h r (List.mem_cons_self ..)).1
    rw [List.flatten_cons] at hf
    have : (r ++ t.flatten).length = 0 := by rw [hf]; rfl
    rw [List.length_append] at this
    omega

/-! ### The two scans of the implementation through `scanD` -/

theorem needData_eq (d : Bytes) (i : Nat) (hi : i ≤ d.length) :
    needData d i = (scanD (d.drop i)).isNone := by
  induction hn : d.length - i using Nat.strongRecOn generalizing i with
  | _ n ih =>
    rw [needData, scanD]
    simp only [List.length_drop]
    by_cases h0 : i = d.length
    · simp [h0]
    · have h0' : ¬ d.length - i = 0 := by omega
      rw [if_neg h0, if_neg h0']
      by_cases h5 : d.length < i + 5
      · rw [if_pos h5, if_pos (by omega)]; rfl
      · rw [if_neg h5, if_neg (by omega)]
        rw [recLenAt_eq]
        have hge := recLen_ge (d.drop i)
        by_cases hl : d.length - i < recLen (d.drop i)
        · rw [if_pos hl]
          -- the walk overshoots: next call sees index > total
          rw [needData]
          rw [if_neg (by omega), if_pos (by omega)]; rfl
        · rw [if_neg hl, List.drop_drop]
          rw [ih (d.length - (i + recLen (d.drop i))) (by omega) (i + recLen (d.drop i)) (by omega) rfl]
          cases scanD (List.drop (i + recLen (List.drop i d)) d) <;> rfl

theorem records_fst (d : Bytes) (rs : List (Nat × Nat × Nat)) (i : Nat) (hi : i ≤ d.length)
    (recs : List Bytes) (hs : scanD (d.drop i) = some recs) :
    (records d rs i).map (·.1) = recs := by
  induction hn : d.length - i using Nat.strongRecOn generalizing i recs with
  | _ n ih =>
    rw [records]
    rw [scanD] at hs
    simp only [List.length_drop] at hs
    by_cases h0 : d.length ≤ i
    · rw [if_pos h0]
      rw [if_pos (by omega)] at hs
      simpa using hs
    · rw [if_neg h0]
      rw [if_neg (by omega)] at hs
      by_cases h5 : d.length - i < 5
      · rw [if_pos h5] at hs; exact absurd hs (by simp)
      · rw [if_neg h5] at hs
        by_cases hl : d.length - i < recLen (d.drop i)
        · rw [if_pos hl] at hs; exact absurd hs (by simp)
        · rw [if_neg hl, List.drop_drop] at hs
          have hge := recLen_ge (d.drop i)
          cases hsc : scanD (List.drop (i + recLen (List.drop i d)) d) with
          | none => rw [hsc] at hs; exact absurd hs (by simp)
          | some recs' =>
            rw [hsc] at hs
            simp only [Option.map_some, Option.some.injEq] at hs
            rw [List.map_cons, recLenAt_eq]
            rw [ih (d.length - (i + recLen (d.drop i))) (by omega) (i + recLen (d.drop i)) (by omega) recs' hsc rfl]
            rw [← hs]
            simp [Bytes.slice]

/-- `flush` in terms of `scanD`: it hands on exactly the records `scanD` finds, or nothing. -/
theorem flush_fst (buf : List Seg) :
    (flush buf).map (·.map (·.1)) = scanD (bufData buf) := by
  unfold flush
  have hn := needData_eq (bufData buf) 0 (Nat.zero_le _)
  rw [List.drop_zero] at hn
  cases hsc : scanD (bufData buf) with
  | none => rw [hsc] at hn; simp [hn]
  | some recs =>
    rw [hsc] at hn
    have := records_fst (bufData buf) (ranges buf 0) 0 (Nat.zero_le _) recs (by simpa using hsc)
    simp [hn, this]

/-! ### Link to the independent specification -/

theorem frame_of_scanD (b : Bytes) (recs : List Bytes) (hs : scanD b = some recs) : frame b = recs := by
  induction hn : b.length using Nat.strongRecOn generalizing b recs with
  | _ n ih =>
    rw [scanD] at hs
    rw [frame]
    by_cases h0 : b.length = 0
    · rw [if_pos h0] at hs
      rw [if_pos (by omega)]
      simpa using hs
    · rw [if_neg h0] at hs
      by_cases h5 : b.length < 5
      · rw [if_pos h5] at hs; exact absurd hs (by simp)
      · rw [if_neg h5] at hs
        rw [if_neg h5]
        have he := recLen_eq_hdr b (by omega)
        by_cases hl : b.length < recLen b
        · rw [if_pos hl] at hs; exact absurd hs (by simp)
        · rw [if_neg hl] at hs
          rw [if_neg (by omega), ← he]
          cases hsc : scanD (b.drop (recLen b)) with
          | none => rw [hsc] at hs; exact absurd hs (by simp)
          | some recs' =>
            rw [hsc] at hs
            simp only [Option.map_some, Option.some.injEq] at hs
            have hge := recLen_ge b
            rw [ih (b.drop (recLen b)).length (by simp only [List.length_drop]; omega) _ recs' hsc rfl]
            exact hs

theorem frame_wf (b : Bytes) : ∀ r ∈ frame b, WF r := by
  induction hn : b.length using Nat.strongRecOn generalizing b with
  | _ n ih =>
    rw [frame]
    by_cases h5 : b.length < 5
    · rw [if_pos h5]; simp
    · rw [if_neg h5]
      by_cases hl : b.length < 5 + hdrLen b
      · rw [if_pos hl]; simp
      · rw [if_neg hl]
        intro r hr
        rcases List.mem_cons.mp hr with rfl | hr
        · have he := recLen_eq_hdr b (by omega)
          refine ⟨by rw [List.length_take]; omega, ?_⟩
          have := recLen_append (b.take (5 + hdrLen b)) (b.drop (5 + hdrLen b)) (by rw [List.length_take]; omega)
          rw [List.take_append_drop] at this
          rw [← this, he, List.length_take]; omega
        · exact ih (b.drop (5 + hdrLen b)).length (by simp only [List.length_drop]; omega) _ rfl r hr

/-- A stream of whole records scans to its `frame`. -/
theorem scanD_of_whole (b : Bytes) (h : WholeRecords b) : scanD b = some (frame b) := by
  have := scanD_flatten (frame b) (frame_wf b)
  rw [h] at this
  exact this

end TLX.Lemmas.Framing
