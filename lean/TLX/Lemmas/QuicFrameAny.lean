/-
Helper lemmas for C17 on ARBITRARY payload bytes: what the parse loop returns is taken from the
payload (every byte-string attribute is a slice of the frame's own input) and the loop advances.
-/
import TLX.Lemmas.QuicFrameSeq
set_option linter.unusedSimpArgs false
set_option linter.unusedVariables false
namespace TLX.Lemmas.QuicFrameAny
open TLX TLX.Quic TLX.Quic.Varint TLX.Quic.Frame TLX.Spec.QuicFrames TLX.Lemmas.QuicFrameSeq

/-- Every byte-string attribute of `f` is some Python slice `p[a:b]`. -/
def FromPayload (p : Bytes) (f : Parsed) : Prop := ∀ d ∈ f.datas, ∃ a b, d = Bytes.slice p a b

local macro "datas_tac" h:ident fn:ident : tactic => `(tactic| (
  revert $h:ident
  simp only [$fn:ident, Option.bind_eq_bind, Option.bind_eq_some_iff, Option.pure_def, Option.some.injEq,
    Prod.exists, exists_imp, and_imp, forall_exists_index]
  intros
  subst_vars
  simp only [FromPayload, Parsed.datas, List.mem_cons, List.not_mem_nil, or_false, forall_eq_or_imp, forall_eq,
    false_imp_iff, implies_true, and_true]
  try exact ⟨_, _, rfl⟩))

theorem construct_datas (c : Cls) (p : Bytes) (f : Parsed) (h : construct c p = some f) : FromPayload p f := by
  cases c <;> simp only [construct] at h
  case PaddingFrame => datas_tac h parsePadding
  case PingFrame => datas_tac h parsePadding
  case HandshakeDoneFrame => datas_tac h parsePadding
  case AckFrame =>
    revert h
    simp only [parseAck, Option.bind_eq_bind, Option.bind_eq_some_iff, Option.pure_def,
      Prod.exists, exists_imp, and_imp, forall_exists_index]
    intro _ _ _ _ _ _ _ _ _ _ _ _ _ _ _ _
    split
    · simp only [Option.bind_eq_some_iff, Option.some.injEq, Prod.exists, exists_imp, and_imp, forall_exists_index]
      intros; subst_vars; simp [FromPayload, Parsed.datas]
    · simp only [Option.some.injEq]
      intros; subst_vars; simp [FromPayload, Parsed.datas]
  case ResetStreamFrame => datas_tac h parseResetStream
  case StopSendingFrame => datas_tac h parseStopSending
  case CryptoFrame => datas_tac h parseCrypto
  case NewTokenFrame => datas_tac h parseNewToken
  case StreamFrame =>
    revert h
    simp only [parseStream, Option.bind_eq_bind, Option.bind_eq_some_iff, Option.pure_def,
      Prod.exists, exists_imp, and_imp, forall_exists_index]
    intro _ _ _ _ _ _ _ _
    split
    · simp only [Option.bind_eq_some_iff, Option.some.injEq, Prod.exists, exists_imp, and_imp, forall_exists_index]
      intros; subst_vars; simp only [FromPayload, Parsed.datas, List.mem_cons, List.not_mem_nil, or_false, forall_eq]
      exact ⟨_, _, rfl⟩
    · simp only [Option.some.injEq]
      intros; subst_vars; simp only [FromPayload, Parsed.datas, List.mem_cons, List.not_mem_nil, or_false, forall_eq]
      exact ⟨_, _, rfl⟩
  case MaxDataFrame => datas_tac h parseMaxData
  case MaxStreamDataFrame => datas_tac h parseMaxStreamData
  case MaxStreamsFrame => datas_tac h parseMaxStreams
  case DataBlockedFrame => datas_tac h parseDataBlocked
  case StreamDataBlockedFrame => datas_tac h parseStreamDataBlocked
  case StreamsBlockedFrame => datas_tac h parseStreamsBlocked
  case NewConnectionIdFrame =>
    datas_tac h parseNewConnectionId
    exact ⟨⟨_, _, rfl⟩, ⟨_, _, rfl⟩⟩
  case RetireConnectionIdFrame => datas_tac h parseRetireConnectionId
  case PathChallengeFrame => datas_tac h parsePathChallenge
  case PathResponseFrame => datas_tac h parsePathResponse
  case ConnectionCloseFrame => datas_tac h parseConnectionClose
  case DatagramFrame =>
    revert h
    simp only [parseDatagram, Option.bind_eq_bind, Option.bind_eq_some_iff, Option.pure_def,
      Prod.exists, exists_imp, and_imp, forall_exists_index]
    intro _ _
    split
    · simp only [Option.bind_eq_some_iff, Option.some.injEq, Prod.exists, exists_imp, and_imp, forall_exists_index]
      intros; subst_vars; simp only [FromPayload, Parsed.datas, List.mem_cons, List.not_mem_nil, or_false, forall_eq]
      exact ⟨_, _, rfl⟩
    · simp only [Option.some.injEq]
      intros; subst_vars; simp only [FromPayload, Parsed.datas, List.mem_cons, List.not_mem_nil, or_false, forall_eq]
      exact ⟨_, _, rfl⟩
  case GenericFrame => datas_tac h parseGeneric

theorem parseOne_datas (p : Bytes) (f : Parsed) (h : parseOne p = some f) : FromPayload p f := by
  unfold parseOne at h
  split at h
  · exact absurd h (by simp)
  · split at h
    · exact construct_datas _ _ _ h
    · exact construct_datas .GenericFrame _ _ h

theorem slice_drop (p : Bytes) (k a b : Nat) : Bytes.slice (p.drop k) a b = Bytes.slice p (k + a) (k + b) := by
  unfold Bytes.slice
  rw [List.drop_drop, show k + b - (k + a) = b - a by omega]

theorem startOf_zero (ps : List Parsed) : startOf ps 0 = 0 := by simp [startOf]

theorem startOf_succ (f : Parsed) (ps : List Parsed) (i : Nat) : startOf (f :: ps) (i + 1) = f.length + startOf ps i := by
  simp [startOf]

/-- `no_invented_data`, positional form: the byte-string attributes of the `i`-th returned frame are
    slices of the payload that begin at or after that frame's own start. -/
theorem parseFrames_datas (n : Nat) : ∀ (p : Bytes) (fs : List Parsed), p.length = n → parseFrames p = some fs →
    ∀ i (hi : i < fs.length), ∀ d ∈ (fs[i]).datas, ∃ a b, startOf fs i ≤ a ∧ d = Bytes.slice p a b := by
  induction n using Nat.strongRecOn with
  | _ n ih =>
    intro p fs hn h i hi d hd
    by_cases hp : p = []
    · subst hp
      rw [parseFrames_nil] at h
      simp only [Option.some.injEq] at h
      subst h
      simp at hi
    · obtain ⟨f, rest, h1, h2, rfl⟩ := parseFrames_some_step p hp fs h
      have hpos := parseOne_length_pos p f h1
      cases i with
      | zero =>
        obtain ⟨a, b, hab⟩ := parseOne_datas p f h1 d hd
        exact ⟨a, b, by simp [startOf_zero], hab⟩
      | succ j =>
        have hlen : (p.drop f.length).length < n := by
          have : p.length ≠ 0 := fun h0 => hp (List.eq_nil_of_length_eq_zero h0)
          simp only [List.length_drop]; omega
        have hj : j < rest.length := by simpa using hi
        obtain ⟨a, b, hab, hd'⟩ := ih _ hlen (p.drop f.length) rest rfl h2 j hj d (by simpa using hd)
        refine ⟨f.length + a, f.length + b, ?_, ?_⟩
        · rw [startOf_succ]; omega
        · rw [hd', slice_drop]

/-- The loop advances: every returned frame is at least one byte long and starts inside the payload;
    together the frames cover the payload. -/
theorem parseFrames_progress (n : Nat) : ∀ (p : Bytes) (fs : List Parsed), p.length = n → parseFrames p = some fs →
    (∀ f ∈ fs, 1 ≤ f.length) ∧ fs.length ≤ p.length ∧ p.length ≤ (fs.map Parsed.length).sum ∧
    ∀ i, i < fs.length → startOf fs i < p.length := by
  induction n using Nat.strongRecOn with
  | _ n ih =>
    intro p fs hn h
    by_cases hp : p = []
    · subst hp
      rw [parseFrames_nil] at h
      simp only [Option.some.injEq] at h
      subst h
      simp
    · obtain ⟨f, rest, h1, h2, rfl⟩ := parseFrames_some_step p hp fs h
      have hpos := parseOne_length_pos p f h1
      have hp0 : p.length ≠ 0 := fun h0 => hp (List.eq_nil_of_length_eq_zero h0)
      have hlen : (p.drop f.length).length < n := by
        simp only [List.length_drop]; omega
      obtain ⟨ih1, ih2, ih3, ih4⟩ := ih _ hlen (p.drop f.length) rest rfl h2
      simp only [List.length_drop] at ih2 ih3 ih4
      refine ⟨?_, ?_, ?_, ?_⟩
      · intro g hg
        rcases List.mem_cons.mp hg with rfl | hg
        · exact hpos
        · exact ih1 g hg
      · simp only [List.length_cons]; omega
      · simp only [List.map_cons, List.sum_cons]; omega
      · intro i hi
        cases i with
        | zero => rw [startOf_zero]; omega
        | succ j =>
          rw [startOf_succ]
          have := ih4 j (by simpa using hi)
          omega

end TLX.Lemmas.QuicFrameAny
