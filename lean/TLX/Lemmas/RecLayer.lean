/-
Helper lemmas for the record-layer theorems of C01 (core Lean only): Python-slice algebra, record framing,
direction get/set, dispatch of `Dec.decrypt`.
-/
import TLX.RecordLayer
import TLX.Spec.TlsSender
namespace TLX.Lemmas.RecLayer
open TLX TLX.Cipher TLX.RecordLayer TLX.Spec.TlsSender

theorem ofNatBE_length : ∀ (len n : Nat), (Bytes.ofNatBE len n).length = len
  | 0, _ => rfl
  | len + 1, n => by simp [Bytes.ofNatBE, ofNatBE_length len]

theorem u16_length (n : Nat) : (u16 n).length = 2 := ofNatBE_length 2 n
theorem u64_length (n : Nat) : (u64 n).length = 8 := ofNatBE_length 8 n

theorem toBE_nat (len n : Nat) (h : n < 256 ^ len) : toBE len (n : Int) = .ok (Bytes.ofNatBE len n) := by
  unfold toBE
  rw [if_neg (by omega), Int.toNat_natCast, if_pos h]

theorem cutEnd_append (a m : Bytes) (n : Nat) (hn : m.length = n) (h0 : 0 < n) : Bytes.cutEnd (a ++ m) n = a := by
  unfold Bytes.cutEnd
  rw [if_neg (by omega)]
  have : (a ++ m).length - n = a.length := by simp only [List.length_append]; omega
  rw [this, List.take_left']
  rfl

theorem lastByte_append (x : Bytes) (b : UInt8) : lastByte (x ++ [b]) = .ok b := by
  unfold lastByte
  simp

theorem stripPad_block (x padding : Bytes) (h : padding.length < 256) :
    stripPad (x ++ (padding ++ [UInt8.ofNat padding.length])) (UInt8.ofNat padding.length) = x := by
  unfold stripPad
  have e : (UInt8.ofNat padding.length).toNat = padding.length := by
    simp only [UInt8.toNat_ofNat']
    omega
  rw [e]
  have : (x ++ (padding ++ [UInt8.ofNat padding.length])).length - (padding.length + 1) = x.length := by
    simp only [List.length_append, List.length_cons, List.length_nil]; omega
  rw [this, List.take_left']
  rfl

theorem byteXor_nonce (iv : Bytes) (seq : Nat) (h : 8 ≤ iv.length) :
    byteXor iv (Bytes.ofNatBE 8 seq) = .ok (nonceXor iv seq) := by
  unfold byteXor
  rw [ofNatBE_length, if_neg (by omega)]
  rfl

theorem nonceXor_length (iv : Bytes) (seq : Nat) (h : 8 ≤ iv.length) : (nonceXor iv seq).length = iv.length := by
  unfold nonceXor padLeft
  simp only [List.length_zipWith, List.length_append, List.length_replicate, u64_length]
  omega

/-- Framing: a record built by the sender is parsed by `TlsRecord` into its fields. -/
theorem ofRaw_record (typ : UInt8) (ver body : Bytes) (hv : ver.length = 2) :
    Rec.ofRaw (record typ ver body) =
      .ok { typ := typ, ver := ver, len := u16 body.length, body := body, raw := record typ ver body } := by
  match ver, hv with
  | [v1, v2], _ =>
    have h2 := u16_length body.length
    unfold record
    generalize u16 body.length = l at *
    match l, h2 with
    | [l1, l2], _ => rfl

theorem record_take3 (typ : UInt8) (ver body : Bytes) (hv : ver.length = 2) :
    (record typ ver body).take 3 = [typ] ++ ver := by
  match ver, hv with
  | [v1, v2], _ => rfl

theorem ofRaw_hdr13 (n : Nat) (body : Bytes) :
    Rec.ofRaw (hdr13 n ++ body) =
      .ok { typ := 23, ver := [3, 3], len := u16 n, body := body, raw := hdr13 n ++ body } := by
  have h2 := u16_length n
  unfold hdr13
  generalize u16 n = l at *
  match l, h2 with
  | [l1, l2], _ => rfl

-- direction get / set
theorem get_set (d : Dec) (srv : Bool) (x : DirSt) : (d.set srv x).get srv = x := by
  cases srv <;> rfl
theorem get_set_other (d : Dec) (srv : Bool) (x : DirSt) : (d.set srv x).get (!srv) = d.get (!srv) := by
  cases srv <;> rfl
theorem cfg_set (d : Dec) (srv : Bool) (x : DirSt) : (d.set srv x).cfg = d.cfg := by
  cases srv <;> rfl
theorem sget_set (s : Snd) (srv : Bool) (x : SDir) : (s.set srv x).get srv = x := by
  cases srv <;> rfl
theorem sget_set_other (s : Snd) (srv : Bool) (x : SDir) : (s.set srv x).get (!srv) = s.get (!srv) := by
  cases srv <;> rfl

-- small facts used by the per-class proofs of Props/C01
theorem cbc_post (X : Bytes) (f : Fresh) (h : f.padding.length < 256) :
    lastByte (X ++ padBlock f) = .ok (UInt8.ofNat f.padding.length) ∧
    stripPad (X ++ padBlock f) (UInt8.ofNat f.padding.length) = X := by
  unfold padBlock
  constructor
  · rw [← List.append_assoc]; exact lastByte_append _ _
  · exact stripPad_block X f.padding h

theorem blk_pos (a : Alg) (h : a.isBlock = true) : 0 < a.blk := by
  cases a <;> simp_all [Alg.isBlock, Alg.blk]

theorem toBE_len8 (total sub2 p : Nat) (h : total = 8 + p + sub2) (hp : p < 65536) :
    toBE 2 ((total : Int) - 8 - (sub2 : Int)) = .ok (u16 p) := by
  have : (total : Int) - 8 - (sub2 : Int) = (p : Int) := by omega
  rw [this]
  exact toBE_nat 2 p (by simpa using hp)

theorem toBE_len16 (total p : Nat) (h : total = p + 16) (hp : p < 65536) :
    toBE 2 ((total : Int) - 16) = .ok (u16 p) := by
  have : (total : Int) - 16 = (p : Int) := by omega
  rw [this]
  exact toBE_nat 2 p (by simpa using hp)

theorem chacha_iv12 {k n : Nat} (h : AeadOk .chachaPoly k n 16) : n = 12 := by
  have := h.2.2.1
  simpa [Alg.nonceOk] using this

theorem protect_seq (P : Prims) (L : SealLaws P) (cls : CipherClass) (ver : Bytes) (sd : SDir) (typ : UInt8)
    (pt : Bytes) (f : Fresh) : (protect P L cls ver sd typ pt f).1.seq = sd.seq + 1 := by
  cases cls <;> rfl

theorem bool_cases (srv b : Bool) : b = srv ∨ b = !srv := by
  cases srv <;> cases b <;> simp

theorem snd_seq_set (x : Snd) (srv : Bool) (v : SDir) (n : Nat) (hv : v.seq ≤ n)
    (hc : x.c.seq ≤ n) (hs : x.s.seq ≤ n) : (x.set srv v).c.seq ≤ n ∧ (x.set srv v).s.seq ≤ n := by
  cases srv <;> simp [Snd.set, hv, hc, hs]


-- dispatch of `Dec.decrypt` (decryptor.py 425-445) under the configuration of each cipher class
theorem dispatch_generic_stream (P : Prims) (r : Rec) (srv : Bool) (d : Dec) (ht : d.cfg.ctype = .stream)
    (hv : d.cfg.version ≠ .tls13) (hb : d.cfg.bulk ≠ .chachaPoly) :
    d.decrypt P r srv = lift d (genericStream P r srv d) := by
  simp [Dec.decrypt, ht, hv, hb]

theorem dispatch_last_block (P : Prims) (r : Rec) (srv : Bool) (d : Dec) (ht : d.cfg.ctype = .block)
    (hv : d.cfg.version = .tls10 ∨ d.cfg.version = .ssl30) :
    d.decrypt P r srv = lift d (lastBlockCbc P r srv d) := by
  rcases hv with hv | hv <;> simp [Dec.decrypt, ht, hv]

theorem dispatch_tls12_block (P : Prims) (r : Rec) (srv : Bool) (d : Dec) (ht : d.cfg.ctype = .block)
    (hv : d.cfg.version = .tls12 ∨ d.cfg.version = .tls11) (hb : d.cfg.bulk ≠ .chachaPoly) :
    d.decrypt P r srv = lift d (tls12Block P r srv d) := by
  rcases hv with hv | hv <;> simp [Dec.decrypt, ht, hv, hb]

theorem dispatch_tls12_aead (P : Prims) (r : Rec) (srv : Bool) (d : Dec) (ht : d.cfg.ctype = .aead)
    (hv : d.cfg.version ≠ .tls13) (hb : d.cfg.bulk ≠ .chachaPoly) :
    d.decrypt P r srv = lift d (tls12Aead P r srv d) := by
  simp [Dec.decrypt, ht, hv, hb]

theorem dispatch_tls12_chacha (P : Prims) (r : Rec) (srv : Bool) (d : Dec) (hv : d.cfg.version = .tls12)
    (hb : d.cfg.bulk = .chachaPoly) :
    d.decrypt P r srv = lift d (tls12Chacha P r srv d) := by
  simp [Dec.decrypt, hv, hb]

theorem dispatch_tls13_aead (P : Prims) (r : Rec) (srv : Bool) (d : Dec) (ht : d.cfg.ctype = .aead)
    (hv : d.cfg.version = .tls13) :
    d.decrypt P r srv = lift d (tls13Aead P r srv d) := by
  simp [Dec.decrypt, ht, hv]

theorem dispatch_tls13_stream (P : Prims) (r : Rec) (srv : Bool) (d : Dec) (ht : d.cfg.ctype ≠ .aead)
    (hv : d.cfg.version = .tls13) :
    d.decrypt P r srv = lift d (tls13Stream P r srv d) := by
  simp [Dec.decrypt, ht, hv]

end TLX.Lemmas.RecLayer
