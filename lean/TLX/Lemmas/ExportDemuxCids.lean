/-
What a QUIC session can hold (helper of `Props/ExportDemux.lean`, section 4): an UPPER bound on the connection-ID sets, the
counterpart of the lower bounds `cid_learning_*` and of `CidsMono` (Lemmas/QuicSession): every member was put there by
`learnCids` (DCID / SCID of a long-header Initial packet) or by a NEW_CONNECTION_ID frame of a packet the session opened.
`CidsLe S s a`: the CIDs of `a` are those of `s` or satisfy `S`; the chain follows `handle_frame` … `handle_packet` up to the
composed machine and the run (`everHolds_sources`).
-/
import TLX.Lemmas.QuicSession
import TLX.Props.ExportPropsQuic
import TLX.Lemmas.ExportDemux
set_option linter.unusedSimpArgs false
namespace TLX.Lemmas.ExportDemuxCids
open TLX TLX.Quic TLX.Cipher TLX.Quic.Session TLX.Lemmas.QuicSession

variable {σ : Type} (P : Params σ)

/-- every connection ID of `a` is one of `s` or satisfies `S` -/
def CidsLe (S : Bytes → Prop) (s a : St σ) : Prop :=
  (∀ c, c ∈ a.clientCids → c ∈ s.clientCids ∨ S c) ∧ (∀ c, c ∈ a.serverCids → c ∈ s.serverCids ∨ S c)

theorem CidsLe.refl (S : Bytes → Prop) (s : St σ) : CidsLe S s s := ⟨fun _ h => .inl h, fun _ h => .inl h⟩

theorem CidsLe.trans {S : Bytes → Prop} {s a b : St σ} (h1 : CidsLe S s a) (h2 : CidsLe S a b) : CidsLe S s b :=
  ⟨fun c h => (h2.1 c h).elim (h1.1 c) .inr, fun c h => (h2.2 c h).elim (h1.2 c) .inr⟩

theorem CidsLe.of_eq {S : Bytes → Prop} {s a : St σ} (hc : a.clientCids = s.clientCids) (hs : a.serverCids = s.serverCids) :
    CidsLe S s a := ⟨fun _ h => .inl (hc ▸ h), fun _ h => .inl (hs ▸ h)⟩

theorem CidsLe.mono {S T : Bytes → Prop} {s a : St σ} (h : CidsLe S s a) (hST : ∀ c, S c → T c) : CidsLe T s a :=
  ⟨fun c hc => (h.1 c hc).imp id (hST c), fun c hc => (h.2 c hc).imp id (hST c)⟩

theorem mem_setAdd {s : List Bytes} {x y : Bytes} (h : x ∈ setAdd s y) : x ∈ s ∨ x = y := by
  unfold setAdd at h
  split at h
  · exact .inl h
  · simpa using h

theorem mem_optAdd {s : List Bytes} {x : Bytes} {y : Option Bytes} (h : x ∈ optAdd s y) : x ∈ s ∨ y = some x := by
  cases y with
  | none => exact .inl h
  | some z => rcases mem_setAdd h with h | h; exact .inl h; exact .inr (by rw [h])

theorem le_of_sel {S : Bytes → Prop} {s a : St σ} (h : FrameSel s a) : CidsLe S s a := by
  obtain ⟨_, _, _, _, _, rfl⟩ := h; exact CidsLe.refl _ _
theorem le_of_pn {S : Bytes → Prop} {s a : St σ} (h : FramePn s a) : CidsLe S s a := by
  obtain ⟨_, _, rfl⟩ := h; exact CidsLe.refl _ _
theorem le_of_c {S : Bytes → Prop} {s a : St σ} (h : FrameC s a) : CidsLe S s a := by
  obtain ⟨_, _, _, _, _, _, _, _, _, _, _, rfl⟩ := h; exact CidsLe.refl _ _

/-- the connection ID a NEW_CONNECTION_ID frame carries -/
def ncidOf : Frame.Parsed → Option Bytes
  | .newConnectionId _ _ _ _ cid _ => some cid
  | _ => none

theorem handleFrame_le (s : St σ) (p : Pkt) (f : Frame.Parsed) :
    CidsLe (fun c => ncidOf f = some c) s (handleFrame P s p f).1 := by
  unfold handleFrame
  split
  · exact le_of_c (handleCrypto_frame P s p _ _)
  · exact CidsLe.refl _ _
  · split
    · exact ⟨fun _ h => .inl h, fun c h => (mem_setAdd h).imp id (fun e => by rw [e]; rfl)⟩
    · exact ⟨fun c h => (mem_setAdd h).imp id (fun e => by rw [e]; rfl), fun _ h => .inl h⟩
  · exact CidsLe.refl _ s

theorem handleFrames_le (s : St σ) (p : Pkt) (fs : List Frame.Parsed) :
    CidsLe (fun c => ∃ f ∈ fs, ncidOf f = some c) s (handleFrames P s p fs).1 := by
  induction fs generalizing s with
  | nil => exact CidsLe.refl _ s
  | cons f fs ih =>
    unfold handleFrames
    have h := (handleFrame_le P s p f).mono (T := fun c => ∃ g ∈ f :: fs, ncidOf g = some c)
      (fun c hc => ⟨f, List.mem_cons_self .., hc⟩)
    split <;> (rename_i heq; rw [heq] at h)
    · exact h
    · exact h.trans ((ih _).mono fun c ⟨g, hg, hc⟩ => ⟨g, List.mem_cons_of_mem _ hg, hc⟩)

/-- the packet `p`, opened by a decryptor the session holds, carries a NEW_CONNECTION_ID frame with the CID `c` -/
def Issues (p : Pkt) (c : Bytes) : Prop :=
  ∃ d pn aad pt fs, decDecrypt P d p.payload pn aad p.isServer = .ok pt ∧ Frame.parseFrames pt = some fs ∧
    ∃ f ∈ fs, ncidOf f = some c

theorem decryptRest_le (s : St σ) (p : Pkt) (d? : Option Dec) : CidsLe (Issues P p) s (decryptRest P s p d?).1 := by
  unfold decryptRest
  split
  · exact CidsLe.refl _ s
  · rename_i pn _
    split
    · exact CidsLe.refl _ s
    · rename_i aad _
      split
      · exact CidsLe.refl _ s
      · rename_i d
        split
        · exact CidsLe.refl _ s
        · rename_i pt hpt
          split
          · exact le_of_pn (setLargestPn_frame s p _)
          · rename_i fs hfs
            exact (le_of_pn (setLargestPn_frame s p pn)).trans
              ((handleFrames_le P _ p fs).mono fun c ⟨f, hf, hc⟩ => ⟨d, pn, aad, pt, fs, hpt, hfs, f, hf, hc⟩)

theorem decryptPacket_le (s : St σ) (p : Pkt) : CidsLe (Issues P p) s (decryptPacket P s p).1 := by
  unfold decryptPacket
  have h1 : CidsLe (Issues P p) s (selectDecryptor P s p).1 := le_of_sel (selectDecryptor_frame P s p)
  split <;> (rename_i heq; rw [heq] at h1)
  · exact h1
  · exact h1.trans (decryptRest_le P _ p _)

/-- the packet `p` is a long-header Initial whose DCID or SCID is `c` -/
def Names (p : Pkt) (c : Bytes) : Prop :=
  p.ptype = .initial ∧ p.htype ≠ .short ∧ (c = p.dcid ∨ p.scid = some c)

theorem learnCids_le (s : St σ) (p : Pkt) : CidsLe (fun c => c = p.dcid ∨ p.scid = some c) s (learnCids s p) := by
  unfold learnCids
  split
  · exact ⟨fun c h => (mem_setAdd h).imp id .inl, fun c h => (mem_optAdd h).imp id .inr⟩
  · exact ⟨fun c h => (mem_optAdd h).imp id .inr, fun c h => (mem_setAdd h).imp id .inl⟩

theorem afterDecrypt_le (s : St σ) (c : Option PyErr) (p : Pkt) : CidsLe (Names p) s (afterDecrypt P s c p).st := by
  unfold afterDecrypt
  split
  · split
    · exact CidsLe.refl _ _
    · exact CidsLe.of_eq rfl rfl
  · split
    · exact CidsLe.of_eq rfl rfl
    · split
      · rename_i hi
        split
        · exact CidsLe.refl _ _
        · rename_i hs
          exact (learnCids_le s p).mono fun c hc => ⟨hi, hs, hc⟩
      · exact CidsLe.refl _ _

/-- what one QUIC packet can teach the session -/
def Teaches (p : Pkt) (c : Bytes) : Prop := Names p c ∨ Issues P p c

theorem stepPkt_le (s : St σ) (p : Pkt) : CidsLe (Teaches P p) s (stepPkt P s p).st := by
  unfold stepPkt
  split
  · exact ((decryptPacket_le P s p).mono fun c h => .inr h).trans ((afterDecrypt_le P _ _ p).mono fun c h => .inl h)
  · exact (afterDecrypt_le P s none p).mono fun c h => .inl h

theorem handleQuicPackets_le (s : St σ) (ps : List Pkt) :
    CidsLe (fun c => ∃ p ∈ ps, Teaches P p c) s (handleQuicPackets P s ps).1 := by
  induction ps generalizing s with
  | nil => exact CidsLe.refl _ _
  | cons p ps ih =>
    have hstep := (stepPkt_le P s p).mono (T := fun c => ∃ q ∈ p :: ps, Teaches P q c)
      (fun c h => ⟨p, List.mem_cons_self .., h⟩)
    simp only [handleQuicPackets]
    cases (stepPkt P s p).escaped with
    | some e => exact hstep
    | none => exact hstep.trans ((ih _).mono fun c ⟨q, hq, h⟩ => ⟨q, List.mem_cons_of_mem _ hq, h⟩)


/-! ### through the composed machine -/
section Pipeline
open TLX.QuicPipeline TLX.MainLoop
variable (mask : Quic.Dissect.MaskFn) (H : Crypto.Prims) (Pc : Cipher.Prims) (info : Nat → Pipeline.Info)

theorem handleTurn_le (P : Params Tls) (x : LoopSt) (ps : List Quic.Pkt) :
    CidsLe (fun c => ∃ p ∈ ps, Teaches P p c) x.1 (handleTurn P x ps).1 := by
  obtain ⟨s, e⟩ := x
  unfold handleTurn
  cases e with
  | some e => exact CidsLe.refl _ _
  | none => exact (handleQuicPackets_le P s ps).trans (CidsLe.of_eq rfl rfl)

theorem dissectLoop_le (P : Params Tls) (srv : Bool) (guessed : Bytes) (ts : Nat) (d : Bytes) :
    ∀ x : LoopSt, CidsLe
      (fun c => ∃ p ∈ (Quic.Dissect.dissectLoop mask (fun x : LoopSt => envOf x.1) (handleTurn P) srv guessed ts x d).2,
        Teaches P p c) x.1
      (Quic.Dissect.dissectLoop mask (fun x : LoopSt => envOf x.1) (handleTurn P) srv guessed ts x d).1.1 := by
  induction hn : d.length using Nat.strongRecOn generalizing d with
  | _ n ih =>
    intro x
    by_cases hd : d = []
    · subst hd
      rw [Lemmas.QuicDissect.dissectLoop_nil]; exact CidsLe.refl _ _
    · rw [Lemmas.QuicDissect.dissectLoop_cons _ _ _ _ _ _ _ _ hd]
      have hlt := Quic.Dissect.extract_rest_lt mask (envOf x.1) srv guessed ts d
        (by intro h; exact hd (List.eq_nil_of_length_eq_zero h))
      refine ((handleTurn_le P x _).mono ?_).trans ((ih _ (by rw [← hn]; exact hlt) _ rfl _).mono ?_)
      · intro c ⟨p, hp, h⟩; exact ⟨p, List.mem_append_left _ hp, h⟩
      · intro c ⟨p, hp, h⟩; exact ⟨p, List.mem_append_right _ hp, h⟩

theorem feedPre_cids (P : Params Tls) (s : St Tls) (dcid : Bytes) (v : Quic.Session.Version) :
    (feedPre H P s dcid v).clientCids = s.clientCids ∧ (feedPre H P s dcid v).serverCids = s.serverCids := by
  unfold feedPre handlePacketPre latchVersion setInitialDecryptor stampVer
  simp only
  repeat' split
  all_goals exact ⟨rfl, rfl⟩

/-- the QUIC packets the dissector extracts from the datagram `payload` while the session, in state `s`, handles it -/
def dissected (P : Params Tls) (s : St Tls) (fromClient : Bool) (dcid : Bytes) (v : Quic.Session.Version) (ts : Nat)
    (payload : Bytes) : List Quic.Pkt :=
  (Quic.Dissect.dissectLoop mask (fun x : LoopSt => envOf x.1) (handleTurn P)
    (packetIsServer (feedPre H P s dcid v) fromClient dcid) dcid ts (feedPre H P s dcid v, none) payload).2

theorem handleDatagram_le (P : Params Tls) (s : St Tls) (fromClient : Bool) (dcid : Bytes) (v : Quic.Session.Version)
    (ts : Nat) (payload : Bytes) :
    CidsLe (fun c => ∃ p ∈ dissected mask H P s fromClient dcid v ts payload, Teaches P p c) s
      (handleDatagram mask H P s fromClient dcid v ts payload).1 := by
  unfold handleDatagram dissected
  obtain ⟨h1, h2⟩ := feedPre_cids H P s dcid v
  exact (CidsLe.of_eq h1 h2).trans (dissectLoop_le mask P _ dcid ts payload (feedPre H P s dcid v, none))


/-- the datagram `x` teaches the connection ID `c`: handled by a session (in some state `s`, with some routing DCID `d`),
    the dissector extracts from it a QUIC packet that is a long-header Initial with DCID or SCID `c` (`Names`), or that the
    session opens and finds a NEW_CONNECTION_ID frame carrying `c` in (`Issues`) -/
def TaughtBy (x : QIn Keylog.Key) (c : Bytes) : Prop :=
  ∃ (s : St Tls) (fromClient : Bool) (d : Bytes),
    ∃ p ∈ dissected mask H (params H Pc x.kl) s fromClient d (sver x.h.ver) (info x.p.tag).ts x.p.payload,
      Teaches (params H Pc x.kl) p c

theorem feed_le (x : QIn Keylog.Key) (c : QConn) (d : Bytes) :
    CidsLe (TaughtBy mask H Pc info x) c.st ((quicMachine mask H Pc info).feed c x.kl x.p d x.h.ver).st := by
  simp only [quicMachine]
  cases c.raised with
  | some e => exact CidsLe.refl _ _
  | none =>
    exact (handleDatagram_le mask H (params H Pc x.kl) c.st _ d _ _ _).mono
      fun cid ⟨p, hp, ht⟩ => ⟨c.st, _, d, p, hp, ht⟩

open TLX.Lemmas.ExportDemux in
/-- **what a QUIC session can hold.** Every connection ID that a session of the run on the datagrams `A` ever holds was
    taught by one of these datagrams: it is the DCID or SCID of a long-header Initial packet dissected from it, or it arrived
    in a NEW_CONNECTION_ID frame of a packet the session could open. Nothing else enters the CID sets — not the routing DCID
    the loop hands over, not a Retry's SCID as such, nothing from another connection's datagrams. -/
theorem everHolds_sources (o : Opts) (A : List (QIn Keylog.Key)) (c : Bytes)
    (h : EverHolds (quicMachine mask H Pc info) o A c) : ∃ x ∈ A, TaughtBy mask H Pc info x c := by
  obtain ⟨n, s, hs, hc⟩ := h
  have := Props.ExportPropsQuic.quicRun_inv (quicMachine mask H Pc info) o
    (fun s => ∀ c, (c ∈ s.st.st.clientCids ∨ c ∈ s.st.st.serverCids) → ∃ x ∈ A, TaughtBy mask H Pc info x c) (A.take n)
    ?_ ?_ [] (by intro s hs; cases hs) s hs c hc
  · exact this
  · intro x hx c hc
    have hle := feed_le mask H Pc info x ((quicMachine mask H Pc info).new o x.p) x.h.dcid
    have h0 : ((quicMachine mask H Pc info).new o x.p).st.clientCids = [] ∧
        ((quicMachine mask H Pc info).new o x.p).st.serverCids = [] := ⟨rfl, rfl⟩
    simp only [quicNew] at hc
    rcases hc with hc | hc
    · rcases hle.1 c hc with h | h
      · rw [h0.1] at h; cases h
      · exact ⟨x, List.mem_of_mem_take hx, h⟩
    · rcases hle.2 c hc with h | h
      · rw [h0.2] at h; cases h
      · exact ⟨x, List.mem_of_mem_take hx, h⟩
  · intro x hx s d hQ _ c hc
    have hle := feed_le mask H Pc info x s.st d
    rcases hc with hc | hc
    · rcases hle.1 c hc with h | h
      · exact hQ c (.inl h)
      · exact ⟨x, List.mem_of_mem_take hx, h⟩
    · rcases hle.2 c hc with h | h
      · exact hQ c (.inr h)
      · exact ⟨x, List.mem_of_mem_take hx, h⟩

end Pipeline
end TLX.Lemmas.ExportDemuxCids

