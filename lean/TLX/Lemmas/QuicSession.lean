/-
Helper lemmas for `TLX/Props/C02Session.lean` about the packet-level QUIC session model (`TLX/Quic/Session.lean`):
which state components each stage of `decrypt_packet` can touch ("frames"), monotonicity of the CID sets, and the
bookkeeping-free views `runPkts` / `escapes` of `handleQuicPackets`.
-/
import TLX.Quic.Session
namespace TLX.Lemmas.QuicSession
open TLX TLX.Quic TLX.Cipher TLX.Quic.Session

variable {σ : Type} (P : Params σ)

/-! ### what each stage may change -/

/-- `check_key_epoch` / decryptor selection: epochs, last key phases, the application generations -/
def FrameSel (s s' : St σ) : Prop :=
  ∃ ec es lc ls app, s' =
    { s with epochClient := ec, epochServer := es, lastPhaseClient := lc, lastPhaseServer := ls, decApp := app }

/-- `get_full_packet_number`: the two packet-number tables -/
def FramePn (s s' : St σ) : Prop := ∃ pc ps, s' = { s with pnClient := pc, pnServer := ps }

/-- `handle_crypto_frame`: TLS parser, output, and what `set_tls_decryptors` assigns -/
def FrameC (s s' : St σ) : Prop :=
  ∃ tls out suite can kh ka ke dh da de etk, s' =
    { s with tls := tls, out := out, suite := suite, canDecrypt := can, keysHs := kh, keysApp := ka, keysEarly := ke,
             decHandshake := dh, decApp := da, decEarly := de, earlyTrafficKeys := etk }

/-- `handle_frame`: the above plus the CID sets -/
def FrameH (s s' : St σ) : Prop :=
  ∃ cc sc tls out suite can kh ka ke dh da de etk, s' =
    { s with clientCids := cc, serverCids := sc, tls := tls, out := out, suite := suite, canDecrypt := can,
             keysHs := kh, keysApp := ka, keysEarly := ke, decHandshake := dh, decApp := da, decEarly := de,
             earlyTrafficKeys := etk }

theorem FrameSel.refl (s : St σ) : FrameSel s s := ⟨_, _, _, _, _, rfl⟩
theorem FramePn.refl (s : St σ) : FramePn s s := ⟨_, _, rfl⟩
theorem FrameC.refl (s : St σ) : FrameC s s := ⟨_, _, _, _, _, _, _, _, _, _, _, rfl⟩
theorem FrameH.refl (s : St σ) : FrameH s s := ⟨_, _, _, _, _, _, _, _, _, _, _, _, _, rfl⟩

theorem FrameC.trans {s a b : St σ} (h1 : FrameC s a) (h2 : FrameC a b) : FrameC s b := by
  obtain ⟨_, _, _, _, _, _, _, _, _, _, _, rfl⟩ := h1
  obtain ⟨_, _, _, _, _, _, _, _, _, _, _, rfl⟩ := h2
  exact ⟨_, _, _, _, _, _, _, _, _, _, _, rfl⟩

theorem FrameH.trans {s a b : St σ} (h1 : FrameH s a) (h2 : FrameH a b) : FrameH s b := by
  obtain ⟨_, _, _, _, _, _, _, _, _, _, _, _, _, rfl⟩ := h1
  obtain ⟨_, _, _, _, _, _, _, _, _, _, _, _, _, rfl⟩ := h2
  exact ⟨_, _, _, _, _, _, _, _, _, _, _, _, _, rfl⟩

theorem FrameC.toH {s a : St σ} (h : FrameC s a) : FrameH s a := by
  obtain ⟨_, _, _, _, _, _, _, _, _, _, _, rfl⟩ := h
  exact ⟨_, _, _, _, _, _, _, _, _, _, _, _, _, rfl⟩

theorem flipEpoch_frame (s : St σ) (phase : Option Nat) (srv : Bool) : FrameSel s (flipEpoch s phase srv) := by
  unfold flipEpoch
  repeat' split
  all_goals exact ⟨_, _, _, _, _, rfl⟩

theorem extendGens_frame (s : St σ) : FrameSel s (extendGens P s).1 := by
  unfold extendGens
  repeat' split
  all_goals exact ⟨_, _, _, _, _, rfl⟩

theorem extendGens_decApp_only (s : St σ) : ∃ app, (extendGens P s).1 = { s with decApp := app } := by
  unfold extendGens
  repeat' split
  all_goals exact ⟨_, rfl⟩

theorem FrameSel.trans {s a b : St σ} (h1 : FrameSel s a) (h2 : FrameSel a b) : FrameSel s b := by
  obtain ⟨_, _, _, _, _, rfl⟩ := h1
  obtain ⟨_, _, _, _, _, rfl⟩ := h2
  exact ⟨_, _, _, _, _, rfl⟩

theorem checkKeyEpoch_frame (s : St σ) (phase : Option Nat) (srv : Bool) :
    FrameSel s (checkKeyEpoch P s phase srv).1 :=
  (flipEpoch_frame s phase srv).trans (extendGens_frame P _)

theorem selectDecryptor_frame (s : St σ) (p : Pkt) : FrameSel s (selectDecryptor P s p).1 := by
  unfold selectDecryptor
  split
  · split
    · have h := checkKeyEpoch_frame P s p.keyPhase p.isServer
      split <;> (rename_i heq; rw [heq] at h; exact h)
    · exact FrameSel.refl s
  · exact FrameSel.refl s

/-- (was `getFullPn_frame` before the pn-store repair: `getFullPn` is pure now, the store is `setLargestPn`) -/
theorem setLargestPn_frame (s : St σ) (p : Pkt) (pn : Bytes) : FramePn s (setLargestPn s p pn) := by
  unfold setLargestPn pnStore
  repeat' split
  all_goals exact ⟨_, _, rfl⟩

theorem Legacy.getFullPn_frame (s : St σ) (p : Pkt) : FramePn s (Legacy.getFullPn s p).1 := by
  unfold Legacy.getFullPn pnStore
  repeat' split
  all_goals exact ⟨_, _, rfl⟩

theorem installGroups_frame (s : St σ) (sel : SuiteSel) (kg : KeyGroups) : FrameC s (installGroups s sel kg) := by
  unfold installGroups
  repeat' split
  all_goals exact ⟨_, _, _, _, _, _, _, _, _, _, _, rfl⟩

theorem setTlsDecryptors_frame (s : St σ) (cr cs : Bytes) : FrameC s (setTlsDecryptors P s cr cs).1 := by
  unfold setTlsDecryptors
  split
  · exact ⟨_, _, _, _, _, _, _, _, _, _, _, rfl⟩
  · split
    · exact ⟨_, _, _, _, _, _, _, _, _, _, _, rfl⟩
    · exact FrameC.trans ⟨_, _, _, _, _, _, _, _, _, _, _, rfl⟩ (installGroups_frame _ _ _)

theorem afterTls_frame (s : St σ) : FrameC s (afterTls P s).1 := by
  unfold afterTls
  split
  · split
    · rename_i cr cs _ _
      have h := setTlsDecryptors_frame P s cr cs
      split <;> (rename_i heq; rw [heq] at h)
      · exact h
      · exact h.trans ⟨_, _, _, _, _, _, _, _, _, _, _, rfl⟩
    · exact ⟨_, _, _, _, _, _, _, _, _, _, _, rfl⟩
  · exact FrameC.refl s

theorem handleCrypto_frame (s : St σ) (p : Pkt) (f : Frame.Parsed) (c : CryptoIn) :
    FrameC s (handleCrypto P s p f c).1 := by
  unfold handleCrypto
  split
  · exact ⟨_, _, _, _, _, _, _, _, _, _, _, rfl⟩
  · rename_i t _
    have h : FrameC s { s with tls := t } := ⟨_, _, _, _, _, _, _, _, _, _, _, rfl⟩
    have h2 := afterTls_frame P { s with tls := t }
    split <;> (rename_i heq; rw [heq] at h2)
    · exact h.trans h2
    · exact (h.trans h2).trans ⟨_, _, _, _, _, _, _, _, _, _, _, rfl⟩

theorem handleFrame_frame (s : St σ) (p : Pkt) (f : Frame.Parsed) : FrameH s (handleFrame P s p f).1 := by
  unfold handleFrame
  split
  · exact (handleCrypto_frame P s p _ _).toH
  · exact ⟨_, _, _, _, _, _, _, _, _, _, _, _, _, rfl⟩
  · split <;> exact ⟨_, _, _, _, _, _, _, _, _, _, _, _, _, rfl⟩
  · exact FrameH.refl s

theorem handleFrames_frame (s : St σ) (p : Pkt) (fs : List Frame.Parsed) : FrameH s (handleFrames P s p fs).1 := by
  induction fs generalizing s with
  | nil => exact FrameH.refl s
  | cons f fs ih =>
    unfold handleFrames
    have h := handleFrame_frame P s p f
    split <;> (rename_i heq; rw [heq] at h)
    · exact h
    · exact h.trans (ih _)

/-! ### the CID sets only grow -/

theorem mem_setAdd_of_mem {s : List Bytes} {x y : Bytes} (h : x ∈ s) : x ∈ setAdd s y := by
  unfold setAdd; split <;> simp [h]

theorem mem_setAdd_self (s : List Bytes) (y : Bytes) : y ∈ setAdd s y := by
  unfold setAdd; split <;> simp [*]

theorem mem_optAdd_of_mem {s : List Bytes} {x : Bytes} {y : Option Bytes} (h : x ∈ s) : x ∈ optAdd s y := by
  cases y <;> simp [optAdd, h, mem_setAdd_of_mem]

/-- both CID sets of `s'` contain those of `s` -/
def CidsMono (s s' : St σ) : Prop :=
  (∀ x, x ∈ s.clientCids → x ∈ s'.clientCids) ∧ (∀ x, x ∈ s.serverCids → x ∈ s'.serverCids)

theorem CidsMono.refl (s : St σ) : CidsMono s s := ⟨fun _ h => h, fun _ h => h⟩

theorem CidsMono.trans {s a b : St σ} (h1 : CidsMono s a) (h2 : CidsMono a b) : CidsMono s b :=
  ⟨fun x h => h2.1 x (h1.1 x h), fun x h => h2.2 x (h1.2 x h)⟩

theorem CidsMono.of_eq {s a : St σ} (hc : a.clientCids = s.clientCids) (hs : a.serverCids = s.serverCids) :
    CidsMono s a := ⟨fun _ h => hc ▸ h, fun _ h => hs ▸ h⟩

theorem FrameSel.cids {s a : St σ} (h : FrameSel s a) : CidsMono s a := by
  obtain ⟨_, _, _, _, _, rfl⟩ := h; exact CidsMono.refl _

theorem FramePn.cids {s a : St σ} (h : FramePn s a) : CidsMono s a := by
  obtain ⟨_, _, rfl⟩ := h; exact CidsMono.refl _

theorem FrameC.cids {s a : St σ} (h : FrameC s a) : CidsMono s a := by
  obtain ⟨_, _, _, _, _, _, _, _, _, _, _, rfl⟩ := h; exact CidsMono.refl _

theorem handleFrame_cids (s : St σ) (p : Pkt) (f : Frame.Parsed) : CidsMono s (handleFrame P s p f).1 := by
  unfold handleFrame
  split
  · exact (handleCrypto_frame P s p _ _).cids
  · exact CidsMono.refl _
  · split
    · exact ⟨fun _ h => h, fun _ h => mem_setAdd_of_mem h⟩
    · exact ⟨fun _ h => mem_setAdd_of_mem h, fun _ h => h⟩
  · exact CidsMono.refl s

theorem handleFrames_cids (s : St σ) (p : Pkt) (fs : List Frame.Parsed) : CidsMono s (handleFrames P s p fs).1 := by
  induction fs generalizing s with
  | nil => exact CidsMono.refl s
  | cons f fs ih =>
    unfold handleFrames
    have h := handleFrame_cids P s p f
    split <;> (rename_i heq; rw [heq] at h)
    · exact h
    · exact h.trans (ih _)

theorem decryptRest_cids (s : St σ) (p : Pkt) (d? : Option Dec) : CidsMono s (decryptRest P s p d?).1 := by
  unfold decryptRest
  repeat' split
  all_goals first
    | exact CidsMono.refl s
    | exact (setLargestPn_frame s p _).cids
    | exact (setLargestPn_frame s p _).cids.trans (handleFrames_cids P _ p _)

/-- everything after the decryptor lookup: packet-number tables, then what `handle_frame` may change -/
theorem decryptRest_frame (s : St σ) (p : Pkt) (d? : Option Dec) :
    ∃ s1, FramePn s s1 ∧ FrameH s1 (decryptRest P s p d?).1 := by
  unfold decryptRest
  repeat' split
  all_goals first
    | exact ⟨_, FramePn.refl s, FrameH.refl _⟩
    | exact ⟨_, setLargestPn_frame s p _, FrameH.refl _⟩
    | exact ⟨_, setLargestPn_frame s p _, handleFrames_frame P _ p _⟩

theorem decryptPacket_cids (s : St σ) (p : Pkt) : CidsMono s (decryptPacket P s p).1 := by
  unfold decryptPacket
  have h1 := (selectDecryptor_frame P s p).cids
  split <;> (rename_i heq; rw [heq] at h1)
  · exact h1
  · exact h1.trans (decryptRest_cids P _ p _)

theorem learnCids_cids (s : St σ) (p : Pkt) : CidsMono s (learnCids s p) := by
  unfold learnCids
  split
  · exact ⟨fun _ h => mem_setAdd_of_mem h, fun _ h => mem_optAdd_of_mem h⟩
  · exact ⟨fun _ h => mem_optAdd_of_mem h, fun _ h => mem_setAdd_of_mem h⟩

theorem afterDecrypt_cids (s : St σ) (c : Option PyErr) (p : Pkt) : CidsMono s (afterDecrypt P s c p).st := by
  unfold afterDecrypt
  repeat' split
  all_goals first
    | exact CidsMono.refl _
    | exact learnCids_cids s p
    | exact CidsMono.of_eq rfl rfl

theorem stepPkt_cids (s : St σ) (p : Pkt) : CidsMono s (stepPkt P s p).st := by
  unfold stepPkt
  split
  · exact (decryptPacket_cids P s p).trans (afterDecrypt_cids P _ _ p)
  · exact afterDecrypt_cids P s none p

theorem runPkts_cids (s : St σ) (ps : List Pkt) : CidsMono s (runPkts P s ps) := by
  induction ps generalizing s with
  | nil => exact CidsMono.refl s
  | cons p ps ih =>
    unfold runPkts
    split
    · exact stepPkt_cids P s p
    · exact (stepPkt_cids P s p).trans (ih _)

theorem latchVersion_cids (s : St σ) (v : Version) : CidsMono s (latchVersion s v) := by
  unfold latchVersion; split <;> exact CidsMono.of_eq rfl rfl

theorem handlePacketPre_cids (s : St σ) (dcid : Bytes) (v : Version) : CidsMono s (handlePacketPre P s dcid v) := by
  unfold handlePacketPre setInitialDecryptor
  repeat' split
  all_goals first
    | exact latchVersion_cids s v
    | exact (latchVersion_cids s v).trans (CidsMono.of_eq rfl rfl)

/-! ### `handleQuicPackets` = (`runPkts`, …, `escapes`) -/

theorem handleQuicPackets_st (s : St σ) (ps : List Pkt) : (handleQuicPackets P s ps).1 = runPkts P s ps := by
  induction ps generalizing s with
  | nil => rfl
  | cons p ps ih =>
    simp only [handleQuicPackets, runPkts]
    split
    · rfl
    · simp only [ih]

theorem handleQuicPackets_esc (s : St σ) (ps : List Pkt) : (handleQuicPackets P s ps).2.2 = escapes P s ps := by
  induction ps generalizing s with
  | nil => rfl
  | cons p ps ih =>
    simp only [handleQuicPackets, escapes]
    split
    · rfl
    · simp only [ih]

theorem handleQuicPackets_caught (s : St σ) (ps : List Pkt) : (handleQuicPackets P s ps).2.1 = caughtList P s ps := by
  induction ps generalizing s with
  | nil => rfl
  | cons p ps ih =>
    simp only [handleQuicPackets, caughtList]
    split
    · rfl
    · simp only [ih]

theorem runPkts_append (s : St σ) (a b : List Pkt) (h : escapes P s a = none) :
    runPkts P s (a ++ b) = runPkts P (runPkts P s a) b := by
  induction a generalizing s with
  | nil => rfl
  | cons p ps ih =>
    simp only [List.cons_append, runPkts]
    simp only [escapes] at h
    split
    · rename_i e he; rw [he] at h; simp at h
    · rename_i he; rw [he] at h; exact ih _ h

/-! ### no exception escapes for packets the class constructors can build -/

theorem afterDecrypt_escaped (s : St σ) (c : Option PyErr) (p : Pkt) (h : Pkt.classOk p) :
    (afterDecrypt P s c p).escaped = none := by
  unfold afterDecrypt
  unfold Pkt.classOk at h
  repeat' split
  all_goals first
    | rfl
    | (rename_i h1 h2; have := h h2; simp_all)
    | (rename_i h1 h2 h3 h4; have := h h4; simp_all)

theorem stepPkt_escaped (s : St σ) (p : Pkt) (h : Pkt.classOk p) : (stepPkt P s p).escaped = none := by
  unfold stepPkt; split <;> exact afterDecrypt_escaped P _ _ p h

theorem escapes_none (s : St σ) (ps : List Pkt) (h : ∀ p ∈ ps, Pkt.classOk p) : escapes P s ps = none := by
  induction ps generalizing s with
  | nil => rfl
  | cons p ps ih =>
    simp only [escapes, stepPkt_escaped P s p (h p (List.mem_cons_self ..))]
    exact ih _ (fun q hq => h q (List.mem_cons_of_mem _ hq))

end TLX.Lemmas.QuicSession
