/-
Helper lemmas for C02 (dissector): the model of quic_dissector.py (TLX/Quic/Dissect.lean) inverts the RFC 9000 §17 /
RFC 9001 §5.4 encoder of TLX/Spec/QuicPackets.lean.
-/
import TLX.Quic.Dissect
import TLX.Spec.QuicDissectStmt
import TLX.Lemmas.QuicVarint
namespace TLX.Lemmas.QuicDissect
open TLX TLX.Quic TLX.Quic.Dissect TLX.Quic.Varint TLX.Spec.QuicPackets TLX.Spec.QuicFrames
open TLX.Lemmas.QuicVarint

theorem slice_split (d pre mid post : Bytes) (i j : Nat) (hd : d = pre ++ (mid ++ post))
    (hi : i = pre.length) (hj : j = i + mid.length) : Bytes.slice d i j = mid := by
  subst hd hi hj
  simp [Bytes.slice]

theorem need_split (d pre mid post : Bytes) (n : Nat) (hd : d = pre ++ (mid ++ post))
    (hn : n ≤ pre.length + mid.length) : need d n = .ok () := by
  subst hd
  unfold need
  rw [if_neg]; simp only [List.length_append]; omega
theorem xor_cancel (a k : UInt8) : (a ^^^ k) ^^^ k = a := by
  rw [UInt8.xor_assoc, UInt8.xor_self, UInt8.xor_zero]
theorem isLong_mask (a m c : UInt8) (hc : c >>> 7 = 0) : isLong (a ^^^ (m &&& c)) = isLong a := by
  unfold isLong
  rw [UInt8.shiftRight_xor, UInt8.shiftRight_and, hc, UInt8.and_zero, UInt8.xor_zero]

theorem packetType_shift : ∀ x : UInt8, (x &&& 0x30) >>> 4 = (x >>> 4) &&& 3 := by
  intro x
  have : ∀ n : Fin 256, (UInt8.ofNat n.val &&& 0x30) >>> 4 = (UInt8.ofNat n.val >>> 4) &&& 3 := by decide +kernel
  have h := this ⟨x.toNat, x.toNat_lt⟩
  simpa using h

theorem packetType_mask (a m : UInt8) : packetType (a ^^^ (m &&& 0x0f)) = packetType a := by
  unfold packetType
  rw [packetType_shift, packetType_shift, UInt8.shiftRight_xor, UInt8.shiftRight_and]
  have : (0x0f : UInt8) >>> 4 = 0 := by decide
  rw [this, UInt8.and_zero, UInt8.xor_zero]

theorem byteXor_xorBytes (pn mk : Bytes) (h : pn.length ≤ mk.length) : byteXor (xorBytes pn mk) mk = pn := by
  induction pn generalizing mk with
  | nil => cases mk <;> simp [xorBytes, byteXor]
  | cons a as ih =>
    cases mk with
    | nil => simp at h
    | cons b bs =>
      simp only [xorBytes, byteXor, List.zipWith_cons_cons, xor_cancel]
      congr 1
      exact ih bs (by simpa using h)

theorem xorBytes_length (pn mk : Bytes) (h : pn.length ≤ mk.length) : (xorBytes pn mk).length = pn.length := by
  induction pn generalizing mk with
  | nil => cases mk <;> simp [xorBytes]
  | cons a as ih =>
    cases mk with
    | nil => simp at h
    | cons b bs => simp [xorBytes, ih bs (by simpa using h)]

theorem decodeVarint_single (x : UInt8) (h : x.toNat < 64) : decodeVarint [x] = some x.toNat := by
  have hl : varintLen x = 1 := by
    unfold varintLen
    rw [Nat.shiftRight_eq_div_pow, Nat.shiftLeft_eq, show x.toNat / 2 ^ 6 = 0 by omega]
  simp only [decodeVarint, hl, List.length_nil]
  rw [if_neg (by omega)]
  simp only [Nat.sub_self, List.take_zero, accBE, List.foldl_nil]
  congr 1
  rw [show (0x3f : Nat) = 2 ^ 6 - 1 by decide, Nat.and_two_pow_sub_one_eq_mod]; omega

theorem and3_lt (x : UInt8) : (x &&& 3).toNat < 4 := by
  rw [UInt8.toNat_and]
  have : x.toNat &&& 3 ≤ 3 := Nat.and_le_right
  show x.toNat &&& 3 < 4
  omega

/-- remove_header_protection on a protected packet -/
theorem removeHP_protect (mask : MaskFn) (long : Bool) (chacha : Bool) (key sample m : Bytes) (first : UInt8)
    (d pre pn post : Bytes)
    (hm : mask chacha key sample = some m) (hm5 : 5 ≤ m.length)
    (hpn : (first &&& 3).toNat + 1 = pn.length)
    (hd : d = pre ++ (xorBytes pn ((m.drop 1).take pn.length) ++ post)) (pnOff : Nat) (hoff : pnOff = pre.length) :
    removeHP mask long sample (first ^^^ (m.headD 0 &&& (if long then 0x0f else 0x1f))) key d pnOff chacha
      = .ok (first, pn, pn.length) := by
  subst hoff
  have h4 := and3_lt first
  obtain ⟨m0, mr, rfl⟩ : ∃ m0 mr, m = m0 :: mr := by
    cases m with
    | nil => simp at hm5
    | cons a b => exact ⟨a, b, rfl⟩
  simp only [List.length_cons] at hm5
  have hmk : ((m0 :: mr).drop 1).take pn.length = mr.take pn.length := by simp
  rw [hmk] at hd
  have hlen : (xorBytes pn (mr.take pn.length)).length = pn.length :=
    xorBytes_length _ _ (by simp only [List.length_take]; omega)
  unfold removeHP
  simp only [hm, ofOpt, bind, Except.bind, List.headD_cons, List.getElem?_cons_zero, xor_cancel]
  rw [decodeVarint_single _ (by omega)]
  simp only [hpn]
  rw [slice_split d pre _ post _ _ hd rfl (by rw [hlen])]
  have hs : Bytes.slice (m0 :: mr) 1 (pn.length + 1) = mr.take pn.length := by
    simp [Bytes.slice]
  rw [hs, byteXor_xorBytes _ _ (by simp only [List.length_take]; omega)]

theorem sample_eq (pnm pn payload rest : Bytes) (hl : pnm.length = pn.length) (h4 : pn.length ≤ 4)
    (h20 : 20 ≤ pn.length + payload.length) :
    ((pnm ++ (payload ++ rest)).drop 4).take 16 = sampleOf pn payload := by
  unfold sampleOf
  rw [List.drop_append, List.drop_append, List.drop_append]
  have e1 : pnm.drop 4 = [] := List.drop_eq_nil_of_le (by omega)
  have e2 : pn.drop 4 = [] := List.drop_eq_nil_of_le (by omega)
  rw [e1, e2, hl, List.nil_append, List.nil_append]
  have e3 : rest.drop (4 - pn.length - payload.length) = rest := by
    rw [show 4 - pn.length - payload.length = 0 by omega]; rfl
  rw [e3, List.take_append_of_le_length (by simp only [List.length_drop]; omega)]

theorem protectedTail_protect (mask : MaskFn) (env : Env) (name : KeyName) (chacha : Bool) (key m : Bytes)
    (first : UInt8) (x : VW) (d pre pn payload rest : Bytes)
    (hk : env.keys name = some key)
    (hm : mask chacha key (sampleOf pn payload) = some m) (hm5 : 5 ≤ m.length)
    (hpn : (first &&& 3).toNat + 1 = pn.length)
    (h20 : 20 ≤ pn.length + payload.length)
    (hfit : x.fits (pn.length + payload.length))
    (hd : d = pre ++ (x.enc (pn.length + payload.length) ++
            (xorBytes pn ((m.drop 1).take pn.length) ++ (payload ++ rest))))
    (lenOff : Nat) (hoff : lenOff = pre.length) :
    protectedTail mask env name chacha d (first ^^^ (m.headD 0 &&& 0x0f)) lenOff
      = .ok (x.enc (pn.length + payload.length), first, pn, pn.length, payload, x.w) := by
  subst hoff
  have h4 := and3_lt first
  have hw := VW.w_pos x
  generalize hv : pn.length + payload.length = v at *
  generalize hpnm : xorBytes pn ((m.drop 1).take pn.length) = pnm at *
  have hpnml : pnm.length = pn.length := by
    rw [← hpnm]; exact xorBytes_length _ _ (by simp only [List.length_take, List.length_drop]; omega)
  obtain ⟨b, r, hb, hbl, hdec⟩ := decode_enc x v hfit (pnm ++ (payload ++ rest))
  have henc : (x.enc v).length = x.w := VW.enc_length x v
  rw [List.take_append_of_le_length (by omega), List.take_of_length_le (by omega)] at hdec
  unfold protectedTail
  have n1 : need d (pre.length + 1) = .ok () := need_split d pre (x.enc v) _ _ hd (by omega)
  have s1 : Bytes.slice d pre.length (pre.length + 1) = [b] :=
    slice_split d pre [b] r _ _ (by rw [hd, hb]; rfl) rfl rfl
  have n2 : need d (pre.length + x.w) = .ok () := need_split d pre (x.enc v) _ _ hd (by omega)
  have s2 : Bytes.slice d (pre.length) (pre.length + x.w) = x.enc v :=
    slice_split d pre (x.enc v) _ _ _ hd rfl (by omega)
  have hd2 : d = (pre ++ x.enc v) ++ (pnm ++ (payload ++ rest)) := by rw [hd, List.append_assoc]
  have s3 : Bytes.slice d (pre.length + x.w + 4) (pre.length + x.w + 4 + 16) = sampleOf pn payload := by
    rw [← sample_eq pnm pn payload rest hpnml (by omega) (by omega), hd2]
    simp only [Bytes.slice, Nat.add_sub_cancel_left]
    rw [show pre.length + x.w + 4 = (pre ++ x.enc v).length + 4 by simp [henc], ← List.drop_drop,
      List.drop_left]
  simp only [n1, s1, getVarintLength, hbl, n2, s2, hdec, ofOpt, bind, Except.bind, s3, hk]
  have hr := removeHP_protect mask true chacha key (sampleOf pn payload) m first d (pre ++ x.enc v) pn
    (payload ++ rest) hm hm5 hpn (by rw [hpnm]; exact hd2) (pre.length + x.w) (by simp [henc])
  simp only [if_true] at hr
  rw [hr]
  simp only
  rw [if_neg (by omega)]
  have hd3 : d = (pre ++ x.enc v ++ pnm) ++ (payload ++ rest) := by rw [hd2]; simp
  have n3 : need d (pre.length + x.w + pn.length + (v - pn.length)) = .ok () :=
    need_split d _ payload rest _ hd3 (by simp [henc, hpnml]; omega)
  have s4 : Bytes.slice d (pre.length + x.w + pn.length) (pre.length + x.w + pn.length + (v - pn.length)) = payload :=
    slice_split d _ payload rest _ _ hd3 (by simp [henc, hpnml]; omega) (by omega)
  simp only [n3, s4]

theorem ofNat_toNat (n : Nat) (h : n ≤ 255) : (UInt8.ofNat n).toNat = n := by
  simp; omega

theorem long_first_bits : ∀ t : Fin 3, ∀ r l : Fin 4,
    let f := UInt8.ofNat (0xC0 + t.val * 16 + r.val * 4 + l.val)
    isLong f = true ∧ ((f &&& 0x30) >>> 4).toNat = t.val ∧ (f &&& 3).toNat = l.val := by decide

theorem long_first (p : Long) (h : p.wf) :
    isLong p.first = true ∧ packetType p.first = p.ty.ptype ∧ (p.first &&& 3).toNat + 1 = p.pn.length := by
  obtain ⟨hr, _, _, _, h1, h4, _⟩ := h
  have hb : p.ty.bits < 3 := by cases p.ty <;> simp [LType.bits]
  have := long_first_bits ⟨p.ty.bits, hb⟩ ⟨p.reserved, hr⟩ ⟨p.pn.length - 1, by omega⟩
  simp only at this
  unfold Long.first
  refine ⟨this.1, ?_, by rw [this.2.2]; omega⟩
  unfold packetType
  rw [this.2.1]
  cases p.ty <;> rfl

/-- the common long-header prefix: first byte, Version, DCID Length, DCID, SCID Length, SCID -/
theorem header_facts (fb : UInt8) (version dcid scid T d : Bytes) (hv : version.length = 4)
    (hsl : scid.length ≤ 63)
    (hd : d = fb :: (version ++ (UInt8.ofNat dcid.length :: (dcid ++ (UInt8.ofNat scid.length :: (scid ++ T)))))) :
    need d 6 = .ok () ∧ Bytes.slice d 1 5 = version ∧ d[5]? = some (UInt8.ofNat dcid.length) ∧
    need d (6 + dcid.length) = .ok () ∧ Bytes.slice d 6 (6 + dcid.length) = dcid ∧
    need d (7 + dcid.length) = .ok () ∧
    decodeVarint (Bytes.slice d (6 + dcid.length) (7 + dcid.length)) = some scid.length ∧
    need d (7 + dcid.length + scid.length) = .ok () ∧
    Bytes.slice d (7 + dcid.length) (7 + dcid.length + scid.length) = scid := by
  have e1 : d = [fb] ++ (version ++ (UInt8.ofNat dcid.length :: (dcid ++ (UInt8.ofNat scid.length :: (scid ++ T))))) := hd
  have e2 : d = (fb :: version) ++ ([UInt8.ofNat dcid.length] ++ (dcid ++ (UInt8.ofNat scid.length :: (scid ++ T)))) := by
    rw [hd]; simp
  have e3 : d = (fb :: version ++ [UInt8.ofNat dcid.length]) ++ (dcid ++ (UInt8.ofNat scid.length :: (scid ++ T))) := by
    rw [hd]; simp
  have e4 : d = (fb :: version ++ [UInt8.ofNat dcid.length] ++ dcid) ++ ([UInt8.ofNat scid.length] ++ (scid ++ T)) := by
    rw [hd]; simp
  have e5 : d = (fb :: version ++ [UInt8.ofNat dcid.length] ++ dcid ++ [UInt8.ofNat scid.length]) ++ (scid ++ T) := by
    rw [hd]; simp
  refine ⟨need_split d _ _ _ _ e2 (by simp [hv]), slice_split d _ _ _ _ _ e1 rfl (by rw [hv]), ?_,
    need_split d _ _ _ _ e3 (by simp [hv]), slice_split d _ _ _ _ _ e3 (by simp [hv]) rfl,
    need_split d _ _ _ _ e4 (by simp [hv]; omega), ?_, need_split d _ _ _ _ e5 (by simp [hv]; omega),
    slice_split d _ _ _ _ _ e5 (by simp [hv]; omega) rfl⟩
  · rw [e2, List.getElem?_append_right (by simp [hv])]; simp [hv]
  · have := slice_split d _ [UInt8.ofNat scid.length] _ (6 + dcid.length) (7 + dcid.length) e4
      (by simp [hv]; omega) (by simp; omega)
    rw [this, decodeVarint_single _ (by rw [ofNat_toNat _ (by omega)]; omega), ofNat_toNat _ (by omega)]

theorem extractLong_protect (mask : MaskFn) (env : Env) (isServer : Bool) (ts : Nat) (p : Long) (hwf : p.wf)
    (hver : p.version ≠ [0, 0, 0, 0]) (hscid : p.scid.length ≤ 63)
    (h20 : 20 ≤ p.pn.length + p.payload.length)
    (key m : Bytes) (hk : env.keys (senderKey p.ty isServer) = some key)
    (hm : mask (senderChacha p.ty env.chacha) key p.sample = some m) (hm5 : 5 ≤ m.length) (rest : Bytes) :
    extractLong mask env isServer ts (p.protect m ++ rest) (p.first ^^^ (m.headD 0 &&& 0x0f)) =
      .ok (p.toPkt isServer ts, some (p.protect m).length) := by
  obtain ⟨hL, hT, hP⟩ := long_first p hwf
  have hwf' := hwf
  obtain ⟨hr, hv, hdl, hsl, h1, h4, hft, hfl⟩ := hwf'
  generalize hd : p.protect m ++ rest = d
  generalize hpnm : xorBytes p.pn ((m.drop 1).take p.pn.length) = pnm
  have hd' : d = (p.first ^^^ (m.headD 0 &&& 0x0f)) :: (p.version ++ (UInt8.ofNat p.dcid.length :: (p.dcid ++
      (UInt8.ofNat p.scid.length :: (p.scid ++ (p.tokenPart ++ (p.lengthField ++ (pnm ++ (p.payload ++ rest))))))))) := by
    rw [← hd, ← hpnm]; simp [Long.protect, applyMask, Long.mid]
  obtain ⟨n1, s1, g5, n2, s2, n3, dv, n4, s4⟩ := header_facts _ _ _ _ _ d hv hscid hd'
  have hto := ofNat_toNat _ hdl
  unfold extractLong
  simp only [n1, s1, g5, ofOpt, bind, Except.bind, hto, n2, s2, n3, dv, n4, s4, if_neg hver, packetType_mask, hT]
  have hpnml : pnm.length = p.pn.length := by
    rw [← hpnm]; exact xorBytes_length _ _ (by simp only [List.length_take, List.length_drop]; omega)
  have hplen : (p.protect m).length = 1 + 4 + 1 + p.dcid.length + 1 + p.scid.length + p.tokenPart.length +
      p.lenW.w + p.pn.length + p.payload.length := by
    simp only [Long.protect, applyMask, Long.mid, hpnm, List.length_cons, List.length_append, hv, hpnml,
      Long.lengthField, VW.enc_length, List.length_nil]
    omega
  have hPT := fun (name : KeyName) (chacha : Bool) (pre : Bytes) (lenOff : Nat)
      (hk : env.keys name = some key) (hm : mask chacha key (sampleOf p.pn p.payload) = some m)
      (hd : d = pre ++ (p.lenW.enc (p.pn.length + p.payload.length) ++ (pnm ++ (p.payload ++ rest))))
      (ho : lenOff = pre.length) =>
    protectedTail_protect mask env name chacha key m p.first p.lenW d pre p.pn p.payload rest hk hm hm5 hP h20 hfl
      (by rw [hpnm]; exact hd) lenOff ho
  cases hty : p.ty
  case handshake =>
    simp only [hty, senderKey, senderChacha, Long.sample] at hk hm
    have htp : p.tokenPart = [] := by simp [Long.tokenPart, hty]
    rw [htp, List.nil_append] at hd'
    rw [htp] at hplen
    have := hPT (if isServer = true then .serverHandshake else .clientHandshake) env.chacha
      ((p.first ^^^ (m.headD 0 &&& 0x0f)) :: (p.version ++ (UInt8.ofNat p.dcid.length :: (p.dcid ++
        (UInt8.ofNat p.scid.length :: p.scid))))) (7 + p.dcid.length + p.scid.length)
      (by cases isServer <;> simpa using hk) hm
      (by rw [hd']; simp only [List.cons_append, List.append_assoc, Long.lengthField])
      (by simp only [List.length_cons, List.length_append, hv]; omega)
    simp only [LType.ptype, this, Long.toPkt, hty, Long.lengthField, hplen, List.length_nil]
    congr 3
  case zeroRtt =>
    simp only [hty, senderKey, senderChacha, Long.sample] at hk hm
    have htp : p.tokenPart = [] := by simp [Long.tokenPart, hty]
    rw [htp, List.nil_append] at hd'
    rw [htp] at hplen
    have := hPT .clientEarly env.chacha
      ((p.first ^^^ (m.headD 0 &&& 0x0f)) :: (p.version ++ (UInt8.ofNat p.dcid.length :: (p.dcid ++
        (UInt8.ofNat p.scid.length :: p.scid))))) (7 + p.dcid.length + p.scid.length)
      (by cases isServer <;> simpa using hk) hm
      (by rw [hd']; simp only [List.cons_append, List.append_assoc, Long.lengthField])
      (by simp only [List.length_cons, List.length_append, hv]; omega)
    simp only [LType.ptype, this, Long.toPkt, hty, Long.lengthField, hplen, List.length_nil]
    congr 3
  case initial =>
    simp only [hty, senderKey, senderChacha, Long.sample] at hk hm
    have htp : p.tokenPart = p.tokenW.enc p.token.length ++ p.token := by simp [Long.tokenPart, hty]
    rw [htp] at hd' hplen
    generalize hpre : (p.first ^^^ (m.headD 0 &&& 0x0f)) :: (p.version ++ (UInt8.ofNat p.dcid.length :: (p.dcid ++
        (UInt8.ofNat p.scid.length :: p.scid)))) = pre at *
    have hprel : pre.length = 7 + p.dcid.length + p.scid.length := by
      rw [← hpre]; simp only [List.length_cons, List.length_append, hv]; omega
    have hd2 : d = pre ++ (p.tokenW.enc p.token.length ++ (p.token ++ (p.lengthField ++ (pnm ++ (p.payload ++ rest))))) := by
      rw [hd', ← hpre]; simp only [List.cons_append, List.append_assoc]
    obtain ⟨b, r, hb, hbl, hdec⟩ := decode_enc p.tokenW p.token.length hft
      (p.token ++ (p.lengthField ++ (pnm ++ (p.payload ++ rest))))
    have henc : (p.tokenW.enc p.token.length).length = p.tokenW.w := VW.enc_length _ _
    have hw := VW.w_pos p.tokenW
    rw [List.take_append_of_le_length (by omega), List.take_of_length_le (by omega)] at hdec
    have m1 : need d (7 + p.dcid.length + p.scid.length + 1) = .ok () :=
      need_split d pre _ _ _ hd2 (by omega)
    have t1 : Bytes.slice d (7 + p.dcid.length + p.scid.length) (7 + p.dcid.length + p.scid.length + 1) = [b] :=
      slice_split d pre [b] r _ _ (by rw [hd2, hb]; rfl) (by omega) rfl
    have m2 : need d (7 + p.dcid.length + p.scid.length + p.tokenW.w) = .ok () :=
      need_split d pre _ _ _ hd2 (by omega)
    have t2 : Bytes.slice d (7 + p.dcid.length + p.scid.length) (7 + p.dcid.length + p.scid.length + p.tokenW.w)
        = p.tokenW.enc p.token.length := slice_split d pre _ _ _ _ hd2 (by omega) (by omega)
    have hd3 : d = (pre ++ p.tokenW.enc p.token.length) ++ (p.token ++ (p.lengthField ++ (pnm ++ (p.payload ++ rest)))) := by
      rw [hd2, List.append_assoc]
    have m3 : need d (7 + p.dcid.length + p.scid.length + p.tokenW.w + p.token.length) = .ok () :=
      need_split d _ _ _ _ hd3 (by simp only [List.length_append]; omega)
    have t3 : Bytes.slice d (7 + p.dcid.length + p.scid.length + p.tokenW.w)
        (7 + p.dcid.length + p.scid.length + p.tokenW.w + p.token.length) = p.token :=
      slice_split d _ _ _ _ _ hd3 (by simp only [List.length_append]; omega) rfl
    have := hPT (if isServer = true then .serverInitial else .clientInitial) false
      (pre ++ p.tokenW.enc p.token.length ++ p.token)
      (7 + p.dcid.length + p.scid.length + p.tokenW.w + p.token.length)
      (by cases isServer <;> simpa using hk) hm
      (by rw [hd2]; simp only [List.append_assoc, Long.lengthField])
      (by simp only [List.length_append]; omega)
    simp only [LType.ptype, m1, t1, getVarintLength, hbl, m2, t2, hdec, m3, t3, this, Long.toPkt, hty,
      Long.lengthField, hplen, List.length_append, henc]
    congr 3
    omega

theorem beNat_fold_eq_zero (d : Bytes) (a : Nat) :
    d.foldl (fun acc x => acc * 256 + x.toNat) a = 0 ↔ a = 0 ∧ ∀ x ∈ d, x = 0 := by
  induction d generalizing a with
  | nil => simp
  | cons y ys ih =>
    rw [List.foldl_cons, ih]
    constructor
    · rintro ⟨h, h2⟩
      have hy : y.toNat = 0 := by omega
      refine ⟨by omega, ?_⟩
      intro x hx
      rcases List.mem_cons.mp hx with rfl | hx
      · exact UInt8.toNat_inj.mp hy
      · exact h2 x hx
    · rintro ⟨rfl, h2⟩
      have := h2 y (by simp)
      subst this
      exact ⟨by simp, fun x hx => h2 x (by simp [hx])⟩

theorem beNat_eq_zero_iff (d : Bytes) : Bytes.beNat d = 0 ↔ ∀ x ∈ d, x = 0 := by
  unfold Bytes.beNat
  rw [beNat_fold_eq_zero]; simp

theorem beNat_cons_ne_zero (x : UInt8) (r : Bytes) (h : x ≠ 0) : Bytes.beNat (x :: r) ≠ 0 := by
  rw [Ne, beNat_eq_zero_iff]
  intro hall
  exact h (hall x (by simp))

theorem beNat_replicate_zero (n : Nat) : Bytes.beNat (List.replicate n 0) = 0 := by
  rw [beNat_eq_zero_iff]
  intro x hx
  exact (List.mem_replicate.mp hx).2

theorem isLong_ne_zero (x : UInt8) (h : isLong x = true) : x ≠ 0 := by
  rintro rfl
  revert h
  decide

/-- C02 for one protected long-header packet at the level of `extract_quic_packet` -/
theorem extract_protect_long (mask : MaskFn) (env : Env) (isServer : Bool) (guessed : Bytes) (ts : Nat) (p : Long)
    (hwf : p.wf) (hver : p.version ≠ [0, 0, 0, 0]) (hscid : p.scid.length ≤ 63)
    (h20 : 20 ≤ p.pn.length + p.payload.length)
    (key m : Bytes) (hk : env.keys (senderKey p.ty isServer) = some key)
    (hm : mask (senderChacha p.ty env.chacha) key p.sample = some m) (hm5 : 5 ≤ m.length) (rest : Bytes) :
    extract mask env isServer guessed ts (p.protect m ++ rest) = { pkts := [p.toPkt isServer ts], rest := rest } := by
  have h := extractLong_protect mask env isServer ts p hwf hver hscid h20 key m hk hm hm5 rest
  have hL : isLong (p.first ^^^ (m.headD 0 &&& 0x0f)) = true := by
    rw [isLong_mask _ _ _ (by decide)]; exact (long_first p hwf).1
  have hc : p.protect m ++ rest = (p.first ^^^ (m.headD 0 &&& 0x0f)) ::
      (p.mid ++ xorBytes p.pn ((m.drop 1).take p.pn.length) ++ p.payload ++ rest) := by
    simp [Long.protect, applyMask]
  unfold extract
  rw [hc] at h ⊢
  simp only [beNat_cons_ne_zero _ _ (isLong_ne_zero _ hL), if_false, hL, if_true, h]
  rw [← hc, List.drop_left]

theorem short_first_bits : ∀ s k : Fin 2, ∀ r l : Fin 4,
    let f := UInt8.ofNat (0x40 + s.val * 0x20 + r.val * 8 + k.val * 4 + l.val)
    isLong f = false ∧ (f &&& 3).toNat = l.val ∧ ((f >>> 2) &&& 1).toNat = k.val ∧ f >>> 6 = 1 := by decide

theorem short_first (p : Short) (h : p.wf) :
    isLong p.first = false ∧ (p.first &&& 3).toNat + 1 = p.pn.length ∧
    ((p.first >>> 2) &&& 1).toNat = (if p.keyPhase then 1 else 0) ∧ p.first >>> 6 = 1 := by
  obtain ⟨hr, h1, h4⟩ := h
  have := short_first_bits ⟨if p.spin then 1 else 0, by split <;> omega⟩ ⟨if p.keyPhase then 1 else 0, by split <;> omega⟩
    ⟨p.reserved, hr⟩ ⟨p.pn.length - 1, by omega⟩
  simp only at this
  unfold Short.first
  have e1 : (if p.spin then 0x20 else 0) = (if p.spin then 1 else 0) * 0x20 := by split <;> rfl
  have e2 : (if p.keyPhase then 4 else 0) = (if p.keyPhase then 1 else 0) * 4 := by split <;> rfl
  rw [e1, e2]
  exact ⟨this.1, by rw [this.2.1]; omega, this.2.2.1, this.2.2.2⟩

theorem short_masked_ne_zero (f m : UInt8) (h : f >>> 6 = 1) : f ^^^ (m &&& 0x1f) ≠ 0 := by
  intro h0
  have : (f ^^^ (m &&& 0x1f)) >>> 6 = 1 := by
    rw [UInt8.shiftRight_xor, UInt8.shiftRight_and, show (0x1f : UInt8) >>> 6 = 0 by decide, UInt8.and_zero,
      UInt8.xor_zero, h]
  rw [h0] at this
  revert this
  decide

theorem extract_protect_short (mask : MaskFn) (env : Env) (isServer : Bool) (ts : Nat) (p : Short)
    (hwf : p.wf) (h20 : 20 ≤ p.pn.length + p.payload.length)
    (key m : Bytes)
    (hk : env.keys (if isServer then .serverApplication else .clientApplication) = some key)
    (hm : mask env.chacha key p.sample = some m) (hm5 : 5 ≤ m.length) :
    extract mask env isServer p.dcid ts (p.protect m) = { pkts := [p.toPkt isServer ts], rest := [] } := by
  obtain ⟨hS, hP, hK, h6⟩ := short_first p hwf
  obtain ⟨hr, h1, h4⟩ := hwf
  generalize hpnm : xorBytes p.pn ((m.drop 1).take p.pn.length) = pnm
  have hpnml : pnm.length = p.pn.length := by
    rw [← hpnm]; exact xorBytes_length _ _ (by simp only [List.length_take, List.length_drop]; omega)
  generalize hd : p.protect m = d
  have hd' : d = (p.first ^^^ (m.headD 0 &&& 0x1f)) :: (p.dcid ++ (pnm ++ p.payload)) := by
    rw [← hd, ← hpnm]; simp only [Short.protect, applyMask, List.cons_append, List.append_assoc]
  have hS' : isLong (p.first ^^^ (m.headD 0 &&& 0x1f)) = false := by
    rw [isLong_mask _ _ _ (by decide)]; exact hS
  have hnz := beNat_cons_ne_zero _ (p.dcid ++ (pnm ++ p.payload)) (short_masked_ne_zero p.first (m.headD 0) h6)
  have e1 : d = ((p.first ^^^ (m.headD 0 &&& 0x1f)) :: p.dcid) ++ (pnm ++ (p.payload ++ [])) := by
    rw [hd']; simp
  have hlen : d.length = 1 + p.dcid.length + p.pn.length + p.payload.length := by
    rw [hd']; simp only [List.length_cons, List.length_append, hpnml]; omega
  have n1 : need d (1 + p.dcid.length) = .ok () := by
    unfold need; rw [if_neg (by omega)]
  have s1 : Bytes.slice d (1 + p.dcid.length + 4) (1 + p.dcid.length + 4 + 16) = p.sample := by
    unfold Short.sample
    rw [← sample_eq pnm p.pn p.payload [] hpnml h4 h20, e1]
    simp only [Bytes.slice, Nat.add_sub_cancel_left]
    rw [show 1 + p.dcid.length + 4 = ((p.first ^^^ (m.headD 0 &&& 0x1f)) :: p.dcid).length + 4 by
      simp only [List.length_cons]; omega, ← List.drop_drop, List.drop_left]
  have hr := removeHP_protect mask false env.chacha key p.sample m p.first d _ p.pn (p.payload ++ []) hm hm5 hP
    (by rw [hpnm]; exact e1) (1 + p.dcid.length) (by simp only [List.length_cons]; omega)
  simp only [Bool.false_eq_true, if_false] at hr
  have e2 : d = ((p.first ^^^ (m.headD 0 &&& 0x1f)) :: p.dcid ++ pnm) ++ (p.payload ++ []) := by
    rw [hd']; simp
  have s2 : Bytes.slice d (1 + p.dcid.length + p.pn.length)
      (1 + p.dcid.length + p.pn.length + (d.length - (1 + p.dcid.length + p.pn.length))) = p.payload :=
    slice_split d _ p.payload [] _ _ e2 (by simp only [List.length_cons, List.length_append, hpnml]; omega) (by omega)
  unfold extract
  rw [hd']
  simp only [hnz, if_false, hS']
  rw [← hd']
  unfold extractShort
  have hge : ¬ d.length < 1 + p.dcid.length + p.pn.length := by omega
  simp only [n1, s1, hk, ofOpt, bind, Except.bind, hr, s2, hge, if_false, hK, Short.toPkt, Bool.false_eq_true]
  rw [List.drop_eq_nil_of_le (by omega)]

theorem retry_first_bits : ∀ u : Fin 16, let f := UInt8.ofNat (0xF0 + u.val)
    isLong f = true ∧ packetType f = .retry := by decide

theorem verneg_first_bits : ∀ u : Fin 128, isLong (UInt8.ofNat (0x80 + u.val)) = true := by decide +kernel

theorem extract_retry (mask : MaskFn) (env : Env) (isServer : Bool) (guessed : Bytes) (ts : Nat) (p : Retry)
    (hwf : p.wf) (hver : p.version ≠ [0, 0, 0, 0]) (hscid : p.scid.length ≤ 63) :
    extract mask env isServer guessed ts p.encode = { pkts := [p.toPkt isServer ts], rest := [] } := by
  obtain ⟨hu, hv, hdl, hsl, htag⟩ := hwf
  obtain ⟨hL, hT⟩ := retry_first_bits ⟨p.unused, hu⟩
  simp only at hL hT
  generalize hd : p.encode = d
  have hd' : d = p.first :: (p.version ++ (UInt8.ofNat p.dcid.length :: (p.dcid ++
      (UInt8.ofNat p.scid.length :: (p.scid ++ (p.token ++ p.tag)))))) := by
    rw [← hd]; simp only [Retry.encode, List.cons_append, List.append_assoc, List.nil_append]
  obtain ⟨n1, s1, g5, n2, s2, n3, dv, n4, s4⟩ := header_facts _ _ _ _ _ d hv hscid hd'
  have hto := ofNat_toNat _ hdl
  have hlen : d.length = 7 + p.dcid.length + p.scid.length + p.token.length + 16 := by
    rw [hd']; simp only [List.length_cons, List.length_append, hv, htag]; omega
  have e1 : d = (p.first :: (p.version ++ (UInt8.ofNat p.dcid.length :: (p.dcid ++
      (UInt8.ofNat p.scid.length :: p.scid))))) ++ ((p.token ++ p.tag) ++ []) := by
    rw [hd']; simp only [List.cons_append, List.append_assoc, List.append_nil]
  have sx : Bytes.slice d (7 + p.dcid.length + p.scid.length)
      (7 + p.dcid.length + p.scid.length + (d.length - (1 + 4 + 1 + p.dcid.length + 1 + p.scid.length))) = p.token ++ p.tag :=
    slice_split d _ _ [] _ _ e1 (by simp only [List.length_cons, List.length_append, hv]; omega)
      (by simp only [List.length_append, htag]; omega)
  have hge : ¬ d.length < 1 + 4 + 1 + p.dcid.length + 1 + p.scid.length := by omega
  unfold extract
  rw [hd']
  have hnz := beNat_cons_ne_zero p.first (p.version ++ (UInt8.ofNat p.dcid.length :: (p.dcid ++
      (UInt8.ofNat p.scid.length :: (p.scid ++ (p.token ++ p.tag)))))) (isLong_ne_zero _ hL)
  unfold Retry.first at hnz hd' ⊢
  simp only [hnz, if_false, hL, if_true]
  rw [← hd']
  unfold extractLong
  simp only [n1, s1, g5, ofOpt, bind, Except.bind, hto, n2, s2, n3, dv, n4, s4, if_neg hver, hT, hge, if_false, sx,
    List.length_append, htag, Nat.add_sub_cancel, List.take_left, List.drop_left, Retry.toPkt, Retry.first]
  rw [List.drop_eq_nil_of_le (by omega)]

theorem flatten_length_ge (vs : List Bytes) (hne : vs ≠ []) (h4 : ∀ v ∈ vs, v.length = 4) : 4 ≤ vs.flatten.length := by
  cases vs with
  | nil => exact absurd rfl hne
  | cons v r =>
    simp only [List.flatten_cons, List.length_append, h4 v (by simp)]
    omega

/-- a Version Negotiation packet: the connection IDs are reported, the version list is not kept, and the
    `UnboundLocalError` on `total_packet_len` is caught (the datagram ends here, as it should) -/
theorem extract_verneg (mask : MaskFn) (env : Env) (isServer : Bool) (guessed : Bytes) (ts : Nat) (p : VerNeg)
    (hwf : p.wf) (hscid : p.scid.length ≤ 63) :
    extract mask env isServer guessed ts p.encode =
      { pkts := [p.toPkt isServer ts], rest := [], err := some .unbound } := by
  obtain ⟨hu, hdl, hsl, hne, h4⟩ := hwf
  have hL := verneg_first_bits ⟨p.unused, hu⟩
  simp only at hL
  have hfl := flatten_length_ge p.versions hne h4
  generalize hd : p.encode = d
  have hd' : d = p.first :: ([0, 0, 0, 0] ++ (UInt8.ofNat p.dcid.length :: (p.dcid ++
      (UInt8.ofNat p.scid.length :: (p.scid ++ p.versions.flatten))))) := by
    rw [← hd]; simp only [VerNeg.encode, List.cons_append, List.append_assoc, List.nil_append]
  obtain ⟨n1, s1, g5, n2, s2, n3, dv, n4, s4⟩ := header_facts _ _ _ _ _ d rfl hscid hd'
  have hto := ofNat_toNat _ hdl
  have hlen : d.length = 7 + p.dcid.length + p.scid.length + p.versions.flatten.length := by
    rw [hd']; simp only [List.length_cons, List.length_append, List.length_nil]; omega
  have n5 : need d (7 + p.dcid.length + p.scid.length + 4) = .ok () := by
    unfold need; rw [if_neg (by omega)]
  unfold extract
  rw [hd']
  have hnz := beNat_cons_ne_zero p.first ([0, 0, 0, 0] ++ (UInt8.ofNat p.dcid.length :: (p.dcid ++
      (UInt8.ofNat p.scid.length :: (p.scid ++ p.versions.flatten))))) (isLong_ne_zero _ hL)
  unfold VerNeg.first at hnz hd' ⊢
  simp only [hnz, if_false, hL, if_true]
  rw [← hd']
  unfold extractLong
  simp only [n1, s1, g5, ofOpt, bind, Except.bind, hto, n2, s2, n3, dv, n4, s4, if_true, n5, VerNeg.toPkt, VerNeg.first]

section loop
variable {σ : Type} (mask : MaskFn) (envOf : σ → Env) (handle : σ → List Pkt → σ)
  (isServer : Bool) (guessed : Bytes) (ts : Nat)

theorem dissectLoop_nil (s : σ) : dissectLoop mask envOf handle isServer guessed ts s [] = (s, []) := by
  rw [dissectLoop]; simp

theorem dissectLoop_cons (s : σ) (d : Bytes) (hd : d ≠ []) :
    dissectLoop mask envOf handle isServer guessed ts s d =
      let o := extract mask (envOf s) isServer guessed ts d
      let r := dissectLoop mask envOf handle isServer guessed ts (handle s o.pkts) o.rest
      (r.1, o.pkts ++ r.2) := by
  rw [dissectLoop]
  have : d.length ≠ 0 := by intro h; exact hd (List.eq_nil_of_length_eq_zero h)
  simp [this]

theorem dissectTrace_nil (s : σ) : dissectTrace mask envOf handle isServer guessed ts s [] = [] := by
  rw [dissectTrace]; simp

theorem dissectTrace_cons (s : σ) (d : Bytes) (hd : d ≠ []) :
    dissectTrace mask envOf handle isServer guessed ts s d =
      let o := extract mask (envOf s) isServer guessed ts d
      (d, o) :: dissectTrace mask envOf handle isServer guessed ts (handle s o.pkts) o.rest := by
  rw [dissectTrace]
  have : d.length ≠ 0 := by intro h; exact hd (List.eq_nil_of_length_eq_zero h)
  simp [this]

theorem extract_pkts_le_one (env : Env) (d : Bytes) : (extract mask env isServer guessed ts d).pkts.length ≤ 1 := by
  unfold extract
  repeat' split
  all_goals simp

theorem trace_chain (n : Nat) (s : σ) (d : Bytes) (hn : d.length = n) :
    let tr := dissectTrace mask envOf handle isServer guessed ts s d
    Chain d tr ∧ tr.length ≤ d.length ∧
    (dissectLoop mask envOf handle isServer guessed ts s d).2 = (tr.map (·.2.pkts)).flatten := by
  induction n using Nat.strongRecOn generalizing s d with
  | _ n ih =>
    by_cases hd : d = []
    · subst hd; simp [dissectTrace_nil, dissectLoop_nil, Chain]
    · rw [dissectTrace_cons _ _ _ _ _ _ _ _ hd, dissectLoop_cons _ _ _ _ _ _ _ _ hd]
      simp only
      obtain ⟨t, ht, hrest⟩ := extract_rest_suffix mask (envOf s) isServer guessed ts d hd
      have hlt : (extract mask (envOf s) isServer guessed ts d).rest.length < n := by
        rw [hrest, List.length_drop]
        have : 1 ≤ d.length := by
          cases d with
          | nil => exact absurd rfl hd
          | cons _ _ => simp
        omega
      obtain ⟨h1, h2, h3⟩ := ih _ hlt (handle s (extract mask (envOf s) isServer guessed ts d).pkts) _ rfl
      refine ⟨⟨rfl, hd, ⟨t, ht, hrest⟩, extract_pkts_le_one _ _ _ _ _ _, h1⟩, ?_, ?_⟩
      · simp only [List.length_cons]; omega
      · simp only [List.map_cons, List.flatten_cons, h3]
end loop

theorem extract_zeros (mask : MaskFn) (env : Env) (isServer : Bool) (guessed : Bytes) (ts : Nat) (n : Nat) :
    extract mask env isServer guessed ts (List.replicate (n + 1) 0) = { pkts := [], rest := [] } := by
  unfold extract
  rw [List.replicate_succ]
  simp only
  rw [← List.replicate_succ, if_pos (beNat_replicate_zero _)]

theorem protect_long_ne_nil (p : Long) (m rest : Bytes) : p.protect m ++ rest ≠ [] := by
  simp [Long.protect, applyMask]

theorem protect_short_ne_nil (p : Short) (m : Bytes) : p.protect m ≠ [] := by
  simp [Short.protect, applyMask]

section
variable {σ : Type} (mask : MaskFn) (envOf : σ → Env) (handle : σ → List Pkt → σ)
  (isServer : Bool) (guessed : Bytes) (ts : Nat)

theorem loop_tail (s : σ) (tail : Tail) (ht : TailOK mask (envOf s) isServer guessed tail) :
    (dissectLoop mask envOf handle isServer guessed ts s tail.bytes).2 = tail.pkts isServer ts := by
  cases tail with
  | none => simp [Tail.bytes, Tail.pkts, dissectLoop_nil]
  | zeros n =>
    cases n with
    | zero => simp [Tail.bytes, Tail.pkts, dissectLoop_nil]
    | succ n =>
      simp only [Tail.bytes, Tail.pkts]
      rw [dissectLoop_cons _ _ _ _ _ _ _ _ (by simp [List.replicate_succ])]
      simp only [extract_zeros, dissectLoop_nil, List.append_nil]
  | short p m =>
    obtain ⟨hwf, h20, hm5, hg, key, hk, hm⟩ := ht
    subst hg
    simp only [Tail.bytes, Tail.pkts]
    rw [dissectLoop_cons _ _ _ _ _ _ _ _ (protect_short_ne_nil p m)]
    simp only [extract_protect_short mask (envOf s) isServer ts p hwf h20 key m hk hm hm5, dissectLoop_nil,
      List.append_nil]

theorem loop_coalesced (longs : List (Long × Bytes)) (tail : Tail) (s : σ)
    (hl : LongsOK mask envOf handle isServer ts s longs)
    (ht : TailOK mask (envOf (afterLongs handle isServer ts s longs)) isServer guessed tail) :
    (dissectLoop mask envOf handle isServer guessed ts s
        ((longs.map (fun x => x.1.protect x.2)).flatten ++ tail.bytes)).2 =
      longs.map (fun x => x.1.toPkt isServer ts) ++ tail.pkts isServer ts := by
  induction longs generalizing s with
  | nil => simpa [afterLongs] using loop_tail mask envOf handle isServer guessed ts s tail ht
  | cons x xs ih =>
    obtain ⟨⟨hwf, hver, hscid, h20, hm5, key, hk, hm⟩, hrest⟩ := hl
    simp only [List.map_cons, List.flatten_cons, List.append_assoc, List.cons_append]
    rw [dissectLoop_cons _ _ _ _ _ _ _ _ (protect_long_ne_nil _ _ _)]
    simp only [extract_protect_long mask (envOf s) isServer guessed ts x.1 hwf hver hscid h20 key x.2 hk hm hm5,
      List.cons_append, List.nil_append]
    congr 1
    exact ih _ hrest ht
end

theorem decodeVarint_single_big (x : UInt8) (h : 64 ≤ x.toNat) : decodeVarint [x] = none := by
  have hl : 2 ≤ varintLen x := by
    unfold varintLen
    rw [Nat.shiftRight_eq_div_pow, Nat.shiftLeft_eq, Nat.one_mul]
    have : 1 ≤ x.toNat / 2 ^ 6 := by omega
    calc 2 = 2 ^ 1 := rfl
      _ ≤ 2 ^ (x.toNat / 2 ^ 6) := Nat.pow_le_pow_right (by omega) this
  simp only [decodeVarint, List.length_nil]
  rw [if_pos (by omega)]

/-- CODE LIMIT: `scid_len = decode_variable_length_int(<the one SCID Length byte>)` — a Source Connection ID of 64
    bytes or more (encodable: the field has 8 bits; not allowed in QUIC v1) makes the dissector read
    `variable_integer[1]` of a one-byte string: IndexError, the whole datagram is dropped -/
theorem extract_scid_too_long (mask : MaskFn) (env : Env) (isServer : Bool) (guessed : Bytes) (ts : Nat) (p : Long)
    (hwf : p.wf) (h64 : 64 ≤ p.scid.length) (m rest : Bytes) :
    extract mask env isServer guessed ts (p.protect m ++ rest) = { pkts := [], rest := [], err := some .index } := by
  have hL : isLong (p.first ^^^ (m.headD 0 &&& 0x0f)) = true := by
    rw [isLong_mask _ _ _ (by decide)]; exact (long_first p hwf).1
  obtain ⟨hr, hv, hdl, hsl, h1, h4, hft, hfl⟩ := hwf
  generalize hT : p.tokenPart ++ (p.lengthField ++ (xorBytes p.pn ((m.drop 1).take p.pn.length) ++ (p.payload ++ rest))) = T
  generalize hd : p.protect m ++ rest = d
  have hd' : d = (p.first ^^^ (m.headD 0 &&& 0x0f)) :: (p.version ++ (UInt8.ofNat p.dcid.length :: (p.dcid ++
      (UInt8.ofNat p.scid.length :: (p.scid ++ T))))) := by
    rw [← hd, ← hT]; simp [Long.protect, applyMask, Long.mid]
  have e2 : d = ((p.first ^^^ (m.headD 0 &&& 0x0f)) :: p.version) ++ ([UInt8.ofNat p.dcid.length] ++ (p.dcid ++ (UInt8.ofNat p.scid.length :: (p.scid ++ T)))) := by
    rw [hd']; simp
  have e3 : d = ((p.first ^^^ (m.headD 0 &&& 0x0f)) :: p.version ++ [UInt8.ofNat p.dcid.length]) ++ (p.dcid ++ (UInt8.ofNat p.scid.length :: (p.scid ++ T))) := by
    rw [hd']; simp
  have e4 : d = ((p.first ^^^ (m.headD 0 &&& 0x0f)) :: p.version ++ [UInt8.ofNat p.dcid.length] ++ p.dcid) ++ ([UInt8.ofNat p.scid.length] ++ (p.scid ++ T)) := by
    rw [hd']; simp
  have n1 : need d 6 = .ok () := need_split d _ _ _ _ e2 (by simp [hv])
  have g5 : d[5]? = some (UInt8.ofNat p.dcid.length) := by
    rw [e2, List.getElem?_append_right (by simp [hv])]; simp [hv]
  have n2 : need d (6 + p.dcid.length) = .ok () := need_split d _ _ _ _ e3 (by simp [hv])
  have n3 : need d (7 + p.dcid.length) = .ok () := need_split d _ _ _ _ e4 (by simp [hv]; omega)
  have s3 := slice_split d _ [UInt8.ofNat p.scid.length] _ (6 + p.dcid.length) (7 + p.dcid.length) e4
      (by simp [hv]; omega) (by simp; omega)
  have hto := ofNat_toNat _ hdl
  have dv : decodeVarint [UInt8.ofNat p.scid.length] = none :=
    decodeVarint_single_big _ (by rw [ofNat_toNat _ hsl]; exact h64)
  unfold extract
  rw [hd']
  simp only [beNat_cons_ne_zero _ _ (isLong_ne_zero _ hL), if_false, hL, if_true]
  rw [← hd']
  unfold extractLong
  simp only [n1, g5, ofOpt, bind, Except.bind, hto, n2, n3, s3, dv]

theorem aad_long (p : Long) (fromServer : Bool) (ts : Nat) : aad (p.toPkt fromServer ts) = some p.header := by
  cases hty : p.ty <;>
    simp [aad, Long.toPkt, hty, LType.ptype, Long.header, Long.mid, Long.tokenPart]

theorem aad_short (p : Short) (fromServer : Bool) (ts : Nat) : aad (p.toPkt fromServer ts) = some p.header := by
  simp [aad, Short.toPkt, Short.header]

theorem protectedTail_payload_slice (mask : MaskFn) (env : Env) (name : KeyName) (chacha : Bool) (d : Bytes) (fb : UInt8)
    (lenOff : Nat) (r : Bytes × UInt8 × Bytes × Nat × Bytes × Nat)
    (h : protectedTail mask env name chacha d fb lenOff = .ok r) :
    (∃ a b, r.2.2.2.2.1 = Bytes.slice d a b) ∧ (∃ a b, r.1 = Bytes.slice d a b) := by
  unfold protectedTail at h
  simp only [bind, Except.bind] at h
  repeat' split at h
  all_goals first
    | (simp only [Except.ok.injEq] at h; subst h; exact ⟨⟨_, _, rfl⟩, ⟨_, _, rfl⟩⟩)
    | (simp at h)

/-- "never invents data": on arbitrary bytes, the payload, token, Length bytes, connection IDs and Retry fields of a
    returned packet are Python slices of the datagram -/
theorem extract_fields_slices (mask : MaskFn) (env : Env) (isServer : Bool) (guessed : Bytes) (ts : Nat) (d : Bytes)
    (p : Pkt) (hp : p ∈ (extract mask env isServer guessed ts d).pkts) :
    (∀ x, p.payload = some x → ∃ a b, x = Bytes.slice d a b) ∧
    (∀ x, p.token = some x → ∃ a b, x = Bytes.slice d a b) ∧
    (∀ x, p.lenBytes = some x → ∃ a b, x = Bytes.slice d a b) := by
  unfold extract at hp
  split at hp
  · simp at hp
  · split at hp
    · simp at hp
    · split at hp
      · simp at hp
      all_goals
        rename_i q _ hq
        simp only [List.mem_singleton] at hp
        subst hp
        split at hq
        · unfold extractLong at hq
          simp only [bind, Except.bind] at hq
          repeat' split at hq
          all_goals first
            | (simp at hq; done)
            | (simp only [Except.ok.injEq, Prod.mk.injEq] at hq
               obtain ⟨rfl, -⟩ := hq
               rename_i hpt
               first
                 | (simp; done)
                 | (obtain ⟨⟨a, b, h1⟩, ⟨a', b', h2⟩⟩ := protectedTail_payload_slice _ _ _ _ _ _ _ _ hpt
                    refine ⟨?_, ?_, ?_⟩ <;> intro x hx <;> first
                      | (simp at hx; done)
                      | (simp only [Option.some.injEq] at hx; subst hx
                         first | exact ⟨_, _, h1⟩ | exact ⟨_, _, h2⟩ | exact ⟨_, _, rfl⟩)))
        · unfold extractShort at hq
          simp only [bind, Except.bind] at hq
          repeat' split at hq
          all_goals first
            | (simp at hq; done)
            | (simp only [Except.ok.injEq, Prod.mk.injEq] at hq
               obtain ⟨rfl, -⟩ := hq
               refine ⟨?_, ?_, ?_⟩ <;> intro x hx <;> first
                 | (simp at hx; done)
                 | (simp only [Option.some.injEq] at hx; subst hx; exact ⟨_, _, rfl⟩))

end TLX.Lemmas.QuicDissect
