/-
Helper lemmas for C11 (and for the emitted checksums of C06): one's-complement arithmetic on `Nat`,
word sums over byte lists, and the two-byte encodings. Core Lean only.
-/
import TLX.Checksum
import TLX.Spec.Rfc1071
namespace TLX.Lemmas.OnesComplement
open TLX TLX.Checksum TLX.Spec.Rfc1071

/-- The canonical representative of `s` in 16-bit one's-complement arithmetic: `0` only for `0`,
    otherwise the value in `1 … 0xFFFF` congruent to `s` modulo `0xFFFF`. -/
def norm (s : Nat) : Nat := if s = 0 then 0 else (s - 1) % 65535 + 1

theorem norm_le (s : Nat) : norm s ≤ 65535 := by unfold norm; split <;> omega

theorem norm_pos {s : Nat} (h : 0 < s) : 0 < norm s := by unfold norm; split <;> omega

theorem implFold_eq_norm (s : Nat) : implFold s = norm s := by
  induction s using Nat.strongRecOn with
  | _ s ih =>
    rw [implFold]
    split
    · rename_i h
      have hlt : s / 65536 + s % 65536 < s := by omega
      rw [ih _ hlt]
      unfold norm
      have hpos : s / 65536 + s % 65536 ≠ 0 := by omega
      have hs : s ≠ 0 := by omega
      rw [if_neg hpos, if_neg hs]
      omega
    · unfold norm
      split <;> omega

/-! ### Word sums over byte lists -/

theorem wordSum_append (a b : Bytes) (h : a.length % 2 = 0) :
    wordSum (a ++ b) = wordSum a + wordSum b := by
  fun_induction wordSum a with
  | case1 => simp
  | case2 x => simp at h
  | case3 x y rest ih =>
    simp only [List.length_cons] at h
    have := ih (by omega)
    simp only [List.cons_append, wordSum]
    omega

theorem pad_append (a b : Bytes) (h : a.length % 2 = 0) : pad (a ++ b) = a ++ pad b := by
  unfold pad
  simp only [List.length_append]
  by_cases hb : b.length % 2 = 0
  · rw [if_neg (by omega), if_neg (by omega)]
  · rw [if_pos (by omega), if_pos (by omega), List.append_assoc]

theorem pad_even (a : Bytes) (h : a.length % 2 = 0) : pad a = a := by
  unfold pad; rw [if_neg (by omega)]

/-- The 32-bit sum `ones_complement_checksum` forms over its argument. -/
def S (b : Bytes) : Nat := wordSum (pad b)

theorem S_append (a b : Bytes) (h : a.length % 2 = 0) : S (a ++ b) = wordSum a + S b := by
  unfold S; rw [pad_append a b h, wordSum_append a _ h]

theorem S_even (a : Bytes) (h : a.length % 2 = 0) : S a = wordSum a := by
  unfold S; rw [pad_even a h]

theorem words_sum (b : Bytes) : (words b).sum = S b := by
  fun_induction words b with
  | case1 => simp [S, pad, wordSum]
  | case2 x => simp [S, pad, wordSum]
  | case3 x y rest ih =>
    have : S (x :: y :: rest) = wordSum [x, y] + S rest := S_append [x, y] rest (by simp)
    rw [this]
    simp only [List.sum_cons, ih, wordSum]
    omega

theorem words_le (b : Bytes) : ∀ w ∈ words b, w ≤ 65535 := by
  fun_induction words b with
  | case1 => simp
  | case2 x =>
    intro w hw
    simp only [List.mem_singleton] at hw
    have := x.toNat_lt
    omega
  | case3 x y rest ih =>
    intro w hw
    simp only [List.mem_cons] at hw
    rcases hw with rfl | hw
    · have := x.toNat_lt; have := y.toNat_lt; omega
    · exact ih w hw

theorem words_append (a b : Bytes) (h : a.length % 2 = 0) : words (a ++ b) = words a ++ words b := by
  fun_induction words a with
  | case1 => simp
  | case2 x => simp at h
  | case3 x y rest ih =>
    simp only [List.length_cons] at h
    simp only [List.cons_append, words, ih (by omega)]

/-! ### End-around-carry addition is addition modulo `0xFFFF` -/

theorem ocAdd_norm (x b : Nat) (hb : b ≤ 65535) : ocAdd (norm x) b = norm (x + b) := by
  unfold ocAdd norm
  split <;> split <;> split <;> omega

theorem foldl_ocAdd (ws : List Nat) : ∀ x, (∀ w ∈ ws, w ≤ 65535) →
    ws.foldl ocAdd (norm x) = norm (x + ws.sum) := by
  induction ws with
  | nil => intro x _; simp
  | cons w rest ih =>
    intro x h
    simp only [List.foldl_cons, List.sum_cons]
    rw [ocAdd_norm x w (h w (by simp)), ih (x + w) (fun v hv => h v (by simp [hv]))]
    congr 1
    omega

theorem ocSum_eq_norm (ws : List Nat) (h : ∀ w ∈ ws, w ≤ 65535) : ocSum ws = norm ws.sum := by
  have := foldl_ocAdd ws 0 h
  simpa [ocSum, norm] using this

/-! ### Two-byte encodings -/

theorem ofNatBE_two (n : Nat) : Bytes.ofNatBE 2 n = [UInt8.ofNat (n / 256 % 256), UInt8.ofNat (n % 256)] := by
  simp [Bytes.ofNatBE]

theorem two_eq (xs : Bytes) (h : xs.length = 2) : ∃ a b, xs = [a, b] := by
  match xs, h with
  | [a, b], _ => exact ⟨a, b, rfl⟩

/-- `n.to_bytes(2, 'big') == bytes([h, l])` says `n = 256·h + l`. -/
theorem ofNatBE_two_eq (n : Nat) (h l : UInt8) (hn : n < 65536) :
    Bytes.ofNatBE 2 n = [h, l] ↔ n = h.toNat * 256 + l.toNat := by
  rw [ofNatBE_two]
  have hh := h.toNat_lt
  have hl := l.toNat_lt
  simp only [List.cons.injEq, and_true, ← UInt8.toNat_inj, UInt8.toNat_ofNat']
  omega

/-- Complementing both bytes of a 16-bit value is subtracting it from `0xFFFF`. -/
theorem complement_ofNatBE_two (s : Nat) (hs : s ≤ 65535) :
    complement (Bytes.ofNatBE 2 s) = Bytes.ofNatBE 2 (65535 - s) := by
  rw [ofNatBE_two, ofNatBE_two]
  simp only [complement, List.map_cons, List.map_nil, UInt8.toNat_ofNat', List.cons.injEq, and_true]
  constructor <;> (congr 1; omega)

theorem wordSum_two (h l : UInt8) : wordSum [h, l] = h.toNat * 256 + l.toNat := by
  simp [wordSum]

/-- `ones_complement_checksum` never raises and returns the two bytes of `0xFFFF - fold(sum)`. -/
theorem onesComplementChecksum_eq (b : Bytes) :
    onesComplementChecksum b = .ok (Bytes.ofNatBE 2 (65535 - norm (S b))) := by
  have hle := norm_le (S b)
  simp only [onesComplementChecksum, implFold_eq_norm, toBytes2, bind, Except.bind, pure, Except.pure]
  rw [if_pos (by unfold S at hle; omega)]
  simp only [complement_ofNatBE_two _ (show norm (wordSum (pad b)) ≤ 65535 from hle), S]

/-! ### The checksum field inside a segment -/

/-- A segment long enough to hold the field splits around it. -/
theorem split_field (k : L4) (seg : Bytes) (hlen : k.off + 2 ≤ seg.length) :
    ∃ h l, seg = seg.take k.off ++ [h, l] ++ seg.drop (k.off + 2) ∧ storedField k seg = [h, l] := by
  have hm : ((seg.drop k.off).take 2).length = 2 := by
    simp only [List.length_take, List.length_drop]; omega
  obtain ⟨h, l, hhl⟩ := two_eq _ hm
  refine ⟨h, l, ?_, ?_⟩
  · have e1 := (List.take_append_drop k.off seg).symm
    have e2 := (List.take_append_drop 2 (seg.drop k.off)).symm
    rw [List.drop_drop, hhl] at e2
    conv => lhs; rw [e1, e2]
    simp
  · simp only [storedField, Bytes.slice]
    rw [show k.off + 2 - k.off = 2 by omega]
    exact hhl

theorem off_even (k : L4) : k.off % 2 = 0 := by cases k <;> decide

theorem words_length (b : Bytes) : (words b).length = (b.length + 1) / 2 := by
  fun_induction words b with
  | case1 => simp
  | case2 x => simp
  | case3 x y rest ih => simp only [List.length_cons, ih]; omega

/-! ### Both sides of C11 as numbers -/

/-- The model's transports seen by the specification. -/
def toSpec : L4 → Transport
  | .tcp => .tcp
  | .udp => .udp

/-- What the IP header and dpkt's dissection guarantee about the inputs of the checksum functions:
    addresses of even length (4 or 16 bytes), a segment that contains the checksum field (dpkt wants the
    whole 20- or 8-byte header) and whose length fits the IP length field. -/
structure Dissected (k : L4) (v6 : Bool) (src dst seg : Bytes) : Prop where
  src_even : src.length % 2 = 0
  dst_even : dst.length % 2 = 0
  field : k.off + 2 ≤ seg.length
  len : seg.length < (if v6 then 4294967296 else 65536)

/-- Contribution of the length field(s) of the pseudo-header to the sum. -/
def lenPart (v6 : Bool) (n : Nat) : Nat := if v6 then n / 65536 + n % 65536 else n

/-- The 32-bit sum over pseudo-header and segment with the checksum field left out. -/
def baseSum (k : L4) (v6 : Bool) (src dst seg : Bytes) : Nat :=
  wordSum src + wordSum dst + k.num + lenPart v6 seg.length
    + wordSum (seg.take k.off) + S (seg.drop (k.off + 2))

theorem num_pos (k : L4) : 0 < k.num ∧ k.num < 256 := by cases k <;> decide

theorem baseSum_pos (k : L4) (v6 : Bool) (src dst seg : Bytes) : 0 < baseSum k v6 src dst seg := by
  have := (num_pos k).1
  unfold baseSum; omega

/-- The pseudo-header is built without an exception, has even length, and sums to addresses +
    protocol + length. -/
theorem pseudoHeader_ok (k : L4) (v6 : Bool) (src dst : Bytes) (n : Nat)
    (hs : src.length % 2 = 0) (hd : dst.length % 2 = 0) (hn : n < (if v6 then 4294967296 else 65536)) :
    ∃ ph, pseudoHeader v6 src dst k.num n = .ok ph ∧ ph.length % 2 = 0 ∧
      wordSum ph = wordSum src + wordSum dst + k.num + lenPart v6 n := by
  have hk := num_pos k
  cases v6 with
  | false =>
    simp only [Bool.false_eq_true, if_false] at hn
    refine ⟨src ++ dst ++ [0] ++ Bytes.ofNatBE 1 k.num ++ Bytes.ofNatBE 2 n, ?_, ?_, ?_⟩
    · simp [pseudoHeader, toBytes1, toBytes2, hk.2, hn, bind, Except.bind, pure, Except.pure]
    · simp only [Bytes.ofNatBE, List.length_append, List.length_cons, List.length_nil]; omega
    · rw [List.append_assoc, List.append_assoc, List.append_assoc, wordSum_append _ _ hs, wordSum_append _ _ hd]
      simp only [Bytes.ofNatBE, List.nil_append, List.cons_append, wordSum, UInt8.toNat_ofNat', lenPart,
        Bool.false_eq_true, if_false, UInt8.toNat_zero]
      omega
  | true =>
    simp only [if_true] at hn
    refine ⟨src ++ dst ++ Bytes.ofNatBE 4 n ++ [0, 0, 0] ++ Bytes.ofNatBE 1 k.num, ?_, ?_, ?_⟩
    · simp [pseudoHeader, toBytes1, toBytes4, hk.2, hn, bind, Except.bind, pure, Except.pure]
    · simp only [Bytes.ofNatBE, List.length_append, List.length_cons, List.length_nil]; omega
    · rw [List.append_assoc, List.append_assoc, List.append_assoc, wordSum_append _ _ hs, wordSum_append _ _ hd]
      simp only [Bytes.ofNatBE, List.nil_append, List.cons_append, wordSum, UInt8.toNat_ofNat', lenPart,
        if_true, UInt8.toNat_zero]
      omega

/-- Model side: the value `ones_complement_checksum` returns inside `check`. -/
theorem model_sum (k : L4) (v6 : Bool) (src dst seg : Bytes) (hd : Dissected k v6 src dst seg) :
    ∃ ph, pseudoHeader v6 src dst k.num seg.length = .ok ph ∧
      onesComplementChecksum (ph ++ zeroField k seg)
        = .ok (Bytes.ofNatBE 2 (65535 - norm (baseSum k v6 src dst seg))) := by
  obtain ⟨ph, hph, hev, hsum⟩ := pseudoHeader_ok k v6 src dst seg.length hd.src_even hd.dst_even hd.len
  refine ⟨ph, hph, ?_⟩
  rw [onesComplementChecksum_eq, S_append _ _ hev, hsum]
  have hpre : (seg.take k.off).length % 2 = 0 := by
    have := hd.field; have := off_even k
    simp only [List.length_take]; omega
  have : S (zeroField k seg) = wordSum (seg.take k.off) + S (seg.drop (k.off + 2)) := by
    unfold zeroField
    rw [List.append_assoc, S_append _ _ hpre, S_append [0, 0] _ (by simp)]
    simp [wordSum]
  rw [this]
  simp only [baseSum, Nat.add_assoc]

/-- Specification side: the one's-complement sum the receiver forms, and the field it reads. -/
theorem spec_sum (k : L4) (v6 : Bool) (src dst seg : Bytes) (hd : Dissected k v6 src dst seg) :
    ∃ h l : UInt8, storedField k seg = [h, l] ∧
      storedChecksum (toSpec k) seg = h.toNat * 256 + l.toNat ∧
      ocSum (pseudoWords v6 src dst (toSpec k) seg.length ++ words seg)
        = norm (baseSum k v6 src dst seg + (h.toNat * 256 + l.toNat)) := by
  obtain ⟨h, l, hseg, hst⟩ := split_field k seg hd.field
  have hoff := off_even k
  have hfield := hd.field
  have hprelen : (seg.take k.off).length = k.off := by simp only [List.length_take]; omega
  have hpre : (seg.take k.off).length % 2 = 0 := by omega
  have hwords : words seg = words (seg.take k.off) ++ (h.toNat * 256 + l.toNat) :: words (seg.drop (k.off + 2)) := by
    conv => lhs; rw [hseg]
    rw [List.append_assoc, words_append _ _ hpre]
    simp [words]
  refine ⟨h, l, hst, ?_, ?_⟩
  · unfold storedChecksum
    rw [hwords, List.getD_eq_getElem?_getD, List.getElem?_append_right (by rw [words_length, hprelen]; cases k <;> decide)]
    rw [words_length, hprelen]
    cases k <;> simp [toSpec, Transport.checksumWord, L4.off]
  · have hproto : (toSpec k).proto = k.num := by cases k <;> rfl
    have hk := num_pos k
    have hlen := hd.len
    rw [ocSum_eq_norm]
    · congr 1
      rw [List.sum_append, words_sum seg]
      have hS : S seg = wordSum (seg.take k.off) + (h.toNat * 256 + l.toNat) + S (seg.drop (k.off + 2)) := by
        conv => lhs; rw [hseg]
        rw [List.append_assoc, S_append _ _ hpre, S_append [h, l] _ (by simp), wordSum_two]
        omega
      rw [hS]
      cases v6 with
      | false =>
        simp only [pseudoWords, Bool.false_eq_true, if_false, List.sum_append, words_sum, List.sum_cons, List.sum_nil,
          S_even _ hd.src_even, S_even _ hd.dst_even, hproto, baseSum, lenPart]
        omega
      | true =>
        simp only [pseudoWords, if_true, List.sum_append, words_sum, List.sum_cons, List.sum_nil,
          S_even _ hd.src_even, S_even _ hd.dst_even, hproto, baseSum, lenPart]
        omega
    · intro w hw
      simp only [List.mem_append] at hw
      rcases hw with hw | hw
      · cases v6 with
        | false =>
          simp only [Bool.false_eq_true, if_false] at hlen
          simp only [pseudoWords, Bool.false_eq_true, if_false, List.mem_append, List.mem_cons, List.not_mem_nil,
            or_false] at hw
          rcases hw with (hw | hw) | hw | hw
          · exact words_le _ w hw
          · exact words_le _ w hw
          · omega
          · omega
        | true =>
          simp only [if_true] at hlen
          simp only [pseudoWords, if_true, List.mem_append, List.mem_cons, List.not_mem_nil, or_false] at hw
          rcases hw with (hw | hw) | hw | hw | hw | hw
          · exact words_le _ w hw
          · exact words_le _ w hw
          · omega
          · omega
          · omega
          · omega
      · exact words_le _ w hw

/-! ### The decisions as arithmetic -/

theorem tcp_decision (s0 st : Nat) (h0 : 0 < s0) (hst : st ≤ 65535) :
    ((65535 - norm s0 = 0 ∧ st = 65535) ∨ 65535 - norm s0 = st) ↔ norm (s0 + st) = 65535 := by
  unfold norm
  rw [if_neg (by omega), if_neg (by omega)]
  omega

theorem udp_decision (s0 st : Nat) (h0 : 0 < s0) (hst : st ≤ 65535) (hnz : st ≠ 0) :
    (if 65535 - norm s0 = 0 then 65535 else 65535 - norm s0) = st ↔ norm (s0 + st) = 65535 := by
  have e1 : norm s0 = (s0 - 1) % 65535 + 1 := by unfold norm; rw [if_neg (by omega)]
  have e2 : norm (s0 + st) = (s0 + st - 1) % 65535 + 1 := by unfold norm; rw [if_neg (by omega)]
  rw [e1, e2]
  split <;> omega

theorem udp_zero (s0 : Nat) (h0 : 0 < s0) :
    (if 65535 - norm s0 = 0 then 65535 else 65535 - norm s0) ≠ 0 := by
  have := norm_pos h0
  have := norm_le s0
  split <;> omega

/-! ### `check` as arithmetic -/

theorem beq_two (n : Nat) (h l : UInt8) (hn : n < 65536) :
    (Bytes.ofNatBE 2 n == [h, l]) = decide (n = h.toNat * 256 + l.toNat) := by
  rw [Bool.eq_iff_iff, beq_iff_eq, decide_eq_true_iff]; exact ofNatBE_two_eq n h l hn

theorem ff_beq (h l : UInt8) :
    (([h, l] : Bytes) == [0xFF, 0xFF]) = decide (h.toNat * 256 + l.toNat = 65535) := by
  rw [Bool.eq_iff_iff, beq_iff_eq, decide_eq_true_iff]
  have hh := h.toNat_lt
  have hl := l.toNat_lt
  simp only [List.cons.injEq, and_true, ← UInt8.toNat_inj]
  have : (0xFF : UInt8).toNat = 255 := rfl
  rw [this]; omega

theorem ff_eq : ([0xFF, 0xFF] : Bytes) = Bytes.ofNatBE 2 65535 := by rw [ofNatBE_two]; rfl
theorem zz_eq : ([0, 0] : Bytes) = Bytes.ofNatBE 2 0 := by rw [ofNatBE_two]; rfl

/-- `check` as arithmetic on the base sum `s0` and the stored field `st`. -/
theorem check_arith (k : L4) (v6 : Bool) (src dst seg : Bytes) (hd : Dissected k v6 src dst seg) :
    ∃ st, st ≤ 65535 ∧ storedChecksum (toSpec k) seg = st ∧
      ocSum (pseudoWords v6 src dst (toSpec k) seg.length ++ words seg) = norm (baseSum k v6 src dst seg + st) ∧
      check k v6 src dst k.num seg = .ok (
        let c := 65535 - norm (baseSum k v6 src dst seg)
        match k with
        | .tcp => if c = 0 ∧ st = 65535 then true else decide (c = st)
        | .udp => decide ((if c = 0 then 65535 else c) = st)) := by
  obtain ⟨ph, hph, hcalc⟩ := model_sum k v6 src dst seg hd
  obtain ⟨h, l, hst, hstored, hoc⟩ := spec_sum k v6 src dst seg hd
  have hh := h.toNat_lt
  have hl := l.toNat_lt
  have hn := norm_le (baseSum k v6 src dst seg)
  refine ⟨h.toNat * 256 + l.toNat, by omega, hstored, hoc, ?_⟩
  simp only [check, hph, hcalc, hst, bind, Except.bind, pure, Except.pure]
  cases k with
  | tcp =>
    simp only [beq_two _ 0 0 (show 65535 - norm (baseSum .tcp v6 src dst seg) < 65536 by omega),
      beq_two _ h l (show 65535 - norm (baseSum .tcp v6 src dst seg) < 65536 by omega), ff_beq]
    simp only [UInt8.toNat_zero, Nat.zero_mul, Nat.add_zero, Bool.and_eq_true, decide_eq_true_eq]
    split <;> simp_all
  | udp =>
    simp only [beq_two _ 0 0 (show 65535 - norm (baseSum .udp v6 src dst seg) < 65536 by omega)]
    simp only [UInt8.toNat_zero, Nat.zero_mul, Nat.add_zero, decide_eq_true_eq]
    split
    · rename_i hA
      rw [ff_eq, beq_two _ h l (by omega)]
    · rename_i hA
      rw [beq_two _ h l (by omega)]

end TLX.Lemmas.OnesComplement
