/-
`handle_packet` for all packets first and `get_tls_records` once at the end (the source) give the same
records as the fused per-packet `stepW` (the model used everywhere else): `extract` neither reads nor
writes the seen list.  Core Lean only.
-/
import TLX.Reassembly
namespace TLX.Lemmas.TwoPass
open TLX TLX.Reassembly

theorem deliver_seen (W : Nat) (st : St) (s : List Nat) (base : Nat) (buf : List Seg) :
    deliver W { st with seen := s } base buf = { deliver W st base buf with seen := s } := by
  unfold deliver
  split
  · rfl
  · split
    · rfl
    · split
      · rfl
      · split <;> rfl

theorem extract_of_cons (W : Nat) (st : St) (first : Seg) (rest : List Seg) (hb : st.buf = first :: rest) :
    extract W st = deliver W st (baseOf W st.next first rest)
      (sortBy (syncKey W (baseOf W st.next first rest)) (first :: rest)) := by
  unfold extract
  rw [hb]

theorem extract_of_nil (W : Nat) (st : St) (hb : st.buf = []) : extract W st = st := by
  unfold extract
  rw [hb]

/-- `extract` is blind to the seen list. -/
theorem extract_seen_irrel (W : Nat) (st : St) (s : List Nat) :
    extract W { st with seen := s } = { extract W st with seen := s } := by
  obtain ⟨seen, next, buf, out⟩ := st
  cases buf with
  | nil => rw [extract_of_nil W ⟨seen, next, [], out⟩ rfl, extract_of_nil W _ rfl]
  | cons first rest =>
    rw [extract_of_cons W ⟨seen, next, first :: rest, out⟩ first rest rfl, extract_of_cons W _ first rest rfl]
    exact deliver_seen W ⟨seen, next, first :: rest, out⟩ s _ _

theorem extract_seen' (W : Nat) (st : St) : (extract W st).seen = st.seen := by
  have := extract_seen_irrel W st st.seen
  have h : ({ st with seen := st.seen } : St) = st := rfl
  rw [h] at this
  rw [this]

/-- Fused run from `st` = second pass from any state with the same buffer, `next` and output, over the
    packets the first pass lets through. -/
theorem fused_eq (W : Nat) :
    ∀ (segs : List Seg) (st st' : St), st'.next = st.next → st'.buf = st.buf → st'.out = st.out →
      (drainW W st' (accept st.seen (segs.filter (fun p => !p.data.isEmpty))).1).out =
        (segs.foldl (ingestW W) st).out ∧
      (drainW W st' (accept st.seen (segs.filter (fun p => !p.data.isEmpty))).1).buf =
        (segs.foldl (ingestW W) st).buf ∧
      (drainW W st' (accept st.seen (segs.filter (fun p => !p.data.isEmpty))).1).next =
        (segs.foldl (ingestW W) st).next := by
  intro segs
  induction segs with
  | nil => intro st st' h1 h2 h3; exact ⟨h3, h2, h1⟩
  | cons p ps ih =>
    intro st st' h1 h2 h3
    rw [List.foldl_cons]
    by_cases he : p.data.isEmpty = true
    · have : ingestW W st p = st := by unfold ingestW; rw [if_pos he]
      rw [this, List.filter_cons_of_neg (by simpa using he)]
      exact ih st st' h1 h2 h3
    · have hing : ingestW W st p = stepW W st p := by unfold ingestW; rw [if_neg he]
      rw [hing, List.filter_cons_of_pos (by simpa using he)]
      unfold stepW
      by_cases hc : st.seen.contains p.seq = true
      · rw [if_pos hc]
        simp only [accept, hc, if_true]
        exact ih st st' h1 h2 h3
      · rw [if_neg hc]
        simp only [accept, hc, Bool.false_eq_true, if_false]
        unfold drainW
        rw [List.foldl_cons]
        -- the states after the first accepted packet agree up to the seen list
        have hcore : extract W { st' with buf := st'.buf ++ [p] } =
            { extract W { st with seen := st.seen ++ [p.seq], buf := st.buf ++ [p] } with seen := st'.seen } := by
          have e : ({ st' with buf := st'.buf ++ [p] } : St) =
              { ({ st with seen := st.seen ++ [p.seq], buf := st.buf ++ [p] } : St) with seen := st'.seen } := by
            cases st; cases st'; simp only at h1 h2 h3; simp [h1, h2, h3]
          rw [e, extract_seen_irrel]
        have hseen : (extract W { st with seen := st.seen ++ [p.seq], buf := st.buf ++ [p] }).seen =
            st.seen ++ [p.seq] := by rw [extract_seen']
        have := ih (extract W { st with seen := st.seen ++ [p.seq], buf := st.buf ++ [p] })
          (extract W { st' with buf := st'.buf ++ [p] })
          (by rw [hcore]) (by rw [hcore]) (by rw [hcore])
        rw [hseen] at this
        exact this

theorem runTwoPassW_eq (W : Nat) (segs : List Seg) : runTwoPassW W segs = runW W segs := by
  unfold runTwoPassW runW
  exact (fused_eq W segs St.init
    { St.init with seen := (accept [] (segs.filter (fun p => !p.data.isEmpty))).2 } rfl rfl rfl).1

end TLX.Lemmas.TwoPass
