/-
The abstract hash suite over which the key-schedule model (TLX/KeySchedule.lean), the independent
RFC transcriptions (TLX/Spec/KeySchedules.lean) and the C15 theorems are parametric (DESIGN §3.3,
§8.15). Nothing here is an axiom: `HashSuite` is a plain structure, `Lawful` a hypothesis that the
theorems name when they need it, and `toy` an instance showing the hypothesis is satisfiable.
The executable instances (real MD5/SHA-1/SHA-256/SHA-384) live in TLX/Crypto/Hash.lean and are
used by the driver only.

Core Lean only.
-/
import TLX.Py
namespace TLX.Crypto
open TLX

/-- One hash algorithm with the constructions the key schedules build on it.
    `hmac key msg`, `hkdfExtract salt ikm`, `hkdfExpand prk info len` (RFC 2104, RFC 5869). -/
structure HashSuite where
  hash : Bytes → Bytes
  hmac : Bytes → Bytes → Bytes
  hkdfExtract : Bytes → Bytes → Bytes
  hkdfExpand : Bytes → Bytes → Nat → Bytes
  outLen : Nat

/-- What the loop-to-spec lemmas need from a hash: a fixed non-zero output length, and
    HKDF-Expand returning as many bytes as asked for (within RFC 5869's `255 * HashLen` limit). -/
structure HashSuite.Lawful (h : HashSuite) : Prop where
  outLen_pos : 0 < h.outLen
  hash_len : ∀ m, (h.hash m).length = h.outLen
  hmac_len : ∀ k m, (h.hmac k m).length = h.outLen
  expand_len : ∀ prk info n, n ≤ 255 * h.outLen → (h.hkdfExpand prk info n).length = n

/-- The four algorithms TLExport uses, as four independent parameters. -/
structure Prims where
  md5 : HashSuite
  sha1 : HashSuite
  sha256 : HashSuite
  sha384 : HashSuite

structure Prims.Lawful (P : Prims) : Prop where
  md5 : P.md5.Lawful
  sha1 : P.sha1.Lawful
  sha256 : P.sha256.Lawful
  sha384 : P.sha384.Lawful

/-! A toy instance (order-sensitive polynomial checksum), used only to show that hypotheses are
    satisfiable and to exhibit counterexamples to over-strong statements by kernel evaluation. -/

def toyDigest (w : Nat) (m : Bytes) : Bytes :=
  let s := m.foldl (fun acc x => (acc * 31 + x.toNat + 7) % 65521) 1
  (List.range w).map fun i => UInt8.ofNat (s / (i + 1) + i)

def toyStream (seed : Bytes) (n : Nat) : Bytes :=
  (List.range n).map fun i => UInt8.ofNat ((toyDigest 1 (UInt8.ofNat i :: seed)).headD 0).toNat

def toy (w : Nat) : HashSuite where
  hash := toyDigest w
  hmac := fun k m => toyDigest w (k ++ [0x5c] ++ m)
  hkdfExtract := fun salt ikm => toyDigest w (salt ++ [0x36] ++ ikm)
  hkdfExpand := fun prk info n => toyStream (prk ++ [0xff] ++ info) n
  outLen := w

theorem toyDigest_length (w : Nat) (m : Bytes) : (toyDigest w m).length = w := by
  simp [toyDigest]

theorem toy_lawful (w : Nat) (hw : 0 < w) : (toy w).Lawful where
  outLen_pos := hw
  hash_len := fun m => toyDigest_length w m
  hmac_len := fun k m => toyDigest_length w _
  expand_len := fun prk info n _ => by simp [toy, toyStream]

def toyPrims : Prims := ⟨toy 2, toy 3, toy 4, toy 5⟩

theorem toyPrims_lawful : toyPrims.Lawful :=
  ⟨toy_lawful 2 (by decide), toy_lawful 3 (by decide), toy_lawful 4 (by decide), toy_lawful 5 (by decide)⟩

end TLX.Crypto
