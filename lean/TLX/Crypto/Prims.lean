/-
Record-layer cipher primitives as a PARAMETER structure (DESIGN §3.3, refined: no oracle replay).

AES, Camellia, 3DES, IDEA, RC4, ChaCha20-Poly1305, GCM and CCM are not modelled. The record-layer model
(`TLX/RecordLayer.lean`) and the RFC sender (`TLX/Spec/TlsSender.lean`) take a `Prims` value; theorems take a
law structure `SealLaws P` as a *hypothesis* (never an axiom). `TLX/Crypto/Toy.lean` gives one concrete
executable instance (also written in Python, `harness/toy_crypto.py`) and proves it satisfies the laws, so no
theorem is vacuous and the model can be *run* against the real `tlexport.decryptor.Decryptor`.

One primitive call folds what `decryptor.py` does in adjacent statements with no state change between them:
  `aeadOpen alg key nonce aad tagLen ct`  =  `AESGCM(key)` / `AESCCM(key, tagLen)` / `ChaCha20Poly1305(key)`
                                              followed by `.decrypt(nonce, ct, aad)`
  `cbcDec alg key iv ct`                  =  `Cipher(alg(key), CBC(iv)).decryptor()`, `update(ct) + finalize()`
  `rc4Init key`                           =  `Cipher(ARC4(key), mode=None).decryptor()`
  `rc4 key off data`                      =  `ctx.update(data)` of that context after `off` keystream bytes
with the library's exceptions (`ValueError` for key/nonce/IV/tag-length/alignment, `InvalidTag`, `TypeError`,
`UnsupportedAlgorithm`) as `PyErr` values.

Core Lean only (linked into `tlxdriver`). Namespace `TLX.Cipher` (`TLX.Crypto` is the hash side, C15).
-/
import TLX.Py
namespace TLX.Cipher

/-- Python exception kinds that `decryptor.py` can raise (class names in the comment are what the harness maps). -/
inductive PyErr
  | index        -- IndexError
  | key          -- KeyError
  | attr         -- AttributeError
  | unbound      -- UnboundLocalError
  | overflow     -- OverflowError
  | value        -- ValueError
  | type         -- TypeError
  | invalidTag   -- cryptography.exceptions.InvalidTag
  | unsupported  -- cryptography.exceptions.UnsupportedAlgorithm
  | other
  deriving DecidableEq, Repr

def PyErr.tag : PyErr → String
  | .index => "index" | .key => "key" | .attr => "attr" | .unbound => "unbound" | .overflow => "overflow"
  | .value => "value" | .type => "type" | .invalidTag => "invalidtag" | .unsupported => "unsupported"
  | .other => "other"

abbrev Py := Except PyErr

/-- What `bulk_alg` can be: the eight classes of `cipher_suite_parts["CryptoAlgo"]`, `algorithms.ChaCha20`
    (named in `get_cipher_type`), or `None` (no part of the suite name matched). -/
inductive Alg
  | aes | tdes | camellia | idea | aesccm | aesgcm | chacha20 | chachaPoly | arc4 | none
  deriving DecidableEq, Repr

/-- Block size in bytes of the four CBC-capable algorithms (`algorithm.block_size / 8`); 0 otherwise. -/
def Alg.blk : Alg → Nat
  | .aes => 16 | .camellia => 16 | .tdes => 8 | .idea => 8 | _ => 0

def Alg.isBlock : Alg → Bool
  | .aes | .camellia | .tdes | .idea => true | _ => false

/-- `len(key)` accepted by the constructor of the class (`key_sizes` of cryptography 50, in bytes). -/
def Alg.keyOk : Alg → Nat → Bool
  | .aes, n => n == 16 || n == 24 || n == 32 || n == 64     -- 64: AES-256-XTS keys pass the constructor
  | .camellia, n => n == 16 || n == 24 || n == 32
  | .tdes, n => n == 8 || n == 16 || n == 24
  | .idea, n => n == 16
  | .aesgcm, n => n == 16 || n == 24 || n == 32
  | .aesccm, n => n == 16 || n == 24 || n == 32
  | .chachaPoly, n => n == 32
  | .chacha20, n => n == 32
  | .arc4, n => n == 5 || n == 7 || n == 8 || n == 10 || n == 16 || n == 20 || n == 24 || n == 32
  | .none, _ => false

/-- `AESCCM(key, tag_length)` accepts 4, 6, …, 16. -/
def ccmTagOk (t : Nat) : Bool := decide (4 ≤ t) && decide (t ≤ 16) && t % 2 == 0

/-- Nonce lengths the AEAD `decrypt` accepts. -/
def Alg.nonceOk : Alg → Nat → Bool
  | .aesgcm, n => decide (8 ≤ n) && decide (n ≤ 128)
  | .aesccm, n => decide (7 ≤ n) && decide (n ≤ 13)
  | .chachaPoly, n => n == 12
  | _, _ => false

/-- Parameters under which an AEAD call does not raise `ValueError` (real library, and the toy). -/
def AeadOk (a : Alg) (keyLen nonceLen tagLen : Nat) : Prop :=
  (a = .aesgcm ∨ a = .aesccm ∨ a = .chachaPoly) ∧ a.keyOk keyLen = true ∧ a.nonceOk nonceLen = true ∧
  (if a = .aesccm then ccmTagOk tagLen = true else tagLen = 16)

/-- Parameters under which a CBC call does not raise for block-aligned input. -/
def CbcOk (a : Alg) (keyLen ivLen : Nat) : Prop :=
  a.isBlock = true ∧ a.keyOk keyLen = true ∧ keyLen ≠ 64 ∧ ivLen = a.blk

instance (a : Alg) (k n t : Nat) : Decidable (AeadOk a k n t) := by unfold AeadOk; infer_instance
instance (a : Alg) (k i : Nat) : Decidable (CbcOk a k i) := by unfold CbcOk; infer_instance

structure Prims where
  /-- AEAD open; the tag length is the `AESCCM` constructor argument and is 16 for GCM and ChaCha20-Poly1305. -/
  aeadOpen : Alg → (key nonce aad : Bytes) → (tagLen : Nat) → (ct : Bytes) → Py Bytes
  /-- CBC decryption of a whole record body (`update + finalize`). -/
  cbcDec : Alg → (key iv ct : Bytes) → Py Bytes
  /-- RC4 context creation (key-size validation only). -/
  rc4Init : (key : Bytes) → Py Unit
  /-- RC4 keystream applied at an explicit keystream position. -/
  rc4 : (key : Bytes) → (offset : Nat) → Bytes → Bytes

/-- Laws of the *protect* duals. Hypothesis of the C01 record-layer theorems; inhabited by `Toy.laws`. -/
structure SealLaws (P : Prims) where
  aeadSeal : Alg → (key nonce aad : Bytes) → (tagLen : Nat) → (pt : Bytes) → Bytes
  open_seal : ∀ a k n ad tl p, AeadOk a k.length n.length tl →
    P.aeadOpen a k n ad tl (aeadSeal a k n ad tl p) = .ok p
  seal_len : ∀ a k n ad tl p, AeadOk a k.length n.length tl → (aeadSeal a k n ad tl p).length = p.length + tl
  cbcEnc : Alg → (key iv pt : Bytes) → Bytes
  dec_enc : ∀ a k iv p, CbcOk a k.length iv.length → p.length % a.blk = 0 →
    P.cbcDec a k iv (cbcEnc a k iv p) = .ok p
  enc_len : ∀ a k iv p, (cbcEnc a k iv p).length = p.length
  rc4_init : ∀ k, Alg.arc4.keyOk k.length = true → P.rc4Init k = .ok ()
  rc4_invol : ∀ k off p, P.rc4 k off (P.rc4 k off p) = p
  rc4_len : ∀ k off p, (P.rc4 k off p).length = p.length

end TLX.Cipher
