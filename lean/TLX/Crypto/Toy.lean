/-
The ONE concrete executable instance of `Prims` (twin: `harness/toy_crypto.py`, byte-for-byte the same
functions; compared on every run by the `toy.twin` correspondence point).

Not cryptography: a 32-bit FNV-1a hash seeds a random-access byte pad. What matters is that EVERY input
matters (algorithm, key, nonce/IV, AAD, keystream offset, previous ciphertext block, slice boundaries), so that
a model or an implementation that passes a wrong key, nonce, AAD, IV, offset or slice to a primitive gets a
different output or an error, and that the validation errors are the real library's (cryptography 50):

  AEAD   key length (GCM/CCM 16/24/32, ChaCha20-Poly1305 32) → ValueError; CCM tag length ∉ {4,6,…,16} →
         ValueError; nonce length (GCM 8…128, CCM 7…13, ChaCha 12) → ValueError; input shorter than the tag or
         tag mismatch → InvalidTag.  body = pt XOR pad(seed(alg,key,nonce)); tag = tagLen bytes of
         pad(fnv(alg,key,nonce,aad,body)).
  CBC    key length per algorithm → ValueError; IV length ≠ block size → ValueError; input not a multiple of the
         block size → ValueError (as `finalize()` does).  c_i = p_i XOR pad(fnv(seed(alg,key), c_{i-1})), c_0 = IV:
         the whole previous ciphertext block and the key enter every block.
  RC4    key length ∈ {5,7,8,10,16,20,24,32} else ValueError; out = data XOR pad(seed(key)) at the running offset.

All arithmetic is on `Nat` modulo 2^32 with products below 2^63 (kernel- and compiler-friendly).
`Toy.laws : SealLaws Toy.prims` is proved below.
-/
import TLX.Crypto.Prims
namespace TLX.Cipher.Toy

def M : Nat := 4294967296

def fnvStep (h : Nat) (b : Nat) : Nat := (Nat.xor h b * 16777619) % M

def fnv (h : Nat) (bs : Bytes) : Nat := bs.foldl (fun h b => fnvStep h b.toNat) h

/-- Length-prefixed absorption (2 length bytes), so that (key, nonce, aad, …) boundaries matter. -/
def fnvL (h : Nat) (bs : Bytes) : Nat :=
  fnv (fnvStep (fnvStep h (bs.length / 256 % 256)) (bs.length % 256)) bs

/-- Random-access pad byte `i` of the stream with seed `s`. -/
def pad (s i : Nat) : UInt8 :=
  let x := (s + i * 2654435761) % M
  let y := (Nat.xor x (x >>> 15) * 739982445) % M
  UInt8.ofNat (y >>> 24)

/-- `data[j] XOR pad(s, i + j)`. -/
def xorPad (s : Nat) : Nat → Bytes → Bytes
  | _, [] => []
  | i, b :: bs => (b ^^^ pad s i) :: xorPad s (i + 1) bs

def Alg.id : Alg → Nat
  | .aes => 1 | .tdes => 2 | .camellia => 3 | .idea => 4 | .aesccm => 5 | .aesgcm => 6
  | .chacha20 => 7 | .chachaPoly => 8 | .arc4 => 9 | .none => 10

-- ------------------------------------------------------------------ AEAD
def seedA (a : Alg) (key nonce : Bytes) : Nat := fnvL (fnvL (fnvStep 2166136261 (Alg.id a)) key) nonce

def tagOf (a : Alg) (key nonce aad : Bytes) (tl : Nat) (body : Bytes) : Bytes :=
  let h := fnvL (fnvL (fnvL (fnvL (fnvStep 2166136000 (Alg.id a)) key) nonce) aad) body
  (List.range tl).map (fun j => pad h j)

def isAead : Alg → Bool
  | .aesgcm | .aesccm | .chachaPoly => true | _ => false

def aeadSeal (a : Alg) (key nonce aad : Bytes) (tl : Nat) (pt : Bytes) : Bytes :=
  let body := xorPad (seedA a key nonce) 0 pt
  body ++ tagOf a key nonce aad tl body

def aeadOpen (a : Alg) (key nonce aad : Bytes) (tl : Nat) (ct : Bytes) : Py Bytes :=
  if !isAead a then .error .type
  else if !a.keyOk key.length then .error .value
  else if a = .aesccm ∧ !ccmTagOk tl then .error .value
  else if !a.nonceOk nonce.length then .error .value
  else if ct.length < tl then .error .invalidTag
  else
    let body := ct.take (ct.length - tl)
    let tg := ct.drop (ct.length - tl)
    if tg = tagOf a key nonce aad tl body then .ok (xorPad (seedA a key nonce) 0 body)
    else .error .invalidTag

-- ------------------------------------------------------------------ CBC
def seedK (a : Alg) (key : Bytes) : Nat := fnvL (fnvStep 2166136523 (Alg.id a)) key

def cbcEncGo (sk bs : Nat) : Nat → Bytes → Bytes → Bytes
  | 0, _, _ => []
  | f + 1, prev, data =>
    match data with
    | [] => []
    | _ :: _ =>
      let c := xorPad (fnv sk prev) 0 (data.take bs)
      c ++ cbcEncGo sk bs f c (data.drop bs)

def cbcDecGo (sk bs : Nat) : Nat → Bytes → Bytes → Bytes
  | 0, _, _ => []
  | f + 1, prev, data =>
    match data with
    | [] => []
    | _ :: _ =>
      let c := data.take bs
      xorPad (fnv sk prev) 0 c ++ cbcDecGo sk bs f c (data.drop bs)

/-- Total; for a non-block algorithm (never used) it is the identity. A trailing partial block is padded with
    nothing (the sender never produces one). -/
def cbcEnc (a : Alg) (key iv pt : Bytes) : Bytes :=
  if a.blk = 0 then pt else cbcEncGo (seedK a key) a.blk pt.length iv pt

def cbcDec (a : Alg) (key iv ct : Bytes) : Py Bytes :=
  match a with
  | .none | .chacha20 => .error .type                       -- `None(key)`, `ChaCha20(key)` (missing nonce)
  | .aesgcm | .aesccm | .chachaPoly =>                       -- `AESGCM(key)` then `Cipher(<not a CipherAlgorithm>, …)`
    if !a.keyOk key.length then .error .value else .error .type
  | .arc4 => if !a.keyOk key.length then .error .value else .error .unsupported   -- CBC needs a block cipher
  | _ =>
    if !a.keyOk key.length then .error .value
    else if key.length = 64 then .error .value                -- AES-512 keys are XTS only
    else if iv.length ≠ a.blk then .error .value
    else if ct.length % a.blk ≠ 0 then .error .value
    else .ok (cbcDecGo (seedK a key) a.blk ct.length iv ct)

-- ------------------------------------------------------------------ RC4
def seedR (key : Bytes) : Nat := fnvL 2166136777 key

def rc4Init (key : Bytes) : Py Unit :=
  if Alg.arc4.keyOk key.length then .ok () else .error .value

def rc4 (key : Bytes) (off : Nat) (data : Bytes) : Bytes := xorPad (seedR key) off data

def prims : Prims := { aeadOpen := aeadOpen, cbcDec := cbcDec, rc4Init := rc4Init, rc4 := rc4 }

-- ------------------------------------------------------------------ the toy satisfies the laws
theorem xorPad_length (s : Nat) : ∀ (i : Nat) (d : Bytes), (xorPad s i d).length = d.length
  | _, [] => rfl
  | i, _ :: bs => by simp [xorPad, xorPad_length s (i + 1) bs]

theorem xorPad_invol (s : Nat) : ∀ (i : Nat) (d : Bytes), xorPad s i (xorPad s i d) = d
  | _, [] => rfl
  | i, b :: bs => by
    simp only [xorPad, xorPad_invol s (i + 1) bs, UInt8.xor_assoc, UInt8.xor_self, UInt8.xor_zero]

theorem tagOf_length (a : Alg) (k n ad : Bytes) (tl : Nat) (b : Bytes) : (tagOf a k n ad tl b).length = tl := by
  simp [tagOf]

theorem seal_len (a : Alg) (k n ad : Bytes) (tl : Nat) (p : Bytes) :
    (aeadSeal a k n ad tl p).length = p.length + tl := by
  simp [aeadSeal, xorPad_length, tagOf_length]

theorem open_seal (a : Alg) (k n ad : Bytes) (tl : Nat) (p : Bytes) (h : AeadOk a k.length n.length tl) :
    aeadOpen a k n ad tl (aeadSeal a k n ad tl p) = .ok p := by
  obtain ⟨ha, hk, hn, ht⟩ := h
  have hA : isAead a = true := by rcases ha with rfl | rfl | rfl <;> rfl
  have hccm : ¬ (a = .aesccm ∧ (!ccmTagOk tl) = true) := by
    intro ⟨h1, h2⟩
    rw [if_pos h1] at ht
    simp [ht] at h2
  have hlen : (aeadSeal a k n ad tl p).length = p.length + tl := seal_len a k n ad tl p
  unfold aeadOpen
  simp only [hA, hk, hn, Bool.not_true, Bool.false_eq_true, if_false, hccm, hlen]
  rw [if_neg (by omega)]
  have e : p.length + tl - tl = (xorPad (seedA a k n) 0 p).length := by rw [xorPad_length]; omega
  simp only [aeadSeal, e, List.take_left', List.drop_left', if_true, xorPad_invol]

theorem cbcEncGo_length (sk bs : Nat) (hbs : 0 < bs) :
    ∀ (f : Nat) (prev p : Bytes), p.length ≤ f → (cbcEncGo sk bs f prev p).length = p.length := by
  intro f
  induction f with
  | zero =>
    intro prev p h
    have : p = [] := List.eq_nil_of_length_eq_zero (by omega)
    subst this; rfl
  | succ f ih =>
    intro prev p h
    match p, h with
    | [], _ => rfl
    | x :: xs, h =>
      simp only [cbcEncGo, List.length_append, xorPad_length]
      rw [ih _ _ (by simp only [List.length_drop, List.length_cons] at *; omega)]
      simp only [List.length_take, List.length_drop, List.length_cons]
      omega

theorem cbc_go_roundtrip (sk bs : Nat) (hbs : 0 < bs) :
    ∀ (f1 f2 : Nat) (prev p : Bytes), p.length ≤ f1 → p.length ≤ f2 → p.length % bs = 0 →
      cbcDecGo sk bs f2 prev (cbcEncGo sk bs f1 prev p) = p := by
  intro f1
  induction f1 with
  | zero =>
    intro f2 prev p h1 _ _
    have : p = [] := List.eq_nil_of_length_eq_zero (by omega)
    subst this
    cases f2 <;> rfl
  | succ f1 ih =>
    intro f2 prev p h1 h2 hal
    match p, h1, h2, hal with
    | [], _, _, _ => cases f2 <;> rfl
    | x :: xs, h1, h2, hal =>
      have hge : bs ≤ (x :: xs).length := by
        false_or_by_contra
        rename_i hc
        have : (x :: xs).length % bs = (x :: xs).length := Nat.mod_eq_of_lt (by omega)
        simp only [List.length_cons] at *
        omega
      obtain ⟨f2', rfl⟩ : ∃ k, f2 = k + 1 := ⟨f2 - 1, by simp only [List.length_cons] at h2; omega⟩
      have hc : (xorPad (fnv sk prev) 0 (List.take bs (x :: xs))).length = bs := by
        rw [xorPad_length, List.length_take]; omega
      have hne : xorPad (fnv sk prev) 0 (List.take bs (x :: xs)) ≠ [] := by
        intro h0; rw [h0] at hc; simp at hc; omega
      simp only [cbcEncGo]
      generalize hcdef : xorPad (fnv sk prev) 0 (List.take bs (x :: xs)) = c at *
      match c, hne, hc with
      | y :: ys, _, hc =>
        simp only [cbcDecGo]
        have e1 : List.take bs (y :: ys ++ cbcEncGo sk bs f1 (y :: ys) (List.drop bs (x :: xs))) = y :: ys := by
          rw [← hc]; exact List.take_left'  rfl
        have e2 : List.drop bs (y :: ys ++ cbcEncGo sk bs f1 (y :: ys) (List.drop bs (x :: xs)))
            = cbcEncGo sk bs f1 (y :: ys) (List.drop bs (x :: xs)) := by
          rw [← hc]; exact List.drop_left' rfl
        rw [e1, e2, ← hcdef, xorPad_invol]
        rw [hcdef, ih f2' (y :: ys) (List.drop bs (x :: xs))
          (by simp only [List.length_drop, List.length_cons] at *; omega)
          (by simp only [List.length_drop, List.length_cons] at *; omega)
          (by
            simp only [List.length_drop]
            have := Nat.sub_mod_eq_zero_of_mod_eq (m := (x :: xs).length) (n := bs) (k := bs) (by rw [hal]; simp)
            exact this)]
        exact List.take_append_drop bs (x :: xs)

theorem enc_len (a : Alg) (k iv p : Bytes) : (cbcEnc a k iv p).length = p.length := by
  unfold cbcEnc
  split
  · rfl
  · exact cbcEncGo_length _ _ (by omega) _ _ _ (Nat.le_refl _)

theorem dec_enc (a : Alg) (k iv p : Bytes) (h : CbcOk a k.length iv.length) (hal : p.length % a.blk = 0) :
    cbcDec a k iv (cbcEnc a k iv p) = .ok p := by
  obtain ⟨hb, hk, h64, hiv⟩ := h
  have hpos : 0 < a.blk := by cases a <;> simp_all [Alg.isBlock, Alg.blk]
  have hl := enc_len a k iv p
  have hne : a.blk ≠ 0 := by omega
  have key : cbcDec a k iv (cbcEnc a k iv p)
      = .ok (cbcDecGo (seedK a k) a.blk (cbcEnc a k iv p).length iv (cbcEnc a k iv p)) := by
    cases a <;> simp_all [Alg.isBlock, cbcDec]
  rw [key, hl]
  unfold cbcEnc
  rw [if_neg hne]
  rw [cbc_go_roundtrip _ _ hpos _ _ _ _ (Nat.le_refl _) (Nat.le_refl _) hal]

theorem rc4_invol (k : Bytes) (off : Nat) (p : Bytes) : rc4 k off (rc4 k off p) = p := xorPad_invol _ _ _

theorem rc4_len (k : Bytes) (off : Nat) (p : Bytes) : (rc4 k off p).length = p.length := xorPad_length _ _ _

/-- The toy instance satisfies the law structure: the C01 theorems are not vacuous. -/
def laws : SealLaws prims where
  aeadSeal := aeadSeal
  open_seal := fun a k n ad tl p h => open_seal a k n ad tl p h
  seal_len := fun a k n ad tl p _ => seal_len a k n ad tl p
  cbcEnc := cbcEnc
  dec_enc := fun a k iv p h hal => dec_enc a k iv p h hal
  enc_len := enc_len
  rc4_init := fun k h => by simp [prims, rc4Init, h]
  rc4_invol := rc4_invol
  rc4_len := rc4_len

end TLX.Cipher.Toy
