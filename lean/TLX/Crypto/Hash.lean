/-
Executable MD5 (RFC 1321), SHA-1, SHA-256, SHA-384 (FIPS 180-4; SHA-384 is the SHA-512 compression
function with its own initial value, truncated to 48 bytes), HMAC (RFC 2104), HKDF-Extract and
HKDF-Expand (RFC 5869).

Purpose (DESIGN §3.3): key derivation is the one place where *values* are the observable (C15),
so the Lean model must compute real key blocks that can be compared with what the real
`Decryptor` / `QuicSession` objects hold. No theorem depends on these definitions - the C15
theorems are parametric in `HashSuite`; these are the instances the native driver plugs in, and
harness/c15.py validates them against `hashlib`/`hmac` on every run (random inputs of many lengths
including the block boundaries) before any derived value is trusted.

Core Lean only (linked into `tlxdriver`). The round constants were generated from their
definitions (`floor(2^32 |sin i|)`, fractional parts of square/cube roots of primes).
-/
import TLX.Crypto.HashSuite
namespace TLX.Crypto
open TLX

/-- Merkle-Damgard padding: `msg ‖ 0x80 ‖ 0* ‖ bit length` (`lenBytes` bytes, big- or little-endian)
    up to a multiple of `block` bytes. -/
def mdPad (block lenBytes : Nat) (bigEndian : Bool) (msg : Bytes) : ByteArray :=
  let len := msg.length
  let z := (block - (len + 1 + lenBytes) % block) % block
  let bits := len * 8
  let le : Bytes := (List.range lenBytes).map fun i => UInt8.ofNat (bits >>> (8 * i))
  ⟨(msg ++ [0x80] ++ List.replicate z 0 ++ (if bigEndian then le.reverse else le)).toArray⟩

@[inline] def rotl32 (x : UInt32) (n : UInt32) : UInt32 := (x <<< n) ||| (x >>> (32 - n))
@[inline] def rotr32 (x : UInt32) (n : UInt32) : UInt32 := (x >>> n) ||| (x <<< (32 - n))
@[inline] def rotr64 (x : UInt64) (n : UInt64) : UInt64 := (x >>> n) ||| (x <<< (64 - n))

@[inline] def le32At (d : ByteArray) (i : Nat) : UInt32 :=
  (d.get! i).toUInt32 ||| ((d.get! (i + 1)).toUInt32 <<< 8) |||
  ((d.get! (i + 2)).toUInt32 <<< 16) ||| ((d.get! (i + 3)).toUInt32 <<< 24)

@[inline] def be32At (d : ByteArray) (i : Nat) : UInt32 :=
  ((d.get! i).toUInt32 <<< 24) ||| ((d.get! (i + 1)).toUInt32 <<< 16) |||
  ((d.get! (i + 2)).toUInt32 <<< 8) ||| (d.get! (i + 3)).toUInt32

@[inline] def be64At (d : ByteArray) (i : Nat) : UInt64 :=
  ((be32At d i).toUInt64 <<< 32) ||| (be32At d (i + 4)).toUInt64

def le32Bytes (x : UInt32) : Bytes :=
  [x.toUInt8, (x >>> 8).toUInt8, (x >>> 16).toUInt8, (x >>> 24).toUInt8]
def be32Bytes (x : UInt32) : Bytes :=
  [(x >>> 24).toUInt8, (x >>> 16).toUInt8, (x >>> 8).toUInt8, x.toUInt8]
def be64Bytes (x : UInt64) : Bytes :=
  be32Bytes (x >>> 32).toUInt32 ++ be32Bytes x.toUInt32

/-! ### MD5 -/

def md5K : Array UInt32 := #[
  0xd76aa478, 0xe8c7b756, 0x242070db, 0xc1bdceee,
  0xf57c0faf, 0x4787c62a, 0xa8304613, 0xfd469501,
  0x698098d8, 0x8b44f7af, 0xffff5bb1, 0x895cd7be,
  0x6b901122, 0xfd987193, 0xa679438e, 0x49b40821,
  0xf61e2562, 0xc040b340, 0x265e5a51, 0xe9b6c7aa,
  0xd62f105d, 0x02441453, 0xd8a1e681, 0xe7d3fbc8,
  0x21e1cde6, 0xc33707d6, 0xf4d50d87, 0x455a14ed,
  0xa9e3e905, 0xfcefa3f8, 0x676f02d9, 0x8d2a4c8a,
  0xfffa3942, 0x8771f681, 0x6d9d6122, 0xfde5380c,
  0xa4beea44, 0x4bdecfa9, 0xf6bb4b60, 0xbebfbc70,
  0x289b7ec6, 0xeaa127fa, 0xd4ef3085, 0x04881d05,
  0xd9d4d039, 0xe6db99e5, 0x1fa27cf8, 0xc4ac5665,
  0xf4292244, 0x432aff97, 0xab9423a7, 0xfc93a039,
  0x655b59c3, 0x8f0ccc92, 0xffeff47d, 0x85845dd1,
  0x6fa87e4f, 0xfe2ce6e0, 0xa3014314, 0x4e0811a1,
  0xf7537e82, 0xbd3af235, 0x2ad7d2bb, 0xeb86d391]

def md5S : Array UInt32 := #[
  7, 12, 17, 22, 7, 12, 17, 22, 7, 12, 17, 22, 7, 12, 17, 22,
  5, 9, 14, 20, 5, 9, 14, 20, 5, 9, 14, 20, 5, 9, 14, 20,
  4, 11, 16, 23, 4, 11, 16, 23, 4, 11, 16, 23, 4, 11, 16, 23,
  6, 10, 15, 21, 6, 10, 15, 21, 6, 10, 15, 21, 6, 10, 15, 21]

def md5 (msg : Bytes) : Bytes := Id.run do
  let d := mdPad 64 8 false msg
  let mut a0 : UInt32 := 0x67452301
  let mut b0 : UInt32 := 0xefcdab89
  let mut c0 : UInt32 := 0x98badcfe
  let mut d0 : UInt32 := 0x10325476
  for blk in [0:d.size / 64] do
    let mut m : Array UInt32 := Array.mkEmpty 16
    for j in [0:16] do
      m := m.push (le32At d (blk * 64 + 4 * j))
    let mut a := a0
    let mut b := b0
    let mut c := c0
    let mut dd := d0
    for i in [0:64] do
      let (f, g) :=
        if i < 16 then ((b &&& c) ||| (~~~b &&& dd), i)
        else if i < 32 then ((dd &&& b) ||| (~~~dd &&& c), (5 * i + 1) % 16)
        else if i < 48 then (b ^^^ c ^^^ dd, (3 * i + 5) % 16)
        else (c ^^^ (b ||| ~~~dd), (7 * i) % 16)
      let f2 := f + a + md5K[i]! + m[g]!
      a := dd
      dd := c
      c := b
      b := b + rotl32 f2 md5S[i]!
    a0 := a0 + a
    b0 := b0 + b
    c0 := c0 + c
    d0 := d0 + dd
  return le32Bytes a0 ++ le32Bytes b0 ++ le32Bytes c0 ++ le32Bytes d0

/-! ### SHA-1 -/

def sha1 (msg : Bytes) : Bytes := Id.run do
  let d := mdPad 64 8 true msg
  let mut h0 : UInt32 := 0x67452301
  let mut h1 : UInt32 := 0xefcdab89
  let mut h2 : UInt32 := 0x98badcfe
  let mut h3 : UInt32 := 0x10325476
  let mut h4 : UInt32 := 0xc3d2e1f0
  for blk in [0:d.size / 64] do
    let mut w : Array UInt32 := Array.mkEmpty 80
    for j in [0:16] do
      w := w.push (be32At d (blk * 64 + 4 * j))
    for j in [16:80] do
      w := w.push (rotl32 (w[j - 3]! ^^^ w[j - 8]! ^^^ w[j - 14]! ^^^ w[j - 16]!) 1)
    let mut a := h0
    let mut b := h1
    let mut c := h2
    let mut dd := h3
    let mut e := h4
    for i in [0:80] do
      let (f, k) : UInt32 × UInt32 :=
        if i < 20 then ((b &&& c) ||| (~~~b &&& dd), 0x5a827999)
        else if i < 40 then (b ^^^ c ^^^ dd, 0x6ed9eba1)
        else if i < 60 then ((b &&& c) ||| (b &&& dd) ||| (c &&& dd), 0x8f1bbcdc)
        else (b ^^^ c ^^^ dd, 0xca62c1d6)
      let t := rotl32 a 5 + f + e + k + w[i]!
      e := dd
      dd := c
      c := rotl32 b 30
      b := a
      a := t
    h0 := h0 + a
    h1 := h1 + b
    h2 := h2 + c
    h3 := h3 + dd
    h4 := h4 + e
  return be32Bytes h0 ++ be32Bytes h1 ++ be32Bytes h2 ++ be32Bytes h3 ++ be32Bytes h4

/-! ### SHA-256 -/

def sha256K : Array UInt32 := #[
  0x428a2f98, 0x71374491, 0xb5c0fbcf, 0xe9b5dba5,
  0x3956c25b, 0x59f111f1, 0x923f82a4, 0xab1c5ed5,
  0xd807aa98, 0x12835b01, 0x243185be, 0x550c7dc3,
  0x72be5d74, 0x80deb1fe, 0x9bdc06a7, 0xc19bf174,
  0xe49b69c1, 0xefbe4786, 0x0fc19dc6, 0x240ca1cc,
  0x2de92c6f, 0x4a7484aa, 0x5cb0a9dc, 0x76f988da,
  0x983e5152, 0xa831c66d, 0xb00327c8, 0xbf597fc7,
  0xc6e00bf3, 0xd5a79147, 0x06ca6351, 0x14292967,
  0x27b70a85, 0x2e1b2138, 0x4d2c6dfc, 0x53380d13,
  0x650a7354, 0x766a0abb, 0x81c2c92e, 0x92722c85,
  0xa2bfe8a1, 0xa81a664b, 0xc24b8b70, 0xc76c51a3,
  0xd192e819, 0xd6990624, 0xf40e3585, 0x106aa070,
  0x19a4c116, 0x1e376c08, 0x2748774c, 0x34b0bcb5,
  0x391c0cb3, 0x4ed8aa4a, 0x5b9cca4f, 0x682e6ff3,
  0x748f82ee, 0x78a5636f, 0x84c87814, 0x8cc70208,
  0x90befffa, 0xa4506ceb, 0xbef9a3f7, 0xc67178f2]

def sha256H : Array UInt32 := #[
  0x6a09e667, 0xbb67ae85, 0x3c6ef372, 0xa54ff53a,
  0x510e527f, 0x9b05688c, 0x1f83d9ab, 0x5be0cd19]

def sha256 (msg : Bytes) : Bytes := Id.run do
  let d := mdPad 64 8 true msg
  let mut hs : Array UInt32 := sha256H
  for blk in [0:d.size / 64] do
    let mut w : Array UInt32 := Array.mkEmpty 64
    for j in [0:16] do
      w := w.push (be32At d (blk * 64 + 4 * j))
    for j in [16:64] do
      let x := w[j - 15]!
      let y := w[j - 2]!
      let s0 := rotr32 x 7 ^^^ rotr32 x 18 ^^^ (x >>> 3)
      let s1 := rotr32 y 17 ^^^ rotr32 y 19 ^^^ (y >>> 10)
      w := w.push (w[j - 16]! + s0 + w[j - 7]! + s1)
    let mut a := hs[0]!
    let mut b := hs[1]!
    let mut c := hs[2]!
    let mut dd := hs[3]!
    let mut e := hs[4]!
    let mut f := hs[5]!
    let mut g := hs[6]!
    let mut h := hs[7]!
    for i in [0:64] do
      let bs1 := rotr32 e 6 ^^^ rotr32 e 11 ^^^ rotr32 e 25
      let ch := (e &&& f) ^^^ (~~~e &&& g)
      let t1 := h + bs1 + ch + sha256K[i]! + w[i]!
      let bs0 := rotr32 a 2 ^^^ rotr32 a 13 ^^^ rotr32 a 22
      let maj := (a &&& b) ^^^ (a &&& c) ^^^ (b &&& c)
      let t2 := bs0 + maj
      h := g
      g := f
      f := e
      e := dd + t1
      dd := c
      c := b
      b := a
      a := t1 + t2
    hs := #[hs[0]! + a, hs[1]! + b, hs[2]! + c, hs[3]! + dd, hs[4]! + e, hs[5]! + f, hs[6]! + g, hs[7]! + h]
  return hs.toList.flatMap be32Bytes

/-! ### SHA-384 (SHA-512 compression function) -/

def sha512K : Array UInt64 := #[
  0x428a2f98d728ae22, 0x7137449123ef65cd, 0xb5c0fbcfec4d3b2f, 0xe9b5dba58189dbbc,
  0x3956c25bf348b538, 0x59f111f1b605d019, 0x923f82a4af194f9b, 0xab1c5ed5da6d8118,
  0xd807aa98a3030242, 0x12835b0145706fbe, 0x243185be4ee4b28c, 0x550c7dc3d5ffb4e2,
  0x72be5d74f27b896f, 0x80deb1fe3b1696b1, 0x9bdc06a725c71235, 0xc19bf174cf692694,
  0xe49b69c19ef14ad2, 0xefbe4786384f25e3, 0x0fc19dc68b8cd5b5, 0x240ca1cc77ac9c65,
  0x2de92c6f592b0275, 0x4a7484aa6ea6e483, 0x5cb0a9dcbd41fbd4, 0x76f988da831153b5,
  0x983e5152ee66dfab, 0xa831c66d2db43210, 0xb00327c898fb213f, 0xbf597fc7beef0ee4,
  0xc6e00bf33da88fc2, 0xd5a79147930aa725, 0x06ca6351e003826f, 0x142929670a0e6e70,
  0x27b70a8546d22ffc, 0x2e1b21385c26c926, 0x4d2c6dfc5ac42aed, 0x53380d139d95b3df,
  0x650a73548baf63de, 0x766a0abb3c77b2a8, 0x81c2c92e47edaee6, 0x92722c851482353b,
  0xa2bfe8a14cf10364, 0xa81a664bbc423001, 0xc24b8b70d0f89791, 0xc76c51a30654be30,
  0xd192e819d6ef5218, 0xd69906245565a910, 0xf40e35855771202a, 0x106aa07032bbd1b8,
  0x19a4c116b8d2d0c8, 0x1e376c085141ab53, 0x2748774cdf8eeb99, 0x34b0bcb5e19b48a8,
  0x391c0cb3c5c95a63, 0x4ed8aa4ae3418acb, 0x5b9cca4f7763e373, 0x682e6ff3d6b2b8a3,
  0x748f82ee5defb2fc, 0x78a5636f43172f60, 0x84c87814a1f0ab72, 0x8cc702081a6439ec,
  0x90befffa23631e28, 0xa4506cebde82bde9, 0xbef9a3f7b2c67915, 0xc67178f2e372532b,
  0xca273eceea26619c, 0xd186b8c721c0c207, 0xeada7dd6cde0eb1e, 0xf57d4f7fee6ed178,
  0x06f067aa72176fba, 0x0a637dc5a2c898a6, 0x113f9804bef90dae, 0x1b710b35131c471b,
  0x28db77f523047d84, 0x32caab7b40c72493, 0x3c9ebe0a15c9bebc, 0x431d67c49c100d4c,
  0x4cc5d4becb3e42b6, 0x597f299cfc657e2a, 0x5fcb6fab3ad6faec, 0x6c44198c4a475817]

def sha384H : Array UInt64 := #[
  0xcbbb9d5dc1059ed8, 0x629a292a367cd507, 0x9159015a3070dd17, 0x152fecd8f70e5939,
  0x67332667ffc00b31, 0x8eb44a8768581511, 0xdb0c2e0d64f98fa7, 0x47b5481dbefa4fa4]

def sha384 (msg : Bytes) : Bytes := Id.run do
  let d := mdPad 128 16 true msg
  let mut hs : Array UInt64 := sha384H
  for blk in [0:d.size / 128] do
    let mut w : Array UInt64 := Array.mkEmpty 80
    for j in [0:16] do
      w := w.push (be64At d (blk * 128 + 8 * j))
    for j in [16:80] do
      let x := w[j - 15]!
      let y := w[j - 2]!
      let s0 := rotr64 x 1 ^^^ rotr64 x 8 ^^^ (x >>> 7)
      let s1 := rotr64 y 19 ^^^ rotr64 y 61 ^^^ (y >>> 6)
      w := w.push (w[j - 16]! + s0 + w[j - 7]! + s1)
    let mut a := hs[0]!
    let mut b := hs[1]!
    let mut c := hs[2]!
    let mut dd := hs[3]!
    let mut e := hs[4]!
    let mut f := hs[5]!
    let mut g := hs[6]!
    let mut h := hs[7]!
    for i in [0:80] do
      let bs1 := rotr64 e 14 ^^^ rotr64 e 18 ^^^ rotr64 e 41
      let ch := (e &&& f) ^^^ (~~~e &&& g)
      let t1 := h + bs1 + ch + sha512K[i]! + w[i]!
      let bs0 := rotr64 a 28 ^^^ rotr64 a 34 ^^^ rotr64 a 39
      let maj := (a &&& b) ^^^ (a &&& c) ^^^ (b &&& c)
      let t2 := bs0 + maj
      h := g
      g := f
      f := e
      e := dd + t1
      dd := c
      c := b
      b := a
      a := t1 + t2
    hs := #[hs[0]! + a, hs[1]! + b, hs[2]! + c, hs[3]! + dd, hs[4]! + e, hs[5]! + f, hs[6]! + g, hs[7]! + h]
  return (hs.toList.take 6).flatMap be64Bytes

/-! ### HMAC, HKDF -/

/-- RFC 2104: `H((K' ⊕ opad) ‖ H((K' ⊕ ipad) ‖ msg))`, `K' = H(K)` for keys longer than a block,
    zero-padded to the block size. -/
def hmacWith (h : Bytes → Bytes) (block : Nat) (key msg : Bytes) : Bytes :=
  let k := if key.length > block then h key else key
  let k := k ++ List.replicate (block - k.length) 0
  h (k.map (· ^^^ 0x5c) ++ h (k.map (· ^^^ 0x36) ++ msg))

/-- RFC 5869 §2.2 (an absent salt is `HashLen` zeros, which HMAC's key padding makes equal to the
    empty key). -/
def hkdfExtractWith (hmac : Bytes → Bytes → Bytes) (salt ikm : Bytes) : Bytes := hmac salt ikm

/-- RFC 5869 §2.3: `T(i) = HMAC(PRK, T(i-1) ‖ info ‖ i)`, first `len` bytes of `T(1) ‖ T(2) ‖ …`. -/
def hkdfExpandGo (hmac : Bytes → Bytes → Bytes) (prk info : Bytes) : Nat → Nat → Bytes → Bytes → Bytes
  | 0, _, _, acc => acc
  | n + 1, i, prev, acc =>
    let t := hmac prk (prev ++ info ++ [UInt8.ofNat i])
    hkdfExpandGo hmac prk info n (i + 1) t (acc ++ t)

def hkdfExpandWith (hmac : Bytes → Bytes → Bytes) (outLen : Nat) (prk info : Bytes) (len : Nat) : Bytes :=
  (hkdfExpandGo hmac prk info ((len + outLen - 1) / outLen) 1 [] []).take len

def mkSuite (h : Bytes → Bytes) (block outLen : Nat) : HashSuite :=
  let hm := hmacWith h block
  { hash := h, hmac := hm, hkdfExtract := hkdfExtractWith hm,
    hkdfExpand := hkdfExpandWith hm outLen, outLen := outLen }

def md5Suite : HashSuite := mkSuite md5 64 16
def sha1Suite : HashSuite := mkSuite sha1 64 20
def sha256Suite : HashSuite := mkSuite sha256 64 32
def sha384Suite : HashSuite := mkSuite sha384 128 48

/-- The instance the driver runs the model with. -/
def realPrims : Prims := ⟨md5Suite, sha1Suite, sha256Suite, sha384Suite⟩

end TLX.Crypto
