namespace TLX.CipherSuite

/-- A value stored in `cipher_suite_parts` / returned by `split_cipher_suite`:
    a `(class, flag)` tuple, a bare class (hash), or an int. Classes are named by `__name__`. -/
inductive Val
  | tup (cls : List Nat) (flag : Nat)
  | cls (name : List Nat)
  | int (n : Nat)
  deriving DecidableEq, Repr

end TLX.CipherSuite
