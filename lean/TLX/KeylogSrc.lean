/-
What the key-log model takes from the source tree under test (regenerated on every run into
`TLX/Gen/Consts.lean`). Kept apart from `TLX/Keylog.lean` so that a changed constant rebuilds
the driver only, not the proofs (which are about every configuration).
-/
import TLX.Keylog
import TLX.Gen.Consts
namespace TLX.Keylog

/-- The hex class of the pattern found in the source tree under test.
    An unknown pattern is run as `.any` and the line-level correspondence decides. -/
def srcHexClass : HexClass := (classOfPattern TLX.Gen.keylogPattern).getD .any

/-- `-s` default of the source tree under test. -/
def srcDefaultS : Option Str := TLX.Gen.sslkeylogDefault

end TLX.Keylog
