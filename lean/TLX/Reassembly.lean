/-
Model of the TCP reassembly of ONE direction of a TLS-over-TCP session (C05, and the `metadata`
carrier lists used by C07).  Core Lean only (linked into `tlxdriver`).

Source mirrored (tlexport/, tree with the reassembly repair, /repo commit 803155a `fix: TCP reassembly
tracks the next expected sequence number (reordering, loss, wrap at 2^32)` = fix_c05.patch):

  main.py 221-223 (`if len(packet.tls_data) == 0: continue`)            → `ingest`
  session.py `Session.handle_packet` (seen_packets_* duplicate test)     → first test of `step`
  session.py `Session.get_tls_records` (append to the direction's buffer,
             extract, hand the records on in order, clear)               → `step` (append, `extract`, `out ++ recs`)
  session.py `Session.extract_server_buf` / `extract_client_buf`
             (the two functions are textually the same up to server/client) → `extract`:
      next expected sequence number / earliest segment before anything was delivered → `base`, `minBy`, `presyncKey`
      `buffer.sort(key=lambda x: (x.seq - base) % 2**32)` (stable)        → `sortBy (syncKey W base)`
      `if buffer[0].seq != base: return`                                   → head test
      contiguity loop `(a.seq + len(a.tls_data)) % 2**32 != b.seq`         → `contiguous`
      `packet_ranges`, `packet_data`                                       → `ranges`, `bufData`
      first `while True` scan computing `need_data`                        → `needData`
      second scan building `TlsRecord(binary, metadata, …)`                → `records`, `carriers`
      `next_seq = (base + total_packet_len) % 2**32`, `buffer.clear()`     → last branch of `extract`
  tlsrecord.py: `raw = binary` is what is compared (the record as framed).

`Legacy.*` is the same machine as the code was before the repair (pinned tree, session.py 493-597:
sort by the raw `seq`, contiguity without modulus, no expected-sequence state).  It is kept for the
witnesses of Props/C05 (what failed) and for `tlxdriver reasm-legacy`.

Conventions.  `handle_packet` runs when a packet is read and `get_tls_records` once at the end over
`packet_buffer`; the duplicate test touches only `seen`, the extraction only the buffers, so the model
fuses the two passes into one `step` per packet (same records in the same order: `accept`/`drainW`
below are the two passes as written in the source, `Props/C05.two_pass_eq_fused` proves them equal to `runW`).  Python's `(a - b) % W` is
`pyModSub` (equal to `Int.emod`, see there).  The modulus `2**32` (and `2**31` = half of it) is the
parameter `W` of the `…W` definitions so that lemmas never see the literal; `step = stepW (2^32)`.
Not modelled: everything that happens to a record after it is handed to `handle_tls_record`;
`server_counter`/`client_counter` (write-only); the `isserver` flag of `TlsRecord` (always `True` in
both functions, unused).
-/
import TLX.Py
namespace TLX.Reassembly
open TLX

/-- A TCP segment as the session sees it: `id` names the packet object (for carrier lists),
    `seq` is the raw 32-bit sequence-number field, `data` is `packet.tls_data`. -/
structure Seg where
  id : Nat
  seq : Nat
  data : Bytes
  deriving Repr, DecidableEq

/-- A record as handed to `handle_tls_record`: `TlsRecord.raw` and the ids of `TlsRecord.metadata`. -/
abbrev Rec := Bytes × List Nat

/-- Per-direction state: `seen_packets_*`, `*_next_seq`, `*_packet_buffer`, and everything handed on so far. -/
structure St where
  seen : List Nat
  next : Option Nat
  buf : List Seg
  out : List Rec
  deriving Repr, DecidableEq

def St.init : St := ⟨[], none, [], []⟩

/-! ### Python helpers -/

/-- Python `(a - b) % W` for naturals `a`, `b` and `W > 0` (result in `[0, W)`).  Computed in `Nat`
    (`-b ≡ W - b % W`), because Lean's runtime boxes integers beyond 31 bits; it *is* the integer
    remainder: `Lemmas.ModSeq.pyModSub_eq_emod : (pyModSub a b W : Int) = ((a : Int) - b) % W`. -/
def pyModSub (a b W : Nat) : Nat := (a + (W - b % W)) % W

/-- Put `p` in front of the first element whose key is not smaller than its key (one step of a
    stable insertion sort that works through the list from the right). -/
def insertBy (key : Seg → Nat) (p : Seg) : List Seg → List Seg
  | [] => [p]
  | a :: r => if key a < key p then a :: insertBy key p r else p :: a :: r

/-- `list.sort(key=…)`: stable (an element stays in front of the equal-key elements to its right). -/
def sortBy (key : Seg → Nat) (l : List Seg) : List Seg := l.foldr (insertBy key) []

/-- `min(a :: r, key=…)`: the first element with the smallest key. -/
def minBy (key : Seg → Nat) (a : Seg) (r : List Seg) : Seg :=
  r.foldl (fun m x => if key x < key m then x else m) a

/-! ### Framing of the concatenated buffer -/

/-- `packet_data`. -/
def bufData (b : List Seg) : Bytes := (b.map (·.data)).flatten

/-- `packet_ranges`: `(start, end, packet)` with running offsets. -/
def ranges : List Seg → Nat → List (Nat × Nat × Nat)
  | [], _ => []
  | a :: r, start => (start, start + a.data.length, a.id) :: ranges r (start + a.data.length)

/-- `int.from_bytes(packet_data[index + 3: index + 5], 'big') + 5` (the slice clamps). -/
def recLenAt (d : Bytes) (i : Nat) : Nat := Bytes.beNat (d.slice (i + 3) (i + 5)) + 5

theorem recLenAt_ge (d : Bytes) (i : Nat) : 5 ≤ recLenAt d i := by unfold recLenAt; omega

/-- First scan: `need_data`.  `total - index == 0` / `total - index < 5` are integer tests
    (`index` may have run past `total`, then the difference is negative and `need_data = True`). -/
def needData (d : Bytes) (i : Nat) : Bool :=
  if i = d.length then false
  else if d.length < i + 5 then true
  else needData d (i + recLenAt d i)
termination_by d.length - i
decreasing_by have := recLenAt_ge d i; omega

/-- `metadata`: packets whose range `[start, end)` passes `index < end and index + record_len > start`,
    in buffer order. -/
def carriers (rs : List (Nat × Nat × Nat)) (i n : Nat) : List Nat :=
  (rs.filter (fun r => decide (i < r.2.1) && decide (i + n > r.1))).map (·.2.2)

/-- Second scan (`while index != total_packet_len`).  It only runs when the first scan ended with
    `index == total`, so it lands on `total` as well (`Lemmas`: `records` is only used under
    `needData = false`); the model stops at `index ≥ total` to stay total. -/
def records (d : Bytes) (rs : List (Nat × Nat × Nat)) (i : Nat) : List Rec :=
  if d.length ≤ i then []
  else (d.slice i (i + recLenAt d i), carriers rs i (recLenAt d i)) :: records d rs (i + recLenAt d i)
termination_by d.length - i
decreasing_by have := recLenAt_ge d i; omega

/-- Everything after the contiguity test: `none` = `need_data` (nothing emitted, buffer kept). -/
def flush (buf : List Seg) : Option (List Rec) :=
  if needData (bufData buf) 0 then none else some (records (bufData buf) (ranges buf 0) 0)

/-! ### The machine as repaired -/

/-- Sort key once the direction is in sync: distance from the next expected sequence number. -/
def syncKey (W base : Nat) (x : Seg) : Nat := pyModSub x.seq base W

/-- Key used to find the earliest segment while nothing has been delivered yet: signed distance from
    the earliest segment so far (`(x.seq - ref + 2**31) % 2**32`). -/
def presyncKey (W ref : Nat) (x : Seg) : Nat := pyModSub (x.seq + W / 2) ref W

/-- `(a.seq + len(a.tls_data)) % 2**32 == b.seq` for all neighbours. -/
def contiguous (W : Nat) : List Seg → Bool
  | a :: b :: r => ((a.seq + a.data.length) % W == b.seq) && contiguous W (b :: r)
  | _ => true

/-- `base`: the next expected sequence number, or — while nothing has been delivered — the sequence
    number of the earliest segment seen so far (`first` is `buffer[0]`, the earliest at the last call). -/
def baseOf (W : Nat) (next : Option Nat) (first : Seg) (rest : List Seg) : Nat :=
  match next with
  | some b => b
  | none => (minBy (presyncKey W first.seq) first rest).seq

/-- `extract_*_buf` from the head test on; `buf` is the sorted buffer. -/
def deliver (W : Nat) (st : St) (base : Nat) (buf : List Seg) : St :=
  match buf with
  | [] => st          -- not reachable (sorting keeps the length; `buffer[0]` would raise)
  | h :: _ =>
    if h.seq ≠ base then { st with buf := buf }
    else if !contiguous W buf then { st with buf := buf }
    else match flush buf with
      | none => { st with buf := buf }
      | some recs =>
        { st with buf := [], next := some ((base + (bufData buf).length) % W), out := st.out ++ recs }

/-- `extract_*_buf` after the new packet has been appended to `st.buf`. -/
def extract (W : Nat) (st : St) : St :=
  match st.buf with
  | [] => st            -- not reachable: the caller has just appended a packet
  | first :: rest =>
    let base := baseOf W st.next first rest
    deliver W st base (sortBy (syncKey W base) (first :: rest))

/-- One packet of the direction: duplicate test of `handle_packet`, then `get_tls_records`' body. -/
def stepW (W : Nat) (st : St) (p : Seg) : St :=
  if st.seen.contains p.seq then st
  else extract W { st with seen := st.seen ++ [p.seq], buf := st.buf ++ [p] }

/-- main.py: packets without payload never reach the session. -/
def ingestW (W : Nat) (st : St) (p : Seg) : St := if p.data.isEmpty then st else stepW W st p

def runW (W : Nat) (segs : List Seg) : List Rec := (segs.foldl (ingestW W) St.init).out

def step : St → Seg → St := stepW (2 ^ 32)
def ingest : St → Seg → St := ingestW (2 ^ 32)
/-- All records handed on, in order, for the packets of one direction in capture order. -/
def run : List Seg → List Rec := runW (2 ^ 32)

/-! ### The two passes as the source runs them

`main.run()` calls `Session.handle_packet` for every packet while reading the capture and
`Session.get_tls_records` once at the end (`Session.decrypt`).  `Props/C05.two_pass_eq_fused` shows that
this is `runW`. -/

/-- All `handle_packet` calls for the packets of one direction: `packet_buffer` and `seen_packets_*`. -/
def accept (seen : List Nat) : List Seg → List Seg × List Nat
  | [] => ([], seen)
  | p :: ps =>
    if seen.contains p.seq then accept seen ps
    else ((accept (seen ++ [p.seq]) ps).1.cons p, (accept (seen ++ [p.seq]) ps).2)

/-- `get_tls_records` over `packet_buffer` (no duplicate test here). -/
def drainW (W : Nat) (st : St) (ps : List Seg) : St :=
  ps.foldl (fun st p => extract W { st with buf := st.buf ++ [p] }) st

/-- Records handed on when the two passes run one after the other. -/
def runTwoPassW (W : Nat) (segs : List Seg) : List Rec :=
  let pb := accept [] (segs.filter (fun p => !p.data.isEmpty))
  (drainW W { St.init with seen := pb.2 } pb.1).out

/-! ### The machine before the repair (pinned tree) -/
namespace Legacy

def contiguous : List Seg → Bool
  | a :: b :: r => (a.seq + a.data.length == b.seq) && contiguous (b :: r)
  | _ => true

theorem contiguous_nil : contiguous [] = true := by simp [contiguous]

def extract (st : St) : St :=
  let buf := sortBy (·.seq) st.buf
  if !contiguous buf then { st with buf := buf }
  else match flush buf with
    | none => { st with buf := buf }
    | some recs => { st with buf := [], out := st.out ++ recs }

def step (st : St) (p : Seg) : St :=
  if st.seen.contains p.seq then st
  else extract { st with seen := st.seen ++ [p.seq], buf := st.buf ++ [p] }

def ingest (st : St) (p : Seg) : St := if p.data.isEmpty then st else step st p

def run (segs : List Seg) : List Rec := (segs.foldl ingest St.init).out

end Legacy
end TLX.Reassembly
