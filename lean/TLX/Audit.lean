/-
Audit meta-program: `#audit_module M` lists every theorem declared in module `M` (exactly that
module) with the axioms it depends on. The check scripts parse the output; `obligations` and
`discharged` in the evidence files are these measured counts.
-/
import Lean
open Lean Elab Command

elab "#audit_module " m:ident : command => do
  let env ← getEnv
  let target := m.getId
  let names := env.constants.fold (init := #[]) fun acc name ci =>
    match ci with
    | .thmInfo _ => acc.push name
    | _ => acc
  let mut n : Nat := 0
  for name in names do
    match env.getModuleIdxFor? name with
    | some idx =>
      let modName := env.header.moduleNames[idx.toNat]!
      if modName == target then
        -- skip compiler-generated auxiliaries (equation lemmas, match splitters, …)
        if name.isInternalDetail then continue
        -- auto-generated companions (equation lemmas of imported definitions are realised lazily in the
        -- importing module, injectivity/sizeOf lemmas of structures, …) are not proof obligations of ours
        let last := match name with | .str _ s => s | _ => ""
        if last == "eq_def" || last == "injEq" || last == "inj" || last == "sizeOf_spec" || last == "induct"
            || last == "induct_unfolding" || last == "fun_cases" || last == "fun_cases_unfolding"
            || (last.startsWith "eq_" && (last.drop 3).all Char.isDigit) then continue
        let axs ← liftCoreM (Lean.collectAxioms name)
        let axl := axs.toList.map toString
        logInfo m!"AUDIT-THEOREM {name} AXIOMS {axl}"
        n := n + 1
    | none => pure ()
  logInfo m!"AUDIT-COUNT {target} {n}"
