/-
The TLS-over-TCP export of TLExport as ONE executable model: the component models composed the way the source
composes the components.

  main loop (TLX.MainLoop: classification, demultiplexing by 4-tuple, roles, final concatenation)
    └─ per connection (`tlsMachine`, this file = `Session.__init__/handle_packet/decrypt`):
         reassembly per direction (TLX.Reassembly)  →  records in capture order
         session state machine (TLX.Session)        →  `application_traffic`
            with `Ops` instantiated by
              `split_cipher_suite` over the table regenerated from the source (TLX.CipherSuite, C14)
              `find_session_secrets` and the label rules (TLX.Keylog, C09)
              `generate_keys` + `key_derivator` (TLX.KeySchedule with Lean's own MD5/SHA-1/SHA-2, C15)
              `Decryptor` (TLX.RecordLayer, C01) over the cipher primitives `P` (executed with `Toy.prims`)
         `OutputBuilder.build` (TLX.TcpOut, C06)    →  frames with addresses, ports (C10), times (C07)

Glue mirrored here (session.py): `generate_keys` 116-214 — which resolved-suite fields go where (`KeyLength`,
`MAC.digest_size`, `CryptoAlgo[0]`, `CryptoAlgo[1]`, `Mode[1]`, `TagLength`, the block-size table 205-210, the
extensions dict for encrypt-then-MAC, `self.tls_version`), the label filter for TLS ≤ 1.2 (138-140), `bytes.fromhex`
of the chosen lines; `handle_packet` 253-276 (direction = source is the server endpoint); `decrypt` 278-299.
Not modelled: record compression (`compression_method` = 1, the only value `Decryptor` acts on, makes `genKeys` answer `raised`; the correspondence
generators never negotiate it), logging.
Everything the theorems of `Props/C03, C07Session, C08Session, C13Session` say about `Session.run` for EVERY `Ops`
holds for this instance; `Props/C01Pipeline` adds what is specific to it. Core Lean only (linked into `tlxdriver`).
-/
import TLX.Session
import TLX.Reassembly
import TLX.RecordLayer
import TLX.KeySchedule
import TLX.CipherSuite
import TLX.Keylog
import TLX.TcpOut
import TLX.MainLoop
namespace TLX.Pipeline
open TLX TLX.Tok

-- ------------------------------------------------------------------ resolved suite → the arguments of the callees
/-- `cipher_suite["CryptoAlgo"][0]` by class name → the record layer's algorithm tag -/
def algOfCls (n : List Nat) : Cipher.Alg :=
  if n = t_AES then .aes else if n = t_TripleDES then .tdes else if n = t_Camellia then .camellia
  else if n = t_IDEA then .idea else if n = t_AESCCM then .aesccm else if n = t_AESGCM then .aesgcm
  else if n = t_ChaCha20Poly1305 then .chachaPoly else if n = t_ARC4 then .arc4 else .none

/-- … → the key schedule's tag (harness/c15.py CLASS_TAG) -/
def tagOfCls (n : List Nat) : KeySchedule.CipherTag :=
  if n = t_AES then .aes else if n = t_TripleDES then .tripleDES else if n = t_Camellia then .camellia
  else if n = t_IDEA then .idea else if n = t_AESCCM then .aesccm else if n = t_AESGCM then .aesgcm
  else if n = t_ChaCha20Poly1305 then .chacha else if n = t_ARC4 then .rc4 else .other

def macOfCls (n : List Nat) : Option KeySchedule.MacTag :=
  if n = t_SHA256 then some .sha256 else if n = t_SHA384 then some .sha384 else if n = t_SHA1 then some .sha1
  else if n = t_MD5 then some .md5 else none

/-- the block-size table of generate_keys 205-210 (bits) -/
def blockBits (a : Cipher.Alg) : Nat :=
  match a with
  | .aes | .aesccm | .aesgcm | .camellia => 128
  | .tdes | .idea => 64
  | _ => 0

structure SuiteArgs where
  ks : KeySchedule.Suite
  bulk : Cipher.Alg
  tagLen : Option Nat

/-- what `generate_keys` reads from the dict `split_cipher_suite` returned; `none`: a field has a type the code
    cannot use (`KeyLength` not an int, `MAC` still a tuple) and an exception follows -/
def suiteArgs (ps : CipherSuite.Params) : Option SuiteArgs :=
  match CipherSuite.getPart ps t_CryptoAlgo, CipherSuite.getPart ps t_Mode, CipherSuite.getPart ps t_KeyLength,
        CipherSuite.getPart ps t_MAC, CipherSuite.getPart ps t_TagLength with
  | some (.tup cls cf), some (.tup _ mf), some (.int kl), some (.cls mac), some tl =>
    match macOfCls mac with
    | some m =>
      some { ks := { cipher := tagOfCls cls, cryptoFlag := cf != 0, modeFlag := mf != 0, keyLen := kl, mac := m },
             bulk := algOfCls cls,
             tagLen := match tl with
               | .int n => some n
               | _ => none }
    | none => none
  | _, _, _, _, _ => none

def ksVersion : Session.Ver → KeySchedule.Version
  | .ssl30 => .ssl30 | .tls10 => .tls10 | .tls11 => .tls11 | .tls12 => .tls12 | .tls13 => .tls13

def rlVersion : Session.Ver → RecordLayer.Version
  | .ssl30 => .ssl30 | .tls10 => .tls10 | .tls11 => .tls11 | .tls12 => .tls12 | .tls13 => .tls13

-- ------------------------------------------------------------------ key log → the secret list of generate_keys
def bytesOfNats (l : List Nat) : Bytes := l.map UInt8.ofNat
def natsOfBytes (b : Bytes) : List Nat := b.map (·.toNat)

def labelOf (s : Keylog.Str) : KeySchedule.Label :=
  if s = Keylog.s_CLIENT_RANDOM then .clientRandom else if s = Keylog.s_RSA then .rsa
  else if s = Keylog.s_CHTS then .clientHandshake else if s = Keylog.s_SHTS then .serverHandshake
  else if s = Keylog.s_CTS0 then .clientTraffic0 else if s = Keylog.s_STS0 then .serverTraffic0
  else if s = Keylog.s_CETS then .clientEarly else if s = Keylog.s_SETS then .serverEarly else .other

/-- the lines whose value the derivation will `bytes.fromhex`: for TLS ≤ 1.2 only the first line; for TLS 1.3 every
    line with one of the four labels `dev_tls_13_keys` knows. `none` = a ValueError from `fromhex`. -/
def secretsOf (is13 : Bool) (ks : List Keylog.Key) : Option (List KeySchedule.Secret) :=
  if is13 then
    ks.mapM fun k =>
      if Keylog.labels13.contains k.label then (Keylog.fromHex k.value).map fun v => (labelOf k.label, bytesOfNats v)
      else some (.other, [])
  else
    match ks with
    | [] => some []
    | k :: rest =>
      if k.label = Keylog.s_CLIENT_RANDOM ∨ k.label = Keylog.s_RSA then
        (Keylog.fromHex k.value).map fun v => (labelOf k.label, bytesOfNats v) :: rest.map fun _ => (.other, [])
      else some ((.other, []) :: rest.map fun _ => (.other, []))

-- ------------------------------------------------------------------ installed keys → `Decryptor(...)`
def keysOfInstalled : KeySchedule.Installed → RecordLayer.Keys
  | .legacy k => { cKey := some k.clientKey, sKey := some k.serverKey, cIv := some k.clientIv, sIv := some k.serverIv }
  | .tls13 d => { cHsKey := d.clientHsKey, sHsKey := d.serverHsKey, cAppKey := d.clientAppKey, sAppKey := d.serverAppKey,
                  cHsIv := d.clientHsIv, sHsIv := d.serverHsIv, cAppIv := d.clientAppIv, sAppIv := d.serverAppIv }

/-- `Session.generate_keys` -/
def genKeys (H : Crypto.Prims) (P : Cipher.Prims) (kl : List Keylog.Key) (v : Option Session.Ver) (suite cr sr : Bytes)
    (exts : Session.Exts) (comp : UInt8) : Session.Gen RecordLayer.Dec :=
  let _ := sr
  -- cipher_suite_parser.split_cipher_suite(bytes(server_cipher_suite)): the table is keyed by 2-byte strings
  match (if suite.length = 2 then CipherSuite.resolve (Bytes.beNat suite) else none) with
  | none => .noSuite
  | some ps =>
    match suiteArgs ps with
    | none => .raised
    | some a =>
      let found := Keylog.findSessionSecrets kl (natsOfBytes cr)
      let found := if v = some .tls13 then found
        else found.filter fun k => k.label == Keylog.s_CLIENT_RANDOM || k.label == Keylog.s_RSA
      match found with
      | [] => .noSecrets
      | _ =>
        match v with
        | none => .raised                                       -- `keys` unbound: no `case` matched
        | some v =>
          if comp = 1 then .raised else                         -- DEFLATE (the only value the decryptor acts on): not modelled
          match secretsOf (v = .tls13) found with
          | none => .raised
          | some secrets =>
            match KeySchedule.generateKeys H (ksVersion v) a.ks secrets cr sr with
            | .error _ => .raised
            | .ok none => .noSecrets
            | .ok (some inst) =>
              let macLen := (KeySchedule.macSuite H a.ks.mac).outLen
              let etm := (Session.extGet exts [0x00, 0x16]).isSome
              match RecordLayer.Dec.init P a.bulk (rlVersion v) macLen a.tagLen (blockBits a.bulk) etm
                      (keysOfInstalled inst) with
              | .error _ => .raised
              | .ok d => .installed d

/-- the `Ops` of the real pipeline -/
def ops (H : Crypto.Prims) (P : Cipher.Prims) (kl : List Keylog.Key) : Session.Ops RecordLayer.Dec where
  decrypt d r srv :=
    match RecordLayer.Rec.ofRaw r.raw with
    | .error _ => (d, none)
    | .ok rr =>
      match d.decrypt P rr srv with
      | .ok v d' => (d', some v)
      | .err _ d' => (d', none)
  updateKeys d srv :=
    match d.updateKeys srv with
    | .ok _ d' => (d', true)
    | .err _ d' => (d', false)
  genKeys := genKeys H P kl

-- ------------------------------------------------------------------ one connection
/-- what `Pkt.tag` stands for as far as a TLS session is concerned -/
structure Info where
  seq : Nat
  ts : Nat
  srcMac : Bytes
  dstMac : Bytes
  ipv6 : Bool
  deriving Inhabited

/-- a `Session` object between `__init__` and `decrypt()`: roles and the packets handed to `handle_packet` -/
structure Conn where
  /-- `portmap`, `keep_original_ports`, `exp_meta` as stored by `Session.__init__` -/
  opts : MainLoop.Opts
  server : MainLoop.Endpoint
  client : MainLoop.Endpoint
  serverMac : Bytes
  clientMac : Bytes
  ipv6 : Bool
  pkts : List MainLoop.Pkt

structure Live where
  rc : Reassembly.St := Reassembly.St.init
  rs : Reassembly.St := Reassembly.St.init
  sess : Session.St RecordLayer.Dec := {}

/-- one packet of `packet_buffer`: the direction's reassembler, then `handle_tls_record` for every record it
    hands on (`get_tls_records`; the duplicate test of `handle_packet` is the first step of `Reassembly.step`) -/
def feedPkt (O : Session.Ops RecordLayer.Dec) (exportMeta : Bool) (info : Nat → Info) (server : MainLoop.Endpoint)
    (L : Live) (p : MainLoop.Pkt) : Live :=
  let srv := p.src == server
  let seg : Reassembly.Seg := ⟨p.tag, (info p.tag).seq, p.payload⟩
  let st0 := if srv then L.rs else L.rc
  let st1 := Reassembly.step { st0 with out := [] } seg
  let sess := st1.out.foldl (fun s r => Session.handleRecord O exportMeta s ⟨r.1, r.2⟩ srv) L.sess
  if srv then { L with rs := st1, sess := sess } else { L with rc := st1, sess := sess }

/-- an exported frame with everything the writer gets -/
structure OutPkt where
  ts : Nat
  srcMac : Bytes
  dstMac : Bytes
  src : MainLoop.Endpoint
  dst : MainLoop.Endpoint
  ipv6 : Bool
  flags : Nat
  seq : Nat
  ack : Nat
  payload : Bytes
  /-- a UDP datagram of the QUIC export (`flags`, `seq`, `ack` unused) rather than a TCP segment -/
  udp : Bool
  deriving Repr, DecidableEq

def portmapFn (pm : List (Int × Int)) (p : Nat) : Option Nat :=
  (pm.reverse.find? (·.1 == (p : Int))).map (·.2.toNat)

def addressed (o : MainLoop.Opts) (c : Conn) (f : TcpOut.Frame) : OutPkt :=
  let sp := TcpOut.exportedServerPort o.keep (portmapFn o.portmap) c.server.port
  let s : MainLoop.Endpoint := ⟨c.server.ip, sp⟩
  if f.fromServer then ⟨f.ts, c.serverMac, c.clientMac, s, c.client, c.ipv6, f.flags, f.seq, f.ack, f.payload, false⟩
  else ⟨f.ts, c.clientMac, c.serverMac, c.client, s, c.ipv6, f.flags, f.seq, f.ack, f.payload, false⟩

/-- `Session.decrypt()`: `none` = `OutputBuilder.build` raised (a record without carriers; unreachable, see
    `Props.C05.metadata_is_overlap`) -/
def connOut (H : Crypto.Prims) (P : Cipher.Prims) (info : Nat → Info) (c : Conn)
    (kl : List Keylog.Key) : Option (List OutPkt) :=
  let o := c.opts
  let L := c.pkts.foldl (feedPkt (ops H P kl) o.metadata info c.server) {}
  let recs := L.sess.traffic.map fun e =>
    (⟨e.data, e.record.carriers.map fun id => (info id).ts, e.fromServer⟩ : TcpOut.Rec)
  (TcpOut.build recs).map fun fs => fs.map (addressed o c)

/-- the TLS machine of the main loop -/
def tlsMachine (H : Crypto.Prims) (P : Cipher.Prims) (info : Nat → Info) :
    MainLoop.TlsMachine Keylog.Key Conn OutPkt where
  new o' p :=
    let r := MainLoop.rolesOf o'.ports p
    let i := info p.tag
    let srcIsServer := r.1 == p.src
    { opts := o', server := r.1, client := r.2,
      serverMac := if srcIsServer then i.srcMac else i.dstMac,
      clientMac := if srcIsServer then i.dstMac else i.srcMac,
      ipv6 := i.ipv6, pkts := [p] }
  feed c p := { c with pkts := c.pkts ++ [p] }
  out c kl := (connOut H P info c kl).getD []

end TLX.Pipeline
