/-
From the capture FILE to what the main loop iterates over: the glue of `run()` (main.py l. 204–232).  Core Lean only.

    for ts, buf in pcap_reader:                                   Container.read
        if ts == -1:
            keylog.extend(get_keys_from_string(buf.decode('ascii')))   `decodeAscii`, Keylog.getKeysFromString
            continue
        packet = Packet(buf, float(ts))                            Dissect.dissect, `Container.Time.toFloat`
        … calculate_checksum_tcp(packet) / calculate_checksum_udp(packet)   Checksum.check  (only with `-c`, only for a
                                                                             non-empty payload)

An exception anywhere in this loop ends the run before anything is written (the output is written after the loop), so the
whole function is `Except`: the first failing step decides, in the order the generator and the loop body alternate.

`Pkt.tag` is the index of the item in the capture (DSB items count), `Info` is what `Pipeline` reads through the tag: the TCP
sequence number, the time stamp in integer microseconds (`Container.usOfFloat` of the double `float(ts)` — executable only),
the MAC addresses and `ipv6_packet`.

`ts == -1`: a PACKET whose time stamp evaluates to −1 would be taken for a DSB by the tool; with the unsigned tick counts of
both containers that needs a negative `if_tsoffset`, which is outside C12's hypothesis (`offset ≥ 0` there) — modelled
nevertheless: `isMinusOne`.
-/
import TLX.Container
import TLX.Dissect
import TLX.Checksum
import TLX.KeylogSrc
import TLX.Pipeline
namespace TLX.Ingest
open TLX

inductive Err
  | container (e : Container.Err)   -- the reader raised
  | unicode                         -- `buf.decode('ascii')`: UnicodeDecodeError
  | frame (e : Dissect.DErr)        -- `Packet(buf, ts)` raised
  | overflow                        -- `len(packet.tcp).to_bytes(2, 'big')`: OverflowError (IPv4, ≥ 65536 transport bytes, `-c`)
  deriving DecidableEq, Repr

def Err.name : Err → String
  | .container e => s!"container-{e.name}"
  | .unicode => "unicode"
  | .frame e => s!"frame-{e.name}"
  | .overflow => "overflow"

/-- `buf.decode('ascii')` -/
def decodeAscii (b : Bytes) : Except Err Keylog.Str :=
  if b.all (· < 0x80) then .ok (b.map UInt8.toNat) else .error .unicode

/-- `ts == -1` for a packet item: on the double the reader computed, or exactly for a `Decimal` -/
def isMinusOne (t : Container.Time) : Bool :=
  if t.decimal then t.offset * t.divisor + t.ticks == -(t.divisor : Int) && t.divisor != 0
  else t.toFloat == -1.0

/-- the checksum verdict `run()` computes for an accepted packet (`-c`); `none`: not computed (no TCP/UDP or empty payload) -/
def verdict (x : Dissect.IpPkt) : Except Err (Option Bool) :=
  let go := fun (k : Checksum.L4) (payload : Bytes) =>
    if payload.isEmpty then (.ok none : Except Err (Option Bool))
    else match Checksum.check k x.v6 x.src x.dst x.p x.seg with
      | .ok b => .ok (some b)
      | .error _ => .error .overflow
  match x.l4 with
  | .tcp _ _ _ _ pl => go .tcp pl
  | .udp _ _ pl => go .udp pl
  | .other => .ok none

def otherPkt (tag : Nat) : MainLoop.Pkt := ⟨.other, ⟨[], 0⟩, ⟨[], 0⟩, [], true, tag⟩

/-- `Packet(buf, float(ts))` and the checksum call, as a `MainLoop.Pkt` plus the `Info` behind its tag -/
def framePkt (c : Bool) (tag us : Nat) (buf : Bytes) : Except Err (MainLoop.Pkt × Pipeline.Info) :=
  match Dissect.dissect buf with
  | .error e => .error (.frame e)
  | .ok .notIp => .ok (otherPkt tag, ⟨0, us, [], [], false⟩)
  | .ok (.ip x) =>
    match (if c then verdict x else .ok none) with
    | .error e => .error e
    | .ok v =>
      let ok := v.getD true
      let info (seq : Nat) : Pipeline.Info := ⟨seq, us, x.srcMac, x.dstMac, x.v6⟩
      match x.l4 with
      | .tcp sp dp seq _ pl => .ok (⟨.tcp, ⟨x.src, sp⟩, ⟨x.dst, dp⟩, pl, ok, tag⟩, info seq)
      | .udp sp dp pl => .ok (⟨.udp, ⟨x.src, sp⟩, ⟨x.dst, dp⟩, pl, ok, tag⟩, info 0)
      | .other => .ok (otherPkt tag, info 0)

abbrev Out := List (MainLoop.Item Keylog.Key) × List (Nat × Pipeline.Info)

/-- the loop over what the reader yields; `tag` counts items -/
def go (hc : Keylog.HexClass) (c : Bool) : Nat → List Container.Item → Except Err Out
  | _, [] => .ok ([], [])
  | tag, .dsb s :: rest =>
    match decodeAscii s with
    | .error e => .error e
    | .ok str =>
      match go hc c (tag + 1) rest with
      | .error e => .error e
      | .ok (xs, is) => .ok (.dsb (Keylog.getKeysFromString hc str) :: xs, is)
  | tag, .pkt t buf :: rest =>
    if isMinusOne t then                                   -- taken for a DSB: `buf.decode('ascii')`
      match decodeAscii buf with
      | .error e => .error e
      | .ok str =>
        match go hc c (tag + 1) rest with
        | .error e => .error e
        | .ok (xs, is) => .ok (.dsb (Keylog.getKeysFromString hc str) :: xs, is)
    else
      match framePkt c tag (Container.usOfFloat t.toFloat) buf with
      | .error e => .error e
      | .ok (p, i) =>
        match go hc c (tag + 1) rest with
        | .error e => .error e
        | .ok (xs, is) => .ok (.frame p :: xs, (tag, i) :: is)

/-- The reader is a generator: the loop body runs on every item BEFORE the reader looks at the next block, so an item that
    raises wins over damage further down the file (`Container.readPrefix`: what was yielded, and how the generator ended). -/
def itemsWith (hc : Keylog.HexClass) (c legacy : Bool) (file : Bytes) : Except Err Out :=
  match Container.readPrefix legacy file with
  | .error e => .error (.container e)
  | .ok (its, ended) =>
    match go hc c 0 its with
    | .error e => .error e
    | .ok out =>
      match ended with
      | none => .ok out
      | some e => .error (.container e)

def lookup (is : List (Nat × Pipeline.Info)) (tag : Nat) : Pipeline.Info :=
  ((is.find? (·.1 == tag)).map (·.2)).getD default

/-- the capture file as the main loop sees it (checksums evaluated as under `-c`; without `-c` nothing reads `csumOk`) -/
def items (legacy : Bool) (file : Bytes) : Except Err (List (MainLoop.Item Keylog.Key) × (Nat → Pipeline.Info)) :=
  match itemsWith Keylog.srcHexClass true legacy file with
  | .error e => .error e
  | .ok (xs, is) => .ok (xs, lookup is)

end TLX.Ingest
