/-
Model-independent fold theorems used by several properties.
* an online machine whose steps only append output is prefix-monotone (C08);
* routing by a key fixed at session creation delivers to every session exactly the sub-sequence of inputs
  carrying its key, for every interleaving (C04).
-/
namespace TLX

section Prefix
variable {σ ι ο : Type}

/-- one step: new state and the outputs appended by this input -/
structure Machine (σ ι ο : Type) where
  step : σ → ι → σ × List ο

def Machine.run (m : Machine σ ι ο) (s : σ) : List ι → σ × List ο
  | [] => (s, [])
  | x :: xs =>
    let (s1, o1) := m.step s x
    let (s2, o2) := m.run s1 xs
    (s2, o1 ++ o2)

theorem Machine.run_append (m : Machine σ ι ο) (s : σ) (a b : List ι) :
    (m.run s (a ++ b)).2 = (m.run s a).2 ++ (m.run (m.run s a).1 b).2 := by
  induction a generalizing s with
  | nil => simp [Machine.run]
  | cons x xs ih =>
    simp only [List.cons_append, Machine.run]
    rw [ih]
    simp [List.append_assoc]

/-- cutting the input after any `n` items only removes a suffix of the output -/
theorem Machine.prefix_monotone (m : Machine σ ι ο) (s : σ) (xs : List ι) (n : Nat) :
    (m.run s (xs.take n)).2 <+: (m.run s xs).2 := by
  have := m.run_append s (xs.take n) (xs.drop n)
  rw [List.take_append_drop] at this
  rw [this]
  exact List.prefix_append _ _
end Prefix

section Demux
variable {κ ι : Type} [DecidableEq κ]

/-- sessions are identified by the key of their first packet; each keeps the packets routed to it, in order -/
def route (key : ι → κ) : List (κ × List ι) → ι → List (κ × List ι)
  | [], p => [(key p, [p])]
  | (k, ps) :: rest, p => if k = key p then (k, ps ++ [p]) :: rest else (k, ps) :: route key rest p

def demux (key : ι → κ) (pkts : List ι) : List (κ × List ι) := pkts.foldl (route key) []

def lookupSession (k : κ) : List (κ × List ι) → List ι
  | [] => []
  | (k', ps) :: rest => if k' = k then ps else lookupSession k rest

theorem lookup_route (key : ι → κ) (ss : List (κ × List ι)) (p : ι) (k : κ) :
    lookupSession k (route key ss p) = if key p = k then lookupSession k ss ++ [p] else lookupSession k ss := by
  induction ss with
  | nil =>
    simp only [route, lookupSession]
    split <;> simp
  | cons hd tl ih =>
    obtain ⟨k', ps⟩ := hd
    simp only [route]
    by_cases h1 : k' = key p
    · subst h1
      simp only [if_true, lookupSession]
      by_cases h2 : key p = k
      · simp [h2]
      · simp [h2]
    · simp only [if_neg h1, lookupSession]
      by_cases h2 : k' = k
      · subst h2
        have : ¬ key p = k' := fun h => h1 h.symm
        simp [this]
      · simp only [if_neg h2]
        exact ih

/-- every session receives exactly the sub-sequence of packets carrying its key, in capture order —
    for *every* interleaving, because the statement is about an arbitrary packet list -/
theorem demux_filter (key : ι → κ) (pkts : List ι) (k : κ) :
    lookupSession k (demux key pkts) = pkts.filter (fun p => key p = k) := by
  unfold demux
  suffices ∀ ss, lookupSession k (pkts.foldl (route key) ss) =
      lookupSession k ss ++ pkts.filter (fun p => key p = k) by
    simpa [lookupSession] using this []
  induction pkts with
  | nil => intro ss; simp
  | cons p ps ih =>
    intro ss
    rw [List.foldl_cons, ih, lookup_route]
    by_cases h : key p = k
    · simp [h, List.filter_cons]
    · simp [h, List.filter_cons]
end Demux

end TLX
