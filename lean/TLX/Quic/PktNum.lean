/-
Model of `QuicSession.get_full_packet_number` (tlexport/quic/quic_session.py) and of the
RFC 9000 Appendix A.3 algorithm it has to equal (C16).

Core Lean only (this file is linked into the `tlxdriver` executable).
-/
namespace TLX.Quic.PktNum

/-- RFC 9000 Appendix A.3 `DecodePacketNumber`, generic in the window `W = 2^(8n)` and the
    packet-number bound `B = 2^62`. `(expected & ~mask) | trunc` is `expected - expected % W + trunc`
    for `trunc < W`. -/
def rfcDecode (W B largest trunc : Nat) : Nat :=
  let hwin := W / 2
  let expected := largest + 1
  let cand := (expected - expected % W) + trunc
  if cand + hwin ≤ expected ∧ cand + W < B then cand + W
  else if cand > expected + hwin ∧ cand ≥ W then cand - W
  else cand

/-- The implementation: `if packet_number_int > largest_pkn == 0: return packet_num` first
    (shortcut when nothing larger than 0 has been seen), then A.3 with an *integer* half window. -/
def implDecode (W B largest trunc : Nat) : Nat :=
  if trunc > largest ∧ largest = 0 then trunc else rfcDecode W B largest trunc

/-- The per-(space, direction) table update: the entry becomes the maximum seen so far. -/
def implUpdate (largest out : Nat) : Nat := if out > largest then out else largest

/-- Packet-number spaces as keyed by `PACKET_TYPE_MAP`: Initial, Handshake, and one shared space
    for 0-RTT and 1-RTT. -/
inductive Space | initial | handshake | app
  deriving DecidableEq, Repr

/-- Packet types that carry a packet number, and the space `PACKET_TYPE_MAP` sends them to. -/
inductive PType | initial | handshake | zeroRtt | oneRtt
  deriving DecidableEq, Repr

def PType.space : PType → Space
  | .initial => .initial
  | .handshake => .handshake
  | .zeroRtt => .app
  | .oneRtt => .app

/-- `packet_number_server` / `packet_number_client`: largest packet number per (direction, space). -/
structure Table where
  get : Bool → Space → Nat

def Table.init : Table := ⟨fun _ _ => 0⟩

def Table.set (t : Table) (srv : Bool) (sp : Space) (v : Nat) : Table :=
  ⟨fun b s => if b = srv ∧ s = sp then v else t.get b s⟩

/-- One call of `get_full_packet_number`: returns the reconstructed number and the new table. -/
def step (t : Table) (srv : Bool) (ty : PType) (n trunc : Nat) : Nat × Table :=
  let largest := t.get srv ty.space
  let out := implDecode (2 ^ (8 * n)) (2 ^ 62) largest trunc
  (out, t.set srv ty.space (implUpdate largest out))

end TLX.Quic.PktNum
