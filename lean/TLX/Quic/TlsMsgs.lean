/-
Model of the TLS handshake-message parser of QUIC sessions,
`QuicTlsSession` in tlexport/quic/quic_tls_parser.py:

  * `handleRecord`               — `handle_record`                  (lines 191-199)
  * `handleClientHello`/`chBody` — `handle_client_hello`            (lines 75-106)
  * `handleServerHello`          — `handle_server_hello`            (lines 108-119)
  * `handleEncryptedExtensions`  — `handle_encrypted_extensions`    (lines 121-126)
  * `getExtensions`, `parseExts`, `applyExt`, `applyExts` — `get_extensions` (lines 128-168)
  * `parseTP`, `quicTransportParameters` — `get_quic_transport_parameters` (lines 170-189)

State: the attributes the rest of the tool reads (`client_random`, `ciphersuite`, `alpn`, `tls_vers`,
`greasy_bit`, `new_data`) plus `session_id` (an attribute that does not exist before the first
ClientHello: `none`). `None` is `none`, `b""` is `some []`.

Python traps mirrored:
  * slices clamp (`Bytes.slice`, `List.drop`), `int.from_bytes(b"")` is 0;
  * `record[i]` on `bytes` raises IndexError when `i >= len(record)` — *not* caught in this file; the
    error leaves `handle_record` (result `(state, some .index)`), and the attribute assignments made
    before it stay in place (`tls_vers`, `client_random` before `record[34]`; also `session_id`,
    `ciphersuite` before `record[index]`); `new_data` is not set;
  * `e_body[2]` in the ALPN case is modelled as raising too (`applyExt = none`); it is unreachable
    because the collecting loop only keeps extensions whose body is complete
    (Lemmas.TlsHello.getExtensions_no_raise);
  * `get_quic_transport_parameters` runs inside a bare `try/except: pass`: any exception of the
    varint helpers (`b[0]` on an empty slice, short slice) is swallowed and `greasy_bit` is unchanged,
    because it is only assigned in the second loop, after all parameters were parsed;
  * `get_extensions` returns silently when the outer length does not match exactly, and its
    collecting loop silently stops at the first incomplete extension.
Both `while True` loops terminate on every input: the extension loop consumes at least 4 bytes per
round, the transport-parameter loop at least 2 (two varints were read from a non-empty body, so
`index >= 2 <= len(extension_body)`); this is what the `termination_by` proofs below check.

Not modelled: `update_session`/`handle_buffer` (CRYPTO-frame reassembly; `handle_buffer` passes
`buffer[0]` and `buffer[:4 + record_len]`, so there `len(record) == 4 + length field`).
Core Lean only (linked into `tlxdriver`).
-/
import TLX.Py
import TLX.Quic.Varint
namespace TLX.Quic.TlsMsgs
open TLX TLX.Quic.Varint

inductive Err | index
  deriving DecidableEq, Repr

structure State where
  clientRandom : Option Bytes := none
  ciphersuite : Option Bytes := none
  alpn : Option Bytes := none
  tlsVers : Option Bytes := none
  greasyBit : Bool := false
  newData : Bool := false
  sessionId : Option Bytes := none
  deriving DecidableEq, Repr

def State.init : State := {}

/-- An entry of the `extensions` list: `(extension_type, extension_length, extension_body)`. -/
structure PExt where
  ty : Bytes
  len : Nat
  body : Bytes
  deriving DecidableEq, Repr

/-- The collecting `while True` loop of `get_extensions` (after the outer length was stripped). -/
def parseExts (r : Bytes) : List PExt :=
  if r.length < 4 then []
  else
    let el := Bytes.beNat (Bytes.slice r 2 4)
    if r.length < 4 + el then []
    else ⟨Bytes.slice r 0 2, el, Bytes.slice r 4 (4 + el)⟩ :: parseExts (r.drop (4 + el))
termination_by r.length
decreasing_by simp only [List.length_drop]; omega

set_option linter.unusedVariables false in
/-- The first loop of `get_quic_transport_parameters`; `none` = an exception was raised
    (`IndexError` from `get_variable_length_int_length` / `decode_variable_length_int`). -/
def parseTP (eb : Bytes) : Option (List (Nat × Nat × Bytes)) :=
  if eb.length < 1 then some []
  else
    -- parameter_type_length / parameter_type
    match h1 : readVarint eb 0 with
    | none => none
    | some (pty, index) =>
      -- parameter_length_field_length / parameter_length at `index = parameter_type_length`
      match h2 : readVarint eb index with
      | none => none
      | some (plen, index2) =>
        match parseTP (eb.drop (index2 + plen)) with
        | none => none
        | some ps => some ((pty, plen, Bytes.slice eb index2 (index2 + plen)) :: ps)
termination_by eb.length
decreasing_by
  have := readVarint_idx _ _ _ _ h1
  have := readVarint_idx _ _ _ _ h2
  simp only [List.length_drop]; omega

/-- `try: self.get_quic_transport_parameters(e_body) except: pass`. -/
def quicTransportParameters (s : State) (eb : Bytes) : State :=
  match parseTP eb with
  | none => s
  | some ps => if ps.any (fun p => p.1 == 0x2ab2) then { s with greasyBit := true } else s

/-- One round of the `for e_type, e_length, e_body in extensions: match …` loop;
    `none` = IndexError from `e_body[2]`. -/
def applyExt (s : State) (e : PExt) : Option State :=
  match Bytes.beNat e.ty with
  | 43 => if e.len ≠ 2 then some s else some { s with tlsVers := some e.body }
  | 16 =>
    if e.len < 3 then some s
    else
      match e.body[2]? with
      | none => none
      | some al =>
        if e.body.length ≠ 3 + al.toNat then some s
        else some { s with alpn := some (Bytes.slice e.body 3 (3 + al.toNat)) }
  | 57 => some (quicTransportParameters s e.body)
  | _ => some s

def applyExts (s : State) : List PExt → State × Option Err
  | [] => (s, none)
  | e :: es =>
    match applyExt s e with
    | none => (s, some .index)
    | some s' => applyExts s' es

/-- `get_extensions(record)`. -/
def getExtensions (s : State) (r : Bytes) : State × Option Err :=
  if (r.drop 2).length ≠ Bytes.beNat (Bytes.slice r 0 2) then (s, none)
  else applyExts s (parseExts (r.drop 2))

/-- `get_extensions(...)` followed by `self.new_data = True` (skipped when the call raised). -/
def extsThenNewData (s : State) (r : Bytes) : State × Option Err :=
  match getExtensions s r with
  | (s', some e) => (s', some e)
  | (s', none) => ({ s' with newData := true }, none)

/-- `handle_client_hello` from `record = record[4:]` on. -/
def chBody (s : State) (r : Bytes) : State × Option Err :=
  let s := { s with tlsVers := some (Bytes.slice r 0 2), clientRandom := some (Bytes.slice r 2 34) }
  match r[34]? with
  | none => (s, some .index)                       -- session_id_length = record[34]
  | some sil =>
    let s := { s with sessionId := some (Bytes.slice r 35 (35 + sil.toNat)) }
    let csl := Bytes.beNat (Bytes.slice r (35 + sil.toNat) (35 + sil.toNat + 2))
    let cs := Bytes.slice r (35 + sil.toNat + 2) (35 + sil.toNat + 2 + csl)
    let s := { s with ciphersuite := some (Bytes.slice cs 0 2) }
    match r[35 + sil.toNat + 2 + csl]? with
    | none => (s, some .index)                     -- compression_methods_length = record[index]
    | some cml => extsThenNewData s (r.drop (35 + sil.toNat + 2 + csl + (1 + cml.toNat)))

def handleClientHello (s : State) (record : Bytes) : State × Option Err :=
  if record.length < 38 then (s, none)
  else if record.length < 4 + Bytes.beNat (Bytes.slice record 1 4) then (s, none)
  else chBody s (record.drop 4)

def handleServerHello (s : State) (record : Bytes) : State × Option Err :=
  if record.length < 44 then (s, none)
  else
    match record[38]? with
    | none => (s, some .index)                     -- unreachable: len(record) >= 44
    | some sil =>
      let r := record.drop (39 + sil.toNat)
      let s := { s with ciphersuite := some (Bytes.slice r 0 2) }
      extsThenNewData s (r.drop 3)

def handleEncryptedExtensions (s : State) (record : Bytes) : State × Option Err :=
  if record.length < 6 then (s, none)
  else extsThenNewData s (record.drop 4)

/-- `handle_record(record_type, record)`. -/
def handleRecord (s : State) (recordType : Nat) (record : Bytes) : State × Option Err :=
  match recordType with
  | 1 => handleClientHello s record
  | 2 => handleServerHello s record
  | 8 => handleEncryptedExtensions s record
  | _ => (s, none)

end TLX.Quic.TlsMsgs
