/-
Model of `QuicTlsSession.update_session` + `handle_buffer` (tlexport/quic/quic_tls_parser.py:27-73): how CRYPTO
frames become TLS handshake messages. Core Lean only.

Mirrors
* the eight independent (direction, packet type) spaces of `__init__` (17-24): `State` is a function of `Key`;
* `update_session` (27-49), identical code for both directions: append the frame, *stable* sort by offset
  (`sortByOffset`), iterate over a SNAPSHOT of the sorted buffer and consume every frame whose offset equals the
  running offset — which advances by `crypto_length` (not by `len(crypto)`) during the pass — removing it with
  `list.remove` (`removeFrame`: first element that *is* the object; `CryptoFrame` has no `__eq__`, so object
  identity, modelled by the `id` field); then `handle_buffer(isserver)`;
* `handle_buffer` (51-73): for the four packet types in the order INITIAL, RTT_O, RTT_1, HANDSHAKE of the frame's
  direction: `len(buffer) <= 4: break`, 3-byte length `buffer[1:4]`, `len(buffer) < 4 + record_len: break`,
  `handle_record(buffer[0], buffer[:4+record_len])`, keep the rest. The buffer attribute is assigned *after*
  `handle_record` returned: when `handle_record` raises (IndexError inside the hello parsers, see `Quic/TlsMsgs`),
  the message stays at the head of the buffer, later packet types are not looked at, and the exception leaves
  `update_session` (frame buffer, offset and byte buffer changes of the pass stay in place).
  `handle_record` is a parameter here: `raises m` says whether it raises on message `m`.
* `CryptoFrame.__init__` (quic_frame.py:152-165): `crypto = payload[index : index + crypto_length]`, so
  `len(crypto) ≤ crypto_length` with `<` when the packet payload ends early; hence `clen` is its own field.

Not modelled: `packet_type` outside the four dict keys (KeyError; CRYPTO frames are only parsed out of Initial,
0-RTT, Handshake and 1-RTT packets), `list.remove` raising ValueError (unreachable: the object was in the snapshot
and is removed at most as often as it occurs there).
-/
import TLX.Py
namespace TLX.Quic.CryptoStream
open TLX

/-- what `update_session` reads of a `CryptoFrame`; `id` = object identity -/
structure CFrame where
  id : Nat
  offset : Nat
  crypto : Bytes
  clen : Nat
  deriving DecidableEq, Repr

/-- the dict keys of the per-direction tables, in dict (= iteration) order -/
inductive PT | initial | rtt0 | rtt1 | handshake
  deriving DecidableEq, Repr

/-- (isserver, packet type) -/
abbrev Key := Bool × PT

/-- one space: `*_frame_buffer[pt]`, `*_offset[pt]`, `*_buffer[pt]` -/
structure KState where
  fb : List CFrame := []
  off : Nat := 0
  buf : Bytes := []
  deriving DecidableEq, Repr

/-- insert `f`, which stood *before* all of the (sorted) list in the original order: before the first element
    whose key is not smaller -/
def insertSorted (f : CFrame) : List CFrame → List CFrame
  | [] => [f]
  | g :: gs => if f.offset ≤ g.offset then f :: g :: gs else g :: insertSorted f gs

/-- `list.sort(key=lambda x: x.offset)`: stable -/
def sortByOffset : List CFrame → List CFrame
  | [] => []
  | f :: fs => insertSorted f (sortByOffset fs)

/-- `list.remove(frame)` with identity comparison -/
def removeFrame (f : CFrame) : List CFrame → List CFrame
  | [] => []
  | g :: gs => if g.id = f.id then gs else g :: removeFrame f gs

/-- the `for crypto_frame in list(buffer)` pass over the snapshot -/
def pass : List CFrame → KState → KState
  | [], s => s
  | g :: gs, s =>
    if g.offset = s.off then pass gs ⟨removeFrame g s.fb, s.off + g.clen, s.buf ++ g.crypto⟩
    else pass gs s

/-- `update_session` up to the call of `handle_buffer`, for the frame's own space -/
def absorb (s : KState) (f : CFrame) : KState :=
  let fb := sortByOffset (s.fb ++ [f])
  pass fb { s with fb := fb }

/-- the `while True` loop of `handle_buffer` on one buffer: (messages given to `handle_record`, the raising one
    included; what the buffer attribute holds afterwards; whether `handle_record` raised) -/
def msgLoop (raises : Bytes → Bool) (b : Bytes) : List Bytes × Bytes × Bool :=
  if b.length ≤ 4 then ([], b, false)
  else
    let n := Bytes.beNat (Bytes.slice b 1 4)
    if b.length < 4 + n then ([], b, false)
    else
      let m := b.take (4 + n)
      if raises m then ([m], b, true)
      else
        let r := msgLoop raises (b.drop (4 + n))
        (m :: r.1, r.2.1, r.2.2)
termination_by b.length
decreasing_by simp only [List.length_drop]; omega

structure State where
  ks : Key → KState

def State.init : State := ⟨fun _ => {}⟩

def State.set (st : State) (k : Key) (v : KState) : State :=
  ⟨fun k' => if k' = k then v else st.ks k'⟩

/-- `handle_buffer(isserver)` over the remaining packet types -/
def handleBufferGo (raises : Bytes → Bool) (srv : Bool) : List PT → State → State × List Bytes × Bool
  | [], st => (st, [], false)
  | pt :: pts, st =>
    let r := msgLoop raises (st.ks (srv, pt)).buf
    let st' := st.set (srv, pt) { st.ks (srv, pt) with buf := r.2.1 }
    if r.2.2 then (st', r.1, true)
    else
      let q := handleBufferGo raises srv pts st'
      (q.1, r.1 ++ q.2.1, q.2.2)

def handleBuffer (raises : Bytes → Bool) (srv : Bool) (st : State) : State × List Bytes × Bool :=
  handleBufferGo raises srv [.initial, .rtt0, .rtt1, .handshake] st

/-- `update_session(frame)` for a frame of space `k`: new state, the messages passed to `handle_record` in call
    order, and whether the call ended in an exception -/
def update (raises : Bytes → Bool) (st : State) (k : Key) (f : CFrame) : State × List Bytes × Bool :=
  handleBuffer raises k.1 (st.set k (absorb (st.ks k) f))

/-- a whole history of `update_session` calls; an exception ends one call, not the history (the caller,
    `QuicSession.decrypt_packet`, catches it per packet) -/
def run (raises : Bytes → Bool) : State → List (Key × CFrame) → State × List Bytes
  | st, [] => (st, [])
  | st, (k, f) :: rest =>
    let r := update raises st k f
    let q := run raises r.1 rest
    (q.1, r.2.1 ++ q.2)

/-! Single-space view used by the theorems: one space fed in isolation. -/

/-- one `update_session` seen from the frame's own space when no other buffer of that direction holds a whole
    message (`Props.C02Crypto.update_own_space`) -/
def kstep (raises : Bytes → Bool) (s : KState) (f : CFrame) : KState × List Bytes × Bool :=
  let a := absorb s f
  let r := msgLoop raises a.buf
  ({ a with buf := r.2.1 }, r.1, r.2.2)

def krun (raises : Bytes → Bool) : KState → List CFrame → KState × List Bytes
  | s, [] => (s, [])
  | s, f :: rest =>
    let r := kstep raises s f
    let q := krun raises r.1 rest
    (q.1, r.2.1 ++ q.2)

end TLX.Quic.CryptoStream
