/-
Model of `QUICOutputbuilder.build(metadata)` (tlexport/quic/quic_output_builder.py, lines 28–111): the QUIC export
loop that turns the decrypted frame list of one connection into output UDP datagrams.

Source lines mirrored (quic_output_builder.py):
* `exported`   — l. 33–42: `data = None`; under `metadata` frame type 0x06 reads `frame.crypto`, 0xfe reads
                 `frame.payload`; then `if frame_type in [0x08 … 0x0f]: data = frame.stream_data`
                 `elif data is None: continue`. (With metadata and type 0x06/0xfe the `in [...]` test is false and
                 `data is None` is false, so the frame goes on to the grouping code.) `Frame.data` stands for the one
                 attribute the code reads for that frame type.
* `step`       — l. 44–47 (`ts is None`: the first exported frame sets `ts`, `isserver`), l. 50–52 (same
                 `(ts, isserver)` as the open datagram: `packets.extend(data)`), l. 53–83 (otherwise: the open datagram
                 is appended to `self.out` with the *old* `ts`/`isserver`, and a new one is opened with this frame).
* `finish`     — l. 85–87 (`ts is None` at the end: nothing is exported), l. 89–111 (final flush).
* `build`      — the whole method on a fresh builder object.
* `stepG`/`finishG`/`groups` — the same loop, instrumented: an output datagram is kept as the list of the input
                 frames whose data it carries instead of the concatenation. `chunks` forgets everything about a
                 frame but (is it a STREAM frame, its data). `build_eq_groups`/`build_eq_chunks`
                 (Lemmas/UdpOut.lean) tie them to `build`.

Python traps kept: `ts is None` is tested on the *variable* (a frame whose capture time is 0 still counts: `Nat`
times are never `None`, so `cur = none` is exactly "no exported frame yet"); `frame.src_packet.ts == ts` is an
equality test only, the time is otherwise only copied.

Not modelled: scapy serialisation, MAC/IP addresses and ports of the produced packets (the port choice is
`exportedServerPort` in TcpOut / Props C10), the `ipv6` switch (it only selects the IP layer class), and `self.out`
persisting across repeated `build()` calls on the same object (`QuicSession` builds a fresh object per export).

Core Lean only (linked into `tlxdriver`).
-/
import TLX.Py
namespace TLX.Quic.UdpOut
open TLX

/-- One decrypted QUIC frame as the builder sees it: `frame_type`, `src_packet.ts`, `src_packet.isserver`, and the
    attribute read for this type (`stream_data` / `crypto` / `payload`). -/
structure Frame where
  ftype : Nat
  ts : Nat
  isServer : Bool
  data : Bytes
  deriving DecidableEq, Repr

/-- One element of `self.out`: `(packet, ts)` with the direction and UDP payload of `packet`. -/
structure Dgram where
  isServer : Bool
  ts : Nat
  payload : Bytes
  deriving DecidableEq, Repr

/-- `frame.frame_type in [0x08, 0x09, 0x0a, 0x0b, 0x0c, 0x0d, 0x0e, 0x0f]` -/
def isStream (t : Nat) : Bool := t ∈ [0x08, 0x09, 0x0a, 0x0b, 0x0c, 0x0d, 0x0e, 0x0f]

/-- l. 33–42: the data this frame contributes, `none` = `continue`. -/
def exported (md : Bool) (f : Frame) : Option Bytes :=
  let data : Option Bytes :=
    if md then
      if f.ftype = 0x06 then some f.data
      else if f.ftype = 0xfe then some f.data
      else none
    else none
  if isStream f.ftype then some f.data
  else match data with
    | none => none
    | some d => some d

/-- the grouping key `(frame.src_packet.ts, frame.src_packet.isserver)` -/
def Frame.key (f : Frame) : Nat × Bool := (f.ts, f.isServer)

/-- Loop state: the open datagram `(ts, isserver, packets)` (`none` = `ts is None`) and `self.out`. -/
abbrev St := Option (Nat × Bool × Bytes) × List Dgram

def init : St := (none, [])

/-- One iteration of the `for frame in self.decrypted_traffic` loop. -/
def step (md : Bool) (s : St) (f : Frame) : St :=
  match exported md f with
  | none => s
  | some data =>
    match s.1 with
    | none => (some (f.ts, f.isServer, data), s.2)
    | some (ts, srv, packets) =>
      if f.ts = ts ∧ f.isServer = srv then (some (ts, srv, packets ++ data), s.2)
      else (some (f.ts, f.isServer, data), s.2 ++ [⟨srv, ts, packets⟩])

/-- After the loop: `if ts is None: return self.out`, else the final flush. -/
def finish (s : St) : List Dgram :=
  match s.1 with
  | none => s.2
  | some (ts, srv, packets) => s.2 ++ [⟨srv, ts, packets⟩]

def build (md : Bool) (fs : List Frame) : List Dgram := finish (fs.foldl (step md) init)

/-! The same loop, keeping the frames of each output datagram apart. -/

abbrev Group := (Nat × Bool) × List Frame
abbrev StG := Option Group × List Group

def stepG (md : Bool) (s : StG) (f : Frame) : StG :=
  match exported md f with
  | none => s
  | some _ =>
    match s.1 with
    | none => (some (f.key, [f]), s.2)
    | some (k, acc) =>
      if f.ts = k.1 ∧ f.isServer = k.2 then (some (k, acc ++ [f]), s.2)
      else (some (f.key, [f]), s.2 ++ [(k, acc)])

def finishG (s : StG) : List Group :=
  match s.1 with
  | none => s.2
  | some g => s.2 ++ [g]

/-- `build`, with every output datagram given as its key and the exported input frames it was made of. -/
def groups (md : Bool) (fs : List Frame) : List Group := finishG (fs.foldl (stepG md) (none, []))

/-- what `chunks` remembers of a frame: is it a STREAM frame (exported with and without metadata), and its data -/
def chunkOf (f : Frame) : Bool × Bytes := (isStream f.ftype, f.data)

/-- `build`, with every output datagram given as its key and the list of its `(isStream, data)` chunks. -/
def chunks (md : Bool) (fs : List Frame) : List ((Nat × Bool) × List (Bool × Bytes)) :=
  (groups md fs).map fun g => (g.1, g.2.map chunkOf)

/-- the output datagram of a group -/
def Group.dgram (g : Group) : Dgram := ⟨g.1.2, g.1.1, (g.2.map (·.data)).flatten⟩

end TLX.Quic.UdpOut
