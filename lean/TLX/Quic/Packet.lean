/-
Dissected QUIC packets — mirrors `tlexport/quic/quic_packet.py` (`QuicPacketType`, `QuicHeaderType`,
`LongQuicPacket`, `ShortQuicPacket`). Shared by the dissector model (`TLX/Quic/Dissect.lean`) and the packet-level
session model (`TLX/Quic/Session.lean`). Core Lean only.

A field that the Python constructor leaves unassigned for a packet type (e.g. `token` on a Handshake packet) is
`none`; reading it raises AttributeError in Python and must be an explicit error in a model that reads it.
Timestamps are abstract (`Nat`, microseconds in the drivers): the code only copies and compares them for equality.
-/
import TLX.Py
namespace TLX.Quic

/-- `QuicPacketType` -/
inductive PType | initial | rtt0 | rtt1 | handshake | retry | versionNeg
  deriving DecidableEq, Repr, Inhabited

/-- `QuicHeaderType` (get_header_type only ever yields LONG or SHORT) -/
inductive HType | short | long
  deriving DecidableEq, Repr, Inhabited

/-- packet-number spaces, `PACKET_TYPE_MAP` of quic_session.py: 0-RTT and 1-RTT share one space -/
inductive Space | initial | handshake | app
  deriving DecidableEq, Repr, Inhabited

def PType.space : PType → Option Space
  | .initial => some .initial
  | .handshake => some .handshake
  | .rtt0 | .rtt1 => some .app
  | .retry | .versionNeg => none          -- KeyError in PACKET_TYPE_MAP

/-- one dissected packet (`LongQuicPacket` / `ShortQuicPacket`); all header fields as the bytes found on the wire
    (after header-protection removal for `firstByte` and `pn`) -/
structure Pkt where
  htype : HType
  ptype : PType
  isServer : Bool
  ts : Nat
  /-- `first_byte`: one byte, header protection removed (Retry / Version Negotiation: as on the wire) -/
  firstByte : Bytes
  /-- long header only -/
  version : Option Bytes := none
  dcidLen : Option Bytes := none
  dcid : Bytes := []
  scidLen : Option Bytes := none
  scid : Option Bytes := none
  /-- Initial only -/
  tokenLenBytes : Option Bytes := none
  token : Option Bytes := none
  /-- Initial / Handshake / 0-RTT: the Length field as found on the wire -/
  lenBytes : Option Bytes := none
  /-- unprotected packet-number bytes (1–4); `none` for Retry / Version Negotiation -/
  pn : Option Bytes := none
  /-- protected payload incl. the AEAD tag; `none` for Retry / Version Negotiation -/
  payload : Option Bytes := none
  /-- short header only: `first_byte >> 2 & 1` -/
  keyPhase : Option Nat := none
  /-- Retry only -/
  retryToken : Option Bytes := none
  retryTag : Option Bytes := none
  deriving DecidableEq, Repr, Inhabited

end TLX.Quic
