/-
Model of the QUIC packet dissector of TLExport (C02; totality part of C03):

  source (tlexport/quic/quic_dissector.py)                     model
  -----------------------------------------------------------  ---------------------------------------------
  byte_xor / byte_and (9-20)                                    `byteXor` / `byteAnd` (zip: the shorter operand wins)
  get_header_type (23-27)                                       `isLong`
  get_packet_type (30-42)                                       `packetType` (its `case _` is unreachable: 2 bits)
  remove_header_protection (45-62)                              `removeHP`
  extract_quic_packet (65-287)                                  `extractLong`, `protectedTail` (the Length / packet number /
                                                                payload part that the INITIAL and the HANDSHAKE|RTT_O
                                                                branches spell out twice), `extractShort`, `extract`
  QuicSession.handle_packet, the loop (quic_session.py 262-267) `dissectLoop` (any per-iteration state), `dissectAll`
  QuicSession.decrypt_packet, associated data (219-228)         `aad`

What is a parameter and what is an input
  * `make_hp_mask` / `make_chacha_hp_mask` (quic_key_generation.py) are cryptographic primitives:
    `MaskFn = (chacha : Bool) → (hpKey sample : Bytes) → Option Bytes`; `none` = the primitive raises
    (cryptography 50: AES key length ∉ {16,24,32} or ChaCha20 key length ≠ 32 → ValueError; AES-ECB of a 1…15 byte
    sample → ValueError at `finalize`; ChaCha20 nonce (= sample) ≠ 16 bytes → ValueError). AES-ECB of the EMPTY
    sample returns `b""`: the mask is then empty and `mask[0]` raises IndexError — the model keeps a mask of any
    length (`mask[0]` on `[]` → `.index`; `mask[1:pn_len+1]` clamps and `zip` truncates the packet number).
  * `keys` is an input: `KeyName → Option Bytes`; `none` = the name is missing (KeyError), the value is `None`
    (`dev_quic_keys` stores `None` for absent early secrets → TypeError in the primitive) or `keys` itself is `None`.
  * `ciphersuite == b'\x13\x03'` is the input `chacha : Bool`; INITIAL passes `ciphersuite=None` (always AES).
  * `guessed_dcid` is a byte string (handle_packet always passes one; `None` is not modelled).
  * `in_packet.timestamp` is copied into every packet: `ts`.

Python traps kept
  * `struct.unpack_from(fmt, data)` raises struct.error iff `len(data) < calcsize(fmt)` (`need`); all formats are
    `B`/`<n>s` (no alignment); `"0s"` yields `b""`; `str(n) + "s"` with `n < 0` is a bad format → struct.error.
  * `scid_len = decode_variable_length_int(header_parts[4])` decodes ONE byte as a varint: a SCID-length byte ≥ 0x40
    announces 2/4/8 bytes and `variable_integer[1]` raises IndexError.
  * `datagram_data[0]` on `b""` raises IndexError (before the zero-padding test).
  * `int.from_bytes(datagram_data, "big") == 0`: an all-zero remainder is dropped without a packet.
  * VERSION_NEG: the packet IS appended, `supported_version = header_parts[-1:-5]` is the empty tuple (constant, no
    field), `total_packet_len` is never bound → UnboundLocalError at the final slice → caught: remainder dropped,
    the packet is returned. `first_byte` of VERSION_NEG and RETRY is a Python `int` (not `bytes`): the model keeps
    the one byte, the driver marks it.
  * every exception ends in the `except Exception`: `tls_data = b""`, packets appended so far are returned.
    `Out.err` records which trap fired (not observable from the return value; the real code prints it).
  * the two `case _: pass` arms (header type, packet type) are unreachable.
  * RETRY: `x[:-16]` / `x[-16:]` on a remainder shorter than 16 bytes: token empty, tag = the whole remainder.
  * derived attributes `token_len` (int) and `packet_len` (bytes) are functions of stored fields: `Pkt.tokenLen`,
    `Pkt.packetLen`.

`dissectLoop` is defined by well-founded recursion on the remaining length; Lean accepts it only because of
`extract_rest_lt` (every call on non-empty data returns a strictly shorter remainder) — the "cannot hang" part: an
edit of the model that mirrors a source change letting some branch return the data unshortened breaks the build at
the termination obligation.
Core Lean only (linked into `tlxdriver`).
-/
import TLX.Quic.Packet
import TLX.Quic.Varint
namespace TLX.Quic.Dissect
open TLX TLX.Quic TLX.Quic.Varint

/-- which Python exception the final `except Exception` caught -/
inductive DErr
  | index      -- IndexError (`datagram_data[0]`, `variable_integer[i]`, `mask[0]`)
  | struct     -- struct.error (buffer too short, negative count)
  | key        -- KeyError / TypeError: no usable header-protection key under the name looked up
  | mask       -- the header-protection primitive raised (ValueError)
  | unbound    -- UnboundLocalError: `total_packet_len` (VERSION_NEG)
  deriving DecidableEq, Repr, Inhabited

/-- the seven `keys[...]` names the dissector reads -/
inductive KeyName
  | serverInitial | clientInitial | serverHandshake | clientHandshake | clientEarly
  | serverApplication | clientApplication
  deriving DecidableEq, Repr, Inhabited

/-- `make_chacha_hp_mask(hp_key, sample)` (`chacha = true`) / `make_hp_mask(hp_key, sample)`; `none` = raises -/
abbrev MaskFn := Bool → Bytes → Bytes → Option Bytes

/-- what `handle_packet` passes besides the datagram: `keys=self.keys`, `ciphersuite=self.tls_session.ciphersuite` -/
structure Env where
  keys : KeyName → Option Bytes
  /-- `ciphersuite == b'\x13\x03'` -/
  chacha : Bool

/-- result of one `extract_quic_packet` call: `packet_buf`, the new `in_packet.tls_data`, the exception caught -/
structure Out where
  pkts : List Pkt
  rest : Bytes
  err : Option DErr := none
  deriving DecidableEq, Repr, Inhabited

def byteXor (a b : Bytes) : Bytes := List.zipWith (· ^^^ ·) a b
def byteAnd (a b : Bytes) : Bytes := List.zipWith (· &&& ·) a b

/-- `datagram_data[0] >> 7 & 1 == 1` -/
def isLong (fb : UInt8) : Bool := (fb >>> 7) &&& 1 == 1

/-- `(datagram_data[0] & 0b00110000) >> 4`, matched against 0..3 -/
def packetType (fb : UInt8) : PType :=
  match ((fb &&& 0x30) >>> 4).toNat with
  | 0 => .initial
  | 1 => .rtt0
  | 2 => .handshake
  | _ => .retry          -- 3; `case _: return None` is unreachable

/-- `struct.unpack_from(fmt, data)` with `calcsize(fmt) = size` -/
def need (d : Bytes) (size : Nat) : Except DErr Unit :=
  if d.length < size then .error .struct else .ok ()

def ofOpt {α} (e : DErr) : Option α → Except DErr α
  | none => .error e
  | some a => .ok a

/-- remove_header_protection: `(first_packet_byte, packet_number_field, pn_len)` -/
def removeHP (mask : MaskFn) (long : Bool) (sample : Bytes) (fb : UInt8) (hpKey : Bytes) (d : Bytes)
    (pnOff : Nat) (chacha : Bool) : Except DErr (UInt8 × Bytes × Nat) := do
  let m ← ofOpt .mask (mask chacha hpKey sample)
  let m0 ← ofOpt .index m[0]?
  -- byte_xor(bytes([first_packet_byte]), byte_and(bytes([mask[0]]), b"\x0f" | b"\x1f")): one byte each
  let fb' := fb ^^^ (m0 &&& (if long then 0x0f else 0x1f))
  -- `decode_variable_length_int(byte_and(bytes([first]), b"\x03")) + 1`
  let v ← ofOpt .index (decodeVarint [fb' &&& 0x03])
  let pnLen := v + 1
  .ok (fb', byteXor (Bytes.slice d pnOff (pnOff + pnLen)) (Bytes.slice m 1 (pnLen + 1)), pnLen)

/-- the part both protected long-header branches share, from the Length field at `lenOff` on:
      packet_len_len = get_variable_length_int_length(unpack(fmt + "s")[-1]); … packet_len_bytes; pn_offset;
      sample; hp_key = keys[name]; remove_header_protection; payload
    → `(packet_len_bytes, first_byte, packet_num, pn_len, payload, packet_len_len)` -/
def protectedTail (mask : MaskFn) (env : Env) (name : KeyName) (chacha : Bool) (d : Bytes) (fb : UInt8)
    (lenOff : Nat) : Except DErr (Bytes × UInt8 × Bytes × Nat × Bytes × Nat) := do
  need d (lenOff + 1)
  let pll ← ofOpt .index (getVarintLength (Bytes.slice d lenOff (lenOff + 1)))
  need d (lenOff + pll)
  let plb := Bytes.slice d lenOff (lenOff + pll)
  let plen ← ofOpt .index (decodeVarint plb)       -- `.to_bytes(packet_len_len, "big")` always fits
  let pnOff := lenOff + pll
  let sample := Bytes.slice d (pnOff + 4) (pnOff + 4 + 16)
  let key ← ofOpt .key (env.keys name)
  let (fb', pn, pnLen) ← removeHP mask true sample fb key d pnOff chacha
  -- fmt += str(pn_len) + "s" + str(packet_len - pn_len) + "s"
  if plen < pnLen then .error .struct
  else do
    need d (pnOff + pnLen + (plen - pnLen))
    let payload := Bytes.slice d (pnOff + pnLen) (pnOff + pnLen + (plen - pnLen))
    .ok (plb, fb', pn, pnLen, payload, pll)

/-- the `case QuicHeaderType.LONG` arm: the packet and `total_packet_len` (`none` = never bound) -/
def extractLong (mask : MaskFn) (env : Env) (isServer : Bool) (ts : Nat) (d : Bytes) (fb : UInt8) :
    Except DErr (Pkt × Option Nat) := do
  need d 6                                             -- "B4sB"
  let version := Bytes.slice d 1 5
  let ptype := packetType fb
  let dlb ← ofOpt .struct d[5]?
  let dl := dlb.toNat
  need d (6 + dl)
  let dcid := Bytes.slice d 6 (6 + dl)
  need d (7 + dl)
  let sl ← ofOpt .index (decodeVarint (Bytes.slice d (6 + dl) (7 + dl)))
  need d (7 + dl + sl)
  let scid := Bytes.slice d (7 + dl) (7 + dl + sl)
  let pnOff := 7 + dcid.length + scid.length
  let base : Pkt := { htype := .long, ptype := ptype, isServer := isServer, ts := ts, firstByte := [fb],
                      version := some version, dcidLen := some [dlb], dcid := dcid,
                      scidLen := some [UInt8.ofNat sl], scid := some scid }
  if version = [0, 0, 0, 0] then do
    need d (pnOff + 4)                                 -- fmt + "ssss"
    .ok ({ base with ptype := .versionNeg }, none)
  else match ptype with
  | .initial => do
    need d (pnOff + 1)
    let tll ← ofOpt .index (getVarintLength (Bytes.slice d pnOff (pnOff + 1)))
    need d (pnOff + tll)
    let tlb := Bytes.slice d pnOff (pnOff + tll)
    let tl ← ofOpt .index (decodeVarint tlb)
    need d (pnOff + tll + tl)
    let token := Bytes.slice d (pnOff + tll) (pnOff + tll + tl)
    let (plb, fb', pn, pnLen, payload, pll) ←
      protectedTail mask env (if isServer then .serverInitial else .clientInitial) false d fb (pnOff + tll + tl)
    .ok ({ base with firstByte := [fb'], tokenLenBytes := some tlb, token := some token, lenBytes := some plb,
                     pn := some pn, payload := some payload },
         some (1 + 4 + 1 + dl + 1 + sl + tll + tl + pll + pnLen + payload.length))
  | .handshake => do
    let (plb, fb', pn, pnLen, payload, pll) ←
      protectedTail mask env (if isServer then .serverHandshake else .clientHandshake) env.chacha d fb pnOff
    .ok ({ base with firstByte := [fb'], lenBytes := some plb, pn := some pn, payload := some payload },
         some (1 + 4 + 1 + dl + 1 + sl + pll + pnLen + payload.length))
  | .rtt0 => do
    let (plb, fb', pn, pnLen, payload, pll) ← protectedTail mask env .clientEarly env.chacha d fb pnOff
    .ok ({ base with firstByte := [fb'], lenBytes := some plb, pn := some pn, payload := some payload },
         some (1 + 4 + 1 + dl + 1 + sl + pll + pnLen + payload.length))
  | .retry =>
    -- fmt + str(len(datagram_data) - (1 + 4 + 1 + dcid_len + 1 + scid_len)) + "s"
    if d.length < 1 + 4 + 1 + dl + 1 + sl then .error .struct   -- not reached: the unpack above succeeded
    else
      let x := Bytes.slice d (7 + dl + sl) (7 + dl + sl + (d.length - (1 + 4 + 1 + dl + 1 + sl)))
      let token := x.take (x.length - 16)              -- x[:-16]
      let tag := x.drop (x.length - 16)                -- x[-16:]
      .ok ({ base with retryToken := some token, retryTag := some tag },
           some (1 + 4 + 1 + dl + 1 + sl + token.length + tag.length))
  | _ => .error .unbound                               -- not reached: `packetType` has four values

/-- the `case QuicHeaderType.SHORT` arm -/
def extractShort (mask : MaskFn) (env : Env) (isServer : Bool) (guessed : Bytes) (ts : Nat) (d : Bytes)
    (fb : UInt8) : Except DErr (Pkt × Option Nat) := do
  let g := guessed.length
  need d (1 + g)                                       -- "B" + str(len(guessed_dcid)) + "s"
  let pnOff := 1 + g
  let sample := Bytes.slice d (pnOff + 4) (pnOff + 4 + 16)
  let key ← ofOpt .key (env.keys (if isServer then .serverApplication else .clientApplication))
  let (fb', pn, pnLen) ← removeHP mask false sample fb key d pnOff env.chacha
  -- fmt += str(pn_len) + "s" + str(len(datagram_data) - (1 + len(guessed_dcid) + pn_len)) + "s"
  if d.length < 1 + g + pnLen then .error .struct
  else
    let payload := Bytes.slice d (1 + g + pnLen) (1 + g + pnLen + (d.length - (1 + g + pnLen)))
    .ok ({ htype := .short, ptype := .rtt1, isServer := isServer, ts := ts, firstByte := [fb'], dcid := guessed,
           pn := some pn, payload := some payload, keyPhase := some (((fb' >>> 2) &&& 1).toNat) },
         some (1 + g + pnLen + payload.length))

/-- extract_quic_packet(in_packet, isserver, guessed_dcid, keys, ciphersuite) on `in_packet.tls_data = d` -/
def extract (mask : MaskFn) (env : Env) (isServer : Bool) (guessed : Bytes) (ts : Nat) (d : Bytes) : Out :=
  match d with
  | [] => { pkts := [], rest := [], err := some .index }          -- get_header_type: `datagram_data[0]`
  | fb :: _ =>
    if Bytes.beNat d = 0 then { pkts := [], rest := [] }           -- zero padding at the end
    else
      match (if isLong fb then extractLong mask env isServer ts d fb
             else extractShort mask env isServer guessed ts d fb) with
      | .error e => { pkts := [], rest := [], err := some e }
      | .ok (p, none) => { pkts := [p], rest := [], err := some .unbound }
      | .ok (p, some total) => { pkts := [p], rest := d.drop total }   -- datagram_data[total_packet_len:]

/-! ### every call shortens non-empty data -/

/-- a bound `total_packet_len` is at least 1 (in fact ≥ 1 + len(guessed_dcid) resp. ≥ 7) -/
theorem total_pos (mask : MaskFn) (env : Env) (isServer : Bool) (guessed : Bytes) (ts : Nat) (d : Bytes) (fb : UInt8)
    (p : Pkt) (t : Nat)
    (h : (if isLong fb then extractLong mask env isServer ts d fb
          else extractShort mask env isServer guessed ts d fb) = .ok (p, some t)) : 1 ≤ t := by
  split at h
  · unfold extractLong at h
    simp only [bind, Except.bind] at h
    repeat' split at h
    all_goals first
      | (simp only [Except.ok.injEq, Prod.mk.injEq, Option.some.injEq] at h; omega)
      | (simp at h)
  · unfold extractShort at h
    simp only [bind, Except.bind] at h
    repeat' split at h
    all_goals first
      | (simp only [Except.ok.injEq, Prod.mk.injEq, Option.some.injEq] at h; omega)
      | (simp at h)

/-- the remainder is a proper suffix: `rest = d[t:]` for some `t ≥ 1` (`t = len(d)` when it is dropped) -/
theorem extract_rest_suffix (mask : MaskFn) (env : Env) (isServer : Bool) (guessed : Bytes) (ts : Nat) (d : Bytes)
    (hd : d ≠ []) : ∃ t, 1 ≤ t ∧ (extract mask env isServer guessed ts d).rest = d.drop t := by
  have hlen : 1 ≤ d.length := by
    cases d with
    | nil => exact absurd rfl hd
    | cons _ _ => simp
  have hnil : ∃ t, 1 ≤ t ∧ ([] : Bytes) = d.drop t := ⟨d.length, hlen, by simp⟩
  unfold extract
  split
  · exact hnil
  · split
    · exact hnil
    · split
      · exact hnil
      · exact hnil
      · rename_i p t ht
        exact ⟨t, total_pos _ _ _ _ _ _ _ _ _ ht, rfl⟩

theorem extract_rest_lt (mask : MaskFn) (env : Env) (isServer : Bool) (guessed : Bytes) (ts : Nat) (d : Bytes)
    (hd : d.length ≠ 0) : (extract mask env isServer guessed ts d).rest.length < d.length := by
  obtain ⟨t, ht, h⟩ := extract_rest_suffix mask env isServer guessed ts d (by intro h; simp [h] at hd)
  rw [h, List.length_drop]; omega

/-! ### the loop of handle_packet -/

/-- `while len(packet.tls_data) != 0: quic_packets, packet = extract_quic_packet(…, keys=self.keys,
    ciphersuite=self.tls_session.ciphersuite); self.packet_buffer_quic.extend(quic_packets); self.handle_quic_packet()`
    — `handle_quic_packet` may change the keys and the cipher suite between two turns (handshake keys derived from
    the Initial of the same datagram; Retry clears them): `s` is the session state, `envOf s` what the next call
    is given, `handle s pkts` the state after `handle_quic_packet`. Returns the final state and all packets. -/
def dissectLoop {σ : Type} (mask : MaskFn) (envOf : σ → Env) (handle : σ → List Pkt → σ)
    (isServer : Bool) (guessed : Bytes) (ts : Nat) (s : σ) (d : Bytes) : σ × List Pkt :=
  if h : d.length = 0 then (s, [])
  else
    let o := extract mask (envOf s) isServer guessed ts d
    let r := dissectLoop mask envOf handle isServer guessed ts (handle s o.pkts) o.rest
    (r.1, o.pkts ++ r.2)
termination_by d.length
decreasing_by exact extract_rest_lt mask (envOf s) isServer guessed ts d h

/-- the loop with keys and cipher suite that do not change during the datagram -/
def dissectAll (mask : MaskFn) (env : Env) (isServer : Bool) (guessed : Bytes) (ts : Nat) (d : Bytes) : List Pkt :=
  (dissectLoop (σ := Unit) mask (fun _ => env) (fun _ _ => ()) isServer guessed ts () d).2

/-- the calls the loop makes, in order: (data given, result) -/
def dissectTrace {σ : Type} (mask : MaskFn) (envOf : σ → Env) (handle : σ → List Pkt → σ)
    (isServer : Bool) (guessed : Bytes) (ts : Nat) (s : σ) (d : Bytes) : List (Bytes × Out) :=
  if h : d.length = 0 then []
  else
    let o := extract mask (envOf s) isServer guessed ts d
    (d, o) :: dissectTrace mask envOf handle isServer guessed ts (handle s o.pkts) o.rest
termination_by d.length
decreasing_by exact extract_rest_lt mask (envOf s) isServer guessed ts d h

/-! ### derived attributes and the associated data -/

/-- `token_len = decode_variable_length_int(token_len_bytes)` -/
def _root_.TLX.Quic.Pkt.tokenLen (p : Pkt) : Option Nat := p.tokenLenBytes.bind decodeVarint

/-- `packet_len = decode_variable_length_int(packet_len_bytes).to_bytes(packet_len_len, "big")` -/
def _root_.TLX.Quic.Pkt.packetLen (p : Pkt) : Option Bytes :=
  p.lenBytes.bind fun b => (decodeVarint b).map (Bytes.ofNatBE b.length)

/-- `associated_data` of QuicSession.decrypt_packet (quic_session.py 219-228); `none` = the expression raises
    (an attribute the constructor did not set / no `case` matched → `associated_data` unbound) -/
def aad (p : Pkt) : Option Bytes :=
  match p.htype with
  | .long =>
    match p.ptype with
    | .initial => do
      let v ← p.version; let dl ← p.dcidLen; let sl ← p.scidLen; let sc ← p.scid
      let tlb ← p.tokenLenBytes; let tok ← p.token; let lb ← p.lenBytes; let pn ← p.pn
      pure (p.firstByte ++ v ++ dl ++ p.dcid ++ sl ++ sc ++ tlb ++ tok ++ lb ++ pn)
    | .handshake | .rtt0 => do
      let v ← p.version; let dl ← p.dcidLen; let sl ← p.scidLen; let sc ← p.scid
      let lb ← p.lenBytes; let pn ← p.pn
      pure (p.firstByte ++ v ++ dl ++ p.dcid ++ sl ++ sc ++ lb ++ pn)
    | _ => none
  | .short => do
    let pn ← p.pn
    pure (p.firstByte ++ p.dcid ++ pn)

end TLX.Quic.Dissect
